// sym.hpp -- tracing scalar types for GLM (translator T1 of /verif/DESIGN.md).
//
// A Sym<K> is used as the element type T of glm::vec/mat/qua.  Every operator and every
// <cmath> function GLM applies to a T appends exactly one node to a global DAG and returns its id.
// Running a GLM function on vectors of distinct input variables therefore returns, per output
// component, the exact expression GLM's source computes for *every* input.  Data-dependent branches
// are enumerated by a path oracle (SymBool::operator bool).  The same entry code is also instantiated
// with the real scalar types; the DAG is then interpreted on concrete inputs and compared bit for bit
// with the real instantiation (self-validation of the translator).
//
// This header must be included BEFORE any glm header.
#pragma once
#include <cstdint>
#include <cstdio>
#include <cstdlib>
#include <cstring>
#include <cmath>
#include <limits>
#include <vector>
#include <string>
#include <map>
#include <tuple>
#include <functional>
#include <type_traits>
#include <stdexcept>
#include <algorithm>
#include <cstddef>
#include <climits>
#include <cfloat>

namespace vt {

enum Kind : uint8_t { F32 = 0, F64, I32, U32, I64, U64, KB, I16, U16, I8, U8, NKIND };
static const char* const kind_name[] = {"F32","F64","I32","U32","I64","U64","KB","I16","U16","I8","U8"};
inline bool kind_is_float(Kind k) { return k == F32 || k == F64; }
inline bool kind_is_signed(Kind k) { return k == I32 || k == I64 || k == I16 || k == I8; }
inline int kind_bits(Kind k) { switch (k) { case F32: case I32: case U32: return 32; case F64: case I64: case U64: return 64; case I16: case U16: return 16; case I8: case U8: return 8; default: return 1; } }

enum Op : uint16_t {
	VAR, CST,
	// unary, result kind = operand kind
	NEG, BNOT, SQRT, FLOOR, CEIL, TRUNC, ROUND, FABS, SIN, COS, TAN, ASIN, ACOS, ATAN, SINH, COSH, TANH,
	ASINH, ACOSH, ATANH, EXP, LOG, EXP2, LOG2, RCP, RSQRT, NEARBY,
	// binary, result kind = operand kind
	ADD, SUB, MUL, DIV, REM, BAND, BOR, BXOR, SHL, SHR, POW, ATAN2, FMOD, FMIN, FMAX, NEXTAFTER, COPYSIGN, LDEXP,
	// ternary
	FMA,
	// comparisons (operand kind in k, result KB) and boolean connectives
	LT, LE, GT, GE, EQ, NE, ISNAN, ISINF, LNOT, LAND, LOR,
	CAST,  // k = destination kind, k2 = source kind
	NOP
};
static const char* const op_name[] = {
	"VAR","CST",
	"Neg","BNot","Sqrt","Floor","Ceil","Trunc","Round","FAbs","Sin","Cos","Tan","Asin","Acos","Atan","Sinh","Cosh","Tanh",
	"Asinh","Acosh","Atanh","Exp","Log","Exp2","Log2","Rcp","Rsqrt","Nearby",
	"Add","Sub","Mul","Div","Rem","BAnd","BOr","BXor","Shl","Shr","Pow","Atan2","Fmod","FMin","FMax","NextAfter","CopySign","Ldexp",
	"Fma",
	"CLt","CLe","CGt","CGe","CEq","CNe","IsNan","IsInf","LNot","LAnd","LOr",
	"CAST","NOP"};
inline bool op_is_unary(Op o) { return (o >= NEG && o <= NEARBY); }
inline bool op_is_binary(Op o) { return (o >= ADD && o <= LDEXP); }
inline bool op_is_cmp(Op o) { return (o >= LT && o <= NE); }

struct Node {
	Op op; Kind k; Kind k2; uint32_t a, b, c; uint64_t bits;
	bool operator<(Node const& o) const { return std::tie(op, k, k2, a, b, c, bits) < std::tie(o.op, o.k, o.k2, o.a, o.b, o.c, o.bits); }
};

struct Untraceable : std::runtime_error { Untraceable(std::string const& s) : std::runtime_error(s) {} };

struct Graph {
	std::vector<Node> nodes;
	std::map<Node, uint32_t> cons;
	// path oracle
	std::vector<uint8_t> dec; size_t pos = 0;
	std::vector<std::pair<uint32_t, bool> > path;   // (condition node, value taken) in order
	std::vector<uint32_t> pre;                       // recorded assert() conditions on this path
	bool tracing = false;
	// Values handed to GLM are (epoch << 16 | node id): a value that was never written in this execution (GLM reading an
	// uninitialised object, or a stale stack slot from an earlier path) fails the epoch check instead of aliasing a node.
	uint32_t epoch = 1;
	uint32_t enc(uint32_t id) const { return (epoch << 16) | id; }
	uint32_t undo(uint32_t raw) const { if ((raw >> 16) != epoch || (raw & 0xffffu) >= nodes.size()) throw Untraceable("uninitialised value used"); return raw & 0xffffu; }
	void reset_all() { nodes.clear(); cons.clear(); dec.clear(); pos = 0; path.clear(); pre.clear(); epoch = (epoch % 0xfffeu) + 1; }
	void reset_path() { pos = 0; path.clear(); pre.clear(); epoch = (epoch % 0xfffeu) + 1; }
	// operands arrive tagged (see enc/undo); the result is tagged
	uint32_t mk(Op op, Kind k, uint32_t a = 0, uint32_t b = 0, uint32_t c = 0, uint64_t bits = 0, Kind k2 = NKIND) {
		if (op != VAR && op != CST) {
			a = undo(a);
			if ((op >= ADD && op <= LDEXP) || (op >= LT && op <= NE) || op == LAND || op == LOR || op == FMA) b = undo(b);
			if (op == FMA) c = undo(c);
		}
		Node n{op, k, k2, a, b, c, bits};
		auto it = cons.find(n);
		if (it != cons.end()) return enc(it->second);
		uint32_t id = (uint32_t)nodes.size();
		if (id >= 60000u) throw Untraceable("node limit exceeded");
		nodes.push_back(n); cons.emplace(n, id); return enc(id);
	}
	bool decide(uint32_t rawcond) {
		uint32_t cond = undo(rawcond);
		for (auto const& p : path) if (p.first == cond) return p.second;     // same condition, same answer
		Node const& n = nodes[cond];
		if (n.op == CST) return n.bits != 0;
		bool v;
		if (pos < dec.size()) v = dec[pos] != 0; else { dec.push_back(1); v = true; }
		++pos;
		if (path.size() > 64) throw Untraceable("path too deep");
		path.emplace_back(cond, v);
		return v;
	}
	// advance the decision vector to the next path (DFS, 'true' first); false when exhausted
	bool next_path() {
		dec.resize(pos);
		while (!dec.empty() && dec.back() == 0) dec.pop_back();
		if (dec.empty()) return false;
		dec.back() = 0; return true;
	}
};
inline Graph& G() { static Graph g; return g; }

template<Kind K> struct native;
template<> struct native<F32> { typedef float type; };
template<> struct native<F64> { typedef double type; };
template<> struct native<I32> { typedef int32_t type; };
template<> struct native<U32> { typedef uint32_t type; };
template<> struct native<I64> { typedef int64_t type; };
template<> struct native<U64> { typedef uint64_t type; };
template<> struct native<I16> { typedef int16_t type; };
template<> struct native<U16> { typedef uint16_t type; };
template<> struct native<KB>  { typedef bool type; };

template<class N> inline uint64_t to_bits(N v) {
	uint64_t r = 0;
	if (std::is_same<N, bool>::value) { r = v ? 1 : 0; return r; }
	std::memcpy(&r, &v, sizeof(N)); return r;   // little endian: low bytes, zero extended
}
template<class N> inline N from_bits(uint64_t b) { N v; std::memcpy(&v, &b, sizeof(N)); return v; }
template<> inline bool from_bits<bool>(uint64_t b) { return b != 0; }

struct SymBool {
	uint32_t id;
	SymBool() = default;
	explicit SymBool(uint32_t i, int) : id(i) {}
	SymBool(bool b) : id(G().mk(CST, KB, 0, 0, 0, b ? 1 : 0)) {}
	operator bool() const { return G().decide(id); }
	friend SymBool operator!(SymBool a) { return SymBool(G().mk(LNOT, KB, a.id), 0); }
	friend SymBool operator&&(SymBool a, SymBool b) { return SymBool(G().mk(LAND, KB, a.id, b.id), 0); }
	friend SymBool operator||(SymBool a, SymBool b) { return SymBool(G().mk(LOR, KB, a.id, b.id), 0); }
	friend SymBool operator&&(SymBool a, bool b) { return a && SymBool(b); }
	friend SymBool operator&&(bool a, SymBool b) { return SymBool(a) && b; }
	friend SymBool operator||(SymBool a, bool b) { return a || SymBool(b); }
	friend SymBool operator||(bool a, SymBool b) { return SymBool(a) || b; }
};

template<int Bytes> struct SymStorage { uint32_t id; };
template<> struct SymStorage<8> { uint32_t id; uint32_t pad_; };

template<Kind K>
struct Sym : SymStorage<sizeof(typename native<K>::type) < 4 ? 4 : sizeof(typename native<K>::type)> {
	typedef typename native<K>::type N;
	static const Kind kind = K;
	Sym() = default;
	struct Raw {};
	Sym(uint32_t i, Raw) { this->id = i; }
	static Sym cst(N v) { return Sym(G().mk(CST, K, 0, 0, 0, to_bits<N>(v)), Raw()); }
	// implicit conversion from every arithmetic type: static_cast to the native type first
	template<class A, class = typename std::enable_if<std::is_arithmetic<A>::value>::type>
	Sym(A v) { this->id = G().mk(CST, K, 0, 0, 0, to_bits<N>(static_cast<N>(v))); }
	template<Kind K2, class = typename std::enable_if<K2 != K>::type>
	explicit Sym(Sym<K2> o) { this->id = G().mk(CAST, K, o.id, 0, 0, 0, K2); }
	explicit Sym(SymBool b) { this->id = G().mk(CAST, K, b.id, 0, 0, 0, KB); }

	// conversions to concrete arithmetic types cannot be traced
	template<class A, class = typename std::enable_if<std::is_arithmetic<A>::value && !std::is_same<A, bool>::value>::type>
	explicit operator A() const { throw Untraceable(std::string("conversion of a traced value to a concrete ") + typeid(A).name()); }
	explicit operator bool() const { return (bool)(*this != Sym(0)); }

	static Sym un(Op o, Sym a) { return Sym(G().mk(o, K, a.id), Raw()); }
	static Sym bin(Op o, Sym a, Sym b) { return Sym(G().mk(o, K, a.id, b.id), Raw()); }
	static SymBool cmp(Op o, Sym a, Sym b) { return SymBool(G().mk(o, K, a.id, b.id), 0); }

	friend Sym operator+(Sym a, Sym b) { return bin(ADD, a, b); }
	friend Sym operator-(Sym a, Sym b) { return bin(SUB, a, b); }
	friend Sym operator*(Sym a, Sym b) { return bin(MUL, a, b); }
	friend Sym operator/(Sym a, Sym b) { return bin(DIV, a, b); }
	friend Sym operator%(Sym a, Sym b) { return bin(REM, a, b); }
	friend Sym operator&(Sym a, Sym b) { return bin(BAND, a, b); }
	friend Sym operator|(Sym a, Sym b) { return bin(BOR, a, b); }
	friend Sym operator^(Sym a, Sym b) { return bin(BXOR, a, b); }
	friend Sym operator-(Sym a) { return un(NEG, a); }
	friend Sym operator+(Sym a) { return a; }
	friend Sym operator~(Sym a) { return un(BNOT, a); }
	friend SymBool operator!(Sym a) { return a == Sym(0); }
	friend SymBool operator<(Sym a, Sym b) { return cmp(LT, a, b); }
	friend SymBool operator<=(Sym a, Sym b) { return cmp(LE, a, b); }
	friend SymBool operator>(Sym a, Sym b) { return cmp(GT, a, b); }
	friend SymBool operator>=(Sym a, Sym b) { return cmp(GE, a, b); }
	friend SymBool operator==(Sym a, Sym b) { return cmp(EQ, a, b); }
	friend SymBool operator!=(Sym a, Sym b) { return cmp(NE, a, b); }
	Sym& operator+=(Sym b) { return *this = *this + b; }
	Sym& operator-=(Sym b) { return *this = *this - b; }
	Sym& operator*=(Sym b) { return *this = *this * b; }
	Sym& operator/=(Sym b) { return *this = *this / b; }
	Sym& operator%=(Sym b) { return *this = *this % b; }
	Sym& operator&=(Sym b) { return *this = *this & b; }
	Sym& operator|=(Sym b) { return *this = *this | b; }
	Sym& operator^=(Sym b) { return *this = *this ^ b; }
	Sym& operator++() { return *this = *this + Sym(1); }
	Sym& operator--() { return *this = *this - Sym(1); }
	Sym operator++(int) { Sym t = *this; *this = *this + Sym(1); return t; }
	Sym operator--(int) { Sym t = *this; *this = *this - Sym(1); return t; }
	// shifts: the count may be of any integer kind or a concrete integer; it is converted to this kind
	// (value preserving for every in-range count), the node records value and count.
	template<Kind K2> static Sym conv_count(Sym<K2> c) { return Sym(c); }
	static Sym conv_count(Sym c) { return c; }
	template<class C> friend typename std::enable_if<std::is_integral<C>::value, Sym>::type operator<<(Sym a, C c) { return bin(SHL, a, Sym(c)); }
	template<class C> friend typename std::enable_if<std::is_integral<C>::value, Sym>::type operator>>(Sym a, C c) { return bin(SHR, a, Sym(c)); }
	template<Kind K2> friend Sym operator<<(Sym a, Sym<K2> c) { return bin(SHL, a, conv_count(c)); }
	template<Kind K2> friend Sym operator>>(Sym a, Sym<K2> c) { return bin(SHR, a, conv_count(c)); }
	template<class C> Sym& operator<<=(C c) { return *this = *this << c; }
	template<class C> Sym& operator>>=(C c) { return *this = *this >> c; }
};

typedef Sym<F32> sf32; typedef Sym<F64> sf64; typedef Sym<I32> si32; typedef Sym<U32> su32; typedef Sym<I64> si64; typedef Sym<U64> su64;

static_assert(sizeof(sf32) == 4 && sizeof(sf64) == 8 && sizeof(si64) == 8 && sizeof(su32) == 4, "Sym size must match the native type");
static_assert(std::is_trivially_default_constructible<sf32>::value, "Sym must be trivially default constructible (anonymous unions in glm::vec)");

// assert() support: the condition is recorded as a precondition of the current path, not forked on.
inline void vassert(SymBool b) { if (G().tracing) G().pre.push_back(G().undo(b.id)); }
inline void vassert(bool) {}
template<class T> inline void vassert(T const& x) { (void)x; }

} // namespace vt

// ------------------------------------------------------------------------------------------------
// <cmath> and <limits> for Sym: declared in namespace std so that GLM's `using std::sqrt;` and
// `functor1<...>::call(std::floor, x)` select them exactly as they select the float overloads.
namespace std {
#define VT_UN(fn, OP) template<vt::Kind K> inline vt::Sym<K> fn(vt::Sym<K> x) { return vt::Sym<K>::un(vt::OP, x); }
	VT_UN(sqrt, SQRT) VT_UN(floor, FLOOR) VT_UN(ceil, CEIL) VT_UN(trunc, TRUNC) VT_UN(round, ROUND) VT_UN(fabs, FABS)
	VT_UN(sin, SIN) VT_UN(cos, COS) VT_UN(tan, TAN) VT_UN(asin, ASIN) VT_UN(acos, ACOS) VT_UN(atan, ATAN)
	VT_UN(sinh, SINH) VT_UN(cosh, COSH) VT_UN(tanh, TANH) VT_UN(asinh, ASINH) VT_UN(acosh, ACOSH) VT_UN(atanh, ATANH)
	VT_UN(exp, EXP) VT_UN(log, LOG) VT_UN(exp2, EXP2) VT_UN(log2, LOG2) VT_UN(nearbyint, NEARBY) VT_UN(rint, NEARBY)
#undef VT_UN
	// std::abs: floating -> fabs node; integer -> the C library definition x < 0 ? -x : x is NOT assumed:
	// an explicit FABS node of integer kind denotes std::abs on that integer type.
	template<vt::Kind K> inline vt::Sym<K> abs(vt::Sym<K> x) { return vt::Sym<K>::un(vt::FABS, x); }
#define VT_BIN(fn, OP) template<vt::Kind K> inline vt::Sym<K> fn(vt::Sym<K> x, vt::Sym<K> y) { return vt::Sym<K>::bin(vt::OP, x, y); }
	VT_BIN(pow, POW) VT_BIN(atan2, ATAN2) VT_BIN(fmod, FMOD) VT_BIN(fmin, FMIN) VT_BIN(fmax, FMAX) VT_BIN(nextafter, NEXTAFTER) VT_BIN(copysign, COPYSIGN)
#undef VT_BIN
	template<vt::Kind K> inline vt::Sym<K> atan(vt::Sym<K> y, vt::Sym<K> x) { return vt::Sym<K>::bin(vt::ATAN2, y, x); }
	template<vt::Kind K> inline vt::Sym<K> fma(vt::Sym<K> a, vt::Sym<K> b, vt::Sym<K> c) { return vt::Sym<K>(vt::G().mk(vt::FMA, K, a.id, b.id, c.id), typename vt::Sym<K>::Raw()); }
	template<vt::Kind K> inline vt::SymBool isnan(vt::Sym<K> x) { return vt::SymBool(vt::G().mk(vt::ISNAN, K, x.id), 0); }
	template<vt::Kind K> inline vt::SymBool isinf(vt::Sym<K> x) { return vt::SymBool(vt::G().mk(vt::ISINF, K, x.id), 0); }
	template<vt::Kind K> inline vt::Sym<K> ldexp(vt::Sym<K> x, vt::Sym<vt::I32> e) { return vt::Sym<K>::bin(vt::LDEXP, x, vt::Sym<K>(e)); }
	template<vt::Kind K> inline vt::Sym<K> ldexp(vt::Sym<K> x, int e) { return vt::Sym<K>::bin(vt::LDEXP, x, vt::Sym<K>(e)); }
	template<vt::Kind K> inline vt::Sym<K> frexp(vt::Sym<K>, int*) { throw vt::Untraceable("frexp"); }
	template<vt::Kind K> inline vt::Sym<K> modf(vt::Sym<K>, vt::Sym<K>*) { throw vt::Untraceable("modf"); }

	template<vt::Kind K> struct numeric_limits<vt::Sym<K> > : numeric_limits<typename vt::native<K>::type> {
		typedef typename vt::native<K>::type N; typedef numeric_limits<N> B; typedef vt::Sym<K> S;
		static S min() { return S::cst(B::min()); }
		static S max() { return S::cst(B::max()); }
		static S lowest() { return S::cst(B::lowest()); }
		static S epsilon() { return S::cst(B::epsilon()); }
		static S round_error() { return S::cst(B::round_error()); }
		static S infinity() { return S::cst(B::infinity()); }
		static S quiet_NaN() { return S::cst(B::quiet_NaN()); }
		static S signaling_NaN() { return S::cst(B::signaling_NaN()); }
		static S denorm_min() { return S::cst(B::denorm_min()); }
	};
	template<vt::Kind K> struct numeric_limits<const vt::Sym<K> > : numeric_limits<vt::Sym<K> > {};
	// libstdc++ accepts these specialisations; GLM dispatches on make_unsigned/make_signed for the shift tricks
	template<> struct make_unsigned<vt::Sym<vt::I32> > { typedef vt::Sym<vt::U32> type; };
	template<> struct make_unsigned<vt::Sym<vt::U32> > { typedef vt::Sym<vt::U32> type; };
	template<> struct make_unsigned<vt::Sym<vt::I64> > { typedef vt::Sym<vt::U64> type; };
	template<> struct make_unsigned<vt::Sym<vt::U64> > { typedef vt::Sym<vt::U64> type; };
	template<> struct make_signed<vt::Sym<vt::I32> > { typedef vt::Sym<vt::I32> type; };
	template<> struct make_signed<vt::Sym<vt::U32> > { typedef vt::Sym<vt::I32> type; };
	template<> struct make_signed<vt::Sym<vt::I64> > { typedef vt::Sym<vt::I64> type; };
	template<> struct make_signed<vt::Sym<vt::U64> > { typedef vt::Sym<vt::I64> type; };
}
