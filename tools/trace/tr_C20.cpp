// C20 trace catalogue: integer and bitfield functions on 32-bit ints (translator T1), for the UB-freedom theorems
// (strict two's-complement semantics: signed overflow, bad shift counts, division by zero, INT_MIN / -1 are errors).
// x = arg 0, y = arg 1, z = arg 2 (component 0 each).  Functions whose count / shift parameter is a concrete `int` in the
// API are instantiated at the boundary values of their documented range.
#define GLM_ENABLE_EXPERIMENTAL
#include "driver.hpp"
#include <glm/common.hpp>
#include <glm/integer.hpp>
#include <glm/gtc/bitfield.hpp>
#include <glm/gtc/round.hpp>
#include <glm/ext/scalar_integer.hpp>
#include <glm/gtx/integer.hpp>
using namespace vt;
#define TI typename S::i32
#define TU typename S::u32
#define X c.template in<TI>(0, 0)
#define Y c.template in<TI>(1, 0)
#define Z c.template in<TI>(2, 0)
#define UX c.template in<TU>(0, 0)
#define UY c.template in<TU>(1, 0)
ENTRY(abs_i) { c.out(glm::abs(X)); }
ENTRY(sign_i) { c.out(glm::sign(X)); }
ENTRY(min_i) { c.out(glm::min(X, Y)); }
ENTRY(max_i) { c.out(glm::max(X, Y)); }
ENTRY(clamp_i) { c.out(glm::clamp(X, Y, Z)); }
ENTRY(mix_i_bool) { c.out(glm::mix(X, Y, Z > TI(0))); }
ENTRY(bitCount_i) { c.out(glm::bitCount(X)); }
ENTRY(bitCount_u) { c.out(glm::bitCount(UX)); }
ENTRY(findLSB_i) { c.out(glm::findLSB(X)); }
ENTRY(findMSB_i) { c.out(glm::findMSB(X)); }
ENTRY(findMSB_u) { c.out(glm::findMSB(UX)); }
ENTRY(bitfieldReverse_i) { c.out(glm::bitfieldReverse(X)); }
ENTRY(bitfieldReverse_u) { c.out(glm::bitfieldReverse(UX)); }
#define EXTRACT(o, b) ENTRY(bitfieldExtract_i_##o##_##b) { c.out(glm::bitfieldExtract(X, o, b)); } ENTRY(bitfieldExtract_u_##o##_##b) { c.out(glm::bitfieldExtract(UX, o, b)); } \
	ENTRY(bitfieldInsert_i_##o##_##b) { c.out(glm::bitfieldInsert(X, Y, o, b)); } ENTRY(bitfieldInsert_u_##o##_##b) { c.out(glm::bitfieldInsert(UX, UY, o, b)); }
EXTRACT(0, 0) EXTRACT(0, 1) EXTRACT(0, 31) EXTRACT(0, 32) EXTRACT(5, 7) EXTRACT(31, 1) EXTRACT(16, 16) EXTRACT(1, 31) EXTRACT(31, 0)
ENTRY(mask_i) { c.out(glm::mask(X)); }
ENTRY(mask_u) { c.out(glm::mask(UX)); }
// (the scalar rotate overloads convert sizeof(T)*8 through T and cannot be instantiated with the tracing scalar: vec1 overloads, same expression)
#define ROT(s) ENTRY(rotR_u_##s) { out_vec(c, glm::bitfieldRotateRight(glm::vec<1, TU>(UX), s)); } ENTRY(rotL_u_##s) { out_vec(c, glm::bitfieldRotateLeft(glm::vec<1, TU>(UX), s)); } ENTRY(rotR_i_##s) { out_vec(c, glm::bitfieldRotateRight(glm::vec<1, TI>(X), s)); }
ROT(0) ROT(1) ROT(16) ROT(31) ROT(32)
#define FILL(f, n) ENTRY(fillOne_u_##f##_##n) { c.out(glm::bitfieldFillOne(UX, f, n)); } ENTRY(fillZero_i_##f##_##n) { c.out(glm::bitfieldFillZero(X, f, n)); }
FILL(0, 0) FILL(0, 31) FILL(0, 32) FILL(1, 31) FILL(31, 1) FILL(8, 8)
ENTRY(isPowerOfTwo_i) { c.out(glm::isPowerOfTwo(X)); }
ENTRY(isPowerOfTwo_u) { c.out(glm::isPowerOfTwo(UX)); }
ENTRY(ceilPowerOfTwo_i) { c.out(glm::ceilPowerOfTwo(X)); }
ENTRY(ceilPowerOfTwo_u) { c.out(glm::ceilPowerOfTwo(UX)); }
ENTRY(floorPowerOfTwo_i) { c.out(glm::floorPowerOfTwo(X)); }
ENTRY(floorPowerOfTwo_u) { c.out(glm::floorPowerOfTwo(UX)); }
ENTRY(roundPowerOfTwo_u) { c.out(glm::roundPowerOfTwo(UX)); }
ENTRY(ceilMultiple_i) { c.out(glm::ceilMultiple(X, Y)); }
ENTRY(floorMultiple_i) { c.out(glm::floorMultiple(X, Y)); }
ENTRY(ceilMultiple_u) { c.out(glm::ceilMultiple(UX, UY)); }
ENTRY(floorMultiple_u) { c.out(glm::floorMultiple(UX, UY)); }
ENTRY(isMultiple_i) { c.out(glm::isMultiple(X, Y)); }
ENTRY(rem_i) { out_vec(c, glm::vec<1, TI>(X) % glm::vec<1, TI>(Y)); }
ENTRY(div_i) { out_vec(c, glm::vec<1, TI>(X) / glm::vec<1, TI>(Y)); }
ENTRY(neg_i) { out_vec(c, -glm::vec<1, TI>(X)); }
ENTRY(shl_i) { out_vec(c, glm::vec<1, TI>(X) << glm::vec<1, TI>(Y)); }
ENTRY(shr_i) { out_vec(c, glm::vec<1, TI>(X) >> glm::vec<1, TI>(Y)); }
VT_MAIN("C20")
