// C04 trace catalogue: quaternion <-> matrix <-> axis-angle <-> Euler forms (translator T1).
// Quaternion components are numbered x=0,y=1,z=2,w=3 whatever the storage order.
#define GLM_ENABLE_EXPERIMENTAL
#include "driver.hpp"
#include <glm/gtc/quaternion.hpp>
#include <glm/gtx/quaternion.hpp>
#include <glm/gtx/euler_angles.hpp>
using namespace vt;
#define TY typename S::f32
#define Q0 in_qua<TY>(c, 0)
ENTRY(q_mul_v3) { auto q = Q0; auto v = in_vec<3, TY>(c, 1); out_vec(c, q * v); }
ENTRY(q_mul_v4) { auto q = Q0; auto v = in_vec<4, TY>(c, 1); out_vec(c, q * v); }
ENTRY(v3_mul_q) { auto q = Q0; auto v = in_vec<3, TY>(c, 1); out_vec(c, v * q); }
ENTRY(mat3_cast) { out_mat(c, glm::mat3_cast(Q0)); }
ENTRY(mat4_cast) { out_mat(c, glm::mat4_cast(Q0)); }
ENTRY(mat3_cast_mul_v3) { auto q = Q0; auto v = in_vec<3, TY>(c, 1); out_vec(c, glm::mat3_cast(q) * v); }
ENTRY(quat_cast_m3) { auto m = in_mat<3, 3, TY>(c, 0); out_qua(c, glm::quat_cast(m)); }
ENTRY(quat_cast_of_mat3_cast) { out_qua(c, glm::quat_cast(glm::mat3_cast(Q0))); }
ENTRY(quat_cast_of_mat4_cast) { out_qua(c, glm::quat_cast(glm::mat4_cast(Q0))); }
ENTRY(quat_cast_m4) { auto m = in_mat<4, 4, TY>(c, 0); out_qua(c, glm::quat_cast(m)); }
ENTRY(q_mul_q) { auto a = Q0; auto b = in_qua<TY>(c, 1); out_qua(c, a * b); }
ENTRY(mat3_cast_of_product) { auto a = Q0; auto b = in_qua<TY>(c, 1); out_mat(c, glm::mat3_cast(a * b)); }
ENTRY(inverse_q) { out_qua(c, glm::inverse(Q0)); }
ENTRY(conjugate_q) { out_qua(c, glm::conjugate(Q0)); }
ENTRY(q_mul_inverse) { auto q = Q0; out_qua(c, q * glm::inverse(q)); }
ENTRY(dot_q) { auto a = Q0; auto b = in_qua<TY>(c, 1); c.out(glm::dot(a, b)); }
ENTRY(length_q) { c.out(glm::length(Q0)); }
ENTRY(normalize_q) { out_qua(c, glm::normalize(Q0)); }
ENTRY(add_q) { auto a = Q0; auto b = in_qua<TY>(c, 1); out_qua(c, a + b); }
ENTRY(sub_q) { auto a = Q0; auto b = in_qua<TY>(c, 1); out_qua(c, a - b); }
ENTRY(neg_q) { out_qua(c, -Q0); }
ENTRY(scale_q) { auto a = Q0; TY s = c.template in<TY>(1, 0); out_qua(c, a * s); }
ENTRY(div_q) { auto a = Q0; TY s = c.template in<TY>(1, 0); out_qua(c, a / s); }
ENTRY(angle_q) { c.out(glm::angle(Q0)); }
ENTRY(axis_q) { out_vec(c, glm::axis(Q0)); }
ENTRY(angleAxis) { TY a = c.template in<TY>(0, 0); auto v = in_vec<3, TY>(c, 1); out_qua(c, glm::angleAxis(a, v)); }
ENTRY(angleAxis_of_angle_axis) { auto q = Q0; out_qua(c, glm::angleAxis(glm::angle(q), glm::axis(q))); }
ENTRY(rotate_q) { auto q = Q0; TY a = c.template in<TY>(1, 0); auto v = in_vec<3, TY>(c, 2); out_qua(c, glm::rotate(q, a, v)); }
ENTRY(eulerAngles_q) { out_vec(c, glm::eulerAngles(Q0)); }
ENTRY(roll_q) { c.out(glm::roll(Q0)); }
ENTRY(pitch_q) { c.out(glm::pitch(Q0)); }
ENTRY(yaw_q) { c.out(glm::yaw(Q0)); }
ENTRY(quat_from_euler) { auto e = in_vec<3, TY>(c, 0); out_qua(c, glm::qua<TY>(e)); }
ENTRY(quat_from_two_vectors) { auto u = in_vec<3, TY>(c, 0); auto v = in_vec<3, TY>(c, 1); out_qua(c, glm::qua<TY>(u, v)); }
ENTRY(two_vectors_rotate_u) { auto u = in_vec<3, TY>(c, 0); auto v = in_vec<3, TY>(c, 1); out_vec(c, glm::qua<TY>(u, v) * u); }
ENTRY(toMat3_gtx) { out_mat(c, glm::toMat3(Q0)); }
ENTRY(toMat4_gtx) { out_mat(c, glm::toMat4(Q0)); }
ENTRY(gtx_rotate_v3) { auto q = Q0; auto v = in_vec<3, TY>(c, 1); out_vec(c, glm::rotate(q, v)); }
ENTRY(gtx_cross_q_v) { auto q = Q0; auto v = in_vec<3, TY>(c, 1); out_vec(c, glm::cross(q, v)); }
ENTRY(gtx_cross_v_q) { auto q = Q0; auto v = in_vec<3, TY>(c, 1); out_vec(c, glm::cross(v, q)); }
#define A(i) c.template in<TY>(0, i)
#define EU1(N) ENTRY(N) { out_mat(c, glm::N(A(0))); }
#define EU2(N) ENTRY(N) { out_mat(c, glm::N(A(0), A(1))); }
#define EU3(N) ENTRY(N) { out_mat(c, glm::N(A(0), A(1), A(2))); }
EU1(eulerAngleX) EU1(eulerAngleY) EU1(eulerAngleZ)
EU2(eulerAngleXY) EU2(eulerAngleYX) EU2(eulerAngleXZ) EU2(eulerAngleZX) EU2(eulerAngleYZ) EU2(eulerAngleZY)
EU3(eulerAngleXYZ) EU3(eulerAngleYXZ) EU3(eulerAngleXZX) EU3(eulerAngleXYX) EU3(eulerAngleYXY) EU3(eulerAngleYZY) EU3(eulerAngleZYZ) EU3(eulerAngleZXZ)
EU3(eulerAngleXZY) EU3(eulerAngleYZX) EU3(eulerAngleZYX) EU3(eulerAngleZXY) EU3(yawPitchRoll)
ENTRY(derivedEulerAngleX) { out_mat(c, glm::derivedEulerAngleX(A(0), A(1))); }
ENTRY(derivedEulerAngleY) { out_mat(c, glm::derivedEulerAngleY(A(0), A(1))); }
ENTRY(derivedEulerAngleZ) { out_mat(c, glm::derivedEulerAngleZ(A(0), A(1))); }
ENTRY(orientate2) { out_mat(c, glm::orientate2(A(0))); }
ENTRY(orientate3_s) { out_mat(c, glm::orientate3(A(0))); }
ENTRY(orientate3_v) { auto v = in_vec<3, TY>(c, 0); out_mat(c, glm::orientate3(v)); }
ENTRY(orientate4_v) { auto v = in_vec<3, TY>(c, 0); out_mat(c, glm::orientate4(v)); }
#define EX(N) ENTRY(N) { auto m = in_mat<4, 4, TY>(c, 0); TY t1, t2, t3; glm::N(m, t1, t2, t3); c.out(t1); c.out(t2); c.out(t3); }
EX(extractEulerAngleXYZ) EX(extractEulerAngleYXZ) EX(extractEulerAngleXZX) EX(extractEulerAngleXYX) EX(extractEulerAngleYXY) EX(extractEulerAngleYZY)
EX(extractEulerAngleZYZ) EX(extractEulerAngleZXZ) EX(extractEulerAngleXZY) EX(extractEulerAngleYZX) EX(extractEulerAngleZYX) EX(extractEulerAngleZXY)
VT_MAIN("C04")
