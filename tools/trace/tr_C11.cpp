// C11 trace catalogue: common functions, scalar forms (translator T1).  x = arg 0, y = arg 1, z = arg 2, w = arg 3.
#define GLM_ENABLE_EXPERIMENTAL
#include "driver.hpp"
#include <glm/common.hpp>
#include <glm/ext/scalar_common.hpp>
#include <glm/ext/vector_common.hpp>
#include <glm/gtx/common.hpp>
#include <glm/gtx/wrap.hpp>
using namespace vt;
#define TY typename S::f32
#define X c.template in<TY>(0, 0)
#define Y c.template in<TY>(1, 0)
#define Z c.template in<TY>(2, 0)
#define W c.template in<TY>(3, 0)
ENTRY(roundEven) { c.out(glm::roundEven(X)); }
ENTRY(fract) { c.out(glm::fract(X)); }
ENTRY(mod) { c.out(glm::mod(X, Y)); }
ENTRY(abs) { c.out(glm::abs(X)); }
ENTRY(sign) { c.out(glm::sign(X)); }
ENTRY(min2) { c.out(glm::min(X, Y)); }
ENTRY(max2) { c.out(glm::max(X, Y)); }
ENTRY(min3) { c.out(glm::min(X, Y, Z)); }
ENTRY(max3) { c.out(glm::max(X, Y, Z)); }
ENTRY(min4) { c.out(glm::min(X, Y, Z, W)); }
ENTRY(max4) { c.out(glm::max(X, Y, Z, W)); }
ENTRY(clamp) { c.out(glm::clamp(X, Y, Z)); }
ENTRY(step) { c.out(glm::step(X, Y)); }
ENTRY(smoothstep) { c.out(glm::smoothstep(X, Y, Z)); }
ENTRY(mix) { c.out(glm::mix(X, Y, Z)); }
ENTRY(mix_bool) { c.out(glm::mix(X, Y, Z > TY(0))); }
ENTRY(fmin3) { c.out(glm::fmin(X, Y, Z)); }
ENTRY(fmax3) { c.out(glm::fmax(X, Y, Z)); }
ENTRY(fmin4) { c.out(glm::fmin(X, Y, Z, W)); }
ENTRY(fmax4) { c.out(glm::fmax(X, Y, Z, W)); }
ENTRY(fmin2) { c.out(glm::fmin(X, Y)); }
ENTRY(fmax2) { c.out(glm::fmax(X, Y)); }
ENTRY(fclamp) { c.out(glm::fclamp(X, Y, Z)); }
ENTRY(tex_clamp) { c.out(glm::clamp(X)); }
ENTRY(tex_repeat) { c.out(glm::repeat(X)); }
ENTRY(tex_mirrorClamp) { c.out(glm::mirrorClamp(X)); }
ENTRY(tex_mirrorRepeat) { c.out(glm::mirrorRepeat(X)); }
ENTRY(iround) { c.out(glm::iround(X)); }
ENTRY(uround) { c.out(glm::uround(X)); }
ENTRY(floor) { c.out(glm::floor(X)); }
ENTRY(ceil) { c.out(glm::ceil(X)); }
ENTRY(trunc) { c.out(glm::trunc(X)); }
ENTRY(round) { c.out(glm::round(X)); }
VT_MAIN("C11")
