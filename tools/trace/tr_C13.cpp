// C13 trace catalogue: quaternion interpolation (translator T1).  x = arg 0, y = arg 1, a = arg 2 comp 0, k = arg 3.
#define GLM_ENABLE_EXPERIMENTAL
#include "driver.hpp"
#include <glm/gtc/quaternion.hpp>
#include <glm/gtx/quaternion.hpp>
#include <glm/gtx/dual_quaternion.hpp>
#include <glm/gtx/compatibility.hpp>
using namespace vt;
#define TY typename S::f32
#define QX in_qua<TY>(c, 0)
#define QY in_qua<TY>(c, 1)
#define AA c.template in<TY>(2, 0)
ENTRY(lerp_q) { out_qua(c, glm::lerp(QX, QY, AA)); }
ENTRY(mix_q) { out_qua(c, glm::mix(QX, QY, AA)); }
ENTRY(slerp_q) { out_qua(c, glm::slerp(QX, QY, AA)); }
ENTRY(slerp_k) { auto k = c.template in<typename S::i32>(3, 0); out_qua(c, glm::slerp(QX, QY, AA, k)); }
ENTRY(shortMix_q) { out_qua(c, glm::shortMix(QX, QY, AA)); }
ENTRY(fastMix_q) { out_qua(c, glm::fastMix(QX, QY, AA)); }
ENTRY(intermediate_q) { auto p = QX; auto cu = QY; auto n = in_qua<TY>(c, 2); out_qua(c, glm::intermediate(p, cu, n)); }
ENTRY(dual_lerp) { glm::tdualquat<TY> a(QX, QY), b(in_qua<TY>(c, 2), in_qua<TY>(c, 3)); TY t = c.template in<TY>(4, 0); auto r = glm::lerp(a, b, t); out_qua(c, r.real); out_qua(c, r.dual); }
ENTRY(dual_normalize) { glm::tdualquat<TY> a(QX, QY); auto r = glm::normalize(a); out_qua(c, r.real); out_qua(c, r.dual); }
VT_MAIN("C13")
