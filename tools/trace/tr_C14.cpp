// C14 trace catalogue: comparisons with an epsilon (translator T1).  x = arg 0, y = arg 1, epsilon = arg 2.
// The scalar epsilonEqual/epsilonNotEqual are explicit float/double specialisations (not instantiable with the tracing
// scalar): the vec<1> overloads are traced instead and the specialisations are compared by the oracle.
#define GLM_ENABLE_EXPERIMENTAL
#include "driver.hpp"
#include <glm/ext/scalar_relational.hpp>
#include <glm/ext/vector_relational.hpp>
#include <glm/ext/matrix_relational.hpp>
#include <glm/ext/quaternion_relational.hpp>
#include <glm/gtc/epsilon.hpp>
using namespace vt;
#define SC(K, a) c.template in<typename S::K>(a, 0)
template<class B> static B as_out(B b) { return b; }
#define SCALAR4(K) \
ENTRY(equal_eps_##K) { c.out(glm::equal(SC(K, 0), SC(K, 1), SC(K, 2))); } \
ENTRY(notEqual_eps_##K) { c.out(glm::notEqual(SC(K, 0), SC(K, 1), SC(K, 2))); } \
ENTRY(epsilonEqual_##K) { out_vec(c, glm::epsilonEqual(in_vec<1, typename S::K>(c, 0), in_vec<1, typename S::K>(c, 1), SC(K, 2))); } \
ENTRY(epsilonNotEqual_##K) { out_vec(c, glm::epsilonNotEqual(in_vec<1, typename S::K>(c, 0), in_vec<1, typename S::K>(c, 1), SC(K, 2))); }
SCALAR4(f32)
SCALAR4(f64)
#define TY typename S::f32
// per-component epsilon: component i is compared against epsilon[i]
ENTRY(equal_eps_v2v) { out_vec(c, glm::equal(in_vec<2, TY>(c, 0), in_vec<2, TY>(c, 1), in_vec<2, TY>(c, 2))); }
ENTRY(notEqual_eps_v2v) { out_vec(c, glm::notEqual(in_vec<2, TY>(c, 0), in_vec<2, TY>(c, 1), in_vec<2, TY>(c, 2))); }
ENTRY(epsilonEqual_v2v) { out_vec(c, glm::epsilonEqual(in_vec<2, TY>(c, 0), in_vec<2, TY>(c, 1), in_vec<2, TY>(c, 2))); }
ENTRY(epsilonNotEqual_v2v) { out_vec(c, glm::epsilonNotEqual(in_vec<2, TY>(c, 0), in_vec<2, TY>(c, 1), in_vec<2, TY>(c, 2))); }
// matrix: one boolean per column = all components of the column within epsilon
ENTRY(equal_eps_m2s) { out_vec(c, glm::equal(in_mat<2, 2, TY>(c, 0), in_mat<2, 2, TY>(c, 1), SC(f32, 2))); }
ENTRY(notEqual_eps_m2s) { out_vec(c, glm::notEqual(in_mat<2, 2, TY>(c, 0), in_mat<2, 2, TY>(c, 1), SC(f32, 2))); }
VT_MAIN("C14")
