// C09 trace catalogue: translate/rotate/scale/shear/lookAt and the gtx helpers (translator T1).
#define GLM_ENABLE_EXPERIMENTAL
#include "driver.hpp"
#include <glm/ext/matrix_transform.hpp>
#include <glm/gtx/transform.hpp>
#include <glm/gtx/transform2.hpp>
#include <glm/gtx/rotate_vector.hpp>
#include <glm/gtx/rotate_normalized_axis.hpp>
#include <glm/gtx/matrix_transform_2d.hpp>
#include <glm/gtx/matrix_interpolation.hpp>
using namespace vt;
#define TY typename S::f32
#define M4 in_mat<4, 4, TY>(c, 0)
ENTRY(translate) { auto m = M4; auto v = in_vec<3, TY>(c, 1); out_mat(c, glm::translate(m, v)); }
ENTRY(scale) { auto m = M4; auto v = in_vec<3, TY>(c, 1); out_mat(c, glm::scale(m, v)); }
ENTRY(scale_slow) { auto m = M4; auto v = in_vec<3, TY>(c, 1); out_mat(c, glm::scale_slow(m, v)); }
ENTRY(rotate) { auto m = M4; TY a = c.template in<TY>(1, 0); auto v = in_vec<3, TY>(c, 2); out_mat(c, glm::rotate(m, a, v)); }
ENTRY(rotate_slow) { auto m = M4; TY a = c.template in<TY>(1, 0); auto v = in_vec<3, TY>(c, 2); out_mat(c, glm::rotate_slow(m, a, v)); }
ENTRY(shear) { auto m = M4; auto p = in_vec<3, TY>(c, 1); auto lx = in_vec<2, TY>(c, 2); auto ly = in_vec<2, TY>(c, 3); auto lz = in_vec<2, TY>(c, 4); out_mat(c, glm::shear(m, p, lx, ly, lz)); }
ENTRY(shear_slow) { auto m = M4; auto p = in_vec<3, TY>(c, 1); auto lx = in_vec<2, TY>(c, 2); auto ly = in_vec<2, TY>(c, 3); auto lz = in_vec<2, TY>(c, 4); out_mat(c, glm::shear_slow(m, p, lx, ly, lz)); }
#define LA(NAME) ENTRY(NAME) { auto e = in_vec<3, TY>(c, 0); auto ct = in_vec<3, TY>(c, 1); auto up = in_vec<3, TY>(c, 2); out_mat(c, glm::NAME(e, ct, up)); }
LA(lookAtRH) LA(lookAtLH) LA(lookAt)
ENTRY(gtx_translate) { auto v = in_vec<3, TY>(c, 1); out_mat(c, glm::translate(v)); }
ENTRY(gtx_scale) { auto v = in_vec<3, TY>(c, 1); out_mat(c, glm::scale(v)); }
ENTRY(gtx_rotate) { TY a = c.template in<TY>(1, 0); auto v = in_vec<3, TY>(c, 2); out_mat(c, glm::rotate(a, v)); }
ENTRY(rotateNormalizedAxis) { auto m = M4; TY a = c.template in<TY>(1, 0); auto v = in_vec<3, TY>(c, 2); out_mat(c, glm::rotateNormalizedAxis(m, a, v)); }
ENTRY(axisAngleMatrix) { auto v = in_vec<3, TY>(c, 2); TY a = c.template in<TY>(1, 0); out_mat(c, glm::axisAngleMatrix(v, a)); }
ENTRY(rv_rotate3) { auto v = in_vec<3, TY>(c, 0); TY a = c.template in<TY>(1, 0); auto n = in_vec<3, TY>(c, 2); out_vec(c, glm::rotate(v, a, n)); }
ENTRY(rv_rotate4) { auto v = in_vec<4, TY>(c, 0); TY a = c.template in<TY>(1, 0); auto n = in_vec<3, TY>(c, 2); out_vec(c, glm::rotate(v, a, n)); }
ENTRY(rv_rotate2) { auto v = in_vec<2, TY>(c, 0); TY a = c.template in<TY>(1, 0); out_vec(c, glm::rotate(v, a)); }
ENTRY(rv_rotateX3) { auto v = in_vec<3, TY>(c, 0); TY a = c.template in<TY>(1, 0); out_vec(c, glm::rotateX(v, a)); }
ENTRY(rv_rotateY3) { auto v = in_vec<3, TY>(c, 0); TY a = c.template in<TY>(1, 0); out_vec(c, glm::rotateY(v, a)); }
ENTRY(rv_rotateZ3) { auto v = in_vec<3, TY>(c, 0); TY a = c.template in<TY>(1, 0); out_vec(c, glm::rotateZ(v, a)); }
ENTRY(rv_rotateX4) { auto v = in_vec<4, TY>(c, 0); TY a = c.template in<TY>(1, 0); out_vec(c, glm::rotateX(v, a)); }
ENTRY(rv_rotateY4) { auto v = in_vec<4, TY>(c, 0); TY a = c.template in<TY>(1, 0); out_vec(c, glm::rotateY(v, a)); }
ENTRY(rv_rotateZ4) { auto v = in_vec<4, TY>(c, 0); TY a = c.template in<TY>(1, 0); out_vec(c, glm::rotateZ(v, a)); }
ENTRY(t2d_translate) { auto m = in_mat<3, 3, TY>(c, 0); auto v = in_vec<2, TY>(c, 1); out_mat(c, glm::translate(m, v)); }
ENTRY(t2d_rotate) { auto m = in_mat<3, 3, TY>(c, 0); TY a = c.template in<TY>(1, 0); out_mat(c, glm::rotate(m, a)); }
ENTRY(t2d_scale) { auto m = in_mat<3, 3, TY>(c, 0); auto v = in_vec<2, TY>(c, 1); out_mat(c, glm::scale(m, v)); }
ENTRY(t2d_shearX) { auto m = in_mat<3, 3, TY>(c, 0); TY y = c.template in<TY>(1, 0); out_mat(c, glm::shearX(m, y)); }
ENTRY(t2d_shearY) { auto m = in_mat<3, 3, TY>(c, 0); TY x = c.template in<TY>(1, 0); out_mat(c, glm::shearY(m, x)); }
ENTRY(shearX3D) { auto m = M4; TY s = c.template in<TY>(1, 0); TY t = c.template in<TY>(1, 1); out_mat(c, glm::shearX3D(m, s, t)); }
ENTRY(shearY3D) { auto m = M4; TY s = c.template in<TY>(1, 0); TY t = c.template in<TY>(1, 1); out_mat(c, glm::shearY3D(m, s, t)); }
ENTRY(shearZ3D) { auto m = M4; TY s = c.template in<TY>(1, 0); TY t = c.template in<TY>(1, 1); out_mat(c, glm::shearZ3D(m, s, t)); }
ENTRY(shearX2D) { auto m = in_mat<3, 3, TY>(c, 0); TY s = c.template in<TY>(1, 0); out_mat(c, glm::shearX2D(m, s)); }
ENTRY(shearY2D) { auto m = in_mat<3, 3, TY>(c, 0); TY s = c.template in<TY>(1, 0); out_mat(c, glm::shearY2D(m, s)); }
ENTRY(reflect2D) { auto m = in_mat<3, 3, TY>(c, 0); auto n = in_vec<3, TY>(c, 1); out_mat(c, glm::reflect2D(m, n)); }
ENTRY(reflect3D) { auto m = M4; auto n = in_vec<3, TY>(c, 1); out_mat(c, glm::reflect3D(m, n)); }
ENTRY(proj2D) { auto m = in_mat<3, 3, TY>(c, 0); auto n = in_vec<3, TY>(c, 1); out_mat(c, glm::proj2D(m, n)); }
ENTRY(proj3D) { auto m = M4; auto n = in_vec<3, TY>(c, 1); out_mat(c, glm::proj3D(m, n)); }
ENTRY(scaleBias) { auto m = M4; TY s = c.template in<TY>(1, 0); TY b = c.template in<TY>(1, 1); out_mat(c, glm::scaleBias(m, s, b)); }
VT_MAIN("C09")
