// C19 trace catalogue: colour-space conversions (translator T1).  colour = arg 0, gamma = arg 1 comp 0, s = arg 1 comp 0.
#define GLM_ENABLE_EXPERIMENTAL
#include "driver.hpp"
#include <glm/gtc/color_space.hpp>
#include <glm/gtx/color_space.hpp>
#include <glm/gtx/color_space_YCoCg.hpp>
using namespace vt;
#define TY typename S::f32
#define TI typename S::i32
#define G1 c.template in<TY>(1, 0)
// sRGB transfer curves: one component (vec1), vec3, vec4 (alpha), default and explicit gamma
ENTRY(l2s_1) { out_vec(c, glm::convertLinearToSRGB(in_vec<1, TY>(c, 0))); }
ENTRY(s2l_1) { out_vec(c, glm::convertSRGBToLinear(in_vec<1, TY>(c, 0))); }
ENTRY(l2s_1g) { out_vec(c, glm::convertLinearToSRGB(in_vec<1, TY>(c, 0), G1)); }
ENTRY(s2l_1g) { out_vec(c, glm::convertSRGBToLinear(in_vec<1, TY>(c, 0), G1)); }
ENTRY(l2s_4) { out_vec(c, glm::convertLinearToSRGB(in_vec<4, TY>(c, 0))); }
ENTRY(s2l_4) { out_vec(c, glm::convertSRGBToLinear(in_vec<4, TY>(c, 0))); }
ENTRY(l2s_4g) { out_vec(c, glm::convertLinearToSRGB(in_vec<4, TY>(c, 0), G1)); }
ENTRY(s2l_4g) { out_vec(c, glm::convertSRGBToLinear(in_vec<4, TY>(c, 0), G1)); }
// YCoCg (floating, linear) and YCoCg-R (integer lifting): each direction and the composites
ENTRY(rgb2ycocg) { out_vec(c, glm::rgb2YCoCg(in_vec<3, TY>(c, 0))); }
ENTRY(ycocg2rgb) { out_vec(c, glm::YCoCg2rgb(in_vec<3, TY>(c, 0))); }
ENTRY(ycocg_roundtrip) { out_vec(c, glm::YCoCg2rgb(glm::rgb2YCoCg(in_vec<3, TY>(c, 0)))); }
ENTRY(ycocg_roundtrip_rev) { out_vec(c, glm::rgb2YCoCg(glm::YCoCg2rgb(in_vec<3, TY>(c, 0)))); }
ENTRY(ycocgr_f_roundtrip) { out_vec(c, glm::YCoCgR2rgb(glm::rgb2YCoCgR(in_vec<3, TY>(c, 0)))); }
ENTRY(rgb2ycocgr_i) { out_vec(c, glm::rgb2YCoCgR(in_vec<3, TI>(c, 0))); }
ENTRY(ycocgr2rgb_i) { out_vec(c, glm::YCoCgR2rgb(in_vec<3, TI>(c, 0))); }
ENTRY(ycocgr_i_roundtrip) { out_vec(c, glm::YCoCgR2rgb(glm::rgb2YCoCgR(in_vec<3, TI>(c, 0)))); }
ENTRY(ycocgr_i_roundtrip_rev) { out_vec(c, glm::rgb2YCoCgR(glm::YCoCgR2rgb(in_vec<3, TI>(c, 0)))); }
// saturation / luminosity
ENTRY(saturation_m) { out_mat(c, glm::saturation(G1)); }
ENTRY(saturation_3) { out_vec(c, glm::saturation(G1, in_vec<3, TY>(c, 0))); }
ENTRY(saturation_4) { out_vec(c, glm::saturation(G1, in_vec<4, TY>(c, 0))); }
ENTRY(luminosity_3) { c.out(glm::luminosity(in_vec<3, TY>(c, 0))); }
// HSV: rgb -> hsv
ENTRY(hsvColor_3) { out_vec(c, glm::hsvColor(in_vec<3, TY>(c, 0))); }
VT_MAIN("C19")
