// simd_shim.hpp -- the x86 SIMD intrinsics GLM uses, re-implemented lane by lane on the tracing scalar (translator T1, SIMD mode).
//
// Included after sym.hpp and before any glm header, in a translation unit compiled with GLM_FORCE_INTRINSICS and
// GLM_FORCE_<ISA>.  It pre-empts the compiler's <*mmintrin.h> headers (their include guards are defined here), so that
// glm/simd/platform.h, glm/simd/*.h and glm/detail/*_simd.inl are compiled *unchanged* against these definitions.  With
// `#define float vt::sf32` around the glm includes (see driver.hpp, VT_SIMD) GLM's specialisations for `float` select the
// tracing scalar, and each intrinsic appends to the expression DAG what the instruction computes in each 32-bit lane:
//   arithmetic          -> the same node the scalar operator would append (Add, Sub, Mul, Div, Sqrt, Fma, Rcp, Rsqrt ...)
//   shuffles / moves    -> lane permutations (no node)
//   comparisons         -> a boolean node per lane (the all-ones / all-zeros mask)
//   and / andnot / or with a comparison mask  -> a *branch* on that boolean (path oracle), the SIMD idiom for ?:
//   and with 0x7fffffff -> FAbs;  and with 0x80000000 -> CopySign(0, x);  or of that with a non-negative value -> CopySign;
//   xor with 0x80000000 -> Neg
//   min / max           -> FMin / FMax nodes (meaning: the smaller / larger real; NaN and zero-sign behaviour of the
//                          instruction is not what std::fmin does and is compared by oracle_C03 only)
//   dp_ps, hadd_ps      -> the sums in the order the Intel SDM specifies
// A lane that was never written in this execution (the padding lane of an aligned vec3) is UNDEF; it propagates through
// lane-wise instructions and is an error only when it reaches an output, a horizontal sum or a decision.
// Double-precision lanes (add/sub/mul/div/fma, permutes, blends) are traced the same way (`#define double vt::sf64`).
// Integer intrinsics are declared so that GLM compiles, and abort the trace when executed.
#pragma once
#define _MMINTRIN_H_INCLUDED
#define _XMMINTRIN_H_INCLUDED
#define _EMMINTRIN_H_INCLUDED
#define _PMMINTRIN_H_INCLUDED
#define _TMMINTRIN_H_INCLUDED
#define _SMMINTRIN_H_INCLUDED
#define _NMMINTRIN_H_INCLUDED
#define _IMMINTRIN_H_INCLUDED
#define _X86INTRIN_H_INCLUDED
#define _X86GPRINTRIN_H_INCLUDED
#define _MM_SHUFFLE(z, y, x, w) (((z) << 6) | ((y) << 4) | ((x) << 2) | (w))
#define _MM_FROUND_TO_NEAREST_INT 0x00
#define _MM_FROUND_TO_NEG_INF 0x01
#define _MM_FROUND_TO_POS_INF 0x02
#define _MM_FROUND_TO_ZERO 0x03
#define _MM_FROUND_CUR_DIRECTION 0x04
#define _MM_FROUND_NO_EXC 0x08

struct alignas(16) __m128  { uint32_t l[4]; };
struct alignas(16) __m128i { uint32_t l[4]; };
struct alignas(16) __m128d { uint32_t l[4]; };
struct alignas(32) __m256d { uint32_t l[8]; };
struct alignas(32) __m256i { uint32_t l[8]; };
struct alignas(32) __m256  { uint32_t l[8]; };

namespace vt { namespace simd {
static const uint32_t UNDEF = 0xFFFFFFFFu;
inline bool live(uint32_t raw) { return raw != UNDEF && (raw >> 16) == G().epoch && (raw & 0xffffu) < G().nodes.size(); }
inline Node const& node(uint32_t raw) { return G().nodes[raw & 0xffffu]; }
enum LK { LUNDEF, LFLOAT, LMASK, LBITS, LINT };
inline bool is_bool_op(Op o) { return op_is_cmp(o) || o == ISNAN || o == ISINF || o == LNOT || o == LAND || o == LOR; }
inline LK kind(uint32_t raw) {
	if (!live(raw)) return LUNDEF; Node const& n = node(raw);
	if (is_bool_op(n.op) || n.k == KB) return LMASK;
	if (n.k == F32) return LFLOAT;
	if ((n.k == I32 || n.k == U32) && n.op == CST) return LBITS;
	return LINT;
}
inline uint32_t fcst_bits(uint32_t bits) { return G().mk(CST, F32, 0, 0, 0, bits); }
inline uint32_t fcst(float f) { return fcst_bits((uint32_t)to_bits<float>(f)); }
inline uint32_t icst(uint32_t bits) { return G().mk(CST, U32, 0, 0, 0, bits); }
inline uint32_t bcst(bool b) { return G().mk(CST, KB, 0, 0, 0, b ? 1 : 0); }
inline bool is_fconst(uint32_t raw, uint32_t& bits) { if (!live(raw)) return false; Node const& n = node(raw); if (n.op == CST && (n.k == F32 || n.k == I32 || n.k == U32)) { bits = (uint32_t)n.bits; return true; } return false; }
// a float operand of an arithmetic instruction: bit constants are reinterpreted
inline uint32_t asf(uint32_t raw) {
	LK k = kind(raw);
	if (k == LFLOAT) return raw;
	if (k == LBITS) return fcst_bits((uint32_t)node(raw).bits);
	if (k == LUNDEF) return UNDEF;
	throw Untraceable("simd: arithmetic on a comparison mask or an integer lane");
}
inline uint32_t f1(Op o, uint32_t a) { a = asf(a); return a == UNDEF ? UNDEF : G().mk(o, F32, a); }
inline uint32_t f2(Op o, uint32_t a, uint32_t b) { a = asf(a); b = asf(b); return (a == UNDEF || b == UNDEF) ? UNDEF : G().mk(o, F32, a, b); }
inline uint32_t f3(uint32_t a, uint32_t b, uint32_t c) { a = asf(a); b = asf(b); c = asf(c); return (a == UNDEF || b == UNDEF || c == UNDEF) ? UNDEF : G().mk(FMA, F32, a, b, c); }
inline uint32_t need(uint32_t a) { if (!live(a)) throw Untraceable("simd: an unwritten lane reaches a horizontal operation, a decision or a store"); return a; }
inline uint32_t cmp(Op o, uint32_t a, uint32_t b) { a = asf(a); b = asf(b); return (a == UNDEF || b == UNDEF) ? UNDEF : G().mk(o, F32, a, b); }
// the sign bit of the value is known to be clear
inline bool nonneg(uint32_t raw) {
	if (!live(raw)) return false; Node const& n = node(raw);
	switch (n.op) {
	case CST: return n.k == F32 ? ((n.bits >> 31) & 1) == 0 && !(from_bits<float>(n.bits) != from_bits<float>(n.bits)) : false;
	case FABS: case SQRT: return n.k == F32;
	case ADD: case MUL: case DIV: case FMIN: case FMAX: return n.k == F32 && nonneg(G().enc(n.a)) && nonneg(G().enc(n.b));
	case FLOOR: case CEIL: case TRUNC: case ROUND: case NEARBY: return n.k == F32 && nonneg(G().enc(n.a));
	case CAST: if (n.k == F32 && n.k2 == I32) { Node const& m = G().nodes[n.a]; return m.op == CAST && m.k == I32 && m.k2 == F32 && nonneg(G().enc(m.a)); } return false;
	default: return false;
	}
}
inline bool is_signof(uint32_t raw, uint32_t& x) { if (!live(raw)) return false; Node const& n = node(raw); if (n.op == COPYSIGN && n.k == F32) { Node const& m = G().nodes[n.a]; if (m.op == CST && m.bits == 0) { x = G().enc(n.b); return true; } } return false; }
// ---- 32-bit integer lanes (reached through the retargeted specialisations, gen_C03_intsrc.py): nodes of kind I32 / U32
inline bool is_intlane(uint32_t raw) { if (!live(raw)) return false; Node const& n = node(raw); return (n.k == I32 || n.k == U32) && !is_bool_op(n.op); }
inline bool is_iconst(uint32_t raw) { return is_intlane(raw) && node(raw).op == CST; }
inline Kind ikind(uint32_t a, uint32_t b) { if (is_intlane(a) && !is_iconst(a)) return node(a).k; if (is_intlane(b) && !is_iconst(b)) return node(b).k; return U32; }
inline uint32_t as_k(uint32_t raw, Kind k) {   // the same 32 bits seen as kind k
	Node const& n = node(raw);
	if (n.op == CST) return G().mk(CST, k, 0, 0, 0, k == I32 ? (uint64_t)(int64_t)(int32_t)(uint32_t)n.bits : (uint64_t)(uint32_t)n.bits);
	if (n.k == k) return raw;
	return G().mk(CAST, k, raw, 0, 0, 0, n.k);
}
inline uint32_t i2(Op o, uint32_t a, uint32_t b) {
	if (!live(a) || !live(b)) return UNDEF;
	if (!is_intlane(a) || !is_intlane(b)) throw Untraceable("simd: integer arithmetic on a lane that is not an integer");
	Kind k = ikind(a, b); return G().mk(o, k, as_k(a, k), as_k(b, k));
}
inline uint32_t icmp(Op o, Kind k, uint32_t a, uint32_t b) { if (!live(a) || !live(b)) return UNDEF; if (!is_intlane(a) || !is_intlane(b)) throw Untraceable("simd: integer comparison of a lane that is not an integer"); return G().mk(o, k, as_k(a, k), as_k(b, k)); }
inline uint32_t ishift(Op o, Kind k, uint32_t a, int count) {   // k = I32: arithmetic, U32: logical; the result keeps the lane's own kind
	if (!live(a)) return UNDEF; if (!is_intlane(a)) throw Untraceable("simd: shift of a lane that is not an integer");
	Kind own = node(a).op == CST ? k : node(a).k;
	if (count < 0 || count > 31) return G().mk(CST, own, 0, 0, 0, 0);
	uint32_t r = G().mk(o, k, as_k(a, k), G().mk(CST, k, 0, 0, 0, (uint64_t)count));
	return as_k(r, own);
}
// the decision on a comparison mask; the complement of a mask (andnot) takes the complementary branch of the same decision
inline bool dec(uint32_t m) { Node const& n = node(m); if (n.op == LNOT) return !dec(G().enc(n.a)); return G().decide(m); }
inline bool is_zero_bits(uint32_t raw) { uint32_t c; return is_fconst(raw, c) && c == 0; }
inline uint32_t land(uint32_t a, uint32_t b) {
	LK ka = kind(a), kb = kind(b);
	if (is_zero_bits(a)) return a; if (is_zero_bits(b)) return b;      // also clears an unwritten lane (xyz0 of an aligned vec3)
	if (ka == LUNDEF || kb == LUNDEF) return UNDEF;
	if (ka == LMASK && kb == LMASK) return G().mk(LAND, KB, a, b);
	if ((ka == LINT && (kb == LINT || kb == LBITS)) || (ka == LBITS && kb == LINT)) return i2(BAND, a, b);
	if (kb == LMASK) { std::swap(a, b); std::swap(ka, kb); }
	if (ka == LMASK) return dec(a) ? b : (kb == LINT ? G().mk(CST, node(b).k, 0, 0, 0, 0) : kb == LBITS ? icst(0) : fcst(0.0f));
	if (ka == LBITS && kb == LBITS) return icst((uint32_t)node(a).bits & (uint32_t)node(b).bits);
	if (kb == LBITS) { std::swap(a, b); std::swap(ka, kb); }
	if (ka == LBITS && kb == LFLOAT) {
		uint32_t c = (uint32_t)node(a).bits;
		if (c == 0x7fffffffu) return G().mk(FABS, F32, b);
		if (c == 0x80000000u) return G().mk(COPYSIGN, F32, fcst(0.0f), b);
		if (c == 0xffffffffu) return b;
		if (c == 0) return fcst(0.0f);
		uint32_t fb; if (is_fconst(b, fb)) return fcst_bits(c & fb);
		throw Untraceable("simd: and of a value with an unrecognised bit pattern");
	}
	if (a == b) return a;
	throw Untraceable("simd: bitwise and of two computed values");
}
inline uint32_t lnot_bits(uint32_t a) {   // operand of andnot
	LK ka = kind(a);
	if (ka == LUNDEF) return UNDEF;
	if (ka == LMASK) return G().mk(LNOT, KB, a);
	if (ka == LBITS) return icst(~(uint32_t)node(a).bits);
	if (ka == LINT) return G().mk(BNOT, node(a).k, a);
	uint32_t fb; if (is_fconst(a, fb)) return icst(~fb);
	throw Untraceable("simd: andnot of a computed value");
}
inline uint32_t lor(uint32_t a, uint32_t b) {
	LK ka = kind(a), kb = kind(b);
	if (ka == LUNDEF || kb == LUNDEF) return UNDEF;
	if (ka == LMASK && kb == LMASK) return G().mk(LOR, KB, a, b);
	if ((ka == LINT && (kb == LINT || kb == LBITS)) || (ka == LBITS && kb == LINT)) return i2(BOR, a, b);
	uint32_t ca, cb; bool ia = is_fconst(a, ca), ib = is_fconst(b, cb);
	if (ia && ib) return (ka == LBITS && kb == LBITS) ? icst(ca | cb) : fcst_bits(ca | cb);
	if (ia && ca == 0) return b;
	if (ib && cb == 0) return a;
	uint32_t x;
	if (is_signof(a, x) && nonneg(b)) return G().mk(COPYSIGN, F32, asf(b), x);
	if (is_signof(b, x) && nonneg(a)) return G().mk(COPYSIGN, F32, asf(a), x);
	throw Untraceable("simd: bitwise or of two computed values");
}
inline uint32_t lxor(uint32_t a, uint32_t b) {
	LK ka = kind(a), kb = kind(b);
	if (ka == LUNDEF || kb == LUNDEF) return UNDEF;
	if ((ka == LINT && (kb == LINT || kb == LBITS)) || (ka == LBITS && kb == LINT)) return i2(BXOR, a, b);
	uint32_t ca, cb; bool ia = is_fconst(a, ca), ib = is_fconst(b, cb);
	if (ia && ib) return (ka == LBITS && kb == LBITS) ? icst(ca ^ cb) : fcst_bits(ca ^ cb);
	if (ia) { std::swap(a, b); std::swap(ca, cb); std::swap(ia, ib); std::swap(ka, kb); }
	if (ib && cb == 0x80000000u && ka == LFLOAT) return G().mk(NEG, F32, a);
	if (ib && cb == 0) return a;
	if (a == b) return ka == LFLOAT ? fcst(0.0f) : icst(0);
	throw Untraceable("simd: bitwise xor of two computed values");
}
// result of _mm_movemask_ps: only compared with constants
struct MaskInt {
	uint32_t b[4]; int n;
	SymBool bit(int i) const { return SymBool(need(b[i]), 0); }
	SymBool eq(int c) const { SymBool r(true); for (int i = 0; i < n; ++i) { SymBool bi = bit(i); r = r && (((c >> i) & 1) ? bi : !bi); } if ((c >> n) != 0) return SymBool(false); return r; }
	friend SymBool operator==(MaskInt const& m, int c) { return m.eq(c); }
	friend SymBool operator!=(MaskInt const& m, int c) { return !m.eq(c); }
};
template<class V> inline V lanes1(V const& a, uint32_t (*f)(uint32_t)) { V r; for (int i = 0; i < 4; ++i) r.l[i] = f(a.l[i]); return r; }
}} // namespace vt::simd

#define VT_SH vt::simd
typedef vt::sf32 vt_f32;
// ---- set / load / store / casts
inline __m128 _mm_setzero_ps() { __m128 r; for (int i = 0; i < 4; ++i) r.l[i] = VT_SH::fcst(0.0f); return r; }
inline __m128 _mm_set1_ps(vt_f32 x) { __m128 r; for (int i = 0; i < 4; ++i) r.l[i] = x.id; return r; }
inline __m128 _mm_set_ps1(vt_f32 x) { return _mm_set1_ps(x); }
inline __m128 _mm_set_ps(vt_f32 e3, vt_f32 e2, vt_f32 e1, vt_f32 e0) { __m128 r; r.l[0] = e0.id; r.l[1] = e1.id; r.l[2] = e2.id; r.l[3] = e3.id; return r; }
inline __m128 _mm_setr_ps(vt_f32 e0, vt_f32 e1, vt_f32 e2, vt_f32 e3) { return _mm_set_ps(e3, e2, e1, e0); }
inline __m128 _mm_set_ss(vt_f32 x) { __m128 r = _mm_setzero_ps(); r.l[0] = x.id; return r; }
inline __m128 _mm_load_ss(vt_f32 const* p) { return _mm_set_ss(*p); }
inline __m128 _mm_loadu_ps(vt_f32 const* p) { __m128 r; for (int i = 0; i < 4; ++i) r.l[i] = p[i].id; return r; }
inline __m128 _mm_load_ps(vt_f32 const* p) { return _mm_loadu_ps(p); }
inline void _mm_store_ss(vt_f32* p, __m128 a) { p->id = a.l[0]; }
inline void _mm_storeu_ps(vt_f32* p, __m128 a) { for (int i = 0; i < 4; ++i) p[i].id = a.l[i]; }
inline void _mm_store_ps(vt_f32* p, __m128 a) { _mm_storeu_ps(p, a); }
inline vt_f32 _mm_cvtss_f32(__m128 a) { return vt_f32(VT_SH::asf(VT_SH::need(a.l[0])), vt_f32::Raw()); }
inline __m128 _mm_castsi128_ps(__m128i a) { __m128 r; for (int i = 0; i < 4; ++i) r.l[i] = a.l[i]; return r; }
inline __m128i _mm_castps_si128(__m128 a) { __m128i r; for (int i = 0; i < 4; ++i) r.l[i] = a.l[i]; return r; }
inline __m128i _mm_set1_epi32(int v) { __m128i r; for (int i = 0; i < 4; ++i) r.l[i] = VT_SH::icst((uint32_t)v); return r; }
inline __m128i _mm_set_epi32(int e3, int e2, int e1, int e0) { __m128i r; r.l[0] = VT_SH::icst((uint32_t)e0); r.l[1] = VT_SH::icst((uint32_t)e1); r.l[2] = VT_SH::icst((uint32_t)e2); r.l[3] = VT_SH::icst((uint32_t)e3); return r; }
inline __m128i _mm_setzero_si128() { return _mm_set1_epi32(0); }
// ---- arithmetic
#define VT_B2(NAME, OP) inline __m128 NAME(__m128 a, __m128 b) { __m128 r; for (int i = 0; i < 4; ++i) r.l[i] = VT_SH::f2(vt::OP, a.l[i], b.l[i]); return r; }
VT_B2(_mm_add_ps, ADD) VT_B2(_mm_sub_ps, SUB) VT_B2(_mm_mul_ps, MUL) VT_B2(_mm_div_ps, DIV) VT_B2(_mm_min_ps, FMIN) VT_B2(_mm_max_ps, FMAX)
#undef VT_B2
#define VT_S2(NAME, OP) inline __m128 NAME(__m128 a, __m128 b) { __m128 r = a; r.l[0] = VT_SH::f2(vt::OP, a.l[0], b.l[0]); return r; }
VT_S2(_mm_add_ss, ADD) VT_S2(_mm_sub_ss, SUB) VT_S2(_mm_mul_ss, MUL) VT_S2(_mm_div_ss, DIV)
#undef VT_S2
#define VT_U1(NAME, OP) inline __m128 NAME(__m128 a) { __m128 r; for (int i = 0; i < 4; ++i) r.l[i] = VT_SH::f1(vt::OP, a.l[i]); return r; }
VT_U1(_mm_sqrt_ps, SQRT) VT_U1(_mm_rcp_ps, RCP) VT_U1(_mm_rsqrt_ps, RSQRT) VT_U1(_mm_floor_ps, FLOOR) VT_U1(_mm_ceil_ps, CEIL)
#undef VT_U1
inline __m128 _mm_rsqrt_ss(__m128 a) { __m128 r = a; r.l[0] = VT_SH::f1(vt::RSQRT, a.l[0]); return r; }
inline __m128 _mm_sqrt_ss(__m128 a) { __m128 r = a; r.l[0] = VT_SH::f1(vt::SQRT, a.l[0]); return r; }
inline __m128 _mm_round_ps(__m128 a, int mode) {
	vt::Op o; switch (mode & 3) { case 0: o = vt::NEARBY; break; case 1: o = vt::FLOOR; break; case 2: o = vt::CEIL; break; default: o = vt::TRUNC; }
	if (mode & 4) throw vt::Untraceable("simd: _mm_round_ps in the current rounding direction");
	__m128 r; for (int i = 0; i < 4; ++i) r.l[i] = VT_SH::f1(o, a.l[i]); return r;
}
inline __m128 _mm_fmadd_ps(__m128 a, __m128 b, __m128 c) { __m128 r; for (int i = 0; i < 4; ++i) r.l[i] = VT_SH::f3(a.l[i], b.l[i], c.l[i]); return r; }
inline __m128 _mm_fmadd_ss(__m128 a, __m128 b, __m128 c) { __m128 r = a; r.l[0] = VT_SH::f3(a.l[0], b.l[0], c.l[0]); return r; }
// horizontal: the Intel SDM gives the order of the additions
inline __m128 _mm_hadd_ps(__m128 a, __m128 b) { __m128 r; r.l[0] = VT_SH::f2(vt::ADD, a.l[0], a.l[1]); r.l[1] = VT_SH::f2(vt::ADD, a.l[2], a.l[3]); r.l[2] = VT_SH::f2(vt::ADD, b.l[0], b.l[1]); r.l[3] = VT_SH::f2(vt::ADD, b.l[2], b.l[3]); return r; }
inline __m128 _mm_dp_ps(__m128 a, __m128 b, int imm) {
	uint32_t t[4]; for (int i = 0; i < 4; ++i) t[i] = ((imm >> (4 + i)) & 1) ? VT_SH::f2(vt::MUL, VT_SH::need(a.l[i]), VT_SH::need(b.l[i])) : VT_SH::fcst(0.0f);
	uint32_t s = VT_SH::f2(vt::ADD, VT_SH::f2(vt::ADD, t[0], t[1]), VT_SH::f2(vt::ADD, t[2], t[3]));
	__m128 r; for (int i = 0; i < 4; ++i) r.l[i] = ((imm >> i) & 1) ? s : VT_SH::fcst(0.0f); return r;
}
// ---- permutations
inline __m128 _mm_shuffle_ps(__m128 a, __m128 b, int imm) { __m128 r; r.l[0] = a.l[imm & 3]; r.l[1] = a.l[(imm >> 2) & 3]; r.l[2] = b.l[(imm >> 4) & 3]; r.l[3] = b.l[(imm >> 6) & 3]; return r; }
inline __m128 _mm_permute_ps(__m128 a, int imm) { return _mm_shuffle_ps(a, a, imm); }
inline __m128i _mm_shuffle_epi32(__m128i a, int imm) { __m128i r; for (int i = 0; i < 4; ++i) r.l[i] = a.l[(imm >> (2 * i)) & 3]; return r; }
inline __m128 _mm_movehl_ps(__m128 a, __m128 b) { __m128 r; r.l[0] = b.l[2]; r.l[1] = b.l[3]; r.l[2] = a.l[2]; r.l[3] = a.l[3]; return r; }
inline __m128 _mm_movelh_ps(__m128 a, __m128 b) { __m128 r; r.l[0] = a.l[0]; r.l[1] = a.l[1]; r.l[2] = b.l[0]; r.l[3] = b.l[1]; return r; }
inline __m128 _mm_unpacklo_ps(__m128 a, __m128 b) { __m128 r; r.l[0] = a.l[0]; r.l[1] = b.l[0]; r.l[2] = a.l[1]; r.l[3] = b.l[1]; return r; }
inline __m128 _mm_unpackhi_ps(__m128 a, __m128 b) { __m128 r; r.l[0] = a.l[2]; r.l[1] = b.l[2]; r.l[2] = a.l[3]; r.l[3] = b.l[3]; return r; }
inline __m128 _mm_move_ss(__m128 a, __m128 b) { __m128 r = a; r.l[0] = b.l[0]; return r; }
inline __m128 _mm_blend_ps(__m128 a, __m128 b, int imm) { __m128 r; for (int i = 0; i < 4; ++i) r.l[i] = ((imm >> i) & 1) ? b.l[i] : a.l[i]; return r; }
// ---- comparisons and logic
#define VT_C2(NAME, OP) inline __m128 NAME(__m128 a, __m128 b) { __m128 r; for (int i = 0; i < 4; ++i) r.l[i] = VT_SH::cmp(vt::OP, a.l[i], b.l[i]); return r; }
VT_C2(_mm_cmplt_ps, LT) VT_C2(_mm_cmple_ps, LE) VT_C2(_mm_cmpgt_ps, GT) VT_C2(_mm_cmpge_ps, GE) VT_C2(_mm_cmpeq_ps, EQ) VT_C2(_mm_cmpneq_ps, NE)
#undef VT_C2
inline __m128 _mm_cmplt_ss(__m128 a, __m128 b) { __m128 r = a; r.l[0] = VT_SH::cmp(vt::LT, a.l[0], b.l[0]); return r; }
inline __m128 _mm_and_ps(__m128 a, __m128 b) { __m128 r; for (int i = 0; i < 4; ++i) r.l[i] = VT_SH::land(a.l[i], b.l[i]); return r; }
inline __m128 _mm_andnot_ps(__m128 a, __m128 b) { __m128 r; for (int i = 0; i < 4; ++i) r.l[i] = VT_SH::land(VT_SH::lnot_bits(a.l[i]), b.l[i]); return r; }
inline __m128 _mm_or_ps(__m128 a, __m128 b) { __m128 r; for (int i = 0; i < 4; ++i) r.l[i] = VT_SH::lor(a.l[i], b.l[i]); return r; }
inline __m128 _mm_xor_ps(__m128 a, __m128 b) { __m128 r; for (int i = 0; i < 4; ++i) r.l[i] = VT_SH::lxor(a.l[i], b.l[i]); return r; }
inline __m128 _mm_blendv_ps(__m128 a, __m128 b, __m128 m) { __m128 r; for (int i = 0; i < 4; ++i) { if (VT_SH::kind(m.l[i]) != VT_SH::LMASK) throw vt::Untraceable("simd: blendv with a computed mask"); r.l[i] = VT_SH::dec(m.l[i]) ? b.l[i] : a.l[i]; } return r; }
inline VT_SH::MaskInt _mm_movemask_ps(__m128 a) { VT_SH::MaskInt m; m.n = 4; for (int i = 0; i < 4; ++i) { if (VT_SH::kind(a.l[i]) != VT_SH::LMASK) throw vt::Untraceable("simd: movemask of a lane that is not a comparison result"); m.b[i] = a.l[i]; } return m; }
inline __m128i _mm_and_si128(__m128i a, __m128i b) { __m128i r; for (int i = 0; i < 4; ++i) r.l[i] = VT_SH::land(a.l[i], b.l[i]); return r; }
inline __m128i _mm_andnot_si128(__m128i a, __m128i b) { __m128i r; for (int i = 0; i < 4; ++i) r.l[i] = VT_SH::land(VT_SH::lnot_bits(a.l[i]), b.l[i]); return r; }
inline __m128i _mm_or_si128(__m128i a, __m128i b) { __m128i r; for (int i = 0; i < 4; ++i) r.l[i] = VT_SH::lor(a.l[i], b.l[i]); return r; }
inline __m128i _mm_xor_si128(__m128i a, __m128i b) { __m128i r; for (int i = 0; i < 4; ++i) r.l[i] = VT_SH::lxor(a.l[i], b.l[i]); return r; }
// ---- float <-> int32 lanes (used by the SSE2 round)
inline __m128i _mm_cvttps_epi32(__m128 a) { __m128i r; for (int i = 0; i < 4; ++i) { uint32_t x = VT_SH::asf(a.l[i]); r.l[i] = x == VT_SH::UNDEF ? x : vt::G().mk(vt::CAST, vt::I32, x, 0, 0, 0, vt::F32); } return r; }
inline __m128 _mm_cvtepi32_ps(__m128i a) { __m128 r; for (int i = 0; i < 4; ++i) { uint32_t x = a.l[i]; if (!VT_SH::live(x)) { r.l[i] = VT_SH::UNDEF; continue; } if (VT_SH::kind(x) == VT_SH::LBITS) { r.l[i] = VT_SH::fcst((float)(int32_t)(uint32_t)VT_SH::node(x).bits); continue; } if (VT_SH::node(x).k != vt::I32) throw vt::Untraceable("simd: cvtepi32_ps of a lane that is not an int32"); r.l[i] = vt::G().mk(vt::CAST, vt::F32, x, 0, 0, 0, vt::I32); } return r; }
// ---- double precision (lane i of a __m128d / __m256d is the 8-byte tracing double at l[2 i])
typedef vt::sf64 vt_f64;
namespace vt { namespace simd {
inline uint32_t asd(uint32_t raw) { if (!live(raw)) return UNDEF; Node const& n = node(raw); if (n.k == F64 && !is_bool_op(n.op)) return raw; throw Untraceable("simd: arithmetic on a lane that is not a double"); }
inline uint32_t d2(Op o, uint32_t a, uint32_t b) { a = asd(a); b = asd(b); return (a == UNDEF || b == UNDEF) ? UNDEF : G().mk(o, F64, a, b); }
inline uint32_t d3(uint32_t a, uint32_t b, uint32_t c) { a = asd(a); b = asd(b); c = asd(c); return (a == UNDEF || b == UNDEF || c == UNDEF) ? UNDEF : G().mk(FMA, F64, a, b, c); }
inline uint32_t dzero() { return G().mk(CST, F64, 0, 0, 0, 0); }
}}
inline __m128d _mm_setr_pd(vt_f64 e0, vt_f64 e1) { __m128d r; r.l[0] = e0.id; r.l[1] = 0; r.l[2] = e1.id; r.l[3] = 0; return r; }
inline __m128d _mm_set_pd(vt_f64 e1, vt_f64 e0) { return _mm_setr_pd(e0, e1); }
inline __m128d _mm_set1_pd(vt_f64 x) { return _mm_setr_pd(x, x); }
inline __m128d _mm_setzero_pd() { __m128d r; r.l[0] = r.l[2] = VT_SH::dzero(); r.l[1] = r.l[3] = 0; return r; }
inline __m128d _mm_loadu_pd(vt_f64 const* p) { return _mm_setr_pd(p[0], p[1]); }
inline __m128d _mm_load1_pd(vt_f64 const* p) { return _mm_setr_pd(p[0], p[0]); }
inline __m128d _mm_load_sd(vt_f64 const* p) { return _mm_setr_pd(p[0], vt_f64(0)); }
inline void _mm_storeu_pd(vt_f64* p, __m128d a) { p[0].id = a.l[0]; p[1].id = a.l[2]; }
inline void _mm_store_sd(vt_f64* p, __m128d a) { p[0].id = a.l[0]; }
inline __m128d _mm_shuffle_pd(__m128d a, __m128d b, int imm) { __m128d r; r.l[0] = a.l[2 * (imm & 1)]; r.l[2] = b.l[2 * ((imm >> 1) & 1)]; r.l[1] = r.l[3] = 0; return r; }
#define VT_D2(NAME, OP) inline __m128d NAME(__m128d a, __m128d b) { __m128d r; for (int i = 0; i < 2; ++i) { r.l[2 * i] = VT_SH::d2(vt::OP, a.l[2 * i], b.l[2 * i]); r.l[2 * i + 1] = 0; } return r; }
VT_D2(_mm_add_pd, ADD) VT_D2(_mm_sub_pd, SUB) VT_D2(_mm_mul_pd, MUL) VT_D2(_mm_div_pd, DIV)
#undef VT_D2
inline __m256d _mm256_setr_pd(vt_f64 e0, vt_f64 e1, vt_f64 e2, vt_f64 e3) { __m256d r; vt_f64 e[4] = { e0, e1, e2, e3 }; for (int i = 0; i < 4; ++i) { r.l[2 * i] = e[i].id; r.l[2 * i + 1] = 0; } return r; }
inline __m256d _mm256_set_pd(vt_f64 e3, vt_f64 e2, vt_f64 e1, vt_f64 e0) { return _mm256_setr_pd(e0, e1, e2, e3); }
inline __m256d _mm256_set1_pd(vt_f64 x) { return _mm256_setr_pd(x, x, x, x); }
inline __m256d _mm256_setzero_pd() { __m256d r; for (int i = 0; i < 4; ++i) { r.l[2 * i] = VT_SH::dzero(); r.l[2 * i + 1] = 0; } return r; }
inline __m256d _mm256_loadu_pd(vt_f64 const* p) { return _mm256_setr_pd(p[0], p[1], p[2], p[3]); }
inline void _mm256_storeu_pd(vt_f64* p, __m256d a) { for (int i = 0; i < 4; ++i) p[i].id = a.l[2 * i]; }
#define VT_D4(NAME, OP) inline __m256d NAME(__m256d a, __m256d b) { __m256d r; for (int i = 0; i < 4; ++i) { r.l[2 * i] = VT_SH::d2(vt::OP, a.l[2 * i], b.l[2 * i]); r.l[2 * i + 1] = 0; } return r; }
VT_D4(_mm256_add_pd, ADD) VT_D4(_mm256_sub_pd, SUB) VT_D4(_mm256_mul_pd, MUL) VT_D4(_mm256_div_pd, DIV)
#undef VT_D4
inline __m256d _mm256_fmadd_pd(__m256d a, __m256d b, __m256d c) { __m256d r; for (int i = 0; i < 4; ++i) { r.l[2 * i] = VT_SH::d3(a.l[2 * i], b.l[2 * i], c.l[2 * i]); r.l[2 * i + 1] = 0; } return r; }
inline __m256d _mm256_blend_pd(__m256d a, __m256d b, int imm) { __m256d r; for (int i = 0; i < 4; ++i) { r.l[2 * i] = ((imm >> i) & 1) ? b.l[2 * i] : a.l[2 * i]; r.l[2 * i + 1] = 0; } return r; }
inline __m256d _mm256_permute_pd(__m256d a, int imm) { __m256d r; for (int i = 0; i < 4; ++i) { r.l[2 * i] = a.l[2 * ((i & 2) + ((imm >> i) & 1))]; r.l[2 * i + 1] = 0; } return r; }
inline __m256d _mm256_permute4x64_pd(__m256d a, int imm) { __m256d r; for (int i = 0; i < 4; ++i) { r.l[2 * i] = a.l[2 * ((imm >> (2 * i)) & 3)]; r.l[2 * i + 1] = 0; } return r; }
inline __m256d _mm256_permute2f128_pd(__m256d a, __m256d b, int imm) { __m256d r; for (int h = 0; h < 2; ++h) { int c = (imm >> (4 * h)) & 15; for (int i = 0; i < 2; ++i) { uint32_t v = (c & 8) ? VT_SH::dzero() : ((c & 2) ? b : a).l[2 * (2 * (c & 1) + i)]; r.l[2 * (2 * h + i)] = v; r.l[2 * (2 * h + i) + 1] = 0; } } return r; }
inline __m128d _mm256_castpd256_pd128(__m256d a) { __m128d r; for (int i = 0; i < 4; ++i) r.l[i] = a.l[i]; return r; }
inline __m128d _mm256_extractf128_pd(__m256d a, int h) { __m128d r; for (int i = 0; i < 4; ++i) r.l[i] = a.l[4 * (h & 1) + i]; return r; }
// ---- 32-bit integer lanes
template<class A> inline uint32_t vt_ilane(A v) { return VT_SH::icst((uint32_t)v); }
// integer expressions of constants (e.g. -static_cast<int>(flag)) are folded, so that they can serve as bit masks
inline bool vt_cfold(uint32_t raw, int64_t& out) {
	if (!VT_SH::live(raw)) return false; vt::Node const& n = VT_SH::node(raw);
	if (n.op == vt::CST && (n.k == vt::I32 || n.k == vt::U32 || n.k == vt::KB)) { out = n.k == vt::I32 ? (int64_t)(int32_t)(uint32_t)n.bits : (int64_t)(uint32_t)n.bits; return true; }
	int64_t a;
	if (n.op == vt::NEG && (n.k == vt::I32 || n.k == vt::U32) && vt_cfold(vt::G().enc(n.a), a)) { out = -a; return true; }
	if (n.op == vt::BNOT && (n.k == vt::I32 || n.k == vt::U32) && vt_cfold(vt::G().enc(n.a), a)) { out = ~a; return true; }
	if (n.op == vt::CAST && (n.k == vt::I32 || n.k == vt::U32) && (n.k2 == vt::I32 || n.k2 == vt::U32 || n.k2 == vt::KB) && vt_cfold(vt::G().enc(n.a), a)) { out = a; return true; }
	return false;
}
template<vt::Kind K> inline uint32_t vt_ilane(vt::Sym<K> v) { int64_t c; if (vt_cfold(v.id, c)) return VT_SH::icst((uint32_t)c); return v.id; }
inline int vt_count(int c) { return c; }
template<vt::Kind K> inline int vt_count(vt::Sym<K> c) { if (!VT_SH::live(c.id) || VT_SH::node(c.id).op != vt::CST) throw vt::Untraceable("simd: shift by a traced count"); return (int)(int32_t)(uint32_t)VT_SH::node(c.id).bits; }
template<vt::Kind K> inline __m128i _mm_set1_epi32(vt::Sym<K> v) { __m128i r; for (int i = 0; i < 4; ++i) r.l[i] = vt_ilane(v); return r; }
template<class A, class B, class C, class D, class = typename std::enable_if<!(std::is_same<A, int>::value && std::is_same<B, int>::value && std::is_same<C, int>::value && std::is_same<D, int>::value)>::type>
inline __m128i _mm_set_epi32(A e3, B e2, C e1, D e0) { __m128i r; r.l[0] = vt_ilane(e0); r.l[1] = vt_ilane(e1); r.l[2] = vt_ilane(e2); r.l[3] = vt_ilane(e3); return r; }
#define VT_I2(NAME, OP) inline __m128i NAME(__m128i a, __m128i b) { __m128i r; for (int i = 0; i < 4; ++i) r.l[i] = VT_SH::i2(vt::OP, a.l[i], b.l[i]); return r; }
VT_I2(_mm_add_epi32, ADD) VT_I2(_mm_sub_epi32, SUB) VT_I2(_mm_mullo_epi32, MUL)
#undef VT_I2
// min / max: the instruction selects on a signed (epi32) or unsigned (epu32) comparison of the 32 bits, whatever the element type
#define VT_IM(NAME, OP, K) inline __m128i NAME(__m128i a, __m128i b) { __m128i r; for (int i = 0; i < 4; ++i) { uint32_t c = VT_SH::icmp(vt::OP, vt::K, a.l[i], b.l[i]); r.l[i] = c == VT_SH::UNDEF ? c : (vt::G().decide(c) ? a.l[i] : b.l[i]); } return r; }
VT_IM(_mm_min_epi32, LT, I32) VT_IM(_mm_max_epi32, GT, I32) VT_IM(_mm_min_epu32, LT, U32) VT_IM(_mm_max_epu32, GT, U32)
#undef VT_IM
inline __m128i _mm_cmpeq_epi32(__m128i a, __m128i b) { __m128i r; for (int i = 0; i < 4; ++i) r.l[i] = VT_SH::icmp(vt::EQ, VT_SH::ikind(a.l[i], b.l[i]), a.l[i], b.l[i]); return r; }
template<class C> inline __m128i _mm_slli_epi32(__m128i a, C c) { __m128i r; for (int i = 0; i < 4; ++i) r.l[i] = VT_SH::ishift(vt::SHL, vt::U32, a.l[i], vt_count(c)); return r; }
template<class C> inline __m128i _mm_srli_epi32(__m128i a, C c) { __m128i r; for (int i = 0; i < 4; ++i) r.l[i] = VT_SH::ishift(vt::SHR, vt::U32, a.l[i], vt_count(c)); return r; }
template<class C> inline __m128i _mm_srai_epi32(__m128i a, C c) { __m128i r; for (int i = 0; i < 4; ++i) r.l[i] = VT_SH::ishift(vt::SHR, vt::I32, a.l[i], vt_count(c) > 31 ? 31 : vt_count(c)); return r; }
// sign_epi32(a, b): a, 0 or -a as b is positive, zero or negative
inline __m128i _mm_sign_epi32(__m128i a, __m128i b) { __m128i r; for (int i = 0; i < 4; ++i) { if (!VT_SH::live(a.l[i]) || !VT_SH::live(b.l[i])) { r.l[i] = VT_SH::UNDEF; continue; }
	uint32_t z = vt::G().mk(vt::CST, vt::I32, 0, 0, 0, 0), bi = VT_SH::as_k(b.l[i], vt::I32);
	if (vt::G().decide(vt::G().mk(vt::LT, vt::I32, bi, z))) { vt::Kind k = VT_SH::node(a.l[i]).k; r.l[i] = vt::G().mk(vt::NEG, k, a.l[i]); }
	else if (vt::G().decide(vt::G().mk(vt::EQ, vt::I32, bi, z))) r.l[i] = vt::G().mk(vt::CST, VT_SH::node(a.l[i]).k, 0, 0, 0, 0); else r.l[i] = a.l[i]; } return r; }
// whole-register byte shifts by a multiple of four bytes move lanes
inline __m128i _mm_srli_si128(__m128i a, int bytes) { if (bytes % 4) throw vt::Untraceable("simd: byte shift that splits a lane"); int n = bytes / 4; __m128i r; for (int i = 0; i < 4; ++i) r.l[i] = (i + n < 4) ? a.l[i + n] : VT_SH::icst(0); return r; }
inline __m128i _mm_slli_si128(__m128i a, int bytes) { if (bytes % 4) throw vt::Untraceable("simd: byte shift that splits a lane"); int n = bytes / 4; __m128i r; for (int i = 0; i < 4; ++i) r.l[i] = (i - n >= 0) ? a.l[i - n] : VT_SH::icst(0); return r; }
// mul_epu32: 64-bit products of lanes 0 and 2; their low halves are the 32-bit products, the high halves are not modelled
inline __m128i _mm_mul_epu32(__m128i a, __m128i b) { __m128i r; r.l[0] = VT_SH::i2(vt::MUL, a.l[0], b.l[0]); r.l[1] = VT_SH::UNDEF; r.l[2] = VT_SH::i2(vt::MUL, a.l[2], b.l[2]); r.l[3] = VT_SH::UNDEF; return r; }
inline __m128i _mm_unpacklo_epi32(__m128i a, __m128i b) { __m128i r; r.l[0] = a.l[0]; r.l[1] = b.l[0]; r.l[2] = a.l[1]; r.l[3] = b.l[1]; return r; }
inline __m128i _mm_loadu_si128(__m128i const* p) { return *p; }
inline void _mm_storeu_si128(__m128i* p, __m128i a) { *p = a; }
// test_all_zeros(a, b): 1 when a & b is zero in every lane; the value is only compared with constants, so it is decided here
struct vt_ZeroTest { vt::SymBool all; operator int() const { return vt::G().decide(all.id) ? 1 : 0; } };
inline vt_ZeroTest _mm_test_all_zeros(__m128i a, __m128i b) { vt::SymBool r(true); for (int i = 0; i < 4; ++i) { uint32_t v = a.l[i] == b.l[i] ? VT_SH::need(a.l[i]) : VT_SH::i2(vt::BAND, VT_SH::need(a.l[i]), VT_SH::need(b.l[i])); vt::Kind k = VT_SH::node(v).k; r = r && vt::SymBool(vt::G().mk(vt::EQ, k, v, vt::G().mk(vt::CST, k, 0, 0, 0, 0)), 0); } vt_ZeroTest t; t.all = r; return t; }
// ---- everything else GLM mentions: declared, not traced
#define VT_STUB(RET, NAME) template<class... A> inline RET NAME(A...) { throw vt::Untraceable("simd: " #NAME " is not traced"); }
VT_STUB(__m128i, _mm_sll_epi32) VT_STUB(__m128i, _mm_srl_epi32)
VT_STUB(__m128i, _mm_sll_epi64) VT_STUB(__m128i, _mm_srl_epi64) 
VT_STUB(__m128i, _mm_div_epi32)

VT_STUB(__m128i, _mm_cmpneq_epi32) VT_STUB(__m128i, _mm_unpacklo_epi64) VT_STUB(__m128i, _mm_cvtsi32_si128)
VT_STUB(__m128i, _mm_set1_epi64x) VT_STUB(int, _mm_movemask_epi8) 
VT_STUB(int, _mm_popcnt_u32) VT_STUB(long long, _mm_popcnt_u64)

VT_STUB(__m128d, _mm_castsi128_pd) VT_STUB(__m128d, _mm_castps_pd)


VT_STUB(__m256d, _mm256_and_pd) 

VT_STUB(__m256i, _mm256_and_si256) VT_STUB(__m256i, _mm256_or_si256) VT_STUB(__m256i, _mm256_xor_si256) VT_STUB(__m256i, _mm256_set1_epi32) VT_STUB(__m256i, _mm256_set1_epi64x)
VT_STUB(__m256i, _mm256_sll_epi64) VT_STUB(__m256i, _mm256_srl_epi64)
#undef VT_STUB
