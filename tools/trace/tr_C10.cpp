// C10 trace catalogue: determinant, inverse and their gtc/gtx variants (translator T1).
#define GLM_ENABLE_EXPERIMENTAL
#include "driver.hpp"
#include <glm/matrix.hpp>
#include <glm/gtc/matrix_inverse.hpp>
#include <glm/gtx/matrix_operation.hpp>
using namespace vt;
#ifndef C10_QUAL
#define C10_QUAL glm::defaultp
#endif
#ifndef C10_SUFFIX
#define C10_SUFFIX "f32"
#endif
#ifndef C10_T
#define C10_T f32
#endif
static const glm::qualifier Q = C10_QUAL;
#define TY typename S::C10_T
static std::string nm(const char* f, int n) { return std::string(f) + "_" + std::to_string(n) + "_" + C10_SUFFIX; }

template<class S, int N> static void e_det(Ctx<S>& c) { auto A = in_mat<N, N, TY, Q>(c, 0); c.out(glm::determinant(A)); }
template<class S, int N> static void e_det_mul(Ctx<S>& c) { auto A = in_mat<N, N, TY, Q>(c, 0); auto B = in_mat<N, N, TY, Q>(c, 1); c.out(glm::determinant(A * B)); }
template<class S, int N> static void e_det_tr(Ctx<S>& c) { auto A = in_mat<N, N, TY, Q>(c, 0); c.out(glm::determinant(glm::transpose(A))); }
template<class S, int N> static void e_inv(Ctx<S>& c) { auto A = in_mat<N, N, TY, Q>(c, 0); out_mat(c, glm::inverse(A)); }
template<class S, int N> static void e_invtr(Ctx<S>& c) { auto A = in_mat<N, N, TY, Q>(c, 0); out_mat(c, glm::inverseTranspose(A)); }
template<class S, int N> static void e_affinv(Ctx<S>& c) { auto A = in_mat<N, N, TY, Q>(c, 0); out_mat(c, glm::affineInverse(A)); }
template<class S, int N> static void e_adj(Ctx<S>& c) { auto A = in_mat<N, N, TY, Q>(c, 0); out_mat(c, glm::adjugate(A)); }
template<class S, int N> static void e_div_mm(Ctx<S>& c) { auto A = in_mat<N, N, TY, Q>(c, 0); auto B = in_mat<N, N, TY, Q>(c, 1); out_mat(c, A / B); }
template<class S, int N> static void e_mulinv_mm(Ctx<S>& c) { auto A = in_mat<N, N, TY, Q>(c, 0); auto B = in_mat<N, N, TY, Q>(c, 1); out_mat(c, A * glm::inverse(B)); }
template<class S, int N> static void e_diveq_mm(Ctx<S>& c) { auto A = in_mat<N, N, TY, Q>(c, 0); auto B = in_mat<N, N, TY, Q>(c, 1); A /= B; out_mat(c, A); }
template<class S, int N> static void e_div_mv(Ctx<S>& c) { auto A = in_mat<N, N, TY, Q>(c, 0); auto v = in_vec<N, TY, Q>(c, 1); out_vec(c, A / v); }
template<class S, int N> static void e_invmul_mv(Ctx<S>& c) { auto A = in_mat<N, N, TY, Q>(c, 0); auto v = in_vec<N, TY, Q>(c, 1); out_vec(c, glm::inverse(A) * v); }
template<class S, int N> static void e_div_vm(Ctx<S>& c) { auto v = in_vec<N, TY, Q>(c, 0); auto A = in_mat<N, N, TY, Q>(c, 1); out_vec(c, v / A); }
template<class S, int N> static void e_mulinv_vm(Ctx<S>& c) { auto v = in_vec<N, TY, Q>(c, 0); auto A = in_mat<N, N, TY, Q>(c, 1); out_vec(c, v * glm::inverse(A)); }

#define ADDN(NAME, FN, N) registry().push_back(Entry{nm(NAME, N), &FN<TraceFam, N>, &FN<ConcFam, N>, 3})
template<int N> static void reg() {
	ADDN("det", e_det, N); ADDN("det_mul", e_det_mul, N); ADDN("det_tr", e_det_tr, N); ADDN("inv", e_inv, N); ADDN("invtr", e_invtr, N); ADDN("adj", e_adj, N);
	ADDN("div_mm", e_div_mm, N); ADDN("mulinv_mm", e_mulinv_mm, N); ADDN("diveq_mm", e_diveq_mm, N); ADDN("div_mv", e_div_mv, N); ADDN("invmul_mv", e_invmul_mv, N);
	ADDN("div_vm", e_div_vm, N); ADDN("mulinv_vm", e_mulinv_vm, N);
}
static int init = (reg<2>(), reg<3>(), reg<4>(), ADDN("affinv", e_affinv, 3), ADDN("affinv", e_affinv, 4), 0);
VT_MAIN("C10")
