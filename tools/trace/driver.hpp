// driver.hpp -- entry registration, path enumeration, decision-tree assembly, concrete interpreter
// (self-validation) and the Gallina printer for translator T1.  Include after sym.hpp, before glm.
#pragma once
#include "sym.hpp"
// SIMD mode (VT_SIMD): GLM's intrinsic kernels are traced.  The compiler's intrinsics headers are replaced by simd_shim.hpp and,
// while GLM's headers are read, `float` names the tracing scalar, so that the specialisations GLM writes for `float`
// (storage<4, float, true> = __m128, compute_*<4, float, Q, true>, glm_vec4_* ...) are the ones instantiated.
#ifdef VT_SIMD
#include <cassert>
#include <cstddef>
#include <cstdlib>
#include <climits>
#include <cfloat>
#include <limits>
#include <cmath>
#include <functional>
#include <type_traits>
#include <sstream>
#include <memory>
#include <iostream>
#include <utility>
#include "simd_shim.hpp"
#define float vt::sf32
#define double vt::sf64
#endif
#include <glm/detail/setup.hpp>
namespace glm { namespace detail {
	template<> struct is_int<vt::si32> { enum test { value = ~0 }; };
	template<> struct is_int<vt::su32> { enum test { value = ~0 }; };
#if !GLM_HAS_MAKE_SIGNED
	template<> struct make_unsigned<vt::si32> { typedef vt::su32 type; };
	template<> struct make_unsigned<vt::su32> { typedef vt::su32 type; };
	template<> struct make_unsigned<vt::si64> { typedef vt::su64 type; };
	template<> struct make_unsigned<vt::su64> { typedef vt::su64 type; };
#endif
}}
#include <glm/fwd.hpp>
#include <glm/vec2.hpp>
#include <glm/vec3.hpp>
#include <glm/vec4.hpp>
#include <glm/ext/vector_float1.hpp>
#include <glm/mat2x2.hpp>
#include <glm/mat2x3.hpp>
#include <glm/mat2x4.hpp>
#include <glm/mat3x2.hpp>
#include <glm/mat3x3.hpp>
#include <glm/mat3x4.hpp>
#include <glm/mat4x2.hpp>
#include <glm/mat4x3.hpp>
#include <glm/mat4x4.hpp>
#include <glm/ext/quaternion_float.hpp>
#include <glm/common.hpp>
// scalar mix(x, y, bool): GLM specialises compute_mix<T, bool>; the traced comparison type is SymBool
namespace glm { namespace detail {
	template<vt::Kind K> struct compute_mix<vt::Sym<K>, vt::SymBool> {
		GLM_FUNC_QUALIFIER static vt::Sym<K> call(vt::Sym<K> const& x, vt::Sym<K> const& y, vt::SymBool const& a) { return a ? y : x; }
	};
}}
#ifdef VT_SIMD
#undef float
#undef double
#endif
#include <sstream>
#include <memory>
#include <fstream>

namespace vt {

// ---------------------------------------------------------------------------- concrete values
struct Val { Kind k; uint64_t bits; };

inline uint64_t splitmix(uint64_t& s) { uint64_t z = (s += 0x9E3779B97F4A7C15ull); z = (z ^ (z >> 30)) * 0xBF58476D1CE4E5B9ull; z = (z ^ (z >> 27)) * 0x94D049BB133111EBull; return z ^ (z >> 31); }

// deterministic input value for variable (arg, comp) of kind k in trial t of flavour fl
// flavour 0: small integers (exact arithmetic), 1: moderate reals, 2: special-value rich
inline uint64_t input_bits(Kind k, int arg, int comp, uint64_t seed, int trial, int flavour)
{
	if (flavour == 3) {   // tag values: 10*(arg+1) + comp + 1, exactly representable in every kind
		long long tag = 10ll * (arg + 1) + comp + 1;
		if (k == F32) return to_bits<float>((float)tag); if (k == F64) return to_bits<double>((double)tag); return (uint64_t)tag;
	}
	uint64_t s = seed * 0x100000001B3ull + (uint64_t)trial * 1000003ull + (uint64_t)arg * 8191ull + (uint64_t)comp * 131ull + (uint64_t)k;
	uint64_t r = splitmix(s), r2 = splitmix(s);
	if (kind_is_float(k)) {
		double v;
		if (flavour == 0) v = (double)((int)(r % 17) - 8);
		else if (flavour == 1) v = ((double)(r % 2000001) - 1000000.0) / 250000.0 + (r2 % 3 == 0 ? 0.0 : 1e-3 * (double)(r2 % 1000));
		else {
			static const double sp[] = {0.0, -0.0, 1.0, -1.0, 0.5, -0.5, 2.0, 1.5, -2.5, 3.5, 1e-30, -1e-30, 1e30, 8388608.0, 16777216.0, 0.49999997, 1e-45, 2147483648.0, -2147483649.0,
				std::numeric_limits<double>::infinity(), -std::numeric_limits<double>::infinity(), std::numeric_limits<double>::quiet_NaN(), 3.4028234663852886e38, 1.17549435e-38};
			v = (r % 4 == 0) ? ((double)(r2 % 2000001) - 1000000.0) / 1000.0 : sp[r2 % (sizeof(sp) / sizeof(sp[0]))];
		}
		if (k == F32) return to_bits<float>((float)v);
		return to_bits<double>(v);
	}
	uint64_t v;
	if (flavour == 0) v = (uint64_t)(int64_t)((int)(r % 17) - 8);
	else if (flavour == 1) v = (uint64_t)(int64_t)((int64_t)(r % 200001) - 100000);
	else { static const uint64_t sp[] = {0, 1, ~0ull, 2, 0x7fffffffull, 0x80000000ull, 0xffffffffull, 0x7fffffffffffffffull, 0x8000000000000000ull, 31, 32, 63, 64, 0x55555555ull, 0xAAAAAAAAull}; v = (r % 3 == 0) ? r2 : sp[r2 % (sizeof(sp) / sizeof(sp[0]))]; }
	if (kind_bits(k) < 64) { uint64_t m = (1ull << kind_bits(k)) - 1; v &= m; }
	if (flavour != 2 && !kind_is_signed(k)) { /* unsigned small values: keep non-negative */ if (kind_bits(k) < 64 ? (v >> (kind_bits(k) - 1)) : (v >> 63)) v = (~v + 1) & (kind_bits(k) < 64 ? ((1ull << kind_bits(k)) - 1) : ~0ull); }
	return v;
}

// ---------------------------------------------------------------------------- scalar families
struct TraceFam {
	static const bool tracing = true;
	typedef sf32 f32; typedef sf64 f64; typedef si32 i32; typedef su32 u32; typedef si64 i64; typedef su64 u64; typedef SymBool boolean;
};
struct ConcFam {
	static const bool tracing = false;
	typedef float f32; typedef double f64; typedef int32_t i32; typedef uint32_t u32; typedef int64_t i64; typedef uint64_t u64; typedef bool boolean;
};
template<class T> struct kind_of;
template<Kind K> struct kind_of<Sym<K> > { static const Kind value = K; };
template<> struct kind_of<float> { static const Kind value = F32; };
template<> struct kind_of<double> { static const Kind value = F64; };
template<> struct kind_of<int32_t> { static const Kind value = I32; };
template<> struct kind_of<uint32_t> { static const Kind value = U32; };
template<> struct kind_of<int64_t> { static const Kind value = I64; };
template<> struct kind_of<uint64_t> { static const Kind value = U64; };
template<> struct kind_of<bool> { static const Kind value = KB; };
template<> struct kind_of<SymBool> { static const Kind value = KB; };

struct OutRec { bool is_node; uint32_t node; Val val; };

struct CtxBase {
	uint64_t seed = 1; int trial = 0; int flavour = 0;
	std::vector<OutRec> outs;
	std::vector<std::tuple<int,int,Kind> > vars;   // variables requested, in order
};

template<class S> struct Ctx;

template<> struct Ctx<TraceFam> : CtxBase {
	typedef TraceFam S;
	template<class T> T in(int arg, int comp) { Kind k = kind_of<T>::value; return T(G().mk(VAR, k, (uint32_t)arg, (uint32_t)comp), typename T::Raw()); }
	template<Kind K> void out(Sym<K> x) { outs.push_back(OutRec{true, G().undo(x.id), Val{K, 0}}); }
	void out(SymBool b) { outs.push_back(OutRec{true, G().undo(b.id), Val{KB, 0}}); }
	void out(bool b) { outs.push_back(OutRec{true, G().undo(G().mk(CST, KB, 0, 0, 0, b ? 1 : 0)), Val{KB, 0}}); }
	void out(int v) { outs.push_back(OutRec{true, G().undo(G().mk(CST, I32, 0, 0, 0, to_bits<int32_t>(v))), Val{I32, 0}}); }
	void out(unsigned v) { outs.push_back(OutRec{true, G().undo(G().mk(CST, U32, 0, 0, 0, to_bits<uint32_t>(v))), Val{U32, 0}}); }
	void out(long v) { outs.push_back(OutRec{true, G().undo(G().mk(CST, I64, 0, 0, 0, to_bits<int64_t>(v))), Val{I64, 0}}); }
	void out(unsigned long v) { outs.push_back(OutRec{true, G().undo(G().mk(CST, U64, 0, 0, 0, to_bits<uint64_t>(v))), Val{U64, 0}}); }
};
template<> struct Ctx<ConcFam> : CtxBase {
	typedef ConcFam S;
	template<class T> T in(int arg, int comp) { Kind k = kind_of<T>::value; return from_bits<T>(input_bits(k, arg, comp, seed, trial, flavour)); }
	template<class T> typename std::enable_if<std::is_arithmetic<T>::value>::type out(T x) { outs.push_back(OutRec{false, 0, Val{kind_of<typename std::conditional<std::is_same<T,long>::value, int64_t, typename std::conditional<std::is_same<T,unsigned long>::value, uint64_t, T>::type>::type>::value, to_bits<T>(x)}}); }
};

// helpers shared by both families --------------------------------------------------------------
template<int L, class T, glm::qualifier Q = glm::defaultp, class C>
glm::vec<L, T, Q> in_vec(C& c, int arg) { glm::vec<L, T, Q> v; for (int i = 0; i < L; ++i) v[i] = c.template in<T>(arg, i); return v; }
template<int Cn, int Rn, class T, glm::qualifier Q = glm::defaultp, class C>
glm::mat<Cn, Rn, T, Q> in_mat(C& c, int arg) { glm::mat<Cn, Rn, T, Q> m; for (int i = 0; i < Cn; ++i) for (int j = 0; j < Rn; ++j) m[i][j] = c.template in<T>(arg, i * Rn + j); return m; }
// quaternion components are numbered x=0, y=1, z=2, w=3 whatever the storage order
template<class T, glm::qualifier Q = glm::defaultp, class C>
glm::qua<T, Q> in_qua(C& c, int arg) { glm::qua<T, Q> q; q.x = c.template in<T>(arg, 0); q.y = c.template in<T>(arg, 1); q.z = c.template in<T>(arg, 2); q.w = c.template in<T>(arg, 3); return q; }
template<class C, glm::length_t L, class T, glm::qualifier Q> void out_vec(C& c, glm::vec<L, T, Q> const& v) { for (glm::length_t i = 0; i < L; ++i) c.out(v[i]); }
template<class C, glm::length_t Cn, glm::length_t Rn, class T, glm::qualifier Q> void out_mat(C& c, glm::mat<Cn, Rn, T, Q> const& m) { for (glm::length_t i = 0; i < Cn; ++i) for (glm::length_t j = 0; j < Rn; ++j) c.out(m[i][j]); }
template<class C, class T, glm::qualifier Q> void out_qua(C& c, glm::qua<T, Q> const& q) { c.out(q.x); c.out(q.y); c.out(q.z); c.out(q.w); }

// ---------------------------------------------------------------------------- registry
struct Entry {
	std::string name;
	std::function<void(Ctx<TraceFam>&)> tr;
	std::function<void(Ctx<ConcFam>&)> cc;
	int flavours;   // bit mask of input flavours used for self-validation
};
inline std::vector<Entry>& registry() { static std::vector<Entry> r; return r; }
struct Reg { Reg(std::string n, std::function<void(Ctx<TraceFam>&)> t, std::function<void(Ctx<ConcFam>&)> c, int fl = 7) { registry().push_back(Entry{n, t, c, fl}); } };

#define VT_CAT2(a, b) a##b
#define VT_CAT(a, b) VT_CAT2(a, b)
// ENTRY(name) { body using `c` and family `S` }
#ifdef VT_GOLDEN_ONLY
// the concrete side of the SIMD self-validation: only the real instantiation is built (VT_GOLDEN_OUT)
#define ENTRY(NAME) \
	template<class S> static void VT_CAT(ent_, NAME)(vt::Ctx<S>& c); \
	static vt::Reg VT_CAT(reg_, NAME)(#NAME, std::function<void(vt::Ctx<vt::TraceFam>&)>(), &VT_CAT(ent_, NAME)<vt::ConcFam>); \
	template<class S> static void VT_CAT(ent_, NAME)(vt::Ctx<S>& c)
#elif defined(VT_SIMD)
// SIMD mode: the concrete side is another binary (the same entries built with the compiler's intrinsics, VT_GOLDEN_OUT)
#define ENTRY(NAME) \
	template<class S> static void VT_CAT(ent_, NAME)(vt::Ctx<S>& c); \
	static vt::Reg VT_CAT(reg_, NAME)(#NAME, &VT_CAT(ent_, NAME)<vt::TraceFam>, std::function<void(vt::Ctx<vt::ConcFam>&)>()); \
	template<class S> static void VT_CAT(ent_, NAME)(vt::Ctx<S>& c)
#else
#define ENTRY(NAME) \
	template<class S> static void VT_CAT(ent_, NAME)(vt::Ctx<S>& c); \
	static vt::Reg VT_CAT(reg_, NAME)(#NAME, &VT_CAT(ent_, NAME)<vt::TraceFam>, &VT_CAT(ent_, NAME)<vt::ConcFam>); \
	template<class S> static void VT_CAT(ent_, NAME)(vt::Ctx<S>& c)
#endif
// register a templated entry  fn<S, args...>  under a runtime name
#define REG_T(NAMESTR, FN, ...) vt::Reg(NAMESTR, &FN<vt::TraceFam, ##__VA_ARGS__>, &FN<vt::ConcFam, ##__VA_ARGS__>)

// ---------------------------------------------------------------------------- decision trees
struct PathRes { std::vector<std::pair<uint32_t,bool> > dec; std::vector<uint32_t> pre; std::vector<uint32_t> outs; std::string abort; };

struct Tree { int kind; /*0 leaf 1 branch 2 abort*/ uint32_t cond; std::unique_ptr<Tree> t, f; std::vector<uint32_t> pre, outs; std::string why; };

inline std::unique_ptr<Tree> build_tree(std::vector<PathRes> const& ps, size_t lo, size_t hi, size_t depth)
{
	std::unique_ptr<Tree> n(new Tree());
	if (hi - lo == 1 && ps[lo].dec.size() == depth) {
		if (!ps[lo].abort.empty()) { n->kind = 2; n->why = ps[lo].abort; }
		else { n->kind = 0; n->pre = ps[lo].pre; n->outs = ps[lo].outs; }
		return n;
	}
	if (ps[lo].dec.size() <= depth) throw std::runtime_error("inconsistent decision paths");
	uint32_t cond = ps[lo].dec[depth].first;
	size_t mid = lo;
	while (mid < hi && ps[mid].dec.size() > depth && ps[mid].dec[depth].first == cond && ps[mid].dec[depth].second) ++mid;
	for (size_t i = mid; i < hi; ++i) if (ps[i].dec.size() <= depth || ps[i].dec[depth].first != cond || ps[i].dec[depth].second) throw std::runtime_error("non-deterministic decision order");
	if (mid == lo || mid == hi) throw std::runtime_error("one-sided branch");
	n->kind = 1; n->cond = cond;
	n->t = build_tree(ps, lo, mid, depth + 1);
	n->f = build_tree(ps, mid, hi, depth + 1);
	return n;
}

// ---------------------------------------------------------------------------- concrete interpreter
template<class N> inline N shl_n(N a, N c) { typedef typename std::make_unsigned<N>::type U; return (N)((U)a << (c & (sizeof(N) * 8 - 1))); }

struct Interp {
	std::vector<Node> const& nodes; uint64_t seed; int trial; int flavour;
	std::vector<uint8_t> done; std::vector<uint64_t> val;
	bool undefined = false;   // an operation with undefined/implementation-specific meaning was evaluated
	Interp(std::vector<Node> const& n, uint64_t s, int t, int f) : nodes(n), seed(s), trial(t), flavour(f), done(n.size(), 0), val(n.size(), 0) {}
	template<class N> uint64_t fl(Node const& n) {
		N a = from_bits<N>(ev(n.a)); N b = (op_is_binary(n.op) || n.op == FMA) ? from_bits<N>(ev(n.b)) : N(0);
		switch (n.op) {
		case NEG: return to_bits<N>(-a); case SQRT: return to_bits<N>(std::sqrt(a)); case FLOOR: return to_bits<N>(std::floor(a));
		case CEIL: return to_bits<N>(std::ceil(a)); case TRUNC: return to_bits<N>(std::trunc(a)); case ROUND: return to_bits<N>(std::round(a));
		case FABS: return to_bits<N>(std::fabs(a)); case SIN: return to_bits<N>(std::sin(a)); case COS: return to_bits<N>(std::cos(a));
		case TAN: return to_bits<N>(std::tan(a)); case ASIN: return to_bits<N>(std::asin(a)); case ACOS: return to_bits<N>(std::acos(a));
		case ATAN: return to_bits<N>(std::atan(a)); case SINH: return to_bits<N>(std::sinh(a)); case COSH: return to_bits<N>(std::cosh(a));
		case TANH: return to_bits<N>(std::tanh(a)); case ASINH: return to_bits<N>(std::asinh(a)); case ACOSH: return to_bits<N>(std::acosh(a));
		case ATANH: return to_bits<N>(std::atanh(a)); case EXP: return to_bits<N>(std::exp(a)); case LOG: return to_bits<N>(std::log(a));
		case EXP2: return to_bits<N>(std::exp2(a)); case LOG2: return to_bits<N>(std::log2(a)); case NEARBY: return to_bits<N>(std::nearbyint(a));
		case RCP: case RSQRT: undefined = true; return to_bits<N>(n.op == RCP ? N(1) / a : N(1) / std::sqrt(a));
		case ADD: return to_bits<N>(a + b); case SUB: return to_bits<N>(a - b); case MUL: return to_bits<N>(a * b); case DIV: return to_bits<N>(a / b);
		case POW: return to_bits<N>(std::pow(a, b)); case ATAN2: return to_bits<N>(std::atan2(a, b)); case FMOD: return to_bits<N>(std::fmod(a, b));
		case FMIN: return to_bits<N>(std::fmin(a, b)); case FMAX: return to_bits<N>(std::fmax(a, b)); case NEXTAFTER: return to_bits<N>(std::nextafter(a, b));
		case COPYSIGN: return to_bits<N>(std::copysign(a, b)); case LDEXP: return to_bits<N>(std::ldexp(a, (int)b));
		case FMA: return to_bits<N>(std::fma(a, b, from_bits<N>(ev(n.c))));
		default: throw std::runtime_error(std::string("interp: float op ") + op_name[n.op]);
		}
	}
	template<class N> uint64_t in(Node const& n) {
		typedef typename std::make_unsigned<N>::type U;
		N a = from_bits<N>(ev(n.a)); N b = op_is_binary(n.op) ? from_bits<N>(ev(n.b)) : N(0);
		switch (n.op) {
		case NEG: return to_bits<N>((N)(U(0) - (U)a)); case BNOT: return to_bits<N>((N)~a);
		case FABS: return to_bits<N>(a < 0 ? (N)(U(0) - (U)a) : a);
		case ADD: return to_bits<N>((N)((U)a + (U)b)); case SUB: return to_bits<N>((N)((U)a - (U)b)); case MUL: return to_bits<N>((N)((U)a * (U)b));
		case DIV: if (b == 0 || (std::is_signed<N>::value && a == std::numeric_limits<N>::min() && b == (N)-1)) { undefined = true; return 0; } return to_bits<N>((N)(a / b));
		case REM: if (b == 0 || (std::is_signed<N>::value && a == std::numeric_limits<N>::min() && b == (N)-1)) { undefined = true; return 0; } return to_bits<N>((N)(a % b));
		case BAND: return to_bits<N>((N)(a & b)); case BOR: return to_bits<N>((N)(a | b)); case BXOR: return to_bits<N>((N)(a ^ b));
		case SHL: if (b < 0 || (U)b >= sizeof(N) * 8) { undefined = true; return 0; } return to_bits<N>((N)((U)a << b));
		case SHR: if (b < 0 || (U)b >= sizeof(N) * 8) { undefined = true; return 0; } return to_bits<N>((N)(a >> b));
		default: throw std::runtime_error(std::string("interp: int op ") + op_name[n.op]);
		}
	}
	template<class N> uint64_t cmp(Node const& n) {
		N a = from_bits<N>(ev(n.a)); N b = (n.op == ISNAN || n.op == ISINF) ? N(0) : from_bits<N>(ev(n.b));
		switch (n.op) { case LT: return a < b; case LE: return a <= b; case GT: return a > b; case GE: return a >= b; case EQ: return a == b; case NE: return a != b;
		default: throw std::runtime_error("interp: cmp"); }
	}
	template<class D, class Sx> uint64_t cast2(uint64_t b) {
		Sx s = from_bits<Sx>(b);
		if (std::is_floating_point<Sx>::value && std::is_integral<D>::value && !std::is_same<D,bool>::value) {
			long double ld = (long double)s;
			if (!(ld > (long double)std::numeric_limits<D>::lowest() - 1.0L && ld < (long double)std::numeric_limits<D>::max() + 1.0L)) { undefined = true; return 0; }
		}
		return to_bits<D>(static_cast<D>(s));
	}
	template<class D> uint64_t cast1(Kind from, uint64_t b) {
		switch (from) { case F32: return cast2<D, float>(b); case F64: return cast2<D, double>(b); case I32: return cast2<D, int32_t>(b); case U32: return cast2<D, uint32_t>(b);
		case I64: return cast2<D, int64_t>(b); case U64: return cast2<D, uint64_t>(b); case KB: return cast2<D, bool>(b); default: throw std::runtime_error("interp: cast src"); }
	}
	uint64_t ev(uint32_t id) {
		if (done[id]) return val[id];
		Node const& n = nodes[id]; uint64_t r = 0;
		if (n.op == VAR) r = input_bits(n.k, (int)n.a, (int)n.b, seed, trial, flavour);
		else if (n.op == CST) r = n.bits;
		else if (n.op == CAST) {
			uint64_t b = ev(n.a);
			switch (n.k) { case F32: r = cast1<float>(n.k2, b); break; case F64: r = cast1<double>(n.k2, b); break; case I32: r = cast1<int32_t>(n.k2, b); break; case U32: r = cast1<uint32_t>(n.k2, b); break;
			case I64: r = cast1<int64_t>(n.k2, b); break; case U64: r = cast1<uint64_t>(n.k2, b); break; default: throw std::runtime_error("interp: cast dst"); }
		}
		else if (n.op == LNOT) r = !ev(n.a);
		else if (n.op == LAND) r = (ev(n.a) != 0) & (ev(n.b) != 0);
		else if (n.op == LOR) r = (ev(n.a) != 0) | (ev(n.b) != 0);
		else if (n.op == ISNAN) r = (n.k == F32) ? std::isnan(from_bits<float>(ev(n.a))) : std::isnan(from_bits<double>(ev(n.a)));
		else if (n.op == ISINF) r = (n.k == F32) ? std::isinf(from_bits<float>(ev(n.a))) : std::isinf(from_bits<double>(ev(n.a)));
		else if (op_is_cmp(n.op)) {
			switch (n.k) { case F32: r = cmp<float>(n); break; case F64: r = cmp<double>(n); break; case I32: r = cmp<int32_t>(n); break; case U32: r = cmp<uint32_t>(n); break;
			case I64: r = cmp<int64_t>(n); break; case U64: r = cmp<uint64_t>(n); break; default: throw std::runtime_error("interp: cmp kind"); }
		}
		else switch (n.k) {
			case F32: r = fl<float>(n); break; case F64: r = fl<double>(n); break;
			case I32: r = in<int32_t>(n); break; case U32: r = in<uint32_t>(n); break; case I64: r = in<int64_t>(n); break; case U64: r = in<uint64_t>(n); break;
			default: throw std::runtime_error("interp: kind");
		}
		done[id] = 1; val[id] = r; return r;
	}
};

inline bool bits_equal(Kind k, uint64_t a, uint64_t b)
{
	if (k == F32) { float x = from_bits<float>(a), y = from_bits<float>(b); if (std::isnan(x) && std::isnan(y)) return true; return (uint32_t)a == (uint32_t)b; }
	if (k == F64) { double x = from_bits<double>(a), y = from_bits<double>(b); if (std::isnan(x) && std::isnan(y)) return true; return a == b; }
	if (k == KB) return (a != 0) == (b != 0);
	if (kind_bits(k) < 64) { uint64_t m = (1ull << kind_bits(k)) - 1; return (a & m) == (b & m); }
	return a == b;
}

// ---------------------------------------------------------------------------- Gallina printer
struct Printer {
	std::vector<Node> const& nodes; std::ostream& os; size_t budget;
	Printer(std::vector<Node> const& n, std::ostream& o) : nodes(n), os(o), budget(4000000) {}
	static void zlit(std::ostream& os, long long v) { if (v < 0) os << "(" << v << ")"; else os << v; }
	void cst(Node const& n) {
		if (n.k == F32 || n.k == F64) {
			double d = (n.k == F32) ? (double)from_bits<float>(n.bits) : from_bits<double>(n.bits);
			if (std::isnan(d)) { os << "(Cnan " << kind_name[n.k] << ")"; return; }
			if (std::isinf(d)) { os << "(Cinf " << kind_name[n.k] << (d < 0 ? " true)" : " false)"); return; }
			if (d == 0) { os << "(Cf " << kind_name[n.k] << (std::signbit(d) ? " true" : " false") << " 0 0)"; return; }
			int e; double m = std::frexp(std::fabs(d), &e);          // |d| = m * 2^e, m in [0.5,1)
			long long mi = (long long)std::ldexp(m, 53); e -= 53;     // exact: 53-bit integer significand
			while ((mi & 1) == 0) { mi >>= 1; ++e; }
			os << "(Cf " << kind_name[n.k] << (d < 0 ? " true " : " false ") << mi << " "; zlit(os, e); os << ")"; return;
		}
		long long v;
		switch (n.k) { case I32: v = (int32_t)n.bits; break; case I64: v = (int64_t)n.bits; break; case U32: v = (long long)(uint32_t)n.bits; break;
		case KB: v = n.bits != 0; break;
		case U64: { os << "(Cz U64 " << (unsigned long long)n.bits << ")"; return; }
		default: v = (long long)n.bits; }
		os << "(Cz " << kind_name[n.k] << " "; zlit(os, v); os << ")";
	}
	void ex(uint32_t id) {
		if (budget-- == 0) throw Untraceable("expression too large to print as a tree");
		Node const& n = nodes[id];
		if (n.op == VAR) { os << "(V " << kind_name[n.k] << " " << n.a << " " << n.b << ")"; return; }
		if (n.op == CST) { cst(n); return; }
		if (n.op == CAST) { os << "(Cv " << kind_name[n.k] << " " << kind_name[n.k2] << " "; ex(n.a); os << ")"; return; }
		if (n.op == FMA) { os << "(Fma " << kind_name[n.k] << " "; ex(n.a); os << " "; ex(n.b); os << " "; ex(n.c); os << ")"; return; }
		if (op_is_unary(n.op)) { os << "(U " << op_name[n.op] << " " << kind_name[n.k] << " "; ex(n.a); os << ")"; return; }
		if (op_is_binary(n.op)) { os << "(B " << op_name[n.op] << " " << kind_name[n.k] << " "; ex(n.a); os << " "; ex(n.b); os << ")"; return; }
		if (op_is_cmp(n.op)) { os << "(Cmp " << op_name[n.op] << " " << kind_name[n.k] << " "; ex(n.a); os << " "; ex(n.b); os << ")"; return; }
		if (n.op == ISNAN || n.op == ISINF) { os << "(Tst " << op_name[n.op] << " " << kind_name[n.k] << " "; ex(n.a); os << ")"; return; }
		if (n.op == LNOT) { os << "(LNot "; ex(n.a); os << ")"; return; }
		if (n.op == LAND || n.op == LOR) { os << "(" << op_name[n.op] << " "; ex(n.a); os << " "; ex(n.b); os << ")"; return; }
		throw std::runtime_error("printer: op");
	}
	void list(std::vector<uint32_t> const& v) { os << "["; for (size_t i = 0; i < v.size(); ++i) { if (i) os << ";\n    "; ex(v[i]); } os << "]"; }
	void tree(Tree const& t) {
		if (t.kind == 2) { os << "(Abort \"" << t.why << "\")"; return; }
		if (t.kind == 0) { os << "(Leaf "; list(t.pre); os << "\n   "; list(t.outs); os << ")"; return; }
		os << "(Br "; ex(t.cond); os << "\n  "; tree(*t.t); os << "\n  "; tree(*t.f); os << ")";
	}
};

// structural size (as a tree, saturating) and hash of the DAG below a node, memoised
struct Measure {
	std::vector<Node> const& nodes; std::vector<uint64_t> sz, hs; std::vector<uint8_t> done;
	Measure(std::vector<Node> const& n) : nodes(n), sz(n.size(), 0), hs(n.size(), 0), done(n.size(), 0) {}
	void go(uint32_t id) {
		if (done[id]) return; Node const& n = nodes[id]; uint64_t s = 1, h = 1469598103934665603ull;
		auto mix = [&](uint64_t v) { h ^= v; h *= 1099511628211ull; h ^= h >> 29; };
		mix(n.op); mix(n.k); mix(n.k2); mix(n.bits);
		if (n.op == VAR) { mix(n.a); mix(n.b); }
		else if (n.op != CST) {
			int ar = (op_is_binary(n.op) || op_is_cmp(n.op) || n.op == LAND || n.op == LOR) ? 2 : (n.op == FMA ? 3 : 1);
			uint32_t ch[3] = {n.a, n.b, n.c};
			for (int i = 0; i < ar; ++i) { go(ch[i]); s += sz[ch[i]]; if (s > (1ull << 40)) s = 1ull << 40; mix(hs[ch[i]]); }
		}
		sz[id] = s; hs[id] = h; done[id] = 1;
	}
	void tree(Tree const& t, uint64_t& s, uint64_t& h) {
		auto mix = [&](uint64_t v) { h ^= v; h *= 1099511628211ull; h ^= h >> 29; };
		mix(t.kind);
		if (t.kind == 1) { go(t.cond); s += sz[t.cond]; mix(hs[t.cond]); tree(*t.t, s, h); tree(*t.f, s, h); }
		else if (t.kind == 0) { for (uint32_t p : t.pre) { go(p); s += sz[p]; mix(hs[p]); } mix(77); for (uint32_t o : t.outs) { go(o); s += sz[o]; mix(hs[o]); } }
	}
};

struct RunStats { int entries = 0, aborted = 0, paths = 0, trials = 0, skipped_pre = 0, skipped_undef = 0, mismatches = 0; size_t nodes = 0; };

// evaluate a decision tree on concrete inputs
inline Tree const* walk(Tree const& t, Interp& I) { Tree const* p = &t; while (p->kind == 1) p = (I.ev(p->cond) != 0) ? p->t.get() : p->f.get(); return p; }

// Trace every registered entry, self-validate, print a Coq module to `out`.
inline int run_all(char const* module_comment, std::ostream& out, std::ostream& log, uint64_t seed, int trials, RunStats& st)
{
	out << "(* GENERATED by /verif/tools/trace from /repo's working tree -- do not edit. " << module_comment << " *)\n";
	out << "Require Import ZArith List String.\nImport ListNotations.\nFrom GLMV Require Import Expr.\nLocal Open Scope Z_scope.\nLocal Open Scope string_scope.\n\n";
	std::vector<std::string> names;
	// golden files: the concrete side of the self-validation computed by another build of the same entries
	std::ofstream gout; if (std::getenv("VT_GOLDEN_OUT")) gout.open(std::getenv("VT_GOLDEN_OUT"));
	std::map<std::string, std::vector<Val> > gin;
	if (std::getenv("VT_GOLDEN_IN")) { std::ifstream f(std::getenv("VT_GOLDEN_IN")); std::string line; while (std::getline(f, line)) { std::istringstream ls(line); std::string nm; int fl, t; ls >> nm >> fl >> t; std::vector<Val> vs; std::string tok; while (ls >> tok) { size_t c = tok.find(':'); vs.push_back(Val{(Kind)std::atoi(tok.substr(0, c).c_str()), std::strtoull(tok.substr(c + 1).c_str(), 0, 16)}); } gin[nm + " " + std::to_string(fl) + " " + std::to_string(t)] = vs; } }
	for (Entry const& e : registry()) {
		if (gout.is_open() && e.cc) for (int fl = 0; fl < 3; ++fl) if (e.flavours & (1 << fl)) for (int t = 0; t < trials; ++t) {
			Ctx<ConcFam> cc; cc.seed = seed; cc.trial = t; cc.flavour = fl; e.cc(cc);
			gout << e.name << " " << fl << " " << t; for (auto const& o : cc.outs) gout << " " << (int)o.val.k << ":" << std::hex << o.val.bits << std::dec; gout << "\n";
		}
		if (!e.tr) continue;   // golden-only build
		Graph& g = G(); g.reset_all(); g.tracing = true;
		std::vector<PathRes> paths; bool more = true; std::string fatal;
		while (more) {
			g.reset_path();
			Ctx<TraceFam> c; PathRes pr;
			try { e.tr(c); for (auto const& o : c.outs) pr.outs.push_back(o.node); }
			catch (Untraceable const& u) { pr.abort = u.what(); }
			pr.dec = g.path; pr.pre = g.pre;
			paths.push_back(pr);
			if (paths.size() > 4096) { fatal = "more than 4096 paths"; break; }
			more = g.next_path();
		}
		g.tracing = false;
		++st.entries; st.paths += (int)paths.size(); st.nodes += g.nodes.size();
		std::unique_ptr<Tree> tree;
		if (fatal.empty()) { try { tree = build_tree(paths, 0, paths.size(), 0); } catch (std::exception const& x) { fatal = x.what(); } }
		if (!fatal.empty()) { tree.reset(new Tree()); tree->kind = 2; tree->why = fatal; }
		bool any_abort = false; for (auto const& p : paths) if (!p.abort.empty()) any_abort = true;
		if (any_abort || !fatal.empty()) { ++st.aborted; log << "ABORT " << e.name << " : " << (fatal.empty() ? paths[0].abort : fatal) << "\n"; }
		// self-validation against the real scalar types
		if (!any_abort && fatal.empty()) for (int fl = 0; fl < 3; ++fl) if (e.flavours & (1 << fl)) for (int t = 0; t < trials; ++t) {
			Ctx<ConcFam> cc; cc.seed = seed; cc.trial = t; cc.flavour = fl;
			Interp I(g.nodes, seed, t, fl);
			Tree const* leaf = walk(*tree, I);
			bool pre_ok = true; for (uint32_t p : leaf->pre) if (!I.ev(p)) pre_ok = false;
			std::vector<uint64_t> mv; for (uint32_t o : leaf->outs) mv.push_back(I.ev(o));
			if (!pre_ok) { ++st.skipped_pre; continue; }
			if (I.undefined) { ++st.skipped_undef; continue; }
			if (e.cc) e.cc(cc);
			else { auto it = gin.find(e.name + " " + std::to_string(fl) + " " + std::to_string(t)); if (it != gin.end()) for (Val const& v : it->second) cc.outs.push_back(OutRec{false, 0, v}); }
			++st.trials;
			bool ok = cc.outs.size() == mv.size();
			for (size_t i = 0; ok && i < mv.size(); ++i) { Node const& on = g.nodes[leaf->outs[i]]; Kind rk = (op_is_cmp(on.op) || on.op == ISNAN || on.op == ISINF || on.op == LNOT || on.op == LAND || on.op == LOR) ? KB : on.k; ok = bits_equal(cc.outs[i].val.k, cc.outs[i].val.bits, mv[i]) && cc.outs[i].val.k == rk;
				// std::fmin / std::fmax of +0 and -0 may return either zero (and the compiler may fold the call differently in the two instantiations): with such a node in the graph, zeros of either sign agree
				if (!ok && cc.outs[i].val.k == rk && (rk == F32 || rk == F64)) { bool fm = false; for (auto const& nd : g.nodes) if (nd.op == FMIN || nd.op == FMAX) { fm = true; break; }
					bool zi = rk == F32 ? from_bits<float>(cc.outs[i].val.bits) == 0.0f : from_bits<double>(cc.outs[i].val.bits) == 0.0, zm = rk == F32 ? from_bits<float>(mv[i]) == 0.0f : from_bits<double>(mv[i]) == 0.0; if (fm && zi && zm) ok = true;
#ifdef VT_SIMD
					// minps / maxps return their second operand when either is a NaN, std::fmin / fmax the other one: NaN behaviour of the SIMD min / max is outside the traced meaning
					if (fm) for (auto const& nd : g.nodes) if (nd.op == VAR && nd.k == F32) { float iv = from_bits<float>(input_bits(F32, (int)nd.a, (int)nd.b, seed, t, fl)); if (iv != iv) ok = true; }
#endif
				} }
			if (!ok) {
				++st.mismatches;
				log << "MISMATCH " << e.name << " flavour=" << fl << " trial=" << t << " seed=" << seed << " impl=[";
				for (auto const& o : cc.outs) log << std::hex << o.val.bits << std::dec << " "; log << "] model=["; for (auto v : mv) log << std::hex << v << std::dec << " "; log << "]\n";
			}
		}
		out << "Definition t_" << e.name << " : tree :=\n  ";
		Printer P(g.nodes, out);
		{ // entries whose expression tree (without sharing) is too large to hand to Coq are summarised by a structural hash
			Measure M(g.nodes); uint64_t tsz = 0, th = 1469598103934665603ull; if (tree->kind != 2) M.tree(*tree, tsz, th);
			if (tsz > 150000) { char buf[64]; std::snprintf(buf, sizeof buf, "large:%016llx", (unsigned long long)th); tree.reset(new Tree()); tree->kind = 2; tree->why = buf; log << "LARGE " << e.name << " size=" << tsz << " hash=" << buf << "\n"; }
		}
		try { P.tree(*tree); } catch (Untraceable const& u) { out << "(Abort \"" << u.what() << "\")"; log << "ABORT " << e.name << " : " << u.what() << "\n"; ++st.aborted; }
		out << ".\n\n";
		names.push_back(e.name);
	}
	out << "Definition catalogue : list (string * tree) := [\n";
	for (size_t i = 0; i < names.size(); ++i) out << "  (\"" << names[i] << "\", t_" << names[i] << ")" << (i + 1 < names.size() ? ";\n" : "\n");
	out << "].\n";
	return st.mismatches;
}

} // namespace vt

// standard main for a trace program: argv[1] = output .v, argv[2] = log, env VERIF_SEED, VT_TRIALS
namespace vt {
// --replay <entry>: run the REAL instantiation of one entry on tag inputs (component i of argument a = 10(a+1)+i+1)
inline int replay_entry(char const* name) {
	for (Entry const& e : registry()) if (e.name == name) {
		Ctx<ConcFam> cc; cc.seed = 0; cc.trial = 0; cc.flavour = 3; e.cc(cc);
		std::printf("REPLAY %s outputs=[", name);
		for (size_t i = 0; i < cc.outs.size(); ++i) { Val v = cc.outs[i].val; double d = v.k == F32 ? (double)from_bits<float>(v.bits) : v.k == F64 ? from_bits<double>(v.bits) : kind_is_signed(v.k) ? (double)(int64_t)(v.k == I32 ? (int64_t)(int32_t)v.bits : (int64_t)v.bits) : (double)v.bits; std::printf("%s%.17g", i ? ";" : "", d); }
		std::printf("]\n"); return 0; }
	std::printf("REPLAY %s not-found\n", name); return 3;
}
}
#define VT_MAIN(COMMENT) \
int main(int argc, char** argv) { \
	if (argc >= 3 && std::string(argv[1]) == "--replay") return vt::replay_entry(argv[2]); \
	if (argc < 3) { std::fprintf(stderr, "usage: %s out.v log\n", argv[0]); return 2; } \
	std::ostringstream out, log; vt::RunStats st; \
	uint64_t seed = std::getenv("VERIF_SEED") ? std::strtoull(std::getenv("VERIF_SEED"), 0, 10) : 1; \
	int trials = std::getenv("VT_TRIALS") ? std::atoi(std::getenv("VT_TRIALS")) : 24; \
	vt::run_all(COMMENT, out, log, seed, trials, st); \
	FILE* f = std::fopen(argv[1], "w"); std::fputs(out.str().c_str(), f); std::fclose(f); \
	f = std::fopen(argv[2], "w"); std::fputs(log.str().c_str(), f); \
	std::fprintf(f, "STATS entries=%d aborted=%d paths=%d nodes=%zu trials=%d skipped_pre=%d skipped_undef=%d mismatches=%d\n", st.entries, st.aborted, st.paths, st.nodes, st.trials, st.skipped_pre, st.skipped_undef, st.mismatches); \
	std::fclose(f); return 0; }
