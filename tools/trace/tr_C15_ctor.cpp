// C15 trace catalogue of constructors and conversions: the pre-C++11 builds (GLM_FORCE_CXX98 / CXX03 and friends) compile a second body of many
// constructors (assignments instead of an initializer list); their trees must be identical to the default build's.  GENERATED once (see DESIGN.md, C15); C++11-compatible.
#include "driver.hpp"
#include <glm/gtc/quaternion.hpp>
using namespace vt;
#define TY typename S::f32
ENTRY(mconv_2_2_2_2) { auto a = in_mat<2, 2, TY>(c, 0); glm::mat<2, 2, TY> m(a); out_mat(c, m); }
ENTRY(mconv_2_2_2_3) { auto a = in_mat<2, 3, TY>(c, 0); glm::mat<2, 2, TY> m(a); out_mat(c, m); }
ENTRY(mconv_2_2_2_4) { auto a = in_mat<2, 4, TY>(c, 0); glm::mat<2, 2, TY> m(a); out_mat(c, m); }
ENTRY(mconv_2_2_3_2) { auto a = in_mat<3, 2, TY>(c, 0); glm::mat<2, 2, TY> m(a); out_mat(c, m); }
ENTRY(mconv_2_2_3_3) { auto a = in_mat<3, 3, TY>(c, 0); glm::mat<2, 2, TY> m(a); out_mat(c, m); }
ENTRY(mconv_2_2_3_4) { auto a = in_mat<3, 4, TY>(c, 0); glm::mat<2, 2, TY> m(a); out_mat(c, m); }
ENTRY(mconv_2_2_4_2) { auto a = in_mat<4, 2, TY>(c, 0); glm::mat<2, 2, TY> m(a); out_mat(c, m); }
ENTRY(mconv_2_2_4_3) { auto a = in_mat<4, 3, TY>(c, 0); glm::mat<2, 2, TY> m(a); out_mat(c, m); }
ENTRY(mconv_2_2_4_4) { auto a = in_mat<4, 4, TY>(c, 0); glm::mat<2, 2, TY> m(a); out_mat(c, m); }
ENTRY(mdiag_2_2) { TY s = c.template in<TY>(0, 0); glm::mat<2, 2, TY> m(s); out_mat(c, m); }
ENTRY(mctor_scalars_2_2) { TY s0 = c.template in<TY>(0, 0); TY s1 = c.template in<TY>(0, 1); TY s2 = c.template in<TY>(0, 2); TY s3 = c.template in<TY>(0, 3); glm::mat<2, 2, TY> m(s0, s1, s2, s3); out_mat(c, m); }
ENTRY(mctor_cols_2_2) { auto v0 = in_vec<2, TY>(c, 0); auto v1 = in_vec<2, TY>(c, 1); glm::mat<2, 2, TY> m(v0, v1); out_mat(c, m); }
ENTRY(mconv_2_3_2_2) { auto a = in_mat<2, 2, TY>(c, 0); glm::mat<2, 3, TY> m(a); out_mat(c, m); }
ENTRY(mconv_2_3_2_3) { auto a = in_mat<2, 3, TY>(c, 0); glm::mat<2, 3, TY> m(a); out_mat(c, m); }
ENTRY(mconv_2_3_2_4) { auto a = in_mat<2, 4, TY>(c, 0); glm::mat<2, 3, TY> m(a); out_mat(c, m); }
ENTRY(mconv_2_3_3_2) { auto a = in_mat<3, 2, TY>(c, 0); glm::mat<2, 3, TY> m(a); out_mat(c, m); }
ENTRY(mconv_2_3_3_3) { auto a = in_mat<3, 3, TY>(c, 0); glm::mat<2, 3, TY> m(a); out_mat(c, m); }
ENTRY(mconv_2_3_3_4) { auto a = in_mat<3, 4, TY>(c, 0); glm::mat<2, 3, TY> m(a); out_mat(c, m); }
ENTRY(mconv_2_3_4_2) { auto a = in_mat<4, 2, TY>(c, 0); glm::mat<2, 3, TY> m(a); out_mat(c, m); }
ENTRY(mconv_2_3_4_3) { auto a = in_mat<4, 3, TY>(c, 0); glm::mat<2, 3, TY> m(a); out_mat(c, m); }
ENTRY(mconv_2_3_4_4) { auto a = in_mat<4, 4, TY>(c, 0); glm::mat<2, 3, TY> m(a); out_mat(c, m); }
ENTRY(mdiag_2_3) { TY s = c.template in<TY>(0, 0); glm::mat<2, 3, TY> m(s); out_mat(c, m); }
ENTRY(mctor_scalars_2_3) { TY s0 = c.template in<TY>(0, 0); TY s1 = c.template in<TY>(0, 1); TY s2 = c.template in<TY>(0, 2); TY s3 = c.template in<TY>(0, 3); TY s4 = c.template in<TY>(0, 4); TY s5 = c.template in<TY>(0, 5); glm::mat<2, 3, TY> m(s0, s1, s2, s3, s4, s5); out_mat(c, m); }
ENTRY(mctor_cols_2_3) { auto v0 = in_vec<3, TY>(c, 0); auto v1 = in_vec<3, TY>(c, 1); glm::mat<2, 3, TY> m(v0, v1); out_mat(c, m); }
ENTRY(mconv_2_4_2_2) { auto a = in_mat<2, 2, TY>(c, 0); glm::mat<2, 4, TY> m(a); out_mat(c, m); }
ENTRY(mconv_2_4_2_3) { auto a = in_mat<2, 3, TY>(c, 0); glm::mat<2, 4, TY> m(a); out_mat(c, m); }
ENTRY(mconv_2_4_2_4) { auto a = in_mat<2, 4, TY>(c, 0); glm::mat<2, 4, TY> m(a); out_mat(c, m); }
ENTRY(mconv_2_4_3_2) { auto a = in_mat<3, 2, TY>(c, 0); glm::mat<2, 4, TY> m(a); out_mat(c, m); }
ENTRY(mconv_2_4_3_3) { auto a = in_mat<3, 3, TY>(c, 0); glm::mat<2, 4, TY> m(a); out_mat(c, m); }
ENTRY(mconv_2_4_3_4) { auto a = in_mat<3, 4, TY>(c, 0); glm::mat<2, 4, TY> m(a); out_mat(c, m); }
ENTRY(mconv_2_4_4_2) { auto a = in_mat<4, 2, TY>(c, 0); glm::mat<2, 4, TY> m(a); out_mat(c, m); }
ENTRY(mconv_2_4_4_3) { auto a = in_mat<4, 3, TY>(c, 0); glm::mat<2, 4, TY> m(a); out_mat(c, m); }
ENTRY(mconv_2_4_4_4) { auto a = in_mat<4, 4, TY>(c, 0); glm::mat<2, 4, TY> m(a); out_mat(c, m); }
ENTRY(mdiag_2_4) { TY s = c.template in<TY>(0, 0); glm::mat<2, 4, TY> m(s); out_mat(c, m); }
ENTRY(mctor_scalars_2_4) { TY s0 = c.template in<TY>(0, 0); TY s1 = c.template in<TY>(0, 1); TY s2 = c.template in<TY>(0, 2); TY s3 = c.template in<TY>(0, 3); TY s4 = c.template in<TY>(0, 4); TY s5 = c.template in<TY>(0, 5); TY s6 = c.template in<TY>(0, 6); TY s7 = c.template in<TY>(0, 7); glm::mat<2, 4, TY> m(s0, s1, s2, s3, s4, s5, s6, s7); out_mat(c, m); }
ENTRY(mctor_cols_2_4) { auto v0 = in_vec<4, TY>(c, 0); auto v1 = in_vec<4, TY>(c, 1); glm::mat<2, 4, TY> m(v0, v1); out_mat(c, m); }
ENTRY(mconv_3_2_2_2) { auto a = in_mat<2, 2, TY>(c, 0); glm::mat<3, 2, TY> m(a); out_mat(c, m); }
ENTRY(mconv_3_2_2_3) { auto a = in_mat<2, 3, TY>(c, 0); glm::mat<3, 2, TY> m(a); out_mat(c, m); }
ENTRY(mconv_3_2_2_4) { auto a = in_mat<2, 4, TY>(c, 0); glm::mat<3, 2, TY> m(a); out_mat(c, m); }
ENTRY(mconv_3_2_3_2) { auto a = in_mat<3, 2, TY>(c, 0); glm::mat<3, 2, TY> m(a); out_mat(c, m); }
ENTRY(mconv_3_2_3_3) { auto a = in_mat<3, 3, TY>(c, 0); glm::mat<3, 2, TY> m(a); out_mat(c, m); }
ENTRY(mconv_3_2_3_4) { auto a = in_mat<3, 4, TY>(c, 0); glm::mat<3, 2, TY> m(a); out_mat(c, m); }
ENTRY(mconv_3_2_4_2) { auto a = in_mat<4, 2, TY>(c, 0); glm::mat<3, 2, TY> m(a); out_mat(c, m); }
ENTRY(mconv_3_2_4_3) { auto a = in_mat<4, 3, TY>(c, 0); glm::mat<3, 2, TY> m(a); out_mat(c, m); }
ENTRY(mconv_3_2_4_4) { auto a = in_mat<4, 4, TY>(c, 0); glm::mat<3, 2, TY> m(a); out_mat(c, m); }
ENTRY(mdiag_3_2) { TY s = c.template in<TY>(0, 0); glm::mat<3, 2, TY> m(s); out_mat(c, m); }
ENTRY(mctor_scalars_3_2) { TY s0 = c.template in<TY>(0, 0); TY s1 = c.template in<TY>(0, 1); TY s2 = c.template in<TY>(0, 2); TY s3 = c.template in<TY>(0, 3); TY s4 = c.template in<TY>(0, 4); TY s5 = c.template in<TY>(0, 5); glm::mat<3, 2, TY> m(s0, s1, s2, s3, s4, s5); out_mat(c, m); }
ENTRY(mctor_cols_3_2) { auto v0 = in_vec<2, TY>(c, 0); auto v1 = in_vec<2, TY>(c, 1); auto v2 = in_vec<2, TY>(c, 2); glm::mat<3, 2, TY> m(v0, v1, v2); out_mat(c, m); }
ENTRY(mconv_3_3_2_2) { auto a = in_mat<2, 2, TY>(c, 0); glm::mat<3, 3, TY> m(a); out_mat(c, m); }
ENTRY(mconv_3_3_2_3) { auto a = in_mat<2, 3, TY>(c, 0); glm::mat<3, 3, TY> m(a); out_mat(c, m); }
ENTRY(mconv_3_3_2_4) { auto a = in_mat<2, 4, TY>(c, 0); glm::mat<3, 3, TY> m(a); out_mat(c, m); }
ENTRY(mconv_3_3_3_2) { auto a = in_mat<3, 2, TY>(c, 0); glm::mat<3, 3, TY> m(a); out_mat(c, m); }
ENTRY(mconv_3_3_3_3) { auto a = in_mat<3, 3, TY>(c, 0); glm::mat<3, 3, TY> m(a); out_mat(c, m); }
ENTRY(mconv_3_3_3_4) { auto a = in_mat<3, 4, TY>(c, 0); glm::mat<3, 3, TY> m(a); out_mat(c, m); }
ENTRY(mconv_3_3_4_2) { auto a = in_mat<4, 2, TY>(c, 0); glm::mat<3, 3, TY> m(a); out_mat(c, m); }
ENTRY(mconv_3_3_4_3) { auto a = in_mat<4, 3, TY>(c, 0); glm::mat<3, 3, TY> m(a); out_mat(c, m); }
ENTRY(mconv_3_3_4_4) { auto a = in_mat<4, 4, TY>(c, 0); glm::mat<3, 3, TY> m(a); out_mat(c, m); }
ENTRY(mdiag_3_3) { TY s = c.template in<TY>(0, 0); glm::mat<3, 3, TY> m(s); out_mat(c, m); }
ENTRY(mctor_scalars_3_3) { TY s0 = c.template in<TY>(0, 0); TY s1 = c.template in<TY>(0, 1); TY s2 = c.template in<TY>(0, 2); TY s3 = c.template in<TY>(0, 3); TY s4 = c.template in<TY>(0, 4); TY s5 = c.template in<TY>(0, 5); TY s6 = c.template in<TY>(0, 6); TY s7 = c.template in<TY>(0, 7); TY s8 = c.template in<TY>(0, 8); glm::mat<3, 3, TY> m(s0, s1, s2, s3, s4, s5, s6, s7, s8); out_mat(c, m); }
ENTRY(mctor_cols_3_3) { auto v0 = in_vec<3, TY>(c, 0); auto v1 = in_vec<3, TY>(c, 1); auto v2 = in_vec<3, TY>(c, 2); glm::mat<3, 3, TY> m(v0, v1, v2); out_mat(c, m); }
ENTRY(mconv_3_4_2_2) { auto a = in_mat<2, 2, TY>(c, 0); glm::mat<3, 4, TY> m(a); out_mat(c, m); }
ENTRY(mconv_3_4_2_3) { auto a = in_mat<2, 3, TY>(c, 0); glm::mat<3, 4, TY> m(a); out_mat(c, m); }
ENTRY(mconv_3_4_2_4) { auto a = in_mat<2, 4, TY>(c, 0); glm::mat<3, 4, TY> m(a); out_mat(c, m); }
ENTRY(mconv_3_4_3_2) { auto a = in_mat<3, 2, TY>(c, 0); glm::mat<3, 4, TY> m(a); out_mat(c, m); }
ENTRY(mconv_3_4_3_3) { auto a = in_mat<3, 3, TY>(c, 0); glm::mat<3, 4, TY> m(a); out_mat(c, m); }
ENTRY(mconv_3_4_3_4) { auto a = in_mat<3, 4, TY>(c, 0); glm::mat<3, 4, TY> m(a); out_mat(c, m); }
ENTRY(mconv_3_4_4_2) { auto a = in_mat<4, 2, TY>(c, 0); glm::mat<3, 4, TY> m(a); out_mat(c, m); }
ENTRY(mconv_3_4_4_3) { auto a = in_mat<4, 3, TY>(c, 0); glm::mat<3, 4, TY> m(a); out_mat(c, m); }
ENTRY(mconv_3_4_4_4) { auto a = in_mat<4, 4, TY>(c, 0); glm::mat<3, 4, TY> m(a); out_mat(c, m); }
ENTRY(mdiag_3_4) { TY s = c.template in<TY>(0, 0); glm::mat<3, 4, TY> m(s); out_mat(c, m); }
ENTRY(mctor_scalars_3_4) { TY s0 = c.template in<TY>(0, 0); TY s1 = c.template in<TY>(0, 1); TY s2 = c.template in<TY>(0, 2); TY s3 = c.template in<TY>(0, 3); TY s4 = c.template in<TY>(0, 4); TY s5 = c.template in<TY>(0, 5); TY s6 = c.template in<TY>(0, 6); TY s7 = c.template in<TY>(0, 7); TY s8 = c.template in<TY>(0, 8); TY s9 = c.template in<TY>(0, 9); TY s10 = c.template in<TY>(0, 10); TY s11 = c.template in<TY>(0, 11); glm::mat<3, 4, TY> m(s0, s1, s2, s3, s4, s5, s6, s7, s8, s9, s10, s11); out_mat(c, m); }
ENTRY(mctor_cols_3_4) { auto v0 = in_vec<4, TY>(c, 0); auto v1 = in_vec<4, TY>(c, 1); auto v2 = in_vec<4, TY>(c, 2); glm::mat<3, 4, TY> m(v0, v1, v2); out_mat(c, m); }
ENTRY(mconv_4_2_2_2) { auto a = in_mat<2, 2, TY>(c, 0); glm::mat<4, 2, TY> m(a); out_mat(c, m); }
ENTRY(mconv_4_2_2_3) { auto a = in_mat<2, 3, TY>(c, 0); glm::mat<4, 2, TY> m(a); out_mat(c, m); }
ENTRY(mconv_4_2_2_4) { auto a = in_mat<2, 4, TY>(c, 0); glm::mat<4, 2, TY> m(a); out_mat(c, m); }
ENTRY(mconv_4_2_3_2) { auto a = in_mat<3, 2, TY>(c, 0); glm::mat<4, 2, TY> m(a); out_mat(c, m); }
ENTRY(mconv_4_2_3_3) { auto a = in_mat<3, 3, TY>(c, 0); glm::mat<4, 2, TY> m(a); out_mat(c, m); }
ENTRY(mconv_4_2_3_4) { auto a = in_mat<3, 4, TY>(c, 0); glm::mat<4, 2, TY> m(a); out_mat(c, m); }
ENTRY(mconv_4_2_4_2) { auto a = in_mat<4, 2, TY>(c, 0); glm::mat<4, 2, TY> m(a); out_mat(c, m); }
ENTRY(mconv_4_2_4_3) { auto a = in_mat<4, 3, TY>(c, 0); glm::mat<4, 2, TY> m(a); out_mat(c, m); }
ENTRY(mconv_4_2_4_4) { auto a = in_mat<4, 4, TY>(c, 0); glm::mat<4, 2, TY> m(a); out_mat(c, m); }
ENTRY(mdiag_4_2) { TY s = c.template in<TY>(0, 0); glm::mat<4, 2, TY> m(s); out_mat(c, m); }
ENTRY(mctor_scalars_4_2) { TY s0 = c.template in<TY>(0, 0); TY s1 = c.template in<TY>(0, 1); TY s2 = c.template in<TY>(0, 2); TY s3 = c.template in<TY>(0, 3); TY s4 = c.template in<TY>(0, 4); TY s5 = c.template in<TY>(0, 5); TY s6 = c.template in<TY>(0, 6); TY s7 = c.template in<TY>(0, 7); glm::mat<4, 2, TY> m(s0, s1, s2, s3, s4, s5, s6, s7); out_mat(c, m); }
ENTRY(mctor_cols_4_2) { auto v0 = in_vec<2, TY>(c, 0); auto v1 = in_vec<2, TY>(c, 1); auto v2 = in_vec<2, TY>(c, 2); auto v3 = in_vec<2, TY>(c, 3); glm::mat<4, 2, TY> m(v0, v1, v2, v3); out_mat(c, m); }
ENTRY(mconv_4_3_2_2) { auto a = in_mat<2, 2, TY>(c, 0); glm::mat<4, 3, TY> m(a); out_mat(c, m); }
ENTRY(mconv_4_3_2_3) { auto a = in_mat<2, 3, TY>(c, 0); glm::mat<4, 3, TY> m(a); out_mat(c, m); }
ENTRY(mconv_4_3_2_4) { auto a = in_mat<2, 4, TY>(c, 0); glm::mat<4, 3, TY> m(a); out_mat(c, m); }
ENTRY(mconv_4_3_3_2) { auto a = in_mat<3, 2, TY>(c, 0); glm::mat<4, 3, TY> m(a); out_mat(c, m); }
ENTRY(mconv_4_3_3_3) { auto a = in_mat<3, 3, TY>(c, 0); glm::mat<4, 3, TY> m(a); out_mat(c, m); }
ENTRY(mconv_4_3_3_4) { auto a = in_mat<3, 4, TY>(c, 0); glm::mat<4, 3, TY> m(a); out_mat(c, m); }
ENTRY(mconv_4_3_4_2) { auto a = in_mat<4, 2, TY>(c, 0); glm::mat<4, 3, TY> m(a); out_mat(c, m); }
ENTRY(mconv_4_3_4_3) { auto a = in_mat<4, 3, TY>(c, 0); glm::mat<4, 3, TY> m(a); out_mat(c, m); }
ENTRY(mconv_4_3_4_4) { auto a = in_mat<4, 4, TY>(c, 0); glm::mat<4, 3, TY> m(a); out_mat(c, m); }
ENTRY(mdiag_4_3) { TY s = c.template in<TY>(0, 0); glm::mat<4, 3, TY> m(s); out_mat(c, m); }
ENTRY(mctor_scalars_4_3) { TY s0 = c.template in<TY>(0, 0); TY s1 = c.template in<TY>(0, 1); TY s2 = c.template in<TY>(0, 2); TY s3 = c.template in<TY>(0, 3); TY s4 = c.template in<TY>(0, 4); TY s5 = c.template in<TY>(0, 5); TY s6 = c.template in<TY>(0, 6); TY s7 = c.template in<TY>(0, 7); TY s8 = c.template in<TY>(0, 8); TY s9 = c.template in<TY>(0, 9); TY s10 = c.template in<TY>(0, 10); TY s11 = c.template in<TY>(0, 11); glm::mat<4, 3, TY> m(s0, s1, s2, s3, s4, s5, s6, s7, s8, s9, s10, s11); out_mat(c, m); }
ENTRY(mctor_cols_4_3) { auto v0 = in_vec<3, TY>(c, 0); auto v1 = in_vec<3, TY>(c, 1); auto v2 = in_vec<3, TY>(c, 2); auto v3 = in_vec<3, TY>(c, 3); glm::mat<4, 3, TY> m(v0, v1, v2, v3); out_mat(c, m); }
ENTRY(mconv_4_4_2_2) { auto a = in_mat<2, 2, TY>(c, 0); glm::mat<4, 4, TY> m(a); out_mat(c, m); }
ENTRY(mconv_4_4_2_3) { auto a = in_mat<2, 3, TY>(c, 0); glm::mat<4, 4, TY> m(a); out_mat(c, m); }
ENTRY(mconv_4_4_2_4) { auto a = in_mat<2, 4, TY>(c, 0); glm::mat<4, 4, TY> m(a); out_mat(c, m); }
ENTRY(mconv_4_4_3_2) { auto a = in_mat<3, 2, TY>(c, 0); glm::mat<4, 4, TY> m(a); out_mat(c, m); }
ENTRY(mconv_4_4_3_3) { auto a = in_mat<3, 3, TY>(c, 0); glm::mat<4, 4, TY> m(a); out_mat(c, m); }
ENTRY(mconv_4_4_3_4) { auto a = in_mat<3, 4, TY>(c, 0); glm::mat<4, 4, TY> m(a); out_mat(c, m); }
ENTRY(mconv_4_4_4_2) { auto a = in_mat<4, 2, TY>(c, 0); glm::mat<4, 4, TY> m(a); out_mat(c, m); }
ENTRY(mconv_4_4_4_3) { auto a = in_mat<4, 3, TY>(c, 0); glm::mat<4, 4, TY> m(a); out_mat(c, m); }
ENTRY(mconv_4_4_4_4) { auto a = in_mat<4, 4, TY>(c, 0); glm::mat<4, 4, TY> m(a); out_mat(c, m); }
ENTRY(mdiag_4_4) { TY s = c.template in<TY>(0, 0); glm::mat<4, 4, TY> m(s); out_mat(c, m); }
ENTRY(mctor_scalars_4_4) { TY s0 = c.template in<TY>(0, 0); TY s1 = c.template in<TY>(0, 1); TY s2 = c.template in<TY>(0, 2); TY s3 = c.template in<TY>(0, 3); TY s4 = c.template in<TY>(0, 4); TY s5 = c.template in<TY>(0, 5); TY s6 = c.template in<TY>(0, 6); TY s7 = c.template in<TY>(0, 7); TY s8 = c.template in<TY>(0, 8); TY s9 = c.template in<TY>(0, 9); TY s10 = c.template in<TY>(0, 10); TY s11 = c.template in<TY>(0, 11); TY s12 = c.template in<TY>(0, 12); TY s13 = c.template in<TY>(0, 13); TY s14 = c.template in<TY>(0, 14); TY s15 = c.template in<TY>(0, 15); glm::mat<4, 4, TY> m(s0, s1, s2, s3, s4, s5, s6, s7, s8, s9, s10, s11, s12, s13, s14, s15); out_mat(c, m); }
ENTRY(mctor_cols_4_4) { auto v0 = in_vec<4, TY>(c, 0); auto v1 = in_vec<4, TY>(c, 1); auto v2 = in_vec<4, TY>(c, 2); auto v3 = in_vec<4, TY>(c, 3); glm::mat<4, 4, TY> m(v0, v1, v2, v3); out_mat(c, m); }
ENTRY(vconv_2_from_4) { auto a = in_vec<4, TY>(c, 0); glm::vec<2, TY> v(a); out_vec(c, v); }
ENTRY(vsplat_2) { TY s = c.template in<TY>(0, 0); glm::vec<2, TY> v(s); out_vec(c, v); }
ENTRY(vconv_3_from_4) { auto a = in_vec<4, TY>(c, 0); glm::vec<3, TY> v(a); out_vec(c, v); }
ENTRY(vsplat_3) { TY s = c.template in<TY>(0, 0); glm::vec<3, TY> v(s); out_vec(c, v); }
ENTRY(vconv_4_from_4) { auto a = in_vec<4, TY>(c, 0); glm::vec<4, TY> v(a); out_vec(c, v); }
ENTRY(vsplat_4) { TY s = c.template in<TY>(0, 0); glm::vec<4, TY> v(s); out_vec(c, v); }
ENTRY(v4_from_v2_v2) { auto a = in_vec<2, TY>(c, 0); auto b = in_vec<2, TY>(c, 1); glm::vec<4, TY> v(a, b); out_vec(c, v); }
ENTRY(v4_from_v3_s) { auto a = in_vec<3, TY>(c, 0); TY s = c.template in<TY>(1, 0); glm::vec<4, TY> v(a, s); out_vec(c, v); }
ENTRY(v4_from_s_v3) { auto a = in_vec<3, TY>(c, 1); TY s = c.template in<TY>(0, 0); glm::vec<4, TY> v(s, a); out_vec(c, v); }
ENTRY(v3_from_v2_s) { auto a = in_vec<2, TY>(c, 0); TY s = c.template in<TY>(1, 0); glm::vec<3, TY> v(a, s); out_vec(c, v); }
ENTRY(q_from_s_v3) { TY s = c.template in<TY>(0, 0); auto v = in_vec<3, TY>(c, 1); glm::qua<TY> q(s, v); out_qua(c, q); }
ENTRY(q_from_m3) { auto m = in_mat<3, 3, TY>(c, 0); glm::qua<TY> q(m); out_qua(c, q); }
ENTRY(m3_from_q) { auto q = in_qua<TY>(c, 0); out_mat(c, glm::mat3_cast(q)); }
ENTRY(m4_from_q) { auto q = in_qua<TY>(c, 0); out_mat(c, glm::mat4_cast(q)); }
VT_MAIN("C15 ctor")
