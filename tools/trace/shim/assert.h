// shim <cassert>: GLM's assert()s are its documented domains; record them instead of aborting.
#undef assert
#ifdef VT_NO_ASSERT
#define assert(e) ((void)0)
#else
#define assert(e) ::vt::vassert(e)
#endif
