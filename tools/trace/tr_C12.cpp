// C12 trace catalogue: geometric functions on vec1..4 and the scalar (genType) overloads, gtx helpers.
#define GLM_ENABLE_EXPERIMENTAL
#include "driver.hpp"
#include <glm/geometric.hpp>
#include <glm/gtx/norm.hpp>
#include <glm/gtx/projection.hpp>
#include <glm/gtx/perpendicular.hpp>
#include <glm/gtx/orthonormalize.hpp>
#include <glm/gtx/normal.hpp>
#include <glm/gtx/exterior_product.hpp>
#include <glm/gtx/mixed_product.hpp>
#include <glm/gtx/closest_point.hpp>
#include <glm/gtx/vector_angle.hpp>
using namespace vt;
#ifndef C12_T
#define C12_T f32
#endif
#define TY typename S::C12_T
static std::string nm(const char* f, int n) { return std::string(f) + "_" + std::to_string(n) + "_f32"; }
#define V2(NAME, EXPR) template<class S, int L> static void NAME(Ctx<S>& c) { auto a = in_vec<L, TY>(c, 0); auto b = in_vec<L, TY>(c, 1); EXPR; }
#define V1(NAME, EXPR) template<class S, int L> static void NAME(Ctx<S>& c) { auto a = in_vec<L, TY>(c, 0); EXPR; }
#define V3(NAME, EXPR) template<class S, int L> static void NAME(Ctx<S>& c) { auto a = in_vec<L, TY>(c, 0); auto b = in_vec<L, TY>(c, 1); auto d = in_vec<L, TY>(c, 2); EXPR; }
V2(e_dot, c.out(glm::dot(a, b))) V1(e_length, c.out(glm::length(a))) V2(e_distance, c.out(glm::distance(a, b))) V1(e_normalize, out_vec(c, glm::normalize(a)))
V2(e_reflect, out_vec(c, glm::reflect(a, b))) V3(e_faceforward, out_vec(c, glm::faceforward(a, b, d)))
template<class S, int L> static void e_refract(Ctx<S>& c) { auto a = in_vec<L, TY>(c, 0); auto b = in_vec<L, TY>(c, 1); TY eta = c.template in<TY>(2, 0); out_vec(c, glm::refract(a, b, eta)); }
V1(e_length2, c.out(glm::length2(a))) V2(e_distance2, c.out(glm::distance2(a, b))) V2(e_proj, out_vec(c, glm::proj(a, b))) V2(e_perp, out_vec(c, glm::perp(a, b)))
// scalar (genType) overloads: arguments are components 0 of arguments 0,1,2
ENTRY(s_dot) { c.out(glm::dot(c.template in<TY>(0, 0), c.template in<TY>(1, 0))); }
ENTRY(s_length) { c.out(glm::length(c.template in<TY>(0, 0))); }
ENTRY(s_distance) { c.out(glm::distance(c.template in<TY>(0, 0), c.template in<TY>(1, 0))); }
ENTRY(s_reflect) { c.out(glm::reflect(c.template in<TY>(0, 0), c.template in<TY>(1, 0))); }
ENTRY(s_refract) { c.out(glm::refract(c.template in<TY>(0, 0), c.template in<TY>(1, 0), c.template in<TY>(2, 0))); }
ENTRY(s_faceforward) { c.out(glm::faceforward(c.template in<TY>(0, 0), c.template in<TY>(1, 0), c.template in<TY>(2, 0))); }
ENTRY(cross_3_f32) { auto a = in_vec<3, TY>(c, 0); auto b = in_vec<3, TY>(c, 1); out_vec(c, glm::cross(a, b)); }
ENTRY(cross2d_f32) { auto a = in_vec<2, TY>(c, 0); auto b = in_vec<2, TY>(c, 1); c.out(glm::cross(a, b)); }
ENTRY(mixedProduct_f32) { auto a = in_vec<3, TY>(c, 0); auto b = in_vec<3, TY>(c, 1); auto d = in_vec<3, TY>(c, 2); c.out(glm::mixedProduct(a, b, d)); }
ENTRY(triangleNormal_f32) { auto a = in_vec<3, TY>(c, 0); auto b = in_vec<3, TY>(c, 1); auto d = in_vec<3, TY>(c, 2); out_vec(c, glm::triangleNormal(a, b, d)); }
ENTRY(orthonormalize_m3_f32) { auto m = in_mat<3, 3, TY>(c, 0); out_mat(c, glm::orthonormalize(m)); }
ENTRY(orthonormalize_f32) { auto a = in_vec<3, TY>(c, 0); auto b = in_vec<3, TY>(c, 1); out_vec(c, glm::orthonormalize(a, b)); }
ENTRY(closestPointOnLine_3_f32) { auto p = in_vec<3, TY>(c, 0); auto a = in_vec<3, TY>(c, 1); auto b = in_vec<3, TY>(c, 2); out_vec(c, glm::closestPointOnLine(p, a, b)); }
ENTRY(closestPointOnLine_2_f32) { auto p = in_vec<2, TY>(c, 0); auto a = in_vec<2, TY>(c, 1); auto b = in_vec<2, TY>(c, 2); out_vec(c, glm::closestPointOnLine(p, a, b)); }
ENTRY(l1Norm_3_f32) { auto a = in_vec<3, TY>(c, 0); c.out(glm::l1Norm(a)); }
ENTRY(l2Norm_3_f32) { auto a = in_vec<3, TY>(c, 0); c.out(glm::l2Norm(a)); }
ENTRY(lMaxNorm_3_f32) { auto a = in_vec<3, TY>(c, 0); c.out(glm::lMaxNorm(a)); }
ENTRY(lMaxNorm2_3_f32) { auto a = in_vec<3, TY>(c, 0); auto b = in_vec<3, TY>(c, 1); c.out(glm::lMaxNorm(a, b)); }
ENTRY(lxNorm_3_f32) { auto a = in_vec<3, TY>(c, 0); c.out(glm::lxNorm(a, 3u)); }
ENTRY(lxNorm2_3_f32) { auto a = in_vec<3, TY>(c, 0); auto b = in_vec<3, TY>(c, 1); c.out(glm::lxNorm(a, b, 3u)); }
ENTRY(l1Norm2_3_f32) { auto a = in_vec<3, TY>(c, 0); auto b = in_vec<3, TY>(c, 1); c.out(glm::l1Norm(a, b)); }
ENTRY(l2Norm2_3_f32) { auto a = in_vec<3, TY>(c, 0); auto b = in_vec<3, TY>(c, 1); c.out(glm::l2Norm(a, b)); }
// gtx/vector_angle: arguments are unit vectors (documented precondition)
V2(e_angle, c.out(glm::angle(a, b)))
ENTRY(s_angle) { c.out(glm::angle(c.template in<TY>(0, 0), c.template in<TY>(1, 0))); }
ENTRY(orientedAngle_2_f32) { auto a = in_vec<2, TY>(c, 0); auto b = in_vec<2, TY>(c, 1); c.out(glm::orientedAngle(a, b)); }
ENTRY(orientedAngle_3_f32) { auto a = in_vec<3, TY>(c, 0); auto b = in_vec<3, TY>(c, 1); auto r = in_vec<3, TY>(c, 2); c.out(glm::orientedAngle(a, b, r)); }
#define ADDL(NAME, FN, L) registry().push_back(Entry{nm(NAME, L), &FN<TraceFam, L>, &FN<ConcFam, L>, 3})
template<int L> static void reg() { ADDL("dot", e_dot, L); ADDL("length", e_length, L); ADDL("distance", e_distance, L); ADDL("normalize", e_normalize, L); ADDL("reflect", e_reflect, L);
	ADDL("refract", e_refract, L); ADDL("faceforward", e_faceforward, L); ADDL("length2", e_length2, L); ADDL("distance2", e_distance2, L); }
template<int L> static void reg23() { ADDL("proj", e_proj, L); ADDL("perp", e_perp, L); ADDL("angle", e_angle, L); }
static int init = (reg<1>(), reg<2>(), reg<3>(), reg<4>(), reg23<2>(), reg23<3>(), reg23<4>(), 0);
VT_MAIN("C12")
