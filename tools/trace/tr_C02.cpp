// C02 trace catalogue: column-major matrix algebra for all 9 shapes (translator T1).
// Entry names follow coq/lib/Cat.v `name`:  <op>_<dims...>_<type>.
#include "driver.hpp"
#include <glm/matrix.hpp>
#include <glm/gtc/matrix_access.hpp>
#include <glm/ext/matrix_integer.hpp>
#define GLM_ENABLE_EXPERIMENTAL
#include <glm/gtx/matrix_operation.hpp>
#include <glm/gtx/matrix_major_storage.hpp>
using namespace vt;

#ifndef C02_QUAL
#define C02_QUAL glm::defaultp
#endif
static const glm::qualifier Q = C02_QUAL;

static std::string nm(const char* f, std::initializer_list<int> d, const char* ty) { std::string s = f; for (int x : d) { s += "_"; s += std::to_string(x); } s += "_"; s += ty; return s; }
template<class S, class T> struct scal;  // map (family, tag) -> scalar type
struct tf32 { static const char* n() { return "f32"; } }; struct tf64 { static const char* n() { return "f64"; } };
struct ti32 { static const char* n() { return "i32"; } }; struct tu32 { static const char* n() { return "u32"; } };
template<class S> struct scal<S, tf32> { typedef typename S::f32 type; }; template<class S> struct scal<S, tf64> { typedef typename S::f64 type; };
template<class S> struct scal<S, ti32> { typedef typename S::i32 type; }; template<class S> struct scal<S, tu32> { typedef typename S::u32 type; };
#define TY typename scal<S, Tag>::type
#define ADD(NAME, DIMS, FN, FL) registry().push_back(Entry{nm(NAME, DIMS, Tag::n()), &FN<TraceFam, Tag, ARGS>, &FN<ConcFam, Tag, ARGS>, FL})

// ---- products
template<class S, class Tag, int K, int R, int C2> static void e_mul_mm(Ctx<S>& c) { auto A = in_mat<K, R, TY, Q>(c, 0); auto B = in_mat<C2, K, TY, Q>(c, 1); out_mat(c, A * B); }
template<class S, class Tag, int Cn, int Rn> static void e_mul_mv(Ctx<S>& c) { auto A = in_mat<Cn, Rn, TY, Q>(c, 0); auto v = in_vec<Cn, TY, Q>(c, 1); out_vec(c, A * v); }
template<class S, class Tag, int Cn, int Rn> static void e_mul_vm(Ctx<S>& c) { auto v = in_vec<Rn, TY, Q>(c, 0); auto A = in_mat<Cn, Rn, TY, Q>(c, 1); out_vec(c, v * A); }
template<class S, class Tag, int N> static void e_muleq_mm(Ctx<S>& c) { auto A = in_mat<N, N, TY, Q>(c, 0); auto B = in_mat<N, N, TY, Q>(c, 1); A *= B; out_mat(c, A); }
// ---- functions
template<class S, class Tag, int Cn, int Rn> static void e_transpose(Ctx<S>& c) { auto A = in_mat<Cn, Rn, TY, Q>(c, 0); out_mat(c, glm::transpose(A)); }
template<class S, class Tag, int Cn, int Rn> static void e_outer(Ctx<S>& c) { auto a = in_vec<Rn, TY, Q>(c, 0); auto b = in_vec<Cn, TY, Q>(c, 1); out_mat(c, glm::outerProduct(a, b)); }
template<class S, class Tag, int Cn, int Rn> static void e_compmult(Ctx<S>& c) { auto A = in_mat<Cn, Rn, TY, Q>(c, 0); auto B = in_mat<Cn, Rn, TY, Q>(c, 1); out_mat(c, glm::matrixCompMult(A, B)); }
// ---- element-wise operators
#define EW_MM(NAME, EXPR) template<class S, class Tag, int Cn, int Rn> static void NAME(Ctx<S>& c) { auto A = in_mat<Cn, Rn, TY, Q>(c, 0); auto B = in_mat<Cn, Rn, TY, Q>(c, 1); EXPR; }
#define EW_MS(NAME, EXPR) template<class S, class Tag, int Cn, int Rn> static void NAME(Ctx<S>& c) { auto A = in_mat<Cn, Rn, TY, Q>(c, 0); TY s = c.template in<TY>(1, 0); EXPR; }
#define EW_SM(NAME, EXPR) template<class S, class Tag, int Cn, int Rn> static void NAME(Ctx<S>& c) { TY s = c.template in<TY>(0, 0); auto A = in_mat<Cn, Rn, TY, Q>(c, 1); EXPR; }
#define EW_M(NAME, EXPR) template<class S, class Tag, int Cn, int Rn> static void NAME(Ctx<S>& c) { auto A = in_mat<Cn, Rn, TY, Q>(c, 0); EXPR; }
EW_MM(e_add_mm, out_mat(c, A + B)) EW_MM(e_sub_mm, out_mat(c, A - B))
EW_MM(e_addeq_mm, A += B; out_mat(c, A)) EW_MM(e_subeq_mm, A -= B; out_mat(c, A))
EW_MS(e_add_ms, out_mat(c, A + s)) EW_MS(e_sub_ms, out_mat(c, A - s)) EW_MS(e_mul_ms, out_mat(c, A * s)) EW_MS(e_div_ms, out_mat(c, A / s))
EW_MS(e_addeq_ms, A += s; out_mat(c, A)) EW_MS(e_subeq_ms, A -= s; out_mat(c, A)) EW_MS(e_muleq_ms, A *= s; out_mat(c, A)) EW_MS(e_diveq_ms, A /= s; out_mat(c, A))
template<class S, class Tag, int Cn, int Rn> static void e_add_sm(Ctx<S>& c) { if constexpr (Cn == Rn) { TY s = c.template in<TY>(0, 0); auto A = in_mat<Cn, Rn, TY, Q>(c, 1); out_mat(c, s + A); } }
template<class S, class Tag, int Cn, int Rn> static void e_sub_sm(Ctx<S>& c) { if constexpr (Cn == Rn) { TY s = c.template in<TY>(0, 0); auto A = in_mat<Cn, Rn, TY, Q>(c, 1); out_mat(c, s - A); } }
 EW_SM(e_mul_sm, out_mat(c, s * A)) EW_SM(e_div_sm, out_mat(c, s / A))
EW_M(e_neg_m, out_mat(c, -A)) EW_M(e_pos_m, out_mat(c, +A))
EW_M(e_preinc_m, ++A; out_mat(c, A)) EW_M(e_predec_m, --A; out_mat(c, A))
EW_M(e_postinc_m, auto B = A++; out_mat(c, A); out_mat(c, B)) EW_M(e_postdec_m, auto B = A--; out_mat(c, A); out_mat(c, B))
// ---- constructors / conversions
template<class S, class Tag, int Cn, int Rn, int C2, int R2> static void e_conv(Ctx<S>& c) { auto A = in_mat<C2, R2, TY, Q>(c, 0); glm::mat<Cn, Rn, TY, Q> M(A); out_mat(c, M); }
template<class S, class Tag, int Cn, int Rn> static void e_diag(Ctx<S>& c) { TY s = c.template in<TY>(0, 0); glm::mat<Cn, Rn, TY, Q> M(s); out_mat(c, M); }
// ---- gtx/matrix_operation diagonalCxR, gtx/matrix_major_storage rowMajorN / colMajorN (from vectors and from a matrix)
template<int Cn, int Rn> struct GDiag;
#define GD(Cn, Rn) template<> struct GDiag<Cn, Rn> { template<class V> static auto go(V const& v) { return glm::diagonal##Cn##x##Rn(v); } };
GD(2, 2) GD(2, 3) GD(2, 4) GD(3, 2) GD(3, 3) GD(3, 4) GD(4, 2) GD(4, 3) GD(4, 4)
template<class S, class Tag, int Cn, int Rn> static void e_gdiag(Ctx<S>& c) { auto v = in_vec<(Cn < Rn ? Cn : Rn), TY, Q>(c, 0); out_mat(c, GDiag<Cn, Rn>::go(v)); }
template<class S, class Tag, int N> static void e_rowmajor_v(Ctx<S>& c) { auto a = in_vec<N, TY, Q>(c, 0); auto b = in_vec<N, TY, Q>(c, 1); auto d = in_vec<N, TY, Q>(c, 2); auto e = in_vec<N, TY, Q>(c, 3);
	if constexpr (N == 2) out_mat(c, glm::rowMajor2(a, b)); else if constexpr (N == 3) out_mat(c, glm::rowMajor3(a, b, d)); else out_mat(c, glm::rowMajor4(a, b, d, e)); }
template<class S, class Tag, int N> static void e_colmajor_v(Ctx<S>& c) { auto a = in_vec<N, TY, Q>(c, 0); auto b = in_vec<N, TY, Q>(c, 1); auto d = in_vec<N, TY, Q>(c, 2); auto e = in_vec<N, TY, Q>(c, 3);
	if constexpr (N == 2) out_mat(c, glm::colMajor2(a, b)); else if constexpr (N == 3) out_mat(c, glm::colMajor3(a, b, d)); else out_mat(c, glm::colMajor4(a, b, d, e)); }
template<class S, class Tag, int N> static void e_rowmajor_m(Ctx<S>& c) { auto A = in_mat<N, N, TY, Q>(c, 0);
	if constexpr (N == 2) out_mat(c, glm::rowMajor2(A)); else if constexpr (N == 3) out_mat(c, glm::rowMajor3(A)); else out_mat(c, glm::rowMajor4(A)); }
template<class S, class Tag, int N> static void e_colmajor_m(Ctx<S>& c) { auto A = in_mat<N, N, TY, Q>(c, 0);
	if constexpr (N == 2) out_mat(c, glm::colMajor2(A)); else if constexpr (N == 3) out_mat(c, glm::colMajor3(A)); else out_mat(c, glm::colMajor4(A)); }
// ---- row / column access (gtc/matrix_access)
template<class S, class Tag, int Cn, int Rn, int I> static void e_colget(Ctx<S>& c) { auto A = in_mat<Cn, Rn, TY, Q>(c, 0); out_vec(c, glm::column(A, I)); }
template<class S, class Tag, int Cn, int Rn, int I> static void e_rowget(Ctx<S>& c) { auto A = in_mat<Cn, Rn, TY, Q>(c, 0); out_vec(c, glm::row(A, I)); }
template<class S, class Tag, int Cn, int Rn, int I> static void e_colset(Ctx<S>& c) { auto A = in_mat<Cn, Rn, TY, Q>(c, 0); auto v = in_vec<Rn, TY, Q>(c, 1); out_mat(c, glm::column(A, I, v)); }
template<class S, class Tag, int Cn, int Rn, int I> static void e_rowset(Ctx<S>& c) { auto A = in_mat<Cn, Rn, TY, Q>(c, 0); auto v = in_vec<Cn, TY, Q>(c, 1); out_mat(c, glm::row(A, I, v)); }
// ---- equality operators (decision trees)
template<class S, class Tag, int Cn, int Rn> static void e_eq_mm(Ctx<S>& c) { auto A = in_mat<Cn, Rn, TY, Q>(c, 0); auto B = in_mat<Cn, Rn, TY, Q>(c, 1); c.out(A == B); }
template<class S, class Tag, int Cn, int Rn> static void e_ne_mm(Ctx<S>& c) { auto A = in_mat<Cn, Rn, TY, Q>(c, 0); auto B = in_mat<Cn, Rn, TY, Q>(c, 1); c.out(A != B); }

template<class Tag, int Cn, int Rn, int I> struct RegAccess {
	static void go() {
#define ARGS Cn, Rn, I
		if (I < Cn) { ADD("colget", (std::initializer_list<int>{Cn, Rn, I}), e_colget, 1); ADD("colset", (std::initializer_list<int>{Cn, Rn, I}), e_colset, 1); }
		if (I < Rn) { ADD("rowget", (std::initializer_list<int>{Cn, Rn, I}), e_rowget, 1); ADD("rowset", (std::initializer_list<int>{Cn, Rn, I}), e_rowset, 1); }
#undef ARGS
	}
};
template<class Tag, int Cn, int Rn, int C2, int R2> static void reg_conv() {
#define ARGS Cn, Rn, C2, R2
	ADD("conv", (std::initializer_list<int>{Cn, Rn, C2, R2}), e_conv, 1);
#undef ARGS
}
template<class Tag, int Cn, int Rn, int C2> static void reg_mm() {
#define ARGS Cn, Rn, C2
	ADD("mul_mm", (std::initializer_list<int>{Cn, Rn, C2}), e_mul_mm, 3);
#undef ARGS
}
template<class Tag, int N> static void reg_sq() {
#define ARGS N
	ADD("muleq_mm", (std::initializer_list<int>{N}), e_muleq_mm, 3);
	ADD("rowmajorv", (std::initializer_list<int>{N}), e_rowmajor_v, 1); ADD("colmajorv", (std::initializer_list<int>{N}), e_colmajor_v, 1);
	ADD("rowmajorm", (std::initializer_list<int>{N}), e_rowmajor_m, 1); ADD("colmajorm", (std::initializer_list<int>{N}), e_colmajor_m, 1);
#undef ARGS
}
template<class Tag, int Cn, int Rn> static void reg_shape(bool full) {
	std::initializer_list<int> D{Cn, Rn};
	int fl = std::is_same<Tag, tf32>::value || std::is_same<Tag, tf64>::value ? 3 : 7;
#define ARGS Cn, Rn
	ADD("mul_mv", D, e_mul_mv, fl); ADD("mul_vm", D, e_mul_vm, fl);
	ADD("outer", D, e_outer, fl); ADD("compmult", D, e_compmult, fl);
	ADD("add_mm", D, e_add_mm, fl); ADD("sub_mm", D, e_sub_mm, fl); ADD("addeq_mm", D, e_addeq_mm, fl); ADD("subeq_mm", D, e_subeq_mm, fl);
	ADD("add_ms", D, e_add_ms, fl); ADD("sub_ms", D, e_sub_ms, fl); ADD("mul_ms", D, e_mul_ms, fl); ADD("div_ms", D, e_div_ms, fl);
	ADD("addeq_ms", D, e_addeq_ms, fl); ADD("subeq_ms", D, e_subeq_ms, fl); ADD("muleq_ms", D, e_muleq_ms, fl); ADD("diveq_ms", D, e_diveq_ms, fl);
	if (Cn == Rn) { ADD("add_sm", D, e_add_sm, fl); ADD("sub_sm", D, e_sub_sm, fl); } ADD("mul_sm", D, e_mul_sm, fl); ADD("div_sm", D, e_div_sm, fl);
	ADD("neg_m", D, e_neg_m, fl); ADD("pos_m", D, e_pos_m, fl);
	ADD("preinc_m", D, e_preinc_m, fl); ADD("predec_m", D, e_predec_m, fl); ADD("postinc_m", D, e_postinc_m, fl); ADD("postdec_m", D, e_postdec_m, fl);
	if (full) { ADD("transpose", D, e_transpose, 1); ADD("diag", D, e_diag, 1); ADD("gdiag", D, e_gdiag, 1); ADD("eq_mm", D, e_eq_mm, 1); ADD("ne_mm", D, e_ne_mm, 1); }
#undef ARGS
	reg_mm<Tag, Cn, Rn, 2>(); reg_mm<Tag, Cn, Rn, 3>(); reg_mm<Tag, Cn, Rn, 4>();
	if (full) {
		RegAccess<Tag, Cn, Rn, 0>::go(); RegAccess<Tag, Cn, Rn, 1>::go(); RegAccess<Tag, Cn, Rn, 2>::go(); RegAccess<Tag, Cn, Rn, 3>::go();
		reg_conv<Tag, Cn, Rn, 2, 2>(); reg_conv<Tag, Cn, Rn, 2, 3>(); reg_conv<Tag, Cn, Rn, 2, 4>(); reg_conv<Tag, Cn, Rn, 3, 2>(); reg_conv<Tag, Cn, Rn, 3, 3>();
		reg_conv<Tag, Cn, Rn, 3, 4>(); reg_conv<Tag, Cn, Rn, 4, 2>(); reg_conv<Tag, Cn, Rn, 4, 3>(); reg_conv<Tag, Cn, Rn, 4, 4>();
	}
}
template<class Tag> static void reg_all(bool full) {
	reg_shape<Tag, 2, 2>(full); reg_shape<Tag, 2, 3>(full); reg_shape<Tag, 2, 4>(full); reg_shape<Tag, 3, 2>(full); reg_shape<Tag, 3, 3>(full);
	reg_shape<Tag, 3, 4>(full); reg_shape<Tag, 4, 2>(full); reg_shape<Tag, 4, 3>(full); reg_shape<Tag, 4, 4>(full);
	reg_sq<Tag, 2>(); reg_sq<Tag, 3>(); reg_sq<Tag, 4>();
}
#ifndef C02_KIND
#define C02_KIND tf32
#endif
#ifndef C02_FULL
#define C02_FULL true
#endif
static int init = (reg_all<C02_KIND>(C02_FULL), 0);
VT_MAIN("C02")
