#!/usr/bin/env python3
"""gen_C03_intsrc.py <repo> <outdir>: copy <repo>/glm to <outdir>/glm and retarget GLM's integer SIMD specialisations to the
tracing integers.  The element types `int` and `unsigned int` cannot be renamed by a macro (they are keywords used
everywhere), so the translator rewrites, in the SIMD source files only, the type arguments of the specialisation headers and
signatures:   <.., int, ..> -> <.., vt::si32, ..>,   <.., uint, ..> / <.., unsigned int, ..> -> <.., vt::su32, ..>,
and the parameter types of the specialised constructors ( ::vec(int _x, ...) ).  Function bodies are not touched.
Prints one line per rewritten file with the number of substitutions (logged in the evidence)."""
import sys, os, re, shutil
FILES = ["detail/type_vec_simd.inl", "detail/func_common_simd.inl", "detail/func_integer_simd.inl", "detail/qualifier.hpp", "detail/type_vec4.inl", "detail/type_vec3.inl"]
ARG = re.compile(r'((?<!_cast)<\s*|,\s*)(unsigned int|uint|int)(\s*[,>])')   # not the target type of a cast inside a body
def retarget(txt, only_storage=False):
    n = 0
    def sub(m):
        nonlocal n; n += 1
        return m.group(1) + ('vt::si32' if m.group(2) == 'int' else 'vt::su32') + m.group(3)
    out = []
    for line in txt.split('\n'):
        if only_storage and 'struct storage<' not in line: out.append(line); continue
        prev = None
        while prev != line: prev = line; line = ARG.sub(sub, line)
        if '::vec(' in line and not only_storage:
            def params(m):
                nonlocal n
                p = re.sub(r'\bunsigned int (?=_)', 'vt::su32 ', m.group(1)); p2 = re.sub(r'\bint (?=_)', 'vt::si32 ', p)
                if p2 != m.group(1): n += 1
                return '::vec(' + p2 + ')'
            line = re.sub(r'::vec\(([^)]*)\)', params, line)
        out.append(line)
    return '\n'.join(out), n
def main():
    repo, out = sys.argv[1], sys.argv[2]
    dst = os.path.join(out, 'glm')
    if os.path.exists(dst): shutil.rmtree(dst)
    shutil.copytree(os.path.join(repo, 'glm'), dst)
    for f in FILES:
        p = os.path.join(dst, f); txt = open(p).read()
        new, n = retarget(txt, only_storage=f.endswith('qualifier.hpp'))
        open(p, 'w').write(new); print('REWRITE %s substitutions=%d' % (f, n))
    return 0
if __name__ == '__main__': sys.exit(main())
