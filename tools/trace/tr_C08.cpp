// C08 trace catalogue: clip-space builders and project/unProject (translator T1).
// Scalar parameters are the components of argument 0, in declaration order.
#include "driver.hpp"
#include <glm/ext/matrix_clip_space.hpp>
#include <glm/ext/matrix_projection.hpp>
using namespace vt;
#ifndef C08_T
#define C08_T f32
#endif
#define TY typename S::C08_T
#define P(i) c.template in<TY>(0, i)
#define E6(NAME) ENTRY(NAME) { out_mat(c, glm::NAME(P(0), P(1), P(2), P(3), P(4), P(5))); }
#define E4(NAME) ENTRY(NAME) { out_mat(c, glm::NAME(P(0), P(1), P(2), P(3))); }
#define E5(NAME) ENTRY(NAME) { out_mat(c, glm::NAME(P(0), P(1), P(2), P(3), P(4))); }
#define E3(NAME) ENTRY(NAME) { out_mat(c, glm::NAME(P(0), P(1), P(2))); }
ENTRY(ortho2D) { out_mat(c, glm::ortho(P(0), P(1), P(2), P(3))); }
E6(orthoLH_ZO) E6(orthoLH_NO) E6(orthoRH_ZO) E6(orthoRH_NO) E6(orthoZO) E6(orthoNO) E6(orthoLH) E6(orthoRH) E6(ortho)
E6(frustumLH_ZO) E6(frustumLH_NO) E6(frustumRH_ZO) E6(frustumRH_NO) E6(frustumZO) E6(frustumNO) E6(frustumLH) E6(frustumRH) E6(frustum)
E4(perspectiveRH_ZO) E4(perspectiveRH_NO) E4(perspectiveLH_ZO) E4(perspectiveLH_NO) E4(perspectiveZO) E4(perspectiveNO) E4(perspectiveLH) E4(perspectiveRH) E4(perspective)
E5(perspectiveFovRH_ZO) E5(perspectiveFovRH_NO) E5(perspectiveFovLH_ZO) E5(perspectiveFovLH_NO) E5(perspectiveFovZO) E5(perspectiveFovNO) E5(perspectiveFovLH) E5(perspectiveFovRH) E5(perspectiveFov)
E3(infinitePerspectiveRH_NO) E3(infinitePerspectiveRH_ZO) E3(infinitePerspectiveLH_NO) E3(infinitePerspectiveLH_ZO) E3(infinitePerspective)
#ifdef C08_HAS_INF_HALF
E3(infinitePerspectiveLH) E3(infinitePerspectiveRH)
#endif
ENTRY(tweakedInfinitePerspective) { out_mat(c, glm::tweakedInfinitePerspective(P(0), P(1), P(2))); }
ENTRY(tweakedInfinitePerspective_ep) { out_mat(c, glm::tweakedInfinitePerspective(P(0), P(1), P(2), P(3))); }
// project / unProject: obj = arg 0, model = arg 1, proj = arg 2, viewport = arg 3
#define PJ(NAME) ENTRY(NAME) { auto o = in_vec<3, TY>(c, 0); auto m = in_mat<4, 4, TY>(c, 1); auto p = in_mat<4, 4, TY>(c, 2); auto vp = in_vec<4, TY>(c, 3); out_vec(c, glm::NAME(o, m, p, vp)); }
PJ(projectZO) PJ(projectNO) PJ(project) PJ(unProjectZO) PJ(unProjectNO) PJ(unProject)
// with model = identity and a general matrix PM as projection (the product proj*model is what the functions use)
#define PJ1(NAME, FN) ENTRY(NAME) { auto o = in_vec<3, TY>(c, 0); glm::mat<4, 4, TY> m(TY(1)); auto p = in_mat<4, 4, TY>(c, 2); auto vp = in_vec<4, TY>(c, 3); out_vec(c, glm::FN(o, m, p, vp)); }
PJ1(projectZO_m1, projectZO) PJ1(projectNO_m1, projectNO) PJ1(unProjectZO_m1, unProjectZO) PJ1(unProjectNO_m1, unProjectNO)
// integer viewports (the documented `U` may be an integer type): the viewport enters only through static_cast<T>(viewport[i])
#define PJI(NAME, FN) ENTRY(NAME) { auto o = in_vec<3, TY>(c, 0); auto m = in_mat<4, 4, TY>(c, 1); auto p = in_mat<4, 4, TY>(c, 2); auto vp = in_vec<4, typename S::i32>(c, 3); out_vec(c, glm::FN(o, m, p, vp)); }
PJI(projectZO_ivp, projectZO) PJI(projectNO_ivp, projectNO) PJI(unProjectZO_ivp, unProjectZO) PJI(unProjectNO_ivp, unProjectNO)
ENTRY(pickMatrix_ivp) { auto ctr = in_vec<2, TY>(c, 0); auto d = in_vec<2, TY>(c, 1); auto vp = in_vec<4, typename S::i32>(c, 2); out_mat(c, glm::pickMatrix(ctr, d, vp)); }
ENTRY(pickMatrix) { auto ctr = in_vec<2, TY>(c, 0); auto d = in_vec<2, TY>(c, 1); auto vp = in_vec<4, TY>(c, 2); out_mat(c, glm::pickMatrix(ctr, d, vp)); }
VT_MAIN("C08")
