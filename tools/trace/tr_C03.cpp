// C03 trace catalogue: every operation that has an aligned / intrinsic specialisation for float (translator T1).
// The same entries are built three ways:
//   pure   (-DGLM_FORCE_PURE, packed types)                       -> Gen_C03_pure.v, self-validated against the real float build
//   simd   (-DVT_SIMD -DGLM_FORCE_INTRINSICS -DGLM_FORCE_<ISA>)   -> Gen_C03_<isa>.v: GLM's SIMD kernels traced through simd_shim.hpp,
//                                                                    validated against
//   golden (-DVT_C03_ALIGNED -DGLM_FORCE_INTRINSICS -m<isa>)      -> the same entries on the real intrinsics (VT_GOLDEN_OUT)
#define GLM_ENABLE_EXPERIMENTAL
#ifdef VT_C03_ALIGNED
#define VT_GOLDEN_ONLY
#endif
#include "driver.hpp"
#ifdef VT_SIMD
#define float vt::sf32
#define double vt::sf64
#endif
#include <glm/geometric.hpp>
#include <glm/matrix.hpp>
#include <glm/exponential.hpp>
#include <glm/gtc/quaternion.hpp>
#ifdef VT_SIMD
#undef float
#undef double
#endif
using namespace vt;
#if defined(VT_SIMD) || defined(VT_C03_ALIGNED)
#define QH glm::aligned_highp
#define QL glm::aligned_lowp
#define QM glm::aligned_mediump
#else
#define QH glm::packed_highp
#define QL glm::packed_highp   /* reference for the lowp entries: the full-precision generic code */
#define QM glm::packed_highp   /* mediump must be the full-precision code as well */
#endif
#define TY typename S::f32
#define V4(a) in_vec<4, TY, QH>(c, a)
#define V3(a) in_vec<3, TY, QH>(c, a)
#define L4(a) in_vec<4, TY, QL>(c, a)
#define M4(a) in_mat<4, 4, TY, QH>(c, a)
#define MV4(a) in_vec<4, TY, QM>(c, a)
#define MM4(a) in_mat<4, 4, TY, QM>(c, a)
#define M3(a) in_mat<3, 3, TY, QH>(c, a)
#define QT(a) in_qua<TY, QH>(c, a)
#define SC(a) c.template in<TY>(a, 0)
// ---- vector operators
ENTRY(v4_add) { out_vec(c, V4(0) + V4(1)); }
ENTRY(v4_sub) { out_vec(c, V4(0) - V4(1)); }
ENTRY(v4_mul) { out_vec(c, V4(0) * V4(1)); }
ENTRY(v4_div) { out_vec(c, V4(0) / V4(1)); }
ENTRY(v4_add_s) { out_vec(c, V4(0) + SC(1)); }
ENTRY(v4_sub_s) { out_vec(c, V4(0) - SC(1)); }
ENTRY(v4_mul_s) { out_vec(c, V4(0) * SC(1)); }
ENTRY(v4_div_s) { out_vec(c, V4(0) / SC(1)); }
ENTRY(v4_s_sub) { out_vec(c, SC(1) - V4(0)); }
ENTRY(v4_neg) { out_vec(c, -V4(0)); }
ENTRY(v4_compound) { auto t = V4(0); t += V4(1); t -= V4(2); t *= SC(3); t /= V4(1); out_vec(c, t); }
ENTRY(v3_add) { out_vec(c, V3(0) + V3(1)); }
ENTRY(v3_sub) { out_vec(c, V3(0) - V3(1)); }
ENTRY(v3_mul) { out_vec(c, V3(0) * V3(1)); }
ENTRY(v3_div) { out_vec(c, V3(0) / V3(1)); }
ENTRY(v3_mul_s) { out_vec(c, V3(0) * SC(1)); }
ENTRY(v4_eq) { c.out(V4(0) == V4(1)); }
ENTRY(v4_ne) { c.out(V4(0) != V4(1)); }
ENTRY(v3_eq) { c.out(V3(0) == V3(1)); }
ENTRY(v3_ne) { c.out(V3(0) != V3(1)); }
ENTRY(q_eq) { c.out(QT(0) == QT(1)); }
ENTRY(m4_eq) { c.out(M4(0) == M4(1)); }
ENTRY(m3_eq) { c.out(M3(0) == M3(1)); }
ENTRY(v4_from_v3) { out_vec(c, glm::vec<4, TY, QH>(V3(0), SC(1))); }
ENTRY(v3_from_v4) { out_vec(c, glm::vec<3, TY, QH>(V4(0))); }
ENTRY(v4_splat) { out_vec(c, glm::vec<4, TY, QH>(SC(0))); }
// ---- common
ENTRY(abs4) { out_vec(c, glm::abs(V4(0))); }
ENTRY(floor4) { out_vec(c, glm::floor(V4(0))); }
ENTRY(ceil4) { out_vec(c, glm::ceil(V4(0))); }
ENTRY(fract4) { out_vec(c, glm::fract(V4(0))); }
ENTRY(round4) { out_vec(c, glm::round(V4(0))); }
ENTRY(mod4) { out_vec(c, glm::mod(V4(0), V4(1))); }
ENTRY(mod4_s) { out_vec(c, glm::mod(V4(0), SC(1))); }
ENTRY(min4) { out_vec(c, glm::min(V4(0), V4(1))); }
ENTRY(max4) { out_vec(c, glm::max(V4(0), V4(1))); }
ENTRY(min4_s) { out_vec(c, glm::min(V4(0), SC(1))); }
ENTRY(max4_s) { out_vec(c, glm::max(V4(0), SC(1))); }
ENTRY(clamp4) { out_vec(c, glm::clamp(V4(0), V4(1), V4(2))); }
ENTRY(clamp4_s) { out_vec(c, glm::clamp(V4(0), SC(1), SC(2))); }
ENTRY(mix4_bool_tftf) { out_vec(c, glm::mix(V4(0), V4(1), glm::vec<4, bool, QH>(true, false, true, false))); }
ENTRY(mix4_bool_fftt) { out_vec(c, glm::mix(V4(0), V4(1), glm::vec<4, bool, QH>(false, false, true, true))); }
ENTRY(mix4) { out_vec(c, glm::mix(V4(0), V4(1), V4(2))); }
ENTRY(mix4_s) { out_vec(c, glm::mix(V4(0), V4(1), SC(2))); }
ENTRY(smoothstep4) { out_vec(c, glm::smoothstep(V4(0), V4(1), V4(2))); }
ENTRY(step4) { out_vec(c, glm::step(V4(0), V4(1))); }
ENTRY(fma4) { out_vec(c, glm::fma(V4(0), V4(1), V4(2))); }
ENTRY(fma3) { out_vec(c, glm::fma(V3(0), V3(1), V3(2))); }
ENTRY(sign4) { out_vec(c, glm::sign(V4(0))); }
// ---- exponential
ENTRY(sqrt4) { out_vec(c, glm::sqrt(V4(0))); }
ENTRY(inversesqrt4) { out_vec(c, glm::inversesqrt(V4(0))); }
ENTRY(sqrt4_lowp) { out_vec(c, glm::sqrt(L4(0))); }
ENTRY(inversesqrt4_lowp) { out_vec(c, glm::inversesqrt(L4(0))); }
ENTRY(div4_lowp) { out_vec(c, L4(0) / L4(1)); }
// mediump: only lowp may use the hardware reciprocal / rsqrt approximations, so these must equal the pure highp code
ENTRY(sqrt4_mediump) { out_vec(c, glm::sqrt(MV4(0))); }
ENTRY(inversesqrt4_mediump) { out_vec(c, glm::inversesqrt(MV4(0))); }
ENTRY(div4_mediump) { out_vec(c, MV4(0) / MV4(1)); }
ENTRY(normalize4_mediump) { out_vec(c, glm::normalize(MV4(0))); }
ENTRY(length4_mediump) { c.out(glm::length(MV4(0))); }
ENTRY(dot4_mediump) { c.out(glm::dot(MV4(0), MV4(1))); }
ENTRY(inverse4_mediump) { out_mat(c, glm::inverse(MM4(0))); }
ENTRY(determinant4_mediump) { c.out(glm::determinant(MM4(0))); }
ENTRY(m4_mul_m4_mediump) { out_mat(c, MM4(0) * MM4(1)); }
ENTRY(m4_mul_v4_mediump) { out_vec(c, MM4(0) * MV4(1)); }
ENTRY(outerProduct4_mediump) { out_mat(c, glm::outerProduct(MV4(0), MV4(1))); }
// ---- geometric
ENTRY(dot4) { c.out(glm::dot(V4(0), V4(1))); }
ENTRY(dot3) { c.out(glm::dot(V3(0), V3(1))); }
ENTRY(length4) { c.out(glm::length(V4(0))); }
ENTRY(length3) { c.out(glm::length(V3(0))); }
ENTRY(distance4) { c.out(glm::distance(V4(0), V4(1))); }
ENTRY(cross3) { out_vec(c, glm::cross(V3(0), V3(1))); }
ENTRY(normalize4) { out_vec(c, glm::normalize(V4(0))); }
ENTRY(normalize3) { out_vec(c, glm::normalize(V3(0))); }
ENTRY(faceforward4) { out_vec(c, glm::faceforward(V4(0), V4(1), V4(2))); }
ENTRY(faceforward3) { out_vec(c, glm::faceforward(V3(0), V3(1), V3(2))); }
ENTRY(reflect4) { out_vec(c, glm::reflect(V4(0), V4(1))); }
ENTRY(reflect3) { out_vec(c, glm::reflect(V3(0), V3(1))); }
ENTRY(refract4) { out_vec(c, glm::refract(V4(0), V4(1), SC(2))); }
ENTRY(refract3) { out_vec(c, glm::refract(V3(0), V3(1), SC(2))); }
// ---- matrix
ENTRY(m4_mul_v4) { out_vec(c, M4(0) * V4(1)); }
ENTRY(v4_mul_m4) { out_vec(c, V4(1) * M4(0)); }
ENTRY(m4_mul_m4) { out_mat(c, M4(0) * M4(1)); }
ENTRY(m4_add) { out_mat(c, M4(0) + M4(1)); }
ENTRY(m4_mul_s) { out_mat(c, M4(0) * SC(1)); }
ENTRY(m3_mul_v3) { out_vec(c, M3(0) * V3(1)); }
ENTRY(m3_mul_m3) { out_mat(c, M3(0) * M3(1)); }
ENTRY(transpose4) { out_mat(c, glm::transpose(M4(0))); }
ENTRY(transpose3) { out_mat(c, glm::transpose(M3(0))); }
ENTRY(matrixCompMult4) { out_mat(c, glm::matrixCompMult(M4(0), M4(1))); }
ENTRY(outerProduct4) { out_mat(c, glm::outerProduct(V4(0), V4(1))); }
ENTRY(determinant4) { c.out(glm::determinant(M4(0))); }
ENTRY(determinant3) { c.out(glm::determinant(M3(0))); }
ENTRY(inverse4) { out_mat(c, glm::inverse(M4(0))); }
ENTRY(inverse3) { out_mat(c, glm::inverse(M3(0))); }
// ---- quaternion
ENTRY(q_add) { out_qua(c, QT(0) + QT(1)); }
ENTRY(q_sub) { out_qua(c, QT(0) - QT(1)); }
ENTRY(q_mul_s) { out_qua(c, QT(0) * SC(1)); }
ENTRY(q_div_s) { out_qua(c, QT(0) / SC(1)); }
ENTRY(q_mul_s_c) { auto q = QT(0); q *= SC(1); out_qua(c, q); }
ENTRY(q_div_s_c) { auto q = QT(0); q /= SC(1); out_qua(c, q); }
ENTRY(q_mul) { out_qua(c, QT(0) * QT(1)); }
ENTRY(q_mul_v4) { out_vec(c, QT(0) * V4(1)); }
ENTRY(q_mul_v3) { out_vec(c, QT(0) * V3(1)); }
ENTRY(q_dot) { c.out(glm::dot(QT(0), QT(1))); }
ENTRY(q_length) { c.out(glm::length(QT(0))); }
ENTRY(q_normalize) { out_qua(c, glm::normalize(QT(0))); }
ENTRY(q_conjugate) { out_qua(c, glm::conjugate(QT(0))); }
ENTRY(q_inverse) { out_qua(c, glm::inverse(QT(0))); }
ENTRY(q_lerp) { out_qua(c, glm::lerp(QT(0), QT(1), SC(2))); }
ENTRY(q_mat4_cast) { out_mat(c, glm::mat4_cast(QT(0))); }
// ---- double precision (aligned dvec4 / dvec3 / dquat)
#define TD typename S::f64
#define D4(a) in_vec<4, TD, QH>(c, a)
#define D3(a) in_vec<3, TD, QH>(c, a)
#define DQ(a) in_qua<TD, QH>(c, a)
#define DS(a) c.template in<TD>(a, 0)
ENTRY(d4_add) { out_vec(c, D4(0) + D4(1)); }
ENTRY(d4_sub) { out_vec(c, D4(0) - D4(1)); }
ENTRY(d4_mul) { out_vec(c, D4(0) * D4(1)); }
ENTRY(d4_div) { out_vec(c, D4(0) / D4(1)); }
ENTRY(d4_mul_s) { out_vec(c, D4(0) * DS(1)); }
ENTRY(d4_add_s) { out_vec(c, D4(0) + DS(1)); }
ENTRY(d3_add) { out_vec(c, D3(0) + D3(1)); }
ENTRY(d3_sub) { out_vec(c, D3(0) - D3(1)); }
ENTRY(d3_mul) { out_vec(c, D3(0) * D3(1)); }
ENTRY(d3_div) { out_vec(c, D3(0) / D3(1)); }
ENTRY(d4_fma) { out_vec(c, glm::fma(D4(0), D4(1), D4(2))); }
ENTRY(d4_splat) { out_vec(c, glm::vec<4, TD, QH>(DS(0))); }
ENTRY(d4_from_d3) { out_vec(c, glm::vec<4, TD, QH>(D3(0), DS(1))); }
ENTRY(d3_from_d4) { out_vec(c, glm::vec<3, TD, QH>(D4(0))); }
ENTRY(d4_dot) { c.out(glm::dot(D4(0), D4(1))); }
// aligned double matrices: the products are written with splatX..W (convert_splat<L, double, Q, true>: permute / shuffle selectors that differ per level)
#define DM4(a) in_mat<4, 4, TD, QH>(c, a)
#define DM3(a) in_mat<3, 3, TD, QH>(c, a)
ENTRY(dm4_mul_dm4) { out_mat(c, DM4(0) * DM4(1)); }
ENTRY(dm4_mul_d4) { out_vec(c, DM4(0) * D4(1)); }
ENTRY(dm3_mul_dm3) { out_mat(c, DM3(0) * DM3(1)); }
ENTRY(dm3_mul_d3) { out_vec(c, DM3(0) * D3(1)); }
ENTRY(d4_splats) { auto v = D4(0); out_vec(c, glm::splatX(v)); out_vec(c, glm::splatY(v)); out_vec(c, glm::splatZ(v)); out_vec(c, glm::splatW(v)); }
ENTRY(d3_dot) { c.out(glm::dot(D3(0), D3(1))); }
ENTRY(d3_cross) { out_vec(c, glm::cross(D3(0), D3(1))); }
ENTRY(d4_length) { c.out(glm::length(D4(0))); }
ENTRY(d4_mix_s) { out_vec(c, glm::mix(D4(0), D4(1), DS(2))); }
ENTRY(dq_add) { out_qua(c, DQ(0) + DQ(1)); }
ENTRY(dq_sub) { out_qua(c, DQ(0) - DQ(1)); }
ENTRY(dq_mul_s) { out_qua(c, DQ(0) * DS(1)); }
ENTRY(dq_div_s) { out_qua(c, DQ(0) / DS(1)); }
ENTRY(dq_mul_s_c) { auto q = DQ(0); q *= DS(1); out_qua(c, q); }
ENTRY(dq_div_s_c) { auto q = DQ(0); q /= DS(1); out_qua(c, q); }
ENTRY(dq_add_c) { auto q = DQ(0); q += DQ(1); out_qua(c, q); }
ENTRY(dq_mul) { out_qua(c, DQ(0) * DQ(1)); }
// ---- 32-bit integers (aligned ivec4 / uvec4 / ivec3): the SIMD build reads the retargeted specialisations (gen_C03_intsrc.py)
#define TI typename S::i32
#define TU typename S::u32
#define I4(a) in_vec<4, TI, QH>(c, a)
#define U4(a) in_vec<4, TU, QH>(c, a)
#define I3(a) in_vec<3, TI, QH>(c, a)
ENTRY(i4_add) { out_vec(c, I4(0) + I4(1)); }
ENTRY(i4_sub) { out_vec(c, I4(0) - I4(1)); }
ENTRY(i4_mul) { out_vec(c, I4(0) * I4(1)); }
ENTRY(i4_and) { out_vec(c, I4(0) & I4(1)); }
ENTRY(i4_or) { out_vec(c, I4(0) | I4(1)); }
ENTRY(i4_xor) { out_vec(c, I4(0) ^ I4(1)); }
ENTRY(i4_not) { out_vec(c, ~I4(0)); }
ENTRY(i4_neg) { out_vec(c, -I4(0)); }
ENTRY(i4_add_s) { out_vec(c, I4(0) + c.template in<TI>(1, 0)); }
ENTRY(i4_compound) { auto t = I4(0); t += I4(1); t -= I4(2); t *= I4(1); t &= I4(2); t |= I4(0); t ^= I4(1); out_vec(c, t); }
ENTRY(i4_eq) { c.out(I4(0) == I4(1)); }
ENTRY(i4_ne) { c.out(I4(0) != I4(1)); }
ENTRY(i4_abs) { out_vec(c, glm::abs(I4(0))); }
ENTRY(i4_min) { out_vec(c, glm::min(I4(0), I4(1))); }
ENTRY(i4_max) { out_vec(c, glm::max(I4(0), I4(1))); }
ENTRY(i4_clamp) { out_vec(c, glm::clamp(I4(0), I4(1), I4(2))); }
ENTRY(i3_add) { out_vec(c, I3(0) + I3(1)); }
ENTRY(i3_mul) { out_vec(c, I3(0) * I3(1)); }
ENTRY(i3_and) { out_vec(c, I3(0) & I3(1)); }
ENTRY(u4_add) { out_vec(c, U4(0) + U4(1)); }
ENTRY(u4_sub) { out_vec(c, U4(0) - U4(1)); }
ENTRY(u4_mul) { out_vec(c, U4(0) * U4(1)); }
ENTRY(u4_and) { out_vec(c, U4(0) & U4(1)); }
ENTRY(u4_or) { out_vec(c, U4(0) | U4(1)); }
ENTRY(u4_xor) { out_vec(c, U4(0) ^ U4(1)); }
ENTRY(u4_not) { out_vec(c, ~U4(0)); }
ENTRY(u4_eq) { c.out(U4(0) == U4(1)); }
ENTRY(u4_ne) { c.out(U4(0) != U4(1)); }
ENTRY(u4_min) { out_vec(c, glm::min(U4(0), U4(1))); }
ENTRY(u4_max) { out_vec(c, glm::max(U4(0), U4(1))); }
ENTRY(u4_clamp) { out_vec(c, glm::clamp(U4(0), U4(1), U4(2))); }
ENTRY(i4_splat) { out_vec(c, glm::vec<4, TI, QH>(c.template in<TI>(0, 0))); }
ENTRY(i4_ctor) { out_vec(c, glm::vec<4, TI, QH>(c.template in<TI>(0, 0), c.template in<TI>(0, 1), c.template in<TI>(0, 2), c.template in<TI>(0, 3))); }
ENTRY(v4_from_i4) { out_vec(c, glm::vec<4, TY, QH>(I4(0))); }
ENTRY(i4_from_v4) { out_vec(c, glm::vec<4, TI, QH>(V4(0))); }
VT_MAIN("C03")
