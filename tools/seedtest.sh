#!/bin/bash
# usage: tools/seedtest.sh <property> <patch.diff> [tier]  -- apply a seeded change to /repo, run the check, undo.
set -u
P=$1; PATCH=$2; TIER=${3:---quick}
cd /verif
cp evidence/$P.json /tmp/seedtest_evidence_$P.json 2>/dev/null
git -C /repo apply "$PATCH" || { echo "patch does not apply"; exit 2; }
./check $P $TIER > /tmp/seedtest_$P.out 2>&1; rc=$?
git -C /repo checkout -- .
cp /tmp/seedtest_evidence_$P.json evidence/$P.json 2>/dev/null
grep -E "VIOLATION|KNOWN-FINDING|obligations=" /tmp/seedtest_$P.out
echo "rc=$rc"
