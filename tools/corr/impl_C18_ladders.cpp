// impl_C18_ladders.cpp -- validation of the ladder TRANSLATOR (tools/trace/gen_C18.py): runs the real
// bitfieldInterleave / bitfieldDeinterleave overloads on structured and random arguments; the check evaluates the
// translated programs on the same arguments inside Coq (vm_compute) and compares.   Lines:  name args... = results...
#include <glm/glm.hpp>
#include <glm/gtc/type_precision.hpp>
#include <glm/gtc/bitfield.hpp>
#include <cstdio>
#include <cstdint>
#include <cstdlib>
static uint64_t st;
static uint64_t rnd() { uint64_t z = (st += 0x9E3779B97F4A7C15ull); z = (z ^ (z >> 30)) * 0xBF58476D1CE4E5B9ull; z = (z ^ (z >> 27)) * 0x94D049BB133111EBull; return z ^ (z >> 31); }
static uint64_t pick(int i, int w) { uint64_t m = w == 64 ? ~0ull : ((1ull << w) - 1); switch (i % 6) { case 0: return 1ull << (rnd() % w); case 1: return m; case 2: return 0; case 3: return (0x5555555555555555ull << (rnd() % 2)) & m; default: return rnd() & m; } }
typedef unsigned long long ull;
int main(int argc, char** argv)
{
	st = argc > 1 ? std::strtoull(argv[1], 0, 10) : 1; int n = 40;
	for (int i = 0; i < n; ++i) {
		glm::uint8 a = (glm::uint8)pick(i, 8), b = (glm::uint8)pick(i + 1, 8), c = (glm::uint8)pick(i + 2, 8), d = (glm::uint8)pick(i + 3, 8);
		std::printf("pub_u8_2 %x %x = %llx\n", a, b, (ull)glm::bitfieldInterleave(a, b)); std::printf("pubv_u8_2 %x %x = %llx\n", a, b, (ull)glm::bitfieldInterleave(glm::u8vec2(a, b)));
		std::printf("pub_u8_3 %x %x %x = %llx\n", a, b, c, (ull)glm::bitfieldInterleave(a, b, c)); std::printf("pubv_u8_3 %x %x %x = %llx\n", a, b, c, (ull)glm::bitfieldInterleave(glm::u8vec3(a, b, c)));
		std::printf("pub_u8_4 %x %x %x %x = %llx\n", a, b, c, d, (ull)glm::bitfieldInterleave(a, b, c, d)); std::printf("pubv_u8_4 %x %x %x %x = %llx\n", a, b, c, d, (ull)glm::bitfieldInterleave(glm::u8vec4(a, b, c, d)));
		glm::uint16 e = (glm::uint16)pick(i, 16), f = (glm::uint16)pick(i + 1, 16), g = (glm::uint16)pick(i + 2, 16), h = (glm::uint16)pick(i + 3, 16);
		std::printf("pub_u16_2 %x %x = %llx\n", e, f, (ull)glm::bitfieldInterleave(e, f)); std::printf("pubv_u16_2 %x %x = %llx\n", e, f, (ull)glm::bitfieldInterleave(glm::u16vec2(e, f)));
		std::printf("pub_u16_3 %x %x %x = %llx\n", e, f, g, (ull)glm::bitfieldInterleave(e, f, g)); std::printf("pubv_u16_3 %x %x %x = %llx\n", e, f, g, (ull)glm::bitfieldInterleave(glm::u16vec3(e, f, g)));
		std::printf("pub_u16_4 %x %x %x %x = %llx\n", e, f, g, h, (ull)glm::bitfieldInterleave(e, f, g, h)); std::printf("pubv_u16_4 %x %x %x %x = %llx\n", e, f, g, h, (ull)glm::bitfieldInterleave(glm::u16vec4(e, f, g, h)));
		glm::uint32 p = (glm::uint32)pick(i, 32), q = (glm::uint32)pick(i + 1, 32), r = (glm::uint32)pick(i + 2, 32);
		std::printf("pub_u32_2 %x %x = %llx\n", p, q, (ull)glm::bitfieldInterleave(p, q)); std::printf("pubv_u32_2 %x %x = %llx\n", p, q, (ull)glm::bitfieldInterleave(glm::u32vec2(p, q)));
		std::printf("pub_u32_3 %x %x %x = %llx\n", p, q, r, (ull)glm::bitfieldInterleave(p, q, r)); std::printf("pubv_u32_3 %x %x %x = %llx\n", p, q, r, (ull)glm::bitfieldInterleave(glm::u32vec3(p, q, r)));
		glm::uint16 x16 = (glm::uint16)pick(i + 4, 16); glm::u8vec2 d16 = glm::bitfieldDeinterleave(x16); std::printf("de_u16 %x = %x %x\n", x16, d16.x, d16.y);
		glm::uint32 x32 = (glm::uint32)pick(i + 4, 32); glm::u16vec2 d32 = glm::bitfieldDeinterleave(x32); std::printf("de_u32 %x = %x %x\n", x32, d32.x, d32.y);
		glm::uint64 x64 = (glm::uint64)pick(i + 4, 64); glm::u32vec2 d64 = glm::bitfieldDeinterleave(x64); std::printf("de_u64 %llx = %x %x\n", (ull)x64, d64.x, d64.y);
	}
	return 0;
}
