// impl_C07.cpp -- implementation side of the C07 correspondence: runs the real glm::detail::toFloat16/toFloat32 and the
// packHalf*/unpackHalf* wrappers on generated patterns and prints  fn args = outs  (hex).
#include <glm/glm.hpp>
#include <glm/gtc/packing.hpp>
#include <cstdio>
#include <cstdint>
#include <cstring>
#include <cstdlib>
#include <string>
static uint64_t st;
static uint64_t rnd() { uint64_t z = (st += 0x9E3779B97F4A7C15ull); z = (z ^ (z >> 30)) * 0xBF58476D1CE4E5B9ull; z = (z ^ (z >> 27)) * 0x94D049BB133111EBull; return z ^ (z >> 31); }
static float bf(uint32_t u) { float f; std::memcpy(&f, &u, 4); return f; }
static uint32_t fb(float f) { uint32_t u; std::memcpy(&u, &f, 4); return u; }
static void f2h(uint32_t a) { std::printf("toFloat16 %x = %x\n", a, (unsigned)(uint16_t)glm::detail::toFloat16(bf(a))); }
int main(int argc, char** argv) {
	st = argc > 1 ? std::strtoull(argv[1], 0, 10) : 1; bool thorough = argc > 2 && std::string(argv[2]) == "thorough";
	// all 65536 half patterns through every unpack entry point
	for (uint32_t h = 0; h < 65536; ++h) {
		std::printf("toFloat32 %x = %x\n", h, fb(glm::detail::toFloat32((glm::detail::hdata)h)));
		std::printf("unpackHalf1x16 %x = %x\n", h, fb(glm::unpackHalf1x16((glm::uint16)h)));
	}
	for (uint32_t i = 0; i < 65536; i += (thorough ? 1 : 7)) {
		uint32_t h0 = i, h1 = (uint32_t)(rnd() & 0xffff), h2 = (uint32_t)(rnd() & 0xffff), h3 = (uint32_t)(rnd() & 0xffff);
		uint32_t p2 = h0 | (h1 << 16); glm::vec2 u2 = glm::unpackHalf2x16(p2); std::printf("unpackHalf2x16 %x = %x %x\n", p2, fb(u2.x), fb(u2.y));
		uint64_t p4 = (uint64_t)h2 | ((uint64_t)h0 << 16) | ((uint64_t)h3 << 32) | ((uint64_t)h1 << 48); glm::vec4 u4 = glm::unpackHalf4x16(p4); std::printf("unpackHalf4x16 %llx = %x %x %x %x\n", (unsigned long long)p4, fb(u4.x), fb(u4.y), fb(u4.z), fb(u4.w));
		{ glm::vec<1, float> r = glm::unpackHalf(glm::vec<1, glm::uint16>((glm::uint16)h0)); std::printf("unpackHalfL/1 %x = %x\n", h0, fb(r.x)); }
		{ glm::vec2 r = glm::unpackHalf(glm::u16vec2((glm::uint16)h0, (glm::uint16)h1)); std::printf("unpackHalfL/2 %x %x = %x %x\n", h0, h1, fb(r.x), fb(r.y)); }
		{ glm::vec3 r = glm::unpackHalf(glm::u16vec3((glm::uint16)h1, (glm::uint16)h0, (glm::uint16)h2)); std::printf("unpackHalfL/3 %x %x %x = %x %x %x\n", h1, h0, h2, fb(r.x), fb(r.y), fb(r.z)); }
		{ glm::vec4 r = glm::unpackHalf(glm::u16vec4((glm::uint16)h3, (glm::uint16)h2, (glm::uint16)h1, (glm::uint16)h0)); std::printf("unpackHalfL/4 %x %x %x %x = %x %x %x %x\n", h3, h2, h1, h0, fb(r.x), fb(r.y), fb(r.z), fb(r.w)); }
	}
	// float -> half: proof-boundary families: every exponent, fraction all-zeros/all-ones/around each rounding boundary, both signs
	for (uint32_t E = 0; E < 256; ++E) for (uint32_t sgn = 0; sgn < 2; ++sgn) {
		static const uint32_t ms[] = {0, 1, 0xfff, 0x1000, 0x1001, 0x1fff, 0x2000, 0x2fff, 0x3000, 0x3001, 0x7fefff, 0x7ff000, 0x7ff001, 0x7fffff, 0x400000, 0x3fffff, 0x555555, 0x2aaaaa, 0x7fe000, 0x7fdfff, 0x7fe001};
		for (uint32_t m : ms) f2h((sgn << 31) | (E << 23) | m);
		for (int k = 0; k < 24; ++k) { f2h((sgn << 31) | (E << 23) | (1u << k) % 0x800000); f2h((sgn << 31) | (E << 23) | ((1u << k) - 1) % 0x800000); }
		for (int r = 0; r < (thorough ? 4000 : 60); ++r) f2h((sgn << 31) | (E << 23) | (uint32_t)(rnd() & 0x7fffff));
	}
	// around every half value and every midpoint between consecutive halves
	for (uint32_t h = 0; h < 0x7c00; h += (thorough ? 1 : 5)) { uint32_t a = fb(glm::detail::toFloat32((glm::detail::hdata)h)), b = fb(glm::detail::toFloat32((glm::detail::hdata)(h + 1))); uint32_t mid = a + (b - a) / 2;
		for (int d = -2; d <= 2; ++d) { f2h(a + d); f2h(mid + d); f2h((a + d) | 0x80000000u); f2h((mid + d) | 0x80000000u); } }
	for (int r = 0; r < (thorough ? 2000000 : 50000); ++r) { uint32_t a = (uint32_t)rnd(), b = (uint32_t)rnd(), c = (uint32_t)rnd(), d = (uint32_t)rnd();
		std::printf("packHalf1x16 %x = %x\n", a, (unsigned)glm::packHalf1x16(bf(a)));
		if (r % 4 == 0) { std::printf("packHalf2x16 %x %x = %x\n", a, b, glm::packHalf2x16(glm::vec2(bf(a), bf(b)))); std::printf("packHalf4x16 %x %x %x %x = %llx\n", a, b, c, d, (unsigned long long)glm::packHalf4x16(glm::vec4(bf(a), bf(b), bf(c), bf(d))));
			glm::u16vec3 p3 = glm::packHalf(glm::vec3(bf(a), bf(b), bf(c))); std::printf("packHalfL/3 %x %x %x = %x %x %x\n", a, b, c, (unsigned)p3.x, (unsigned)p3.y, (unsigned)p3.z);
			glm::u16vec4 p4 = glm::packHalf(glm::vec4(bf(a), bf(b), bf(c), bf(d))); std::printf("packHalfL/4 %x %x %x %x = %x %x %x %x\n", a, b, c, d, (unsigned)p4.x, (unsigned)p4.y, (unsigned)p4.z, (unsigned)p4.w);
			glm::u16vec2 p2 = glm::packHalf(glm::vec2(bf(a), bf(b))); std::printf("packHalfL/2 %x %x = %x %x\n", a, b, (unsigned)p2.x, (unsigned)p2.y); } }
	return 0;
}
