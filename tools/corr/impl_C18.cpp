// impl_C18.cpp -- implementation side of the C18 correspondence: power-of-two / multiple / bitfield utilities on every
// element width and signedness, scalar and vector overloads, plus gtx/integer and gtx/bit.
// Lines:  fn sg w operands... = results   (hex patterns; counts and shifts are int patterns).
// Built with -fwrapv: signed overflow wraps, as the model says (formally undefined: property C20).
#define GLM_ENABLE_EXPERIMENTAL
#include <glm/glm.hpp>
#include <glm/gtc/type_precision.hpp>
#include <glm/gtc/round.hpp>
#include <glm/gtc/bitfield.hpp>
#include <glm/gtc/integer.hpp>
#include <glm/ext/scalar_integer.hpp>
#include <glm/ext/vector_integer.hpp>
#include <glm/gtx/integer.hpp>
#include <glm/gtx/bit.hpp>
#include <cstdio>
#include <cstdint>
#include <cstdlib>
#include <cmath>
#include <string>
#include <type_traits>
static uint64_t st;
static uint64_t rnd() { uint64_t z = (st += 0x9E3779B97F4A7C15ull); z = (z ^ (z >> 30)) * 0xBF58476D1CE4E5B9ull; z = (z ^ (z >> 27)) * 0x94D049BB133111EBull; return z ^ (z >> 31); }
template<class T> static unsigned long long pat(T v) { typedef typename std::make_unsigned<T>::type U; return (unsigned long long)(U)v; }
static unsigned ipat(int v) { return (unsigned)v; }
template<class T> static T special(int i) { typedef typename std::make_unsigned<T>::type U; int w = sizeof(T) * 8; U v;
	switch (i % 14) { case 0: v = 0; break; case 1: v = (U)~(U)0; break; case 2: v = (U)1 << (rnd() % w); break; case 3: v = (U)(((U)1 << (rnd() % w)) + 1); break; case 4: v = (U)(((U)1 << (rnd() % w)) - 1); break;
	case 5: v = (U)((U)1 << (w - 1)); break; case 6: v = (U)(((U)1 << (w - 1)) - 1); break; case 7: v = (U)(((U)1 << (w - 1)) + 1 + rnd() % 5); break; case 8: v = (U)(0 - (U)(rnd() % 300)); break; case 9: v = (U)(rnd() & 0xff); break;
	case 10: v = (U)(3 * ((U)1 << (rnd() % (w - 1)))); break; case 11: v = (U)(0 - ((U)1 << (rnd() % w))); break; default: v = (U)rnd(); }
	return (T)v; }
template<class T> static void unary(T x) {
	int sg = std::is_signed<T>::value, w = (int)sizeof(T) * 8;
	std::printf("isPowerOfTwo %d %x %llx = %x\n", sg, w, pat(x), (unsigned)glm::isPowerOfTwo(x));
	std::printf("ceilPowerOfTwo %d %x %llx = %llx\n", sg, w, pat(x), pat(glm::ceilPowerOfTwo(x)));
	std::printf("ceilPowerOfTwo/next %d %x %llx = %llx\n", sg, w, pat(x), pat(glm::nextPowerOfTwo(x)));
	std::printf("floorPowerOfTwo %d %x %llx = %llx\n", sg, w, pat(x), pat((T)glm::floorPowerOfTwo(x)));
	std::printf("floorPowerOfTwo/prev %d %x %llx = %llx\n", sg, w, pat(x), pat(glm::prevPowerOfTwo(x)));
	std::printf("roundPowerOfTwo %d %x %llx = %llx\n", sg, w, pat(x), pat((T)glm::roundPowerOfTwo(x)));
	std::printf("lowestBitValue %d %x %llx = %llx\n", sg, w, pat(x), pat((T)glm::lowestBitValue(x)));
	std::printf("highestBitValue %d %x %llx = %llx\n", sg, w, pat(x), pat((T)glm::highestBitValue(x)));
	std::printf("powerOfTwoAbove %d %x %llx = %llx\n", sg, w, pat(x), pat((T)glm::powerOfTwoAbove(x)));
	std::printf("powerOfTwoBelow %d %x %llx = %llx\n", sg, w, pat(x), pat((T)glm::powerOfTwoBelow(x)));
	std::printf("powerOfTwoNearest %d %x %llx = %llx\n", sg, w, pat(x), pat((T)glm::powerOfTwoNearest(x)));
	glm::vec<3, T> v3((T)1, (T)(x ^ (T)5), x); glm::vec<4, T> v4((T)7, (T)0, (T)~x, x);
	std::printf("isPowerOfTwoV/v3 %d %x %llx = %x\n", sg, w, pat(x), (unsigned)glm::isPowerOfTwo(v3).z);
	std::printf("ceilPowerOfTwo/v4 %d %x %llx = %llx\n", sg, w, pat(x), pat(glm::ceilPowerOfTwo(v4).w));
	std::printf("ceilPowerOfTwo/nextv3 %d %x %llx = %llx\n", sg, w, pat(x), pat(glm::nextPowerOfTwo(v3).z));
	std::printf("floorPowerOfTwo/v3 %d %x %llx = %llx\n", sg, w, pat(x), pat(glm::floorPowerOfTwo(v3).z));
	std::printf("floorPowerOfTwo/prevv4 %d %x %llx = %llx\n", sg, w, pat(x), pat(glm::prevPowerOfTwo(v4).w));
	std::printf("roundPowerOfTwo/v4 %d %x %llx = %llx\n", sg, w, pat(x), pat(glm::roundPowerOfTwo(v4).w));
	if (!sg || x >= 0) std::printf("mask %d %x %llx = %llx\n", sg, w, pat(x), pat((T)glm::mask(x)));
}
template<class T> static void nsb(T x, int n) {
	int sg = std::is_signed<T>::value, w = (int)sizeof(T) * 8;
	std::printf("findNSB %d %x %llx %x = %x\n", sg, w, pat(x), ipat(n), ipat(glm::findNSB(x, n)));
	glm::vec<2, T> v2((T)3, x); std::printf("findNSB/v2 %d %x %llx %x = %x\n", sg, w, pat(x), ipat(n), ipat(glm::findNSB(v2, glm::ivec2(1, n)).y));
}
template<class T> static void mult(T x, T m) {     // m > 0
	int sg = std::is_signed<T>::value, w = (int)sizeof(T) * 8;
	std::printf("ceilMultiple %d %x %llx %llx = %llx\n", sg, w, pat(x), pat(m), pat((T)glm::ceilMultiple(x, m)));
	std::printf("ceilMultiple/next %d %x %llx %llx = %llx\n", sg, w, pat(x), pat(m), pat((T)glm::nextMultiple(x, m)));
	std::printf("floorMultiple %d %x %llx %llx = %llx\n", sg, w, pat(x), pat(m), pat((T)glm::floorMultiple(x, m)));
	std::printf("floorMultiple/prev %d %x %llx %llx = %llx\n", sg, w, pat(x), pat(m), pat((T)glm::prevMultiple(x, m)));
	std::printf("roundMultiple %d %x %llx %llx = %llx\n", sg, w, pat(x), pat(m), pat((T)glm::roundMultiple(x, m)));
	std::printf("isMultiple %d %x %llx %llx = %x\n", sg, w, pat(x), pat(m), (unsigned)glm::isMultiple(x, m));
	glm::vec<3, T> a((T)3, x, (T)9), b((T)1, m, (T)2);
	std::printf("ceilMultiple/v3 %d %x %llx %llx = %llx\n", sg, w, pat(x), pat(m), pat(glm::ceilMultiple(a, b).y));
	std::printf("ceilMultiple/nextv3s %d %x %llx %llx = %llx\n", sg, w, pat(x), pat(m), pat(glm::nextMultiple(a, m).y));
	std::printf("floorMultiple/v3 %d %x %llx %llx = %llx\n", sg, w, pat(x), pat(m), pat(glm::floorMultiple(a, b).y));
	std::printf("floorMultiple/prevv3 %d %x %llx %llx = %llx\n", sg, w, pat(x), pat(m), pat(glm::prevMultiple(a, b).y));
	std::printf("roundMultiple/v3 %d %x %llx %llx = %llx\n", sg, w, pat(x), pat(m), pat(glm::roundMultiple(a, b).y));
	std::printf("isMultiple/v3 %d %x %llx %llx = %x\n", sg, w, pat(x), pat(m), (unsigned)glm::isMultiple(a, b).y);
	std::printf("isMultiple/v3s %d %x %llx %llx = %x\n", sg, w, pat(x), pat(m), (unsigned)glm::isMultiple(a, m).y);
}
template<class T> static void rot(T x, int s) {    // 0 < s < w
	int sg = std::is_signed<T>::value, w = (int)sizeof(T) * 8;
	std::printf("bitfieldRotateRight %d %x %llx %x = %llx\n", sg, w, pat(x), ipat(s), pat((T)glm::bitfieldRotateRight(x, s)));
	std::printf("bitfieldRotateLeft %d %x %llx %x = %llx\n", sg, w, pat(x), ipat(s), pat((T)glm::bitfieldRotateLeft(x, s)));
	glm::vec<2, T> v2(x, (T)1);
	std::printf("bitfieldRotateRight/v2 %d %x %llx %x = %llx\n", sg, w, pat(x), ipat(s), pat(glm::bitfieldRotateRight(v2, s).x));
	std::printf("bitfieldRotateLeft/v2 %d %x %llx %x = %llx\n", sg, w, pat(x), ipat(s), pat(glm::bitfieldRotateLeft(v2, s).x));
}
template<class T> static void fill(T x, int f, int c) {    // f + c <= 32, f <= 31
	int sg = std::is_signed<T>::value, w = (int)sizeof(T) * 8;
	std::printf("bitfieldFillOne %d %x %llx %x %x = %llx\n", sg, w, pat(x), ipat(f), ipat(c), pat((T)glm::bitfieldFillOne(x, f, c)));
	std::printf("bitfieldFillZero %d %x %llx %x %x = %llx\n", sg, w, pat(x), ipat(f), ipat(c), pat((T)glm::bitfieldFillZero(x, f, c)));
	glm::vec<2, T> v2(x, (T)1);
	std::printf("bitfieldFillOne/v2 %d %x %llx %x %x = %llx\n", sg, w, pat(x), ipat(f), ipat(c), pat(glm::bitfieldFillOne(v2, f, c).x));
	std::printf("bitfieldFillZero/v2 %d %x %llx %x %x = %llx\n", sg, w, pat(x), ipat(f), ipat(c), pat(glm::bitfieldFillZero(v2, f, c).x));
}
template<class T> static void run_type(int n, bool exhaustive) {
	typedef typename std::make_unsigned<T>::type U; int w = (int)sizeof(T) * 8; bool sg = std::is_signed<T>::value;
	if (exhaustive) for (long long i = 0; i < (1ll << w); ++i) unary<T>((T)(U)i);
	else for (int i = 0; i < n; ++i) unary<T>(special<T>(i));
	for (int i = 0; i < n; ++i) {
		T x = exhaustive ? (T)(U)(i % (1 << (w < 30 ? w : 30))) : special<T>(i);
		nsb<T>(x, (int)(rnd() % (w + 2)));
		T m = special<T>(i + 3); if (i % 3 == 0) m = (T)(1 + rnd() % 17); if (i % 10 == 1) m = (T)1;
		if (sg) { if (m < 0) m = (T)~m; } if (m == 0) m = (T)3;
		// the most negative value is skipped for signed ceil/isMultiple on 32/64 bits only through -fwrapv semantics; kept
		mult<T>(x, m);
		rot<T>(x, 1 + (int)(rnd() % (w - 1)));
		int f = (int)(rnd() % 32), c = (int)(rnd() % (33 - f)); if (i % 5 == 0) { f = (int)(rnd() % w); c = (int)(rnd() % (w - f + 1)); if (f + c > 32) c = 32 - f; if (f > 31) { f = 31; c = 1; } }
		fill<T>(x, f, c);
		std::printf("factorial %d %x %llx = %llx\n", (int)sg, w, pat((T)(i % 23)), pat(glm::factorial((T)(i % 23))));
	}
}
template<class F> static void fmult(int n, const char* tag) {
	for (int i = 0; i < n; ++i) {
		int e = (int)(rnd() % 6); int one = 1 << e;
		int s = (int)(rnd() % 2000001) - 1000000; if (i % 4 == 0) s = (int)(rnd() % 401) - 200; int m = 1 + (int)(rnd() % 4000); if (i % 3 == 0) m = 1 + (int)(rnd() % 12);
		if (i % 5 == 0) s = m * ((int)(rnd() % 41) - 20);        // exact multiples
		F S = (F)s / (F)one, M = (F)m / (F)one;
		std::printf("f_ceilMultiple/%s %x %x = %x\n", tag, ipat(s), ipat(m), ipat((int)std::lrint((double)(glm::ceilMultiple(S, M) * (F)one))));
		std::printf("f_floorMultiple/%s %x %x = %x\n", tag, ipat(s), ipat(m), ipat((int)std::lrint((double)(glm::floorMultiple(S, M) * (F)one))));
		std::printf("f_roundMultiple/%s %x %x %x = %x\n", tag, ipat(s), ipat(m), ipat(one), ipat((int)std::lrint((double)(glm::roundMultiple(S, M) * (F)one))));
		glm::vec<2, F> a(S, (F)1), b(M, (F)2);
		std::printf("f_ceilMultiple/%sv2 %x %x = %x\n", tag, ipat(s), ipat(m), ipat((int)std::lrint((double)(glm::ceilMultiple(a, b).x * (F)one))));
		std::printf("f_floorMultiple/%sv2 %x %x = %x\n", tag, ipat(s), ipat(m), ipat((int)std::lrint((double)(glm::floorMultiple(a, b).x * (F)one))));
	}
}
int main(int argc, char** argv) {
	st = argc > 1 ? std::strtoull(argv[1], 0, 10) : 1; bool thorough = argc > 2 && std::string(argv[2]) == "thorough"; int n = thorough ? 100000 : 1500;
	run_type<glm::uint8>(n, true); run_type<glm::int8>(n, true); run_type<glm::uint16>(n, thorough); run_type<glm::int16>(n, thorough);
	run_type<glm::uint32>(n, false); run_type<glm::int32>(n, false); run_type<glm::uint64>(n, false); run_type<glm::int64>(n, false);
	fmult<float>(n, "f32"); fmult<double>(n, "f64");
	for (int i = 0; i < n; ++i) {
		unsigned ux = special<unsigned>(i); int ix = (int)ux; unsigned y = (unsigned)(rnd() % 34); if (i % 4 == 0) { ux = (unsigned)(rnd() % 12); ix = (int)(rnd() % 23) - 11; }
		std::printf("pow_int %x %x = %x\n", ipat(ix), y, ipat(glm::pow(ix, y))); std::printf("pow_uint %x %x = %x\n", ux, y, glm::pow(ux, y));
		int sx = ix < 0 ? ~ix : ix; if (i % 3 == 0) sx = (int)(rnd() % 70000);
		std::printf("sqrt_int %x = %x\n", ipat(sx), ipat(glm::sqrt(sx))); std::printf("sqrt_uint %x = %x\n", ux, glm::sqrt(ux));
		int my = 1 + (int)(rnd() % 1000); if (i % 3 == 0) my = 1 + (int)(rnd() % 0x3fffffff); if (i % 7 == 0) my = -my;
		if (!(ix == INT32_MIN && my == -1)) std::printf("mod_int %x %x = %x\n", ipat(ix), ipat(my), ipat(glm::mod(ix, my)));
		unsigned uy = 1u + (unsigned)(rnd() % (i % 2 ? 1000u : 0xffffffffu)); std::printf("mod_uint %x %x = %x\n", ux, uy, glm::mod(ux, uy));
		std::printf("nlz %x = %x\n", ux, glm::nlz(ux));
	}
	return 0;
}
