(* corr_driver.ml -- model side of the correspondence check.  Reads lines
     <fn> <hex arg> ... = <hex out> ...
   produced by the implementation drivers (tools/corr/impl_*.cpp, real GLM code), evaluates the extracted Coq model
   of <fn> on the same arguments and reports every disagreement.  Values are unsigned 64-bit patterns in hex. *)
open Models

let rec pos_of_int64 (n : int64) : positive =          (* n > 0, unsigned *)
  if Int64.equal n 1L then XH
  else let q = Int64.shift_right_logical n 1 in
       if Int64.equal (Int64.logand n 1L) 1L then XI (pos_of_int64 q) else XO (pos_of_int64 q)
let z_of_u64 (n : int64) : z = if Int64.equal n 0L then Z0 else Zpos (pos_of_int64 n)
let rec int64_of_pos (p : positive) : int64 = match p with
  | XH -> 1L | XO q -> Int64.shift_left (int64_of_pos q) 1 | XI q -> Int64.logor (Int64.shift_left (int64_of_pos q) 1) 1L
let u64_of_z (x : z) : int64 = match x with Z0 -> 0L | Zpos p -> int64_of_pos p | Zneg p -> Int64.neg (int64_of_pos p)
let parse_hex s = Int64.of_string ("0x" ^ s)   (* accepts up to 16 hex digits; the bit pattern is what matters *)
let hex (n : int64) = Printf.sprintf "%Lx" n

(* dispatch: function name -> (z list -> z list) *)
let table : (string, z list -> z list) Hashtbl.t = Hashtbl.create 64
let reg n f = Hashtbl.replace table n f
let () =
  reg "toFloat32" (function [h] -> [toFloat32 h] | _ -> failwith "arity");
  reg "toFloat16" (function [a] -> [toFloat16 a] | _ -> failwith "arity");
  reg "packHalf1x16" (function [a] -> [toFloat16 a] | _ -> failwith "arity");
  reg "unpackHalf1x16" (function [h] -> [toFloat32 h] | _ -> failwith "arity");
  reg "packHalf2x16" (function [a; b] -> [packHalf2x16 a b] | _ -> failwith "arity");
  reg "unpackHalf2x16" (function [p] -> unpackHalf2x16 p | _ -> failwith "arity");
  reg "packHalf4x16" (function [a; b; c; d] -> [packHalf4x16 a b c d] | _ -> failwith "arity");
  reg "unpackHalf4x16" (function [p] -> unpackHalf4x16 p | _ -> failwith "arity");
  reg "packHalfL" (fun l -> packHalfL l);
  reg "unpackHalfL" (fun l -> unpackHalfL l);
  (* C05: arguments are  sg (0/1)  w  then the operands as w-bit patterns; results are patterns *)
  let b z = (match z with Z0 -> false | _ -> true) in
  let w32 = z_of_u64 32L in
  reg "bitfieldReverse" (function [sg; w; x] -> [umod w (bitfieldReverse (b sg) w (norm (b sg) w x))] | _ -> failwith "arity");
  reg "bitCount" (function [sg; w; x] -> [umod w32 (bitCount (b sg) w (norm (b sg) w x))] | _ -> failwith "arity");
  reg "findLSB" (function [sg; w; x] -> [umod w32 (findLSB (b sg) w (norm (b sg) w x))] | _ -> failwith "arity");
  reg "findMSB" (function [sg; w; x] -> [umod w32 (findMSB (b sg) w (norm (b sg) w x))] | _ -> failwith "arity");
  reg "bitfieldExtract" (function [sg; w; x; o; n] -> [umod w (bitfieldExtract (b sg) w (norm (b sg) w x) o n)] | _ -> failwith "arity");
  reg "bitfieldInsert" (function [sg; w; x; y; o; n] -> [umod w (bitfieldInsert (b sg) w (norm (b sg) w x) (norm (b sg) w y) o n)] | _ -> failwith "arity");
  reg "uaddCarry" (function [x; y] -> let (r, c) = uaddCarry x y in [r; c] | _ -> failwith "arity");
  reg "usubBorrow" (function [x; y] -> let (r, c) = usubBorrow x y in [r; c] | _ -> failwith "arity");
  reg "umulExtended" (function [x; y] -> let (m, l) = umulExtended x y in [m; l] | _ -> failwith "arity");
  reg "imulExtended" (function [x; y] -> let (m, l) = imulExtended (norm true w32 x) (norm true w32 y) in [umod w32 m; umod w32 l] | _ -> failwith "arity")
  ;
  (* C18: arguments are  sg (0/1)  w  then the operands as w-bit patterns (counts / shifts as 32-bit int patterns); results are patterns *)
  let i32 z = norm true w32 z in
  let bz v = if v then z_of_u64 1L else Z0 in
  let un name f = reg name (function [sg; w; x] -> [umod w (f (b sg) w (norm (b sg) w x))] | _ -> failwith "arity") in
  reg "isPowerOfTwo" (function [sg; w; x] -> [bz (isPowerOfTwo (b sg) w (norm (b sg) w x))] | _ -> failwith "arity");
  reg "isPowerOfTwoV" (function [sg; w; x] -> [bz (isPowerOfTwoV (b sg) w (norm (b sg) w x))] | _ -> failwith "arity");
  un "ceilPowerOfTwo" ceilPowerOfTwo; un "floorPowerOfTwo" floorPowerOfTwo; un "roundPowerOfTwo" roundPowerOfTwo;
  un "lowestBitValue" lowestBitValue; un "highestBitValue" highestBitValue; un "powerOfTwoAbove" powerOfTwoAbove;
  un "powerOfTwoBelow" powerOfTwoBelow; un "powerOfTwoNearest" powerOfTwoNearest;
  let bin name f = reg name (function [sg; w; x; y] -> [umod w (f (b sg) w (norm (b sg) w x) (norm (b sg) w y))] | _ -> failwith "arity") in
  bin "ceilMultiple" ceilMultiple; bin "floorMultiple" floorMultiple; bin "roundMultiple" roundMultiple;
  reg "isMultiple" (function [sg; w; x; y] -> [bz (isMultiple (b sg) w (norm (b sg) w x) (norm (b sg) w y))] | _ -> failwith "arity");
  reg "findNSB" (function [sg; w; x; n] -> [umod w32 (findNSB (b sg) w (norm (b sg) w x) (i32 n))] | _ -> failwith "arity");
  reg "mask" (function [sg; w; x] -> [umod w (mask0 (b sg) w (norm (b sg) w x))] | _ -> failwith "arity");
  reg "bitfieldRotateRight" (function [sg; w; x; s] -> [umod w (bitfieldRotateRight (b sg) w (norm (b sg) w x) (i32 s))] | _ -> failwith "arity");
  reg "bitfieldRotateLeft" (function [sg; w; x; s] -> [umod w (bitfieldRotateLeft (b sg) w (norm (b sg) w x) (i32 s))] | _ -> failwith "arity");
  reg "bitfieldFillOne" (function [sg; w; x; f; c] -> [umod w (bitfieldFillOne (b sg) w (norm (b sg) w x) (i32 f) (i32 c))] | _ -> failwith "arity");
  reg "bitfieldFillZero" (function [sg; w; x; f; c] -> [umod w (bitfieldFillZero (b sg) w (norm (b sg) w x) (i32 f) (i32 c))] | _ -> failwith "arity");
  (* floating multiples on a dyadic grid: s, m are int32 patterns of the scaled integers, `one` the scaled 1 *)
  reg "f_ceilMultiple" (function [s; m] -> [umod w32 (f_ceilMultiple (i32 s) (i32 m))] | _ -> failwith "arity");
  reg "f_floorMultiple" (function [s; m] -> [umod w32 (f_floorMultiple (i32 s) (i32 m))] | _ -> failwith "arity");
  reg "f_roundMultiple" (function [s; m; o] -> [umod w32 (f_roundMultiple (i32 s) (i32 m) (i32 o))] | _ -> failwith "arity");
  reg "pow_int" (function [x; y] -> [umod w32 (pow_int (i32 x) y)] | _ -> failwith "arity");
  reg "pow_uint" (function [x; y] -> [umod w32 (pow_uint x y)] | _ -> failwith "arity");
  reg "sqrt_int" (function [x] -> [umod w32 (sqrt_int (i32 x))] | _ -> failwith "arity");
  reg "sqrt_uint" (function [x] -> [umod w32 (sqrt_uint x)] | _ -> failwith "arity");
  reg "mod_int" (function [x; y] -> [umod w32 (mod_int (i32 x) (i32 y))] | _ -> failwith "arity");
  reg "mod_uint" (function [x; y] -> [umod w32 (mod_uint x y)] | _ -> failwith "arity");
  reg "factorial" (function [sg; w; x] -> [umod w (factorial (b sg) w (norm (b sg) w x))] | _ -> failwith "arity");
  reg "nlz" (function [x] -> [umod w32 (nlz x)] | _ -> failwith "arity")
  ;
  (* C14: arguments are  mb  w  then patterns; counts are int patterns *)
  reg "nextafter" (function [mb; w; x; y] -> [nextafter mb w x y] | _ -> failwith "arity");
  reg "nextFloat" (function [mb; w; x] -> [nextFloat mb w x] | _ -> failwith "arity");
  reg "prevFloat" (function [mb; w; x] -> [prevFloat mb w x] | _ -> failwith "arity");
  reg "nextFloatN" (function [mb; w; x; n] -> [nextFloatN mb w x (i32 n)] | _ -> failwith "arity");
  reg "prevFloatN" (function [mb; w; x; n] -> [prevFloatN mb w x (i32 n)] | _ -> failwith "arity");
  reg "floatDistance" (function [mb; w; x; y] -> [umod w (floatDistance w x y)] | _ -> failwith "arity");
  reg "equalULP_scalar" (function [mb; w; x; y; n] -> [bz (equalULP_scalar w x y (i32 n))] | _ -> failwith "arity");
  reg "equalULP_vec" (function [mb; w; x; y; n] -> [bz (equalULP_vec w x y (i32 n))] | _ -> failwith "arity")
  ;
  (* C06: normalised formats by name; floats are 32-bit patterns *)
  List.iter (fun (nm, fs) ->
      reg ("pack_" ^ nm) (fun xs -> [pack_word fs xs]);
      reg ("unpack_" ^ nm) (function [p] -> unpack_word fs p | _ -> failwith "arity"))
    [("unorm2x16", fmt_unorm2x16); ("snorm2x16", fmt_snorm2x16); ("unorm4x8", fmt_unorm4x8); ("snorm4x8", fmt_snorm4x8); ("unorm1x8", fmt_unorm1x8); ("unorm2x8", fmt_unorm2x8);
     ("snorm1x8", fmt_snorm1x8); ("snorm2x8", fmt_snorm2x8); ("unorm1x16", fmt_unorm1x16); ("unorm4x16", fmt_unorm4x16); ("snorm1x16", fmt_snorm1x16); ("snorm4x16", fmt_snorm4x16);
     ("snorm3x10_1x2", fmt_snorm3x10_1x2); ("unorm3x10_1x2", fmt_unorm3x10_1x2); ("unorm2x4", fmt_unorm2x4); ("unorm4x4", fmt_unorm4x4); ("unorm1x5_1x6_1x5", fmt_unorm1x5_1x6_1x5);
     ("unorm3x5_1x1", fmt_unorm3x5_1x1); ("unorm2x3_1x2", fmt_unorm2x3_1x2); ("tunorm8", fmt_tunorm8); ("tunorm16", fmt_tunorm16); ("tsnorm8", fmt_tsnorm8); ("tsnorm16", fmt_tsnorm16)];
  (* integer formats:  sg n b1..bn then values (pack) / the word (unpack); values and results are patterns *)
  let rec take n l = if n = 0 then ([], l) else (match l with x :: r -> let (a, b) = take (n - 1) r in (x :: a, b) | [] -> failwith "arity") in
  let int_of_z z = Int64.to_int (u64_of_z z) in
  reg "pack_ints" (function _sg :: n :: rest -> let (bs, xs) = take (int_of_z n) rest in [pack_ints bs xs] | _ -> failwith "arity");
  reg "unpack_ints" (function sg :: n :: rest -> let (bs, ps) = take (int_of_z n) rest in (match ps with [p] -> List.map2 (fun bb v -> umod bb v) bs (unpack_ints (b sg) bs p) | _ -> failwith "arity") | _ -> failwith "arity");
  reg "packF2x11_1x10" (function [x; y; z] -> [packF2x11_1x10 x y z] | _ -> failwith "arity");
  reg "unpackF2x11_1x10" (function [v] -> unpackF2x11_1x10 v | _ -> failwith "arity")
  ;
  (* C11: roundEven mb w pattern = integer result as a 64-bit pattern;  iround / uround pattern (binary32) *)
  let w64 = z_of_u64 64L in
  reg "roundEven" (function [mb; w; p] -> let (n, d) = ratio_of_bits mb w p in [umod w64 (roundEven n d)] | _ -> failwith "arity");
  reg "iround" (function [mb; w; p] -> [umod w64 (iround mb w p)] | _ -> failwith "arity")





let () =
  let counts : (string, int * int) Hashtbl.t = Hashtbl.create 64 in
  let shown = ref 0 in
  (try while true do
    let line = input_line stdin in
    match String.split_on_char ' ' (String.trim line) |> List.filter (fun s -> s <> "") with
    | [] -> ()
    | fn :: rest ->
      let rec split acc = function "=" :: outs -> (List.rev acc, outs) | x :: r -> split (x :: acc) r | [] -> (List.rev acc, []) in
      let (args, outs) = split [] rest in
      let key = (match String.index_opt fn '/' with Some i -> String.sub fn 0 i | None -> fn) in   (* fn/tag: tag is ignored *)
      (match Hashtbl.find_opt table key with
       | None -> Printf.printf "UNKNOWN %s\n" fn
       | Some f ->
         let m = (try List.map (fun z -> hex (u64_of_z z)) (f (List.map (fun s -> z_of_u64 (parse_hex s)) args)) with _ -> ["exception"]) in
         let (n, bad) = (match Hashtbl.find_opt counts key with Some c -> c | None -> (0, 0)) in
         let ok = (m = List.map String.lowercase_ascii outs) in
         Hashtbl.replace counts key (n + 1, if ok then bad else bad + 1);
         if (not ok) && !shown < 40 then begin incr shown;
           Printf.printf "MISMATCH fn=%s args=%s impl=%s model=%s\n" fn (String.concat "," args) (String.concat "," outs) (String.concat "," m) end)
  done with End_of_file -> ());
  Hashtbl.iter (fun k (n, bad) -> Printf.printf "CORR fn=%s cases=%d mismatches=%d\n" k n bad) counts
