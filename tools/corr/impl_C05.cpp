// impl_C05.cpp -- implementation side of the C05 correspondence: GLSL integer/bitfield functions of glm/integer.hpp on
// every element width and signedness, scalar and vector overloads.  Lines:  fn sg w operands... = results (hex patterns).
#include <glm/glm.hpp>
#include <glm/gtc/type_precision.hpp>
#include <cstdio>
#include <cstdint>
#include <cstdlib>
#include <string>
#include <type_traits>
static uint64_t st;
static uint64_t rnd() { uint64_t z = (st += 0x9E3779B97F4A7C15ull); z = (z ^ (z >> 30)) * 0xBF58476D1CE4E5B9ull; z = (z ^ (z >> 27)) * 0x94D049BB133111EBull; return z ^ (z >> 31); }
template<class T> static unsigned long long pat(T v) { typedef typename std::make_unsigned<T>::type U; return (unsigned long long)(U)v; }
static unsigned ipat(int v) { return (unsigned)v; }
template<class T> static void unary(T x) {
	int sg = std::is_signed<T>::value, w = (int)sizeof(T) * 8;
	std::printf("bitCount %d %x %llx = %x\n", sg, w, pat(x), ipat(glm::bitCount(x)));
	std::printf("findLSB %d %x %llx = %x\n", sg, w, pat(x), ipat(glm::findLSB(x)));
	std::printf("findMSB %d %x %llx = %x\n", sg, w, pat(x), ipat(glm::findMSB(x)));
	std::printf("bitfieldReverse %d %x %llx = %llx\n", sg, w, pat(x), pat(glm::bitfieldReverse(x)));
	// vector overloads: lane 2 of a vec3 / lane 3 of a vec4 carry x
	glm::vec<3, T> v3((T)1, (T)(x ^ (T)5), x); glm::vec<4, T> v4((T)7, (T)0, (T)~x, x);
	std::printf("bitCount/v3 %d %x %llx = %x\n", sg, w, pat(x), ipat(glm::bitCount(v3).z)); std::printf("findLSB/v4 %d %x %llx = %x\n", sg, w, pat(x), ipat(glm::findLSB(v4).w));
	std::printf("findMSB/v4 %d %x %llx = %x\n", sg, w, pat(x), ipat(glm::findMSB(v4).w)); std::printf("bitfieldReverse/v3 %d %x %llx = %llx\n", sg, w, pat(x), pat(glm::bitfieldReverse(v3).z));
}
template<class T> static void fields(T x, T y, int off, int bits) {
	int sg = std::is_signed<T>::value, w = (int)sizeof(T) * 8;
	std::printf("bitfieldExtract %d %x %llx %x %x = %llx\n", sg, w, pat(x), off, bits, pat(glm::bitfieldExtract(x, off, bits)));
	glm::vec<2, T> v2(y, x); std::printf("bitfieldExtract/v2 %d %x %llx %x %x = %llx\n", sg, w, pat(x), off, bits, pat(glm::bitfieldExtract(v2, off, bits).y));
}
template<class T> static void insert(T x, T y, int off, int bits) {
	int sg = std::is_signed<T>::value, w = (int)sizeof(T) * 8;
	std::printf("bitfieldInsert %d %x %llx %llx %x %x = %llx\n", sg, w, pat(x), pat(y), off, bits, pat(glm::bitfieldInsert(x, y, off, bits)));
	glm::vec<3, T> a((T)3, x, (T)9), b((T)1, y, (T)2); std::printf("bitfieldInsert/v3 %d %x %llx %llx %x %x = %llx\n", sg, w, pat(x), pat(y), off, bits, pat(glm::bitfieldInsert(a, b, off, bits).y));
}
template<class T> static T special(int i) { typedef typename std::make_unsigned<T>::type U; int w = sizeof(T) * 8; U v;
	switch (i % 12) { case 0: v = 0; break; case 1: v = (U)~(U)0; break; case 2: v = (U)1 << (rnd() % w); break; case 3: v = (U)~((U)1 << (rnd() % w)); break; case 4: { int a = rnd() % w, b = rnd() % w; if (a > b) std::swap(a, b); v = (U)((((U)~(U)0) >> (w - 1 - (b - a))) << a); break; }
	case 5: v = (U)((U)1 << (w - 1)); break; case 6: v = (U)(((U)1 << (w - 1)) - 1); break; case 7: v = (U)0x5555555555555555ull; break; case 8: v = (U)0xAAAAAAAAAAAAAAAAull; break; case 9: v = (U)(rnd() & 0xff); break; default: v = (U)rnd(); }
	return (T)v; }
template<class T> static void run_type(int n, bool exhaustive) {
	int w = (int)sizeof(T) * 8;
	if (exhaustive) for (long long i = 0; i < (1ll << w); ++i) unary<T>((T)(typename std::make_unsigned<T>::type)i);
	else for (int i = 0; i < n; ++i) unary<T>(special<T>(i));
	for (int i = 0; i < n; ++i) { T x = special<T>(i), y = special<T>(i + 5); int off = (int)(rnd() % (w + 1)); int bits = (int)(rnd() % (w - off + 1)); if (i % 7 == 0) bits = 0; if (i % 11 == 0) { off = 0; bits = w; }
		if (off < w) fields<T>(x, y, off, bits); }
}
template<class T> static void run_insert(int n) { int w = (int)sizeof(T) * 8; for (int i = 0; i < n; ++i) { T x = special<T>(i), y = special<T>(i + 5); int off = (int)(rnd() % (w + 1)); int bits = (int)(rnd() % (w - off + 1)); if (i % 7 == 0) bits = 0; if (i % 11 == 0) { off = 0; bits = w; } if (off < w) insert<T>(x, y, off, bits); } }
int main(int argc, char** argv) {
	st = argc > 1 ? std::strtoull(argv[1], 0, 10) : 1; bool thorough = argc > 2 && std::string(argv[2]) == "thorough"; int n = thorough ? 200000 : 2500;
	run_type<glm::uint8>(n, true); run_type<glm::int8>(n, true); run_type<glm::uint16>(n, thorough); run_type<glm::int16>(n, thorough);
	run_type<glm::uint32>(n, false); run_type<glm::int32>(n, false); run_type<glm::uint64>(n, false); run_type<glm::int64>(n, false);
	run_insert<glm::uint32>(n); run_insert<glm::int32>(n); run_insert<glm::uint64>(n); run_insert<glm::int64>(n);
	for (int i = 0; i < n; ++i) { glm::uint x = special<glm::uint>(i), y = special<glm::uint>(i + 3); if (i % 5 == 0) y = x; if (i % 9 == 0) y = x + 1;
		glm::uint c, r = glm::uaddCarry(x, y, c); std::printf("uaddCarry %x %x = %x %x\n", x, y, r, c); r = glm::usubBorrow(x, y, c); std::printf("usubBorrow %x %x = %x %x\n", x, y, r, c);
		glm::uint m, l; glm::umulExtended(x, y, m, l); std::printf("umulExtended %x %x = %x %x\n", x, y, m, l); int im, il; glm::imulExtended((int)x, (int)y, im, il); std::printf("imulExtended %x %x = %x %x\n", x, y, (unsigned)im, (unsigned)il);
		glm::uvec3 vx(1u, x, 5u), vy(2u, y, 7u), vc, vr = glm::uaddCarry(vx, vy, vc); std::printf("uaddCarry/v3 %x %x = %x %x\n", x, y, vr.y, vc.y); vr = glm::usubBorrow(vx, vy, vc); std::printf("usubBorrow/v3 %x %x = %x %x\n", x, y, vr.y, vc.y);
		glm::uvec3 vm, vl; glm::umulExtended(vx, vy, vm, vl); std::printf("umulExtended/v3 %x %x = %x %x\n", x, y, vm.y, vl.y); glm::ivec3 ix(1, (int)x, 5), iy(2, (int)y, 7), ivm, ivl; glm::imulExtended(ix, iy, ivm, ivl); std::printf("imulExtended/v3 %x %x = %x %x\n", x, y, (unsigned)ivm.y, (unsigned)ivl.y); }
	return 0;
}
