// impl_C11.cpp -- implementation side of the C11 correspondence for the functions modelled by hand (the rest is traced):
// roundEven (float, double; scalar and vector), iround / uround (float).  Lines:  fn args = result   (hex patterns).
#include <glm/glm.hpp>
#include <glm/ext/scalar_common.hpp>
#include <glm/ext/vector_common.hpp>
#include <cstdio>
#include <cstdint>
#include <cstdlib>
#include <cstring>
#include <cmath>
#include <string>
static uint64_t st;
static uint64_t rnd() { uint64_t z = (st += 0x9E3779B97F4A7C15ull); z = (z ^ (z >> 30)) * 0xBF58476D1CE4E5B9ull; z = (z ^ (z >> 27)) * 0x94D049BB133111EBull; return z ^ (z >> 31); }
static uint32_t fb(float f) { uint32_t u; std::memcpy(&u, &f, 4); return u; }
static uint64_t db(double f) { uint64_t u; std::memcpy(&u, &f, 8); return u; }
typedef unsigned long long ull;
static double pick(int i, double lim) {
	double k = (double)(int64_t)(rnd() % (uint64_t)lim); double s = (rnd() & 1) ? -1.0 : 1.0;
	switch (i % 8) { case 0: return s * (k + 0.5); case 1: return s * k; case 2: return s * std::nextafter(k + 0.5, 0.0); case 3: return s * std::nextafter(k + 0.5, 1e300); case 4: return s * (double)(rnd() % 64) / 8.0;
	case 5: return s * std::ldexp(1.0 + (double)(rnd() % 1000) / 1000.0, -(int)(rnd() % 40)); case 6: return s * 0.0; default: return s * (k + (double)(rnd() >> 11) / 9007199254740992.0); } }
int main(int argc, char** argv)
{
	st = argc > 1 ? std::strtoull(argv[1], 0, 10) : 1; bool thorough = argc > 2 && std::string(argv[2]) == "thorough"; int n = thorough ? 400000 : 8000;
	for (int i = 0; i < n; ++i) {
		float x = (float)pick(i, i % 3 ? 4096.0 : 2147483000.0 / 2); if (std::fabs(x) >= 2147483520.0f) x = 1.5f;
		std::printf("roundEven 17 20 %x = %llx\n", fb(x), (ull)(int64_t)glm::roundEven(x));
		glm::vec3 v(1.f, x, 2.5f); std::printf("roundEven/v3 17 20 %x = %llx\n", fb(x), (ull)(int64_t)glm::roundEven(v).y);
		double d = pick(i, i % 3 ? 4096.0 : 2147483000.0); std::printf("roundEven/f64 34 40 %llx = %llx\n", (ull)db(d), (ull)(int64_t)glm::roundEven(d));
		float p = std::fabs((float)pick(i, i % 3 ? 4096.0 : 16777216.0 * 8)); if (i % 11 == 0) p = std::nextafter(0.5f, 0.f); if (i % 13 == 0) p = 8388609.0f + 2.0f * (float)(rnd() % 1000);
		if (p < 2147483000.0f) { std::printf("iround 17 20 %x = %llx\n", fb(p), (ull)(int64_t)glm::iround(p)); std::printf("iround/u 17 20 %x = %llx\n", fb(p), (ull)(int64_t)glm::uround(p));
			glm::vec2 pv(p, 1.f); std::printf("iround/v2 17 20 %x = %llx\n", fb(p), (ull)(int64_t)glm::iround(pv).x); std::printf("iround/uv2 17 20 %x = %llx\n", fb(p), (ull)(int64_t)glm::uround(pv).x);
			double pd = (double)p + (double)(rnd() % 1000) / 4096.0; std::printf("iround/f64 34 40 %llx = %llx\n", (ull)db(pd), (ull)(int64_t)glm::iround(pd)); }
		// uround up to 2^32: binary32 values in [2^31, 2^32) are multiples of 256; doubles there carry a fraction
		if (i % 5 == 0) { float pu = 2147483648.0f + 256.0f * (float)(rnd() % 8388607); std::printf("iround/u 17 20 %x = %llx\n", fb(pu), (ull)(int64_t)glm::uround(pu)); glm::vec2 pv(pu, 1.f); std::printf("iround/uv2 17 20 %x = %llx\n", fb(pu), (ull)(int64_t)glm::uround(pv).x);
			double du = 2147483648.0 + (double)(rnd() % 2147483000u) + (double)(rnd() % 4096) / 4096.0; std::printf("iround/uf64 34 40 %llx = %llx\n", (ull)db(du), (ull)(int64_t)glm::uround(du)); glm::dvec2 dv(du, 1.0); std::printf("iround/udv2 34 40 %llx = %llx\n", (ull)db(du), (ull)(int64_t)glm::uround(dv).x); }
	}
	return 0;
}
