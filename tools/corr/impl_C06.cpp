// impl_C06.cpp -- implementation side of the C06 correspondence: every normalised pack/unpack pair of glm/packing.hpp and
// glm/gtc/packing.hpp, the integer formats, packF2x11_1x10.  Floats travel as 32-bit patterns.
// unpack: every code of every field (other fields random; 16-bit multi-field formats: strided in the quick tier);
// pack: code centres, the rounding midpoints and their neighbours, range ends, out-of-range values, zeros, subnormals,
// infinities, random values.   Lines:  fn args... = results   (hex).
#define GLM_ENABLE_EXPERIMENTAL
#include <glm/glm.hpp>
#include <glm/packing.hpp>
#include <glm/gtc/packing.hpp>
#include <glm/gtc/type_precision.hpp>
#include <cstdio>
#include <cstdint>
#include <cstdlib>
#include <cstring>
#include <cmath>
#include <string>
#include <vector>
#include <functional>
static uint64_t st;
static uint64_t rnd() { uint64_t z = (st += 0x9E3779B97F4A7C15ull); z = (z ^ (z >> 30)) * 0xBF58476D1CE4E5B9ull; z = (z ^ (z >> 27)) * 0x94D049BB133111EBull; return z ^ (z >> 31); }
static uint32_t fb(float f) { uint32_t u; std::memcpy(&u, &f, 4); return u; }
static float bf(uint32_t u) { float f; std::memcpy(&f, &u, 4); return f; }
typedef unsigned long long ull;
struct Fmt { const char* name; std::vector<int> bits; std::vector<int> scale; bool sg; std::function<ull(const float*)> pack; std::function<void(ull, float*)> unpack; };
template<class V> static void store(V const& v, float* o) { for (int i = 0; i < (int)v.length(); ++i) o[i] = v[i]; }
static std::vector<Fmt> formats()
{
	using namespace glm; std::vector<Fmt> F;
	F.push_back({"unorm2x16", {16, 16}, {65535, 65535}, false, [](const float* x) { return (ull)packUnorm2x16(vec2(x[0], x[1])); }, [](ull p, float* o) { store(unpackUnorm2x16((uint)p), o); }});
	F.push_back({"snorm2x16", {16, 16}, {32767, 32767}, true, [](const float* x) { return (ull)packSnorm2x16(vec2(x[0], x[1])); }, [](ull p, float* o) { store(unpackSnorm2x16((uint)p), o); }});
	F.push_back({"unorm4x8", {8, 8, 8, 8}, {255, 255, 255, 255}, false, [](const float* x) { return (ull)packUnorm4x8(vec4(x[0], x[1], x[2], x[3])); }, [](ull p, float* o) { store(unpackUnorm4x8((uint)p), o); }});
	F.push_back({"snorm4x8", {8, 8, 8, 8}, {127, 127, 127, 127}, true, [](const float* x) { return (ull)packSnorm4x8(vec4(x[0], x[1], x[2], x[3])); }, [](ull p, float* o) { store(unpackSnorm4x8((uint)p), o); }});
	F.push_back({"unorm1x8", {8}, {255}, false, [](const float* x) { return (ull)packUnorm1x8(x[0]); }, [](ull p, float* o) { o[0] = unpackUnorm1x8((uint8)p); }});
	F.push_back({"unorm2x8", {8, 8}, {255, 255}, false, [](const float* x) { return (ull)packUnorm2x8(vec2(x[0], x[1])); }, [](ull p, float* o) { store(unpackUnorm2x8((uint16)p), o); }});
	F.push_back({"snorm1x8", {8}, {127}, true, [](const float* x) { return (ull)packSnorm1x8(x[0]); }, [](ull p, float* o) { o[0] = unpackSnorm1x8((uint8)p); }});
	F.push_back({"snorm2x8", {8, 8}, {127, 127}, true, [](const float* x) { return (ull)packSnorm2x8(vec2(x[0], x[1])); }, [](ull p, float* o) { store(unpackSnorm2x8((uint16)p), o); }});
	F.push_back({"unorm1x16", {16}, {65535}, false, [](const float* x) { return (ull)packUnorm1x16(x[0]); }, [](ull p, float* o) { o[0] = unpackUnorm1x16((uint16)p); }});
	F.push_back({"unorm4x16", {16, 16, 16, 16}, {65535, 65535, 65535, 65535}, false, [](const float* x) { return (ull)packUnorm4x16(vec4(x[0], x[1], x[2], x[3])); }, [](ull p, float* o) { store(unpackUnorm4x16((uint64)p), o); }});
	F.push_back({"snorm1x16", {16}, {32767}, true, [](const float* x) { return (ull)packSnorm1x16(x[0]); }, [](ull p, float* o) { o[0] = unpackSnorm1x16((uint16)p); }});
	F.push_back({"snorm4x16", {16, 16, 16, 16}, {32767, 32767, 32767, 32767}, true, [](const float* x) { return (ull)packSnorm4x16(vec4(x[0], x[1], x[2], x[3])); }, [](ull p, float* o) { store(unpackSnorm4x16((uint64)p), o); }});
	F.push_back({"snorm3x10_1x2", {10, 10, 10, 2}, {511, 511, 511, 1}, true, [](const float* x) { return (ull)packSnorm3x10_1x2(vec4(x[0], x[1], x[2], x[3])); }, [](ull p, float* o) { store(unpackSnorm3x10_1x2((uint32)p), o); }});
	F.push_back({"unorm3x10_1x2", {10, 10, 10, 2}, {1023, 1023, 1023, 3}, false, [](const float* x) { return (ull)packUnorm3x10_1x2(vec4(x[0], x[1], x[2], x[3])); }, [](ull p, float* o) { store(unpackUnorm3x10_1x2((uint32)p), o); }});
	F.push_back({"unorm2x4", {4, 4}, {15, 15}, false, [](const float* x) { return (ull)packUnorm2x4(vec2(x[0], x[1])); }, [](ull p, float* o) { store(unpackUnorm2x4((uint8)p), o); }});
	F.push_back({"unorm4x4", {4, 4, 4, 4}, {15, 15, 15, 15}, false, [](const float* x) { return (ull)packUnorm4x4(vec4(x[0], x[1], x[2], x[3])); }, [](ull p, float* o) { store(unpackUnorm4x4((uint16)p), o); }});
	F.push_back({"unorm1x5_1x6_1x5", {5, 6, 5}, {31, 63, 31}, false, [](const float* x) { return (ull)packUnorm1x5_1x6_1x5(vec3(x[0], x[1], x[2])); }, [](ull p, float* o) { store(unpackUnorm1x5_1x6_1x5((uint16)p), o); }});
	F.push_back({"unorm3x5_1x1", {5, 5, 5, 1}, {31, 31, 31, 1}, false, [](const float* x) { return (ull)packUnorm3x5_1x1(vec4(x[0], x[1], x[2], x[3])); }, [](ull p, float* o) { store(unpackUnorm3x5_1x1((uint16)p), o); }});
	F.push_back({"unorm2x3_1x2", {3, 3, 2}, {7, 7, 3}, false, [](const float* x) { return (ull)packUnorm2x3_1x2(vec3(x[0], x[1], x[2])); }, [](ull p, float* o) { store(unpackUnorm2x3_1x2((uint8)p), o); }});
	// the generic templates: lane 1 of a vec3 carries the operand
	F.push_back({"tunorm8", {8}, {255}, false, [](const float* x) { return (ull)packUnorm<uint8>(vec3(0.25f, x[0], 1.f)).y; }, [](ull p, float* o) { o[0] = unpackUnorm<float>(u8vec3(7, (uint8)p, 1)).y; }});
	F.push_back({"tunorm16", {16}, {65535}, false, [](const float* x) { return (ull)packUnorm<uint16>(vec3(0.25f, x[0], 1.f)).y; }, [](ull p, float* o) { o[0] = unpackUnorm<float>(u16vec3(7, (uint16)p, 1)).y; }});
	F.push_back({"tsnorm8", {8}, {127}, true, [](const float* x) { return (ull)(uint8)packSnorm<int8>(vec3(0.25f, x[0], 1.f)).y; }, [](ull p, float* o) { o[0] = unpackSnorm<float>(i8vec3(7, (int8)(uint8)p, 1)).y; }});
	F.push_back({"tsnorm16", {16}, {32767}, true, [](const float* x) { return (ull)(uint16)packSnorm<int16>(vec3(0.25f, x[0], 1.f)).y; }, [](ull p, float* o) { o[0] = unpackSnorm<float>(i16vec3(7, (int16)(uint16)p, 1)).y; }});
	return F;
}
static float pick_float(int i, int scale, bool sg)
{
	float s = (float)scale; int k = (int)(rnd() % (uint64_t)(scale + 1)); float sign = (sg && (rnd() & 1)) ? -1.f : 1.f;
	switch (i % 16) {
	case 0: return sign * (float)k / s;                                         // a code centre
	case 1: return sign * ((float)k + 0.5f) / s;                                // a rounding midpoint
	case 2: return std::nextafter(sign * ((float)k + 0.5f) / s, 10.f);          // its neighbours
	case 3: return std::nextafter(sign * ((float)k + 0.5f) / s, -10.f);
	case 4: return sign * 1.f; case 5: return sign * 0.f;
	case 6: return sign * std::nextafter(1.f, 2.f); case 7: return sign * std::nextafter(1.f, 0.f);
	case 8: return sign * (1.f + (float)(rnd() % 1000) / 100.f);                // out of range
	case 9: return -((float)(rnd() % 1000) / 100.f);                            // negative
	case 10: return sign * bf((uint32_t)(rnd() % 0x00800000u));                 // zero / subnormal
	case 11: return sign * INFINITY;
	case 12: return sign * 0.5f / s; case 13: return std::nextafter(sign * 0.5f / s, sign * 1.f);
	default: return sign * (float)((double)(rnd() >> 11) / 9007199254740992.0) * 1.25f; }
}
int main(int argc, char** argv)
{
	st = argc > 1 ? std::strtoull(argv[1], 0, 10) : 1; bool thorough = argc > 2 && std::string(argv[2]) == "thorough";
	for (auto& f : formats()) {
		int n = (int)f.bits.size(); int total = 0; for (int b : f.bits) total += b;
		// unpack: every code of every field
		int off = 0;
		for (int k = 0; k < n; ++k) { int b = f.bits[k]; int stride = (!thorough && b == 16 && n > 1) ? 7 : 1;
			for (ull c = (stride > 1 ? rnd() % 7 : 0); c < (1ull << b); c += stride) {
				ull w = total >= 64 ? rnd() : (rnd() & ((1ull << total) - 1)); w = (w & ~(((1ull << b) - 1) << off)) | (c << off);
				float o[4]; f.unpack(w, o); std::printf("unpack_%s %llx =", f.name, w); for (int i = 0; i < n; ++i) std::printf(" %x", fb(o[i])); std::printf("\n"); }
			off += b; }
		// pack
		int N = thorough ? 60000 : 2500;
		for (int i = 0; i < N; ++i) { float x[4]; for (int k = 0; k < n; ++k) x[k] = pick_float(i + 5 * k, f.scale[k], f.sg);
			std::printf("pack_%s", f.name); for (int k = 0; k < n; ++k) std::printf(" %x", fb(x[k])); std::printf(" = %llx\n", f.pack(x)); }
	}
	// integer formats
	int N = thorough ? 100000 : 3000;
	for (int i = 0; i < N; ++i) {
		ull r = rnd(), r2 = rnd(); using namespace glm;
		{ i8vec2 v((int8)r, (int8)(r >> 8)); std::printf("pack_ints 1 2 8 8 %x %x = %llx\n", (uint8)v.x, (uint8)v.y, (ull)(uint16)packInt2x8(v)); i8vec2 u = unpackInt2x8((int16)r); std::printf("unpack_ints 1 2 8 8 %llx = %x %x\n", (ull)(uint16)r, (uint8)u.x, (uint8)u.y); }
		{ u8vec2 v((uint8)r, (uint8)(r >> 8)); std::printf("pack_ints/u2x8 0 2 8 8 %x %x = %llx\n", v.x, v.y, (ull)packUint2x8(v)); u8vec2 u = unpackUint2x8((uint16)r); std::printf("unpack_ints/u2x8 0 2 8 8 %llx = %x %x\n", (ull)(uint16)r, u.x, u.y); }
		{ i8vec4 v((int8)r, (int8)(r >> 8), (int8)(r >> 16), (int8)(r >> 24)); std::printf("pack_ints/i4x8 1 4 8 8 8 8 %x %x %x %x = %llx\n", (uint8)v.x, (uint8)v.y, (uint8)v.z, (uint8)v.w, (ull)(uint32)packInt4x8(v)); i8vec4 u = unpackInt4x8((int32)r); std::printf("unpack_ints/i4x8 1 4 8 8 8 8 %llx = %x %x %x %x\n", (ull)(uint32)r, (uint8)u.x, (uint8)u.y, (uint8)u.z, (uint8)u.w); }
		{ u8vec4 v((uint8)r, (uint8)(r >> 8), (uint8)(r >> 16), (uint8)(r >> 24)); std::printf("pack_ints/u4x8 0 4 8 8 8 8 %x %x %x %x = %llx\n", v.x, v.y, v.z, v.w, (ull)packUint4x8(v)); u8vec4 u = unpackUint4x8((uint32)r); std::printf("unpack_ints/u4x8 0 4 8 8 8 8 %llx = %x %x %x %x\n", (ull)(uint32)r, u.x, u.y, u.z, u.w); }
		{ i16vec2 v((int16)r, (int16)(r >> 16)); std::printf("pack_ints/i2x16 1 2 10 10 %x %x = %llx\n", (uint16)v.x, (uint16)v.y, (ull)(uint32)packInt2x16(v)); i16vec2 u = unpackInt2x16((int)r); std::printf("unpack_ints/i2x16 1 2 10 10 %llx = %x %x\n", (ull)(uint32)r, (uint16)u.x, (uint16)u.y); }
		{ u16vec2 v((uint16)r, (uint16)(r >> 16)); std::printf("pack_ints/u2x16 0 2 10 10 %x %x = %llx\n", v.x, v.y, (ull)packUint2x16(v)); u16vec2 u = unpackUint2x16((uint)r); std::printf("unpack_ints/u2x16 0 2 10 10 %llx = %x %x\n", (ull)(uint32)r, u.x, u.y); }
		{ i16vec4 v((int16)r, (int16)(r >> 16), (int16)(r >> 32), (int16)(r >> 48)); std::printf("pack_ints/i4x16 1 4 10 10 10 10 %x %x %x %x = %llx\n", (uint16)v.x, (uint16)v.y, (uint16)v.z, (uint16)v.w, (ull)packInt4x16(v)); i16vec4 u = unpackInt4x16((int64)r); std::printf("unpack_ints/i4x16 1 4 10 10 10 10 %llx = %x %x %x %x\n", r, (uint16)u.x, (uint16)u.y, (uint16)u.z, (uint16)u.w); }
		{ u16vec4 v((uint16)r, (uint16)(r >> 16), (uint16)(r >> 32), (uint16)(r >> 48)); std::printf("pack_ints/u4x16 0 4 10 10 10 10 %x %x %x %x = %llx\n", v.x, v.y, v.z, v.w, (ull)packUint4x16(v)); u16vec4 u = unpackUint4x16((uint64)r); std::printf("unpack_ints/u4x16 0 4 10 10 10 10 %llx = %x %x %x %x\n", r, u.x, u.y, u.z, u.w); }
		{ i32vec2 v((int32)r, (int32)(r >> 32)); std::printf("pack_ints/i2x32 1 2 20 20 %x %x = %llx\n", (uint32)v.x, (uint32)v.y, (ull)packInt2x32(v)); i32vec2 u = unpackInt2x32((int64)r); std::printf("unpack_ints/i2x32 1 2 20 20 %llx = %x %x\n", r, (uint32)u.x, (uint32)u.y); }
		{ u32vec2 v((uint32)r, (uint32)(r >> 32)); std::printf("pack_ints/u2x32 0 2 20 20 %x %x = %llx\n", v.x, v.y, (ull)packUint2x32(v)); u32vec2 u = unpackUint2x32((uint64)r); std::printf("unpack_ints/u2x32 0 2 20 20 %llx = %x %x\n", r, u.x, u.y); }
		{ ivec4 v((int)r, (int)(r >> 10), (int)(r >> 20), (int)(r >> 30)); if (i % 3 == 0) v = ivec4((int)(r % 1024) - 512, (int)(r2 % 1024) - 512, 511, -2);
		  std::printf("pack_ints/I3x10_1x2 1 4 a a a 2 %x %x %x %x = %llx\n", (uint32)v.x, (uint32)v.y, (uint32)v.z, (uint32)v.w, (ull)packI3x10_1x2(v)); ivec4 u = unpackI3x10_1x2((uint32)r2);
		  std::printf("unpack_ints/I3x10_1x2 1 4 a a a 2 %llx = %x %x %x %x\n", (ull)(uint32)r2, (uint32)u.x & 0x3ff, (uint32)u.y & 0x3ff, (uint32)u.z & 0x3ff, (uint32)u.w & 3); }
		{ uvec4 v((uint)r, (uint)(r >> 10), (uint)(r >> 20), (uint)(r >> 30)); std::printf("pack_ints/U3x10_1x2 0 4 a a a 2 %x %x %x %x = %llx\n", v.x, v.y, v.z, v.w, (ull)packU3x10_1x2(v)); uvec4 u = unpackU3x10_1x2((uint32)r2);
		  std::printf("unpack_ints/U3x10_1x2 0 4 a a a 2 %llx = %x %x %x %x\n", (ull)(uint32)r2, u.x, u.y, u.z, u.w); }
		{ uvec2 v((uint)r, (uint)(r >> 32)); if ((((r >> 52) & 0x7ff) != 0x7ff)) { double d = packDouble2x32(v); ull back; std::memcpy(&back, &d, 8); std::printf("pack_ints/double 0 2 20 20 %x %x = %llx\n", v.x, v.y, back); uvec2 u = unpackDouble2x32(d); std::printf("unpack_ints/double 0 2 20 20 %llx = %x %x\n", back, u.x, u.y); } }
	}
	// small floats: every code of each field, and structured floats
	for (uint32_t c = 0; c < 2048; ++c) { uint32_t w = (uint32_t)rnd(); uint32_t v1 = (w & ~0x7ffu) | c, v2 = (w & ~(0x7ffu << 11)) | (c << 11), v3 = (w & ~(0x3ffu << 22)) | ((c & 0x3ff) << 22);
		for (uint32_t v : {v1, v2, v3}) { glm::vec3 u = glm::unpackF2x11_1x10(v); std::printf("unpackF2x11_1x10 %x = %x %x %x\n", v, fb(u.x) == 0xffc00000u ? 0x7fc00000u : fb(u.x), fb(u.y) == 0xffc00000u ? 0x7fc00000u : fb(u.y), fb(u.z) == 0xffc00000u ? 0x7fc00000u : fb(u.z)); } }
	for (int i = 0; i < N; ++i) { float x[3]; for (int k = 0; k < 3; ++k) { switch ((i + k) % 8) { case 0: x[k] = std::ldexp(1.f + (float)(rnd() % 64) / 64.f, (int)(rnd() % 30) - 14); break; case 1: x[k] = 0.f; break; case 2: x[k] = INFINITY; break;
			case 3: x[k] = -std::ldexp(1.f, (int)(rnd() % 20) - 10); break; case 4: x[k] = std::ldexp(1.f, -(int)(rnd() % 20) - 15); break; case 5: x[k] = std::ldexp(1.5f, 16 + (int)(rnd() % 20)); break; case 6: x[k] = 65024.f; break; default: x[k] = bf((uint32_t)rnd() & 0x7f7fffffu); } }
		std::printf("packF2x11_1x10 %x %x %x = %x\n", fb(x[0]), fb(x[1]), fb(x[2]), glm::packF2x11_1x10(glm::vec3(x[0], x[1], x[2]))); }
	return 0;
}
