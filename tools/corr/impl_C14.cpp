// impl_C14.cpp -- implementation side of the C14 correspondence: nextFloat / prevFloat (1 and n steps), floatDistance,
// equal / notEqual with MaxULPs (scalar, vector, matrix overloads), the bundled nextafter / nextafterf, on bit patterns.
// Lines:  fn mb w patterns... = results   (hex).
#define GLM_ENABLE_EXPERIMENTAL
#include <glm/glm.hpp>
#include <glm/ext/scalar_ulp.hpp>
#include <glm/ext/vector_ulp.hpp>
#include <glm/gtc/ulp.hpp>
#include <glm/ext/scalar_relational.hpp>
#include <glm/ext/vector_relational.hpp>
#include <glm/ext/matrix_relational.hpp>
#include <cstdio>
#include <cstdint>
#include <cstdlib>
#include <cstring>
#include <cmath>
#include <string>
static uint64_t st;
static uint64_t rnd() { uint64_t z = (st += 0x9E3779B97F4A7C15ull); z = (z ^ (z >> 30)) * 0xBF58476D1CE4E5B9ull; z = (z ^ (z >> 27)) * 0x94D049BB133111EBull; return z ^ (z >> 31); }
template<class F> struct FI;
template<> struct FI<float> { typedef uint32_t U; static const int mb = 23, w = 32; };
template<> struct FI<double> { typedef uint64_t U; static const int mb = 52, w = 64; };
template<class F> static typename FI<F>::U bits(F f) { typename FI<F>::U u; std::memcpy(&u, &f, sizeof u); return u; }
template<class F> static F val(typename FI<F>::U u) { F f; std::memcpy(&f, &u, sizeof u); return f; }
typedef unsigned long long ull;
// finite patterns aimed at the case splits: zeros, subnormals, binade boundaries, +-max, neighbours of each
template<class F> static typename FI<F>::U pick(int i) {
	typedef typename FI<F>::U U; const int mb = FI<F>::mb, w = FI<F>::w; U sign = (U)(rnd() & 1) << (w - 1); U expmax = ((U)1 << (w - 1 - mb)) - 1; U m;
	switch (i % 10) {
	case 0: m = 0; break;                                               // +-0
	case 1: m = 1 + rnd() % 4; break;                                   // smallest subnormals
	case 2: m = ((U)1 << mb) - 1 - rnd() % 3; break;                    // largest subnormals
	case 3: m = ((U)1 << mb) + rnd() % 3; break;                        // smallest normals
	case 4: { U e = 1 + rnd() % (expmax - 1); m = (e << mb) + rnd() % 3; break; }           // just above a binade boundary
	case 5: { U e = 1 + rnd() % (expmax - 1); m = (e << mb) - 1 - rnd() % 3; break; }       // just below
	case 6: m = (expmax << mb) - 1 - rnd() % 3; break;                  // +-max and below
	case 7: m = ((U)127 << mb) + rnd() % 70; break;                     // garbage near 1 for float, tiny for double: fine
	default: m = (U)rnd() % (expmax << mb); }
	return sign | m; }
template<class F> static void run(int n)
{
	typedef typename FI<F>::U U; const int mb = FI<F>::mb, w = FI<F>::w; const U expmax = ((U)1 << (w - 1 - mb)) - 1; const U maxpat = (expmax << mb) - 1; const U sbit = (U)1 << (w - 1);
	for (int i = 0; i < n; ++i) {
		U p = pick<F>(i); F x = val<F>(p);
		std::printf("nextFloat %x %x %llx = %llx\n", mb, w, (ull)p, (ull)bits(glm::nextFloat(x)));
		std::printf("prevFloat %x %x %llx = %llx\n", mb, w, (ull)p, (ull)bits(glm::prevFloat(x)));
		int k = (int)(rnd() % 9);
		std::printf("nextFloatN %x %x %llx %x = %llx\n", mb, w, (ull)p, k, (ull)bits(glm::nextFloat(x, k)));
		std::printf("prevFloatN %x %x %llx %x = %llx\n", mb, w, (ull)p, k, (ull)bits(glm::prevFloat(x, k)));
		// the older GLM_GTC_ulp spelling of the same functions (next_float / prev_float / float_distance): separate bodies in gtc/ulp.inl
		std::printf("nextFloat/gtc %x %x %llx = %llx\n", mb, w, (ull)p, (ull)bits(glm::next_float(x))); std::printf("prevFloat/gtc %x %x %llx = %llx\n", mb, w, (ull)p, (ull)bits(glm::prev_float(x)));
		std::printf("nextFloatN/gtc %x %x %llx %x = %llx\n", mb, w, (ull)p, k, (ull)bits(glm::next_float(x, k))); std::printf("prevFloatN/gtc %x %x %llx %x = %llx\n", mb, w, (ull)p, k, (ull)bits(glm::prev_float(x, k)));
		{ glm::vec<3, F> g3((F)1, x, (F)2); std::printf("nextFloat/gtc_v3 %x %x %llx = %llx\n", mb, w, (ull)p, (ull)bits(glm::next_float(g3).y)); std::printf("prevFloat/gtc_v3 %x %x %llx = %llx\n", mb, w, (ull)p, (ull)bits(glm::prev_float(g3).y));
		  std::printf("prevFloatN/gtc_v3 %x %x %llx %x = %llx\n", mb, w, (ull)p, k, (ull)bits(glm::prev_float(g3, k).y)); std::printf("nextFloatN/gtc_v3i %x %x %llx %x = %llx\n", mb, w, (ull)p, k, (ull)bits(glm::next_float(g3, glm::vec<3, int>(1, k, 2)).y)); }
		glm::vec<2, F> v(x, (F)1); std::printf("nextFloat/v2 %x %x %llx = %llx\n", mb, w, (ull)p, (ull)bits(glm::nextFloat(v).x)); std::printf("prevFloatN/v2 %x %x %llx %x = %llx\n", mb, w, (ull)p, k, (ull)bits(glm::prevFloat(v, k).x));
		// a second value: a few ranks away (possibly across zero), or independent
		U q; int d = (int)(rnd() % 70);
		if (i % 3) { F y = x; bool up = rnd() & 1; for (int s = 0; s < d; ++s) y = up ? std::nextafter(y, std::numeric_limits<F>::infinity()) : std::nextafter(y, -std::numeric_limits<F>::infinity()); q = bits(y); if (!std::isfinite(y)) q = p; }
		else q = pick<F>(i + 3);
		if (i % 7 == 0) q = p ^ sbit;                                      // x and -x
		F y = val<F>(q);
		// floatDistance: only when the rank distance fits the result type
		{ long double ox = (p & sbit) ? -(long double)(p & ~sbit) : (long double)(p & ~sbit), oy = (q & sbit) ? -(long double)(q & ~sbit) : (long double)(q & ~sbit);
		  if (fabsl(ox - oy) < (long double)sbit) { std::printf("floatDistance %x %x %llx %llx = %llx\n", mb, w, (ull)p, (ull)q, (ull)(U)glm::floatDistance(x, y));
		    glm::vec<2, F> a(x, (F)1), b(y, (F)1); std::printf("floatDistance/v2 %x %x %llx %llx = %llx\n", mb, w, (ull)p, (ull)q, (ull)(U)glm::floatDistance(a, b).x);
		    std::printf("floatDistance/gtc %x %x %llx %llx = %llx\n", mb, w, (ull)p, (ull)q, (ull)(U)glm::float_distance(x, y)); std::printf("floatDistance/gtc_v2 %x %x %llx %llx = %llx\n", mb, w, (ull)p, (ull)q, (ull)(U)glm::float_distance(a, b).x); } }
		int ulps = (int)(rnd() % 80) - 4; if (i % 5 == 0) ulps = d;
		std::printf("equalULP_scalar %x %x %llx %llx %x = %x\n", mb, w, (ull)p, (ull)q, (unsigned)ulps, (unsigned)glm::equal(x, y, ulps));
		std::printf("equalULP_scalar/ne %x %x %llx %llx %x = %x\n", mb, w, (ull)p, (ull)q, (unsigned)ulps, (unsigned)!glm::notEqual(x, y, ulps));
		glm::vec<3, F> a((F)1, x, (F)2), b((F)1, y, (F)2);
		std::printf("equalULP_vec %x %x %llx %llx %x = %x\n", mb, w, (ull)p, (ull)q, (unsigned)ulps, (unsigned)glm::equal(a, b, ulps).y);
		std::printf("equalULP_vec/ne %x %x %llx %llx %x = %x\n", mb, w, (ull)p, (ull)q, (unsigned)ulps, (unsigned)!glm::notEqual(a, b, ulps).y);
		std::printf("equalULP_vec/iv %x %x %llx %llx %x = %x\n", mb, w, (ull)p, (ull)q, (unsigned)ulps, (unsigned)glm::equal(a, b, glm::ivec3(0, ulps, 0)).y);
		glm::mat<2, 2, F> ma((F)1, (F)2, (F)3, (F)4), mb2(ma); ma[1][0] = x; mb2[1][0] = y;     // column 1 differs only in one component
		std::printf("equalULP_vec/mat %x %x %llx %llx %x = %x\n", mb, w, (ull)p, (ull)q, (unsigned)ulps, (unsigned)glm::equal(ma, mb2, ulps).y);
		std::printf("equalULP_vec/matne %x %x %llx %llx %x = %x\n", mb, w, (ull)p, (ull)q, (unsigned)ulps, (unsigned)!glm::notEqual(ma, mb2, ulps).y);
		(void)maxpat;
	}
}
int main(int argc, char** argv)
{
	st = argc > 1 ? std::strtoull(argv[1], 0, 10) : 1; bool thorough = argc > 2 && std::string(argv[2]) == "thorough"; int n = thorough ? 200000 : 6000;   /* each iteration prints about 30 cases (both spellings of the ULP functions, scalar and vector) */
	run<float>(n); run<double>(n);
	// the bundled Sun nextafter / nextafterf against the IEEE model, finite arguments
	for (int i = 0; i < n; ++i) {
		uint32_t p = pick<float>(i), q = pick<float>(i + 1); if (i % 4 == 0) q = 0x7f7fffffu; if (i % 4 == 1) q = 0xff7fffffu; if (i % 9 == 0) q = p;
		std::printf("nextafter 17 20 %x %x = %x\n", p, q, bits(glm::detail::nextafterf(val<float>(p), val<float>(q))));
		uint64_t P = pick<double>(i), Q = pick<double>(i + 1); if (i % 4 == 0) Q = 0x7fefffffffffffffull; if (i % 4 == 1) Q = 0xffefffffffffffffull; if (i % 9 == 0) Q = P;
		std::printf("nextafter 34 40 %llx %llx = %llx\n", (ull)P, (ull)Q, (ull)bits(glm::detail::nextafter(val<double>(P), val<double>(Q))));
	}
	return 0;
}
