#!/usr/bin/env python3
"""Regenerates /verif/MANIFEST.json from the claims table below (run after adding a property recipe)."""
import json
TECH = "Rocq/Coq proof over a model regenerated from /repo by symbolic execution (translator T1); C++ oracle only for violation search/replay"
NA_DEFAULT = "not yet claimed: the check for this property is still being built (plan in DESIGN.md section 6); no limitation of the technique is asserted"
CLAIMS = {
 "C02": ("Machine-checked theorems about a model regenerated on every run by symbolic execution of GLM's own templates (translator T1): for ALL entry values, each of the 27 mat*mat, 9 mat*vec, 9 vec*mat products is a sum of exactly K products and equals the column-major definition over R; over two's-complement int32 it equals the wrapped exact definition; transpose/outerProduct/matrixCompMult/element-wise/compound/inc-dec/diagonal/81 conversions/row-column access are expression-tree identical to the index-wise specification; operator==/!= decision trees mean all-equal. Shapes and operators are enumerated (finite), values are universally quantified.",
         "Trusted: Coq kernel + vm_compute; Reals axioms (sig_forall_dec, sig_not_dec, functional_extensionality_dep, classic) for the evalR theorems, none for the syntactic/integer ones; translator T1 and the g++ front end (self-validated against the real float/int instantiations on every run); Spec*.v. NOT proved: numeric rounding-error bounds (only the one-rounding-per-operation structure plus exactness over R and Z/2^32); double/uint/sized-int element types and qualifiers are exercised by the oracle sweep (testing), not by theorems."),
 "C10": ("Theorems (ring/field on the regenerated traces, all matrix entries universally quantified, sizes 2,3,4): determinant = Leibniz expansion, det(A*B)=det A*det B, det(transpose)=det; det M <> 0 -> inverse(M)*M = M*inverse(M) = I; inverseTranspose = transpose(inverse); affineInverse = inverse on affine matrices; adjugate(M)*M = det*I; operator/ is expression-identical to multiplication by inverse().",
         "Trusted: as C02 (Reals axioms for every theorem here). NOT proved: the floating-point error bound proportional to the condition number (needs a Higham-style analysis; the oracle checks 64*eps*kappa on random well-conditioned matrices and exactness on integer unimodular ones - testing). The aligned (SIMD-only) inv3x3 specialisation is outside the template trace (see C03)."),
 "C08": ("Theorems (field on the regenerated traces; all parameter values universally quantified under non-degeneracy hypotheses): the four fully-suffixed ortho and frustum variants send the 8 view-volume corners to the clip-cube corners of their convention (RH/LH x NO/ZO) with w>0 side stated as w = 1 / w = distance; perspective = symmetric frustum; perspectiveFov = perspective(aspect=w/h); infinitePerspective depth = 1-2n/d | 1-n/d; in each of the 4 clip-control configurations (model regenerated under each -D set) every unsuffixed/half-suffixed builder, project and unProject is expression-identical to the variant the macros select, and suffixed variants are configuration independent; project maps clip coordinates to the viewport rectangle and depth range.",
         "Trusted: as C02. tan/sin/cos are the real functions. Partial: the round trip unProject(project(p)) = p is NOT a theorem (oracle only); no rounding bounds; double via oracle only; tweakedInfinitePerspective/pickMatrix/ortho2D are traced but have no theorem yet."),
 "C17": ("Theorems by reflexive check (vm_compute) over the catalogue regenerated from /repo: every one of ~3400 swizzle reads (member-function, operator and gtx free-function forms; all 2/3/4-letter words over xyzw/rgba/stpq for source lengths 2-4, free functions for 1-4) is the list of named input components in the named order; every writable operator swizzle changes exactly the named components; ~170 vector constructor signatures (all argument-shape compositions, scalar/vec1/int mixes, truncations, broadcast), matrix constructors from scalars/columns and quaternion constructors (both storage orders) place arguments left to right wrapped in exactly the static_cast node; completeness of the swizzle catalogue against a name list generated independently in Coq. Inputs are symbolic: all component values.",
         "Trusted: Coq kernel + vm_compute (no axioms: Closed under the global context); translator T1 + g++ front end; gen_C17.py enumeration (cross-checked by the Coq-side completeness theorem for swizzles; constructor signatures are not cross-checked for completeness). Element type float (+int arguments); SIMD shuffle specialisations are under C03. Known finding (compile-time): 3-letter writable swizzles of a vec4 naming w are not assignable."),
}
props = [json.loads(l) for l in open('/verif/properties.jsonl')]
checks = []
for p in props:
    if p['id'] in CLAIMS:
        text, note = CLAIMS[p['id']]
        checks.append({"property_id": p['id'], "quick_cmd": "./check %s --quick" % p['id'], "thorough_cmd": "./check %s --thorough" % p['id'],
                       "evidence_file": "/verif/evidence/%s.json" % p['id'], "replay_cmd_template": "./check %s --replay {path}" % p['id'], "engine": "glmverif",
                       "level_claimed": {"category": "proof", "text": text, "design_ref": "DESIGN.md section 6, " + p['id']}, "level_note": note, "technique": TECH})
na = [{"property_id": p['id'], "reason": NA_DEFAULT} for p in props if p['id'] not in CLAIMS]
m = {"version": 1, "setup_cmd": "make -C /verif setup",
     "hooks": {"guard": "GLM_VERIF", "enable": "no hooks are needed: the tracer replaces the scalar type from outside (-I /verif/tools/trace/shim, tracing scalars as T)",
               "baseline_off_cmd": "cmake --build /repo/_build -j16 && ctest --test-dir /repo/_build -j8 --timeout 900", "source_commits": [], "add_only": True},
     "engines": [{"name": "glmverif", "path": "/verif/check", "serves_properties": sorted(CLAIMS),
                  "kind_free_text": "Rocq/Coq 8.16 proofs over models regenerated from /repo by symbolic execution through the C++ compiler (tools/trace), hand models with extraction-based correspondence (tools/corr), C++ oracles for violation search (tools/oracle)"}],
     "checks": checks, "not_applicable": na,
     "notes": "fix: commits in /repo are listed in known_findings.txt. Seeded changes used to test the checks are under /verif/seeded/."}
json.dump(m, open('/verif/MANIFEST.json', 'w'), indent=1)
print("claimed:", sorted(CLAIMS))
