#!/usr/bin/env python3
"""tools/keep_seed.py <PROP> <X> : confirm /tmp/mut/<PROP>.out/<X> in a scratch worktree; if confirmed copy it to
/verif/seeded/<PROP>-<X>/ and run ./check <PROP> --quick against it, recording the outcome in meta.json."""
import sys, os, json, subprocess, shutil, re
prop, x = sys.argv[1], sys.argv[2]
src = "/tmp/mut/%s.out/%s" % (prop, x); name = "%s-%s" % (prop, x)
if len(sys.argv) > 3: src = sys.argv[3]   # explicit source directory (seeds made on the repaired tree: run with BASE=HEAD)
out = subprocess.run(["/verif/tools/confirm_seed.sh", src, name], stdout=subprocess.PIPE, stderr=subprocess.STDOUT, text=True).stdout.strip().split("\n")[-1]
print(out)
ok = ("applies=yes" in out and "build_rc=0" in out and "0 tests failed out of 185" in out and "demo_compile_rc=0" in out
      and "demo_without_patch_rc=0" in out and not "demo_with_patch_rc=0" in out)
if not ok:
    print("NOT CONFIRMED", name); sys.exit(1)
dst = "/verif/seeded/" + name
os.makedirs(dst, exist_ok=True)
for f in ("patch.diff", "demo.cpp", "meta.json"): shutil.copyfile(os.path.join(src, f), os.path.join(dst, f))
meta = json.load(open(os.path.join(dst, "meta.json")))
meta["confirmed_by_verif"] = {"ran": "tools/confirm_seed.sh in a scratch worktree at " + os.environ.get("BASE", "pinned commit 1e4eb61") + ": git apply, cmake --build, ctest -j16, demo with and without the patch", "result": out}
r = subprocess.run(["/verif/tools/seedtest.sh", prop, os.path.join(dst, "patch.diff")], stdout=subprocess.PIPE, stderr=subprocess.STDOUT, text=True).stdout
viol = [l for l in r.split("\n") if l.startswith("VIOLATION")]
meta["verif_check"] = {"cmd": "git -C /repo apply patch.diff; ./check %s --quick; git -C /repo checkout -- ." % prop, "detected": bool(viol), "violation_lines": viol[:4],
                       "summary": [l for l in r.split("\n") if "obligations=" in l]}
json.dump(meta, open(os.path.join(dst, "meta.json"), "w"), indent=1)
print(name, "detected" if viol else "MISSED", viol[:2])
