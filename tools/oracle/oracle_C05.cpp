// oracle_C05.cpp -- violation search for C05: loop-based references (one bit at a time, straight from the GLSL wording)
// against the real functions, scalar and vector overloads, widths 8-64, signed and unsigned.
#include "oracle/oracle_common.hpp"
#include <glm/glm.hpp>
#include <glm/gtc/type_precision.hpp>
using namespace orc;
template<class T> static const char* tn();
template<> const char* tn<glm::int8>() { return "i8"; } template<> const char* tn<glm::uint8>() { return "u8"; } template<> const char* tn<glm::int16>() { return "i16"; } template<> const char* tn<glm::uint16>() { return "u16"; }
template<> const char* tn<glm::int32>() { return "i32"; } template<> const char* tn<glm::uint32>() { return "u32"; } template<> const char* tn<glm::int64>() { return "i64"; } template<> const char* tn<glm::uint64>() { return "u64"; }
template<class T> static bool bit(T v, int i) { typedef typename std::make_unsigned<T>::type U; return (((U)v) >> i) & 1; }
template<class T> static int ref_count(T v) { int n = 0; for (int i = 0; i < (int)sizeof(T) * 8; ++i) n += bit(v, i); return n; }
template<class T> static int ref_lsb(T v) { for (int i = 0; i < (int)sizeof(T) * 8; ++i) if (bit(v, i)) return i; return -1; }
template<class T> static int ref_msb(T v) { bool neg = std::is_signed<T>::value && v < 0; for (int i = (int)sizeof(T) * 8 - 1; i >= 0; --i) if (bit(v, i) != neg) return i; return -1; }
template<class T> static T ref_rev(T v) { typedef typename std::make_unsigned<T>::type U; int w = sizeof(T) * 8; U r = 0; for (int i = 0; i < w; ++i) if (bit(v, i)) r |= (U)((U)1 << (w - 1 - i)); return (T)r; }
template<class T> static T ref_extract(T v, int off, int bits) { typedef typename std::make_unsigned<T>::type U; if (bits == 0) return 0; U r = 0; for (int i = 0; i < bits; ++i) if (bit(v, off + i)) r |= (U)((U)1 << i);
	if (std::is_signed<T>::value && bit((T)r, bits - 1)) for (int i = bits; i < (int)sizeof(T) * 8; ++i) r |= (U)((U)1 << i); return (T)r; }
template<class T> static T ref_insert(T base, T ins, int off, int bits) { typedef typename std::make_unsigned<T>::type U; U r = (U)base; for (int i = 0; i < bits; ++i) { U m = (U)((U)1 << (off + i)); if (bit(ins, i)) r |= m; else r &= (U)~m; } return (T)r; }
template<class T> static T special(Rng& g, int i) { typedef typename std::make_unsigned<T>::type U; int w = sizeof(T) * 8; U v;
	switch (i % 12) { case 0: v = 0; break; case 1: v = (U)~(U)0; break; case 2: v = (U)((U)1 << (g.next() % w)); break; case 3: v = (U)~((U)1 << (g.next() % w)); break; case 4: { int a = g.next() % w, b = g.next() % w; if (a > b) std::swap(a, b); v = (U)((((U)~(U)0) >> (w - 1 - (b - a))) << a); break; }
	case 5: v = (U)((U)1 << (w - 1)); break; case 6: v = (U)(((U)1 << (w - 1)) - 1); break; case 7: v = (U)0x5555555555555555ull; break; case 8: v = (U)0xAAAAAAAAAAAAAAAAull; break; case 9: v = (U)(g.next() & 0xff); break; default: v = (U)g.next(); }
	return (T)v; }
template<class T> static std::string ps(T v) { typedef typename std::make_unsigned<T>::type U; return hex((uint64_t)(U)v); }
template<class T> static void unary(T x) { std::string ty = tn<T>();
	count("bitCount_" + ty); if (glm::bitCount(x) != ref_count(x) || glm::bitCount(glm::vec<3, T>(x, (T)1, x)).z != ref_count(x)) fail("bitCount_" + ty, "value", ps(x), str(ref_count(x)), str(glm::bitCount(x)));
	count("findLSB_" + ty); if (glm::findLSB(x) != ref_lsb(x) || glm::findLSB(glm::vec<2, T>((T)4, x)).y != ref_lsb(x)) fail("findLSB_" + ty, "value", ps(x), str(ref_lsb(x)), str(glm::findLSB(x)));
	count("findMSB_" + ty); if (glm::findMSB(x) != ref_msb(x) || glm::findMSB(glm::vec<4, T>((T)4, x, (T)0, x)).w != ref_msb(x)) fail("findMSB_" + ty, (std::is_signed<T>::value && x < 0) ? "negative" : "value", ps(x), str(ref_msb(x)), str(glm::findMSB(x)));
	count("bitfieldReverse_" + ty); if (glm::bitfieldReverse(x) != ref_rev(x) || glm::bitfieldReverse(glm::vec<3, T>(x, (T)1, x)).z != ref_rev(x)) fail("bitfieldReverse_" + ty, (std::is_signed<T>::value) ? "signed" : "value", ps(x), ps(ref_rev(x)), ps(glm::bitfieldReverse(x)));
	// 4-component overloads in every lane (the aligned / SIMD specialisations are for vec<4, ...>)
	{ glm::vec<4, T> v4(x, (T)1, (T)(x ^ (T)0x5a), (T)~x); T xs[4] = { x, (T)1, (T)(x ^ (T)0x5a), (T)~x }; auto c4 = glm::bitCount(v4); auto l4 = glm::findLSB(v4); auto m4 = glm::findMSB(v4); auto r4 = glm::bitfieldReverse(v4);
	  for (int k = 0; k < 4; ++k) { count("vec4_" + ty);
		if (c4[k] != ref_count(xs[k])) fail("bitCount_vec4_" + ty, "lane", ps(xs[k]) + " lane " + str(k), str(ref_count(xs[k])), str(c4[k]));
		if (l4[k] != ref_lsb(xs[k])) fail("findLSB_vec4_" + ty, "lane", ps(xs[k]) + " lane " + str(k), str(ref_lsb(xs[k])), str(l4[k]));
		if (m4[k] != ref_msb(xs[k])) fail("findMSB_vec4_" + ty, (std::is_signed<T>::value && xs[k] < 0) ? "negative" : "lane", ps(xs[k]) + " lane " + str(k), str(ref_msb(xs[k])), str(m4[k]));
		if (r4[k] != ref_rev(xs[k])) fail("bitfieldReverse_vec4_" + ty, "lane", ps(xs[k]) + " lane " + str(k), ps(ref_rev(xs[k])), ps(r4[k])); } } }
template<class T> static void fields(Rng& g, int n) { std::string ty = tn<T>(); int w = sizeof(T) * 8;
	for (int i = 0; i < n; ++i) { T x = special<T>(g, i), y = special<T>(g, i + 5); int off = (int)(g.next() % w); int bits = (int)(g.next() % (w - off + 1)); if (i % 7 == 0) bits = 0; if (i % 11 == 0) { off = 0; bits = w; }
		T e = ref_extract(x, off, bits); T r = glm::bitfieldExtract(x, off, bits); T rv = glm::bitfieldExtract(glm::vec<2, T>(y, x), off, bits).y; count("bitfieldExtract");
		if (r != e || rv != e) { std::string cls = (std::is_signed<T>::value && e < 0) ? "signed, field top bit set" : (sizeof(T) == 8 && bits >= 32) ? "64-bit element, 32 <= bits" : (bits == (int)sizeof(T) * 8 ? "full width" : "value"); fail("bitfieldExtract", cls, ty + " " + ps(x) + " off=" + str(off) + " bits=" + str(bits), ps(e), ps(r)); }
		if (sizeof(T) >= 4 || true) { T ei = ref_insert(x, y, off, bits); T ri = glm::bitfieldInsert(x, y, off, bits); T riv = glm::bitfieldInsert(glm::vec<3, T>((T)1, x, (T)2), glm::vec<3, T>((T)3, y, (T)4), off, bits).y; count("bitfieldInsert");
			if (ri != ei || riv != ei) fail("bitfieldInsert", (sizeof(T) == 8 && off + bits > 31) ? "64-bit element, field beyond bit 31" : "value", ty + " base=" + ps(x) + " insert=" + ps(y) + " off=" + str(off) + " bits=" + str(bits), ps(ei), ps(ri)); } } }
template<class T> static void run_type(Rng& g, int n, bool exhaustive) { int w = sizeof(T) * 8; if (exhaustive) for (long long i = 0; i < (1ll << w); ++i) unary<T>((T)(typename std::make_unsigned<T>::type)i); else for (int i = 0; i < n; ++i) unary<T>(special<T>(g, i)); fields<T>(g, n); }
int main(int argc, char** argv) {
	uint64_t seed = argc > 2 ? std::strtoull(argv[2], 0, 10) : 1; bool thorough = argc > 3 && std::string(argv[3]) == "thorough"; int n = thorough ? 2000000 : 100000; Rng g(seed);
	run_type<glm::uint8>(g, n, true); run_type<glm::int8>(g, n, true); run_type<glm::uint16>(g, n, true); run_type<glm::int16>(g, n, true); run_type<glm::uint32>(g, n, false); run_type<glm::int32>(g, n, false); run_type<glm::uint64>(g, n, false); run_type<glm::int64>(g, n, false);
	for (int i = 0; i < n; ++i) { glm::uint x = special<glm::uint>(g, i), y = special<glm::uint>(g, i + 3); if (i % 5 == 0) y = x; if (i % 9 == 0) y = x + 1; uint64_t s = (uint64_t)x + y, p = (uint64_t)x * y; int64_t ip = (int64_t)(int)x * (int64_t)(int)y;
		glm::uint c, r = glm::uaddCarry(x, y, c); count("uaddCarry"); if (r != (glm::uint)s || c != (glm::uint)(s >> 32)) fail("uaddCarry", "value", hex(x) + "," + hex(y), hex((glm::uint)s) + " carry " + str(s >> 32), hex(r) + " carry " + str(c));
		glm::uvec2 vc, vr = glm::uaddCarry(glm::uvec2(y, x), glm::uvec2(x, y), vc); if (vr.y != (glm::uint)s || vc.y != (glm::uint)(s >> 32)) fail("uaddCarry", "vector", hex(x) + "," + hex(y), "scalar result", "differs");
		glm::uint b, d = glm::usubBorrow(x, y, b); count("usubBorrow"); glm::uint ed = x - y, eb = x < y; if (d != ed || b != eb) fail("usubBorrow", x == y ? "x == y" : "x != y", hex(x) + "," + hex(y), hex(ed) + " borrow " + str(eb), hex(d) + " borrow " + str(b));
		glm::uvec2 vb, vd = glm::usubBorrow(glm::uvec2(1u, x), glm::uvec2(1u, y), vb); if (vd.y != ed || vb.y != eb) fail("usubBorrow", x == y ? "x == y" : "x != y", "vec " + hex(x) + "," + hex(y), hex(ed), hex(vd.y));
		glm::uint m, l; glm::umulExtended(x, y, m, l); count("umulExtended"); if (m != (glm::uint)(p >> 32) || l != (glm::uint)p) fail("umulExtended", "value", hex(x) + "," + hex(y), hex(p), hex(((uint64_t)m << 32) | l));
		glm::uvec3 vm, vl; glm::umulExtended(glm::uvec3(x), glm::uvec3(7u, y, 3u), vm, vl); if (vm.y != (glm::uint)(p >> 32) || vl.y != (glm::uint)p) fail("umulExtended", "vector", hex(x) + "," + hex(y), hex(p), "differs");
		int im, il; glm::imulExtended((int)x, (int)y, im, il); count("imulExtended"); if (im != (int)(ip >> 32) || il != (int)(glm::uint)ip) fail("imulExtended", "value", hex(x) + "," + hex(y), hex((uint64_t)ip), hex(((uint64_t)(glm::uint)im << 32) | (glm::uint)il));
		glm::ivec3 ivm, ivl; glm::imulExtended(glm::ivec3((int)x), glm::ivec3(7, (int)y, 3), ivm, ivl); if (ivm.y != (int)(ip >> 32) || ivl.y != (int)(glm::uint)ip) fail("imulExtended", "vector", hex(x) + "," + hex(y), hex((uint64_t)ip), hex(((uint64_t)(glm::uint)ivm.y << 32) | (glm::uint)ivl.y)); }
	return finish();
}
