// oracle_C02.cpp -- violation search for C02: evaluates the textbook column-major definitions with
// exact integer arithmetic and compares with the real glm operators on small-integer entries
// (exactly representable in float), for all shapes and float/double/int/uint.
#include "oracle/oracle_common.hpp"
#include <glm/glm.hpp>
#include <glm/gtc/matrix_access.hpp>
#include <glm/ext/matrix_integer.hpp>
using namespace orc;
#ifndef ORC_T
#define ORC_T float
#endif

template<int C, int R, class T> static glm::mat<C, R, T> rnd_mat(Rng& g, int lo, int hi) { glm::mat<C, R, T> m; for (int c = 0; c < C; ++c) for (int r = 0; r < R; ++r) m[c][r] = (T)g.range(lo, hi); return m; }
template<int L, class T> static glm::vec<L, T> rnd_vec(Rng& g, int lo, int hi) { glm::vec<L, T> v; for (int i = 0; i < L; ++i) v[i] = (T)g.range(lo, hi); return v; }
template<int C, int R, class T> static std::string ms(glm::mat<C, R, T> const& m) { std::string s = "["; for (int c = 0; c < C; ++c) { s += "("; for (int r = 0; r < R; ++r) { s += str((double)m[c][r]); if (r + 1 < R) s += ","; } s += ")"; } return s + "]"; }
template<int L, class T> static std::string vs(glm::vec<L, T> const& v) { std::string s = "("; for (int i = 0; i < L; ++i) { s += str((double)v[i]); if (i + 1 < L) s += ","; } return s + ")"; }
template<class T> static const char* tn();
template<> const char* tn<float>() { return "f32"; } template<> const char* tn<double>() { return "f64"; } template<> const char* tn<int>() { return "i32"; } template<> const char* tn<unsigned>() { return "u32"; }
static std::string nm(const char* f, std::initializer_list<int> d, const char* ty) { std::string s = f; for (int x : d) { s += "_"; s += std::to_string(x); } s += "_"; s += ty; return s; }

template<class T, int K, int R, int C> static void t_mm(Rng& g, int n) {
	std::string fn = nm("mul_mm", {K, R, C}, tn<T>()); int lo = std::is_unsigned<T>::value ? 0 : -9;
	for (int it = 0; it < n; ++it) {
		auto A = rnd_mat<K, R, T>(g, lo, 9); auto B = rnd_mat<C, K, T>(g, lo, 9); auto P = A * B; count(fn);
		for (int c = 0; c < C; ++c) for (int r = 0; r < R; ++r) { long long s = 0; for (int k = 0; k < K; ++k) s += (long long)A[k][r] * (long long)B[c][k];
			if ((T)s != P[c][r]) fail(fn, "element", ms(A) + " * " + ms(B) + " at [" + str(c) + "][" + str(r) + "]", str(s), str((double)P[c][r])); }
		if (it == 0) sample(fn + " " + ms(A) + " * " + ms(B));
	}
}
template<class T, int C, int R> static void t_shape(Rng& g, int n) {
	const char* ty = tn<T>(); int lo = std::is_unsigned<T>::value ? 0 : -9;
	for (int it = 0; it < n; ++it) {
		auto A = rnd_mat<C, R, T>(g, lo, 9); auto B = rnd_mat<C, R, T>(g, lo, 9); auto v = rnd_vec<C, T>(g, lo, 9); auto w = rnd_vec<R, T>(g, lo, 9); T s = (T)g.range(1, 7);
		{ auto P = A * v; std::string fn = nm("mul_mv", {C, R}, ty); count(fn); for (int r = 0; r < R; ++r) { long long e = 0; for (int c = 0; c < C; ++c) e += (long long)A[c][r] * (long long)v[c]; if ((T)e != P[r]) fail(fn, "element", ms(A) + " * " + vs(v) + " at [" + str(r) + "]", str(e), str((double)P[r])); } }
		{ auto P = w * A; std::string fn = nm("mul_vm", {C, R}, ty); count(fn); for (int c = 0; c < C; ++c) { long long e = 0; for (int r = 0; r < R; ++r) e += (long long)w[r] * (long long)A[c][r]; if ((T)e != P[c]) fail(fn, "element", vs(w) + " * " + ms(A) + " at [" + str(c) + "]", str(e), str((double)P[c])); } }
		{ auto P = glm::transpose(A); std::string fn = nm("transpose", {C, R}, ty); count(fn); for (int c = 0; c < C; ++c) for (int r = 0; r < R; ++r) if (P[r][c] != A[c][r]) fail(fn, "element", ms(A), str((double)A[c][r]), str((double)P[r][c])); }
		{ auto P = glm::outerProduct(w, v); std::string fn = nm("outer", {C, R}, ty); count(fn); for (int c = 0; c < C; ++c) for (int r = 0; r < R; ++r) if (P[c][r] != (T)(w[r] * v[c])) fail(fn, "element", vs(w) + " x " + vs(v), str((double)(w[r] * v[c])), str((double)P[c][r])); }
		{ auto P = glm::matrixCompMult(A, B); std::string fn = nm("compmult", {C, R}, ty); count(fn); for (int c = 0; c < C; ++c) for (int r = 0; r < R; ++r) if (P[c][r] != (T)(A[c][r] * B[c][r])) fail(fn, "element", ms(A) + " . " + ms(B), str((double)(A[c][r] * B[c][r])), str((double)P[c][r])); }
#define EW(NAME, EXPR, REF) { auto P = EXPR; std::string fn = nm(NAME, {C, R}, ty); count(fn); for (int c = 0; c < C; ++c) for (int r = 0; r < R; ++r) if (P[c][r] != (T)(REF)) fail(fn, "element", ms(A) + " , " + ms(B) + " , s=" + str((double)s) + " at [" + str(c) + "][" + str(r) + "]", str((double)(T)(REF)), str((double)P[c][r])); }
		EW("add_mm", A + B, A[c][r] + B[c][r]) EW("sub_mm", A - B, A[c][r] - B[c][r]) EW("add_ms", A + s, A[c][r] + s) EW("sub_ms", A - s, A[c][r] - s) EW("mul_ms", A * s, A[c][r] * s) EW("mul_sm", s * A, s * A[c][r])
		EW("neg_m", -A, -A[c][r])
		{ auto X = A; X += B; EW("addeq_mm", X, A[c][r] + B[c][r]) } { auto X = A; X -= B; EW("subeq_mm", X, A[c][r] - B[c][r]) } { auto X = A; X *= s; EW("muleq_ms", X, A[c][r] * s) }
		{ auto X = A; X += s; EW("addeq_ms", X, A[c][r] + s) } { auto X = A; X -= s; EW("subeq_ms", X, A[c][r] - s) } { auto X = A; ++X; EW("preinc_m", X, A[c][r] + 1) } { auto X = A; --X; EW("predec_m", X, A[c][r] - 1) }
		if (!std::is_integral<T>::value) { auto A2 = A; for (int c = 0; c < C; ++c) for (int r = 0; r < R; ++r) A2[c][r] = (T)((long long)A[c][r] * 8); T d = (T)(1 << g.range(0, 3)); auto P = A2 / d; std::string fn = nm("div_ms", {C, R}, ty); count(fn);
			for (int c = 0; c < C; ++c) for (int r = 0; r < R; ++r) if (P[c][r] != A2[c][r] / d) fail(fn, "element", ms(A2) + " / " + str((double)d), str((double)(A2[c][r] / d)), str((double)P[c][r])); }
		// division by a scalar, binary and compound, every element type: the entries are exact multiples of the divisor, so the quotient is
		// exact in every type (a reciprocal-multiply rewrite gives 0 for integers and a last-bit error for 21/7, 49/49 ...)
		{ T k = (T)g.range(2, 7); if (it % 5 == 0) k = (T)49; auto A3 = A; for (int c = 0; c < C; ++c) for (int r = 0; r < R; ++r) A3[c][r] = (T)(A[c][r] * k);
		  { auto P = A3 / k; std::string fn = nm("div_ms", {C, R}, ty); count(fn); for (int c = 0; c < C; ++c) for (int r = 0; r < R; ++r) if (P[c][r] != (T)(A3[c][r] / k)) fail(fn, "exact quotient", ms(A3) + " / " + str((double)k), str((double)(T)(A3[c][r] / k)), str((double)P[c][r])); }
		  { auto X = A3; X /= k; std::string fn = nm("diveq_ms", {C, R}, ty); count(fn); for (int c = 0; c < C; ++c) for (int r = 0; r < R; ++r) if (X[c][r] != (T)(A3[c][r] / k)) fail(fn, "exact quotient", ms(A3) + " /= " + str((double)k), str((double)(T)(A3[c][r] / k)), str((double)X[c][r])); } }
		for (int i = 0; i < C; ++i) { auto col = glm::column(A, i); std::string fn = nm("colget", {C, R, i}, ty); count(fn); for (int r = 0; r < R; ++r) if (col[r] != A[i][r]) fail(fn, "element", ms(A), str((double)A[i][r]), str((double)col[r]));
			auto M = glm::column(A, i, w); fn = nm("colset", {C, R, i}, ty); count(fn); for (int c = 0; c < C; ++c) for (int r = 0; r < R; ++r) { T e = (c == i) ? w[r] : A[c][r]; if (M[c][r] != e) fail(fn, "element", ms(A) + " <- " + vs(w), str((double)e), str((double)M[c][r])); } }
		for (int i = 0; i < R; ++i) { auto row = glm::row(A, i); std::string fn = nm("rowget", {C, R, i}, ty); count(fn); for (int c = 0; c < C; ++c) if (row[c] != A[c][i]) fail(fn, "element", ms(A), str((double)A[c][i]), str((double)row[c]));
			auto M = glm::row(A, i, v); fn = nm("rowset", {C, R, i}, ty); count(fn); for (int c = 0; c < C; ++c) for (int r = 0; r < R; ++r) { T e = (r == i) ? v[c] : A[c][r]; if (M[c][r] != e) fail(fn, "element", ms(A) + " <- " + vs(v), str((double)e), str((double)M[c][r])); } }
		{ glm::mat<C, R, T> D(s); std::string fn = nm("diag", {C, R}, ty); count(fn); for (int c = 0; c < C; ++c) for (int r = 0; r < R; ++r) if (D[c][r] != (c == r ? s : (T)0)) fail(fn, "element", str((double)s), str((double)(c == r ? s : (T)0)), str((double)D[c][r])); }
		{ bool e = (A == B), ne = (A != B); bool ref = true; for (int c = 0; c < C; ++c) for (int r = 0; r < R; ++r) ref = ref && (A[c][r] == B[c][r]); count(nm("eq_mm", {C, R}, ty)); if (e != ref || ne == ref) fail(nm("eq_mm", {C, R}, ty), "value", ms(A) + " == " + ms(B), str(ref), str(e));
		  auto B2 = A; int pc = g.range(0, C - 1), pr = g.range(0, R - 1); B2[pc][pr] += 1; if ((A == B2) || !(A != B2) || !(A == A)) fail(nm("eq_mm", {C, R}, ty), "value", ms(A) + " == " + ms(B2), "0", "1"); }
	}
	t_mm<T, C, R, 2>(g, n); t_mm<T, C, R, 3>(g, n); t_mm<T, C, R, 4>(g, n);
}
template<class T, int C, int R, int C2, int R2> static void t_conv(Rng& g, int n) {
	std::string fn = nm("conv", {C, R, C2, R2}, tn<T>());
	for (int it = 0; it < n; ++it) { auto A = rnd_mat<C2, R2, T>(g, 2, 19); glm::mat<C, R, T> M(A); count(fn);
		for (int c = 0; c < C; ++c) for (int r = 0; r < R; ++r) { T e = (c < C2 && r < R2) ? A[c][r] : (c == r ? (T)1 : (T)0); if (M[c][r] != e) fail(fn, "element", ms(A) + " at [" + str(c) + "][" + str(r) + "]", str((double)e), str((double)M[c][r])); } }
}
template<class T, int C, int R> static void t_conv_all(Rng& g, int n) { t_conv<T, C, R, 2, 2>(g, n); t_conv<T, C, R, 2, 3>(g, n); t_conv<T, C, R, 2, 4>(g, n); t_conv<T, C, R, 3, 2>(g, n); t_conv<T, C, R, 3, 3>(g, n); t_conv<T, C, R, 3, 4>(g, n); t_conv<T, C, R, 4, 2>(g, n); t_conv<T, C, R, 4, 3>(g, n); t_conv<T, C, R, 4, 4>(g, n); }
template<class T> static void t_all(Rng& g, int n) {
	t_shape<T, 2, 2>(g, n); t_shape<T, 2, 3>(g, n); t_shape<T, 2, 4>(g, n); t_shape<T, 3, 2>(g, n); t_shape<T, 3, 3>(g, n); t_shape<T, 3, 4>(g, n); t_shape<T, 4, 2>(g, n); t_shape<T, 4, 3>(g, n); t_shape<T, 4, 4>(g, n);
	t_conv_all<T, 2, 2>(g, n); t_conv_all<T, 2, 3>(g, n); t_conv_all<T, 2, 4>(g, n); t_conv_all<T, 3, 2>(g, n); t_conv_all<T, 3, 3>(g, n); t_conv_all<T, 3, 4>(g, n); t_conv_all<T, 4, 2>(g, n); t_conv_all<T, 4, 3>(g, n); t_conv_all<T, 4, 4>(g, n);
}
int main(int argc, char** argv) {
	uint64_t seed = argc > 2 ? std::strtoull(argv[2], 0, 10) : 1; int n = (argc > 3 && std::string(argv[3]) == "thorough") ? 400 : 40;
	Rng g(seed); t_all<ORC_T>(g, n);
	return finish();
}
