// oracle_C20.cpp -- violation search for C20: the documented domains of GLM's integer / bitfield / rounding / packing
// functions replayed through a build instrumented with -fsanitize=undefined,float-cast-overflow,address (recover mode).
// The program prints `CALL <function>` on stderr before each group of calls; the check attributes every sanitizer report
// that follows to that function.          usage: oracle_C20 sweep <seed> <tier>
#define GLM_ENABLE_EXPERIMENTAL
#include <glm/glm.hpp>
#include <glm/ext.hpp>
#include <glm/gtc/bitfield.hpp>
#include <glm/gtc/round.hpp>
#include <glm/gtc/packing.hpp>
#include <glm/gtc/ulp.hpp>
#include <glm/gtc/integer.hpp>
#include <glm/gtx/integer.hpp>
#include <glm/gtx/common.hpp>
#include <cstdio>
#include <cstdint>
#include <cstring>
#include <cmath>
#include <climits>
#include <string>
static uint64_t st;
static uint64_t rnd() { uint64_t z = (st += 0x9E3779B97F4A7C15ull); z = (z ^ (z >> 30)) * 0xBF58476D1CE4E5B9ull; z = (z ^ (z >> 27)) * 0x94D049BB133111EBull; return z ^ (z >> 31); }
static volatile double sink;
#define CALL(name) std::fprintf(stderr, "CALL %s\n", name)
template<class T> static void use(T v) { sink = sink * 0.5 + (double)v; }
static int ints[] = { 0, 1, -1, 2, -2, 3, 7, 8, 255, 256, 65535, 65536, 0x3fffffff, 0x40000000, 0x40000001, INT_MAX, INT_MAX - 1, INT_MIN, INT_MIN + 1, -0x40000000, -255 };
static float floats[] = { 0.f, -0.f, 0.5f, -0.5f, 0.49999997f, 1.5f, 2.5f, -2.5f, 8388607.5f, 8388609.f, 16777216.f, 2147483520.f, -2147483648.f, 1e-40f, 1.f, -1.f, 0.25f, 1000.75f };
// conversions between packed and aligned qualifiers (SIMD loads / stores in the intrinsics builds): the source and the destination live in heap blocks of exactly
// their own size, so that ASan sees any access past the L components of a packed vector; the whole destination object is consumed (a partially used
// register load may be narrowed by the optimiser)
#if GLM_CONFIG_ALIGNED_GENTYPES == GLM_ENABLE
static void consume(void const* p, size_t n) { unsigned char b[64]; std::memcpy(b, p, n); unsigned s = 0; for (size_t i = 0; i < n; ++i) s += b[i]; sink = sink * 0.5 + s; }
template<int L, class T, glm::qualifier P, glm::qualifier A> static void qconv(const char* name)
{
	CALL(name); typedef glm::vec<L, T, P> PV; typedef glm::vec<L, T, A> AV;
	PV* p = new PV((T)1); for (int i = 0; i < L; ++i) (*p)[i] = (T)(i + 1);
	AV* a = new AV(*p); consume(a, sizeof(AV)); for (int i = 0; i < L; ++i) if (!((*a)[i] == (T)(i + 1))) std::fprintf(stderr, "%s:0:0: runtime error: component %d changed by the packed -> aligned conversion\n", name, i);
	PV* q = new PV(*a); consume(q, sizeof(PV)); for (int i = 0; i < L; ++i) if (!((*q)[i] == (T)(i + 1))) std::fprintf(stderr, "%s:0:0: runtime error: component %d changed by the aligned -> packed conversion\n", name, i);
	AV* a2 = new AV((T)7); *a2 = AV(*q); consume(a2, sizeof(AV)); PV* q2 = new PV((T)9); *q2 = PV(*a2); consume(q2, sizeof(PV));
	delete p; delete a; delete q; delete a2; delete q2;
}
template<class T> static void qconv_all(const char* tn)
{
	static std::string n[12]; int k = 0;
	#define QC(L, P, A) n[k] = std::string("qualifier conversion vec") + #L + "<" + tn + "> " + #P + " <-> " + #A; qconv<L, T, glm::P, glm::A>(n[k].c_str()); ++k;
	QC(1, packed_highp, aligned_highp) QC(2, packed_highp, aligned_highp) QC(3, packed_highp, aligned_highp) QC(4, packed_highp, aligned_highp)
	QC(2, packed_mediump, aligned_mediump) QC(3, packed_mediump, aligned_mediump) QC(4, packed_mediump, aligned_mediump) QC(3, packed_lowp, aligned_lowp) QC(4, packed_lowp, aligned_lowp)
	QC(3, packed_highp, aligned_mediump) QC(4, packed_highp, aligned_lowp) QC(3, packed_lowp, aligned_highp)
	#undef QC
}
#endif
int main(int argc, char** argv)
{
	st = argc > 2 ? std::strtoull(argv[2], 0, 10) : 1; bool thorough = argc > 3 && std::string(argv[3]) == "thorough"; int N = thorough ? 20000 : 600; long calls = 0;
#if GLM_CONFIG_ALIGNED_GENTYPES == GLM_ENABLE
	qconv_all<float>("float"); qconv_all<double>("double"); qconv_all<int>("int"); qconv_all<unsigned>("uint"); qconv_all<glm::int64>("int64"); qconv_all<glm::int16>("int16"); calls += 72;
#endif
	for (int i = 0; i < N; ++i) {
		int x = i < (int)(sizeof ints / sizeof ints[0]) ? ints[i] : (int)rnd(); int y = ints[rnd() % (sizeof ints / sizeof ints[0])]; unsigned u = (unsigned)rnd(); if (i % 3 == 0) u = (unsigned)x;
		CALL("abs(int)"); if (x != INT_MIN) use(glm::abs(x));                          // abs(INT_MIN) is not representable: outside the domain
		CALL("sign(int)"); use(glm::sign(x)); use(glm::sign(glm::ivec3(x, y, 1)).x);
		CALL("min/max/clamp(int)"); use(glm::min(x, y)); use(glm::max(x, y)); use(glm::clamp(x, std::min(x, y), std::max(x, y)));
		CALL("bitCount"); use(glm::bitCount(x)); use(glm::bitCount(u)); CALL("findLSB"); use(glm::findLSB(x)); use(glm::findLSB(u)); CALL("findMSB"); use(glm::findMSB(x)); use(glm::findMSB(u));
		CALL("bitfieldReverse"); use(glm::bitfieldReverse(x)); use(glm::bitfieldReverse(u));
		for (int off = 0; off < 32; off += (thorough || off >= 30 ? 1 : 5)) for (int bits = 0; off + bits <= 32; bits += (thorough || bits < 2 || off + bits >= 29 ? 1 : 3)) {   // the quick tier keeps every field that ends at bit 29..32 (a 31-bit mask computed in int overflowed)
			CALL("bitfieldExtract(uint)"); use(glm::bitfieldExtract(u, off, bits)); CALL("bitfieldExtract(int)"); use(glm::bitfieldExtract(x, off, bits));
			CALL("bitfieldInsert(uint)"); use(glm::bitfieldInsert(u, (unsigned)y, off, bits)); CALL("bitfieldInsert(int)"); use(glm::bitfieldInsert(x, y, off, bits)); calls += 4; }
		for (int b = 0; b <= 40; b += (thorough ? 1 : 3)) { CALL("mask(int)"); use(glm::mask(b)); CALL("mask(uint)"); use(glm::mask((unsigned)b)); }
		for (int s = 0; s <= 32; s += (thorough ? 1 : 4)) { CALL("bitfieldRotateRight(uint)"); use(glm::bitfieldRotateRight(u, s)); CALL("bitfieldRotateLeft(uint)"); use(glm::bitfieldRotateLeft(u, s)); CALL("bitfieldRotateRight(int)"); use(glm::bitfieldRotateRight(x, s)); CALL("bitfieldRotateLeft(int)"); use(glm::bitfieldRotateLeft(x, s)); }
		for (int f = 0; f < 32; f += 7) for (int n = 0; f + n <= 32; n += 5) { CALL("bitfieldFillOne"); use(glm::bitfieldFillOne(u, f, n)); use(glm::bitfieldFillOne(x, f, n)); CALL("bitfieldFillZero"); use(glm::bitfieldFillZero(u, f, n)); use(glm::bitfieldFillZero(x, f, n)); }
		CALL("bitfieldInterleave"); use(glm::bitfieldInterleave((glm::uint16)u, (glm::uint16)(u >> 16))); use(glm::bitfieldInterleave((glm::int16)x, (glm::int16)y)); use(glm::bitfieldInterleave((glm::uint8)u, (glm::uint8)x, (glm::uint8)y)); use(glm::bitfieldDeinterleave(u).x);
		CALL("isPowerOfTwo"); if (x != INT_MIN) use(glm::isPowerOfTwo(x)); use(glm::isPowerOfTwo(u));
		CALL("ceilPowerOfTwo(uint)"); if (u <= 0x80000000u) use(glm::ceilPowerOfTwo(u)); CALL("ceilPowerOfTwo(int)"); if (x != INT_MIN && std::abs((long)x) <= 0x40000000) use(glm::ceilPowerOfTwo(x));
		CALL("floorPowerOfTwo"); if (x >= 0) use(glm::floorPowerOfTwo(x)); use(glm::floorPowerOfTwo(u)); CALL("prevPowerOfTwo"); if (x >= 0) use(glm::prevPowerOfTwo(x)); use(glm::prevPowerOfTwo(u)); use(glm::prevPowerOfTwo(glm::uvec2(u, 0u)).y);
		CALL("nextPowerOfTwo"); if (u <= 0x80000000u) use(glm::nextPowerOfTwo(u)); if (x >= 0 && x <= 0x40000000) use(glm::nextPowerOfTwo(x)); CALL("roundPowerOfTwo"); if (x >= 0 && x <= 0x40000000) use(glm::roundPowerOfTwo(x)); if (u <= 0x80000000u) use(glm::roundPowerOfTwo(u));
		{ int m = 1 + (int)(rnd() % 1000); int s = (int)(rnd() % 2000001) - 1000000; CALL("ceilMultiple(int)"); use(glm::ceilMultiple(s, m)); CALL("floorMultiple(int)"); use(glm::floorMultiple(s, m)); CALL("roundMultiple(int)"); use(glm::roundMultiple(s, m)); CALL("isMultiple"); use(glm::isMultiple(s, m));
		  CALL("ceilMultiple(uint)"); use(glm::ceilMultiple((unsigned)(s + 1000000), (unsigned)m)); CALL("findNSB"); use(glm::findNSB(u, 1 + (int)(rnd() % 32))); use(glm::findNSB(x, 1 + (int)(rnd() % 32))); }
		CALL("uaddCarry/usubBorrow/umulExtended/imulExtended"); { glm::uint c2, msb, lsb; use(glm::uaddCarry(u, (unsigned)y, c2)); use(glm::usubBorrow(u, (unsigned)y, c2)); glm::umulExtended(u, (unsigned)y, msb, lsb); use(msb); int im, il; glm::imulExtended(x, y, im, il); use(im); }
		CALL("gtx pow/sqrt/mod/factorial"); use(glm::pow(x % 40, (unsigned)(rnd() % 6))); if (x >= 0) use(glm::sqrt(x)); use(glm::sqrt(u)); if (y > 0 && y < 0x3fffffff) use(glm::mod(x, y)); use(glm::factorial(x & 7));
		float f = i < (int)(sizeof floats / sizeof floats[0]) ? floats[i] : (float)((double)(rnd() >> 11) / 9007199254740992.0 - 0.5) * (i % 2 ? 10.f : 4e9f);
		CALL("roundEven(float)"); if (std::fabs(f) < 2147483648.f) use(glm::roundEven(f)); CALL("iround/uround"); if (f >= 0 && f < 2147483520.f) { use(glm::iround(f)); use(glm::uround(f)); }
		// common functions that document no precondition: every float and double is in the domain, extreme magnitudes, infinities and NaN included
		{ static const float wide[] = { 3.0e9f, -3.0e9f, 2147483648.f, -2147483904.f, 4294967296.f, 1e20f, -1e20f, 3.4028234e38f, -3.4028234e38f, INFINITY, -INFINITY, NAN, 8388609.f, 16777217.f * 3.f };
		  float wf = (i % 3 == 0) ? wide[(i / 3) % (int)(sizeof wide / sizeof wide[0])] : f; double wd = (i % 2) ? (double)wf * 1e6 : (double)wf; if (i % 7 == 0) wd = 2147483649.0 + i;
		  CALL("floor/ceil/trunc/round/fract/mod (any float)"); use(glm::floor(wf) != 0.f); use(glm::ceil(wf) != 0.f); use(glm::trunc(wf) != 0.f); use(glm::round(wf) != 0.f); use(glm::fract(wf) != 0.f); use(glm::mod(wf, 2.f) != 0.f); use(glm::floor(wd) != 0.0); use(glm::round(wd) != 0.0); use(glm::fract(wd) != 0.0); use(glm::mod(wd, 2.0) != 0.0);
		  { glm::vec4 v(wf, -wf, wf * 0.5f, f); use(glm::floor(v).x != 0.f); use(glm::ceil(v).y != 0.f); use(glm::trunc(v).z != 0.f); use(glm::round(v).x != 0.f); use(glm::fract(v).y != 0.f); use(glm::mod(v, 2.f).x != 0.f); glm::dvec3 w(wd, -wd, wd * 0.5); use(glm::floor(w).x != 0.0); use(glm::round(w).y != 0.0); use(glm::fract(w).z != 0.0); }
		  CALL("abs/sign/min/max/clamp/step/mix/isnan/isinf (any float)"); use(glm::abs(wf) != 0.f); use(glm::sign(wf) != 0.f); use(glm::min(wf, f) != 0.f); use(glm::max(wf, f) != 0.f); use(glm::clamp(wf, -1.f, 1.f) != 0.f); use(glm::step(f, wf) != 0.f); use(glm::mix(f, wf, 0.5f) != 0.f); use(glm::isnan(wf)); use(glm::isinf(wf)); use(glm::sign(wd) != 0.0); use(glm::isnan(wd));
		  { glm::vec4 v(wf, -wf, wf * 0.5f, f); use(glm::abs(v).x != 0.f); use(glm::sign(v).y != 0.f); use(glm::min(v, glm::vec4(f)).x != 0.f); use(glm::clamp(v, -1.f, 1.f).z != 0.f); use(glm::isnan(v).x); use(glm::isinf(v).y); use(glm::fmin(wf, f, -wf) != 0.f); use(glm::fmax(wf, f) != 0.f); use(glm::fclamp(wf, -1.f, 1.f) != 0.f); }
		  CALL("texture wrap: clamp/repeat/mirrorClamp/mirrorRepeat (any float)"); use(glm::clamp(wf) != 0.f); use(glm::repeat(wf) != 0.f); use(glm::mirrorClamp(wf) != 0.f); use(glm::mirrorRepeat(wf) != 0.f); use(glm::clamp(wd) != 0.0); use(glm::repeat(wd) != 0.0); use(glm::mirrorClamp(wd) != 0.0); use(glm::mirrorRepeat(wd) != 0.0);
		  { glm::vec4 v(wf, -wf, wf * 0.5f, f); use(glm::clamp(v).x != 0.f); use(glm::repeat(v).y != 0.f); use(glm::mirrorClamp(v).z != 0.f); use(glm::mirrorRepeat(v).x != 0.f); glm::dvec2 w(wd, -wd); use(glm::mirrorRepeat(w).x != 0.0); use(glm::repeat(w).y != 0.0); } }
		CALL("floatBitsToInt/intBitsToFloat"); use(glm::floatBitsToInt(f)); use(glm::floatBitsToUint(f)); use(glm::intBitsToFloat(x) != 0.f); use(glm::uintBitsToFloat(u) != 0.f);
		CALL("frexp/ldexp/modf"); { int e; use(glm::frexp(f, e)); use(e); use(glm::ldexp(f, x % 100)); float ip; use(glm::modf(f, ip)); }
		CALL("packUnorm/packSnorm"); { glm::vec4 v(f, -f, f * 0.001f, 0.5f); use(glm::packSnorm1x16(-f)); use(glm::packSnorm1x8(-f)); use(glm::packUnorm1x16(f)); use(glm::packSnorm1x16(-0.75f)); use(glm::packSnorm1x8(-0.3f)); use(glm::packUnorm4x8(v)); use(glm::packSnorm4x8(v)); use(glm::packUnorm2x16(glm::vec2(v))); use(glm::packSnorm2x16(glm::vec2(v))); use(glm::packUnorm1x8(f)); use(glm::packSnorm1x16(f)); use(glm::packUnorm3x10_1x2(v)); use(glm::packSnorm3x10_1x2(v)); use(glm::packUnorm1x5_1x6_1x5(glm::vec3(v))); use(glm::packUnorm2x4(glm::vec2(v))); }
		CALL("packHalf/unpackHalf"); use(glm::packHalf2x16(glm::vec2(f, -f))); use(glm::unpackHalf2x16(u).x != 0.f); use(glm::packHalf1x16(f * 1e-5f));
		CALL("packF2x11_1x10/packF3x9_E1x5"); if (f >= 6.2e-5f && f < 65000.f) { use(glm::packF2x11_1x10(glm::vec3(f, f * 0.5f, 1.f))); use(glm::packF3x9_E1x5(glm::vec3(f, f * 0.5f, 1.f))); } use(glm::unpackF2x11_1x10(u).x != 0.f); use(glm::unpackF3x9_E1x5(u).x != 0.f);
		CALL("packI3x10_1x2/packU3x10_1x2"); use(glm::packI3x10_1x2(glm::ivec4(x % 512, y % 512, 1, 1))); use(glm::packU3x10_1x2(glm::uvec4(u % 1024, 3, 1, 1))); use(glm::unpackI3x10_1x2(u).x);
		CALL("nextFloat/prevFloat/floatDistance"); if (std::isfinite(f)) { use(glm::nextFloat(f) != 0.f); use(glm::prevFloat(f, 3) != 0.f); use(glm::floatDistance(f, glm::nextFloat(f, 7))); use(glm::equal(f, -f, 4)); }
		CALL("swizzle / vec operators"); { glm::ivec4 a(x / 2, y / 2, 1, 2), b(3, 4, (y % 1000) | 1, 7); use((a + b).x); use((a & b).y); use((a >> glm::ivec4(1, 2, 3, 4)).x); use((glm::uvec4(u) << glm::uvec4(1, 2, 3, 31)).w); if (b.z != 0 && !(a.z == INT_MIN)) use((a / glm::ivec4(7, 3, b.z, 1)).z); }
		calls += 60;
	}
	std::printf("STAT fn=sanitized_calls cases=%ld\n", calls); std::printf("TOTAL cases=%ld fails=0\n", calls);
	return 0;
}
