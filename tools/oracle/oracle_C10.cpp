// oracle_C10.cpp -- violation search for C10: inverse/determinant identities against long-double
// references on well-conditioned random matrices and exact checks on integer unimodular matrices.
#define GLM_ENABLE_EXPERIMENTAL
#include "oracle/oracle_common.hpp"
#include <glm/glm.hpp>
#include <glm/gtc/matrix_inverse.hpp>
#include <glm/gtx/matrix_operation.hpp>
#include <glm/gtx/matrix_query.hpp>
#include <glm/gtx/matrix_factorisation.hpp>
using namespace orc;
typedef long double LD;
template<int N> struct LM { LD a[N][N]; };   // a[c][r]
template<int N> static LD ldet(LM<N> m) { LD d = 1; for (int i = 0; i < N; ++i) { int p = i; for (int j = i + 1; j < N; ++j) if (fabsl(m.a[j][i]) > fabsl(m.a[p][i])) p = j; if (m.a[p][i] == 0) return 0; if (p != i) { for (int k = 0; k < N; ++k) std::swap(m.a[i][k], m.a[p][k]); d = -d; } d *= m.a[i][i]; for (int j = i + 1; j < N; ++j) { LD f = m.a[j][i] / m.a[i][i]; for (int k = i; k < N; ++k) m.a[j][k] -= f * m.a[i][k]; } } return d; }
template<int N> static bool linv(LM<N> m, LM<N>& out) { LM<N> I; for (int i = 0; i < N; ++i) for (int j = 0; j < N; ++j) I.a[i][j] = i == j; for (int i = 0; i < N; ++i) { int p = i; for (int j = i + 1; j < N; ++j) if (fabsl(m.a[j][i]) > fabsl(m.a[p][i])) p = j; if (m.a[p][i] == 0) return false; for (int k = 0; k < N; ++k) { std::swap(m.a[i][k], m.a[p][k]); std::swap(I.a[i][k], I.a[p][k]); } LD d = m.a[i][i]; for (int k = 0; k < N; ++k) { m.a[i][k] /= d; I.a[i][k] /= d; } for (int j = 0; j < N; ++j) if (j != i) { LD f = m.a[j][i]; for (int k = 0; k < N; ++k) { m.a[j][k] -= f * m.a[i][k]; I.a[j][k] -= f * I.a[i][k]; } } } out = I; return true; }
// exact integer determinant / inverse (for det = +-1) by cofactor expansion
static long long idet(std::vector<std::vector<long long> > const& m) { int n = (int)m.size(); if (n == 1) return m[0][0]; long long d = 0; for (int j = 0; j < n; ++j) { std::vector<std::vector<long long> > s; for (int i = 1; i < n; ++i) { std::vector<long long> row; for (int k = 0; k < n; ++k) if (k != j) row.push_back(m[i][k]); s.push_back(row); } d += ((j & 1) ? -1 : 1) * m[0][j] * idet(s); } return d; }
template<int N> static void exact_ref(LM<N> const& L, LD& det, LM<N>& inv) { std::vector<std::vector<long long> > m(N, std::vector<long long>(N)); for (int i = 0; i < N; ++i) for (int j = 0; j < N; ++j) m[i][j] = (long long)L.a[i][j];
	long long d = idet(m); det = (LD)d; for (int i = 0; i < N; ++i) for (int j = 0; j < N; ++j) { std::vector<std::vector<long long> > s; for (int a = 0; a < N; ++a) if (a != i) { std::vector<long long> row; for (int b = 0; b < N; ++b) if (b != j) row.push_back(m[a][b]); s.push_back(row); }
		long long cof = (N == 1) ? 1 : (((i + j) & 1) ? -1 : 1) * idet(s); inv.a[j][i] = (LD)(cof * d); /* d = +-1 so 1/d = d */ } }
// note: LM indices here are used as plain [i][j] arrays; conversion keeps glm's [c][r] so "inverse" is consistent
template<int N, class T> static LM<N> toL(glm::mat<N, N, T> const& m) { LM<N> r; for (int c = 0; c < N; ++c) for (int k = 0; k < N; ++k) r.a[c][k] = m[c][k]; return r; }
template<int N> static LD fro(LM<N> const& m) { LD s = 0; for (int i = 0; i < N; ++i) for (int j = 0; j < N; ++j) s += m.a[i][j] * m.a[i][j]; return sqrtl(s); }
template<int N, class T> static std::string ms(glm::mat<N, N, T> const& m) { std::string s = "["; for (int c = 0; c < N; ++c) { s += "("; for (int r = 0; r < N; ++r) { s += str((double)m[c][r]); if (r + 1 < N) s += ","; } s += ")"; } return s + "]"; }
template<class T> static const char* tn(); template<> const char* tn<float>() { return "f32"; } template<> const char* tn<double>() { return "f64"; }
template<int N, class T> static LD maxdiff_I(glm::mat<N, N, T> const& P) { LD d = 0; for (int c = 0; c < N; ++c) for (int r = 0; r < N; ++r) d = nmax(d, fabsl((LD)P[c][r] - (c == r ? 1 : 0))); return d; }

template<int N, class T> static void check(glm::mat<N, N, T> const& M, LD kappa, bool exact, std::string const& cls) {
	std::string sfx = "_" + std::to_string(N) + "_" + tn<T>(); LD eps = std::numeric_limits<T>::epsilon(); LD tol = exact ? 0 : 64 * eps * kappa;
	auto Inv = glm::inverse(M); LM<N> L = toL(M), Li; linv(L, Li); LD dex = 0; if (exact) exact_ref(L, dex, Li);
	count("inv" + sfx);
	LD e1 = maxdiff_I(Inv * M), e2 = maxdiff_I(M * Inv);
	if (!(e1 <= tol) || !(e2 <= tol)) fail("inv" + sfx, cls, ms(M), "|inverse(M)*M - I| <= " + str((double)tol), str((double)std::max(e1, e2)));
	// determinant vs reference, multiplicativity with transpose
	count("det" + sfx); LD dref = exact ? dex : ldet(L); LD dg = glm::determinant(M); LD scale = powl(fro(L), N);
	if (!(fabsl(dg - dref) <= (exact ? 0 : 64 * eps * scale))) fail("det" + sfx, cls, ms(M), str((double)dref), str((double)dg));
	LD dt = glm::determinant(glm::transpose(M)); if (!(fabsl(dt - dref) <= (exact ? 0 : 64 * eps * scale))) fail("det_tr" + sfx, cls, ms(M), str((double)dref), str((double)dt));
	// inverseTranspose = transpose(inverse)
	count("invtr" + sfx); auto IT = glm::inverseTranspose(M); LD e = 0, nI = fro(Li);
	for (int c = 0; c < N; ++c) for (int r = 0; r < N; ++r) e = nmax(e, fabsl((LD)IT[c][r] - Li.a[r][c]));
	if (!(e <= (exact ? 0 : 64 * eps * kappa * nI))) fail("invtr" + sfx, cls, ms(M), "transpose(inverse(M))", "max abs diff " + str((double)e));
	// adjugate * M = det * I
	count("adj" + sfx); auto A = glm::adjugate(M) * M; e = 0; for (int c = 0; c < N; ++c) for (int r = 0; r < N; ++r) e = nmax(e, fabsl((LD)A[c][r] - (c == r ? dref : 0)));
	if (!(e <= (exact ? 0 : 256 * eps * scale * N))) fail("adj" + sfx, cls, ms(M), "det*I", "max abs diff " + str((double)e));
	// operator/ : (M / M) = I ; (M*v)/M ... v / M = v * inverse(M)
	count("div" + sfx); LD e3 = maxdiff_I(M / M); if (!(e3 <= tol)) fail("div_mm" + sfx, cls, ms(M), "M/M = I", str((double)e3));
	// A / M = A * inverse(M) and A /= M likewise, with a second matrix A that does not commute with M (a shear of the identity plus M's transpose)
	{ glm::mat<N, N, T> A = glm::transpose(M); for (int c = 0; c < N; ++c) for (int r = 0; r < N; ++r) A[c][r] += (T)((c + 2 * r) % 3); auto Q = A / M; auto Qc = A; Qc /= M; LM<N> LA = toL(A); LD ed = 0, ec = 0, na = fro(LA) * fro(Li);
	  for (int c = 0; c < N; ++c) for (int r = 0; r < N; ++r) { LD w = 0; for (int k = 0; k < N; ++k) w += LA.a[k][r] * Li.a[c][k]; ed = nmax(ed, fabsl((LD)Q[c][r] - w)); ec = nmax(ec, fabsl((LD)Qc[c][r] - w)); }
	  LD td = exact ? 0 : 64 * eps * kappa * (1 + na); if (!(ed <= td) || !(ec <= td)) fail("div_mm" + sfx, cls + ":A / M with A != M", ms(M), "A * inverse(M)", "max abs diff " + str((double)ed) + " (operator/) " + str((double)ec) + " (operator/=)"); }
	// gtx/matrix_factorisation: M = Q R with orthonormal columns of Q and upper-triangular R (and M = R Q with orthonormal rows); gtx/matrix_query predicates
	if (!exact) { glm::mat<N, N, T> Q, R; glm::qr_decompose(M, Q, R); LD e1q = 0, e2q = 0, e3q = 0; auto QR = Q * R; for (int c = 0; c < N; ++c) for (int r = 0; r < N; ++r) { e1q = nmax(e1q, fabsl((LD)QR[c][r] - (LD)M[c][r])); if (r > c) e3q = nmax(e3q, fabsl((LD)R[c][r])); LD d = 0; for (int k = 0; k < N; ++k) d += (LD)Q[c][k] * Q[r][k]; e2q = nmax(e2q, fabsl(d - (c == r))); }
	  count("qr" + sfx); LD tq = 256 * eps * kappa * (1 + fro(L)); if (!(e1q <= tq && e2q <= tq && e3q <= tq)) fail("qr_decompose" + sfx, cls, ms(M), "Q R = M, Q^T Q = I, R upper triangular", "diffs " + str((double)e1q) + " " + str((double)e2q) + " " + str((double)e3q));
	  glm::mat<N, N, T> Q2, R2; glm::rq_decompose(M, R2, Q2); LD f1 = 0, f2 = 0; auto RQ = R2 * Q2; for (int c = 0; c < N; ++c) for (int r = 0; r < N; ++r) { f1 = nmax(f1, fabsl((LD)RQ[c][r] - (LD)M[c][r])); LD d = 0; for (int k = 0; k < N; ++k) d += (LD)Q2[k][c] * Q2[k][r]; f2 = nmax(f2, fabsl(d - (c == r))); }
	  if (!(f1 <= tq && f2 <= tq)) fail("rq_decompose" + sfx, cls, ms(M), "R Q = M, Q Q^T = I", "diffs " + str((double)f1) + " " + str((double)f2)); }
	{ count("matrix_query" + sfx); glm::mat<N, N, T> I((T)1), Z((T)0), P = I; P[N - 1][0] = (T)0.25; bool ok = glm::isIdentity(I, (T)1e-6) && !glm::isIdentity(P, (T)1e-3) && glm::isNull(Z, (T)1e-6) && !glm::isNull(P, (T)1e-3) && glm::isNormalized(I, (T)1e-6) && !glm::isNormalized(I * (T)2, (T)1e-3) && glm::isOrthogonal(I, (T)1e-6) && !glm::isOrthogonal(P + glm::transpose(P), (T)1e-3);
	  if (!ok) fail("matrix_query" + sfx, "predicates", "identity / null / one entry changed", "isIdentity, isNull, isNormalized, isOrthogonal on the obvious cases", "differs"); }
	glm::vec<N, T> v; for (int i = 0; i < N; ++i) v[i] = (T)(i + 1); auto q1 = M / v; auto q2 = Inv * v; auto q3 = v / M; auto q4 = v * Inv;
	for (int i = 0; i < N; ++i) if (q1[i] != q2[i] || q3[i] != q4[i]) fail("div_mv" + sfx, cls, ms(M), "inverse(M)*v", "differs");
}
template<int N, class T> static void check_affine(glm::mat<N, N, T> M, LD kappa, bool exact, std::string const& cls) {
	for (int c = 0; c < N; ++c) M[c][N - 1] = (c == N - 1) ? (T)1 : (T)0;
	LM<N> L = toL(M), Li; if (!linv(L, Li)) return; if (exact) { LD dd; exact_ref(L, dd, Li); if (fabsl(dd) != 1) return; } LD k2 = fro(L) * fro(Li); if (!exact && k2 > kappa) return;
	std::string sfx = "_" + std::to_string(N) + "_" + tn<T>(); count("affinv" + sfx);
	auto A = glm::affineInverse(M); LD e = 0; for (int c = 0; c < N; ++c) for (int r = 0; r < N; ++r) e = nmax(e, fabsl((LD)A[c][r] - Li.a[c][r]));
	LD tol = exact ? 0 : 64 * std::numeric_limits<T>::epsilon() * k2 * fro(Li);
	if (!(e <= tol)) fail("affinv" + sfx, cls, ms(M), "inverse(M)", "max abs diff " + str((double)e));
}
template<int N, class T> static void run(Rng& g, int n) {
	LD kmax = std::is_same<T, float>::value ? 1e3L : 1e6L;
	for (int it = 0; it < n; ++it) {
		glm::mat<N, N, T> M; int kind = it % 4;
		for (int c = 0; c < N; ++c) for (int r = 0; r < N; ++r) M[c][r] = (T)g.real(-2, 2);
		if (kind == 1) for (int c = 0; c < N; ++c) for (int r = 0; r < N; ++r) if (r > c) M[c][r] = 0;                // triangular
		if (kind == 2) { int p[4] = {0, 1, 2, 3}; for (int i = N - 1; i > 0; --i) std::swap(p[i], p[g.range(0, i)]); for (int c = 0; c < N; ++c) for (int r = 0; r < N; ++r) M[c][r] = (T)((r == p[c] ? g.real(0.5, 2) * (g.range(0, 1) ? 1 : -1) : 0) + g.real(-0.05, 0.05)); }   // permutation-like
		LM<N> L = toL(M), Li; if (!linv(L, Li)) continue; LD kappa = fro(L) * fro(Li); if (kappa > kmax) continue;
		check<N, T>(M, kappa, false, kind == 1 ? "triangular" : kind == 2 ? "permutation-like" : "general");
		// the same well-conditioned matrix at another scale: inverse and determinant are homogeneous, no absolute threshold on the determinant is legitimate
		if (it % 3 == 0) { int kx = std::is_same<T, float>::value ? 4 : 30; LD sc = powl(10, (LD)g.range(-kx, kx)); glm::mat<N, N, T> Ms = M * (T)sc; LM<N> Ls = toL(Ms); std::string sfx = "_" + std::to_string(N) + "_" + tn<T>(); LD eps = std::numeric_limits<T>::epsilon();
		  count("inv_scaled" + sfx); auto Is = glm::inverse(Ms); LD e1 = maxdiff_I(Is * Ms), e2 = maxdiff_I(Ms * Is); if (!(e1 <= 64 * eps * kappa) || !(e2 <= 64 * eps * kappa)) fail("inv_scaled" + sfx, "well-conditioned matrix times 10^k", ms(Ms), "|inverse(M)*M - I| <= " + str((double)(64 * eps * kappa)), str((double)nmax(e1, e2)));
		  LD dref = ldet(Ls), dg = glm::determinant(Ms); if (!(fabsl(dg - dref) <= 64 * eps * powl(fro(Ls), N))) fail("det_scaled" + sfx, "well-conditioned matrix times 10^k", ms(Ms), str((double)dref), str((double)dg)); }
		if constexpr (N >= 3) check_affine<N, T>(M, kmax, false, "affine");
		if (it < 2) sample(std::string("inverse_") + std::to_string(N) + "_" + tn<T>() + " " + ms(M));
	}
	// integer unimodular matrices: products of elementary shears and swaps with small entries -> exact
	for (int it = 0; it < n; ++it) {
		glm::mat<N, N, T> M((T)1);
		for (int s = 0; s < 3; ++s) { int i = g.range(0, N - 1), j = g.range(0, N - 1); if (i == j) continue; glm::mat<N, N, T> E((T)1); E[i][j] = (T)g.range(-2, 2); M = M * E; }
		if (g.range(0, 1)) { int i = g.range(0, N - 1), j = g.range(0, N - 1); if (i != j) { auto t = M[i]; M[i] = M[j]; M[j] = t; } }
		check<N, T>(M, 1, true, "unimodular-integer");
		if constexpr (N >= 3) check_affine<N, T>(M, 1, true, "unimodular-integer-affine");
	}
}
int main(int argc, char** argv) {
	uint64_t seed = argc > 2 ? std::strtoull(argv[2], 0, 10) : 1; int n = (argc > 3 && std::string(argv[3]) == "thorough") ? 20000 : 2000;
	Rng g(seed); run<2, float>(g, n); run<3, float>(g, n); run<4, float>(g, n); run<2, double>(g, n); run<3, double>(g, n); run<4, double>(g, n);
	return finish();
}
