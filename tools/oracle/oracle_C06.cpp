// oracle_C06.cpp -- violation search for C06 with references written in double / integer arithmetic.
// usage: oracle_C06 sweep <seed> <tier>
// Per normalised format: lossless re-pack of every canonical code of every field, unpack.pack.unpack = unpack for every
// code, |decode(pack(x)) - x| <= half a step for x in range, clamping outside, monotone packing, first component in
// the least significant bits.  Small floats / shared exponent: decode values against ldexp, one mantissa step.
// Conventions (never reported): NaN inputs of normalised formats (undefined conversion, property C20).
#define GLM_ENABLE_EXPERIMENTAL
#include <glm/glm.hpp>
#include <glm/packing.hpp>
#include <glm/gtc/packing.hpp>
#include <glm/gtc/type_precision.hpp>
#include "oracle_common.hpp"
#include <functional>
#include <thread>
#include <mutex>
#include <atomic>
using namespace orc;
static std::mutex g_mu;
static void tfail(std::string const& fn, std::string const& cls, std::string const& in, std::string const& ex, std::string const& got) { std::lock_guard<std::mutex> l(g_mu); fail(fn, cls, in, ex, got); }
typedef unsigned long long ull;
struct Fmt { const char* name; std::vector<int> bits; std::vector<int> scale; bool sg; std::function<ull(const float*)> pack; std::function<void(ull, float*)> unpack; };
template<class V> static void store(V const& v, float* o) { for (int i = 0; i < (int)v.length(); ++i) o[i] = v[i]; }
static std::vector<Fmt> formats()
{
	using namespace glm; std::vector<Fmt> F;
	F.push_back({"Unorm2x16", {16, 16}, {65535, 65535}, false, [](const float* x) { return (ull)packUnorm2x16(vec2(x[0], x[1])); }, [](ull p, float* o) { store(unpackUnorm2x16((uint)p), o); }});
	F.push_back({"Snorm2x16", {16, 16}, {32767, 32767}, true, [](const float* x) { return (ull)packSnorm2x16(vec2(x[0], x[1])); }, [](ull p, float* o) { store(unpackSnorm2x16((uint)p), o); }});
	F.push_back({"Unorm4x8", {8, 8, 8, 8}, {255, 255, 255, 255}, false, [](const float* x) { return (ull)packUnorm4x8(vec4(x[0], x[1], x[2], x[3])); }, [](ull p, float* o) { store(unpackUnorm4x8((uint)p), o); }});
	F.push_back({"Snorm4x8", {8, 8, 8, 8}, {127, 127, 127, 127}, true, [](const float* x) { return (ull)packSnorm4x8(vec4(x[0], x[1], x[2], x[3])); }, [](ull p, float* o) { store(unpackSnorm4x8((uint)p), o); }});
	F.push_back({"Unorm1x8", {8}, {255}, false, [](const float* x) { return (ull)packUnorm1x8(x[0]); }, [](ull p, float* o) { o[0] = unpackUnorm1x8((uint8)p); }});
	F.push_back({"Unorm2x8", {8, 8}, {255, 255}, false, [](const float* x) { return (ull)packUnorm2x8(vec2(x[0], x[1])); }, [](ull p, float* o) { store(unpackUnorm2x8((uint16)p), o); }});
	F.push_back({"Snorm1x8", {8}, {127}, true, [](const float* x) { return (ull)packSnorm1x8(x[0]); }, [](ull p, float* o) { o[0] = unpackSnorm1x8((uint8)p); }});
	F.push_back({"Snorm2x8", {8, 8}, {127, 127}, true, [](const float* x) { return (ull)packSnorm2x8(vec2(x[0], x[1])); }, [](ull p, float* o) { store(unpackSnorm2x8((uint16)p), o); }});
	F.push_back({"Unorm1x16", {16}, {65535}, false, [](const float* x) { return (ull)packUnorm1x16(x[0]); }, [](ull p, float* o) { o[0] = unpackUnorm1x16((uint16)p); }});
	F.push_back({"Unorm4x16", {16, 16, 16, 16}, {65535, 65535, 65535, 65535}, false, [](const float* x) { return (ull)packUnorm4x16(vec4(x[0], x[1], x[2], x[3])); }, [](ull p, float* o) { store(unpackUnorm4x16((uint64)p), o); }});
	F.push_back({"Snorm1x16", {16}, {32767}, true, [](const float* x) { return (ull)packSnorm1x16(x[0]); }, [](ull p, float* o) { o[0] = unpackSnorm1x16((uint16)p); }});
	F.push_back({"Snorm4x16", {16, 16, 16, 16}, {32767, 32767, 32767, 32767}, true, [](const float* x) { return (ull)packSnorm4x16(vec4(x[0], x[1], x[2], x[3])); }, [](ull p, float* o) { store(unpackSnorm4x16((uint64)p), o); }});
	F.push_back({"Snorm3x10_1x2", {10, 10, 10, 2}, {511, 511, 511, 1}, true, [](const float* x) { return (ull)packSnorm3x10_1x2(vec4(x[0], x[1], x[2], x[3])); }, [](ull p, float* o) { store(unpackSnorm3x10_1x2((uint32)p), o); }});
	F.push_back({"Unorm3x10_1x2", {10, 10, 10, 2}, {1023, 1023, 1023, 3}, false, [](const float* x) { return (ull)packUnorm3x10_1x2(vec4(x[0], x[1], x[2], x[3])); }, [](ull p, float* o) { store(unpackUnorm3x10_1x2((uint32)p), o); }});
	F.push_back({"Unorm2x4", {4, 4}, {15, 15}, false, [](const float* x) { return (ull)packUnorm2x4(vec2(x[0], x[1])); }, [](ull p, float* o) { store(unpackUnorm2x4((uint8)p), o); }});
	F.push_back({"Unorm4x4", {4, 4, 4, 4}, {15, 15, 15, 15}, false, [](const float* x) { return (ull)packUnorm4x4(vec4(x[0], x[1], x[2], x[3])); }, [](ull p, float* o) { store(unpackUnorm4x4((uint16)p), o); }});
	F.push_back({"Unorm1x5_1x6_1x5", {5, 6, 5}, {31, 63, 31}, false, [](const float* x) { return (ull)packUnorm1x5_1x6_1x5(vec3(x[0], x[1], x[2])); }, [](ull p, float* o) { store(unpackUnorm1x5_1x6_1x5((uint16)p), o); }});
	F.push_back({"Unorm3x5_1x1", {5, 5, 5, 1}, {31, 31, 31, 1}, false, [](const float* x) { return (ull)packUnorm3x5_1x1(vec4(x[0], x[1], x[2], x[3])); }, [](ull p, float* o) { store(unpackUnorm3x5_1x1((uint16)p), o); }});
	F.push_back({"Unorm2x3_1x2", {3, 3, 2}, {7, 7, 3}, false, [](const float* x) { return (ull)packUnorm2x3_1x2(vec3(x[0], x[1], x[2])); }, [](ull p, float* o) { store(unpackUnorm2x3_1x2((uint8)p), o); }});
	F.push_back({"packUnorm<uint8>", {8, 8}, {255, 255}, false, [](const float* x) { u8vec2 r = packUnorm<uint8>(vec2(x[0], x[1])); return (ull)r.x | ((ull)r.y << 8); }, [](ull p, float* o) { store(unpackUnorm<float>(u8vec2((uint8)p, (uint8)(p >> 8))), o); }});
	F.push_back({"packUnorm<uint16>", {16, 16}, {65535, 65535}, false, [](const float* x) { u16vec2 r = packUnorm<uint16>(vec2(x[0], x[1])); return (ull)r.x | ((ull)r.y << 16); }, [](ull p, float* o) { store(unpackUnorm<float>(u16vec2((uint16)p, (uint16)(p >> 16))), o); }});
	F.push_back({"packSnorm<int8>", {8, 8}, {127, 127}, true, [](const float* x) { i8vec2 r = packSnorm<int8>(vec2(x[0], x[1])); return (ull)(uint8)r.x | ((ull)(uint8)r.y << 8); }, [](ull p, float* o) { store(unpackSnorm<float>(i8vec2((int8)(uint8)p, (int8)(uint8)(p >> 8))), o); }});
	F.push_back({"packSnorm<int16>", {16, 16}, {32767, 32767}, true, [](const float* x) { i16vec2 r = packSnorm<int16>(vec2(x[0], x[1])); return (ull)(uint16)r.x | ((ull)(uint16)r.y << 16); }, [](ull p, float* o) { store(unpackSnorm<float>(i16vec2((int16)(uint16)p, (int16)(uint16)(p >> 16))), o); }});
	return F;
}
static std::string fl(const float* x, int n) { std::string s; for (int i = 0; i < n; ++i) s += (i ? "," : "") + str(x[i]) + "[" + hex(f2u(x[i])) + "]"; return s; }
static long sval(ull c, int b, bool sg) { return (sg && (c >> (b - 1))) ? (long)c - (1l << b) : (long)c; }
static void check_format(Fmt const& f, Rng& r, bool thorough)
{
	int n = (int)f.bits.size(); int total = 0; for (int b : f.bits) total += b; std::string fn = f.name; long cases = 0;
	int off = 0;
	for (int k = 0; k < n; ++k) { int b = f.bits[k]; int stride = (!thorough && b == 16 && n > 1) ? 5 : 1;
		for (ull c = 0; c < (1ull << b); c += stride) {
			ull w = total >= 64 ? r.next() : (r.next() & ((1ull << total) - 1)); w = (w & ~(((1ull << b) - 1) << off)) | (c << off);
			// make the other fields canonical (not the most negative code)
			if (f.sg) { int o2 = 0; for (int j = 0; j < n; ++j) { if (j != k) { ull m = ((1ull << f.bits[j]) - 1) << o2; if (((w & m) >> o2) == (1ull << (f.bits[j] - 1))) w ^= (1ull << o2); } o2 += f.bits[j]; } }
			float o[4], o2[4]; f.unpack(w, o); ull back = f.pack(o); f.unpack(back, o2); ++cases;
			bool canonical = !(f.sg && c == (1ull << (b - 1)));
			if (canonical && back != w) tfail(fn, "re-pack of an unpacked word", "word " + hex(w) + " field " + str(k) + " code " + hex(c), hex(w), hex(back) + " via " + fl(o, n));
			for (int j = 0; j < n; ++j) if (f2u(o[j]) != f2u(o2[j])) { tfail(fn, "unpack(pack(unpack(p))) != unpack(p)", "word " + hex(w), fl(o, n), fl(o2, n)); break; }
			// decoded value: code / scale exactly in double, rounded once to float (tolerance 1 ulp for the constant-multiply form)
			double ex = (double)sval(c, b, f.sg) / (double)f.scale[k]; if (ex < -1) ex = -1; if (nabs((double)o[k] - ex) > 1.2e-7 * std::max(1e-30, std::fabs(ex))) tfail(fn, "decoded value", "field " + str(k) + " code " + hex(c), str(ex), str(o[k]));
		}
		off += b; }
	// packing: quantisation, clamping, monotonicity, layout
	int N = thorough ? 200000 : 8000;
	for (int i = 0; i < N; ++i) {
		int k = r.range(0, n - 1); double s = f.scale[k]; float lo = f.sg ? -1.f : 0.f; float x[4] = { 0.25f, 0.5f, 0.75f, 1.f }, y[4];
		float v; switch (i % 8) { case 0: v = (float)((r.range(0, f.scale[k]) + 0.5) / s) * (f.sg && (i & 8) ? -1.f : 1.f); break; case 1: v = std::nextafter((float)((r.range(0, f.scale[k]) + 0.5) / s), 0.f); break; case 2: v = (float)r.real(lo, 1); break;
			case 3: v = (float)r.real(1, 50); break; case 4: v = (float)r.real(-50, lo); break; case 5: v = u2f((uint32_t)r.next() & 0x807fffffu); break; case 6: v = (i & 8) ? INFINITY : -INFINITY; break; default: v = (float)r.real(lo, 1) * 1e-3f; }
		x[k] = v; std::memcpy(y, x, sizeof x); ull w = f.pack(x); int offk = 0; for (int j = 0; j < k; ++j) offk += f.bits[j]; ull c = (w >> offk) & ((1ull << f.bits[k]) - 1); long cv = sval(c, f.bits[k], f.sg); ++cases;
		double cl = std::min(1.0, std::max((double)lo, (double)v)); double want = cl * s; // exact in double
		if (nabs((double)cv - want) > 0.5 + 1e-4 * 0.5 + std::fabs(want) * 1.3e-7) tfail(fn, v > 1 || v < lo ? "clamping" : "quantisation (more than half a step)", fl(x, n) + " component " + str(k), str(want), str(cv));
		// the other components must not disturb field k, and field k sits at offset sum(bits[0..k-1])
		y[(k + 1) % n] = (n > 1) ? 0.f : y[0]; if (n > 1) { ull w2 = f.pack(y); if (((w2 >> offk) & ((1ull << f.bits[k]) - 1)) != c) tfail(fn, "layout (field depends on another component)", fl(x, n), hex(c), hex((w2 >> offk) & ((1ull << f.bits[k]) - 1))); }
		// monotone: a larger input never packs to a smaller code
		float v2 = (i & 1) ? std::nextafter(v, INFINITY) : v + (float)r.real(0, 0.01); if (std::isfinite(v) && std::isfinite(v2)) { y[k] = v2; std::memcpy(y, x, sizeof x); y[k] = v2; ull w3 = f.pack(y); long c3 = sval((w3 >> offk) & ((1ull << f.bits[k]) - 1), f.bits[k], f.sg); if (c3 < cv) tfail(fn, "monotonicity", fl(x, n) + " then component " + str(k) + " = " + str(v2), ">= " + str(cv), str(c3)); }
	}
	{ float z[4] = { 0, 0, 0, 0 }; int offk = 0; for (int k = 0; k < n; ++k) { float x[4] = { 0, 0, 0, 0 }; x[k] = 1.f; ull w = f.pack(x); ull want = (ull)f.scale[k] << offk; if (w != want) tfail(fn, "layout (first component in the least significant bits)", "only component " + str(k) + " = 1", hex(want), hex(w)); offk += f.bits[k]; } (void)z; }
	{ std::lock_guard<std::mutex> l(g_mu); count(fn, cases); }
}
// ---- small floats: unsigned, 5 exponent bits (bias 15), M mantissa bits
static double sf_value(uint32_t c, int M) { uint32_t e = c >> M, m = c & ((1u << M) - 1); if (e == 0) return std::ldexp((double)m, -14 - M); return std::ldexp(1.0 + (double)m / (1u << M), (int)e - 15); }
static void small_floats(Rng& r, bool thorough)
{
	long cases = 0;
	for (int field = 0; field < 3; ++field) { int M = field == 2 ? 5 : 6; int B = M + 5; int off = field == 0 ? 0 : (field == 1 ? 11 : 22); const char* fnm = "unpackF2x11_1x10";
		for (uint32_t c = 0; c < (1u << B); ++c) { uint32_t w = (uint32_t)r.next(); w = (w & ~(((1u << B) - 1) << off)) | (c << off); glm::vec3 u = glm::unpackF2x11_1x10(w); float d = u[field]; uint32_t e = c >> M, m = c & ((1u << M) - 1); ++cases;
			std::string in = "field " + str(field) + " code " + hex(c);
			if (e == 31) { if (m == 0 ? !(std::isinf(d) && d > 0) : !std::isnan(d)) tfail(fnm, "Inf/NaN code", in, m == 0 ? "+inf" : "nan", str(d)); }
			else if (e == 0 && m != 0) { if ((double)d != sf_value(c, M)) tfail(fnm, "denormal code (decoded as if it had an implicit leading 1)", in, str(sf_value(c, M)), str(d)); }
			else if ((double)d != sf_value(c, M)) tfail(fnm, "decoded value", in, str(sf_value(c, M)), str(d));
			// re-pack
			if (!(e == 31 && m != 0)) { glm::vec3 v(1.f); v[field] = d; uint32_t back = (glm::packF2x11_1x10(v) >> off) & ((1u << B) - 1); if (back != c) tfail("packF2x11_1x10", "re-pack of an unpacked code", in + " decoded " + str(d), hex(c), hex(back)); }
		} }
	int N = thorough ? 400000 : 20000;
	for (int i = 0; i < N; ++i) { int field = r.range(0, 2); int M = field == 2 ? 5 : 6; int B = M + 5; int off = field == 0 ? 0 : (field == 1 ? 11 : 22); double maxv = std::ldexp(2.0 - std::ldexp(1.0, -M), 15);
		float x; switch (i % 8) { case 0: x = (float)std::ldexp(r.real(1, 2), r.range(-14, 15)); break; case 1: x = -(float)std::ldexp(r.real(1, 2), r.range(-14, 15)); break; case 2: x = (float)std::ldexp(r.real(1, 2), r.range(-30, -15)); break;
			case 3: x = (float)std::ldexp(r.real(1, 2), r.range(16, 60)); break; case 4: x = (float)maxv; break; case 5: x = 0.f; break; case 6: x = INFINITY; break; default: x = (float)r.real(0, 70000); }
		glm::vec3 v(1.f); v[field] = x; uint32_t w = glm::packF2x11_1x10(v); uint32_t c = (w >> off) & ((1u << B) - 1); ++cases; std::string in = "field " + str(field) + " x=" + str(x);
		double d = (c >> M) == 31 ? ((c & ((1u << M) - 1)) ? NAN : INFINITY) : sf_value(c, M);
		if (x < 0) { if (c != 0) tfail("packF2x11_1x10", "negative input (sign dropped, not clamped to 0)", in, "code 0", hex(c)); }
		else if (std::isinf(x)) { if (!(std::isinf(d))) tfail("packF2x11_1x10", "infinite input", in, "inf code", hex(c)); }
		else if (x > maxv) { if (!(d == maxv || std::isinf(d))) tfail("packF2x11_1x10", "finite input above the largest value (no clamp)", in, str(maxv), str(d)); }
		else if (x != 0 && x < std::ldexp(1.0, -14)) { if (!(std::fabs(d - x) <= std::ldexp(1.0, -14 - M))) tfail("packF2x11_1x10", "input below the smallest normal 2^-14", in, "within " + str(std::ldexp(1.0, -14 - M)), str(d)); }
		else { double step = x == 0 ? 0 : std::ldexp(1.0, (int)std::floor(std::log2((double)x)) - M); if (!(std::fabs(d - x) <= step)) tfail("packF2x11_1x10", "more than one mantissa step", in, str(x), str(d)); }
		// monotone over the normal range
		if (x >= std::ldexp(1.0, -14) && x < maxv * 0.99) { glm::vec3 v2(1.f); v2[field] = std::nextafter(x, INFINITY) * 1.01f; uint32_t c2 = (glm::packF2x11_1x10(v2) >> off) & ((1u << B) - 1); if (c2 < c) tfail("packF2x11_1x10", "monotonicity", in, ">= " + hex(c), hex(c2)); }
	}
	// shared exponent 9/9/9/5
	const double E5max = std::ldexp(511.0 / 512.0, 16);   // 65408
	for (int i = 0; i < N; ++i) { uint32_t w = (uint32_t)r.next(); glm::vec3 u = glm::unpackF3x9_E1x5(w); uint32_t e = w >> 27; ++cases;
		for (int k = 0; k < 3; ++k) { double ex = std::ldexp((double)((w >> (9 * k)) & 511), (int)e - 24); if ((double)u[k] != ex) { tfail("unpackF3x9_E1x5", "decoded value", hex(w), str(ex), str(u[k])); break; } }
		uint32_t back = glm::packF3x9_E1x5(u); glm::vec3 u2 = glm::unpackF3x9_E1x5(back); if (u2 != u) tfail("packF3x9_E1x5", "unpack(pack(unpack(p))) != unpack(p)", hex(w), str(u.x) + "," + str(u.y) + "," + str(u.z), str(u2.x) + "," + str(u2.y) + "," + str(u2.z));
		uint32_t mx = std::max(w & 511, std::max((w >> 9) & 511, (w >> 18) & 511)); if ((mx >= 256 || e == 0) && back != w) tfail("packF3x9_E1x5", "re-pack of a canonical word", hex(w), hex(w), hex(back));
		glm::vec3 v((float)std::ldexp(r.real(0, 1), r.range(-20, 15)), (float)std::ldexp(r.real(0, 1), r.range(-20, 15)), (float)std::ldexp(r.real(0, 1), r.range(-20, 15))); if (i % 5 == 0) v[r.range(0, 2)] = (float)r.real(30000, 70000); if (i % 7 == 0) v[r.range(0, 2)] = -(float)r.real(0, 10);
		glm::vec3 d = glm::unpackF3x9_E1x5(glm::packF3x9_E1x5(v)); double m = std::max(0.0, std::max((double)v.x, std::max((double)v.y, (double)v.z))); m = std::min(m, E5max); int ee = m > 0 ? std::max(-16, (int)std::floor(std::log2(m))) : -16; double step = std::ldexp(1.0, ee + 1 - 9);
		for (int k = 0; k < 3; ++k) { double t = std::min(E5max, std::max(0.0, (double)v[k])); if (nabs((double)d[k] - t) > step) { tfail("packF3x9_E1x5", v[k] > 32768 ? "component above 32768" : (v[k] < 0 ? "negative component" : "more than one mantissa step"), str(v.x) + "," + str(v.y) + "," + str(v.z), str(t), str(d[k])); break; } } }
	// RGBM
	for (int i = 0; i < N / 4; ++i) { glm::vec3 c((float)r.real(0, 6), (float)r.real(0, 6), (float)r.real(0, 6)); if (i % 4 == 0) c *= 0.01f; glm::vec3 b = glm::unpackRGBM(glm::packRGBM(c)); ++cases;
		for (int k = 0; k < 3; ++k) if (nabs(b[k] - c[k]) > 1e-5f * (1.f + c[k])) { tfail("packRGBM", "unpackRGBM(packRGBM(c)) != c", str(c.x) + "," + str(c.y) + "," + str(c.z), str(c[k]), str(b[k])); break; } glm::vec4 p = glm::packRGBM(c); if (!(p.w > 0 && p.w <= 1 && p.x <= 1.0001f && p.y <= 1.0001f && p.z <= 1.0001f)) tfail("packRGBM", "components outside [0,1]", str(c.x) + "," + str(c.y) + "," + str(c.z), "", str(p.x) + "," + str(p.y) + "," + str(p.z) + "," + str(p.w)); }
	// double-precision templates and half vectors (layout only; values: property C07)
	for (int i = 0; i < N / 4; ++i) { double x = r.real(-0.2, 1.2); glm::dvec2 v(x, 0.5); glm::u8vec2 p = glm::packUnorm<glm::uint8>(v); double want = std::min(1.0, std::max(0.0, x)) * 255.0; ++cases; if (nabs((double)p.x - want) > 0.5 + 1e-9) tfail("packUnorm<uint8>(dvec)", "quantisation", str(x), str(want), str((int)p.x));
		glm::i16vec2 q = glm::packSnorm<glm::int16>(glm::dvec2(0.5, x * 2 - 1)); double w2 = std::min(1.0, std::max(-1.0, x * 2 - 1)) * 32767.0; if (nabs((double)q.y - w2) > 0.5 + 1e-9) tfail("packSnorm<int16>(dvec)", "quantisation", str(x * 2 - 1), str(w2), str((int)q.y));
		float h1 = (float)r.real(-100, 100), h2 = (float)r.real(-1, 1); glm::uint ph = glm::packHalf2x16(glm::vec2(h1, h2)); if ((ph & 0xffff) != glm::packHalf1x16(h1) || (ph >> 16) != glm::packHalf1x16(h2)) tfail("packHalf2x16", "layout (first component in the least significant bits)", str(h1) + "," + str(h2), "", hex(ph));
		glm::uint64 p4 = glm::packHalf4x16(glm::vec4(h1, h2, 1.f, 2.f)); if ((p4 & 0xffff) != glm::packHalf1x16(h1) || ((p4 >> 16) & 0xffff) != glm::packHalf1x16(h2) || (p4 >> 48) != glm::packHalf1x16(2.f)) tfail("packHalf4x16", "layout", str(h1) + "," + str(h2), "", hex(p4));
		glm::u16vec3 pv = glm::packHalf(glm::vec3(h1, h2, 1.f)); if (pv.x != glm::packHalf1x16(h1) || pv.y != glm::packHalf1x16(h2)) tfail("packHalf", "vector overload differs from packHalf1x16", str(h1), "", ""); }
	// generic templates packUnorm<uintType>(vec<L, floatType>) / unpackUnorm<floatType>(vec<L, uintType>) and the Snorm pair, every combination of
	// float / double with 8-, 16- and 32-bit fields (32-bit fields need double): decoded value = code / max within half a quantisation step,
	// end codes decode to exactly 0 / +-1, re-packing a decoded code is lossless
#define GEN_U(FT, UT, NAME) { const long double mx = (long double)std::numeric_limits<UT>::max(); for (int i = 0; i < N / 8; ++i) { UT c = (UT)r.next(); if (i == 0) c = 0; if (i == 1) c = std::numeric_limits<UT>::max(); if (i == 2) c = (UT)(std::numeric_limits<UT>::max() - 1); if (i % 5 == 3) c = (UT)(std::numeric_limits<UT>::max() - (UT)(r.next() & 0x7f)); \
		glm::vec<2, UT> pv(c, (UT)7); glm::vec<2, FT> d = glm::unpackUnorm<FT>(pv); ++cases; long double want = (long double)c / mx; \
		if (nabs((long double)d.x - want) > 0.25L / mx + 2 * (long double)std::numeric_limits<FT>::epsilon() || (c == std::numeric_limits<UT>::max() && d.x != (FT)1) || (c == 0 && d.x != (FT)0)) tfail(NAME, "decoded value", str((double)c), str((double)want), str((double)d.x)); \
		glm::vec<2, UT> back = glm::packUnorm<UT>(d); if (back.x != c || back.y != (UT)7) tfail(NAME, "re-pack of a decoded code", str((double)c), str((double)c), str((double)back.x)); } }
#define GEN_S(FT, IT, NAME) { const long double mx = (long double)std::numeric_limits<IT>::max(); for (int i = 0; i < N / 8; ++i) { IT c = (IT)r.next(); if (c == std::numeric_limits<IT>::min()) c = 0; if (i == 1) c = std::numeric_limits<IT>::max(); if (i == 2) c = (IT)(-std::numeric_limits<IT>::max()); if (i % 5 == 3) c = (IT)(std::numeric_limits<IT>::max() - (IT)(r.next() & 0x3f)); if (i % 5 == 4) c = (IT)(-(std::numeric_limits<IT>::max() - (IT)(r.next() & 0x3f))); if (c == std::numeric_limits<IT>::min()) c = (IT)1; /* the most negative code is not canonical */ \
		glm::vec<2, IT> pv(c, (IT)-3); glm::vec<2, FT> d = glm::unpackSnorm<FT>(pv); ++cases; long double want = (long double)c / mx; \
		if (nabs((long double)d.x - want) > 0.25L / mx + 2 * (long double)std::numeric_limits<FT>::epsilon() || (c == std::numeric_limits<IT>::max() && d.x != (FT)1) || (c == -std::numeric_limits<IT>::max() && d.x != (FT)-1)) tfail(NAME, "decoded value", str((double)c), str((double)want), str((double)d.x)); \
		glm::vec<2, IT> back = glm::packSnorm<IT>(d); if (back.x != c || back.y != (IT)-3) tfail(NAME, "re-pack of a decoded code", str((double)c), str((double)c), str((double)back.x)); } }
	GEN_U(float, glm::uint8, "unpackUnorm<float>(u8vec)") GEN_U(float, glm::uint16, "unpackUnorm<float>(u16vec)") GEN_U(double, glm::uint8, "unpackUnorm<double>(u8vec)") GEN_U(double, glm::uint16, "unpackUnorm<double>(u16vec)") GEN_U(double, glm::uint32, "unpackUnorm<double>(u32vec)")
	GEN_S(float, glm::int8, "unpackSnorm<float>(i8vec)") GEN_S(float, glm::int16, "unpackSnorm<float>(i16vec)") GEN_S(double, glm::int8, "unpackSnorm<double>(i8vec)") GEN_S(double, glm::int16, "unpackSnorm<double>(i16vec)") GEN_S(double, glm::int32, "unpackSnorm<double>(i32vec)")
	std::lock_guard<std::mutex> l(g_mu); count("small floats / shared exponent / RGBM / templates", cases);
}
// ---- scalar pack functions over float patterns: monotone + half a step  (thorough: every non-NaN pattern)
static void scalar_sweep(bool thorough, uint64_t seed)
{
	uint64_t stride = thorough ? 1 : 4099, off = thorough ? 0 : seed % 4099; std::vector<std::thread> th; std::atomic<long> cnt(0);
	for (int t = 0; t < 16; ++t) th.emplace_back([t, stride, off, &cnt]() { long c = 0;
		for (uint64_t u = off + (uint64_t)t * stride; u < (1ull << 32); u += 16 * stride) { float x = u2f((uint32_t)u); if (std::isnan(x)) continue; ++c;
			double cu = std::min(1.0, std::max(0.0, (double)x)), cs = std::min(1.0, std::max(-1.0, (double)x));
			int a = glm::packUnorm1x8(x); if (nabs(a - cu * 255.0) > 0.5001) tfail("Unorm1x8", "scalar sweep over float patterns", hex(u), str(cu * 255.0), str(a));
			int b = glm::packUnorm1x16(x); if (nabs(b - cu * 65535.0) > 0.51) tfail("Unorm1x16", "scalar sweep over float patterns", hex(u), str(cu * 65535.0), str(b));
			int s8 = (int8_t)glm::packSnorm1x8(x); if (nabs(s8 - cs * 127.0) > 0.5001) tfail("Snorm1x8", "scalar sweep over float patterns", hex(u), str(cs * 127.0), str(s8));
			int s16 = (int16_t)glm::packSnorm1x16(x); if (nabs(s16 - cs * 32767.0) > 0.51) tfail("Snorm1x16", "scalar sweep over float patterns", hex(u), str(cs * 32767.0), str(s16)); }
		cnt += c; });
	for (auto& x : th) x.join(); std::lock_guard<std::mutex> l(g_mu); count(thorough ? "scalar pack functions over all non-NaN float patterns" : "scalar pack functions over every 4099th float pattern", cnt.load());
}
int main(int argc, char** argv)
{
	uint64_t seed = argc > 2 ? std::strtoull(argv[2], 0, 10) : 1; bool thorough = argc > 3 && std::string(argv[3]) == "thorough"; Rng r(seed * 91 + 3);
	for (auto& f : formats()) check_format(f, r, thorough);
	small_floats(r, thorough);
	scalar_sweep(thorough, seed);
	return finish();
}
