// oracle_C13.cpp -- violation search for C13: slerp/mix/lerp against a long-double reference slerp.
// Built in the default, GLM_FORCE_QUAT_DATA_WXYZ and GLM_FORCE_QUAT_DATA_XYZW configurations.
#define GLM_ENABLE_EXPERIMENTAL
#include "oracle/oracle_common.hpp"
#include <glm/glm.hpp>
#include <glm/gtc/quaternion.hpp>
#include <glm/gtx/quaternion.hpp>
#include <glm/gtx/dual_quaternion.hpp>
using namespace orc;
typedef long double LD;
template<class T> static const char* tn(); template<> const char* tn<float>() { return "f32"; } template<> const char* tn<double>() { return "f64"; }
struct Q4 { LD w, x, y, z; };
template<class T> static Q4 toL(glm::qua<T> const& q) { return Q4{q.w, q.x, q.y, q.z}; }
static LD qdot(Q4 a, Q4 b) { return a.w * b.w + a.x * b.x + a.y * b.y + a.z * b.z; }
template<class T> static std::string qs(glm::qua<T> const& q) { return "(w=" + str((double)q.w) + ",x=" + str((double)q.x) + ",y=" + str((double)q.y) + ",z=" + str((double)q.z) + ")"; }
template<class T> static glm::qua<T> mk(LD w, LD x, LD y, LD z) { LD n = sqrtl(w * w + x * x + y * y + z * z); return glm::qua<T>::wxyz((T)(w / n), (T)(x / n), (T)(y / n), (T)(z / n)); }
// reference slerp (shorter arc, optional extra spins) in long double
static Q4 ref_slerp(Q4 x, Q4 y, LD t, int k, bool shortest) { LD c = qdot(x, y); if (shortest && c < 0) { y = Q4{-y.w, -y.x, -y.y, -y.z}; c = -c; } if (c > 1) c = 1; if (c < -1) c = -1; LD th = acosl(c); LD s = sinl(th);
	if (s < 1e-12L) { Q4 r{x.w + t * (y.w - x.w), x.x + t * (y.x - x.x), x.y + t * (y.y - x.y), x.z + t * (y.z - x.z)}; return r; }
	LD phi = th + k * 3.14159265358979323846264338327950288L; LD a = sinl(th - t * phi) / s, b = sinl(t * phi) / s; return Q4{a * x.w + b * y.w, a * x.x + b * y.x, a * x.y + b * y.y, a * x.z + b * y.z}; }
static LD qdiff(Q4 a, Q4 b) { return nmax(nmax(fabsl(a.w - b.w), fabsl(a.x - b.x)), nmax(fabsl(a.y - b.y), fabsl(a.z - b.z)));   /* keeps a NaN component */ }
template<class T> static void run(Rng& g, int n) {
	std::string ty = std::string("_") + tn<T>(); LD eps = std::numeric_limits<T>::epsilon();
	for (int it = 0; it < n; ++it) {
		auto x = mk<T>(g.real(-1, 1), g.real(-1, 1), g.real(-1, 1), g.real(-1, 1)); Q4 X = toL(x);
		// y at a chosen angular separation from x: y = cos(d) x + sin(d) p, p unit and orthogonal to x
		LD sep; int cls = it % 6; static const char* cn[] = {"generic", "near-parallel", "identical", "near-antipodal", "around-threshold", "orthogonal"};
		if (cls == 0) sep = g.real(0.05, 3.0); else if (cls == 1) sep = powl(10, -g.real(1, 9)); else if (cls == 2) sep = 0; else if (cls == 3) sep = 3.14159265358979323846L - powl(10, -g.real(1, 9)); else if (cls == 4) sep = sqrtl(2 * eps) * g.real(0.5, 2.0); else sep = 1.57079632679489661923L;
		Q4 P{g.real(-1, 1), g.real(-1, 1), g.real(-1, 1), g.real(-1, 1)}; LD pd = qdot(P, X); P = Q4{P.w - pd * X.w, P.x - pd * X.x, P.y - pd * X.y, P.z - pd * X.z}; LD pn = sqrtl(qdot(P, P)); if (pn < 1e-3L) continue; P = Q4{P.w / pn, P.x / pn, P.y / pn, P.z / pn};
		auto y = (cls == 2) ? x : mk<T>(cosl(sep) * X.w + sinl(sep) * P.w, cosl(sep) * X.x + sinl(sep) * P.x, cosl(sep) * X.y + sinl(sep) * P.y, cosl(sep) * X.z + sinl(sep) * P.z); Q4 Y = toL(y);
		if (it % 2) { y = -y; Y = toL(y); }   // both hemispheres
		T t = (T)g.real(-2, 3); if (it % 5 == 0) t = 0; if (it % 5 == 1) t = 1; int k = (cls == 0 || cls == 5) ? g.range(-3, 3) : 0;
		std::string in = "x=" + qs(x) + " y=" + qs(y) + " t=" + str((double)t) + " sep=" + str((double)sep);
		LD tol = 64 * eps * (1 + fabsl((LD)t)) * (1 + abs(k) * 4); LD s_true = sinl(acosl(std::min((LD)1, fabsl(qdot(X, Y))))); if (s_true > 1e-12L && s_true < 1) tol = tol / std::max(s_true, sqrtl(eps));
		{ count("slerp" + ty); auto r = glm::slerp(x, y, t); Q4 R = toL(r); Q4 E = ref_slerp(X, Y, t, 0, true); Q4 Yn{-Y.w, -Y.x, -Y.y, -Y.z}; Q4 E2 = ref_slerp(X, Yn, t, 0, false); bool amb = fabsl(qdot(X, Y)) < 64 * eps; bool nan = !(R.w == R.w && R.x == R.x && R.y == R.y && R.z == R.z);
		  if (nan) fail("slerp" + ty, std::string(cn[cls]) + ":nan", in, "finite unit quaternion", qs(r)); else if (!(qdiff(R, E) <= tol) && !(amb && (qdiff(R, E2) <= tol || qdiff(R, ref_slerp(X, Y, t, 0, false)) <= tol))) fail("slerp" + ty, cn[cls], in, "reference slerp (shorter arc)", qs(r));
		  else { LD nr = sqrtl(qdot(R, R)); if (!(fabsl(nr - 1) <= tol)) fail("slerp" + ty, std::string(cn[cls]) + ":norm", in, "|r|=1", str((double)nr)); }
		  if (t == 0 && !(qdiff(R, X) <= 8 * eps)) fail("slerp" + ty, "t=0", in, qs(x), qs(r)); if (t == 1 && !amb) { Q4 Z = qdot(X, Y) < 0 ? Q4{-Y.w, -Y.x, -Y.y, -Y.z} : Y; if (!(qdiff(R, Z) <= 64 * eps / std::max(s_true, sqrtl(eps)))) fail("slerp" + ty, "t=1", in, "+-y", qs(r)); }
		  auto r2 = glm::slerp(y, x, (T)1 - t); Q4 R2 = toL(r2); Q4 R2n{-R2.w, -R2.x, -R2.y, -R2.z}; if (!nan && !(std::min(qdiff(R, R2), qdiff(R, R2n)) <= 4 * tol)) fail("slerp" + ty, std::string(cn[cls]) + ":symmetry", in, "slerp(y,x,1-t) up to sign", qs(r2)); }
		{ count("slerp_k" + ty); auto r = glm::slerp(x, y, t, k); Q4 R = toL(r); Q4 E = ref_slerp(X, Y, t, k, true); bool nan = !(R.w == R.w && R.x == R.x); if (nan) fail("slerp_k" + ty, std::string(cn[cls]) + ":nan", in + " k=" + str(k), "finite", qs(r)); else if (!(qdiff(R, E) <= tol * 4) && !(fabsl(qdot(X, Y)) < 64 * eps)) fail("slerp_k" + ty, cn[cls], in + " k=" + str(k), "reference slerp with spins", qs(r));
		  if (k == 0) { auto r0 = glm::slerp(x, y, t); if (!(qdiff(R, toL(r0)) <= tol)) fail("slerp_k" + ty, "k=0-vs-slerp", in, qs(r0), qs(r)); } }
		if (cls != 3 && qdot(X, Y) > -0.99L) { count("mix" + ty); auto r = glm::mix(x, y, t); Q4 R = toL(r); Q4 E = ref_slerp(X, Y, t, 0, false); LD c0 = qdot(X, Y); LD s0 = sinl(acosl(std::max((LD)-1, std::min((LD)1, c0)))); LD tm = 16 * eps * (1 + fabsl((LD)t)) * (c0 < 0 ? 1 / (s0 * s0) : 1);   /* the weights sin(k theta) / sin(theta) are well conditioned for small theta (an error of eps / theta in theta moves them by about eps); only towards theta = pi does 1 / sin(theta) amplify */
		  bool nan = !(R.w == R.w && R.x == R.x); if (nan) fail("mix" + ty, std::string(cn[cls]) + ":nan", in, "finite", qs(r)); else if (!(qdiff(R, E) <= tm)) fail("mix" + ty, cn[cls], in, "reference (oriented arc)", qs(r)); }
		{ T tl = (T)g.real(0, 1); count("lerp" + ty); auto r = glm::lerp(x, y, tl); Q4 R = toL(r); Q4 E{X.w * (1 - (LD)tl) + Y.w * tl, X.x * (1 - (LD)tl) + Y.x * tl, X.y * (1 - (LD)tl) + Y.y * tl, X.z * (1 - (LD)tl) + Y.z * tl}; if (!(qdiff(R, E) <= 8 * eps)) fail("lerp" + ty, "value", in, "x(1-a)+ya", qs(r)); }
		// dual-quaternion lerp: the affine blend of x with +-y (the sign of dot(x.real, y.real), compared away from dot = 0), both parts; a in {0, 1} gives the end points
		{ T tl = it % 4 == 0 ? (T)0 : it % 4 == 1 ? (T)1 : (T)g.real(0, 1); glm::tdualquat<T> dx(x, y), dy(it % 2 ? y : -y, x); count("dual_lerp" + ty); auto r = glm::lerp(dx, dy, tl); LD sg = qdot(X, toL(dy.real)) < 0 ? -1 : 1; Q4 Yr = toL(dy.real), Yd = toL(dy.dual), Xd = toL(y);
		  Q4 Er{X.w * (1 - (LD)tl) + sg * Yr.w * tl, X.x * (1 - (LD)tl) + sg * Yr.x * tl, X.y * (1 - (LD)tl) + sg * Yr.y * tl, X.z * (1 - (LD)tl) + sg * Yr.z * tl}, Ed{Xd.w * (1 - (LD)tl) + sg * Yd.w * tl, Xd.x * (1 - (LD)tl) + sg * Yd.x * tl, Xd.y * (1 - (LD)tl) + sg * Yd.y * tl, Xd.z * (1 - (LD)tl) + sg * Yd.z * tl};
		  if (fabsl(qdot(X, Yr)) > 1e-4L && !(qdiff(toL(r.real), Er) <= 8 * eps && qdiff(toL(r.dual), Ed) <= 8 * eps)) fail("dual_lerp" + ty, tl == 0 || tl == 1 ? "end point" : "value", in + " a=" + str((double)tl), "x(1-a) +- y a", qs(r.real)); }
		{ count("shortMix" + ty); auto r = glm::shortMix(x, y, t); Q4 R = toL(r); Q4 E = ref_slerp(X, Y, t, 0, true); bool nan = !(R.w == R.w); if (nan) fail("shortMix" + ty, std::string(cn[cls]) + ":nan", in, "finite", qs(r)); else if (t == 0 && !(qdiff(R, X) <= 64 * eps)) fail("shortMix" + ty, "t=0", in, qs(x), qs(r));
		  else if (t > 0 && t < 1 && fabsl(qdot(X, Y)) >= 64 * eps) { LD ts = 64 * eps * 2 / std::max(s_true, sqrtl(eps)); if (!(qdiff(R, E) <= ts)) fail("shortMix" + ty, std::string(cn[cls]) + ":shorter arc", in, "slerp along the shorter arc " + qs(glm::slerp(x, y, t)), qs(r)); } }
		{ count("fastMix" + ty); auto r = glm::fastMix(x, y, t); Q4 R = toL(r); bool nan = !(R.w == R.w); LD bw = (1 - (LD)t) * X.w + (LD)t * Y.w, bx = (1 - (LD)t) * X.x + (LD)t * Y.x, by = (1 - (LD)t) * X.y + (LD)t * Y.y, bz = (1 - (LD)t) * X.z + (LD)t * Y.z, bn = sqrtl(bw * bw + bx * bx + by * by + bz * bz);
		  if (bn > 1e-3L) { Q4 E2{bw / bn, bx / bn, by / bn, bz / bn}; if (nan || !(qdiff(R, E2) <= 256 * eps / bn)) fail("fastMix" + ty, cn[cls], in, "normalize(x (1 - a) + y a)", qs(r)); } }
		if (it < 2) sample("C13 " + in);
	}
}
int main(int argc, char** argv) {
	uint64_t seed = argc > 2 ? std::strtoull(argv[2], 0, 10) : 1; int n = (argc > 3 && std::string(argv[3]) == "thorough") ? 200000 : 12000;
	Rng g(seed); run<float>(g, n); run<double>(g, n); return finish();
}
