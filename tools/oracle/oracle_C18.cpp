// oracle_C18.cpp -- violation search for C18: loop-based, one-bit-at-a-time references for the power-of-two / multiple /
// bitfield utilities, every element width and signedness.  usage: oracle_C18 sweep <seed> <tier>
// Conventions (excluded, never reported): x = 0 for the power-of-two family; the most negative value of a signed type;
// results that are not values of the type; shift counts outside (0, w); negative counts.
// Negative x for the power-of-two family: the magnitude is rounded and the sign kept (compute_ceilPowerOfTwo's Sign factor).
#define GLM_ENABLE_EXPERIMENTAL
#include <glm/glm.hpp>
#include <glm/gtc/type_precision.hpp>
#include <glm/gtc/round.hpp>
#include <glm/gtc/bitfield.hpp>
#include <glm/gtc/integer.hpp>
#include <glm/ext/scalar_integer.hpp>
#include <glm/ext/vector_integer.hpp>
#include <glm/gtx/integer.hpp>
#include <glm/gtx/bit.hpp>
#include "oracle_common.hpp"
#include <atomic>
#include <type_traits>
#include <thread>
#include <mutex>
#include <map>
#include <atomic>
using namespace orc;
typedef __int128 i128; typedef unsigned __int128 u128;
static std::mutex g_mu;
// the known findings (roundMultiple, rotate direction ...) fail on a large part of the thorough cross products: each thread passes at
// most 20000 reports per (function, class) to the locked reporter and only counts the rest
static void tfail(std::string const& fn, std::string const& cls, std::string const& in, std::string const& ex, std::string const& got) {
	static thread_local std::map<std::string, long> seen; if (++seen[fn + "|" + cls] > 20000) return;
	std::lock_guard<std::mutex> l(g_mu); fail(fn, cls, in, ex, got); }
static void tcount(std::string const& fn, long n) { std::lock_guard<std::mutex> l(g_mu); count(fn, n); }
static std::string s128(i128 v) { bool neg = v < 0; u128 u = neg ? (u128)(-v) : (u128)v; std::string s; do { s.insert(s.begin(), char('0' + (int)(u % 10))); u /= 10; } while (u); return neg ? "-" + s : s; }
template<class T> struct TI { typedef typename std::make_unsigned<T>::type U; static const int w = sizeof(T) * 8; static const bool sg = std::is_signed<T>::value;
	static i128 lo() { return sg ? -((i128)1 << (w - 1)) : 0; } static i128 hi() { return sg ? ((i128)1 << (w - 1)) - 1 : ((i128)1 << w) - 1; }
	static bool fits(i128 v) { return v >= lo() && v <= hi(); }
	static std::string name() { return std::string(sg ? "int" : "uint") + std::to_string(w); } };
template<class T> static std::string tin(T x) { return TI<T>::name() + " " + s128((i128)x); }
static i128 floor_pow2(i128 a) { i128 p = 1; while (p * 2 <= a) p *= 2; return p; }      // a >= 1
static i128 ceil_pow2(i128 a) { i128 p = 1; while (p < a) p *= 2; return p; }
static int popc(u128 v) { int c = 0; while (v) { c += (int)(v & 1); v >>= 1; } return c; }

template<class T> static void pow2_family(T x)
{
	typedef TI<T> I; if (x == 0 || (I::sg && (i128)x == I::lo())) return;
	i128 v = (i128)x, a = v < 0 ? -v : v, sgn = v < 0 ? -1 : 1; bool isp = popc((u128)a) == 1;
	if (glm::isPowerOfTwo(x) != isp) tfail("isPowerOfTwo", "value", tin(x), str(isp), str(glm::isPowerOfTwo(x)));
	{ glm::vec<2, T> t(x, (T)1); if (glm::isPowerOfTwo(t).x != isp) tfail("isPowerOfTwo", "vector overload", tin(x), str(isp), str(glm::isPowerOfTwo(t).x)); }
	i128 c = sgn * ceil_pow2(a), f = sgn * floor_pow2(a);
	if (I::fits(c)) {
		if ((i128)glm::ceilPowerOfTwo(x) != c) tfail("ceilPowerOfTwo", v < 0 ? "negative value" : "value", tin(x), s128(c), s128((i128)glm::ceilPowerOfTwo(x)));
		if ((i128)glm::nextPowerOfTwo(x) != c) tfail("nextPowerOfTwo", v < 0 ? "negative value" : "value", tin(x), s128(c), s128((i128)glm::nextPowerOfTwo(x)));
		glm::vec<3, T> t((T)1, x, (T)3); if ((i128)glm::ceilPowerOfTwo(t).y != c || (i128)glm::nextPowerOfTwo(t).y != c) tfail("ceilPowerOfTwo", "vector overload", tin(x), s128(c), s128((i128)glm::ceilPowerOfTwo(t).y));
	}
	const char* cls = v < 0 ? (isp ? "negative power of two" : "negative value that is not a power of two") : "value";
	T g = (T)glm::floorPowerOfTwo(x); if ((i128)g != f) tfail("floorPowerOfTwo", cls, tin(x), s128(f), s128((i128)g));
	g = glm::prevPowerOfTwo(x); if ((i128)g != f) tfail("prevPowerOfTwo", cls, tin(x), s128(f), s128((i128)g));
	{ glm::vec<2, T> t((T)5, x); if ((i128)glm::floorPowerOfTwo(t).y != (i128)(T)glm::floorPowerOfTwo(x) || (i128)glm::prevPowerOfTwo(t).y != (i128)glm::prevPowerOfTwo(x)) tfail("floorPowerOfTwo", "vector overload differs from scalar", tin(x), "", ""); }
	// nearest: ties may go either way; skipped when the nearer candidate is not a value of T
	i128 df = (v - f) * sgn, dc = (c - v) * sgn; bool okf = df <= dc, okc = dc <= df;
	if ((okf && !okc) || (okc && I::fits(c))) {
		g = (T)glm::roundPowerOfTwo(x); bool ok = (okf && (i128)g == f) || (okc && (i128)g == c);
		if (!ok) { const char* k = v < 0 ? (isp ? "negative power of two" : "negative value that is not a power of two") : (!I::fits(c) && I::w < 32 ? "8/16-bit type, value above the top power of two" : "value");
			tfail("roundPowerOfTwo", k, tin(x), okf ? s128(f) : s128(c), s128((i128)g)); }
		glm::vec<2, T> t(x, (T)6); if ((i128)glm::roundPowerOfTwo(t).x != (i128)g) tfail("roundPowerOfTwo", "vector overload differs from scalar", tin(x), s128((i128)g), s128((i128)glm::roundPowerOfTwo(t).x));
	}
	if (v > 0) {   // gtx/bit (deprecated aliases): positive values
		if ((i128)(T)glm::highestBitValue(x) != f) tfail("highestBitValue", "value", tin(x), s128(f), s128((i128)(T)glm::highestBitValue(x)));
		if ((i128)(T)glm::powerOfTwoBelow(x) != f) tfail("powerOfTwoBelow", "value", tin(x), s128(f), s128((i128)(T)glm::powerOfTwoBelow(x)));
		if (I::fits(c) && (i128)(T)glm::powerOfTwoAbove(x) != c) tfail("powerOfTwoAbove", "value", tin(x), s128(c), s128((i128)(T)glm::powerOfTwoAbove(x)));
		if (I::fits(c)) { i128 n = (i128)(T)glm::powerOfTwoNearest(x); if (!((okf && n == f) || (okc && n == c))) tfail("powerOfTwoNearest", "value", tin(x), s128(okf ? f : c), s128(n)); }
	}
	{ u128 p = (u128)(typename I::U)x; int b = 0; while (!((p >> b) & 1)) ++b; typename I::U e = (typename I::U)((typename I::U)1 << b);
	  if ((typename I::U)glm::lowestBitValue(x) != e) tfail("lowestBitValue", "value", tin(x), str((unsigned long long)e), str((unsigned long long)(typename I::U)glm::lowestBitValue(x))); }
}
template<class T> static void nsb(T x, int n)
{
	typedef TI<T> I; u128 p = (u128)(typename I::U)x; int expv = -1, seen = 0;
	for (int b = 0; b < I::w; ++b) if ((p >> b) & 1) { if (++seen == n) { expv = b; break; } }
	int g = glm::findNSB(x, n); if (g != expv) tfail("findNSB", x < 0 ? "negative value" : "value", tin(x) + " n=" + str(n), str(expv), str(g));
	glm::vec<2, T> t((T)1, x); int gv = glm::findNSB(t, glm::ivec2(1, n)).y; if (gv != g) tfail("findNSB", "vector overload differs from scalar", tin(x) + " n=" + str(n), str(g), str(gv));
}
template<class T> static void mult(T s, T m)       // m > 0
{
	typedef TI<T> I; if (I::sg && (i128)s == I::lo()) return;
	i128 S = (i128)s, M = (i128)m; i128 q = S / M; if (S % M != 0 && S < 0) --q;     // floor division
	i128 fl = q * M, ce = (S % M == 0) ? S : fl + M;
	std::string in = tin(s) + " m=" + s128(M);
	if (I::fits(ce)) {
		if ((i128)(T)glm::ceilMultiple(s, m) != ce) tfail("ceilMultiple", "value", in, s128(ce), s128((i128)(T)glm::ceilMultiple(s, m)));
		if ((i128)(T)glm::nextMultiple(s, m) != ce) tfail("nextMultiple", "value", in, s128(ce), s128((i128)(T)glm::nextMultiple(s, m)));
	}
	if (I::fits(fl)) {
		if ((i128)(T)glm::floorMultiple(s, m) != fl) tfail("floorMultiple", "value", in, s128(fl), s128((i128)(T)glm::floorMultiple(s, m)));
		if ((i128)(T)glm::prevMultiple(s, m) != fl) tfail("prevMultiple", "value", in, s128(fl), s128((i128)(T)glm::prevMultiple(s, m)));
	}
	if (I::fits(ce) && I::fits(fl)) {
		i128 g = (i128)(T)glm::roundMultiple(s, m); i128 df = S - fl, dc = ce - S; bool ok = (df <= dc && g == fl) || (dc <= df && g == ce);
		if (!ok) tfail("roundMultiple", g == fl ? "returns the previous multiple where the next one is nearer" : "other", in, s128(ce), s128(g));
	}
	if (glm::isMultiple(s, m) != (S % M == 0)) tfail("isMultiple", "value", in, str(S % M == 0), str(glm::isMultiple(s, m)));
}
template<class T> static void mult_vec(T s, T m)
{
	typedef TI<T> I; if (I::sg && (i128)s == I::lo()) return;
	glm::vec<3, T> a((T)3, s, (T)9), b((T)1, m, (T)2); std::string in = tin(s) + " m=" + s128((i128)m);
	if (glm::ceilMultiple(a, b).y != (T)glm::ceilMultiple(s, m) || glm::nextMultiple(a, b).y != (T)glm::nextMultiple(s, m) || glm::nextMultiple(a, m).y != (T)glm::nextMultiple(s, m)) tfail("ceilMultiple", "vector overload differs from scalar", in, "", "");
	if (glm::floorMultiple(a, b).y != (T)glm::floorMultiple(s, m) || glm::prevMultiple(a, b).y != (T)glm::prevMultiple(s, m) || glm::prevMultiple(a, m).y != (T)glm::prevMultiple(s, m)) tfail("floorMultiple", "vector overload differs from scalar", in, "", "");
	if (glm::roundMultiple(a, b).y != (T)glm::roundMultiple(s, m)) tfail("roundMultiple", "vector overload differs from scalar", in, "", "");
	if (glm::isMultiple(a, b).y != glm::isMultiple(s, m) || glm::isMultiple(a, m).y != glm::isMultiple(s, m)) tfail("isMultiple", "vector overload differs from scalar", in, "", "");
}
template<class T> static void rot(T x, int s)      // 0 < s < w
{
	typedef TI<T> I; typedef typename I::U U; U p = (U)x; U r = (U)((U)(p >> s) | (U)(p << (I::w - s))), l = (U)((U)(p << s) | (U)(p >> (I::w - s)));
	std::string in = tin(x) + " shift=" + str(s);
	U g = (U)(T)glm::bitfieldRotateRight(x, s);
	if (g != r) tfail("bitfieldRotateRight", (I::sg && x < 0 && g != l) ? "negative signed value" : (g == l ? "rotates in the opposite direction" : "other"), in, hex(r), hex(g));
	g = (U)(T)glm::bitfieldRotateLeft(x, s);
	if (g != l) tfail("bitfieldRotateLeft", (I::sg && x < 0 && g != r) ? "negative signed value" : (g == r ? "rotates in the opposite direction" : "other"), in, hex(l), hex(g));
	glm::vec<2, T> t(x, (T)1);
	if (glm::bitfieldRotateRight(t, s).x != (T)glm::bitfieldRotateRight(x, s) || glm::bitfieldRotateLeft(t, s).x != (T)glm::bitfieldRotateLeft(x, s)) tfail("bitfieldRotateRight", "vector overload differs from scalar", in, "", "");
}
template<class T> static void fill(T x, int f, int c)    // f <= 31, f + c <= w
{
	typedef TI<T> I; typedef typename I::U U; U fld = c >= I::w ? (U)~(U)0 : (U)(((U)1 << c) - 1); fld = (U)(fld << f);
	std::string in = tin(x) + " first=" + str(f) + " count=" + str(c); const char* cls = (I::w == 64 && f + c >= 32) ? "64-bit value, field reaching bit 31 or above" : "value";
	U g = (U)(T)glm::bitfieldFillOne(x, f, c); if (g != (U)((U)x | fld)) tfail("bitfieldFillOne", cls, in, hex((U)((U)x | fld)), hex(g));
	g = (U)(T)glm::bitfieldFillZero(x, f, c); if (g != (U)((U)x & (U)~fld)) tfail("bitfieldFillZero", cls, in, hex((U)((U)x & (U)~fld)), hex(g));
	glm::vec<2, T> t(x, (T)1);
	if (glm::bitfieldFillOne(t, f, c).x != (T)glm::bitfieldFillOne(x, f, c) || glm::bitfieldFillZero(t, f, c).x != (T)glm::bitfieldFillZero(x, f, c)) tfail("bitfieldFillOne", "vector overload differs from scalar", in, "", "");
}
template<class T> static void maskf(int bits)
{
	typedef TI<T> I; typedef typename I::U U; U e = bits >= I::w ? (U)~(U)0 : (U)(((U)1 << bits) - 1);
	if (bits > (int)I::hi()) return;
	U g = (U)glm::mask((T)bits); if (g != e) tfail("mask", "value", I::name() + " bits=" + str(bits), hex(e), hex(g));
	glm::vec<2, T> t((T)bits, (T)1); if ((U)glm::mask(t).x != e) tfail("mask", "vector overload", I::name() + " bits=" + str(bits), hex(e), hex((U)glm::mask(t).x));
}
template<class T> static T special(Rng& r, int i) { typedef typename std::make_unsigned<T>::type U; int w = sizeof(T) * 8; U v;
	switch (i % 14) { case 0: v = (U)r.range(0, 9); break; case 1: v = (U)~(U)0; break; case 2: v = (U)1 << (r.next() % w); break; case 3: v = (U)(((U)1 << (r.next() % w)) + 1); break; case 4: v = (U)(((U)1 << (r.next() % w)) - 1); break;
	case 5: v = (U)((U)1 << (w - 1)); break; case 6: v = (U)(((U)1 << (w - 1)) - 1); break; case 7: v = (U)(((U)1 << (w - 1)) + 1 + r.next() % 5); break; case 8: v = (U)(0 - (U)(r.next() % 300)); break; case 9: v = (U)(r.next() & 0xff); break;
	case 10: v = (U)(3 * ((U)1 << (r.next() % (w - 1)))); break; case 11: v = (U)(0 - ((U)1 << (r.next() % w))); break; default: v = (U)r.next(); }
	return (T)v; }
template<class T> static void one_value(T x, Rng& r, int pairs)
{
	typedef TI<T> I; pow2_family<T>(x);
	for (int n = 1; n <= I::w + 1; ++n) nsb<T>(x, n);
	for (int s = 1; s < I::w; ++s) rot<T>(x, s);
	for (int k = 0; k < pairs; ++k) {
		T m = special<T>(r, k + 3); if (k % 2 == 0) m = (T)r.range(1, 17); if ((i128)m < 0) m = (T)~m; if (m == 0) m = (T)3;
		mult<T>(x, m); if (k < 2) mult_vec<T>(x, m);
		int f = r.range(0, I::w < 32 ? I::w - 1 : 31), c = r.range(0, I::w - f); fill<T>(x, f, c);
	}
}
template<class T> static void run_type(uint64_t seed, bool thorough)
{
	typedef TI<T> I; typedef typename I::U U; Rng r(seed * 131 + I::w + (I::sg ? 1 : 0)); long n = 0;
	for (int b = 0; b <= 2 * I::w; ++b) maskf<T>(b);
	if (I::w == 8) { for (int i = 0; i < 256; ++i) { T x = (T)(U)i; one_value<T>(x, r, 0); for (int m = 1; m <= (int)I::hi(); ++m) mult<T>(x, (T)m); for (int f = 0; f < 8; ++f) for (int c = 0; f + c <= 8; ++c) fill<T>(x, f, c); ++n; } }
	else if (I::w == 16) { for (int i = 0; i < 65536; ++i) { T x = (T)(U)i; one_value<T>(x, r, thorough ? 0 : 6); ++n; }
		if (thorough) {   // every value crossed with every multiple below 4096, every 2^k and 2^k - 1, the top 64 multiples and every 61st one in between (the full cross product takes 20 minutes), in parallel
			std::vector<int> ms; { int hi = (int)I::hi(); for (int m = 1; m < 4096 && m <= hi; ++m) ms.push_back(m); for (int m = 4096; m <= hi; m += 61) ms.push_back(m); for (int k = 12; k < 16; ++k) for (int d = -1; d <= 1; ++d) { int m = (1 << k) + d; if (m >= 4096 && m <= hi) ms.push_back(m); } for (int m = hi - 63; m <= hi; ++m) if (m >= 4096) ms.push_back(m); }
			std::vector<std::thread> th; for (int t = 0; t < 16; ++t) th.emplace_back([t, &ms]() { for (int i = t; i < 65536; i += 16) { T x = (T)(U)i; for (int m : ms) mult<T>(x, (T)m); for (int f = 0; f < 16; ++f) for (int c = 0; f + c <= 16; ++c) fill<T>(x, f, c); } });
			for (auto& x : th) x.join(); n += 65536l * 100; } }
	else { int N = thorough ? 400000 : 12000; for (int i = 0; i < N; ++i) { one_value<T>(special<T>(r, i), r, 6); ++n; } }
	tcount("utilities<" + I::name() + ">", n);
}
// ---- interleave: bit i of argument k (of n) goes to bit n*i + k
template<class R, class P> static R il_ref(P const* a, int n) { R r = 0; int pw = sizeof(P) * 8, rw = sizeof(R) * 8; for (int i = 0; i < pw; ++i) for (int k = 0; k < n; ++k) { int j = n * i + k; if (j < rw && ((a[k] >> i) & 1)) r |= (R)((R)1 << j); } return r; }
template<class P> static std::string ain(P const* a, int n) { std::string s = "uint" + std::to_string(sizeof(P) * 8) + " x" + std::to_string(n) + ":"; for (int k = 0; k < n; ++k) s += " " + hex((uint64_t)a[k]); return s; }
static void il8(glm::uint8 x, glm::uint8 y, glm::uint8 z, glm::uint8 w)
{
	glm::uint8 a[4] = { x, y, z, w };
	{ glm::uint16 e = il_ref<glm::uint16>(a, 2), g = glm::bitfieldInterleave(x, y); if (g != e) tfail("bitfieldInterleave", "uint8 x2", ain(a, 2), hex(e), hex(g));
	  if (glm::bitfieldInterleave(glm::u8vec2(x, y)) != e) tfail("bitfieldInterleave", "u8vec2", ain(a, 2), hex(e), hex(glm::bitfieldInterleave(glm::u8vec2(x, y))));
	  if ((glm::uint16)glm::bitfieldInterleave((glm::int8)x, (glm::int8)y) != e) tfail("bitfieldInterleave", "int8 x2", ain(a, 2), hex(e), "");
	  glm::u8vec2 d = glm::bitfieldDeinterleave(e); if (d.x != x || d.y != y) tfail("bitfieldDeinterleave", "uint16", hex(e), hex(x) + "," + hex(y), hex(d.x) + "," + hex(d.y)); }
	{ glm::uint32 e = il_ref<glm::uint32>(a, 3), g = glm::bitfieldInterleave(x, y, z); if (g != e) tfail("bitfieldInterleave", "uint8 x3", ain(a, 3), hex(e), hex(g));
	  if (glm::bitfieldInterleave(glm::u8vec3(x, y, z)) != e) tfail("bitfieldInterleave", "u8vec3", ain(a, 3), hex(e), "");
	  if ((glm::uint32)glm::bitfieldInterleave((glm::int8)x, (glm::int8)y, (glm::int8)z) != e) tfail("bitfieldInterleave", "int8 x3", ain(a, 3), hex(e), ""); }
	{ glm::uint32 e = il_ref<glm::uint32>(a, 4), g = glm::bitfieldInterleave(x, y, z, w); if (g != e) tfail("bitfieldInterleave", "uint8 x4", ain(a, 4), hex(e), hex(g));
	  if (glm::bitfieldInterleave(glm::u8vec4(x, y, z, w)) != e) tfail("bitfieldInterleave", "u8vec4", ain(a, 4), hex(e), "");
	  if ((glm::uint32)glm::bitfieldInterleave((glm::int8)x, (glm::int8)y, (glm::int8)z, (glm::int8)w) != e) tfail("bitfieldInterleave", "int8 x4", ain(a, 4), hex(e), ""); }
}
static void il16_pair(glm::uint16 x, glm::uint16 y)
{
	glm::uint16 a[2] = { x, y }; glm::uint32 e = il_ref<glm::uint32>(a, 2), g = glm::bitfieldInterleave(x, y); if (g != e) tfail("bitfieldInterleave", "uint16 x2", ain(a, 2), hex(e), hex(g));
	glm::u16vec2 d = glm::bitfieldDeinterleave(e); if (d.x != x || d.y != y) tfail("bitfieldDeinterleave", "uint32", hex(e), hex(x) + "," + hex(y), hex(d.x) + "," + hex(d.y));
}
static void il16(glm::uint16 x, glm::uint16 y, glm::uint16 z, glm::uint16 w)
{
	glm::uint16 a[4] = { x, y, z, w }; il16_pair(x, y);
	{ glm::uint32 e = il_ref<glm::uint32>(a, 2); if (glm::bitfieldInterleave(glm::u16vec2(x, y)) != e) tfail("bitfieldInterleave", "u16vec2", ain(a, 2), hex(e), "");
	  if ((glm::uint32)glm::bitfieldInterleave((glm::int16)x, (glm::int16)y) != e) tfail("bitfieldInterleave", "int16 x2", ain(a, 2), hex(e), ""); }
	{ glm::uint64 e = il_ref<glm::uint64>(a, 3), g = glm::bitfieldInterleave(x, y, z); if (g != e) tfail("bitfieldInterleave", "uint16 x3", ain(a, 3), hex(e), hex(g));
	  if (glm::bitfieldInterleave(glm::u16vec3(x, y, z)) != e) tfail("bitfieldInterleave", "u16vec3", ain(a, 3), hex(e), "");
	  if ((glm::uint64)glm::bitfieldInterleave((glm::int16)x, (glm::int16)y, (glm::int16)z) != e) tfail("bitfieldInterleave", "int16 x3", ain(a, 3), hex(e), ""); }
	{ glm::uint64 e = il_ref<glm::uint64>(a, 4), g = glm::bitfieldInterleave(x, y, z, w); if (g != e) tfail("bitfieldInterleave", "uint16 x4", ain(a, 4), hex(e), hex(g));
	  if (glm::bitfieldInterleave(glm::u16vec4(x, y, z, w)) != e) tfail("bitfieldInterleave", "u16vec4", ain(a, 4), hex(e), "");
	  if ((glm::uint64)glm::bitfieldInterleave((glm::int16)x, (glm::int16)y, (glm::int16)z, (glm::int16)w) != e) tfail("bitfieldInterleave", "int16 x4", ain(a, 4), hex(e), ""); }
}
static void il32(glm::uint32 x, glm::uint32 y, glm::uint32 z)
{
	glm::uint32 a[3] = { x, y, z };
	{ glm::uint64 e = il_ref<glm::uint64>(a, 2), g = glm::bitfieldInterleave(x, y); if (g != e) tfail("bitfieldInterleave", "uint32 x2", ain(a, 2), hex(e), hex(g));
	  if (glm::bitfieldInterleave(glm::u32vec2(x, y)) != e) tfail("bitfieldInterleave", "u32vec2", ain(a, 2), hex(e), "");
	  if ((glm::uint64)glm::bitfieldInterleave((glm::int32)x, (glm::int32)y) != e) tfail("bitfieldInterleave", "int32 x2", ain(a, 2), hex(e), "");
	  glm::u32vec2 d = glm::bitfieldDeinterleave(e); if (d.x != x || d.y != y) tfail("bitfieldDeinterleave", "uint64", hex(e), hex(x) + "," + hex(y), hex(d.x) + "," + hex(d.y)); }
	{ glm::uint32 b[3] = { x & 0x1fffffu, y & 0x1fffffu, z & 0x1fffffu };     // three 32-bit values do not fit: the low 21 bits of each
	  glm::uint64 e = il_ref<glm::uint64>(b, 3), g = glm::bitfieldInterleave(b[0], b[1], b[2]); if (g != e) tfail("bitfieldInterleave", "uint32 x3 (21 bits)", ain(b, 3), hex(e), hex(g));
	  if (glm::bitfieldInterleave(glm::u32vec3(b[0], b[1], b[2])) != e) tfail("bitfieldInterleave", "u32vec3 (21 bits)", ain(b, 3), hex(e), "");
	  if ((glm::uint64)glm::bitfieldInterleave((glm::int32)b[0], (glm::int32)b[1], (glm::int32)b[2]) != e) tfail("bitfieldInterleave", "int32 x3 (21 bits)", ain(b, 3), hex(e), ""); }
}
template<class F> static void fmult(Rng& r, int n, const char* nm)
{
	for (int i = 0; i < n; ++i) {
		int e = r.range(0, 5); long one = 1l << e; long s = r.range(-1000000, 1000000); if (i % 4 == 0) s = r.range(-200, 200); long m = r.range(1, 4000); if (i % 3 == 0) m = r.range(1, 12); if (i % 5 == 0) s = m * r.range(-20, 20);
		F S = (F)s / (F)one, M = (F)m / (F)one; long q = s / m; if (s % m != 0 && s < 0) --q; long fl = q * m, ce = (s % m == 0) ? s : fl + m;
		std::string in = std::string(nm) + " " + str(S) + " m=" + str(M);
		F g = glm::ceilMultiple(S, M); if (g != (F)ce / (F)one) tfail("ceilMultiple", s % m == 0 ? "floating, exact multiple" : "floating", in, str((F)ce / (F)one), str(g));
		g = glm::floorMultiple(S, M); if (g != (F)fl / (F)one) tfail("floorMultiple", s % m == 0 ? "floating, exact multiple" : "floating", in, str((F)fl / (F)one), str(g));
		g = glm::roundMultiple(S, M); long df = s - fl, dc = ce - s; bool ok = (df <= dc && g == (F)fl / (F)one) || (dc <= df && g == (F)ce / (F)one);
		if (!ok) tfail("roundMultiple", g == (F)fl / (F)one ? "returns the previous multiple where the next one is nearer" : (s < 0 ? "floating, negative source (neither the previous nor the nearest multiple)" : "floating, other"), in, str((F)ce / (F)one), str(g));
		glm::vec<2, F> a(S, (F)1), b(M, (F)2); if (glm::ceilMultiple(a, b).x != glm::ceilMultiple(S, M) || glm::floorMultiple(a, b).x != glm::floorMultiple(S, M) || glm::roundMultiple(a, b).x != glm::roundMultiple(S, M)) tfail("ceilMultiple", "floating vector overload differs from scalar", in, "", "");
	}
	// the ends of the floating range: tiny negative and positive sources (down to the denormals) against small multiples, and even integers above
	// 2^digits, where a remainder computed as x - m * floor(x / m) is no longer exact; every expected value below is representable
	int dig = std::numeric_limits<F>::digits, emin = std::numeric_limits<F>::min_exponent - dig;
	for (int k = 1; k < -emin; k += (k < 40 ? 1 : 7)) for (int mi = 1; mi <= 3; ++mi) for (int sg = -1; sg <= 1; sg += 2) { F S = (F)sg * std::ldexp((F)1, -k), M = (F)mi; F ce = sg < 0 ? (F)0 : M, fl = sg < 0 ? -M : (F)0;
		std::string in = std::string(nm) + " " + str(S) + " m=" + str(M); F g = glm::ceilMultiple(S, M); if (g != ce) tfail("ceilMultiple", "floating, tiny source", in, str(ce), str(g)); g = glm::floorMultiple(S, M); if (g != fl) tfail("floorMultiple", "floating, tiny source", in, str(fl), str(g)); }
	for (int i = 0; i < 400; ++i) { long long base = (1ll << (dig + 1)) - 2 * (long long)r.range(1, 4000), m = (i % 2) ? 3 : 7; long long q = base / m, fl = q * m, ce = (base % m == 0) ? base : fl + m; if ((ce & 1) || (fl & 1)) continue;   // keep representable results (even integers below 2^(digits+1))
		F S = (F)base, M = (F)m; std::string in = std::string(nm) + " " + str(S) + " m=" + str(M); F g = glm::ceilMultiple(S, M); if (g != (F)ce) tfail("ceilMultiple", "floating, integer above 2^digits", in, str((F)ce), str(g)); g = glm::floorMultiple(S, M); if (g != (F)fl) tfail("floorMultiple", "floating, integer above 2^digits", in, str((F)fl), str(g)); }
	tcount(std::string("multiples<") + nm + ">", n);
}
static void gtx_integer(Rng& r, int n)
{
	for (int i = 0; i < n; ++i) {
		int x = r.range(-40, 40); unsigned y = (unsigned)r.range(0, 12); i128 e = 1; for (unsigned k = 0; k < y; ++k) e *= x;
		if (e >= INT32_MIN && e <= INT32_MAX && (i128)glm::pow(x, y) != e) tfail("pow", (x < 0 && y == 0) ? "negative base, zero exponent" : "int", str(x) + "^" + str(y), s128(e), str(glm::pow(x, y)));
		unsigned ux = (unsigned)r.range(0, 60); e = 1; for (unsigned k = 0; k < y; ++k) e *= ux; if (e <= UINT32_MAX && (i128)glm::pow(ux, y) != e) tfail("pow", "uint", str(ux) + "^" + str(y), s128(e), str(glm::pow(ux, y)));
		unsigned v = (unsigned)r.next(); if (i % 3 == 0) v = (unsigned)r.range(0, 70000); if (i % 7 == 0) { unsigned k = (unsigned)r.range(1, 65535); v = k * k - (unsigned)r.range(0, 1); }
		unsigned sq = (unsigned)std::sqrt((double)v); while ((uint64_t)sq * sq > v) --sq; while ((uint64_t)(sq + 1) * (sq + 1) <= v) ++sq;
		if (glm::sqrt(v) != sq) tfail("sqrt", "uint", str(v), str(sq), str(glm::sqrt(v)));
		if (v <= (unsigned)INT32_MAX && glm::sqrt((int)v) != (int)sq) tfail("sqrt", "int", str(v), str(sq), str(glm::sqrt((int)v)));
		int mx = (int)r.next(); int my = r.range(1, i % 2 ? 1000 : 0x3fffffff); int me = (int)((((long)mx % my) + my) % my);
		if (glm::mod(mx, my) != me) tfail("mod", "int", str(mx) + " mod " + str(my), str(me), str(glm::mod(mx, my)));
		unsigned uy = 1u + (unsigned)(r.next() % (i % 2 ? 1000u : 0xffffffffu)); if (glm::mod(v, uy) != v % uy) tfail("mod", "uint", str(v) + " mod " + str(uy), str(v % uy), str(glm::mod(v, uy)));
		unsigned nl = 0; for (int b = 31; b >= 0 && !((v >> b) & 1); --b) ++nl; if (glm::nlz(v) != nl) tfail("nlz", "uint", str(v), str(nl), str(glm::nlz(v)));
		int lg = -1; for (int b = 0; b < 31; ++b) if ((v >> b) & 1) lg = b; if ((int)(v & 0x7fffffffu) > 0 && glm::log2((int)(v & 0x7fffffffu)) != lg) tfail("log2", "int", str((int)(v & 0x7fffffffu)), str(lg), str(glm::log2((int)(v & 0x7fffffffu))));
	}
	i128 f = 1; for (int k = 0; k <= 20; ++k) { if (k) f *= k; if (k <= 12 && ((i128)glm::factorial(k) != f || (i128)glm::factorial((unsigned)k) != f)) tfail("factorial", "int", str(k), s128(f), str(glm::factorial(k)));
		if ((i128)glm::factorial((glm::int64)k) != f || (i128)glm::factorial((glm::uint64)k) != f) tfail("factorial", "int64", str(k), s128(f), str(glm::factorial((glm::int64)k))); }
	{ glm::ivec3 t(3, 5, 7); glm::ivec3 g = glm::factorial(t); if (g != glm::ivec3(6, 120, 5040)) tfail("factorial", "vector", "3,5,7", "6,120,5040", ""); }
	tcount("gtx_integer", n);
}
int main(int argc, char** argv)
{
	uint64_t seed = argc > 2 ? std::strtoull(argv[2], 0, 10) : 1; bool thorough = argc > 3 && std::string(argv[3]) == "thorough";
	run_type<glm::uint8>(seed, thorough); run_type<glm::int8>(seed, thorough); run_type<glm::uint16>(seed, thorough); run_type<glm::int16>(seed, thorough);
	run_type<glm::uint32>(seed, thorough); run_type<glm::int32>(seed, thorough); run_type<glm::uint64>(seed, thorough); run_type<glm::int64>(seed, thorough);
	Rng r(seed * 77 + 5);
	for (int x = 0; x < 256; ++x) for (int y = 0; y < 256; ++y) il8((glm::uint8)x, (glm::uint8)y, (glm::uint8)(x ^ (y * 7)), (glm::uint8)(y + 3 * x)); tcount("interleave<uint8>", 65536);
	if (thorough) { std::vector<std::thread> th; for (int t = 0; t < 16; ++t) th.emplace_back([t]() { for (uint32_t x = (uint32_t)t; x < 65536; x += 16) for (uint32_t y = 0; y < 65536; ++y) il16_pair((glm::uint16)x, (glm::uint16)y); }); for (auto& x : th) x.join(); tcount("interleave<uint16 pairs, all 2^32>", 4294967296l); }
	int N = thorough ? 2000000 : 120000;
	for (int i = 0; i < N; ++i) { il16(special<glm::uint16>(r, i), special<glm::uint16>(r, i + 1), special<glm::uint16>(r, i + 5), (glm::uint16)r.next()); il32(special<glm::uint32>(r, i), special<glm::uint32>(r, i + 2), (glm::uint32)r.next()); }
	for (int i = 0; i < 16; ++i) for (int j = 0; j < 16; ++j) il16((glm::uint16)(1u << i), (glm::uint16)(1u << j), (glm::uint16)(1u << i), (glm::uint16)(1u << j));
	for (int i = 0; i < 32; ++i) for (int j = 0; j < 32; ++j) il32(1u << i, 1u << j, 1u << i);
	tcount("interleave<uint16/uint32>", 2l * N);
	fmult<float>(r, thorough ? 400000 : 20000, "float"); fmult<double>(r, thorough ? 400000 : 20000, "double");
	gtx_integer(r, thorough ? 2000000 : 60000);
	return finish();
}
