// oracle_C11.cpp -- violation search for C11: the GLSL per-value definitions evaluated independently (long double / integer
// logic / libm with explicit rounding) against glm's common functions on float and double.
// usage: oracle_C11 sweep <seed> <tier>      thorough: every one of the 2^32 float patterns for the unary functions.
// Conventions (never reported): NaN operands of min/max/clamp/step/smoothstep/mix/mod (undefined in GLSL); roundEven with
// |x| >= 2^31 is reported under its own class (the int conversion).
#define GLM_ENABLE_EXPERIMENTAL
#include <glm/glm.hpp>
#include <glm/ext/scalar_common.hpp>
#include <glm/ext/vector_common.hpp>
#include <glm/ext/scalar_constants.hpp>
#include <glm/gtc/constants.hpp>
#include <glm/gtx/common.hpp>
#include <glm/gtx/wrap.hpp>
#include <glm/gtx/compatibility.hpp>
#include "oracle_common.hpp"
#include <thread>
#include <mutex>
#include <atomic>
using namespace orc;
static std::mutex g_mu;
static void tfail(std::string const& fn, std::string const& cls, std::string const& in, std::string const& ex, std::string const& got) { std::lock_guard<std::mutex> l(g_mu); fail(fn, cls, in, ex, got); }
template<class T> static std::string fs(T x) { return str((double)x) + (sizeof(T) == 4 ? "[" + hex(f2u((float)x)) + "]" : "[" + hex(d2u((double)x)) + "]"); }
template<class T> static bool same(T a, T b) { return (std::isnan(a) && std::isnan(b)) || (a == b && std::signbit(a) == std::signbit(b)); }
template<class T> static bool samev(T a, T b) { return (std::isnan(a) && std::isnan(b)) || a == b; }   // value only (sign of zero free)
template<class T> static void unary(T x, const char* tn)
{
	std::string sfx = std::string("<") + tn + ">", in = fs(x); long double lx = x;
	if (!same(glm::floor(x), (T)floorl(lx))) tfail("floor" + sfx, "value", in, fs((T)floorl(lx)), fs(glm::floor(x)));
	if (!same(glm::ceil(x), (T)ceill(lx))) tfail("ceil" + sfx, "value", in, fs((T)ceill(lx)), fs(glm::ceil(x)));
	if (!same(glm::trunc(x), (T)truncl(lx))) tfail("trunc" + sfx, "value", in, fs((T)truncl(lx)), fs(glm::trunc(x)));
	if (!same(glm::round(x), (T)roundl(lx))) tfail("round" + sfx, "value", in, fs((T)roundl(lx)), fs(glm::round(x)));
	if (std::isfinite(x)) {
		T re = glm::roundEven(x), want = (T)nearbyintl(lx);
		if (!samev(re, want)) tfail("roundEven" + sfx, std::fabs((double)x) >= 2147483648.0 ? "|x| >= 2^31 (conversion to int)" : "value", in, fs(want), fs(re));
		T fr = glm::fract(x); if (!(fr >= 0 && fr <= 1) || !samev(fr, (T)(x - (T)floorl(lx)))) tfail("fract" + sfx, "x - floor(x) in [0,1]", in, fs((T)(x - (T)floorl(lx))), fs(fr));
		T ip; T fp = glm::modf(x, ip); if (!same(ip, (T)truncl(lx)) || !samev(fp, (T)(x - ip))) tfail("modf" + sfx, "value", in, fs((T)truncl(lx)), fs(ip) + " " + fs(fp));
		int e; T m = glm::frexp(x, e); if (x != 0 && (!(std::fabs((double)m) >= 0.5 && std::fabs((double)m) < 1) || glm::ldexp(m, e) != x)) tfail("frexp" + sfx, "ldexp(frexp(x)) == x, mantissa in [0.5,1)", in, in, fs(m) + " e=" + str(e));
		for (T w : { glm::clamp(x), glm::repeat(x), glm::mirrorClamp(x), glm::mirrorRepeat(x) }) if (!(w >= 0 && w <= 1)) { tfail("texcoord wrap" + sfx, "outside [0,1]", in, "[0,1]", fs(w)); break; }
		if (x >= (T)2147483648.0 && x < (T)4294967000.0) { long long wantu = (long long)roundl(lx); if ((long long)glm::uround(x) != wantu) tfail("uround" + sfx, "nearest integer, 2^31 <= x < 2^32", in, str(wantu), str((long long)glm::uround(x))); }
		if (x >= 0 && x < (T)2147483000) { long long want2 = (long long)roundl(lx); if ((long long)glm::iround(x) != want2 || (long long)glm::uround(x) != want2) tfail("iround" + sfx, "nearest integer", in, str(want2), str(glm::iround(x))); }
	}
	if (!samev(glm::abs(x), (T)fabsl(lx))) tfail("abs" + sfx, "value", in, fs((T)fabsl(lx)), fs(glm::abs(x)));
	T sg = glm::sign(x), sw = x > 0 ? (T)1 : (x < 0 ? (T)-1 : (T)0); if (!samev(sg, sw)) tfail("sign" + sfx, "value in {-1,0,+1}", in, fs(sw), fs(sg));
	if (glm::isnan(x) != (x != x)) tfail("isnan" + sfx, "value", in, str(x != x), str(glm::isnan(x)));
	bool inf = (x == std::numeric_limits<T>::infinity() || x == -std::numeric_limits<T>::infinity()); if (glm::isinf(x) != inf) tfail("isinf" + sfx, "value", in, str(inf), str(glm::isinf(x)));
}
// the 4-component overloads (SIMD code in the intrinsics builds, where vec<4, T> is an aligned type) against the scalar overloads lane by lane;
// the scalar overloads are compared with libm above.  Value comparison (sign of zero free, NaN = NaN); fract/roundEven on finite lanes only, as in unary().
template<class T> static void unary_v4(T a, T b, T c, T d, const char* tn)
{
	std::string sfx = std::string("<vec4 ") + tn + ">"; glm::vec<4, T> v(a, b, c, d);
	auto chk = [&](const char* fn, glm::vec<4, T> const& r, T (*sc)(T), bool finite_only) { for (int i = 0; i < 4; ++i) { if (finite_only && !std::isfinite(v[i])) continue; T w = sc(v[i]); if (!samev(r[i], w)) { tfail(fn + sfx, "lane differs from the scalar overload", fs(v[i]) + " (lane " + str(i) + ")", fs(w), fs(r[i])); break; } } };
	chk("floor", glm::floor(v), [](T x) { return glm::floor(x); }, false); chk("ceil", glm::ceil(v), [](T x) { return glm::ceil(x); }, false);
	chk("trunc", glm::trunc(v), [](T x) { return glm::trunc(x); }, false); chk("round", glm::round(v), [](T x) { return glm::round(x); }, false);
	chk("roundEven", glm::roundEven(v), [](T x) { return glm::roundEven(x); }, true); chk("fract", glm::fract(v), [](T x) { return glm::fract(x); }, true);
	chk("abs", glm::abs(v), [](T x) { return glm::abs(x); }, false); chk("sign", glm::sign(v), [](T x) { return glm::sign(x); }, false);
	chk("mod1", glm::mod(v, (T)1), [](T x) { return glm::mod(x, (T)1); }, true);
}
static void bitcasts(uint32_t u)
{
	float f = glm::uintBitsToFloat(u); if (glm::floatBitsToUint(f) != u) tfail("floatBitsToUint", "lossless", hex(u), hex(u), hex(glm::floatBitsToUint(f)));
	float g = glm::intBitsToFloat((int)u); if ((uint32_t)glm::floatBitsToInt(g) != u) tfail("floatBitsToInt", "lossless", hex(u), hex(u), hex((uint32_t)glm::floatBitsToInt(g)));
	if (f2u(f) != u && !(f != f)) tfail("uintBitsToFloat", "bit pattern", hex(u), hex(u), hex(f2u(f)));
}
template<class T> static std::vector<T> lattice()
{
	typedef std::numeric_limits<T> L; std::vector<T> v; T base[] = { (T)0, L::denorm_min(), L::min(), (T)0.5, std::nextafter((T)0.5, (T)0), (T)1, (T)1.5, (T)2.5, (T)8388608, (T)16777216, (T)2147483648.0, (T)2147483904.0, (T)3000000000.0, (T)4294966784.0, L::max(), L::infinity() };
	for (T b : base) { v.push_back(b); v.push_back(-b); } v.push_back(L::quiet_NaN()); return v;
}
template<class T> static T fmin_ref(std::vector<T> const& a) { bool any = false; T m = 0; for (T x : a) if (!(x != x)) { if (!any || x < m) m = x; any = true; } return any ? m : std::numeric_limits<T>::quiet_NaN(); }
template<class T> static T fmax_ref(std::vector<T> const& a) { bool any = false; T m = 0; for (T x : a) if (!(x != x)) { if (!any || x > m) m = x; any = true; } return any ? m : std::numeric_limits<T>::quiet_NaN(); }
template<class T> static void nary(T a, T b, T c, T d, const char* tn)
{
	std::string sfx = std::string("<") + tn + ">", in = fs(a) + "," + fs(b) + "," + fs(c) + "," + fs(d);
	// NaN-aware functions: every operand combination
	if (!samev(glm::fmin(a, b), fmin_ref<T>({a, b})) || !samev(glm::fmin(a, b, c), fmin_ref<T>({a, b, c})) || !samev(glm::fmin(a, b, c, d), fmin_ref<T>({a, b, c, d}))) tfail("fmin" + sfx, "NaN only if every operand is NaN, else the minimum of the numbers", in, fs(fmin_ref<T>({a, b, c, d})), fs(glm::fmin(a, b, c, d)));
	if (!samev(glm::fmax(a, b), fmax_ref<T>({a, b})) || !samev(glm::fmax(a, b, c), fmax_ref<T>({a, b, c})) || !samev(glm::fmax(a, b, c, d), fmax_ref<T>({a, b, c, d}))) tfail("fmax" + sfx, "NaN only if every operand is NaN, else the maximum of the numbers", in, fs(fmax_ref<T>({a, b, c, d})), fs(glm::fmax(a, b, c, d)));
	{ T w = fmin_ref<T>({fmax_ref<T>({a, b}), c}); if (!samev(glm::fclamp(a, b, c), w)) tfail("fclamp" + sfx, "fmin(fmax(x, lo), hi)", in, fs(w), fs(glm::fclamp(a, b, c))); }
	// step(edge, x) = x < edge ? 0 : 1 literally: 1 as soon as an operand is NaN (the comparison is false); scalar and vector overloads
	{ T w = b < a ? (T)0 : (T)1; glm::vec<4, T> e4(a, b, c, d), x4(b, a, d, c); auto r1 = glm::step(a, x4), r2 = glm::step(e4, x4);
	  bool ok = samev(glm::step(a, b), w); for (int k = 0; k < 4; ++k) { ok = ok && samev(r1[k], (T)(x4[k] < a ? 0 : 1)) && samev(r2[k], (T)(x4[k] < e4[k] ? 0 : 1)); }
	  if (!ok) tfail("step" + sfx, (a != a || b != b || c != c || d != d) ? "NaN operand: x < edge is false" : "value", in, fs(w), fs(glm::step(a, b))); }
	if (a != a || b != b || c != c || d != d) return;
	// gtx/common: openBounded = strictly inside (lo, hi), closeBounded = inside [lo, hi], per component; isdenormal = non-zero with a zero exponent field
	{ glm::vec<2, T> v2(a, b), lo2(c, c), hi2(d, d); auto ob = glm::openBounded(v2, lo2, hi2), cb = glm::closeBounded(v2, lo2, hi2);
	  bool ok = ob.x == (c < a && a < d) && ob.y == (c < b && b < d) && cb.x == (c <= a && a <= d) && cb.y == (c <= b && b <= d) && glm::isdenormal(a) == (a != 0 && std::fabs(a) < std::numeric_limits<T>::min());
	  if (!ok) tfail("gtx_common" + sfx, "openBounded / closeBounded / isdenormal", in, "", ""); }
	if (!samev(glm::min(a, b), b < a ? b : a) || !samev(glm::max(a, b), a < b ? b : a)) tfail("min/max" + sfx, "value", in, "", "");
#if !(GLM_ARCH & GLM_ARCH_SIMD_BIT)
	// the GLSL definitions literally: min(x, y) = y < x ? y : x and max(x, y) = x < y ? y : x -- equal operands (+0 and -0) return x, bit for bit
	// (minps / maxps return the second operand there: not checked on the SIMD builds)
	{ T mn = glm::min(a, b), wmn = b < a ? b : a, mx = glm::max(a, b), wmx = a < b ? b : a; if (std::memcmp(&mn, &wmn, sizeof(T)) || std::memcmp(&mx, &wmx, sizeof(T))) tfail("min/max" + sfx, "equal operands of different sign (+0, -0): the first operand", in, fs(wmn) + " / " + fs(wmx), fs(mn) + " / " + fs(mx)); }
#endif
	if (!samev(glm::min(a, b, c), std::min(a, std::min(b, c))) || !samev(glm::max(a, b, c, d), std::max(std::max(a, b), std::max(c, d)))) tfail("min/max" + sfx, "3/4 operands", in, "", "");
	if (b <= c && !samev(glm::clamp(a, b, c), std::min(std::max(a, b), c))) tfail("clamp" + sfx, "value", in, fs(std::min(std::max(a, b), c)), fs(glm::clamp(a, b, c)));
	if (!samev(glm::step(a, b), b < a ? (T)0 : (T)1)) tfail("step" + sfx, "value", in, "", fs(glm::step(a, b)));
	if (std::isfinite(a) && std::isfinite(b) && std::isfinite(c)) {
		if (a < b) { volatile T q = (c - a) / (b - a); T t = std::min(std::max((T)q, (T)0), (T)1); volatile T tt = t * t; volatile T k = (T)3 - (T)2 * t; T w = (T)tt * (T)k; if (std::isfinite(w) && !samev(glm::smoothstep(a, b, c), w)) tfail("smoothstep" + sfx, "value", in, fs(w), fs(glm::smoothstep(a, b, c))); }
		{ volatile T p1 = a * ((T)1 - c); volatile T p2 = b * c; T w = (T)p1 + (T)p2; if (std::isfinite(w) && !samev(glm::mix(a, b, c), w)) tfail("mix" + sfx, "x (1 - a) + y a", in, fs(w), fs(glm::mix(a, b, c))); }
		if (!samev(glm::mix(a, b, c > 0), c > 0 ? b : a)) tfail("mix" + sfx, "boolean selector", in, "", "");
		if (b != 0 && std::isfinite(a / b)) { volatile T q = a / b; volatile T fl = std::floor((T)q); volatile T pr = b * (T)fl; T w = a - (T)pr; if (!samev(glm::mod(a, b), w)) tfail("mod" + sfx, "x - y floor(x / y)", in, fs(w), fs(glm::mod(a, b))); }
	}
}
struct Const { const char* name; const char* digits; float f; double d; };
static void constants()
{
#define CN(n, digits) { #n, digits, glm::n<float>(), glm::n<double>() }
	Const cs[] = { CN(pi, "3.14159265358979323846264338327950288419716939937510"), CN(two_pi, "6.28318530717958647692528676655900576839433879875021"), CN(root_pi, "1.77245385090551602729816748334114518279754945612238"),
		CN(half_pi, "1.57079632679489661923132169163975144209858469968755"), CN(three_over_two_pi, "4.71238898038468985769396507491925432629575409906265"), CN(quarter_pi, "0.78539816339744830961566084581987572104929234984377"),
		CN(one_over_pi, "0.31830988618379067153776752674502872406891929148091"), CN(one_over_two_pi, "0.15915494309189533576888376337251436203445964574045"), CN(two_over_pi, "0.63661977236758134307553505349005744813783858296182"),
		CN(four_over_pi, "1.27323954473516268615107010698011489627567716592365"), CN(two_over_root_pi, "1.12837916709551257389615890312154517168810125865799"), CN(one_over_root_two, "0.70710678118654752440084436210484903928483593768847"),
		CN(root_half_pi, "1.25331413731550025120788264240552262650349337030496"), CN(root_two_pi, "2.50662827463100050241576528481104525300698674060993"), CN(root_ln_four, "1.17741002251547469101156932645969963774738568938582"),
		CN(e, "2.71828182845904523536028747135266249775724709369995"), CN(euler, "0.57721566490153286060651209008240243104215933593992"), CN(root_two, "1.41421356237309504880168872420969807856967187537694"),
		CN(root_three, "1.73205080756887729352744634150587236694280525381038"), CN(root_five, "2.23606797749978969640917366873127623544061835961152"), CN(ln_two, "0.69314718055994530941723212145817656807550013436025"),
		CN(ln_ten, "2.30258509299404568401799145468436420760110148862877"), CN(ln_ln_two, "-0.36651292058166432701243915823266946945426344783711"), CN(third, "0.33333333333333333333333333333333333333333333333333"),
		CN(two_thirds, "0.66666666666666666666666666666666666666666666666667"), CN(golden_ratio, "1.61803398874989484820458683436563811772030917980576"), CN(cos_one_over_two, "0.87758256189037271611628158260382965199164519710974") };
	for (auto& c : cs) { long double t = strtold(c.digits, 0);
		float fw = (float)t; double dw = (double)t;     // correctly rounded from a 64-bit-mantissa value (ties are not hit by these irrational constants)
		if (c.f != fw) tfail(std::string("constant ") + c.name + "<float>", "not the correctly rounded value", c.digits, fs(fw), fs(c.f));
		if (c.d != dw) tfail(std::string("constant ") + c.name + "<double>", "not the correctly rounded value", c.digits, fs(dw), fs(c.d)); }
	if (glm::zero<float>() != 0.f || glm::one<double>() != 1.0 || glm::epsilon<float>() != std::numeric_limits<float>::epsilon() || glm::epsilon<double>() != std::numeric_limits<double>::epsilon()) tfail("constant zero/one/epsilon", "value", "", "", "");
	count("constants", 2 * (long)(sizeof cs / sizeof cs[0]));
}
int main(int argc, char** argv)
{
	uint64_t seed = argc > 2 ? std::strtoull(argv[2], 0, 10) : 1; bool thorough = argc > 3 && std::string(argv[3]) == "thorough"; Rng r(seed * 53 + 11);
	constants();
	// unary functions over the float patterns
	{ uint64_t stride = thorough ? 1 : 1531, off = thorough ? 0 : r.next() % 1531; std::vector<std::thread> th; std::atomic<long> cnt(0);
	  for (int t = 0; t < 16; ++t) th.emplace_back([t, stride, off, &cnt]() { long c = 0; for (uint64_t u = off + (uint64_t)t * stride; u < (1ull << 32); u += 16 * stride) { float fu = u2f((uint32_t)u); unary<float>(fu, "float"); unary_v4<float>(fu, -fu, u2f((uint32_t)u + 0x00800000u), u2f(~(uint32_t)u), "float"); bitcasts((uint32_t)u); ++c; } cnt += c; });
	  for (auto& x : th) x.join(); count(thorough ? "unary functions over all 2^32 float patterns" : "unary functions over every 1531st float pattern", cnt.load()); }
	// the special-value lattice for unary functions (float and double) and its n-th powers for the n-ary ones
	auto lf = lattice<float>(); auto ld = lattice<double>();
	for (size_t i = 0; i < lf.size(); ++i) { size_t m = lf.size(); unary_v4<float>(lf[i], lf[(i + 1) % m], lf[(i + 2) % m], lf[(i + 3) % m], "float"); unary_v4<double>(ld[i], ld[(i + 1) % m], ld[(i + 2) % m], ld[(i + 3) % m], "double");
	  for (float k : { 0.5f, 1.5f, 2.5f, 3.5f, 1000.5f, 8388607.5f }) { unary_v4<float>(k, -k, std::nextafter(k, 0.f), -std::nextafter(k, 1e30f), "float"); unary_v4<float>(-std::nextafter(k, 0.f), std::nextafter(k, 1e30f), lf[i], -k, "float"); }
	  for (double k : { 0.5, 1.5, 2.5, 3.5, 1000.5, 4503599627370495.5, 2147483647.5 }) { unary_v4<double>(k, -k, std::nextafter(k, 0.0), -std::nextafter(k, 1e300), "double"); unary_v4<double>(-std::nextafter(k, 0.0), std::nextafter(k, 1e300), ld[i], -k, "double"); } }
	for (float x : lf) { unary<float>(x, "float"); for (float k : { 0.5f, 1.5f, 2.5f, 3.5f, 1000.5f, 8388607.5f }) { unary<float>(k, "float"); unary<float>(-k, "float"); unary<float>(std::nextafter(k, 0.f), "float"); unary<float>(std::nextafter(k, 1e30f), "float"); } }
	for (double x : ld) { unary<double>(x, "double"); for (double k : { 0.5, 1.5, 2.5, 3.5, 1000.5, 4503599627370495.5, 2147483647.5 }) { unary<double>(k, "double"); unary<double>(-k, "double"); unary<double>(std::nextafter(k, 0.0), "double"); unary<double>(std::nextafter(k, 1e300), "double"); } }
	long n = 0; int S = thorough ? 1 : 3;
	for (size_t i = 0; i < lf.size(); ++i) for (size_t j = 0; j < lf.size(); ++j) for (size_t k = 0; k < lf.size(); k += 1) for (size_t l = (i + j + k) % S; l < lf.size(); l += S) { nary<float>(lf[i], lf[j], lf[k], lf[l], "float"); nary<double>(ld[i], ld[j], ld[k], ld[l], "double"); n += 2; }
	int N = thorough ? 2000000 : 100000;
	for (int i = 0; i < N; ++i) { double a = r.real(-10, 10), b = r.real(-10, 10), c = r.real(-2, 3), d = r.real(-10, 10); if (i % 5 == 0) c = r.real(0, 1); nary<float>((float)a, (float)b, (float)c, (float)d, "float"); nary<double>(a, b, c, d, "double"); unary<double>(r.real(-1e6, 1e6), "double"); unary<double>(std::ldexp(r.real(1, 2), r.range(-1070, 1020)) * (i % 2 ? 1 : -1), "double"); n += 4; }
	count("special-value lattice^4 and random operands", n);
	return finish();
}
