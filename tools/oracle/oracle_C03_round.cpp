// oracle_C03_round.cpp -- C03, rounding to integer: the aligned vec4 round / floor / ceil / trunc / fract of the intrinsic build on
// ALL 2^32 binary32 bit patterns against the C library (which is what the generic code calls), four values per vector.
// Built with -DGLM_FORCE_INTRINSICS -DGLM_FORCE_DEFAULT_ALIGNED_GENTYPES -m<isa>.  Completes the partial theorem round4 (the ties).
// usage: oracle_C03_round sweep <seed> <tier>      (quick: every 16th block of 1024 patterns plus all ties; thorough: everything)
#include <glm/glm.hpp>
#include <cstdio>
#include <cstring>
#include <cmath>
#include <cstdint>
#include <string>
static uint64_t bad[4], cases;
static void report(int f, uint32_t u, float got, float want) { static const char* nm[] = { "round", "floor", "ceil", "fract" }; if (__sync_fetch_and_add(&bad[f], 1) < 3) std::printf("FAIL fn=%s class=\"differs from the C library\" input=\"bits %08x\" expected=\"%a\" got=\"%a\"\n", nm[f], u, want, got); }
static bool same(float a, float b) { return a == b || (a != a && b != b); }
static void block(uint32_t base, uint32_t count)
{
	for (uint32_t lo = 0; lo < count; lo += 4) { uint32_t u[4]; float f[4]; for (int k = 0; k < 4; ++k) u[k] = base + lo + k; std::memcpy(f, u, 16);
		glm::vec4 v(f[0], f[1], f[2], f[3]); glm::vec4 r = glm::round(v), fl = glm::floor(v), ce = glm::ceil(v), fr = glm::fract(v);
		for (int k = 0; k < 4; ++k) { if (f[k] != f[k]) continue;
			if (!same(r[k], std::round(f[k]))) report(0, u[k], r[k], std::round(f[k]));
			if (!same(fl[k], std::floor(f[k]))) report(1, u[k], fl[k], std::floor(f[k]));
			if (!same(ce[k], std::ceil(f[k]))) report(2, u[k], ce[k], std::ceil(f[k]));
			if (std::fabs(f[k]) < 3.0e38f && !same(fr[k], f[k] - std::floor(f[k]))) report(3, u[k], fr[k], f[k] - std::floor(f[k])); } }
	__sync_fetch_and_add(&cases, (uint64_t)count);
}
int main(int argc, char** argv)
{
	bool thorough = argc > 3 && std::string(argv[3]) == "thorough"; uint64_t seed = argc > 2 ? std::strtoull(argv[2], 0, 10) : 1;
#pragma omp parallel for schedule(dynamic, 64)
	for (int64_t hi = 0; hi < (1 << 22); ++hi) if (thorough || ((hi + (int64_t)seed) % 16) == 0) block((uint32_t)(hi << 10), 1024);
	// every tie k + 1/2 (and its neighbours) for |k| < 2^23, both signs
	for (int64_t k = 0; k < (1 << 23); k += 1) { float t = (float)k + 0.5f; uint32_t u; std::memcpy(&u, &t, 4); block((u - 1) & ~3u, 8); block(((u - 1) & ~3u) | 0x80000000u, 8); }
	std::printf("STAT fn=round_floor_ceil_fract cases=%llu\n", (unsigned long long)cases);
	std::printf("SAMPLE %s: aligned vec4 round/floor/ceil/fract on %llu binary32 patterns (incl. every tie k+1/2, |k| < 2^23) against std::round/floor/ceil\n", thorough ? "all 2^32" : "1/16 of all", (unsigned long long)cases);
	return (bad[0] | bad[1] | bad[2] | bad[3]) ? 1 : 0;
}
