// oracle_C01.cpp -- violation search for C01: calls the vector and the scalar overloads of the real functions on the
// special-value lattice and random values and compares component by component, bit for bit (identical class) or within
// 2 ulp (composite class: mix, smoothstep, mod, fma), lowp inversesqrt within 2^-8 relative error.
#define GLM_ENABLE_EXPERIMENTAL
#include "oracle/oracle_common.hpp"
#include <glm/glm.hpp>
#include <glm/gtx/component_wise.hpp>
#include <glm/ext/vector_common.hpp>
#include <glm/ext/scalar_common.hpp>
#include <glm/ext/vector_relational.hpp>
#include <glm/ext/scalar_relational.hpp>
#include <glm/gtc/type_precision.hpp>
using namespace orc;
template<class T> static const char* tn();
template<> const char* tn<float>() { return "f32"; } template<> const char* tn<double>() { return "f64"; } template<> const char* tn<int>() { return "i32"; } template<> const char* tn<unsigned>() { return "u32"; }
template<> const char* tn<glm::int8>() { return "i8"; } template<> const char* tn<glm::uint8>() { return "u8"; } template<> const char* tn<glm::int16>() { return "i16"; } template<> const char* tn<glm::uint16>() { return "u16"; } template<> const char* tn<glm::int64>() { return "i64"; } template<> const char* tn<glm::uint64>() { return "u64"; }
template<class T> static bool same(T a, T b) { if (a != a && b != b) return true; return std::memcmp(&a, &b, sizeof(T)) == 0; }
static bool same(bool a, bool b) { return a == b; }
// std::fmin/fmax may return either zero for (+0,-0): compare zeros as equal
template<class T> static bool samez(T a, T b) { if (a == 0 && b == 0) return true; return same(a, b); }
template<class T> static bool close2(T a, T b) { if (a != a && b != b) return true; if (a == b) return true; long double d = fabsl((long double)a - b), m = std::max(fabsl((long double)a), fabsl((long double)b)); return d <= 4 * std::numeric_limits<T>::epsilon() * m + std::numeric_limits<T>::denorm_min(); }
template<class T> static T special(Rng& g) {
	static const double sp[] = {0.0, -0.0, 1.0, -1.0, 0.5, -0.5, 1.5, 2.5, -2.5, 3.5, 1e-45, -1e-45, 1.17549435e-38, 8388608.0, 8388609.0, 16777216.0, -16777216.0, 2147483648.0, 0.49999997, 3.4028234663852886e38, -3.4028234663852886e38,
		std::numeric_limits<double>::infinity(), -std::numeric_limits<double>::infinity(), std::numeric_limits<double>::quiet_NaN(), 0.1, -0.7, 123.456, 1e-10, -1e10};
	if (g.range(0, 2) == 0) return (T)g.real(-10, 10); return (T)sp[g.range(0, (int)(sizeof(sp) / sizeof(sp[0])) - 1)]; }
template<class T> static T ispecial(Rng& g) { static const long long sp[] = {0, 1, -1, 2, 3, 7, 8, 31, 32, 127, 128, 255, 256, 32767, 32768, 65535, 0x7fffffffll, -0x80000000ll, 0xffffffffll, 0x7fffffffffffffffll, -0x7fffffffffffffffll - 1}; if (g.range(0, 2) == 0) return (T)g.next(); return (T)sp[g.range(0, 20)]; }
template<int L, class T, glm::qualifier Q> static std::string vs(glm::vec<L, T, Q> const& v) { std::string s = "("; for (int i = 0; i < L; ++i) { s += str((double)v[i]); if (i + 1 < L) s += ","; } return s + ")"; }
#define FOR_L(M) M(1) M(2) M(3) M(4)
// unary float functions, identical class
#define U1(FN, L) { glm::vec<L, T, Q> a; for (int i = 0; i < L; ++i) a[i] = special<T>(g); auto r = glm::FN(a); count(std::string(#FN "_") + tn<T>()); for (int i = 0; i < L; ++i) if (!same(r[i], glm::FN(a[i]))) { fail(std::string(#FN "_") + tn<T>(), "component", "L=" #L " " + vs(a) + " i=" + str(i), str((double)glm::FN(a[i])), str((double)r[i])); break; } }
#define B2(FN, L, CMP) { glm::vec<L, T, Q> a, b; for (int i = 0; i < L; ++i) { a[i] = special<T>(g); b[i] = special<T>(g); } auto r = glm::FN(a, b); count(std::string(#FN "_") + tn<T>()); for (int i = 0; i < L; ++i) if (!CMP(r[i], glm::FN(a[i], b[i]))) { fail(std::string(#FN "_") + tn<T>(), "component", "L=" #L " " + vs(a) + "," + vs(b) + " i=" + str(i), str((double)glm::FN(a[i], b[i])), str((double)r[i])); break; } \
	auto r2 = glm::FN(a, b[0]); for (int i = 0; i < L; ++i) if (!CMP(r2[i], glm::FN(a[i], b[0]))) { fail(std::string(#FN "_vs_") + tn<T>(), "broadcast", "L=" #L " " + vs(a) + "," + str((double)b[0]) + " i=" + str(i), str((double)glm::FN(a[i], b[0])), str((double)r2[i])); break; } }
#define B2N(FN, L, CMP) { glm::vec<L, T, Q> a, b; for (int i = 0; i < L; ++i) { a[i] = special<T>(g); b[i] = special<T>(g); } auto r = glm::FN(a, b); count(std::string(#FN "_") + tn<T>()); for (int i = 0; i < L; ++i) if (!CMP(r[i], glm::FN(a[i], b[i]))) { fail(std::string(#FN "_") + tn<T>(), "component", "L=" #L " " + vs(a) + "," + vs(b) + " i=" + str(i), str((double)glm::FN(a[i], b[i])), str((double)r[i])); break; } \
	auto r2 = glm::FN(a[0], b); for (int i = 0; i < L; ++i) if (!CMP(r2[i], glm::FN(a[0], b[i]))) { fail(std::string(#FN "_sv_") + tn<T>(), "broadcast", "L=" #L, "scalar", "differs"); break; } }
template<class T> static bool close3(T r, T e, T a, T b, T c) { if (r != r && e != e) return true; if (r == e) return true; long double m = std::max(std::max(fabsl((long double)a * b), fabsl((long double)c)), std::max(fabsl((long double)a), fabsl((long double)b))); if (!(m < (long double)std::numeric_limits<T>::max() / 4)) return true; if (m != m) return true; return fabsl((long double)r - e) <= 8 * std::numeric_limits<T>::epsilon() * m + std::numeric_limits<T>::denorm_min(); }
#define T3C(FN, L) { glm::vec<L, T, Q> a, b, c; for (int i = 0; i < L; ++i) { a[i] = special<T>(g); b[i] = special<T>(g); c[i] = special<T>(g); } auto r = glm::FN(a, b, c); count(std::string(#FN "_") + tn<T>()); for (int i = 0; i < L; ++i) if (!close3(r[i], glm::FN(a[i], b[i], c[i]), a[i], b[i], c[i])) { fail(std::string(#FN "_") + tn<T>(), "component", "L=" #L " " + vs(a) + "," + vs(b) + "," + vs(c) + " i=" + str(i), str((double)glm::FN(a[i], b[i], c[i])), str((double)r[i])); break; } }
#define T3(FN, L, CMP) { glm::vec<L, T, Q> a, b, c; for (int i = 0; i < L; ++i) { a[i] = special<T>(g); b[i] = special<T>(g); c[i] = special<T>(g); } auto r = glm::FN(a, b, c); count(std::string(#FN "_") + tn<T>()); for (int i = 0; i < L; ++i) if (!CMP(r[i], glm::FN(a[i], b[i], c[i]))) { fail(std::string(#FN "_") + tn<T>(), "component", "L=" #L " " + vs(a) + "," + vs(b) + "," + vs(c) + " i=" + str(i), str((double)glm::FN(a[i], b[i], c[i])), str((double)r[i])); break; } }
template<class T, glm::qualifier Q> static void run_float(Rng& g, int n) {
	for (int it = 0; it < n; ++it) {
#define M(L) U1(abs, L) U1(sign, L) U1(floor, L) U1(ceil, L) U1(trunc, L) U1(round, L) U1(fract, L) U1(sqrt, L) U1(exp, L) U1(log, L) U1(exp2, L) U1(sin, L) U1(cos, L) U1(tan, L) U1(asin, L) U1(acos, L) U1(atan, L) U1(radians, L) U1(degrees, L) \
		U1(sinh, L) U1(cosh, L) U1(tanh, L) U1(asinh, L) U1(acosh, L) U1(atanh, L) U1(isnan, L) U1(isinf, L) U1(roundEven, L) \
		B2(min, L, same) B2(max, L, same) B2(fmin, L, samez) B2(fmax, L, samez) B2(mod, L, close2) B2N(step, L, same) \
		T3(clamp, L, same) T3C(mix, L) T3(smoothstep, L, close2) T3C(fma, L) T3(fmin, L, samez) T3(fmax, L, samez) T3(fclamp, L, samez)
		FOR_L(M)
#undef M
		// functions with an output parameter and the bit casts: the vector overload against the scalar one on every component, bit for bit (signed zeros, infinities and NaN included)
#define OUTP(L) { glm::vec<L, T, Q> a, ip; for (int i = 0; i < L; ++i) a[i] = special<T>(g); auto fr = glm::modf(a, ip); count(std::string("modf_") + tn<T>()); \
		for (int i = 0; i < L; ++i) { T si; T sf = glm::modf(a[i], si); if (!same(fr[i], sf) || !same(ip[i], si)) { fail(std::string("modf_") + tn<T>(), "component", "L=" #L " a=" + vs(a) + " i=" + str(i), "scalar modf: frac " + str((double)sf) + " int " + str((double)si), "frac " + str((double)fr[i]) + " int " + str((double)ip[i])); break; } } \
		glm::vec<L, int, Q> ex; auto mn = glm::frexp(a, ex); count(std::string("frexp_") + tn<T>()); \
		for (int i = 0; i < L; ++i) { int se; T sm = glm::frexp(a[i], se); bool fin = a[i] == a[i] && a[i] - a[i] == 0; if (!same(mn[i], sm) || (fin && ex[i] != se)) { fail(std::string("frexp_") + tn<T>(), "component", "L=" #L " a=" + vs(a) + " i=" + str(i), "scalar frexp", "differs"); break; } } \
		glm::vec<L, int, Q> e2; for (int i = 0; i < L; ++i) e2[i] = (int)g.range(0, 60) - 30; auto ld = glm::ldexp(a, e2); count(std::string("ldexp_") + tn<T>()); \
		for (int i = 0; i < L; ++i) if (!same(ld[i], glm::ldexp(a[i], e2[i]))) { fail(std::string("ldexp_") + tn<T>(), "component", "L=" #L " a=" + vs(a) + " i=" + str(i), "scalar ldexp", "differs"); break; } }
		FOR_L(OUTP)
#undef OUTP
#define BITC(L) if constexpr (std::is_same<T, float>::value) { glm::vec<L, float, Q> a; glm::vec<L, int, Q> iv; glm::vec<L, glm::uint, Q> uv; for (int i = 0; i < L; ++i) { a[i] = special<float>(g); iv[i] = (int)g.next(); uv[i] = (glm::uint)g.next(); } count("bitcasts_f32"); \
		auto fi = glm::floatBitsToInt(a); auto fu = glm::floatBitsToUint(a); auto bf = glm::intBitsToFloat(iv); auto uf = glm::uintBitsToFloat(uv); \
		for (int i = 0; i < L; ++i) { int ri; std::memcpy(&ri, &a[i], 4); float rf, ru; std::memcpy(&rf, &iv[i], 4); std::memcpy(&ru, &uv[i], 4); \
			if (fi[i] != ri || fu[i] != (glm::uint)ri || std::memcmp(&bf[i], &rf, 4) || std::memcmp(&uf[i], &ru, 4) || fi[i] != glm::floatBitsToInt(a[i]) || fu[i] != glm::floatBitsToUint(a[i])) { fail("bitcasts_f32", "component", "L=" #L " a=" + vs(a) + " i=" + str(i), "the bit pattern", "differs"); break; } } \
		glm::vec<L, bool, Q> bv; bool aall = true, aany = false; for (int i = 0; i < L; ++i) { bv[i] = (g.next() & 3) != 0; aall = aall && bv[i]; aany = aany || bv[i]; } auto nb = glm::not_(bv); bool okb = glm::all(bv) == aall && glm::any(bv) == aany; for (int i = 0; i < L; ++i) okb = okb && nb[i] == !bv[i]; \
		count("all_any_not"); if (!okb) fail("all_any_not", "component", "L=" #L, "conjunction / disjunction / negation per component", "differs"); }
		FOR_L(BITC)
#undef BITC
		// operators, with scalar and vec1 operands, and relational functions
#define OPS(L) { glm::vec<L, T, Q> a, b; for (int i = 0; i < L; ++i) { a[i] = special<T>(g); b[i] = special<T>(g); } glm::vec<1, T, Q> b1(b[0]); T s = b[0]; std::string nm = std::string("operators_") + tn<T>(); count(nm); \
		auto add = a + b, sub = a - b, mul = a * b, dv = a / b, neg = -a, as = a + s, sa = s + a, ss = a - s, s2 = s - a, ms = a * s, sm = s * a, ds = a / s, sd = s / a, a1 = a + b1, m1 = a * b1, d1 = a / b1, b1a = b1 / a, s1 = a - b1, b1s = b1 - a; \
		for (int i = 0; i < L; ++i) { bool ok = same(add[i], a[i] + b[i]) && same(sub[i], a[i] - b[i]) && same(mul[i], a[i] * b[i]) && same(dv[i], a[i] / b[i]) && same(neg[i], -a[i]) && same(as[i], a[i] + s) && same(sa[i], s + a[i]) && same(ss[i], a[i] - s) && same(s2[i], s - a[i]) \
			&& same(ms[i], a[i] * s) && same(sm[i], s * a[i]) && same(ds[i], a[i] / s) && same(sd[i], s / a[i]) && same(a1[i], a[i] + s) && same(m1[i], a[i] * s) && same(d1[i], a[i] / s) && same(b1a[i], s / a[i]) && same(s1[i], a[i] - s) && same(b1s[i], s - a[i]); \
			if (!ok) { fail(nm, "component", "L=" #L " a=" + vs(a) + " b=" + vs(b) + " i=" + str(i), "scalar operator per component", "differs (one of + - * / unary-, vec/scalar/vec1 shapes)"); break; } } \
		auto lt = glm::lessThan(a, b), le = glm::lessThanEqual(a, b), gt = glm::greaterThan(a, b), ge = glm::greaterThanEqual(a, b), eq = glm::equal(a, b), ne = glm::notEqual(a, b); T e = (T)g.real(0, 1); if (it % 3 == 0) e = 0; auto eqe = glm::equal(a, b, e), nee = glm::notEqual(a, b, e); \
		for (int i = 0; i < L; ++i) { bool ok = lt[i] == (a[i] < b[i]) && le[i] == (a[i] <= b[i]) && gt[i] == (a[i] > b[i]) && ge[i] == (a[i] >= b[i]) && eq[i] == (a[i] == b[i]) && ne[i] == (a[i] != b[i]) && eqe[i] == glm::equal(a[i], b[i], e) && nee[i] == glm::notEqual(a[i], b[i], e); \
			if (!ok) { fail(std::string("relational_") + tn<T>(), "component", "L=" #L " a=" + vs(a) + " b=" + vs(b) + " eps=" + str((double)e) + " i=" + str(i), "scalar comparison per component", "differs"); break; } } }
		FOR_L(OPS)
#undef OPS
	}
}
template<class T> static void run_int(Rng& g, int n) {
	const glm::qualifier Q = glm::defaultp; std::string nm = std::string("int_operators_") + tn<T>();
	for (int it = 0; it < n; ++it) {
#define IOPS(L) { glm::vec<L, T, Q> a, b; for (int i = 0; i < L; ++i) { a[i] = ispecial<T>(g); b[i] = ispecial<T>(g); if (b[i] == 0) b[i] = 1; if (std::is_signed<T>::value && b[i] == (T)-1) b[i] = 2; } T s = b[0]; glm::vec<1, T, Q> b1(s); T sh = (T)g.range(0, (int)sizeof(T) * 8 - 1); count(nm); \
		typedef typename std::make_unsigned<T>::type UT; glm::vec<L, T, Q> an = a; if (std::is_signed<T>::value) for (int i = 0; i < L; ++i) if (an[i] < 0) an[i] = (T)(an[i] & std::numeric_limits<T>::max()); \
		auto add = a + b, sub = a - b, mul = a * b, dv = a / b, rm = a % b, an_ = a & b, orr = a | b, xr = a ^ b, nt = ~a, shl = an << sh, shr = a >> sh, as = a + s, a1 = a + b1, rs = a % s, r1 = a % b1, ands = a & s, shls = an << glm::vec<L, T, Q>(sh); \
		for (int i = 0; i < L; ++i) { bool ok = add[i] == (T)((UT)a[i] + (UT)b[i]) && sub[i] == (T)((UT)a[i] - (UT)b[i]) && mul[i] == (T)((UT)a[i] * (UT)b[i]) && dv[i] == (T)(a[i] / b[i]) && rm[i] == (T)(a[i] % b[i]) && an_[i] == (T)(a[i] & b[i]) && orr[i] == (T)(a[i] | b[i]) && xr[i] == (T)(a[i] ^ b[i]) \
			&& nt[i] == (T)~a[i] && shl[i] == (T)(an[i] << sh) && shr[i] == (T)(a[i] >> sh) && as[i] == (T)((UT)a[i] + (UT)s) && a1[i] == (T)((UT)a[i] + (UT)s) && rs[i] == (T)(a[i] % s) && r1[i] == (T)(a[i] % s) && ands[i] == (T)(a[i] & s) && shls[i] == (T)(an[i] << sh); \
			if (!ok) { fail(nm, "component", "L=" #L " a=" + vs(a) + " b=" + vs(b) + " shift=" + str((double)sh) + " i=" + str(i), "scalar operator per component", "differs"); break; } } \
		auto mn = glm::min(a, b), mx = glm::max(a, b), cl = glm::clamp(a, glm::min(a, b), glm::max(a, b)); for (int i = 0; i < L; ++i) if (!(mn[i] == glm::min(a[i], b[i]) && mx[i] == glm::max(a[i], b[i]) && cl[i] == glm::clamp(a[i], glm::min(a[i], b[i]), glm::max(a[i], b[i])))) { fail(std::string("int_minmax_") + tn<T>(), "component", vs(a) + "," + vs(b), "scalar", "differs"); break; } }
		FOR_L(IOPS)
#undef IOPS
	}
}
// the GLSL integer functions with output parameters (32-bit only) and bitCount / findLSB / findMSB / bitfieldReverse: vector overload = scalar overload on every component
static void int_functions(Rng& g, int n) { const glm::qualifier Q = glm::defaultp;
	for (int it = 0; it < n; ++it) {
#define IFN(L) { glm::vec<L, glm::uint, Q> x, y, c, bo, hi, lo; glm::vec<L, int, Q> sx, sy, shi, slo; for (int i = 0; i < L; ++i) { x[i] = (glm::uint)ispecial<unsigned>(g); y[i] = (glm::uint)ispecial<unsigned>(g); sx[i] = ispecial<int>(g); sy[i] = ispecial<int>(g); } count("int_functions"); \
		auto sum = glm::uaddCarry(x, y, c); auto dif = glm::usubBorrow(x, y, bo); glm::umulExtended(x, y, hi, lo); glm::imulExtended(sx, sy, shi, slo); auto bc = glm::bitCount(sx); auto fl = glm::findLSB(sx); auto fm = glm::findMSB(sx); auto br = glm::bitfieldReverse(x); \
		for (int i = 0; i < L; ++i) { glm::uint c1, b1, h1, l1; int sh1, sl1; glm::uint s1 = glm::uaddCarry(x[i], y[i], c1), d1 = glm::usubBorrow(x[i], y[i], b1); glm::umulExtended(x[i], y[i], h1, l1); glm::imulExtended(sx[i], sy[i], sh1, sl1); \
			long long ref = (long long)sx[i] * (long long)sy[i]; \
			bool ok = sum[i] == s1 && c[i] == c1 && dif[i] == d1 && bo[i] == b1 && hi[i] == h1 && lo[i] == l1 && shi[i] == sh1 && slo[i] == sl1 && shi[i] == (int)(ref >> 32) && slo[i] == (int)(ref & 0xffffffffll) \
				&& bc[i] == glm::bitCount(sx[i]) && fl[i] == glm::findLSB(sx[i]) && fm[i] == glm::findMSB(sx[i]) && br[i] == glm::bitfieldReverse(x[i]); \
			if (!ok) { fail("int_functions", "component", "L=" #L " x=" + vs(x) + " y=" + vs(y) + " sx=" + vs(sx) + " sy=" + vs(sy) + " i=" + str(i), "scalar uaddCarry / usubBorrow / umulExtended / imulExtended / bitCount / findLSB / findMSB / bitfieldReverse per component", "differs"); break; } } }
		FOR_L(IFN)
#undef IFN
	}
}
// gtx/component_wise: compAdd / compMul / compMin / compMax / fcompMin / fcompMax fold the scalar operation over the components; compNormalize / compScale convert each component
// between an integer type and [0, 1] (unsigned) or [-1, 1] (signed)
static void component_wise(Rng& g, int n) { const glm::qualifier Q = glm::defaultp;
	for (int it = 0; it < n; ++it) {
#define CW(L) { glm::vec<L, float, Q> a; glm::vec<L, int, Q> ia; for (int i = 0; i < L; ++i) { a[i] = special<float>(g); if (a[i] != a[i]) a[i] = 0.f; ia[i] = (int)(g.next() % 2001) - 1000; } count("component_wise"); \
		float sa = a[0], sm = a[0], mn = a[0], mx = a[0]; int isum = ia[0], imn = ia[0], imx = ia[0]; for (int i = 1; i < L; ++i) { sa += a[i]; sm *= a[i]; mn = glm::min(mn, a[i]); mx = glm::max(mx, a[i]); isum += ia[i]; imn = glm::min(imn, ia[i]); imx = glm::max(imx, ia[i]); } \
		bool ok = samez(glm::compAdd(a), sa) && samez(glm::compMul(a), sm) &&   /* the fold starts from 0 (resp. 1): the sign of a zero result is not part of the statement */ samez(glm::compMin(a), mn) && samez(glm::compMax(a), mx) && glm::compAdd(ia) == isum && glm::compMin(ia) == imn && glm::compMax(ia) == imx && samez(glm::fcompMin(a), mn) && samez(glm::fcompMax(a), mx); \
		glm::vec<L, glm::uint8, Q> u8; glm::vec<L, glm::int16, Q> s16; for (int i = 0; i < L; ++i) { u8[i] = (glm::uint8)g.next(); s16[i] = (glm::int16)g.next(); } auto nu = glm::compNormalize<float>(u8); auto ns = glm::compNormalize<float>(s16); \
		for (int i = 0; i < L; ++i) { long double wu = (long double)u8[i] / 255, ws = ((long double)s16[i] + 32768) / 65535 * 2 - 1; if (!(fabsl(nu[i] - wu) <= 4e-7L && fabsl(ns[i] - ws) <= 4e-7L)) ok = false; } \
		auto bu = glm::compScale<glm::uint8>(nu); for (int i = 0; i < L; ++i) if (bu[i] != u8[i] && bu[i] + 1 != u8[i]) ok = false;   /* compScale truncates: the code or its predecessor */ \
		if (!ok) fail("component_wise", "fold / conversion", "L=" #L " a=" + vs(a), "scalar operation folded over the components; compNormalize = (x - min) / (max - min) mapped to the unit range", "differs"); }
		FOR_L(CW)
#undef CW
	}
}
static void lowp_inversesqrt(Rng& g, int n) { for (int it = 0; it < n; ++it) { glm::vec<4, float, glm::lowp> a; for (int i = 0; i < 4; ++i) a[i] = std::ldexp((float)g.real(1, 2), g.range(-60, 60)); auto r = glm::inversesqrt(a); count("inversesqrt_lowp");
	for (int i = 0; i < 4; ++i) { long double e = 1 / sqrtl((long double)a[i]); if (!(fabsl((long double)r[i] - e) <= e / 256)) { fail("inversesqrt_lowp", "accuracy", vs(a) + " i=" + str(i), str((double)e) + " +- 2^-8", str((double)r[i])); break; } } } }
int main(int argc, char** argv) {
	uint64_t seed = argc > 2 ? std::strtoull(argv[2], 0, 10) : 1; int n = (argc > 3 && std::string(argv[3]) == "thorough") ? 20000 : 600;
	Rng g(seed);
#ifdef ORC_PART_FLOAT
	run_float<float, glm::highp>(g, n); run_float<float, glm::mediump>(g, n / 2); run_float<float, glm::lowp>(g, n / 2);
#elif defined(ORC_PART_DOUBLE)
	run_float<double, glm::highp>(g, n);
#else
	run_int<int>(g, n); run_int<unsigned>(g, n); run_int<glm::int8>(g, n); run_int<glm::uint8>(g, n); run_int<glm::int16>(g, n); run_int<glm::uint16>(g, n); run_int<glm::int64>(g, n); run_int<glm::uint64>(g, n); int_functions(g, n); component_wise(g, n); lowp_inversesqrt(g, n * 10);
#endif
	return finish();
}
