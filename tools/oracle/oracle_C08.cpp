// oracle_C08.cpp -- violation search for C08: every clip-space builder must send the corners of its view
// volume to the clip-cube corners of its convention; unsuffixed builders must equal the variant selected by the
// configuration macros this file is compiled with; project/unProject must be mutually inverse.
#include "oracle/oracle_common.hpp"
#include <glm/glm.hpp>
#include <glm/ext/matrix_clip_space.hpp>
#include <glm/ext/matrix_projection.hpp>
using namespace orc;
typedef long double LD;
#ifdef GLM_FORCE_LEFT_HANDED
static const bool CFG_LH = true;
#else
static const bool CFG_LH = false;
#endif
#ifdef GLM_FORCE_DEPTH_ZERO_TO_ONE
static const bool CFG_ZO = true;
#else
static const bool CFG_ZO = false;
#endif
template<class T> static const char* tn(); template<> const char* tn<float>() { return "f32"; } template<> const char* tn<double>() { return "f64"; }
template<class T> static std::string ms(glm::mat<4, 4, T> const& m) { std::string s = "["; for (int c = 0; c < 4; ++c) { s += "("; for (int r = 0; r < 4; ++r) { s += str((double)m[c][r]); if (r < 3) s += ","; } s += ")"; } return s + "]"; }
template<class T> static void clipof(glm::mat<4, 4, T> const& P, LD x, LD y, LD z, LD out[4]) { for (int r = 0; r < 4; ++r) out[r] = (LD)P[0][r] * x + (LD)P[1][r] * y + (LD)P[2][r] * z + (LD)P[3][r]; }
// check the 8 corners; persp: x,y extents scale with distance/near
template<class T> static void corners(std::string fn, glm::mat<4, 4, T> const& P, bool lh, bool zo, LD l, LD r, LD b, LD t, LD n, LD f, bool persp, std::string const& params, bool infinite = false) {
	LD tol = 256 * std::numeric_limits<T>::epsilon(); count(fn);
	for (int iz = 0; iz < (infinite ? 1 : 2); ++iz) for (int ix = 0; ix < 2; ++ix) for (int iy = 0; iy < 2; ++iy) {
		LD d = iz ? f : n, s = persp ? d / n : 1; LD x = (ix ? r : l) * s, y = (iy ? t : b) * s, z = lh ? d : -d; LD c[4]; clipof(P, x, y, z, c);
		LD ex = ix ? 1 : -1, ey = iy ? 1 : -1, ez = iz ? 1 : (zo ? 0 : -1);
		LD scale = 1 + fabsl((r + l) / (r - l)) + fabsl((t + b) / (t - b)) + fabsl((f + n) / (f - n));
		if (!(fabsl(c[0] / c[3] - ex) <= tol * scale && fabsl(c[1] / c[3] - ey) <= tol * scale && fabsl(c[2] / c[3] - ez) <= tol * scale * (persp ? f / n : 1)) || !(c[3] > 0))
			fail(fn, "corner", params + " corner(" + str((double)x) + "," + str((double)y) + "," + str((double)z) + ")", "ndc(" + str((double)ex) + "," + str((double)ey) + "," + str((double)ez) + ") w>0", "ndc(" + str((double)(c[0] / c[3])) + "," + str((double)(c[1] / c[3])) + "," + str((double)(c[2] / c[3])) + ") w=" + str((double)c[3]));
	}
}
template<class T> static void same(std::string fn, glm::mat<4, 4, T> const& A, glm::mat<4, 4, T> const& B, std::string const& params) { count(fn); if (std::memcmp(&A, &B, sizeof A) != 0) fail(fn, "dispatch", params, ms(B), ms(A)); }
template<class T> static void run(Rng& g, int n) {
	std::string ty = std::string("_") + tn<T>();
	for (int it = 0; it < n; ++it) {
		T l = (T)g.real(-5, 2), r = l + (T)g.real(0.5, 6), b = (T)g.real(-5, 2), t = b + (T)g.real(0.5, 6), nr = (T)g.real(0.1, 3), fr = nr + (T)g.real(0.5, 50);
		if (it % 5 == 0) { l = -r; b = -t; }
		std::string ps = "l=" + str((double)l) + " r=" + str((double)r) + " b=" + str((double)b) + " t=" + str((double)t) + " n=" + str((double)nr) + " f=" + str((double)fr);
#define V4(F, PERSP, ARGS, L_, R_, B_, T_) \
		corners<T>(#F "LH_ZO" + ty, glm::F##LH_ZO ARGS, true, true, L_, R_, B_, T_, nr, fr, PERSP, ps); corners<T>(#F "LH_NO" + ty, glm::F##LH_NO ARGS, true, false, L_, R_, B_, T_, nr, fr, PERSP, ps); \
		corners<T>(#F "RH_ZO" + ty, glm::F##RH_ZO ARGS, false, true, L_, R_, B_, T_, nr, fr, PERSP, ps); corners<T>(#F "RH_NO" + ty, glm::F##RH_NO ARGS, false, false, L_, R_, B_, T_, nr, fr, PERSP, ps); \
		same<T>(#F + ty, glm::F ARGS, CFG_LH ? (CFG_ZO ? glm::F##LH_ZO ARGS : glm::F##LH_NO ARGS) : (CFG_ZO ? glm::F##RH_ZO ARGS : glm::F##RH_NO ARGS), ps); \
		same<T>(#F "LH" + ty, glm::F##LH ARGS, CFG_ZO ? glm::F##LH_ZO ARGS : glm::F##LH_NO ARGS, ps); same<T>(#F "RH" + ty, glm::F##RH ARGS, CFG_ZO ? glm::F##RH_ZO ARGS : glm::F##RH_NO ARGS, ps); \
		same<T>(#F "ZO" + ty, glm::F##ZO ARGS, CFG_LH ? glm::F##LH_ZO ARGS : glm::F##RH_ZO ARGS, ps); same<T>(#F "NO" + ty, glm::F##NO ARGS, CFG_LH ? glm::F##LH_NO ARGS : glm::F##RH_NO ARGS, ps);
		V4(ortho, false, (l, r, b, t, nr, fr), l, r, b, t)
		V4(frustum, true, (l, r, b, t, nr, fr), l, r, b, t)
		T fovy = (T)g.real(0.2, 2.8), asp = (T)g.real(0.3, 3); if (it % 4 == 1) fovy = (T)powl(10, -(LD)g.real(0.7, 4));   /* narrow fields of view (telephoto, down to 1e-4 rad): cot(fov/2) must keep its relative accuracy */ LD th = tanl((LD)fovy / 2); LD top = nr * th, right = top * asp;
		ps = "fovy=" + str((double)fovy) + " aspect=" + str((double)asp) + " n=" + str((double)nr) + " f=" + str((double)fr);
		V4(perspective, true, (fovy, asp, nr, fr), -right, right, -top, top)
		T w = (T)g.real(100, 2000), h = (T)g.real(100, 2000); right = top * ((LD)w / (LD)h);
		ps = "fov=" + str((double)fovy) + " w=" + str((double)w) + " h=" + str((double)h) + " n=" + str((double)nr) + " f=" + str((double)fr);
		V4(perspectiveFov, true, (fovy, w, h, nr, fr), -right, right, -top, top)
		right = top * asp; ps = "fovy=" + str((double)fovy) + " aspect=" + str((double)asp) + " n=" + str((double)nr);
		corners<T>("infinitePerspectiveRH_NO" + ty, glm::infinitePerspectiveRH_NO(fovy, asp, nr), false, false, -right, right, -top, top, nr, fr, true, ps, true);
		corners<T>("infinitePerspectiveRH_ZO" + ty, glm::infinitePerspectiveRH_ZO(fovy, asp, nr), false, true, -right, right, -top, top, nr, fr, true, ps, true);
		corners<T>("infinitePerspectiveLH_NO" + ty, glm::infinitePerspectiveLH_NO(fovy, asp, nr), true, false, -right, right, -top, top, nr, fr, true, ps, true);
		corners<T>("infinitePerspectiveLH_ZO" + ty, glm::infinitePerspectiveLH_ZO(fovy, asp, nr), true, true, -right, right, -top, top, nr, fr, true, ps, true);
		same<T>("infinitePerspective" + ty, glm::infinitePerspective(fovy, asp, nr), CFG_LH ? (CFG_ZO ? glm::infinitePerspectiveLH_ZO(fovy, asp, nr) : glm::infinitePerspectiveLH_NO(fovy, asp, nr)) : (CFG_ZO ? glm::infinitePerspectiveRH_ZO(fovy, asp, nr) : glm::infinitePerspectiveRH_NO(fovy, asp, nr)), ps);
		{ // far behaviour of infinitePerspective: depth tends to 1 from below
			glm::mat<4, 4, T> P = glm::infinitePerspective(fovy, asp, nr); LD c[4]; LD d = 1e6L * nr; clipof(P, (LD)0, (LD)0, CFG_LH ? d : -d, c); count("infinitePerspective_far" + ty);
			if (!(c[2] / c[3] < 1 && c[2] / c[3] > 1 - 1e-4L)) fail("infinitePerspective_far" + ty, "far", ps, "z_ndc -> 1-", str((double)(c[2] / c[3]))); }
		// project / unProject
		glm::mat<4, 4, T> proj = glm::frustum(l, r, b, t, nr, fr), model(1); model[3] = glm::vec<4, T>((T)g.real(-1, 1), (T)g.real(-1, 1), (T)g.real(-1, 1), 1);
		glm::vec<4, T> vp((T)g.range(0, 50), (T)g.range(0, 50), (T)g.range(100, 900), (T)g.range(100, 900));
		LD dd = g.real((double)nr * 1.05, (double)fr * 0.95); glm::vec<3, T> obj((T)(((l + r) / 2 + g.real(-0.3, 0.3) * (r - l)) * dd / nr) - model[3].x, (T)(((b + t) / 2 + g.real(-0.3, 0.3) * (t - b)) * dd / nr) - model[3].y, (T)(CFG_LH ? dd : -dd) - model[3].z);
		ps = "obj=(" + str((double)obj.x) + "," + str((double)obj.y) + "," + str((double)obj.z) + ") frustum " + ps + " vp=(" + str((double)vp.x) + "," + str((double)vp.y) + "," + str((double)vp.z) + "," + str((double)vp.w) + ")";
#define RT(PJ, UPJ, ZO_) { auto win = glm::PJ(obj, model, ZO_ ? (CFG_LH ? glm::frustumLH_ZO(l, r, b, t, nr, fr) : glm::frustumRH_ZO(l, r, b, t, nr, fr)) : (CFG_LH ? glm::frustumLH_NO(l, r, b, t, nr, fr) : glm::frustumRH_NO(l, r, b, t, nr, fr)), vp); \
		  auto pm = ZO_ ? (CFG_LH ? glm::frustumLH_ZO(l, r, b, t, nr, fr) : glm::frustumRH_ZO(l, r, b, t, nr, fr)) : (CFG_LH ? glm::frustumLH_NO(l, r, b, t, nr, fr) : glm::frustumRH_NO(l, r, b, t, nr, fr)); \
		  auto back = glm::UPJ(win, model, pm, vp); count(#PJ + ty); LD tolr = 4096 * std::numeric_limits<T>::epsilon() * (1 + fr / nr) * (1 + fabsl(dd)); \
		  if (!(fabsl((LD)back.x - obj.x) <= tolr && fabsl((LD)back.y - obj.y) <= tolr && fabsl((LD)back.z - obj.z) <= tolr * fr / nr)) fail(#UPJ + ty, "roundtrip", ps, "obj", "(" + str((double)back.x) + "," + str((double)back.y) + "," + str((double)back.z) + ")"); \
		  if (!(win.x >= vp.x - 1e-3 && win.x <= vp.x + vp.z + 1e-3 && win.y >= vp.y - 1e-3 && win.y <= vp.y + vp.w + 1e-3 && win.z >= -1e-3 && win.z <= 1 + 1e-3)) fail(#PJ + ty, "viewport-range", ps, "inside viewport and depth [0,1]", "(" + str((double)win.x) + "," + str((double)win.y) + "," + str((double)win.z) + ")"); }
		RT(projectNO, unProjectNO, false) RT(projectZO, unProjectZO, true)
		{ auto pm = glm::frustum(l, r, b, t, nr, fr); auto win = glm::project(obj, model, pm, vp); auto back = glm::unProject(win, model, pm, vp); count("project" + ty); LD tolr = 4096 * std::numeric_limits<T>::epsilon() * (1 + fr / nr) * (1 + fabsl(dd));
		  if (!(fabsl((LD)back.x - obj.x) <= tolr && fabsl((LD)back.y - obj.y) <= tolr && fabsl((LD)back.z - obj.z) <= tolr * fr / nr)) fail("unProject" + ty, "roundtrip", ps, "obj", "(" + str((double)back.x) + "," + str((double)back.y) + "," + str((double)back.z) + ")");
		  auto w2 = CFG_ZO ? glm::projectZO(obj, model, pm, vp) : glm::projectNO(obj, model, pm, vp); if (std::memcmp(&w2, &win, sizeof win)) fail("project" + ty, "dispatch", ps, "variant", "differs");
		  auto b2 = CFG_ZO ? glm::unProjectZO(win, model, pm, vp) : glm::unProjectNO(win, model, pm, vp); if (std::memcmp(&b2, &back, sizeof back)) fail("unProject" + ty, "dispatch", ps, "variant", "differs");
		  if (!(win.z >= -1e-3 && win.z <= 1 + 1e-3)) fail("project" + ty, "viewport-range", ps, "depth in [0,1]", str((double)win.z)); }
		{ // integer viewport (template parameter U): odd extents, window coordinates against the long-double formula, and the round trip
		  glm::ivec4 ivp((int)g.range(0, 50), (int)g.range(0, 50), 2 * (int)g.range(50, 450) + 1, 2 * (int)g.range(50, 450) + 1);
		  auto pm = glm::frustum(l, r, b, t, nr, fr); auto win = glm::project(obj, model, pm, ivp); auto back = glm::unProject(win, model, pm, ivp); count("project_ivec4" + ty);
		  LD c[4]; clipof(pm, (LD)obj.x + model[3].x, (LD)obj.y + model[3].y, (LD)obj.z + model[3].z, c);
		  LD ex = ivp.x + ivp.z * (c[0] / c[3] + 1) / 2, ey = ivp.y + ivp.w * (c[1] / c[3] + 1) / 2; LD tolw = 4096 * std::numeric_limits<T>::epsilon() * (1 + fr / nr) * 1000;
		  std::string psi = ps + " ivp=(" + std::to_string(ivp.x) + "," + std::to_string(ivp.y) + "," + std::to_string(ivp.z) + "," + std::to_string(ivp.w) + ")";
		  if (!(fabsl((LD)win.x - ex) <= tolw && fabsl((LD)win.y - ey) <= tolw)) fail("project_ivec4" + ty, "window", psi, "(" + str((double)ex) + "," + str((double)ey) + ")", "(" + str((double)win.x) + "," + str((double)win.y) + ")");
		  LD tolr = 4096 * std::numeric_limits<T>::epsilon() * (1 + fr / nr) * (1 + fabsl(dd));
		  if (!(fabsl((LD)back.x - obj.x) <= tolr && fabsl((LD)back.y - obj.y) <= tolr && fabsl((LD)back.z - obj.z) <= tolr * fr / nr)) fail("unProject_ivec4" + ty, "roundtrip", psi, "obj", "(" + str((double)back.x) + "," + str((double)back.y) + "," + str((double)back.z) + ")"); }
		if (it < 2) sample("C08 " + ps);
	}
}
int main(int argc, char** argv) {
	uint64_t seed = argc > 2 ? std::strtoull(argv[2], 0, 10) : 1; int n = (argc > 3 && std::string(argv[3]) == "thorough") ? 20000 : 1500;
	Rng g(seed); run<float>(g, n); run<double>(g, n); return finish();
}
