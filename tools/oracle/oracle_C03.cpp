// oracle_C03.cpp -- violation search for C03.  ONE operation table on the default-precision types; the check builds it
//   pure:  -DGLM_FORCE_PURE                                   (packed types, generic C++ code)
//   simd:  -DGLM_FORCE_DEFAULT_ALIGNED_GENTYPES -DGLM_FORCE_INTRINSICS -m<isa>   for each x86 level (aligned types, intrinsics)
// and compares the outputs line by line on bit-identical inputs:
//   E <op> <i> = bits...          must be identical (integer, bitwise, comparison, selection, conversion, rounding to
//                                 integer, single correctly rounded floating operations, branch decisions)
//   A <op> <i> <scale> = bits...  may differ by at most 8 * 2^-24 * scale (multi-term floating expressions; scale is the
//                                 magnitude of the largest intermediate term, computed here in double from the inputs)
//   L <op> <i> <n> = bits...      lowp types: relative error n * 2^-11 allowed (n chained hardware reciprocal / rsqrt approximations); the pure
//                                 build prints the highp result here (the generic lowp inversesqrt is itself a bit-trick approximation)
// float lanes are printed as f<bits>, double lanes as d<bits>, integer lanes and decisions as plain hex / decimal.
// NaN operands are not generated (min/max/comparisons on NaN are undefined in GLSL).
// usage: oracle_C03 table <seed> <tier>
#define GLM_ENABLE_EXPERIMENTAL
#include <glm/glm.hpp>
#include <glm/gtc/quaternion.hpp>
#include <glm/gtc/matrix_transform.hpp>
#include <glm/gtc/matrix_inverse.hpp>
#include <glm/gtx/quaternion.hpp>
#include <glm/gtx/norm.hpp>
#include <glm/gtx/component_wise.hpp>
#include <cstdio>
#include <limits>
#include <cstdint>
#include <cstring>
#include <cmath>
#include <string>
#include <algorithm>
using namespace glm;
#if GLM_CONFIG_SIMD == GLM_ENABLE && GLM_CONFIG_ALIGNED_GENTYPES == GLM_ENABLE
typedef vec<4, float, aligned_lowp> lvec4; typedef vec<3, float, aligned_lowp> lvec3; typedef vec<4, float, aligned_mediump> mvec4; typedef mat<4, 4, float, aligned_mediump> mmat4;
#else
typedef vec<4, float, packed_highp> lvec4; typedef vec<3, float, packed_highp> lvec3; typedef vec<4, float, packed_mediump> mvec4; typedef mat<4, 4, float, packed_mediump> mmat4;   // reference for the lowp rows: full precision
#endif
static uint64_t st;
static uint64_t rnd() { uint64_t z = (st += 0x9E3779B97F4A7C15ull); z = (z ^ (z >> 30)) * 0xBF58476D1CE4E5B9ull; z = (z ^ (z >> 27)) * 0x94D049BB133111EBull; return z ^ (z >> 31); }
static float rf(int i) { static const float sp[] = { 0.f, -0.f, 0.5f, 1.5f, 2.5f, -2.5f, -0.5f, 3.5f, 8388609.f, 1.f, -1.f, 0.25f, 1000.5f, 1e-3f, 123456.f, -7.75f };
	if (i % 4 == 0) return sp[rnd() % 16]; double u = (double)(rnd() >> 11) / 9007199254740992.0; return (float)((u - 0.5) * (i % 3 ? 8.0 : 2000.0)); }
static void pf(float f) { uint32_t u; std::memcpy(&u, &f, 4); if (f != f) u = 0x7fc00000u; std::printf(" f%08x", u); }   // 'f' marks a float lane (the comparator identifies -0 with +0)
static void pd(double f) { uint64_t u; std::memcpy(&u, &f, 8); if (f != f) u = 0x7ff8000000000000ull; std::printf(" d%016llx", (unsigned long long)u); }
template<length_t L, qualifier Q> static void pvd(vec<L, double, Q> const& v) { for (length_t i = 0; i < L; ++i) pd(v[i]); }
template<length_t L, qualifier Q> static void pv(vec<L, float, Q> const& v) { for (length_t i = 0; i < L; ++i) pf(v[i]); }
template<length_t L, class T, qualifier Q> static void pi(vec<L, T, Q> const& v) { for (length_t i = 0; i < L; ++i) std::printf(" %08x", (unsigned)v[i]); }
template<length_t C, length_t R, qualifier Q> static void pm(mat<C, R, float, Q> const& m) { for (length_t c = 0; c < C; ++c) for (length_t r = 0; r < R; ++r) pf(m[c][r]); }
static void pq(quat const& q) { pf(q.w); pf(q.x); pf(q.y); pf(q.z); }
template<length_t L, qualifier Q> static double mx(vec<L, float, Q> const& v) { double m = 0; for (length_t i = 0; i < L; ++i) m = std::max(m, (double)std::fabs(v[i])); return m; }
template<length_t C, length_t R, qualifier Q> static double mxm(mat<C, R, float, Q> const& a) { double m = 0; for (length_t c = 0; c < C; ++c) m = std::max(m, mx(a[c])); return m; }
#define E(name, ...) { std::printf("E %s %d =", name, i); __VA_ARGS__; std::printf("\n"); }
#define A(name, scale, ...) { std::printf("A %s %d %.9g =", name, i, (double)(scale)); __VA_ARGS__; std::printf("\n"); }
#define LO(name, scale, ...) { std::printf("L %s %d %.9g =", name, i, (double)(scale)); __VA_ARGS__; std::printf("\n"); }
int main(int argc, char** argv)
{
	uint64_t seed = argc > 2 ? std::strtoull(argv[2], 0, 10) : 1; bool thorough = argc > 3 && std::string(argv[3]) == "thorough"; int n = thorough ? 12000 : 3000; st = seed;
	for (int i = 0; i < n; ++i) {
		vec4 a(rf(i), rf(i + 1), rf(i + 2), rf(i + 3)), b(rf(i + 4), rf(i + 5), rf(i + 6), rf(i + 7)), c(rf(i + 1), rf(i + 3), rf(i + 5), rf(i + 7)); vec3 a3(a), b3(b), c3(c);
		if (i % 9 == 0) b = a; if (i % 11 == 0) b3 = vec3(a3.y, -a3.x, 0.f);           // equal operands; orthogonal vectors (dot == 0)
		double sa = mx(a), sb = std::max(mx(b), mx(b3)), sc = mx(c), sm = std::max(sa, sb);
		float s = rf(i + 8); if (s == 0.f) s = 0.75f; double slerp_scale = 4.0, refr_scale = 4.0;
		ivec4 ia((int)(rnd() & 0xffff) - 0x8000, (int)rnd(), (int)(rnd() % 100) - 50, (int)(rnd() >> 40)), ib((int)(rnd() % 31), (int)(rnd() & 0xff) - 128, (int)rnd(), (int)(rnd() % 1000) + 1); uvec4 ua(ia), ub(ib);
		mat4 M(a, b, c, vec4(rf(i), rf(i + 2), rf(i + 4), 1.f)), N(b, c, a, vec4(0.5f, -0.25f, 2.f, 1.f)); mat3 M3(M), N3(N);
		mat4 W = mat4(1.f) + M * (1.f / (float)(16.0 * (mxm(M) + 1.0)));              // well conditioned
		quat q = quat::wxyz(a.x, a.y, a.z, a.w), p = quat::wxyz(b.x, b.y, b.z, b.w);
		// ---- exact: single operations, selections, conversions, rounding to integer
		E("vec4 + - * /", pv(a + b); pv(a - b); pv(a * b); pv(a / (b + vec4(1000.f))); pv(a + s); pv(a * s); pv(s - a); pv(-a); pv(a / s))
		E("vec4 compound", { vec4 t = a; t += b; pv(t); t -= c; pv(t); t *= s; pv(t); t /= vec4(3.f); pv(t); ++t; pv(t); })
		E("vec3 + - * /", pv(a3 + b3); pv(a3 - b3); pv(a3 * b3); pv(a3 * s); pv(-a3))
		E("vec4 == !=", std::printf(" %d %d %d %d", (int)(a == b), (int)(a != b), (int)(a3 == b3), (int)(a == a)))
		// IEEE comparison, not a comparison of bit patterns: +0 == -0, NaN != NaN
		E("vec4 == != on signed zeros and NaN", { vec4 z0(0.f, a.y, -0.f, a.w), z1(-0.f, a.y, 0.f, a.w); float qn = std::numeric_limits<float>::quiet_NaN(); vec4 n0(a.x, qn, a.z, a.w), n1((i % 2) ? -0.f : a.x, a.y, a.z, (i % 3) ? qn : a.w); vec4 m0 = a * 0.f, m1 = -a * 0.f;
		  std::printf(" %d %d %d %d %d %d %d %d", (int)(z0 == z1), (int)(z0 != z1), (int)(n0 == n0), (int)(n0 != n0), (int)(n1 == n1), (int)(n1 != n1), (int)(m0 == m1), (int)(m0 != m1)); })
		E("vec3 == with different padding", { vec3 u(a); vec3 v(a.x, a.y, a.z); vec3 w(b); w.x = a.x; w.y = a.y; w.z = a.z; vec3 z = vec3(c) * 0.f + u; std::printf(" %d %d %d %d %d", (int)(u == v), (int)(u == w), (int)(u != w), (int)(v == w), (int)(all(equal(u, z)))); ivec3 iu(ia), iw(ib); iw.x = iu.x; iw.y = iu.y; iw.z = iu.z; std::printf(" %d %d", (int)(iu == iw), (int)(iu != iw)); })
		E("abs sign", pv(abs(a)); pv(sign(a)); pv(abs(a3)))
		E("floor ceil trunc round roundEven fract", pv(floor(a)); pv(ceil(a)); pv(trunc(a)); pv(round(a)); pv(roundEven(a)); pv(fract(a)); pv(floor(a3)))
		E("min max clamp", pv(min(a, b)); pv(max(a, b)); pv(min(a, s)); pv(max(a, s)); pv(clamp(a, -1.f, 1.f)); pv(clamp(a, min(b, c), max(b, c))))
		E("step mix(bool)", pv(step(a, b)); pv(step(s, a)); pv(mix(a, b, bvec4(a.x > 0, b.y > 0, true, false))))
		E("mod", pv(mod(a, vec4(2.5f))); pv(mod(a, 3.f)))
		E("sqrt", pv(sqrt(abs(a))))
		E("ivec4 + - * & | ^ ~", pi(ia + ib); pi(ia - ib); pi(ia * ib); pi(ia & ib); pi(ia | ib); pi(ia ^ ib); pi(~ia); pi(ua + ub); pi(ua * ub))
		E("ivec4 shifts", pi(ia << ivec4(ib.x)); pi(ia >> ivec4(ib.x)); pi(ua >> uvec4((unsigned)ib.x)); pi(ia << 3); pi(ua >> 5u))
		E("ivec4 / %", pi(ia / ivec4(ib.w)); pi(ia % ivec4(ib.w)); pi(ua / uvec4((unsigned)ib.w)))
		E("ivec4 == min max abs", std::printf(" %d %d", (int)(ia == ib), (int)(ia != ib)); pi(min(ia, ib)); pi(max(ia, ib)); pi(abs(ia)); pi(min(ua, ub)); pi(max(ua, ub)); pi(clamp(ia, ivec4(-100), ivec4(100))))
		{ static const uint32_t isp[] = { 0u, 1u, 0x7fffffffu, 0x80000000u, 0xffffffffu, 0x80000001u, 5u, 0xA0000000u, 0x10u, 0x90000000u }; auto ri = [&]() -> uint32_t { uint64_t r = rnd(); return (r & 3) ? (uint32_t)(r >> 16) : isp[(r >> 8) % 10]; };
		  uvec4 ja(ri(), ri(), ri(), ri()), jb(ri(), ri(), ri(), ri()), jc(ri(), ri(), ri(), ri()); ivec4 ka(ja), kb(jb), kc(jc); uvec4 jlo = min(jb, jc), jhi = max(jb, jc); ivec4 klo = min(kb, kc), khi = max(kb, kc);
		E("uvec4 full range", pi(ja + jb); pi(ja - jb); pi(ja * jb); pi(ja & jb); pi(ja | jb); pi(ja ^ jb); pi(~ja); pi(min(ja, jb)); pi(max(ja, jb)); pi(clamp(ja, jlo, jhi)); pi(clamp(ja, 0u, 5u)); pi(clamp(ja, 16u, 0xA0000000u)); std::printf(" %d %d", (int)(ja == jb), (int)(ja != jb)); pi(ja >> uvec4(jb.x & 31u)); pi(ja << uvec4(jb.y & 31u)))
		E("ivec4 full range", pi(ka + kb); pi(ka - kb); pi(ka * kb); pi(ka & kb); pi(ka | kb); pi(ka ^ kb); pi(~ka); pi(min(ka, kb)); pi(max(ka, kb)); pi(clamp(ka, klo, khi)); pi(clamp(ka, -5, 5)); pi(abs(max(ka, ivec4(-0x7fffffff)))); std::printf(" %d %d", (int)(ka == kb), (int)(ka != kb)); pi(ka >> ivec4(kb.x & 31)); pi(mix(ka, kb, bvec4(ja.x & 1, ja.y & 1, ja.z & 1, ja.w & 1)))) }
		E("conversions", pi(ivec4(a)); pv(vec4(ia)); pv(vec4(ua)); pi(uvec4(abs(a))); pv(vec4(a3, 1.f)); pv(vec3(a)); pv(vec4(s)))
		E("bitCount etc", pi(bitCount(ua)); pi(findLSB(ua)); pi(findMSB(ia)); pi(bitfieldReverse(ua)); pi(bitfieldExtract(ua, 3, 7)))
		E("matrix exact", pm(transpose(M)); pm(M + N); pm(M - N); pm(M * s); pm(matrixCompMult(M, N)); pm(outerProduct(a3, b3)); pm(-M); std::printf(" %d", (int)(M == N)))
		E("quat exact", pq(conjugate(q)); pq(q + p); pq(q * s); pq(-q); std::printf(" %d", (int)(q == p)); { quat t = q; t *= s; pq(t); t = q; t /= s; pq(t); t = q; t += p; pq(t); t -= q; pq(t); })
		// (the decision k < 0 of refract is only compared away from k = 0, where one unit of rounding in dot(N, I) cannot flip it)
		E("faceforward / refract decisions", { vec3 nn = normalize(c3 + vec3(0.1f, 0.2f, 3.f)); vec3 ii = normalize(a3 + vec3(0.3f, 0.1f, -2.f)); float eta = (i % 2) ? 0.6f : 1.6f; vec3 r = refract(ii, nn, eta); vec4 r4 = refract(vec4(ii, 0.f), vec4(nn, 0.f), eta); double dd = (double)dot(nn, ii), kk = 1.0 - (double)eta * eta * (1.0 - dd * dd); if (std::fabs(kk) > 1e-5) std::printf(" tir=%d%d", (int)(r == vec3(0.f)), (int)(r4 == vec4(0.f))); else std::printf(" tir=xx"); vec3 ff = faceforward(a3, b3, c3); std::printf(" ff=%d%d", (int)(ff == a3), (int)(ff == -a3)); vec4 f4 = faceforward(a, b, c); std::printf(" ff4=%d%d", (int)(f4 == a), (int)(f4 == -a)); vec4 cz(b.y, -b.x, 0.f, 0.f); vec4 f0 = faceforward(a + vec4(1.f), b, cz); pv(f0); vec4 fn = faceforward(a + vec4(1.f), b, -b); pv(fn); })
		{ dvec4 da(a), db(b); db += dvec4(0.125); dvec3 da3(a3), db3(b3);
		E("dvec4 + - * /", pvd(da + db); pvd(da - db); pvd(da * db); pvd(da / (db + dvec4(1000.0))); pvd(da * 3.0); pvd(-da); pvd(da3 + db3); pvd(da3 * db3); std::printf(" %d %d", (int)(da == db), (int)(da != db)))
		{ dmat4 DM(M), DN(N); dmat3 DM3(DM), DN3(DN); double sc2 = 4 * (sm * sm) * 16 + 1;
		  A("dmat products (splatX..W)", 1.0, { dmat4 P = DM * DN; for (int k = 0; k < 4; ++k) pv(vec4(P[k] / sc2)); dmat3 P3 = DM3 * DN3; for (int k = 0; k < 3; ++k) pv(vec3(P3[k] / sc2)); pv(vec4((DM * da) / sc2)); pv(vec3((DM3 * da3) / sc2)); })
		  E("dvec4 splat", pvd(splatX(da)); pvd(splatY(da)); pvd(splatZ(da)); pvd(splatW(da))) }
		E("dvec4 functions", pvd(abs(da)); pvd(floor(da)); pvd(ceil(da)); pvd(min(da, db)); pvd(max(da, db)); pvd(sqrt(abs(da))); pvd(mix(da, db, bvec4(true, false, a.x > 0, b.x > 0))))
		{ dquat dq = dquat::wxyz(a.x, a.y, a.z, a.w), dp = dquat::wxyz(b.x, b.y, b.z, b.w); dquat r1 = dq + dp, r2 = dq - dp, r3 = dq, r4 = dq; r3 *= 3.0; r4 /= 4.0; E("dquat + - * /", pd(r1.w); pd(r1.x); pd(r1.y); pd(r1.z); pd(r2.w); pd(r2.x); pd(r2.y); pd(r2.z); pd(r3.w); pd(r3.x); pd(r3.y); pd(r3.z); pd(r4.w); pd(r4.x); pd(r4.y); pd(r4.z)) }
		A("dvec4 multi-term", 1.0, pf((float)(dot(da, db) / (4 * sm * sm + 1))); pf((float)(length(da) / (2 * sa + 1))); pv(vec4(fma(da, db, dvec4(c)) / (2 * (sa * sb + sc) + 1))); pv(vec3(cross(da3, db3) / (2 * sa * sb + 1)))) }
		// ---- multi-term floating expressions
		A("dot", 4 * sm * sm, pf(dot(a, b)); pf(dot(a3, b3)); pf(dot(a, a)))
		A("length distance", 2 * (sa + sb) + 4 * sa * sa, pf(length(a)); pf(length(a3)); pf(distance(a, b)); pf(distance(a3, b3)); pf(length2(a)) )
		A("cross", 2 * sa * sb, pv(cross(a3, b3)))
		A("normalize", 1.0, pv(normalize(a + vec4(0.f, 0.f, 0.f, 3.f))); pv(normalize(a3 + vec3(0.f, 0.f, 3.f))))
		A("reflect", sa + 16 * sa * sb * sb, pv(reflect(a, b)); pv(reflect(a3, b3)))
		{ vec3 nn = normalize(c3 + vec3(0.1f, 0.2f, 3.f)); vec3 ii = normalize(a3 + vec3(0.3f, 0.1f, -2.f)); double dd = (double)dot(nn, ii); refr_scale = 4.0; double const etas[3] = { 0.6, 1.6, 0.9 }; for (double e : etas) { double kk = 1.0 - e * e * (1.0 - dd * dd); refr_scale = std::max(refr_scale, std::fabs(kk) < 1e-5 ? 1e7 : 4.0 / std::sqrt(std::fabs(kk))); } }   // sqrt(k) is ill conditioned near k = 0
		A("refract", refr_scale, { vec3 nn = normalize(c3 + vec3(0.1f, 0.2f, 3.f)); vec3 ii = normalize(a3 + vec3(0.3f, 0.1f, -2.f)); pv(refract(ii, nn, 0.6f)); pv(refract(ii, nn, 1.6f)); pv(refract(vec4(ii, 0.f), vec4(nn, 0.f), 0.9f)); })
		A("mix smoothstep", 2 * (sa + sb), pv(mix(a, b, 0.3f)); pv(mix(a, b, clamp(c, 0.f, 1.f))); pv(smoothstep(vec4(-1.f), vec4(2.f), a)); pv(mix(a3, b3, 0.7f)))
		A("fma-like a*b+c", 2 * (sa * sb + sc), pv(a * b + c); pv(fma(a, b, c)))
		A("mat4 * mat4", 4 * mxm(M) * mxm(N), pm(M * N); pm(M3 * N3))
		A("mat4 * vec4", 4 * mxm(M) * sa, pv(M * a); pv(a * M); pv(M3 * a3); pv(a3 * M3))
		A("determinant", 64.0, pf(determinant(W)); pf(determinant(mat3(W))))
		A("inverse", 64.0, pm(inverse(W)); pm(inverse(mat3(W))); pm(inverseTranspose(W)))
		A("quat * quat", 4 * sa * sb, pq(q * p); pq(p * q))
		A("quat * vec", 16 * sa * sa * sb + sb, pv(q * b3); pv(q * b))
		A("quat dot length normalize", 4 * sm * sm + 1, pf(dot(q, p)); pf(length(q)); pq(normalize(q + quat::wxyz(3.f, 0.f, 0.f, 0.f))); pq(inverse(q + quat::wxyz(3.f, 0.f, 0.f, 0.f))))
		{ quat qn0 = normalize(q + quat::wxyz(3.f, 0.f, 0.f, 0.f)), pn0 = normalize(p + quat::wxyz(0.f, 3.f, 0.f, 0.f)); double ct = std::fabs((double)dot(qn0, pn0)); slerp_scale = (std::fabs(ct - (1.0 - 1.1920929e-7)) < 1e-5) ? 1e4 : 4.0 / std::max(1e-3, std::sqrt(std::max(0.0, 1.0 - ct * ct))); }   // mix/slerp switch to lerp above 1 - epsilon, and acos is ill conditioned near 1
		A("quat mix lerp slerp", slerp_scale, { quat qn = normalize(q + quat::wxyz(3.f, 0.f, 0.f, 0.f)), pn = normalize(p + quat::wxyz(0.f, 3.f, 0.f, 0.f)); pq(lerp(qn, pn, 0.25f)); pq(mix(qn, pn, 0.25f)); pq(slerp(qn, pn, 0.25f)); })
		A("mat4_cast / quat_cast", 4.0, { quat qn = normalize(q + quat::wxyz(3.f, 0.f, 0.f, 0.f)); pm(mat4_cast(qn)); pq(quat_cast(mat3_cast(qn))); })
		A("inversesqrt highp", 1.0, pv(inversesqrt(abs(a) + vec4(0.5f))); { mvec4 m4(abs(a) + vec4(0.5f)); mvec4 r = inversesqrt(m4); pf(r.x); pf(r.y); pf(r.z); pf(r.w); })
		// mediump is NOT allowed to use the hardware approximations: same tolerance as highp
		A("mediump inverse determinant", 64.0, { mmat4 Wm(W); mmat4 r = inverse(Wm); for (int i = 0; i < 4; ++i) for (int j = 0; j < 4; ++j) pf(r[i][j]); pf(determinant(Wm)); })
		A("mediump sqrt divide normalize", 1.0, { mvec4 m4(abs(a) + vec4(0.5f)); mvec4 r = sqrt(m4); pf(r.x); pf(r.y); pf(r.z); pf(r.w); mvec4 d4(abs(b) + vec4(1.f)); mvec4 r2 = m4 / d4; pf(r2.x); pf(r2.y); pf(r2.z); pf(r2.w);
		  mvec4 nz = normalize(mvec4(a + vec4(0.f, 0.f, 0.f, 3.f))); pf(nz.x); pf(nz.y); pf(nz.z); pf(nz.w); pf(length(m4) / (float)(2 * sa + 2)); })
		A("compAdd", 4 * sa, pf(compAdd(a)); pf(compMul(clamp(a, -2.f, 2.f))); pf(compMin(a)); pf(compMax(a)))
		// ---- lowp: hardware approximations allowed
		// the scale of an L row is the number of chained hardware approximations (inversesqrt = rcp of rsqrt-based sqrt: 2)
		LO("lowp inversesqrt", 2.0, { lvec4 l(abs(a) + vec4(0.5f)); lvec4 r = inversesqrt(l); pf(r.x); pf(r.y); pf(r.z); pf(r.w); })
		LO("lowp sqrt", 1.0, { lvec4 l(abs(a) + vec4(0.5f)); lvec4 r = sqrt(l); pf(r.x); pf(r.y); pf(r.z); pf(r.w); })
		LO("lowp normalize", 1.0, { lvec4 nz = normalize(lvec4(a + vec4(0.f, 0.f, 0.f, 3.f))); pf(nz.x); pf(nz.y); pf(nz.z); pf(nz.w); })
		LO("lowp divide", 1.0, { lvec4 l(a), d(abs(b) + vec4(1.f)); lvec4 r = l / d; pf(r.x / (float)(sa + 1)); pf(r.y / (float)(sa + 1)); pf(r.z / (float)(sa + 1)); pf(r.w / (float)(sa + 1)); })
	}
	return 0;
}
