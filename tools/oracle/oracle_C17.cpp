// oracle_C17.cpp -- concrete counterpart of the C17 catalogue for the compiled types: the symbolic catalogue is traced on the generic templates with
// the tracing scalar, which cannot instantiate the SIMD specialisations of the constructors (type_vec_simd.inl: __m128 / __m128d / __m256d set / cvt
// intrinsics).  Every constructor shape of vec<1..4> is run here on float, double, int, unsigned and 64-bit elements, packed and aligned qualifiers, with
// distinct tags per argument, and read back three ways (operator[], the named member, the bytes).  Built pure, SSE2 and AVX2 with GLM_FORCE_INTRINSICS.
// The reference is the argument list itself: no GLM function is used as reference.
#define GLM_ENABLE_EXPERIMENTAL
#define GLM_FORCE_ALIGNED_GENTYPES
#include "oracle/oracle_common.hpp"
#include <glm/glm.hpp>
#include <glm/gtc/type_aligned.hpp>
#include <glm/gtc/type_precision.hpp>
using namespace orc;
template<class T> static const char* tn();
template<> const char* tn<float>() { return "f32"; } template<> const char* tn<double>() { return "f64"; } template<> const char* tn<int>() { return "i32"; } template<> const char* tn<unsigned>() { return "u32"; }
template<> const char* tn<long long>() { return "i64"; } template<> const char* tn<unsigned long long>() { return "u64"; } template<> const char* tn<short>() { return "i16"; } template<> const char* tn<unsigned char>() { return "u8"; }
static const char* qn(glm::qualifier q) { switch (q) { case glm::packed_highp: return "packed_highp"; case glm::packed_mediump: return "packed_mediump"; case glm::packed_lowp: return "packed_lowp";
	case glm::aligned_highp: return "aligned_highp"; case glm::aligned_mediump: return "aligned_mediump"; default: return "aligned_lowp"; } }

// expected components as long double tags; a vector is read back by operator[], by member and by memcpy of the leading L elements
template<int L, class T, glm::qualifier Q> static void expect(std::string const& fn, std::string const& shape, glm::vec<L, T, Q> const& v, std::initializer_list<long double> want)
{
	std::string name = fn + "<" + tn<T>() + ">"; count(name); T w[4] = {0, 0, 0, 0}; int n = 0; for (long double x : want) w[n++] = (T)x;
	T byidx[4] = {0, 0, 0, 0}, bymem[4] = {0, 0, 0, 0}, bybytes[4] = {0, 0, 0, 0}; for (int i = 0; i < L; ++i) byidx[i] = v[i];
	glm::vec<L, T, Q> c = v; std::memcpy(bybytes, &c, sizeof(T) * L);
	bymem[0] = v.x; if constexpr (L > 1) bymem[1] = v.y; if constexpr (L > 2) bymem[2] = v.z; if constexpr (L > 3) bymem[3] = v.w;
	bool ok = (n == L); for (int i = 0; i < L; ++i) if (!(byidx[i] == w[i] && bymem[i] == w[i] && bybytes[i] == w[i])) ok = false;
	if (!ok) { std::string ws, gs; for (int i = 0; i < L; ++i) { ws += (i ? "," : "") + str((double)w[i]); gs += (i ? "," : "") + str((double)byidx[i]); }
		fail(name, std::string(qn(Q)) + " " + shape, "vec" + str(L) + "(" + shape + ")", "(" + ws + ")", "(" + gs + ")"); }
}

template<class T, glm::qualifier Q> static void ctors(int round)
{
	// tags: distinct, exactly representable in every element type used (and, in later rounds, signed zero / large values for the floating types)
	long double a = 11 + round, b = 22 + round, c = 33 + round, d = 44 + round;
	if (std::is_floating_point<T>::value && round == 5) { a = 0.5L; b = -0.25L; c = 1048576.0L; d = -3.0L; }
	if (std::is_signed<T>::value && round == 6) { a = -a; c = -c; }
	typedef glm::vec<1, T, Q> V1; typedef glm::vec<2, T, Q> V2; typedef glm::vec<3, T, Q> V3; typedef glm::vec<4, T, Q> V4;
	T A = (T)a, B = (T)b, C = (T)c, D = (T)d;
	// scalars in argument order; broadcast
	expect("ctor_scalars", "a,b,c,d", V4(A, B, C, D), {a, b, c, d}); expect("ctor_scalars", "a,b,c", V3(A, B, C), {a, b, c}); expect("ctor_scalars", "a,b", V2(A, B), {a, b}); expect("ctor_scalars", "a", V1(A), {a});
	expect("ctor_broadcast", "a", V4(A), {a, a, a, a}); expect("ctor_broadcast", "a", V3(A), {a, a, a}); expect("ctor_broadcast", "a", V2(A), {a, a});
	// vec1 arguments count as scalars
	expect("ctor_vec1", "v1,v1,v1,v1", V4(V1(A), V1(B), V1(C), V1(D)), {a, b, c, d}); expect("ctor_vec1", "a,v1,c,v1", V4(A, V1(B), C, V1(D)), {a, b, c, d}); expect("ctor_vec1", "v1,b,v1", V3(V1(A), B, V1(C)), {a, b, c}); expect("ctor_vec1", "a,v1", V2(A, V1(B)), {a, b});
	// compositions: the arguments are flattened left to right
	expect("ctor_compose", "v3,d", V4(V3(A, B, C), D), {a, b, c, d}); expect("ctor_compose", "a,v3", V4(A, V3(B, C, D)), {a, b, c, d});
	expect("ctor_compose", "v2,c,d", V4(V2(A, B), C, D), {a, b, c, d}); expect("ctor_compose", "a,v2,d", V4(A, V2(B, C), D), {a, b, c, d}); expect("ctor_compose", "a,b,v2", V4(A, B, V2(C, D)), {a, b, c, d});
	expect("ctor_compose", "v2,v2", V4(V2(A, B), V2(C, D)), {a, b, c, d}); expect("ctor_compose", "v2,c", V3(V2(A, B), C), {a, b, c}); expect("ctor_compose", "a,v2", V3(A, V2(B, C)), {a, b, c});
	expect("ctor_compose", "v3,v1", V4(V3(A, B, C), V1(D)), {a, b, c, d}); expect("ctor_compose", "v1,v3", V4(V1(A), V3(B, C, D)), {a, b, c, d}); expect("ctor_compose", "v2,v1", V3(V2(A, B), V1(C)), {a, b, c});
	// truncation keeps the leading components
	expect("ctor_truncate", "v4", V3(V4(A, B, C, D)), {a, b, c}); expect("ctor_truncate", "v4", V2(V4(A, B, C, D)), {a, b}); expect("ctor_truncate", "v3", V2(V3(A, B, C)), {a, b}); expect("ctor_truncate", "v4", V1(V4(A, B, C, D)), {a});
	expect("ctor_copy", "v4", V4(V4(A, B, C, D)), {a, b, c, d}); expect("ctor_copy", "v3", V3(V3(A, B, C)), {a, b, c});
	{ V4 v(A, B, C, D), w(D, C, B, A); w = v; expect("assign", "v4", w, {a, b, c, d}); V3 v3(A, B, C), w3(C, C, C); w3 = v3; expect("assign", "v3", w3, {a, b, c}); }
	// mixed scalar argument types convert each argument on its own
	expect("ctor_mixed", "int,float,double,unsigned", V4((int)a, (float)b, (double)c, (unsigned)(d < 0 ? -d : d)), {(long double)(int)a, (long double)(T)(float)b, c, d < 0 ? -d : d});
	expect("ctor_mixed", "double,int,float", V3((double)a, (int)b, (float)c), {a, (long double)(int)b, c}); expect("ctor_mixed", "float,double", V2((float)a, (double)b), {a, b});
}
// conversions between element types and between qualifiers: each component converted on its own, order kept
template<class T, class U, glm::qualifier Q, glm::qualifier P> static void conv(int round)
{
	long double a = 1 + round, b = 20 + round, c = 300 + round, d = 4000 + round; if (sizeof(T) == 1 || sizeof(U) == 1) { c = 100 + round; d = 120 + round; }
	glm::vec<4, U, P> s4((U)a, (U)b, (U)c, (U)d); glm::vec<3, U, P> s3((U)a, (U)b, (U)c); glm::vec<2, U, P> s2((U)a, (U)b); glm::vec<1, U, P> s1((U)a);
	std::string sh = std::string("vec<") + tn<U>() + "," + qn(P) + ">";
	expect("ctor_convert", sh, glm::vec<4, T, Q>(s4), {a, b, c, d}); expect("ctor_convert", sh, glm::vec<3, T, Q>(s3), {a, b, c}); expect("ctor_convert", sh, glm::vec<2, T, Q>(s2), {a, b}); expect("ctor_convert", sh, glm::vec<1, T, Q>(s1), {a});
	expect("ctor_convert", sh + " truncated", glm::vec<3, T, Q>(s4), {a, b, c}); expect("ctor_convert", sh + " truncated", glm::vec<2, T, Q>(s3), {a, b});
	expect("ctor_convert", sh + ",scalar", glm::vec<4, T, Q>(s3, (U)d), {a, b, c, d}); expect("ctor_convert", sh + " v2,v2", glm::vec<4, T, Q>(s2, glm::vec<2, U, P>((U)c, (U)d)), {a, b, c, d});
}
template<class T, glm::qualifier Q> static void conv_from_all(int round)
{
	conv<T, float, Q, glm::packed_highp>(round); conv<T, double, Q, glm::packed_highp>(round); conv<T, int, Q, glm::packed_highp>(round); conv<T, unsigned, Q, glm::packed_highp>(round); conv<T, long long, Q, glm::packed_highp>(round); conv<T, unsigned char, Q, glm::packed_highp>(round);
	conv<T, float, Q, glm::aligned_highp>(round); conv<T, double, Q, glm::aligned_highp>(round); conv<T, int, Q, glm::aligned_highp>(round); conv<T, unsigned, Q, glm::aligned_highp>(round);
	conv<T, T, Q, glm::packed_mediump>(round); conv<T, T, Q, glm::aligned_lowp>(round); conv<T, T, Q, glm::aligned_mediump>(round); conv<T, T, Q, glm::packed_lowp>(round);
}
template<class T> static void all_q(int round)
{
	ctors<T, glm::packed_highp>(round); ctors<T, glm::packed_mediump>(round); ctors<T, glm::packed_lowp>(round); ctors<T, glm::aligned_highp>(round); ctors<T, glm::aligned_mediump>(round); ctors<T, glm::aligned_lowp>(round);
	conv_from_all<T, glm::packed_highp>(round); conv_from_all<T, glm::aligned_highp>(round); conv_from_all<T, glm::aligned_mediump>(round); conv_from_all<T, glm::aligned_lowp>(round);
}
int main(int argc, char** argv)
{
	bool thorough = argc > 3 && std::string(argv[3]) == "thorough"; int rounds = thorough ? 40 : 8;
	for (int r = 0; r < rounds; ++r) { all_q<float>(r); all_q<double>(r); all_q<int>(r); all_q<unsigned>(r); all_q<long long>(r); all_q<unsigned long long>(r); all_q<short>(r); all_q<unsigned char>(r); }
	return finish();
}
