// oracle_C07.cpp -- violation search for C07 against the hardware F16C conversions (IEEE-754 binary16, round to nearest
// even).  GLM may pick either neighbour on an exact tie, so on ties the result may differ from hardware by one code.
// quick: all halves + boundary families; thorough: all 2^32 floats (16 threads).
#include "oracle/oracle_common.hpp"
#include <glm/glm.hpp>
#include <glm/gtc/packing.hpp>
#include <immintrin.h>
#include <thread>
#include <mutex>
#include <atomic>
using namespace orc;
static std::mutex mu;
static inline uint16_t hw_f2h(float f) { return (uint16_t)_cvtss_sh(f, _MM_FROUND_TO_NEAREST_INT | _MM_FROUND_NO_EXC); }
static inline float hw_h2f(uint16_t h) { return _cvtsh_ss(h); }
static bool is_tie(uint32_t a) { uint32_t E = (a >> 23) & 0xff, m = a & 0x7fffff; if (E >= 113 && E <= 142) return (m & 0x1fff) == 0x1000; if (E >= 102 && E <= 112) { uint32_t k = 113 - E; uint32_t M = m | 0x800000; uint32_t sh = k + 13; return (M & ((1u << sh) - 1)) == (1u << (sh - 1)); } if (E == 101) return m == 0; return false; }
static const char* check_f2h(uint32_t a, uint16_t& got, uint16_t& exp) {
	got = (uint16_t)glm::detail::toFloat16(u2f(a)); exp = hw_f2h(u2f(a)); uint32_t E = (a >> 23) & 0xff, m = a & 0x7fffff;
	if (E == 255 && m != 0) { if (((got & 0x7c00) == 0x7c00) && (got & 0x3ff) != 0 && ((got >> 15) == (a >> 31))) return 0; return "nan-not-kept"; }
	if (got == exp) return 0;
	if (is_tie(a) && (got == exp + 1 || got + 1 == exp) && ((got ^ exp) & 0x8000) == 0) return 0;   // either neighbour on a tie
	if (E == 255) return "infinity";
	return ((a & 0x7fffffff) >= 0x477ff000u) ? "overflow-boundary" : ((a & 0x7fffffff) < 0x38800000u ? "subnormal-range" : "normal-range");
}
static void one_f2h(uint32_t a, std::string const& fn) { uint16_t g, e; const char* c = check_f2h(a, g, e); if (c) { std::lock_guard<std::mutex> l(mu); fail(fn, c, hex(a), hex(e), hex(g)); } }
int main(int argc, char** argv) {
	uint64_t seed = argc > 2 ? std::strtoull(argv[2], 0, 10) : 1; bool thorough = argc > 3 && std::string(argv[3]) == "thorough"; Rng g(seed);
	for (uint32_t h = 0; h < 65536; ++h) { float f = glm::detail::toFloat32((glm::detail::hdata)h); float e = hw_h2f((uint16_t)h); uint32_t fb = f2u(f), eb = f2u(e); bool nan = ((h & 0x7c00) == 0x7c00) && (h & 0x3ff);
		bool ok = nan ? (((fb & 0x7f800000) == 0x7f800000) && (fb & 0x7fffff) && ((fb >> 31) == (h >> 15))) : fb == eb; count("toFloat32"); if (!ok) fail("toFloat32", nan ? "nan" : ((h & 0x7c00) ? "normal" : "subnormal-or-zero"), hex(h), hex(eb), hex(fb));
		if (!nan) { uint16_t back = (uint16_t)glm::detail::toFloat16(f); count("roundtrip"); if (back != h) fail("roundtrip", "value", hex(h), hex(h), hex(back)); }
		glm::vec3 u = glm::unpackHalf(glm::u16vec3((glm::uint16)h, (glm::uint16)(h ^ 0x5555), (glm::uint16)(h * 31 + 7))); glm::vec4 u4 = glm::unpackHalf4x16((uint64_t)h | ((uint64_t)(h ^ 0x1234) << 16) | ((uint64_t)(uint16_t)(h * 7) << 32) | ((uint64_t)(uint16_t)(~h) << 48));
		count("unpack-lanes"); auto same = [&](float x, uint16_t hh) { float r = glm::detail::toFloat32((glm::detail::hdata)hh); return f2u(x) == f2u(r); };
		if (!(same(u.x, h) && same(u.y, h ^ 0x5555) && same(u.z, (uint16_t)(h * 31 + 7)))) fail("unpackHalf3", "lane", hex(h), "per-lane toFloat32", "differs");
		if (!(same(u4.x, h) && same(u4.y, h ^ 0x1234) && same(u4.z, (uint16_t)(h * 7)) && same(u4.w, (uint16_t)~h))) fail("unpackHalf4x16", "lane", hex(h), "per-lane toFloat32, first component in the low bits", "differs");
	}
	if (thorough) {
		std::vector<std::thread> th; std::atomic<uint64_t> cnt(0);
		for (int t = 0; t < 16; ++t) th.emplace_back([t, &cnt]() { uint64_t lo = (uint64_t)t << 28, hi = lo + (1ull << 28); for (uint64_t a = lo; a < hi; ++a) { uint16_t gg, ee; const char* c = check_f2h((uint32_t)a, gg, ee); if (c) { std::lock_guard<std::mutex> l(mu); fail("toFloat16", c, hex(a), hex(ee), hex(gg)); } } cnt += (1ull << 28); });
		for (auto& x : th) x.join(); count("toFloat16", (long)cnt.load());
		std::printf("SAMPLE complete enumeration of all 2^32 float patterns against F16C\n");
	} else {
		for (uint32_t E = 0; E < 256; ++E) for (uint32_t s = 0; s < 2; ++s) { static const uint32_t ms[] = {0, 1, 0xfff, 0x1000, 0x1001, 0x1fff, 0x2000, 0x2fff, 0x3000, 0x3001, 0x7fefff, 0x7ff000, 0x7ff001, 0x7fffff, 0x400000, 0x7fe000, 0x7fdfff, 0x7fe001};
			for (uint32_t m : ms) { one_f2h((s << 31) | (E << 23) | m, "toFloat16"); count("toFloat16"); } for (int k = 0; k < 24; ++k) { one_f2h((s << 31) | (E << 23) | ((1u << k) & 0x7fffff), "toFloat16"); one_f2h((s << 31) | (E << 23) | (((1u << k) - 1) & 0x7fffff), "toFloat16"); count("toFloat16", 2); }
			for (int r = 0; r < 4000; ++r) { one_f2h((s << 31) | (E << 23) | (uint32_t)(g.next() & 0x7fffff), "toFloat16"); count("toFloat16"); } }
		for (uint32_t h = 0; h < 0x7c00; ++h) { uint32_t a = f2u(hw_h2f((uint16_t)h)), b = f2u(hw_h2f((uint16_t)(h + 1))); uint32_t mid = a + (b - a) / 2; for (int d = -3; d <= 3; ++d) { one_f2h(a + d, "toFloat16"); one_f2h(mid + d, "toFloat16"); one_f2h((mid + d) | 0x80000000u, "toFloat16"); count("toFloat16", 3); } }
		sample("toFloat16 boundary families: every exponent x {0,1,0xfff,0x1000,0x1001,...,0x7fffff} x both signs, +-3 ulp around every half and every midpoint");
	}
	// pack wrappers: lanes and sign symmetry / monotonicity on random pairs
	for (int r = 0; r < (thorough ? 4000000 : 200000); ++r) { uint32_t a = (uint32_t)g.next(), b = (uint32_t)g.next(), c = (uint32_t)g.next(), d = (uint32_t)g.next();
		auto H = [](uint32_t x) { return (uint16_t)glm::detail::toFloat16(u2f(x)); }; count("pack-lanes");
		if (glm::packHalf1x16(u2f(a)) != H(a)) fail("packHalf1x16", "value", hex(a), hex(H(a)), hex(glm::packHalf1x16(u2f(a))));
		if (glm::packHalf2x16(glm::vec2(u2f(a), u2f(b))) != ((uint32_t)H(a) | ((uint32_t)H(b) << 16))) fail("packHalf2x16", "lane", hex(a) + "," + hex(b), "first component in the low 16 bits", "differs");
		if (glm::packHalf4x16(glm::vec4(u2f(a), u2f(b), u2f(c), u2f(d))) != ((uint64_t)H(a) | ((uint64_t)H(b) << 16) | ((uint64_t)H(c) << 32) | ((uint64_t)H(d) << 48))) fail("packHalf4x16", "lane", hex(a), "lanes", "differs");
		glm::u16vec3 p3 = glm::packHalf(glm::vec3(u2f(a), u2f(b), u2f(c))); if (!(p3.x == H(a) && p3.y == H(b) && p3.z == H(c))) fail("packHalf3", "lane", hex(a), "lanes", "differs");
		uint32_t x = a & 0x7fffffff, y = b & 0x7fffffff; if ((x >> 23) < 255 && (y >> 23) < 255) { if (x > y) std::swap(x, y); count("monotone"); if (H(x) > H(y)) fail("toFloat16", "monotone", hex(x) + "<=" + hex(y), "ordered", hex(H(x)) + ">" + hex(H(y))); if (H(x | 0x80000000u) != (H(x) | 0x8000)) fail("toFloat16", "sign-symmetry", hex(x), hex(H(x) | 0x8000), hex(H(x | 0x80000000u))); } }
	return finish();
}
