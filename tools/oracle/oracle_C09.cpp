// oracle_C09.cpp -- violation search for C09 (long-double references); built with and without GLM_FORCE_LEFT_HANDED.
#define GLM_ENABLE_EXPERIMENTAL
#include "oracle/oracle_common.hpp"
#include <glm/glm.hpp>
#include <glm/ext/matrix_transform.hpp>
#include <glm/gtx/transform.hpp>
#include <glm/gtx/matrix_decompose.hpp>
#include <glm/gtx/matrix_interpolation.hpp>
#include <glm/gtc/quaternion.hpp>
#include <glm/gtx/rotate_vector.hpp>
using namespace orc;
typedef long double LD;
#ifdef GLM_FORCE_LEFT_HANDED
static const bool CFG_LH = true;
#else
static const bool CFG_LH = false;
#endif
template<class T> static const char* tn(); template<> const char* tn<float>() { return "f32"; } template<> const char* tn<double>() { return "f64"; }
struct M4 { LD a[4][4]; };
static M4 ident() { M4 m; for (int i = 0; i < 4; ++i) for (int j = 0; j < 4; ++j) m.a[i][j] = i == j; return m; }
static M4 mul(M4 const& A, M4 const& B) { M4 r; for (int c = 0; c < 4; ++c) for (int k = 0; k < 4; ++k) { LD s = 0; for (int j = 0; j < 4; ++j) s += A.a[j][k] * B.a[c][j]; r.a[c][k] = s; } return r; }
template<class T> static M4 toL(glm::mat<4, 4, T> const& m) { M4 r; for (int c = 0; c < 4; ++c) for (int k = 0; k < 4; ++k) r.a[c][k] = m[c][k]; return r; }
template<class T> static LD diff(glm::mat<4, 4, T> const& g, M4 const& r) { LD d = 0; for (int c = 0; c < 4; ++c) for (int k = 0; k < 4; ++k) d = nmax(d, fabsl((LD)g[c][k] - r.a[c][k])); return d; }
static LD nrm(M4 const& m) { LD s = 0; for (int c = 0; c < 4; ++c) for (int k = 0; k < 4; ++k) s = nmax(s, fabsl(m.a[c][k])); return s; }
static M4 rodr(LD a, LD x, LD y, LD z) { LD n = sqrtl(x * x + y * y + z * z); x /= n; y /= n; z /= n; LD c = cosl(a), s = sinl(a), t = 1 - c; M4 m = ident();
	m.a[0][0] = c + t * x * x; m.a[0][1] = t * x * y + s * z; m.a[0][2] = t * x * z - s * y; m.a[1][0] = t * x * y - s * z; m.a[1][1] = c + t * y * y; m.a[1][2] = t * y * z + s * x; m.a[2][0] = t * x * z + s * y; m.a[2][1] = t * y * z - s * x; m.a[2][2] = c + t * z * z; return m; }
template<class T> static std::string ms(glm::mat<4, 4, T> const& m) { std::string s = "["; for (int c = 0; c < 4; ++c) { s += "("; for (int r = 0; r < 4; ++r) { s += str((double)m[c][r]); if (r < 3) s += ","; } s += ")"; } return s + "]"; }
template<class T> static void run(Rng& g, int n) {
	std::string ty = std::string("_") + tn<T>(); LD eps = std::numeric_limits<T>::epsilon();
	for (int it = 0; it < n; ++it) {
		glm::mat<4, 4, T> M; for (int c = 0; c < 4; ++c) for (int r = 0; r < 4; ++r) M[c][r] = (T)g.real(-2, 2); M4 LM = toL(M); LD tol = 64 * eps * (1 + nrm(LM)) * 4;
		glm::vec<3, T> v((T)g.real(-3, 3), (T)g.real(-3, 3), (T)g.real(-3, 3)); T ang = (T)g.real(-13, 13); glm::vec<3, T> axis((T)g.real(-1, 1), (T)g.real(-1, 1), (T)g.real(-1, 1)); if (it % 7 == 0) axis *= (T)1e-3; if (it % 11 == 0) axis *= (T)50;
		// gtx/rotate_vector: rotateX/Y/Z and rotate(v, angle, axis) on vec3 and vec4 against the Rodrigues matrix of the coordinate axis
		{ LD vt = 64 * eps * 8; glm::vec<4, T> v4(v, (T)g.real(-2, 2));
		  for (int ax = 0; ax < 3; ++ax) { M4 E = rodr(ang, ax == 0, ax == 1, ax == 2); LD ex[3]; for (int r = 0; r < 3; ++r) ex[r] = E.a[0][r] * v.x + E.a[1][r] * v.y + E.a[2][r] * v.z;
			glm::vec<3, T> r3 = ax == 0 ? glm::rotateX(v, ang) : ax == 1 ? glm::rotateY(v, ang) : glm::rotateZ(v, ang); glm::vec<4, T> r4 = ax == 0 ? glm::rotateX(v4, ang) : ax == 1 ? glm::rotateY(v4, ang) : glm::rotateZ(v4, ang);
			std::string fn = std::string(ax == 0 ? "rotateX" : ax == 1 ? "rotateY" : "rotateZ"); std::string in = "v=(" + str((double)v.x) + "," + str((double)v.y) + "," + str((double)v.z) + ") angle=" + str((double)ang);
			count(fn + "_3" + ty); for (int r = 0; r < 3; ++r) if (!(fabsl((LD)r3[r] - ex[r]) <= vt)) { fail(fn + "_3" + ty, "value", in, str((double)ex[r]), str((double)r3[r])); break; }
			count(fn + "_4" + ty); for (int r = 0; r < 3; ++r) if (!(fabsl((LD)r4[r] - ex[r]) <= vt) || r4.w != v4.w) { fail(fn + "_4" + ty, "value", in, str((double)ex[r]), str((double)r4[r])); break; } }
		  { glm::vec<3, T> nax = glm::normalize(axis); M4 E = rodr(ang, nax.x, nax.y, nax.z); glm::vec<3, T> uax = (it % 2) ? axis : nax;   /* a raw axis of any length: the rotation is about its direction, as for rotate(M, angle, axis) */
			glm::vec<3, T> r3 = glm::rotate(v, ang, uax); glm::vec<4, T> r4 = glm::rotate(v4, ang, uax); count("rotate_vector" + ty);
			for (int r = 0; r < 3; ++r) { LD e = E.a[0][r] * v.x + E.a[1][r] * v.y + E.a[2][r] * v.z; if (!(fabsl((LD)r3[r] - e) <= vt * 4 && fabsl((LD)r4[r] - e) <= vt * 4)) { fail("rotate_vector" + ty, (it % 2) ? "axis of any length" : "unit axis", "angle=" + str((double)ang) + " axis=(" + str((double)uax.x) + "," + str((double)uax.y) + "," + str((double)uax.z) + ")", str((double)e), str((double)r3[r]) + " / vec4: " + str((double)r4[r])); break; } } } }
		{ M4 E = ident(); E.a[3][0] = v.x; E.a[3][1] = v.y; E.a[3][2] = v.z; count("translate" + ty); if (!(diff(glm::translate(M, v), mul(LM, E)) <= tol * 4)) fail("translate" + ty, "value", ms(M), "M*T(v)", "differs"); }
		{ M4 E = ident(); E.a[0][0] = v.x; E.a[1][1] = v.y; E.a[2][2] = v.z; count("scale" + ty); if (!(diff(glm::scale(M, v), mul(LM, E)) <= tol * 4)) fail("scale" + ty, "value", ms(M), "M*S(v)", "differs"); if (!(diff(glm::scale_slow(M, v), mul(LM, E)) <= tol * 4)) fail("scale_slow" + ty, "value", ms(M), "M*S(v)", "differs"); }
		{ M4 E = rodr(ang, axis.x, axis.y, axis.z); count("rotate" + ty); std::string in = "angle=" + str((double)ang) + " axis=(" + str((double)axis.x) + "," + str((double)axis.y) + "," + str((double)axis.z) + ")";
		  if (!(diff(glm::rotate(M, ang, axis), mul(LM, E)) <= tol * 16)) fail("rotate" + ty, "value", in, "M*Rodrigues", "differs"); if (!(diff(glm::rotate_slow(M, ang, axis), mul(LM, E)) <= tol * 16)) fail("rotate_slow" + ty, "value", in, "M*Rodrigues", "differs");
		  if (!(diff(glm::rotate(ang, axis), E) <= 64 * eps)) fail("gtx_rotate" + ty, "value", in, "Rodrigues", "differs"); }
		// lookAt
		{ glm::vec<3, T> eye((T)g.real(-5, 5), (T)g.real(-5, 5), (T)g.real(-5, 5)), ctr((T)g.real(-5, 5), (T)g.real(-5, 5), (T)g.real(-5, 5)), up((T)g.real(-1, 1), (T)g.real(0.2, 2), (T)g.real(-1, 1));
		  if (it % 3 == 0) up = glm::vec<3, T>(0, 1, 0); LD dx = (LD)ctr.x - eye.x, dy = (LD)ctr.y - eye.y, dz = (LD)ctr.z - eye.z, dl = sqrtl(dx * dx + dy * dy + dz * dz); if (dl < 0.5L) continue;
		  LD cx = dy * up.z - dz * up.y, cy = dz * up.x - dx * up.z, cz = dx * up.y - dy * up.x; if (sqrtl(cx * cx + cy * cy + cz * cz) < 0.2L * dl) continue;
		  for (int variant = 0; variant < 3; ++variant) { bool lh = variant == 1 || (variant == 2 && CFG_LH); auto L = variant == 0 ? glm::lookAtRH(eye, ctr, up) : variant == 1 ? glm::lookAtLH(eye, ctr, up) : glm::lookAt(eye, ctr, up);
		    std::string fn = std::string(variant == 0 ? "lookAtRH" : variant == 1 ? "lookAtLH" : "lookAt") + ty; count(fn); M4 LL = toL(L); LD t = 256 * eps * 12; bool ok = true; std::string why;
		    auto app = [&](LD x, LD y, LD z, LD w, LD o[4]) { for (int r = 0; r < 4; ++r) o[r] = LL.a[0][r] * x + LL.a[1][r] * y + LL.a[2][r] * z + LL.a[3][r] * w; };
		    LD o[4]; app(eye.x, eye.y, eye.z, 1, o); if (!(fabsl(o[0]) <= t && fabsl(o[1]) <= t && fabsl(o[2]) <= t)) { ok = false; why = "eye->origin"; }
		    app(dx, dy, dz, 0, o); if (!(fabsl(o[0]) <= t && fabsl(o[1]) <= t && fabsl(o[2] - (lh ? dl : -dl)) <= t)) { ok = false; why = "view direction -> " + std::string(lh ? "+z" : "-z"); }
		    app(up.x, up.y, up.z, 0, o); if (!(fabsl(o[0]) <= t && o[1] > 0)) { ok = false; why = "up in +y half-plane"; }
		    for (int i = 0; i < 3; ++i) for (int j = 0; j < 3; ++j) { LD s = 0; for (int k = 0; k < 3; ++k) s += LL.a[k][i] * LL.a[k][j]; if (!(fabsl(s - (i == j)) <= t)) { ok = false; why = "rigid (orthonormal rows)"; } }
		    if (!ok) fail(fn, why, "eye=(" + str((double)eye.x) + "," + str((double)eye.y) + "," + str((double)eye.z) + ") center=(" + str((double)ctr.x) + "," + str((double)ctr.y) + "," + str((double)ctr.z) + ") up=(" + str((double)up.x) + "," + str((double)up.y) + "," + str((double)up.z) + ")", why, ms(L)); } }
		// decompose / recompose on T*R*K*S (skew K) with positive scale
		{ glm::vec<3, T> sc((T)g.real(0.3, 3), (T)g.real(0.3, 3), (T)g.real(0.3, 3)), tr((T)g.real(-4, 4), (T)g.real(-4, 4), (T)g.real(-4, 4)); if (it % 4 == 0) sc = glm::vec<3, T>(sc.x); int sm = (it % 3 == 2) ? (it / 3) % 8 : 0; for (int k = 0; k < 3; ++k) if ((sm >> k) & 1) sc[k] = -sc[k];   /* mirrored axes: any non-zero scale is in the domain (an odd number of them makes the determinant negative) */
		  T kxy = (it % 2) ? (T)g.real(-0.7, 0.7) : 0, kxz = (it % 3 == 1) ? (T)g.real(-0.7, 0.7) : 0, kyz = (it % 5 < 2) ? (T)g.real(-0.7, 0.7) : 0;
		  M4 K = ident(); K.a[1][0] = kxy; K.a[2][0] = kxz; K.a[2][1] = kyz; M4 S = ident(); S.a[0][0] = sc.x; S.a[1][1] = sc.y; S.a[2][2] = sc.z; M4 R = rodr(ang, axis.x, axis.y, axis.z); M4 Tm = ident(); Tm.a[3][0] = tr.x; Tm.a[3][1] = tr.y; Tm.a[3][2] = tr.z;
		  M4 C = mul(mul(mul(Tm, R), K), S); glm::mat<4, 4, T> Mx; for (int c = 0; c < 4; ++c) for (int r = 0; r < 4; ++r) Mx[c][r] = (T)C.a[c][r];
		  glm::vec<3, T> dS, dT, dK; glm::qua<T> dQ; glm::vec<4, T> dP; count("decompose" + ty); bool okd = glm::decompose(Mx, dS, dQ, dT, dK, dP);
		  if (!okd) fail("decompose" + ty, "returned-false", ms(Mx), "true", "false");
		  else { M4 K2 = ident(); K2.a[1][0] = dK.z; K2.a[2][0] = dK.y; K2.a[2][1] = dK.x; M4 S2 = ident(); S2.a[0][0] = dS.x; S2.a[1][1] = dS.y; S2.a[2][2] = dS.z; M4 R2 = toL(glm::mat4_cast(dQ)); M4 T2 = ident(); T2.a[3][0] = dT.x; T2.a[3][1] = dT.y; T2.a[3][2] = dT.z;
		    M4 C2 = mul(mul(mul(T2, R2), K2), S2); LD d = 0; for (int c = 0; c < 4; ++c) for (int r = 0; r < 4; ++r) d = nmax(d, fabsl(C2.a[c][r] - (LD)Mx[c][r])); LD td = 4096 * eps * (1 + nrm(C));
		    if (!(d <= td)) fail("decompose" + ty, std::string(sm ? "negative scale, " : "") + (kyz != 0 ? "skew-yz" : kxy != 0 || kxz != 0 ? "skew" : "trs"), "T*R*K*S scale=(" + str((double)sc.x) + "," + str((double)sc.y) + "," + str((double)sc.z) + ") skew(xy,xz,yz)=(" + str((double)kxy) + "," + str((double)kxz) + "," + str((double)kyz) + ")", "components rebuild the matrix", "max abs diff " + str((double)d) + " skew out=(" + str((double)dK.x) + "," + str((double)dK.y) + "," + str((double)dK.z) + ")"); }
		}
		// decompose with a perspective partition: M = P*T*R*S, bottom row (px, py, pz, 1) with any subset of the three entries zero
		{ glm::vec<3, T> sc((T)g.real(0.5, 2), (T)g.real(0.5, 2), (T)g.real(0.5, 2)), tr((T)g.real(-2, 2), (T)g.real(-2, 2), (T)g.real(-2, 2)); int mask = it % 8; LD pp[3]; for (int k = 0; k < 3; ++k) pp[k] = (mask >> k) & 1 ? g.real(0.05, 0.3) * (g.range(0, 1) ? 1 : -1) : 0;
		  M4 S = ident(); S.a[0][0] = sc.x; S.a[1][1] = sc.y; S.a[2][2] = sc.z; M4 R = (it % 3 == 0) ? ident() : rodr(ang, axis.x, axis.y, axis.z); M4 Tm = ident(); Tm.a[3][0] = tr.x; Tm.a[3][1] = tr.y; Tm.a[3][2] = tr.z; M4 P = ident(); P.a[0][3] = pp[0]; P.a[1][3] = pp[1]; P.a[2][3] = pp[2];
		  M4 C = mul(mul(mul(P, Tm), R), S); glm::mat<4, 4, T> Mx; for (int c = 0; c < 4; ++c) for (int r = 0; r < 4; ++r) Mx[c][r] = (T)C.a[c][r];
		  glm::vec<3, T> dS, dT, dK; glm::qua<T> dQ; glm::vec<4, T> dP; count("decompose_perspective" + ty); bool okd = glm::decompose(Mx, dS, dQ, dT, dK, dP);
		  if (okd) { M4 K2 = ident(); K2.a[1][0] = dK.z; K2.a[2][0] = dK.y; K2.a[2][1] = dK.x; M4 S2 = ident(); S2.a[0][0] = dS.x; S2.a[1][1] = dS.y; S2.a[2][2] = dS.z; M4 R2 = toL(glm::mat4_cast(dQ)); M4 T2 = ident(); T2.a[3][0] = dT.x; T2.a[3][1] = dT.y; T2.a[3][2] = dT.z;
		    M4 P2 = ident(); P2.a[0][3] = dP.x; P2.a[1][3] = dP.y; P2.a[2][3] = dP.z; P2.a[3][3] = dP.w; M4 C2 = mul(mul(mul(mul(P2, T2), R2), K2), S2); LD wn = C.a[3][3]; LD d = 0; for (int c = 0; c < 4; ++c) for (int r = 0; r < 4; ++r) d = nmax(d, fabsl(C2.a[c][r] - C.a[c][r] / wn));
		    LD d2 = 0; if constexpr (std::is_same<T, float>::value) { auto Rm = glm::recompose(dS, dQ, dT, dK, dP); for (int c = 0; c < 4; ++c) for (int r = 0; r < 4; ++r) d2 = nmax(d2, fabsl((LD)Rm[c][r] - C.a[c][r] / wn)); }   /* recompose only instantiates for float */
		    LD td = 16384 * eps * (1 + nrm(C)); if (!(d <= td) || !(d2 <= td)) fail("decompose_perspective" + ty, "bottom row mask " + str(mask), "P*T*R*S p=(" + str((double)pp[0]) + "," + str((double)pp[1]) + "," + str((double)pp[2]) + ")", "components (and recompose) rebuild the matrix normalised by m[3][3]", "max abs diff " + str((double)d) + " / recompose " + str((double)d2) + " perspective out=(" + str((double)dP.x) + "," + str((double)dP.y) + "," + str((double)dP.z) + "," + str((double)dP.w) + ")"); }
		  else fail("decompose_perspective" + ty, "returned-false", "mask " + str(mask), "true", "false"); }
		// gtx/matrix_interpolation: axisAngle recovers the rotation of a rigid matrix, axisAngleMatrix rebuilds it, extractMatrixRotation drops the translation, interpolate hits both ends and the half-way rotation
		{ LD a1 = g.real(0.05, 3.0), a2 = g.real(0.05, 3.0); glm::vec<3, T> n1 = glm::normalize(glm::vec<3, T>((T)g.real(-1, 1), (T)g.real(-1, 1), (T)g.real(-1, 1)) + glm::vec<3, T>((T)0.05)), n2 = glm::normalize(glm::vec<3, T>((T)g.real(-1, 1), (T)g.real(-1, 1), (T)g.real(-1, 1)) + glm::vec<3, T>((T)0.05));
		  M4 RA = rodr(a1, n1.x, n1.y, n1.z), RB = rodr(a2, n2.x, n2.y, n2.z); glm::mat<4, 4, T> A, B; for (int c = 0; c < 4; ++c) for (int r = 0; r < 4; ++r) { A[c][r] = (T)RA.a[c][r]; B[c][r] = (T)RB.a[c][r]; } A[3] = glm::vec<4, T>((T)g.real(-3, 3), (T)g.real(-3, 3), (T)g.real(-3, 3), (T)1); B[3] = glm::vec<4, T>((T)g.real(-3, 3), (T)g.real(-3, 3), (T)g.real(-3, 3), (T)1);
		  count("matrix_interpolation" + ty); glm::vec<3, T> ax; T an; glm::axisAngle(A, ax, an); LD sgn = ((LD)ax.x * n1.x + (LD)ax.y * n1.y + (LD)ax.z * n1.z) < 0 ? -1 : 1; LD tq = 2048 * eps / std::max((LD)0.05, sinl(a1));
		  if (!(fabsl(sgn * an - a1) <= tq && fabsl(sgn * ax.x - n1.x) <= tq && fabsl(sgn * ax.y - n1.y) <= tq && fabsl(sgn * ax.z - n1.z) <= tq)) fail("axisAngle" + ty, "value", "angle " + str((double)a1) + " axis (" + str((double)n1.x) + "," + str((double)n1.y) + "," + str((double)n1.z) + ")", "the axis and angle of the rotation", "angle " + str((double)an) + " axis (" + str((double)ax.x) + "," + str((double)ax.y) + "," + str((double)ax.z) + ")");
		  auto RM = glm::axisAngleMatrix(n1, (T)a1), XR = glm::extractMatrixRotation(A), I0 = glm::interpolate(A, B, (T)0), I1 = glm::interpolate(A, B, (T)1); LD d1 = 0, d2 = 0, d3 = 0, d4 = 0;
		  for (int c = 0; c < 4; ++c) for (int r = 0; r < 4; ++r) { LD want = (c < 3 && r < 3) ? RA.a[c][r] : (c == r ? 1 : 0); d1 = nmax(d1, fabsl((LD)RM[c][r] - want)); d2 = nmax(d2, fabsl((LD)XR[c][r] - want)); d3 = nmax(d3, fabsl((LD)I0[c][r] - (LD)A[c][r])); d4 = nmax(d4, fabsl((LD)I1[c][r] - (LD)B[c][r])); }
		  if (!(d1 <= 64 * eps)) fail("axisAngleMatrix" + ty, "value", "angle " + str((double)a1), "Rodrigues matrix", "max abs diff " + str((double)d1)); if (!(d2 <= 64 * eps)) fail("extractMatrixRotation" + ty, "value", ms(A), "rotation block, no translation", "max abs diff " + str((double)d2));
		  LD trr = 0; for (int c = 0; c < 3; ++c) for (int r = 0; r < 3; ++r) trr += RA.a[c][r] * RB.a[c][r]; LD cr = (trr - 1) / 2, sr = sqrtl(std::max((LD)0, 1 - cr * cr));   // relative rotation A -> B: its axis is ill-conditioned next to 0 and pi
		  if (sr > 0.05L) if (!(d3 <= 4096 * eps) || !(d4 <= 4096 * eps * 4 / sr)) fail("interpolate" + ty, "end points", ms(A), "interpolate(A, B, 0) = A and interpolate(A, B, 1) = B", "max abs diff " + str((double)d3) + " / " + str((double)d4)); }
		if (it < 2) sample("C09 " + ms(M));
	}
}
int main(int argc, char** argv) {
	uint64_t seed = argc > 2 ? std::strtoull(argv[2], 0, 10) : 1; int n = (argc > 3 && std::string(argv[3]) == "thorough") ? 100000 : 4000;
	Rng g(seed); run<float>(g, n); run<double>(g, n); return finish();
}
