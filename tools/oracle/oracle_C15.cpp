// oracle_C15.cpp -- violation search for C15.  ONE operation table, built under each non-semantic configuration and
// optimisation level; it prints one line per operation and input: `name input-index = result bit patterns`.  The check
// compares the outputs of all builds with those of the default build line by line; any difference is a configuration (or
// optimiser) dependence.          usage: oracle_C15 table <seed> <tier>
// Inputs come from one PRNG seeded identically in every build; quaternions are built with the wxyz() factory and read by
// member name so that the storage macro cannot influence the table itself.
#define GLM_ENABLE_EXPERIMENTAL
#include <glm/glm.hpp>
#include <glm/ext.hpp>
#include <glm/gtc/packing.hpp>
#include <glm/gtc/ulp.hpp>
#include <glm/gtc/round.hpp>
#include <glm/gtc/bitfield.hpp>
#include <glm/gtc/color_space.hpp>
#include <glm/gtx/color_space.hpp>
#include <glm/gtx/euler_angles.hpp>
#include <glm/gtx/quaternion.hpp>
#include <glm/gtx/norm.hpp>
#include <glm/gtx/transform.hpp>
#include <glm/gtx/common.hpp>
#include <glm/gtx/matrix_query.hpp>
#include <glm/gtx/matrix_operation.hpp>
#include <glm/gtx/matrix_factorisation.hpp>
#include <glm/gtx/component_wise.hpp>
#include <cstdio>
#include <cstdint>
#include <cstring>
#include <cmath>
#include <string>
static uint64_t st;
static uint64_t rnd() { uint64_t z = (st += 0x9E3779B97F4A7C15ull); z = (z ^ (z >> 30)) * 0xBF58476D1CE4E5B9ull; z = (z ^ (z >> 27)) * 0x94D049BB133111EBull; return z ^ (z >> 31); }
static float rf(int i) { static const float sp[] = { 0.f, -0.f, 0.5f, 1.5f, 2.5f, -2.5f, 0.49999997f, 8388609.f, 1e-40f, 3.4e38f, 1.f, -1.f, 0.1f, 1000.5f, 16777217.f, 2147483648.f };
	if (i % 5 == 0) return sp[rnd() % 16]; double u = (double)(rnd() >> 11) / 9007199254740992.0; return (float)((u - 0.5) * (i % 3 ? 8.0 : 4000.0)); }
static void pf(float f) { uint32_t u; std::memcpy(&u, &f, 4); if (f != f) u = 0x7fc00000u; std::printf(" %08x", u); }
static void pd(double f) { uint64_t u; std::memcpy(&u, &f, 8); if (f != f) u = 0x7ff8000000000000ull; std::printf(" %016llx", (unsigned long long)u); }
template<glm::length_t L> static void pv(glm::vec<L, float, glm::defaultp> const& v) { for (glm::length_t i = 0; i < L; ++i) pf(v[i]); }
template<glm::length_t C, glm::length_t R> static void pm(glm::mat<C, R, float, glm::defaultp> const& m) { for (glm::length_t c = 0; c < C; ++c) for (glm::length_t r = 0; r < R; ++r) pf(m[c][r]); }
static void pq(glm::quat const& q) { pf(q.w); pf(q.x); pf(q.y); pf(q.z); }
#define OP(name, body) { std::printf("%s %d =", name, i); body; std::printf("\n"); }
// integer functions on the other element widths (the x86 branch of sign / abs / min / max / mix is selected by GLM_ARCH, a non-semantic setting)
static void int_widths(int i)
{
	static const long long sp[] = { 0, 1, -1, 2147483647ll, 2147483648ll, 2147483649ll, 4294967295ll, 4294967296ll, -2147483648ll, -2147483649ll, 9223372036854775807ll, -9223372036854775807ll };
	long long x = (i % 3) ? sp[rnd() % 12] : (long long)rnd(), y = (long long)rnd() >> (rnd() % 60); glm::i64vec2 xv(x, y); glm::i16vec3 sv((glm::int16)x, (glm::int16)y, (glm::int16)-7); glm::i8vec2 bv((glm::int8)x, (glm::int8)y);
	std::printf(" %lld %lld %lld %lld %lld %lld", (long long)glm::sign(x), (long long)glm::sign(xv).x, (long long)glm::sign(xv).y, (long long)glm::abs(x == (-9223372036854775807ll - 1) ? 0 : x), (long long)glm::min(x, y), (long long)glm::max(xv, glm::i64vec2(y, x)).x);
	std::printf(" %d %d %d %d %d %d %d", (int)glm::sign(sv).x, (int)glm::sign(sv).y, (int)glm::abs(sv).z, (int)glm::sign(bv).x, (int)glm::min(sv, glm::i16vec3(3)).y, (int)glm::clamp(bv, glm::i8vec2(-5), glm::i8vec2(5)).x, (int)glm::mix(sv, glm::i16vec3(9), glm::bvec3(x & 1, y & 1, true)).x);
}
int main(int argc, char** argv)
{
	uint64_t seed = argc > 2 ? std::strtoull(argv[2], 0, 10) : 1; bool thorough = argc > 3 && std::string(argv[3]) == "thorough"; int n = thorough ? 20000 : 1500; st = seed;
	for (int i = 0; i < n; ++i) {
		float a = rf(i), b = rf(i + 1), c = rf(i + 2), d = rf(i + 3); glm::vec4 v(a, b, c, d), w(rf(i + 4), rf(i + 5), rf(i + 6), rf(i + 7)); glm::vec3 v3(v), w3(w);
		glm::mat4 M(v, w, glm::vec4(rf(i), rf(i), rf(i), rf(i)), glm::vec4(rf(i), rf(i), rf(i), 1.f)); glm::mat3 M3(M);
		glm::quat q = glm::quat::wxyz(a, b, c, d), p = glm::quat::wxyz(w.x, w.y, w.z, w.w);
		OP("round", pf(glm::round(a))) OP("trunc", pf(glm::trunc(a))) OP("roundEven", if (std::fabs(a) < 2e9f) pf(glm::roundEven(a))) OP("floor", pf(glm::floor(a))) OP("ceil", pf(glm::ceil(a))) OP("fract", pf(glm::fract(a)))
		OP("mod", pf(glm::mod(a, b))) OP("sign", pf(glm::sign(a))) OP("abs", pf(glm::abs(a))) OP("min", pf(glm::min(a, b))) OP("max", pf(glm::max(a, b))) OP("clamp", pf(glm::clamp(a, b, c)))
		OP("mix", pf(glm::mix(a, b, c))) OP("step", pf(glm::step(a, b))) OP("smoothstep", pf(glm::smoothstep(a, b, c))) OP("isnan", std::printf(" %d", (int)glm::isnan(a / b))) OP("isinf", std::printf(" %d", (int)glm::isinf(a * 1e30f)))
		OP("fmin", pf(glm::fmin(a, b)); pf(glm::fmin(a, b, c)); pf(glm::fmin(a / a, b, c, d))) OP("fmax", pf(glm::fmax(a, b)); pf(glm::fmax(a, b / b, c)); pf(glm::fmax(a, b, c, d))) OP("fclamp", pf(glm::fclamp(a, b, c)))
		OP("iround", if (a >= 0 && a < 2e9f) std::printf(" %d %u", glm::iround(a), glm::uround(a)))
		OP("exp", pf(glm::exp(a * 0.01f))) OP("log", pf(glm::log(std::fabs(a) + 0.1f))) OP("exp2", pf(glm::exp2(a * 0.01f))) OP("log2", pf(glm::log2(std::fabs(a) + 0.1f))) OP("sqrt", pf(glm::sqrt(std::fabs(a)))) OP("inversesqrt", pf(glm::inversesqrt(std::fabs(a) + 0.1f))) OP("pow", pf(glm::pow(std::fabs(a) + 0.1f, b * 0.01f)))
		OP("sin", pf(glm::sin(a))) OP("cos", pf(glm::cos(a))) OP("tan", pf(glm::tan(a))) OP("asin", pf(glm::asin(glm::fract(a)))) OP("acos", pf(glm::acos(glm::fract(a)))) OP("atan", pf(glm::atan(a)); pf(glm::atan(a, b)))
		OP("sinh", pf(glm::sinh(a * 0.01f))) OP("asinh", pf(glm::asinh(a))) OP("acosh", pf(glm::acosh(std::fabs(a) + 1.f))) OP("atanh", pf(glm::atanh(glm::fract(a) * 0.99f))) OP("radians", pf(glm::radians(a)); pf(glm::degrees(a)))
		OP("vec_ops", pv(v + w); pv(v * w); pv(v / (w + 100.f)); pv(-v); pv(glm::abs(v)); pv(glm::floor(v)); pv(glm::round(v)); pv(glm::mix(v, w, 0.25f)); pv(glm::clamp(v, -1.f, 1.f)))
		OP("geometric", pf(glm::dot(v, w)); pf(glm::length(v3)); pf(glm::distance(v3, w3)); pv(glm::cross(v3, w3)); pv(glm::normalize(v3 + glm::vec3(0.3f, 0.2f, 0.1f))); pv(glm::reflect(v3, glm::vec3(0.f, 1.f, 0.f))); pv(glm::refract(glm::normalize(v3 + glm::vec3(0.3f, 0.2f, 0.1f)), glm::vec3(0.f, 1.f, 0.f), 0.7f)); pv(glm::faceforward(v3, w3, v3)))
		OP("matrix", pm(M * M); pv(M * v); pv(v * M); pm(glm::transpose(M)); pf(glm::determinant(M)); pm(glm::inverse(M3 + glm::mat3(5.f))); pm(glm::matrixCompMult(M, M)); pm(glm::outerProduct(v3, w3)); pm(glm::inverse(M + glm::mat4(7.f))))
		OP("transform", pm(glm::translate(M, v3)); pm(glm::rotate(M, a, w3 + glm::vec3(0.1f))); pm(glm::scale(M, v3)); pm(glm::lookAt(v3, w3, glm::vec3(0.f, 1.f, 0.f))); pm(glm::perspective(1.f, 1.5f, 0.1f, 100.f)); pm(glm::ortho(-1.f, 1.f, -1.f, 1.f, 0.1f, 10.f)); pm(glm::frustum(-1.f, 1.f, -1.f, 1.f, 0.1f, 10.f)))
		OP("quaternion", pq(q * p); pq(glm::conjugate(q)); pq(glm::normalize(q + glm::quat::wxyz(0.1f, 0.f, 0.f, 0.f))); pf(glm::dot(q, p)); pv(q * v3); pm(glm::mat3_cast(q)); pq(glm::quat_cast(M3)); pq(glm::slerp(glm::normalize(q + glm::quat::wxyz(0.1f, 0.f, 0.f, 0.f)), glm::normalize(p + glm::quat::wxyz(0.f, 0.1f, 0.f, 0.f)), 0.3f)); pq(glm::angleAxis(a, glm::vec3(0.f, 0.f, 1.f))); pv(glm::eulerAngles(glm::normalize(q + glm::quat::wxyz(0.1f, 0.f, 0.f, 0.f)))); pq(glm::inverse(q + glm::quat::wxyz(0.1f, 0.f, 0.f, 0.f))))
		OP("quat_relational", { glm::bvec4 e = glm::equal(q, p); glm::bvec4 e2 = glm::equal(q, q + glm::quat::wxyz(0.f, 1e-3f, 0.f, 0.f), 1e-2f); glm::bvec4 ne = glm::notEqual(q, glm::quat::wxyz(q.w, q.x, q.y + 1.f, q.z)); std::printf(" %d%d%d%d %d%d%d%d %d%d%d%d", e.x, e.y, e.z, e.w, e2.x, e2.y, e2.z, e2.w, ne.x, ne.y, ne.z, ne.w); })
		OP("euler", pm(glm::eulerAngleXYZ(a, b, c)); pm(glm::yawPitchRoll(a, b, c)); pm(glm::orientate3(v3)))
		OP("packing", std::printf(" %08x %08x %08x %08x %04x", glm::packUnorm4x8(glm::fract(v)), glm::packSnorm2x16(glm::vec2(glm::fract(v)) * 2.f - 1.f), glm::packHalf2x16(glm::vec2(v)), glm::packUnorm2x16(glm::vec2(glm::fract(v))), (unsigned)glm::packHalf1x16(a)); pv(glm::unpackUnorm4x8((glm::uint)rnd())); pv(glm::unpackHalf2x16((glm::uint)rnd())))
		OP("ulp", if (std::isfinite(a)) { pf(glm::nextFloat(a)); pf(glm::prevFloat(a)); pf(glm::nextFloat(a, 3)); std::printf(" %d %d", glm::floatDistance(a, glm::nextFloat(a, 5)), (int)glm::equal(a, glm::nextFloat(a, 2), 3)); })
		OP("ulp_double", for (double da : { (double)a, (double)a * 1e-300, (double)a * 1e300, (double)a * 1e-42 }) if (std::isfinite(da)) { pd(glm::nextFloat(da)); pd(glm::prevFloat(da)); pd(glm::prevFloat(da, 2)); std::printf(" %lld", (long long)glm::floatDistance(da, glm::nextFloat(da, 4))); })
		OP("integer", { int x = (int)(rnd() & 0xffffff) - 0x7fffff; unsigned u = (unsigned)rnd(); std::printf(" %d %d %d %d %x %x %d %x %d %d", glm::bitCount(u), glm::findLSB(u), glm::findMSB(x), glm::abs(x), glm::bitfieldReverse(u), glm::bitfieldExtract(u, 3, 7), glm::sign(x), glm::bitfieldInsert(u, 5u, 4, 9), glm::ceilMultiple(x, 7), (int)glm::isPowerOfTwo(x)); })
		// integer functions on the other element widths (the x86 branch of sign / abs / min / max / mix is selected by GLM_ARCH, a non-semantic setting)
		OP("integer_widths", int_widths(i))
		OP("color", pv(glm::convertLinearToSRGB(glm::fract(v3))); pv(glm::convertSRGBToLinear(glm::fract(v3))); pv(glm::rgbColor(glm::hsvColor(glm::fract(v3) + 0.01f))))
		OP("double", pd(glm::round((double)a * 1.000001)); pd(glm::mix((double)a, (double)b, 0.3)); pd(glm::length(glm::dvec3(v3))); pd(glm::log2(std::fabs((double)a) + 0.1)); pd(glm::asinh((double)a)); pd(glm::fmin((double)a, (double)b, (double)c)))
		// shape conversions and constructors from columns / scalars: under GLM_FORCE_CXX98 / CXX03 a second body of each constructor is compiled
		OP("ctor_conversions", { glm::mat4x3 a43(v3, w3, v3 + w3, w3 - v3); glm::mat3x4 a34(v, w, v + w); glm::mat2x4 a24(v, w); glm::mat4x2 a42(glm::vec2(v), glm::vec2(w), glm::vec2(v3.z, w3.z), glm::vec2(a, d)); glm::mat2 a22(a, b, c, d); glm::mat3 a33(M);
			pm(glm::mat4(a43)); pm(glm::mat4(a34)); pm(glm::mat4(a24)); pm(glm::mat4(a42)); pm(glm::mat4(a22)); pm(glm::mat4(a33)); pm(glm::mat3(a43)); pm(glm::mat3(a34)); pm(glm::mat3(a24)); pm(glm::mat3(a42)); pm(glm::mat3(a22)); pm(glm::mat3(M));
			glm::mat4x3 b43(M); glm::mat3x4 b34(M); glm::mat2x4 b24(a43); glm::mat4x2 b42(a34); glm::mat2x3 b23(a42); glm::mat3x2 b32(a24); glm::mat2 b22(a43);
			for (int cc = 0; cc < 4; ++cc) { pv(b43[cc]); pf(b42[cc].x); pf(b42[cc].y); } for (int cc = 0; cc < 3; ++cc) { pv(b34[cc]); pf(b32[cc].x); pf(b32[cc].y); } for (int cc = 0; cc < 2; ++cc) { pv(b24[cc]); pv(b23[cc]); pf(b22[cc].x); pf(b22[cc].y); }
			pm(glm::mat4(a, b, c, d, b, c, d, a, c, d, a, b, d, a, b, c)); pm(glm::mat4(a)); pm(glm::mat3(v3, w3, v3)); pv(glm::vec4(glm::vec2(v), glm::vec2(w))); pv(glm::vec4(a, w3)); pv(glm::vec4(glm::vec2(v), c, d)); pv(glm::vec3(v)); })
		// functions written as loops over length_t (int by default, size_t under GLM_FORCE_SIZE_T_LENGTH): index arithmetic such as i - 1 must not depend on its signedness
		OP("length_t_loops", { glm::mat4 I4(1.f); glm::mat4 Z4(0.f); glm::mat4 J4(1.f); J4[0][0] = 0.f; glm::mat3 I3(1.f); glm::mat3 K3(1.f); K3[2][1] = 0.5f; glm::mat2 I2(1.f); glm::mat4x3 R43(1.f); glm::mat3x4 R34(1.f); glm::dmat3 D3(1.0); glm::mat3 O3 = glm::mat3_cast(glm::normalize(q + glm::quat::wxyz(0.1f, 0.f, 0.f, 0.f)));
			std::printf(" %d%d%d%d%d%d%d%d%d", (int)glm::isIdentity(I4, 1e-5f), (int)glm::isIdentity(J4, 1e-5f), (int)glm::isIdentity(I3, 1e-5f), (int)glm::isIdentity(K3, 1e-5f), (int)glm::isIdentity(I2, 1e-5f), (int)glm::isIdentity(R43, 1e-5f), (int)glm::isIdentity(R34, 1e-5f), (int)glm::isIdentity(D3, 1e-9), (int)glm::isIdentity(M, 1e-5f));
			std::printf(" %d%d%d%d%d%d%d%d", (int)glm::isNull(Z4, 1e-5f), (int)glm::isNull(I4, 1e-5f), (int)glm::isNull(M3, 1e-5f), (int)glm::isNormalized(I4, 1e-5f), (int)glm::isNormalized(O3, 1e-4f), (int)glm::isNormalized(M3, 1e-5f), (int)glm::isOrthogonal(O3, 1e-4f), (int)glm::isOrthogonal(K3, 1e-4f));
			pf(glm::compAdd(v)); pf(glm::compMul(v)); pf(glm::compMin(v)); pf(glm::compMax(v)); pf(glm::compAdd(v3)); pf(glm::compMax(v3)); pm(glm::diagonal4x4(v)); pm(glm::diagonal3x3(v3)); pm(glm::adjugate(M3)); pm(glm::adjugate(M));
			glm::mat3 Q3; glm::mat3 R3; glm::qr_decompose(M3 + glm::mat3(3.f), Q3, R3); pm(Q3); pm(R3); })
		OP("ctor", { glm::vec4 z(1.f); glm::vec4 y(v3, 2.f); glm::mat3 m(2.f); glm::quat r = glm::quat::wxyz(1.f, 0.f, 0.f, 0.f); pv(z + y); pm(m); pq(r); std::printf(" %d %d %d", (int)z.length(), (int)m.length(), (int)r.length()); })
	}
	return 0;
}
