// oracle_C12.cpp -- violation search for C12: Euclidean identities against long-double references over
// orthogonal / parallel / tiny / huge / generic vectors.
#define GLM_ENABLE_EXPERIMENTAL
#include "oracle/oracle_common.hpp"
#include <glm/glm.hpp>
#include <glm/gtx/norm.hpp>
#include <glm/gtx/projection.hpp>
#include <glm/gtx/perpendicular.hpp>
#include <glm/gtx/vector_angle.hpp>
#include <glm/gtx/orthonormalize.hpp>
#include <glm/gtx/closest_point.hpp>
#include <glm/gtx/normal.hpp>
using namespace orc;
typedef long double LD;
template<class T> static const char* tn(); template<> const char* tn<float>() { return "f32"; } template<> const char* tn<double>() { return "f64"; }
template<int L, class T> static std::string vs(glm::vec<L, T> const& v) { std::string s = "("; for (int i = 0; i < L; ++i) { s += str((double)v[i]); if (i + 1 < L) s += ","; } return s + ")"; }
template<int L, class T> static LD ldot(glm::vec<L, T> const& a, glm::vec<L, T> const& b) { LD s = 0; for (int i = 0; i < L; ++i) s += (LD)a[i] * (LD)b[i]; return s; }
template<int L, class T> static glm::vec<L, T> rnd(Rng& g, int kind) {
	glm::vec<L, T> v; LD sc = 1; int mx = std::is_same<T, float>::value ? 15 : 140;
	if (kind == 1) sc = powl(10, -(LD)g.range(3, mx)); if (kind == 2) sc = powl(10, (LD)g.range(3, mx));
	for (int i = 0; i < L; ++i) v[i] = (T)(g.real(-1, 1) * sc);
	if (kind == 3) { int k = g.range(0, L - 1); for (int i = 0; i < L; ++i) if (i != k) v[i] = 0; if (v[k] == 0) v[k] = 1; }     // axis aligned
	if (kind == 4) for (int i = 0; i < L; ++i) v[i] = (T)g.range(-4, 4);                                                     // small integers (exact dots)
	return v;
}
template<int L, class T> static void run(Rng& g, int n) {
	std::string sfx = "_" + std::to_string(L) + "_" + tn<T>(); LD eps = std::numeric_limits<T>::epsilon();
	for (int it = 0; it < n; ++it) {
		int kind = it % 5; auto a = rnd<L, T>(g, kind), b = rnd<L, T>(g, kind == 1 || kind == 2 ? 0 : kind), c = rnd<L, T>(g, 4);
		LD aa = ldot(a, a), bb = ldot(b, b);
		// proj / perp = the defining formula on every magnitude whose squared norms stay in range (x and the normal of the same tiny / huge scale, and of mixed scales)
		{ glm::vec<L, T> nrm = (it % 2) ? rnd<L, T>(g, kind) : b; LD nn = ldot(nrm, nrm);
		  if (nn > 0 && (kind != 3 || L > 0)) { LD dx = ldot(a, nrm); count("proj" + sfx); auto pr = glm::proj(a, nrm); auto pe = glm::perp(a, nrm); LD tolp = 64 * eps * sqrtl(aa) + (LD)std::numeric_limits<T>::min(); bool okp = true, oke = true;
		    for (int i = 0; i < L; ++i) { LD want = dx / nn * (LD)nrm[i]; if (!(fabsl((LD)pr[i] - want) <= tolp)) okp = false; if (!(fabsl((LD)pe[i] - ((LD)a[i] - want)) <= tolp)) oke = false; }
		    if (!okp) fail("proj" + sfx, kind == 1 ? "tiny" : kind == 2 ? "huge" : "value", vs(a) + " onto " + vs(nrm), "(x.n / n.n) n", vs(pr));
		    if (!oke) fail("perp" + sfx, kind == 1 ? "tiny" : kind == 2 ? "huge" : "value", vs(a) + " against " + vs(nrm), "x - proj(x, n)", vs(pe)); } }
		// dot / length / distance
		{ count("dot" + sfx); LD ab = 0, mag = 0; for (int i = 0; i < L; ++i) { ab += (LD)a[i] * b[i]; mag += fabsl((LD)a[i] * b[i]); } LD got = glm::dot(a, b); if (!(fabsl(got - ab) <= 8 * eps * mag + std::numeric_limits<T>::denorm_min())) fail("dot" + sfx, "value", vs(a) + "." + vs(b), str((double)ab), str((double)got)); }
		if (aa > std::numeric_limits<T>::min() * 1e6L && aa < std::numeric_limits<T>::max() / 1e6L) {
			count("length" + sfx); LD got = glm::length(a), ref = sqrtl(aa); if (!(fabsl(got - ref) <= 8 * eps * ref)) fail("length" + sfx, "value", vs(a), str((double)ref), str((double)got));
			count("normalize" + sfx); auto nv = glm::normalize(a); LD nn = sqrtl(ldot(nv, nv)); bool ok = fabsl(nn - 1) <= 16 * eps; for (int i = 0; i < L; ++i) if (!(fabsl((LD)nv[i] - (LD)a[i] / ref) <= 16 * eps)) ok = false;
			if (!ok) fail("normalize" + sfx, kind == 1 ? "tiny" : kind == 2 ? "huge" : "generic", vs(a), "unit positive multiple, |.|=1", vs(nv) + " |.|=" + str((double)nn));
		}
		if (kind == 0 || kind >= 3) {
			count("distance" + sfx); LD d2 = 0; for (int i = 0; i < L; ++i) d2 += ((LD)a[i] - b[i]) * ((LD)a[i] - b[i]); LD got = glm::distance(a, b); if (!(fabsl(got - sqrtl(d2)) <= 16 * eps * (sqrtl(d2) + sqrtl(aa) + sqrtl(bb)))) fail("distance" + sfx, "value", vs(a) + "," + vs(b), str((double)sqrtl(d2)), str((double)got));
			// distance / distance2 relative to the distance itself (the differences of nearby components are exact, so |a - b| keeps full relative accuracy however far
			// from the origin the points are): the pair as drawn, and b moved to within a few units in the last place / a small fraction of a
			for (int near = 0; near < 3; ++near) { glm::vec<L, T> b2 = b; if (near == 1) for (int i = 0; i < L; ++i) { b2[i] = a[i]; int st = g.range(-3, 3); for (int k = 0; k < (st < 0 ? -st : st); ++k) b2[i] = std::nextafter(b2[i], st < 0 ? (T)-1e30 : (T)1e30); }
			  if (near == 2) { LD f = powl(10, -(LD)g.range(2, 6)); for (int i = 0; i < L; ++i) b2[i] = (T)((LD)a[i] * (1 + f * g.real(-1, 1))); }
			  LD e2 = 0; for (int i = 0; i < L; ++i) e2 += ((LD)a[i] - b2[i]) * ((LD)a[i] - b2[i]); if (near && !(e2 > 1e-30L)) continue;
			  count("distance" + sfx); LD g1 = glm::distance(a, b2); if (!(fabsl(g1 - sqrtl(e2)) <= 8 * eps * sqrtl(e2))) fail("distance" + sfx, near ? "nearby points" : "relative", vs(a) + "," + vs(b2), str((double)sqrtl(e2)), str((double)g1));
			  count("distance2" + sfx); LD g2 = glm::distance2(a, b2); if (!(fabsl(g2 - e2) <= 8 * eps * e2)) fail("distance2" + sfx, near ? "nearby points" : "relative", vs(a) + "," + vs(b2), str((double)e2), str((double)g2)); }
			// reflect with unit N
			if (bb > 0) { glm::vec<L, T> N = b; LD nb = sqrtl(bb); for (int i = 0; i < L; ++i) N[i] = (T)((LD)b[i] / nb); LD dn = ldot(N, a); count("reflect" + sfx); auto r = glm::reflect(a, N); bool ok = true;
				for (int i = 0; i < L; ++i) if (!(fabsl((LD)r[i] - ((LD)a[i] - 2 * dn * (LD)N[i])) <= 32 * eps * (sqrtl(aa) + 1))) ok = false; if (!ok) fail("reflect" + sfx, "formula", vs(a) + " N=" + vs(N), "I-2(N.I)N", vs(r));
				auto rr = glm::reflect(r, N); for (int i = 0; i < L; ++i) if (!(fabsl((LD)rr[i] - a[i]) <= 64 * eps * (sqrtl(aa) + 1))) { fail("reflect" + sfx, "involution", vs(a) + " N=" + vs(N), vs(a), vs(rr)); break; }
				// refract with unit I, N
				if (aa > 0) { glm::vec<L, T> I = a; LD na = sqrtl(aa); for (int i = 0; i < L; ++i) I[i] = (T)((LD)a[i] / na); T eta = (T)g.real(0.3, 2.5); LD d = ldot(N, I); LD k = 1 - (LD)eta * eta * (1 - d * d); count("refract" + sfx); auto R = glm::refract(I, N, eta);
					if (k < -1e-3L) { bool z = true; for (int i = 0; i < L; ++i) if (!(R[i] == 0)) z = false; if (!z) fail("refract" + sfx, "total-internal-reflection", vs(I) + " N=" + vs(N) + " eta=" + str((double)eta), "zero vector", vs(R)); }
					else if (k > 1e-3L) { bool ok2 = true; for (int i = 0; i < L; ++i) if (!(fabsl((LD)R[i] - ((LD)eta * I[i] - ((LD)eta * d + sqrtl(k)) * N[i])) <= 256 * eps)) ok2 = false; if (!ok2) fail("refract" + sfx, "snell", vs(I) + " N=" + vs(N) + " eta=" + str((double)eta), "eta I-(eta d+sqrt k)N", vs(R)); } }
			}
			// faceforward including dot == 0 exactly (small integer vectors)
			{ auto Nn = rnd<L, T>(g, 4), Ii = rnd<L, T>(g, 4), Nr = rnd<L, T>(g, 4); if (it % 7 == 0) { for (int i = 0; i < L; ++i) Ii[i] = 0; } LD d = ldot(Nr, Ii); count("faceforward" + sfx); auto f = glm::faceforward(Nn, Ii, Nr); bool ok = true; for (int i = 0; i < L; ++i) if (!(f[i] == (d < 0 ? Nn[i] : -Nn[i]))) ok = false;
			  if (!ok) fail("faceforward" + sfx, d == 0 ? "dot==0" : "sign", "N=" + vs(Nn) + " I=" + vs(Ii) + " Nref=" + vs(Nr), d < 0 ? "N" : "-N", vs(f)); }
			// gtx angle of unit vectors: parallel, antiparallel and generic pairs; the reference avoids acos (2 atan2(|u - v|, |u + v|));
			// acos near +-1 amplifies one rounding of the dot product to sqrt(eps)
			if (L > 1 && aa > 1e-20L && aa < 1e20L && bb > 1e-20L && bb < 1e20L) { auto u = glm::normalize(a), v = glm::normalize(b); glm::vec<L, T> ws[3] = { u, -u, v }; const char* cls[3] = { "parallel", "antiparallel", "generic" };
				for (int k = 0; k < 3; ++k) { count("angle" + sfx); auto w = ws[k]; LD dm = 0, dp = 0; for (int i = 0; i < L; ++i) { dm += ((LD)u[i] - w[i]) * ((LD)u[i] - w[i]); dp += ((LD)u[i] + w[i]) * ((LD)u[i] + w[i]); }
					LD ref = 2 * atan2l(sqrtl(dm), sqrtl(dp)), got = glm::angle(u, w); if (!(fabsl(got - ref) <= 4 * sqrtl(eps) + 64 * eps)) fail("angle" + sfx, cls[k], vs(u) + " " + vs(w), str((double)ref), str((double)got)); } }
			{ count("length2" + sfx); LD got = glm::length2(a); if (!(fabsl(got - aa) <= 8 * eps * aa)) fail("length2" + sfx, "value", vs(a), str((double)aa), str((double)got)); }
		}
	}
}
template<class T> static void run3(Rng& g, int n) {
	std::string sfx = std::string("_3_") + tn<T>(); LD eps = std::numeric_limits<T>::epsilon();
	for (int it = 0; it < n; ++it) { auto a = rnd<3, T>(g, it % 2 ? 4 : 0), b = rnd<3, T>(g, it % 2 ? 4 : 0); auto c = glm::cross(a, b); count("cross" + sfx); LD sc = sqrtl(ldot(a, a) * ldot(b, b)) + 1e-30L;
		LD ex[3] = {(LD)a.y * b.z - (LD)b.y * a.z, (LD)a.z * b.x - (LD)b.z * a.x, (LD)a.x * b.y - (LD)b.x * a.y}; bool ok = true; for (int i = 0; i < 3; ++i) if (!(fabsl((LD)c[i] - ex[i]) <= 8 * eps * sc)) ok = false;
		auto c2 = glm::cross(b, a); for (int i = 0; i < 3; ++i) if (!(c2[i] == -c[i])) ok = false; if (!(fabsl(ldot(c, a)) <= 32 * eps * sc * sqrtl(ldot(a, a)) && fabsl(ldot(c, b)) <= 32 * eps * sc * sqrtl(ldot(b, b)))) ok = false;
		if (!ok) fail("cross" + sfx, "identities", vs(a) + "x" + vs(b), "determinant formula, orthogonal, anticommutative", vs(c)); }
	// gtx orthonormalize: the vector form (unit, orthogonal to y, in the plane of x and y) and the matrix form (Gram-Schmidt on the columns, against a long-double Gram-Schmidt)
	for (int it = 0; it < n; ++it) { glm::vec<3, T> c0((T)g.real(-2, 2), (T)g.real(-2, 2), (T)g.real(-2, 2)), c1((T)g.real(-2, 2), (T)g.real(-2, 2), (T)g.real(-2, 2)), c2((T)g.real(-2, 2), (T)g.real(-2, 2), (T)g.real(-2, 2));
		LD m[3][3] = {{c0.x, c0.y, c0.z}, {c1.x, c1.y, c1.z}, {c2.x, c2.y, c2.z}}, e[3][3]; bool good = true;
		for (int k = 0; k < 3; ++k) { LD v[3] = {m[k][0], m[k][1], m[k][2]}; for (int j = 0; j < k; ++j) { LD d = e[j][0] * m[k][0] + e[j][1] * m[k][1] + e[j][2] * m[k][2]; for (int i = 0; i < 3; ++i) v[i] -= d * e[j][i]; } LD nv = sqrtl(v[0] * v[0] + v[1] * v[1] + v[2] * v[2]); if (nv < 0.2L) good = false; for (int i = 0; i < 3; ++i) e[k][i] = v[i] / nv; }
		if (!good) continue; count("orthonormalize_mat3" + sfx); glm::mat<3, 3, T> r = glm::orthonormalize(glm::mat<3, 3, T>(c0, c1, c2)); LD dmax = 0; for (int k = 0; k < 3; ++k) for (int i = 0; i < 3; ++i) dmax = nmax(dmax, fabsl((LD)r[k][i] - e[k][i]));
		if (!(dmax <= 512 * eps)) fail("orthonormalize_mat3" + sfx, "Gram-Schmidt", "columns " + vs(c0) + vs(c1) + vs(c2), "orthonormal columns spanning the same flag", "max abs diff " + str((double)dmax));
		count("orthonormalize_vec3" + sfx); glm::vec<3, T> yv = glm::normalize(c1); auto o = glm::orthonormalize(c0, yv); LD oy = ldot(o, yv), oo = ldot(o, o); LD dx = ldot(c0, yv), px[3]; LD pn = 0; for (int i = 0; i < 3; ++i) { px[i] = (LD)c0[i] - dx * yv[i]; pn += px[i] * px[i]; } pn = sqrtl(pn);
		if (pn > 0.2L) { LD dd = 0; for (int i = 0; i < 3; ++i) dd = nmax(dd, fabsl((LD)o[i] - px[i] / pn)); if (!(dd <= 256 * eps && fabsl(oy) <= 256 * eps && fabsl(oo - 1) <= 64 * eps)) fail("orthonormalize_vec3" + sfx, "value", vs(c0) + " against " + vs(yv), "normalize(x - y dot(y, x))", vs(o)); } }
}
static void scalar_refract(Rng& g, int n) { for (int it = 0; it < n; ++it) { float I = g.range(0, 1) ? 1.f : -1.f, N = g.range(0, 1) ? 1.f : -1.f; float eta = (float)g.real(0.2, 3); (void)I;
	float I2 = (float)g.real(-1, 1); float d = N * I2; float k = 1 - eta * eta * (1 - d * d); count("s_refract"); float r = glm::refract(I2, N, eta); if (k < -1e-3f && !(r == 0)) fail("s_refract", "total-internal-reflection", "I=" + str(I2) + " N=" + str(N) + " eta=" + str(eta), "0", str(r)); } }
int main(int argc, char** argv) {
	uint64_t seed = argc > 2 ? std::strtoull(argv[2], 0, 10) : 1; int n = (argc > 3 && std::string(argv[3]) == "thorough") ? 100000 : 5000;
	Rng g(seed); run<1, float>(g, n); run<2, float>(g, n); run<3, float>(g, n); run<4, float>(g, n); run<2, double>(g, n); run<3, double>(g, n); run<4, double>(g, n); run3<float>(g, n); run3<double>(g, n); scalar_refract(g, n);
	return finish();
}
