// oracle_common.hpp -- shared helpers for the violation-search / replay programs (tools/oracle).
// Protocol on stdout:  FAIL fn=<f> class=<c> input="<...>" expected="<...>" got="<...>"
//                      STAT fn=<f> cases=<n>       SAMPLE <text>
#pragma once
#include <cstdio>
#include <cstdint>
#include <cstring>
#include <cmath>
#include <string>
#include <sstream>
#include <map>
#include <vector>
#include <limits>
namespace orc {
struct Rng { uint64_t s; explicit Rng(uint64_t seed) : s(seed * 0x9E3779B97F4A7C15ull + 0x1234567ull) {}
	uint64_t next() { uint64_t z = (s += 0x9E3779B97F4A7C15ull); z = (z ^ (z >> 30)) * 0xBF58476D1CE4E5B9ull; z = (z ^ (z >> 27)) * 0x94D049BB133111EBull; return z ^ (z >> 31); }
	int range(int lo, int hi) { return lo + (int)(next() % (uint64_t)(hi - lo + 1)); }
	double unit() { return (double)(next() >> 11) / 9007199254740992.0; }
	double real(double lo, double hi) { return lo + (hi - lo) * unit(); }
};
static std::map<std::string, long> g_cases; static std::map<std::string, int> g_fails; static long g_total_fail = 0; static int g_samples = 0;
inline void count(std::string const& fn, long n = 1) { g_cases[fn] += n; }
inline void fail(std::string const& fn, std::string const& cls, std::string const& input, std::string const& expected, std::string const& got)
{
	++g_total_fail;
	if (++g_fails[fn + "|" + cls] <= 3) std::printf("FAIL fn=%s class=\"%s\" input=\"%s\" expected=\"%s\" got=\"%s\"\n", fn.c_str(), cls.c_str(), input.c_str(), expected.c_str(), got.c_str());
}
inline void sample(std::string const& s) { if (g_samples++ < 8) std::printf("SAMPLE %s\n", s.c_str()); }
inline int finish() { long tot = 0; for (auto& kv : g_cases) { std::printf("STAT fn=%s cases=%ld\n", kv.first.c_str(), kv.second); tot += kv.second; } std::printf("TOTAL cases=%ld fails=%ld\n", tot, g_total_fail); return g_total_fail ? 1 : 0; }
template<class T> inline std::string str(T const& v) { std::ostringstream o; o.precision(17); o << v; return o.str(); }
// max that keeps a NaN operand (std::max silently drops it, and a NaN matrix element would then pass every "difference <= tolerance" test)
// |x| that is +infinity for a NaN argument: `nabs(difference) > tolerance` then reports a NaN result instead of silently accepting it
inline long double nabs(long double x) { return x != x ? std::numeric_limits<long double>::infinity() : (x < 0 ? -x : x); }
inline long double nmax(long double a, long double b) { return (a != a || b != b) ? std::numeric_limits<long double>::quiet_NaN() : (a < b ? b : a); }
inline uint32_t f2u(float f) { uint32_t u; std::memcpy(&u, &f, 4); return u; }
inline float u2f(uint32_t u) { float f; std::memcpy(&f, &u, 4); return f; }
inline uint64_t d2u(double f) { uint64_t u; std::memcpy(&u, &f, 8); return u; }
inline double u2d(uint64_t u) { double f; std::memcpy(&f, &u, 8); return f; }
inline std::string hex(uint64_t v) { char b[32]; std::snprintf(b, sizeof b, "0x%llx", (unsigned long long)v); return b; }
}
