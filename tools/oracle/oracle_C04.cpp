// oracle_C04.cpp -- violation search for C04 against long-double Rodrigues / rotation-matrix references.
// Compiled with and without GLM_FORCE_QUAT_DATA_WXYZ.
#define GLM_ENABLE_EXPERIMENTAL
#include "oracle/oracle_common.hpp"
#include <glm/glm.hpp>
#include <glm/gtc/quaternion.hpp>
#include <glm/gtx/quaternion.hpp>
#include <glm/gtx/euler_angles.hpp>
using namespace orc;
typedef long double LD;
template<class T> static const char* tn(); template<> const char* tn<float>() { return "f32"; } template<> const char* tn<double>() { return "f64"; }
struct M3 { LD a[3][3]; };  // a[c][r]
static M3 qmat(LD x, LD y, LD z, LD w) { M3 m; m.a[0][0] = 1 - 2 * (y * y + z * z); m.a[0][1] = 2 * (x * y + w * z); m.a[0][2] = 2 * (x * z - w * y); m.a[1][0] = 2 * (x * y - w * z); m.a[1][1] = 1 - 2 * (x * x + z * z); m.a[1][2] = 2 * (y * z + w * x);
	m.a[2][0] = 2 * (x * z + w * y); m.a[2][1] = 2 * (y * z - w * x); m.a[2][2] = 1 - 2 * (x * x + y * y); return m; }
static M3 mul(M3 const& A, M3 const& B) { M3 r; for (int c = 0; c < 3; ++c) for (int k = 0; k < 3; ++k) { LD s = 0; for (int j = 0; j < 3; ++j) s += A.a[j][k] * B.a[c][j]; r.a[c][k] = s; } return r; }
static M3 rot(int axis, LD t) { M3 m; for (int i = 0; i < 3; ++i) for (int j = 0; j < 3; ++j) m.a[i][j] = i == j; LD c = cosl(t), s = sinl(t); int u = (axis + 1) % 3, v = (axis + 2) % 3; m.a[u][u] = c; m.a[u][v] = s; m.a[v][u] = -s; m.a[v][v] = c; return m; }
template<class T> static LD mdiff(glm::mat<3, 3, T> const& g, M3 const& r) { LD d = 0; for (int c = 0; c < 3; ++c) for (int k = 0; k < 3; ++k) d = nmax(d, fabsl((LD)g[c][k] - r.a[c][k])); return d; }
template<class T> static LD mdiff4(glm::mat<4, 4, T> const& g, M3 const& r) { LD d = 0; for (int c = 0; c < 3; ++c) for (int k = 0; k < 3; ++k) d = nmax(d, fabsl((LD)g[c][k] - r.a[c][k])); return d; }
template<class T> static std::string qs(glm::qua<T> const& q) { return "(w=" + str((double)q.w) + ",x=" + str((double)q.x) + ",y=" + str((double)q.y) + ",z=" + str((double)q.z) + ")"; }
template<class T> static glm::qua<T> unitq(Rng& g, int kind) {
	LD x = g.real(-1, 1), y = g.real(-1, 1), z = g.real(-1, 1), w = g.real(-1, 1);
	if (kind == 1) { static const LD es[] = {1e-9L, 1e-7L, 1e-5L, 2e-4L, 1e-3L, 1e-2L, 1e-1L}; int k = g.range(0, 3); LD v[4]; for (int i = 0; i < 4; ++i) v[i] = es[g.range(0, 6)] * g.real(-1, 1) * (g.range(0, 3) ? 1 : 0); v[k] = g.range(0, 1) ? 1 : -1; x = v[0]; y = v[1]; z = v[2]; w = v[3]; }   /* near +-x, +-y, +-z or +-w with perturbations of every order (each of the other components independently tiny, small or zero: the order in which the largest-of-four cascade sees them matters) */      // near an axis, w ~ 0
	if (kind == 2) { w = g.range(0, 1) ? 1 : -1; x *= 1e-6L; y *= 1e-6L; z *= 1e-6L; }                                                                                                    // w ~ +-1
	if (kind == 3) { LD a = g.real(-3.2, 3.2), s = sqrtl(0.5L); int sg = g.range(0, 1) ? 1 : -1; w = s * cosl(a); x = s * sinl(a); y = sg * s * cosl(a); z = -sg * s * sinl(a) * (sg > 0 ? 1 : -1) * (sg > 0 ? 1 : 1); if (sg < 0) { y = -s * cosl(a); z = s * sinl(a); } }   // gimbal-lock poles (yaw = +-90 deg)
	if (kind == 4) { int k = g.range(0, 3); LD v[4] = {0, 0, 0, 0}; v[k] = 1; int k2 = (k + 1 + g.range(0, 2)) % 4; v[k2] = g.real(0.95, 1.05); x = v[0]; y = v[1]; z = v[2]; w = v[3]; }    // two nearly equal largest components
	LD n = sqrtl(x * x + y * y + z * z + w * w); return glm::qua<T>::wxyz((T)(w / n), (T)(x / n), (T)(y / n), (T)(z / n));
}
template<class T> static void run(Rng& g, int n) {
	std::string ty = std::string("_") + tn<T>(); LD eps = std::numeric_limits<T>::epsilon(); LD tol = 64 * eps;
	for (int it = 0; it < n; ++it) {
		int kind = it % 5; auto q = unitq<T>(g, kind); M3 R = qmat(q.x, q.y, q.z, q.w); glm::vec<3, T> v((T)g.real(-2, 2), (T)g.real(-2, 2), (T)g.real(-2, 2));
		LD rv[3]; for (int r = 0; r < 3; ++r) rv[r] = R.a[0][r] * v.x + R.a[1][r] * v.y + R.a[2][r] * v.z;
		{ count("q_mul_v3" + ty); auto a = q * v; auto b = glm::mat3_cast(q) * v; auto c4 = q * glm::vec<4, T>(v, (T)1); auto m4 = glm::mat4_cast(q) * glm::vec<4, T>(v, (T)1); auto gr = glm::rotate(q, v); bool ok = true;
		  for (int r = 0; r < 3; ++r) if (!(fabsl((LD)a[r] - rv[r]) <= tol * 8 && fabsl((LD)b[r] - rv[r]) <= tol * 8 && fabsl((LD)c4[r] - rv[r]) <= tol * 8 && fabsl((LD)m4[r] - rv[r]) <= tol * 8 && fabsl((LD)gr[r] - rv[r]) <= tol * 8)) ok = false;
		  if (!(c4.w == 1)) ok = false; if (!ok) fail("q_mul_v3" + ty, "rotation", qs(q) + " v=(" + str((double)v.x) + "," + str((double)v.y) + "," + str((double)v.z) + ")", "(" + str((double)rv[0]) + "," + str((double)rv[1]) + "," + str((double)rv[2]) + ")", "(" + str((double)a.x) + "," + str((double)a.y) + "," + str((double)a.z) + ") / mat3: (" + str((double)b.x) + "," + str((double)b.y) + "," + str((double)b.z) + ")"); }
		{ count("mat3_cast" + ty); if (!(mdiff(glm::mat3_cast(q), R) <= tol)) fail("mat3_cast" + ty, "value", qs(q), "Rodrigues matrix", "differs"); }
		{ count("quat_cast" + ty); auto p = glm::quat_cast(glm::mat3_cast(q)); LD d1 = 0, d2 = 0; LD a[4] = {p.x, p.y, p.z, p.w}, b[4] = {q.x, q.y, q.z, q.w}; for (int i = 0; i < 4; ++i) { d1 = nmax(d1, fabsl(a[i] - b[i])); d2 = nmax(d2, fabsl(a[i] + b[i])); }
		  if (!(std::min(d1, d2) <= tol * 8)) fail("quat_cast" + ty, kind == 4 ? "near-tie" : "value", qs(q), "+-q", qs(p)); }
		{ auto q2 = unitq<T>(g, it % 3); count("product" + ty); M3 R2 = qmat(q2.x, q2.y, q2.z, q2.w); if (!(mdiff(glm::mat3_cast(q * q2), mul(R, R2)) <= tol * 4)) fail("product" + ty, "value", qs(q) + "*" + qs(q2), "M(q1)M(q2)", "differs"); }
		{ count("inverse" + ty); auto i = q * glm::inverse(q); auto cj = glm::conjugate(q); auto iv = glm::inverse(q); if (!(fabsl((LD)i.w - 1) <= tol && fabsl((LD)i.x) <= tol && fabsl((LD)i.y) <= tol && fabsl((LD)i.z) <= tol && fabsl((LD)cj.x - iv.x) <= tol && fabsl((LD)cj.w - iv.w) <= tol)) fail("inverse" + ty, "value", qs(q), "identity", qs(i)); }
		if (it < 4) { count("axis" + ty); glm::qua<T> id = glm::qua<T>::wxyz((T)(it & 1 ? -1 : 1), (T)0, (T)0, (T)(it & 2 ? std::numeric_limits<T>::denorm_min() : 0)); auto ax = glm::axis(id); LD n2 = (LD)ax.x * ax.x + (LD)ax.y * ax.y + (LD)ax.z * ax.z;   // w = +-1 exactly: any unit axis, never NaN
			if (!(fabsl(n2 - 1) <= 64 * eps)) fail("axis" + ty, "w = +-1", qs(id), "a unit vector", str((double)ax.x) + "," + str((double)ax.y) + "," + str((double)ax.z));
			auto r = glm::angleAxis(glm::angle(id), ax); if (!(mdiff(glm::mat3_cast(r), qmat(id.x, id.y, id.z, id.w)) <= 4096 * eps)) fail("angleAxis" + ty, "w = +-1", qs(id), "same rotation", qs(r)); }
		if (kind != 2) { count("angleAxis" + ty); auto r = glm::angleAxis(glm::angle(q), glm::axis(q));
		  // axis() divides by sqrt(1 - w^2): next to w = +-1 that difference cancels (relative error eps / |v|^2), and once w rounds to +-1 the axis is arbitrary while
		  // the angle is still |v|-sized: the rebuilt rotation is off by about min(|v|, eps / |v|), at most sqrt(eps) -- conditioning of the documented formula, not a defect
		  LD vn = sqrtl((LD)q.x * q.x + (LD)q.y * q.y + (LD)q.z * q.z); LD taa = 4096 * eps + 16 * std::min(vn, vn > 0 ? eps / vn : (LD)0);
		  if (!(mdiff(glm::mat3_cast(r), R) <= taa)) fail("angleAxis" + ty, "roundtrip", qs(q), "same rotation", qs(r)); }
		{ count("eulerAngles" + ty); auto e = glm::eulerAngles(q); auto r = glm::qua<T>(e); LD sy = 2 * ((LD)q.w * q.y - (LD)q.x * q.z); LD cy = sqrtl(std::max((LD)0, 1 - sy * sy)); LD t = 4096 * eps / std::max(cy, 64 * sqrtl(eps)) + (kind == 3 ? 64 * sqrtl(eps) : 0); if (!(mdiff(glm::mat3_cast(r), R) <= t)) fail("eulerAngles" + ty, kind == 3 ? "gimbal-pole" : "roundtrip", qs(q), "quat(eulerAngles(q)) same rotation", qs(r) + " euler=(" + str((double)e.x) + "," + str((double)e.y) + "," + str((double)e.z) + ")");
		  M3 E = mul(mul(rot(2, e.z), rot(1, e.y)), rot(0, e.x)); if (!(mdiff(glm::mat3_cast(q), E) <= t)) fail("eulerAngles" + ty, kind == 3 ? "gimbal-pole-matrix" : "matrix", qs(q), "Rz(roll)Ry(yaw)Rx(pitch)", "differs"); }
		// exactly opposite vectors (the constructor's fallback axis): along each signed coordinate axis and in general position; the image of u under
		// the returned quaternion (long-double sandwich product, no glm operator) must point along v
		{ glm::vec<3, T> u; int k = it % 8; if (k < 6) { u = glm::vec<3, T>((T)0); u[k / 2] = (T)((k & 1) ? -1 : 1) * (T)g.real(0.5, 2); } else u = glm::vec<3, T>((T)g.real(-1, 1), (T)g.real(-1, 1), (T)g.real(-1, 1)) + glm::vec<3, T>((T)0.1);
		  glm::vec<3, T> v = -u * (T)(1 << (it % 3)); count("two_vectors" + ty); auto r = glm::qua<T>(glm::normalize(u), glm::normalize(v)); LD qw = r.w, qx = r.x, qy = r.y, qz = r.z, n2 = qw * qw + qx * qx + qy * qy + qz * qz;
		  LD ux = u.x, uy = u.y, uz = u.z, tx = 2 * (qy * uz - qz * uy), ty2 = 2 * (qz * ux - qx * uz), tz = 2 * (qx * uy - qy * ux), ix = ux + qw * tx + (qy * tz - qz * ty2), iy = uy + qw * ty2 + (qz * tx - qx * tz), iz = uz + qw * tz + (qx * ty2 - qy * tx);
		  LD lu = sqrtl(ux * ux + uy * uy + uz * uz); if (!(fabsl(n2 - 1) <= 64 * tol && fabsl(ix + ux) <= 64 * tol * lu && fabsl(iy + uy) <= 64 * tol * lu && fabsl(iz + uz) <= 64 * tol * lu)) fail("two_vectors" + ty, "exactly opposite vectors", "u=(" + str((double)u.x) + "," + str((double)u.y) + "," + str((double)u.z) + ") v=-s*u", "a half turn: q*u = -u", qs(r)); }
		{ glm::vec<3, T> u = glm::normalize(glm::vec<3, T>((T)g.real(-1, 1), (T)g.real(-1, 1), (T)g.real(-1, 1))), w2 = glm::normalize(glm::vec<3, T>((T)g.real(-1, 1), (T)g.real(-1, 1), (T)g.real(-1, 1))); if (!(glm::dot(u, w2) < (T)-0.99)) { count("two_vectors" + ty); auto r = glm::qua<T>(u, w2); auto img = r * u;
		  if (!(fabsl((LD)img.x - w2.x) <= 64 * tol && fabsl((LD)img.y - w2.y) <= 64 * tol && fabsl((LD)img.z - w2.z) <= 64 * tol)) fail("two_vectors" + ty, "value", "u->v", "v", "differs"); } }
		// euler matrices
		{ T a = (T)g.real(-7, 7), b = (T)g.real(-7, 7), c = (T)g.real(-7, 7); if (kind == 3) b = (T)(1.57079632679489661923L * (g.range(0, 1) ? 1 : -1) + g.real(-1e-6, 1e-6));
		  if (it % 5 == 1) { static const double dl[] = {0, 1e-7, 1e-5, 2e-4, 1e-3, 3e-2}; b = (T)(1.57079632679489661923L * (LD)g.range(-2, 2) + (g.range(0, 1) ? 1 : -1) * dl[g.range(0, 5)]); }   // every multiple of pi/2 and its neighbourhood: gimbal lock of both families
#define E3(SUF, A, B, C) E3_(eulerAngle##SUF, extractEulerAngle##SUF, A, B, C)
#define E3_(NAME, XNAME, A, B, C) { count(#NAME + ty); if (!(mdiff4(glm::NAME(a, b, c), mul(mul(rot(A, a), rot(B, b)), rot(C, c))) <= tol * 4)) fail(#NAME + ty, "factorisation", str((double)a) + "," + str((double)b) + "," + str((double)c), "product of single-axis factors", "differs"); \
		  T t1, t2, t3; glm::XNAME(glm::NAME(a, b, c), t1, t2, t3); LD cb = fabsl(A == C ? sinl((LD)b) : cosl((LD)b)); LD tt = 1024 * eps; (void)cb;   /* the rebuilt MATRIX is well conditioned even where the individual angles are not (gimbal lock) */ if (!(mdiff4(glm::NAME(t1, t2, t3), mul(mul(rot(A, a), rot(B, b)), rot(C, c))) <= tt)) fail(#XNAME + ty, kind == 3 ? "gimbal" : "roundtrip", str((double)a) + "," + str((double)b) + "," + str((double)c), "angles rebuilding the same matrix", str((double)t1) + "," + str((double)t2) + "," + str((double)t3)); }
		  E3(XYZ, 0, 1, 2) E3(YXZ, 1, 0, 2) E3(XZX, 0, 2, 0) E3(XYX, 0, 1, 0) E3(YXY, 1, 0, 1) E3(YZY, 1, 2, 1) E3(ZYZ, 2, 1, 2) E3(ZXZ, 2, 0, 2)
		  E3(XZY, 0, 2, 1) E3(YZX, 1, 2, 0) E3(ZYX, 2, 1, 0) E3(ZXY, 2, 0, 1)
#define E2(NAME, A, B) { count(#NAME + ty); if (!(mdiff4(glm::NAME(a, b), mul(rot(A, a), rot(B, b))) <= tol * 4)) fail(#NAME + ty, "factorisation", str((double)a) + "," + str((double)b), "product", "differs"); }
		  E2(eulerAngleXY, 0, 1) E2(eulerAngleYX, 1, 0) E2(eulerAngleXZ, 0, 2) E2(eulerAngleZX, 2, 0) E2(eulerAngleYZ, 1, 2) E2(eulerAngleZY, 2, 1)
		  count("yawPitchRoll" + ty); if (!(mdiff4(glm::yawPitchRoll(a, b, c), mul(mul(rot(1, a), rot(0, b)), rot(2, c))) <= tol * 4)) fail("yawPitchRoll" + ty, "factorisation", "", "Y*X*Z", "differs"); }
		if (it < 2) sample("C04 " + qs(q));
	}
}
int main(int argc, char** argv) {
	uint64_t seed = argc > 2 ? std::strtoull(argv[2], 0, 10) : 1; int n = (argc > 3 && std::string(argv[3]) == "thorough") ? 100000 : 4000;
	Rng g(seed); run<float>(g, n); run<double>(g, n); return finish();
}
