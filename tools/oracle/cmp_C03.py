#!/usr/bin/env python3
"""cmp_C03.py <pure table> <simd table> <build name>: compare two oracle_C03 operation tables line by line.
E rows must be identical (float lanes as IEEE values: -0 = +0, NaN = NaN), A rows within 8 * 2^-24 * scale, L rows within
n * 2^-11 relative (n = chained approximations).  Prints FAIL lines in the oracle protocol (class = row name + ':' + output group) and a TOTAL line."""
import sys, re, struct, collections
def f32(u): return struct.unpack('<f', struct.pack('<I', u))[0]
def f64(u): return struct.unpack('<d', struct.pack('<Q', u))[0]
ROW = re.compile(r'^([EAL]) (.*?) (\d+)(?: ([-\d.e+infa]+))? =(.*)$')
def parse(p):
    """stream the rows of a table (a thorough table has about two million lines)"""
    with open(p) as f:
        for l in f:
            m = ROW.match(l.rstrip('\n'))
            if not m: raise SystemExit('unparsable line in %s: %r' % (p, l))
            yield (m.group(1), m.group(2), int(m.group(3)), float(m.group(4)) if m.group(4) else None, m.group(5).split())
LANE32 = re.compile(r'^f[0-9a-f]{8}$'); LANE64 = re.compile(r'^d[0-9a-f]{16}$')
def val(t):
    """a float / double lane, or None for any other token (decision flags such as ff=10, integers): those must match exactly"""
    if LANE32.match(t): return f32(int(t[1:], 16))
    if LANE64.match(t): return f64(int(t[1:], 16))
    return None
def main():
    import itertools
    P, S, build = parse(sys.argv[1]), parse(sys.argv[2]), sys.argv[3]
    fails = collections.OrderedDict(); rows = collections.Counter(); lanes = 0; nrows = 0
    for a, b in itertools.zip_longest(P, S):
        if a is None or b is None: raise SystemExit('tables differ in length')
        (k, n, i, sc, v), (k2, n2, i2, sc2, v2) = a, b; nrows += 1
        if (k, n, i) != (k2, n2, i2) or len(v) != len(v2): raise SystemExit('tables out of step at %s %s %d' % (k, n, i))
        rows[k] += 1
        for j, (x, y) in enumerate(zip(v, v2)):
            lanes += 1
            if x == y: continue
            a, b = val(x), val(y)
            if a is None or b is None: ok = False
            elif a != a or b != b: ok = (a != a and b != b)
            elif k == 'E': ok = (a == b)                              # -0 == +0
            elif k == 'A': ok = abs(a - b) <= 8 * 2.0 ** -24 * max(sc, sc2)
            else: ok = abs(a - b) <= sc * 2.0 ** -11 * max(abs(a), 1e-30)
            if not ok:
                key = (n.replace(' ', '_'), j)
                if key not in fails: fails[key] = [0, i, x, y]
                fails[key][0] += 1
    for (n, j), (cnt, i, x, y) in fails.items():
        print('FAIL fn=%s class="%s:%s:lane%d" input="row %d (count %d)" expected="%s" got="%s"' % (n, build, n, j, i, cnt, x, y))
    print('TOTAL build=%s rows=%d exact_rows=%d approx_rows=%d lowp_rows=%d lanes=%d failing_lanes=%d' % (build, nrows, rows['E'], rows['A'], rows['L'], lanes, len(fails)))
    return 1 if fails else 0
if __name__ == '__main__': sys.exit(main())
