// oracle_C19.cpp -- violation search for C19 (colour-space conversions) with references written in double.
// usage: oracle_C19 sweep <seed> <tier>
#define GLM_ENABLE_EXPERIMENTAL
#include <glm/glm.hpp>
#include <glm/gtc/color_space.hpp>
#include <glm/gtx/color_space.hpp>
#include <glm/gtx/color_space_YCoCg.hpp>
#include <glm/gtc/type_precision.hpp>
#include "oracle_common.hpp"
#include <thread>
#include <mutex>
#include <atomic>
using namespace orc;
static std::mutex g_mu;
static void tfail(std::string const& fn, std::string const& cls, std::string const& in, std::string const& ex, std::string const& got) { std::lock_guard<std::mutex> l(g_mu); fail(fn, cls, in, ex, got); }
template<class V> static std::string v3(V const& v) { return str((double)v[0]) + "," + str((double)v[1]) + "," + str((double)v[2]); }
// ---- integer YCoCg-R: exactly lossless
template<class T> static void ycocgr_triple(int r, int g, int b, const char* tn)
{
	glm::vec<3, T> c((T)r, (T)g, (T)b); glm::vec<3, T> y = glm::rgb2YCoCgR(c); glm::vec<3, T> back = glm::YCoCgR2rgb(y);
	if (back != c) tfail("YCoCgR", std::string("integer round trip, ") + tn, str(r) + "," + str(g) + "," + str(b), str(r) + "," + str(g) + "," + str(b), v3(back));
}
static void ycocgr_all(bool thorough)
{
	std::vector<std::thread> th; std::atomic<long> cnt(0);
	for (int t = 0; t < 16; ++t) th.emplace_back([t, thorough, &cnt]() { long n = 0;
		for (int r = t; r < 256; r += 16) for (int g = 0; g < 256; ++g) for (int b = 0; b < 256; ++b) { ycocgr_triple<glm::uint8>(r, g, b, "uint8"); ycocgr_triple<int>(r, g, b, "int"); ycocgr_triple<glm::int16>(r, g, b, "int16"); ycocgr_triple<glm::uint32>(r, g, b, "uint32"); n += 4;
			if (thorough || ((r + g + b) % 5 == 0)) { ycocgr_triple<glm::int8>(r - 128, g - 128, b - 128, "int8"); ++n; } }
		int step = thorough ? 257 : 1285; for (int r = t * 4096; r < (t + 1) * 4096 && r < 65536; r += (thorough ? 61 : 251)) for (int g = 0; g < 65536; g += step) for (int b = 0; b < 65536; b += step) { ycocgr_triple<glm::uint16>(r, g, b, "uint16"); ycocgr_triple<int>(r, g, b, "int"); ycocgr_triple<glm::int64>(r, g, b, "int64"); n += 3; }
		cnt += n; });
	for (auto& x : th) x.join(); std::lock_guard<std::mutex> l(g_mu); count("YCoCg-R integer round trips (all 2^24 8-bit triples x 4 types, 16-bit lattice)", cnt.load());
}
// ---- sRGB
static double ref_l2s(double x, double ginv) { double c = std::min(1.0, std::max(0.0, x)); return c < 0.0031308 ? c * 12.92 : std::pow(c, ginv) * 1.055 - 0.055; }
static double ref_s2l(double s, double g) { return s <= 0.04045 ? s / 12.92 : std::pow((s + 0.055) / 1.055, g); }
// the lowp vec3 overload of convertLinearToSRGB is a separate formula (a sum of three nested square roots): same contract, looser accuracy (its own error is below 1e-3
// from the threshold 0.0031308 upwards); below the threshold it goes negative -- a recorded finding, its own class
static void srgb_lowp(Rng& r, int n)
{
	typedef glm::vec<3, float, glm::lowp> V; std::string fn = "convertLinearToSRGB<lowp_vec3>"; const double knee = 0.0031308;
	auto f = [](float x, int lane) { V c(0.25f, 0.5f, 0.75f); c[lane] = x; return glm::convertLinearToSRGB(c)[lane]; };
	if (f(0.f, 0) != 0.f || nabs((double)f(1.f, 2) - 1) > 2e-6) tfail(fn, "end points", "0, 1", "0, 1", str((double)f(0.f, 0)) + ", " + str((double)f(1.f, 2)));
	for (int i = 0; i <= n; ++i) {
		double xd = (i % 3 == 0) ? (double)i / n : r.real(0, 1); if (i % 7 == 1) xd = knee * std::pow(10.0, r.real(0, 2.5)); if (i % 7 == 2) xd = knee * std::pow(10.0, -r.real(0, 5)); if (i % 17 == 3) xd = knee + r.real(0, 1e-5);
		if (xd > 1) xd = 1; float x = (float)xd; int lane = i % 3; float e = f(x, lane); std::string in = str((double)x); double ref = ref_l2s((double)x, 1 / 2.4);
		{ double s1 = std::sqrt((double)x), s2 = std::sqrt(s1), s3 = std::sqrt(s2), model = 0.662002687 * s1 + 0.684122060 * s2 - 0.323583601 * s3 - 0.0225411470 * (double)x;   // the formula of P_C19_lowp.v
		  if (!(std::fabs((double)e - model) <= 2e-6)) tfail(fn, "differs from the modelled formula (P_C19_lowp.v)", in, str(model), str((double)e)); }
		if ((double)x < knee) { if (!(e >= 0 && std::fabs((double)e - ref) <= 2e-3)) tfail(fn, "below the threshold 0.0031308", in, str(ref), str((double)e)); continue; }
		if (!(std::fabs((double)e - ref) <= 2e-3)) tfail(fn, "value (2e-3)", in, str(ref), str((double)e));
		if (!(e >= 0 && e <= 1.000002f)) tfail(fn, "outside [0,1]", in, "[0,1]", str((double)e));
		float x2 = std::min(1.f, x + 1e-4f + (float)r.real(0, 0.05)); float e2 = f(x2, (lane + 1) % 3); if (!(e2 >= e - 1e-6f)) tfail(fn, "not monotone", in + " < " + str((double)x2), ">= " + str((double)e), str((double)e2));
		float back = glm::convertSRGBToLinear(glm::vec<3, float, glm::lowp>(e, e, e))[lane]; double slope = 12.92; if (!(std::fabs((double)back - (double)x) <= 2e-3 * 1.0 + 1e-6) && slope > 0) tfail(fn, "convertSRGBToLinear does not invert it (2e-3)", in, in, str((double)back));
	}
	std::lock_guard<std::mutex> l(g_mu); count("lowp vec3 convertLinearToSRGB", n + 1);
}
template<class T> static void srgb(Rng& r, int n, const char* tn)
{
	double tol = sizeof(T) == 4 ? 3e-6 : 1e-9; std::string sfx = std::string("<") + tn + ">";
	for (int i = 0; i <= n; ++i) {
		double xd = (i % 3 == 0) ? (double)i / n : r.real(0, 1); if (i % 17 == 1) xd = 0.0031308 + r.real(-1e-5, 1e-5); if (i % 17 == 2) xd = 0.04045 + r.real(-1e-4, 1e-4); T x = (T)xd; T a = (T)r.real(0, 1);
		glm::vec<4, T> c(x, (T)r.real(0, 1), (T)r.real(0, 1), a); glm::vec<4, T> e = glm::convertLinearToSRGB(c), d = glm::convertSRGBToLinear(c);
		std::string in = str((double)x);
		if (nabs((double)e.x - ref_l2s((double)x, 0.41666)) > tol) tfail("convertLinearToSRGB" + sfx, "value", in, str(ref_l2s((double)x, 0.41666)), str((double)e.x));
		if (nabs((double)d.x - ref_s2l((double)x, 2.4)) > tol) tfail("convertSRGBToLinear" + sfx, "value", in, str(ref_s2l((double)x, 2.4)), str((double)d.x));
		if (e.w != a || d.w != a) tfail("convertLinearToSRGB" + sfx, "alpha changed", in, str((double)a), str((double)e.w));
		if (!(e.x >= 0 && e.x <= 1 && e.y >= 0 && e.y <= 1)) tfail("convertLinearToSRGB" + sfx, "outside [0,1]", in, "[0,1]", str((double)e.x));
		if (!(d.x >= 0 && d.x <= 1)) tfail("convertSRGBToLinear" + sfx, "outside [0,1]", in, "[0,1]", str((double)d.x));
		T back = glm::convertSRGBToLinear(glm::vec<3, T>(e)).x; if (nabs((double)back - (double)x) > 2e-5) tfail("convertSRGBToLinear" + sfx, "does not invert convertLinearToSRGB", in, in, str((double)back));
		T fwd = glm::convertLinearToSRGB(glm::vec<3, T>(d)).x; if (nabs((double)fwd - (double)x) > 1.5e-4) tfail("convertLinearToSRGB" + sfx, "does not invert convertSRGBToLinear", in, in, str((double)fwd));
		// monotone: a larger input never gives a smaller output
		T x2 = (i % 2) ? std::nextafter(x, (T)2) : (T)std::min(1.0, (double)x + r.real(0, 0.01)); glm::vec<3, T> c2(x2, x2, x2);
		if (glm::convertLinearToSRGB(c2).x < e.x) tfail("convertLinearToSRGB" + sfx, "not monotone", in + " < " + str((double)x2), ">= " + str((double)e.x), str((double)glm::convertLinearToSRGB(c2).x));
		if (glm::convertSRGBToLinear(c2).x < d.x) tfail("convertSRGBToLinear" + sfx, "not monotone", in + " < " + str((double)x2), ">= " + str((double)d.x), str((double)glm::convertSRGBToLinear(c2).x));
		// the 1-, 3- and 4-component overloads agree per component
		if (glm::convertLinearToSRGB(glm::vec<1, T>(x)).x != e.x || glm::convertLinearToSRGB(glm::vec<3, T>(c)).y != e.y || glm::convertSRGBToLinear(glm::vec<1, T>(x)).x != d.x || glm::convertSRGBToLinear(glm::vec<2, T>(c)).y != d.y) tfail("convertLinearToSRGB" + sfx, "overloads disagree per component", in, "", "");
		// explicit gamma
		T g = (T)r.real(1, 3); if (i % 4 == 0) g = (T)2.4; glm::vec<3, T> cg(x, x, x); T eg = glm::convertLinearToSRGB(cg, g).x, dg = glm::convertSRGBToLinear(cg, g).x; bool dflt = std::fabs((double)g - 2.4) < 1e-6; const char* gc = dflt ? "explicit gamma 2.4" : "explicit gamma other than 2.4 (the constants belong to 2.4: jump at the threshold)";
		if (nabs((double)eg - ref_l2s((double)x, 1.0 / (double)g)) > tol * 4) tfail("convertLinearToSRGB(gamma)" + sfx, "value", in + " gamma " + str((double)g), str(ref_l2s((double)x, 1.0 / (double)g)), str((double)eg));
		if (nabs((double)dg - ref_s2l((double)x, (double)g)) > tol * 4) tfail("convertSRGBToLinear(gamma)" + sfx, "value", in + " gamma " + str((double)g), str(ref_s2l((double)x, (double)g)), str((double)dg));
		if (!(eg >= 0 && eg <= 1)) tfail("convertLinearToSRGB(gamma)" + sfx, gc, in + " gamma " + str((double)g), "[0,1]", str((double)eg));
		T eg2 = glm::convertLinearToSRGB(c2, g).x; if (eg2 < eg) tfail("convertLinearToSRGB(gamma)" + sfx, gc, in + " < " + str((double)x2) + " gamma " + str((double)g), ">= " + str((double)eg), str((double)eg2));
		T bg = glm::convertSRGBToLinear(glm::vec<3, T>(eg), g).x; if (eg > 0.04045 && nabs((double)bg - (double)x) > 1e-5) tfail("convertSRGBToLinear(gamma)" + sfx, "does not invert convertLinearToSRGB(gamma)", in + " gamma " + str((double)g), in, str((double)bg));
	}
	for (T e0 : {(T)0, (T)1}) { glm::vec<3, T> c(e0); if (glm::convertLinearToSRGB(c).x != e0) tfail("convertLinearToSRGB" + sfx, e0 == (T)1 ? "end point 1 (one ulp low: 1.055 - 0.055 rounds below 1)" : "end point", str((double)e0), str((double)e0), str((double)glm::convertLinearToSRGB(c).x)); if (nabs((double)glm::convertSRGBToLinear(c).x - (double)e0) > (sizeof(T) == 4 ? 1.3e-7 : 1e-9)) tfail("convertSRGBToLinear" + sfx, "end point", str((double)e0), str((double)e0), str((double)glm::convertSRGBToLinear(c).x)); }
	count("sRGB" + sfx, n);
}
// ---- HSV, YCoCg (float), saturation, luminosity
template<class T> static void others(Rng& r, int n, const char* tn)
{
	std::string sfx = std::string("<") + tn + ">"; double tol = sizeof(T) == 4 ? 2e-5 : 1e-9;
	for (int i = 0; i < n; ++i) {
		glm::vec<3, T> c((T)r.real(0, 1), (T)r.real(0, 1), (T)r.real(0, 1)); if (i % 7 == 0) c = glm::vec<3, T>((T)(r.range(0, 8) / 8.0), (T)(r.range(0, 8) / 8.0), (T)(r.range(0, 8) / 8.0)); if (i % 11 == 0) c.y = c.x; if (i % 13 == 0) c.z = c.y;
		glm::vec<3, T> h = glm::hsvColor(c), back = glm::rgbColor(h); double mx = std::max((double)c.x, std::max((double)c.y, (double)c.z)), mn = std::min((double)c.x, std::min((double)c.y, (double)c.z));
		if (!(h.z >= 0 && h.z <= 1 && h.y >= 0 && h.y <= 1 && (mx == mn || (h.x >= 0 && h.x < (T)360.0001)))) tfail("hsvColor" + sfx, "range", v3(c), "h in [0,360), s,v in [0,1]", v3(h));
		if (nabs((double)h.z - mx) > 1e-7) tfail("hsvColor" + sfx, "value is not the maximum", v3(c), str(mx), str((double)h.z));
		if (mx - mn > 1e-3 && (nabs((double)back.x - (double)c.x) > tol * 5 || nabs((double)back.y - (double)c.y) > tol * 5 || nabs((double)back.z - (double)c.z) > tol * 5)) tfail("rgbColor" + sfx, "does not invert hsvColor", v3(c), v3(c), v3(back));
		// hues next to the sector boundaries 60 k (the largest value below, the boundary, the smallest above; 360 itself wraps to 0) against the
		// textbook HSV -> RGB formula in long double; near-pure primaries with one tiny component round trip through hue ~ 0 / 360
		if (i % 5 == 0) { int k = r.range(0, 6); T hb = (T)(60.0 * k), hs[3] = { std::nextafter(hb, (T)-1), hb, std::nextafter(hb, (T)1000) }; T sat = (T)r.real(0.2, 1), val = (T)r.real(0.2, 1);
			for (T hq : hs) { if (hq < 0 || hq > 360) continue; long double hp = (long double)hq / 60.0L; long double fl = floorl(hp); int sec = ((int)fl) % 6; long double f = hp - fl, v = val, sl = sat, pp = v * (1 - sl), qq = v * (1 - sl * f), tt = v * (1 - sl * (1 - f)), e[3];
				switch (sec) { case 0: e[0] = v; e[1] = tt; e[2] = pp; break; case 1: e[0] = qq; e[1] = v; e[2] = pp; break; case 2: e[0] = pp; e[1] = v; e[2] = tt; break; case 3: e[0] = pp; e[1] = qq; e[2] = v; break; case 4: e[0] = tt; e[1] = pp; e[2] = v; break; default: e[0] = v; e[1] = pp; e[2] = qq; }
				glm::vec<3, T> got = glm::rgbColor(glm::vec<3, T>(hq, sat, val)); if (nabs((double)(got.x - e[0])) > 2e-4 || nabs((double)(got.y - e[1])) > 2e-4 || nabs((double)(got.z - e[2])) > 2e-4) tfail("rgbColor" + sfx, "hue next to a sector boundary", v3(glm::vec<3, T>(hq, sat, val)), str((double)e[0]) + "," + str((double)e[1]) + "," + str((double)e[2]), v3(got)); }
			T tiny = (T)std::ldexp(1.0, -r.range(8, sizeof(T) == 4 ? 22 : 50)); glm::vec<3, T> nr((T)1, (T)0, tiny), nb = glm::rgbColor(glm::hsvColor(nr)); if (nabs((double)nb.x - 1) > tol * 5 || nabs((double)nb.y) > tol * 5 || nabs((double)nb.z - (double)tiny) > 2e-4) tfail("rgbColor" + sfx, "does not invert hsvColor near a pure primary", v3(nr), v3(nr), v3(nb)); }
		// hsv -> rgb -> hsv: hue over the full circle, sector boundaries included
		double hue = (i % 3 == 0) ? 60.0 * r.range(0, 5) + r.real(0, 1e-3) * (i % 2) : r.real(0, 359.99); glm::vec<3, T> hsv((T)hue, (T)r.real(0.05, 1), (T)r.real(0.05, 1)); glm::vec<3, T> rgb = glm::rgbColor(hsv), h2 = glm::hsvColor(rgb);
		if (!(rgb.x >= -1e-6 && rgb.x <= 1 + 1e-6 && rgb.y >= -1e-6 && rgb.y <= 1 + 1e-6 && rgb.z >= -1e-6 && rgb.z <= 1 + 1e-6)) tfail("rgbColor" + sfx, "outside the RGB cube", v3(hsv), "[0,1]^3", v3(rgb));
		double dh = std::fabs((double)h2.x - (double)hsv.x); dh = std::min(dh, 360.0 - dh); if (dh > (sizeof(T) == 4 ? 2e-2 : 1e-6) / (double)(hsv.y * hsv.z) || nabs((double)h2.y - (double)hsv.y) > tol * 20 || nabs((double)h2.z - (double)hsv.z) > tol) tfail("hsvColor" + sfx, "does not invert rgbColor", v3(hsv), v3(hsv), v3(h2));
		// YCoCg (floating)
		glm::vec<3, T> y = glm::rgb2YCoCg(c), yb = glm::YCoCg2rgb(y); if (nabs((double)y.x - ((double)c.x / 4 + (double)c.y / 2 + (double)c.z / 4)) > tol || nabs((double)y.y - ((double)c.x / 2 - (double)c.z / 2)) > tol || nabs((double)y.z - (-(double)c.x / 4 + (double)c.y / 2 - (double)c.z / 4)) > tol) tfail("rgb2YCoCg" + sfx, "matrix", v3(c), "", v3(y));
		if (nabs((double)yb.x - (double)c.x) > tol || nabs((double)yb.y - (double)c.y) > tol || nabs((double)yb.z - (double)c.z) > tol) tfail("YCoCg2rgb" + sfx, "does not invert rgb2YCoCg", v3(c), v3(c), v3(yb));
		glm::vec<3, T> yr = glm::YCoCgR2rgb(glm::rgb2YCoCgR(c)); if (nabs((double)yr.x - (double)c.x) > tol || nabs((double)yr.y - (double)c.y) > tol || nabs((double)yr.z - (double)c.z) > tol) tfail("YCoCgR2rgb" + sfx, "does not invert rgb2YCoCgR (floating)", v3(c), v3(c), v3(yr));
		// saturation / luminosity
		T s = (T)r.real(0, 2), grey = (T)r.real(0, 1); glm::vec<3, T> gs = glm::saturation(s, glm::vec<3, T>(grey)); if (nabs((double)gs.x - (double)grey) > 1e-6 || nabs((double)gs.y - (double)grey) > 1e-6 || nabs((double)gs.z - (double)grey) > 1e-6) tfail("saturation" + sfx, "grey level changed", str((double)grey) + " s=" + str((double)s), str((double)grey), v3(gs));
		glm::vec<3, T> s1 = glm::saturation((T)1, c); if (nabs((double)s1.x - (double)c.x) > 1e-6 || nabs((double)s1.y - (double)c.y) > 1e-6) tfail("saturation" + sfx, "s = 1 is not the identity", v3(c), v3(c), v3(s1));
		double lum = 0.2126 * (double)c.x + 0.7152 * (double)c.y + 0.0722 * (double)c.z; glm::vec<3, T> s0 = glm::saturation((T)0, c); if (nabs((double)s0.x - lum) > 1e-6 || nabs((double)s0.z - lum) > 1e-6) tfail("saturation" + sfx, "s = 0 is not the documented luminance", v3(c), str(lum), v3(s0));
		glm::vec<4, T> s4 = glm::saturation(s, glm::vec<4, T>(c, (T)0.37)); glm::vec<3, T> s3 = glm::saturation(s, c); if (s4.w != (T)0.37 || nabs((double)s4.x - (double)s3.x) > 1e-6) tfail("saturation" + sfx, "4-component overload", v3(c), "", "");
		double lw = 0.33 * (double)c.x + 0.59 * (double)c.y + 0.11 * (double)c.z; if (nabs((double)glm::luminosity(c) - lw) > 1e-6) tfail("luminosity" + sfx, "documented weights", v3(c), str(lw), str((double)glm::luminosity(c)));
		if (grey > (T)0.01 && nabs((double)glm::luminosity(glm::vec<3, T>(grey)) - (double)grey) > 1e-5) tfail("luminosity" + sfx, "grey level changed (the documented weights sum to 1.03)", str((double)grey), str((double)grey), str((double)glm::luminosity(glm::vec<3, T>(grey))));
	}
	count("HSV / YCoCg / saturation / luminosity" + sfx, n);
}
int main(int argc, char** argv)
{
	uint64_t seed = argc > 2 ? std::strtoull(argv[2], 0, 10) : 1; bool thorough = argc > 3 && std::string(argv[3]) == "thorough"; Rng r(seed * 17 + 9);
	ycocgr_all(thorough);
	srgb<float>(r, thorough ? 2000000 : 60000, "float"); srgb<double>(r, thorough ? 2000000 : 60000, "double"); srgb_lowp(r, thorough ? 2000000 : 60000);
	others<float>(r, thorough ? 2000000 : 60000, "float"); others<double>(r, thorough ? 2000000 : 60000, "double");
	return finish();
}
