// oracle_C14.cpp -- violation search for C14: integer arithmetic on the IEEE total order (rank) versus GLM's ULP functions,
// and plain scalar arithmetic versus the epsilon comparisons of every overload.   usage: oracle_C14 sweep <seed> <tier>
// rank(x) = sign-magnitude pattern mapped to one ordered integer line (+0 and -0 both 0).
// Conventions (never reported): nextFloat(+max), prevFloat(-max) (no finite neighbour); NaN / infinite arguments;
// distances that do not fit the result type.
// Epsilon comparisons: the expected value is |fl(x - y)| <= epsilon computed here in the same floating type (the one
// subtraction GLM performs rounds; exact on the grid cases); the boundary |x - y| == epsilon is generated on purpose.
#define GLM_ENABLE_EXPERIMENTAL
#include <glm/glm.hpp>
#include <glm/ext/scalar_ulp.hpp>
#include <glm/ext/vector_ulp.hpp>
#include <glm/gtc/ulp.hpp>
#include <glm/ext/scalar_relational.hpp>
#include <glm/ext/vector_relational.hpp>
#include <glm/ext/matrix_relational.hpp>
#include <glm/ext/quaternion_relational.hpp>
#include <glm/gtc/quaternion.hpp>
#include <glm/gtc/epsilon.hpp>
#include "oracle_common.hpp"
#include <thread>
#include <mutex>
#include <atomic>
using namespace orc;
static std::mutex g_mu;
static void tfail(std::string const& fn, std::string const& cls, std::string const& in, std::string const& ex, std::string const& got) { std::lock_guard<std::mutex> l(g_mu); fail(fn, cls, in, ex, got); }
typedef __int128 i128;
template<class F> struct FI;
template<> struct FI<float> { typedef uint32_t U; typedef int D; static const int mb = 23, w = 32; static const char* nm() { return "float"; } };
template<> struct FI<double> { typedef uint64_t U; typedef glm::int64 D; static const int mb = 52, w = 64; static const char* nm() { return "double"; } };
template<class F> static typename FI<F>::U bits(F f) { typename FI<F>::U u; std::memcpy(&u, &f, sizeof u); return u; }
template<class F> static F val(typename FI<F>::U u) { F f; std::memcpy(&f, &u, sizeof u); return f; }
template<class F> static i128 rank(F f) { typedef typename FI<F>::U U; U u = bits(f), s = (U)1 << (FI<F>::w - 1); return (u & s) ? -(i128)(u & (U)~s) : (i128)u; }
template<class F> static i128 maxrank() { return rank<F>(std::numeric_limits<F>::max()); }
template<class F> static std::string fin(F x) { return std::string(FI<F>::nm()) + " " + hex((uint64_t)bits(x)) + " (" + str(x) + ")"; }
static std::string s128(i128 v) { bool neg = v < 0; unsigned __int128 u = neg ? (unsigned __int128)(-v) : (unsigned __int128)v; std::string s; do { s.insert(s.begin(), char('0' + (int)(u % 10))); u /= 10; } while (u); return neg ? "-" + s : s; }

template<class F> static void one_arg(F x, bool vec)
{
	if (!std::isfinite(x)) return; i128 r = rank(x), M = maxrank<F>();
	if (r < M) { F n = glm::nextFloat(x); if (!(std::isfinite(n) && rank(n) == r + 1)) tfail("nextFloat", r < 0 ? "negative" : (r == 0 ? "zero" : "positive"), fin(x), "rank " + s128(r + 1), fin(n)); }
	if (r > -M) { F p = glm::prevFloat(x); if (!(std::isfinite(p) && rank(p) == r - 1)) tfail("prevFloat", r < 0 ? "negative" : (r == 0 ? "zero" : "positive"), fin(x), "rank " + s128(r - 1), fin(p)); }
	// the GLM_GTC_ulp spelling (separate bodies in gtc/ulp.inl)
	if (r < M) { F n = glm::next_float(x); if (!(std::isfinite(n) && rank(n) == r + 1)) tfail("next_float(gtc)", r < 0 ? "negative" : (r == 0 ? "zero" : "positive"), fin(x), "rank " + s128(r + 1), fin(n)); }
	if (r > -M) { F p = glm::prev_float(x); if (!(std::isfinite(p) && rank(p) == r - 1)) tfail("prev_float(gtc)", r < 0 ? "negative" : (r == 0 ? "zero" : "positive"), fin(x), "rank " + s128(r - 1), fin(p));
		else { auto dg = glm::float_distance(x, p); if ((i128)dg != 1) tfail("float_distance(gtc)", (r > 0 && r - 1 < 0) || r == 0 ? "across zero" : "same sign", fin(x) + " , prev_float(x)", "1", str((long long)dg)); } }
	if (vec) {
		glm::vec<3, F> v((F)1, x, (F)-2);
		if (r < M && bits(glm::nextFloat(v).y) != bits(glm::nextFloat(x))) tfail("nextFloat", "vector overload differs from scalar", fin(x), "", "");
		if (r > -M && bits(glm::prevFloat(v).y) != bits(glm::prevFloat(x))) tfail("prevFloat", "vector overload differs from scalar", fin(x), "", "");
	}
}
template<class F> static void n_steps(F x, int n)
{
	typedef typename FI<F>::D D; if (!std::isfinite(x)) return; i128 r = rank(x), M = maxrank<F>();
	if (r + n <= M) { F y = glm::nextFloat(x, n); if (!(std::isfinite(y) && rank(y) == r + n)) tfail("nextFloat_n", "n steps", fin(x) + " n=" + str(n), "rank " + s128(r + n), fin(y));
		D d = glm::floatDistance(x, y); if ((i128)d != n) tfail("floatDistance", (r < 0 && r + n > 0) ? "across zero" : "same sign", fin(x) + " , nextFloat(x," + str(n) + ")", str(n), str((long long)d));
		glm::vec<2, F> v(x, (F)1); if (bits(glm::nextFloat(v, n).x) != bits(y) || bits(glm::nextFloat(v, glm::ivec2(n, 0)).x) != bits(y)) tfail("nextFloat_n", "vector overload differs from scalar", fin(x), "", ""); }
	if (r - n >= -M) { F y = glm::prevFloat(x, n); if (!(std::isfinite(y) && rank(y) == r - n)) tfail("prevFloat_n", "n steps", fin(x) + " n=" + str(n), "rank " + s128(r - n), fin(y));
		D d = glm::floatDistance(x, y); if ((i128)d != n) tfail("floatDistance", (r > 0 && r - n < 0) ? "across zero" : "same sign", fin(x) + " , prevFloat(x," + str(n) + ")", str(n), str((long long)d));
		glm::vec<2, F> v(x, (F)1); if (bits(glm::prevFloat(v, n).x) != bits(y) || bits(glm::prevFloat(v, glm::ivec2(n, 0)).x) != bits(y)) tfail("prevFloat_n", "vector overload differs from scalar", fin(x), "", ""); }
}
template<class F> static void two_arg(F x, F y, int ulps)
{
	typedef typename FI<F>::D D; if (!std::isfinite(x) || !std::isfinite(y)) return; i128 rx = rank(x), ry = rank(y), d = rx > ry ? rx - ry : ry - rx;
	std::string in = fin(x) + " , " + fin(y) + " ulps=" + str(ulps); bool opp = std::signbit(x) != std::signbit(y);
	if (d < ((i128)1 << (FI<F>::w - 1))) { D g = glm::floatDistance(x, y); if ((i128)g != d) tfail("floatDistance", opp ? "across zero" : "same sign", in, s128(d), str((long long)g));
		glm::vec<2, F> a(x, (F)1), b(y, (F)3); if ((i128)glm::floatDistance(a, b).x != (i128)g) tfail("floatDistance", "vector overload differs from scalar", in, "", ""); }
	bool e = d <= (i128)ulps;
	if (glm::equal(x, y, ulps) != e) tfail("equal_ULPs", opp ? "scalar overload, arguments of opposite sign" : "scalar overload", in, str(e), str(glm::equal(x, y, ulps)));
	if (glm::notEqual(x, y, ulps) != !e) tfail("notEqual_ULPs", opp ? "scalar overload, arguments of opposite sign" : "scalar overload", in, str(!e), str(glm::notEqual(x, y, ulps)));
	glm::vec<3, F> a((F)1, x, (F)-2), b((F)1, y, (F)-2);
	bool z = 0 <= ulps;      // the other components are identical: distance 0
	if (glm::equal(a, b, ulps) != glm::bvec3(z, e, z) || glm::equal(a, b, glm::ivec3(0, ulps, 0)) != glm::bvec3(true, e, true)) tfail("equal_ULPs", opp ? "vector overload, arguments of opposite sign" : "vector overload", in, str(e), str(glm::equal(a, b, ulps).y));
	if (glm::notEqual(a, b, ulps) != glm::bvec3(!z, !e, !z) || glm::notEqual(a, b, glm::ivec3(0, ulps, 0)) != glm::bvec3(false, !e, false)) tfail("notEqual_ULPs", opp ? "vector overload, arguments of opposite sign" : "vector overload", in, str(!e), "");
	glm::mat<3, 2, F> ma((F)1, (F)2, (F)3, (F)4, (F)5, (F)6), mb(ma); ma[1][1] = x; mb[1][1] = y;
	if (glm::equal(ma, mb, ulps) != glm::bvec3(z, e && z, z) || glm::equal(ma, mb, glm::ivec3(0, ulps, 0)) != glm::bvec3(true, e && z, true)) tfail("equal_ULPs", opp ? "matrix overload, arguments of opposite sign" : "matrix overload", in, str(e), "");
	if (glm::notEqual(ma, mb, ulps) != glm::bvec3(!z, !(e && z), !z)) tfail("notEqual_ULPs", opp ? "matrix overload, arguments of opposite sign" : "matrix overload", in, str(!e), "");
}
template<class F> static void eps_cmp(F x, F y, F eps)
{
	if (!std::isfinite(x) || !std::isfinite(y) || !std::isfinite(eps)) return;
	volatile F diff = x - y; F ad = std::fabs(diff); bool le = ad <= eps; bool boundary = ad == eps;
	std::string in = fin(x) + " , " + fin(y) + " eps=" + str(eps);
	if (glm::equal(x, y, eps) != le) tfail("equal_epsilon", "scalar", in, str(le), str(glm::equal(x, y, eps)));
	if (glm::notEqual(x, y, eps) != !le) tfail("notEqual_epsilon", "scalar", in, str(!le), str(glm::notEqual(x, y, eps)));
	const char* bc = boundary ? "|x - y| == epsilon (strict comparison)" : "scalar";
	if (glm::epsilonEqual(x, y, eps) != le) tfail("epsilonEqual", bc, in, str(le), str(glm::epsilonEqual(x, y, eps)));
	if (glm::epsilonNotEqual(x, y, eps) != !le) tfail("epsilonNotEqual", bc, in, str(!le), str(glm::epsilonNotEqual(x, y, eps)));
	// vector / matrix / quaternion overloads: component k carries (x, y); the others are equal, so only k may differ
	F big = eps < 0 ? (F)0 : eps; (void)big;
	for (int k = 0; k < 4; ++k) {
		glm::vec<4, F> a((F)1, (F)2, (F)3, (F)4), b(a), ev((F)1000); a[k] = x; b[k] = y; ev[k] = eps; glm::bvec4 want(true); want[k] = le; glm::bvec4 nwant(false); nwant[k] = !le;
		glm::vec<4, F> es(eps); glm::bvec4 wants(eps >= 0), nwants(!(eps >= 0)); wants[k] = le; nwants[k] = !le;   // scalar epsilon applies to every component (the others differ by 0)
		if (glm::equal(a, b, ev) != want) tfail("equal_epsilon", "vector, per-component epsilon", in + " k=" + str(k), str(le), "");
		if (glm::notEqual(a, b, ev) != nwant) tfail("notEqual_epsilon", "vector, per-component epsilon", in + " k=" + str(k), str(!le), "");
		if (glm::equal(a, b, eps) != wants) tfail("equal_epsilon", "vector, scalar epsilon", in + " k=" + str(k), str(le), "");
		if (glm::notEqual(a, b, eps) != nwants) tfail("notEqual_epsilon", "vector, scalar epsilon", in + " k=" + str(k), str(!le), "");
		bool strict0 = (F)0 < eps;     // the other components: |0| < eps
		glm::bvec4 sw(strict0), snw(!strict0); sw[k] = boundary ? false : le; snw[k] = boundary ? true : !le;
		if (!boundary) { if (glm::epsilonEqual(a, b, eps) != sw) tfail("epsilonEqual", "vector", in + " k=" + str(k), str(le), ""); if (glm::epsilonNotEqual(a, b, eps) != snw) tfail("epsilonNotEqual", "vector", in + " k=" + str(k), str(!le), ""); }
		else { glm::bvec4 pw(strict0); pw[k] = true; if (glm::epsilonEqual(a, b, eps) != pw && eps > 0) tfail("epsilonEqual", "|x - y| == epsilon (strict comparison)", in + " k=" + str(k), "true", "false"); }
		// quaternion: component k in x,y,z,w order
		glm::qua<F> qa = glm::qua<F>::wxyz(a[3], a[0], a[1], a[2]), qb = glm::qua<F>::wxyz(b[3], b[0], b[1], b[2]);
		// (the quaternion overloads are strict in the other components too: |0| < epsilon)
		{ glm::bvec4 qw(strict0), qnw(!strict0); qw[k] = le; qnw[k] = !le; const char* qc = boundary ? "quaternion, |x - y| == epsilon (strict comparison)" : "quaternion";
		  if (glm::equal(qa, qb, eps) != qw) tfail("equal_epsilon", qc, in + " k=" + str(k), str(le), str(glm::equal(qa, qb, eps)[k]));
		  if (glm::notEqual(qa, qb, eps) != qnw) tfail("notEqual_epsilon", qc, in + " k=" + str(k), str(!le), str(glm::notEqual(qa, qb, eps)[k])); }
		if (!boundary && glm::epsilonEqual(qa, qb, eps) != sw) tfail("epsilonEqual", "quaternion", in + " k=" + str(k), str(le), "");
	}
	{ glm::mat<2, 3, F> ma((F)1, (F)2, (F)3, (F)4, (F)5, (F)6), mb(ma); ma[1][2] = x; mb[1][2] = y; bool z = eps >= 0;
	  if (glm::equal(ma, mb, eps) != glm::bvec2(z, le && z) || glm::equal(ma, mb, glm::vec<2, F>((F)1000, eps)) != glm::bvec2(true, le && z)) tfail("equal_epsilon", "matrix", in, str(le), "");
	  if (glm::notEqual(ma, mb, eps) != glm::bvec2(!z, !(le && z))) tfail("notEqual_epsilon", "matrix", in, str(!le), ""); }
}
template<class F> static typename FI<F>::U pick(Rng& r, int i) {
	typedef typename FI<F>::U U; const int mb = FI<F>::mb, w = FI<F>::w; U sign = (U)(r.next() & 1) << (w - 1); U expmax = ((U)1 << (w - 1 - mb)) - 1; U m;
	switch (i % 10) { case 0: m = 0; break; case 1: m = 1 + r.next() % 4; break; case 2: m = ((U)1 << mb) - 1 - r.next() % 3; break; case 3: m = ((U)1 << mb) + r.next() % 3; break;
	case 4: { U e = 1 + r.next() % (expmax - 1); m = (e << mb) + r.next() % 3; break; } case 5: { U e = 1 + r.next() % (expmax - 1); m = (e << mb) - 1 - r.next() % 3; break; }
	case 6: m = (expmax << mb) - 1 - r.next() % 3; break; case 7: { F one = 1; m = bits(one) + r.next() % 70; break; } default: m = (U)r.next() % (expmax << mb); }
	return sign | m; }
template<class F> static void run(Rng& r, int n)
{
	typedef typename FI<F>::U U; const U sbit = (U)1 << (FI<F>::w - 1);
	// every binade boundary with its neighbours, both signs
	{ const int mb = FI<F>::mb; U expmax = ((U)1 << (FI<F>::w - 1 - mb)) - 1; for (U e = 0; e < expmax; ++e) for (int d = -2; d <= 2; ++d) for (int s = 0; s < 2; ++s) { U m = (e << mb) + (U)d; if (e == 0 && d < 0) continue; U p = (s ? sbit : 0) | m; F x = val<F>(p); one_arg<F>(x, true); n_steps<F>(x, 3); two_arg<F>(x, val<F>(p ^ sbit), 2); } count(std::string("binade boundaries<") + FI<F>::nm() + ">", (long)expmax * 10); }
	for (int i = 0; i < n; ++i) {
		F x = val<F>(pick<F>(r, i)); one_arg<F>(x, true); int k = r.range(0, 64); n_steps<F>(x, k);
		F y; int d = r.range(0, 64);
		if (i % 3) { y = x; bool up = r.next() & 1; for (int s = 0; s < d; ++s) y = up ? std::nextafter(y, std::numeric_limits<F>::infinity()) : std::nextafter(y, -std::numeric_limits<F>::infinity()); }
		else y = val<F>(pick<F>(r, i + 3));
		if (i % 7 == 0) y = -x;
		int ulps = r.range(-2, 70); if (i % 5 == 0) ulps = d; if (i % 11 == 0) ulps = d - 1;
		two_arg<F>(x, y, ulps);
		// epsilon: grid values (exact subtraction) with the boundary hit on purpose, and generic values
		F gx = (F)r.range(-2000, 2000) / (F)64, gy = (F)r.range(-2000, 2000) / (F)64, ge = (F)r.range(0, 300) / (F)64; if (i % 3 == 0) ge = std::fabs(gx - gy); if (i % 13 == 0) ge = -ge;
		eps_cmp<F>(gx, gy, ge);
		F ux = (F)r.real(-10, 10), uy = ux + (F)r.real(-0.01, 0.01), ue = (F)r.real(0, 0.01); eps_cmp<F>(ux, uy, ue);
	}
	count(std::string("structured values<") + FI<F>::nm() + ">", n);
}
int main(int argc, char** argv)
{
	uint64_t seed = argc > 2 ? std::strtoull(argv[2], 0, 10) : 1; bool thorough = argc > 3 && std::string(argv[3]) == "thorough"; Rng r(seed * 31 + 7);
	run<float>(r, thorough ? 1000000 : 60000); run<double>(r, thorough ? 1000000 : 60000);
	// one-argument functions over the floats: complete enumeration (thorough), every 1021st pattern plus a random offset (quick)
	{ uint64_t stride = thorough ? 1 : 1021, off = thorough ? 0 : r.next() % 1021; std::vector<std::thread> th; std::atomic<long> cnt(0);
	  for (int t = 0; t < 16; ++t) th.emplace_back([t, stride, off, &cnt]() { long c = 0; for (uint64_t u = off + (uint64_t)t * stride; u < (1ull << 32); u += 16 * stride) { float x = val<float>((uint32_t)u); one_arg<float>(x, false); ++c; } cnt += c; });
	  for (auto& x : th) x.join(); count(thorough ? "nextFloat/prevFloat over all 2^32 float patterns" : "nextFloat/prevFloat over every 1021st float pattern", cnt.load()); }
	return finish();
}
