#!/bin/bash
# usage: tools/confirm_seed.sh <dir with patch.diff demo.cpp meta.json> <name>   -- confirms a seeded change in a scratch worktree
# prints: applies=yes/no suite=N/185 demo_with=FAIL/PASS demo_without=PASS/FAIL
set -u
# BASE=<commit> (default: the pinned commit 1e4eb61); seeds made on the repaired tree are confirmed with BASE=HEAD
D=$1; NAME=$2; BASE=${BASE:-1e4eb61}; WT=/tmp/confirm_wt; if [ "$BASE" != "1e4eb61" ]; then WT=/tmp/confirm_wt_head; if [ -d $WT ]; then git -C $WT checkout -q --detach $(git -C /repo rev-parse $BASE) 2>/dev/null; fi; fi
if [ ! -d $WT ]; then git -C /repo worktree add --detach $WT $BASE >/dev/null 2>&1; (cd $WT && cmake -G Ninja -B _build -S . -DCMAKE_BUILD_TYPE=RelWithDebInfo -DCMAKE_CXX_FLAGS=-Wno-error -DGLM_BUILD_TESTS=ON >/dev/null); fi
cd $WT && git checkout -q -- . 
BUILD=$(python3 -c "import json,sys; print(json.load(open('$D/meta.json')).get('demo_build_cmd',''))")
# extract -D / -m / -std flags from the recorded demo build command
FLAGS=$(echo "$BUILD" | tr ' ' '\n' | grep -E '^-(D[A-Za-z_0-9=]+|m[a-z0-9.]+|std=[a-z+0-9]+|O[0-3s])$' | tr '\n' ' ')
if git apply --check $D/patch.diff 2>/dev/null; then AP=yes; else AP=no; fi
git apply $D/patch.diff 2>/dev/null
rm -rf _build; cmake -G Ninja -B _build -S . -DCMAKE_BUILD_TYPE=RelWithDebInfo -DCMAKE_CXX_FLAGS=-Wno-error -DGLM_BUILD_TESTS=ON >/dev/null 2>&1; cmake --build _build -j16 >/tmp/confirm_build.log 2>&1; BRC=$?
SUITE=$(ctest --test-dir _build -j16 2>&1 | grep -oE "[0-9]+% tests passed, [0-9]+ tests failed out of [0-9]+")
g++ $FLAGS -w -I$WT $D/demo.cpp -o /tmp/confirm_demo 2>/tmp/confirm_demo.err; DRC=$?
/tmp/confirm_demo >/tmp/confirm_with.out 2>&1; W=$?
git checkout -q -- .
g++ $FLAGS -w -I$WT $D/demo.cpp -o /tmp/confirm_demo 2>>/tmp/confirm_demo.err
/tmp/confirm_demo >/tmp/confirm_without.out 2>&1; WO=$?
echo "$NAME applies=$AP build_rc=$BRC suite=[$SUITE] demo_compile_rc=$DRC flags=[$FLAGS] demo_with_patch_rc=$W demo_without_patch_rc=$WO"
