# /verif/Makefile -- `make setup` builds the stable Coq library (coq/lib) and the extracted models.
COQLIBV := $(wildcard coq/lib/*.v) $(wildcard coq/models/*.v)
.PHONY: setup clean
setup: coq/lib/.built coq/extract/corr_model

coq/lib/.built: $(COQLIBV) coq/_CoqProject
	cd coq && coq_makefile -f _CoqProject -o Makefile.coq
	cd coq && $(MAKE) -f Makefile.coq -j16
	touch $@

# extraction of the hand-written models (ExtrOcamlBasic only) and the model side of the correspondence check
coq/extract/corr_model: coq/lib/.built coq/extract/Extract.v tools/corr/corr_driver.ml
	cd coq/extract && coqc -Q ../lib GLMV -Q ../models GLMM Extract.v
	cd coq/extract && ocamlfind ocamlopt -w -a -I . models.mli models.ml ../../tools/corr/corr_driver.ml -o corr_model

clean:
	rm -rf _work coq/extract/corr_model coq/extract/models.* coq/extract/*.cm* coq/extract/*.o coq/models/*.vo coq/lib/*.vo coq/lib/*.vok coq/lib/*.vos coq/lib/*.glob coq/lib/.*.aux coq/lib/.built coq/Makefile.coq coq/Makefile.coq.conf
