# /verif/Makefile -- `make setup` builds the stable Coq library (coq/lib) and the extracted models.
COQLIBV := $(wildcard coq/lib/*.v)
.PHONY: setup clean
setup: coq/lib/.built

coq/lib/.built: $(COQLIBV) coq/_CoqProject
	cd coq && coq_makefile -f _CoqProject -o Makefile.coq
	cd coq && $(MAKE) -f Makefile.coq -j16
	touch $@

clean:
	rm -rf _work coq/lib/*.vo coq/lib/*.vok coq/lib/*.vos coq/lib/*.glob coq/lib/.*.aux coq/lib/.built coq/Makefile.coq coq/Makefile.coq.conf
