"""Engine of /verif/check: regenerate models from /repo, prove, correspond, search, report.

Every check of a property P runs in /verif/_work/<P>/ and writes /verif/evidence/<P>.json.
See DESIGN.md section 4.1.
"""
import os, sys, re, json, time, shutil, subprocess, fcntl, hashlib, glob, shlex
from concurrent.futures import ThreadPoolExecutor

VERIF = os.path.dirname(os.path.dirname(os.path.abspath(__file__)))
REPO = os.environ.get("VERIF_REPO", "/repo")
COQLIB = os.path.join(VERIF, "coq", "lib")
WORK = os.path.join(VERIF, "_work")
TRACE = os.path.join(VERIF, "tools", "trace")
CXX = os.environ.get("VERIF_CXX", "g++")
JOBS = int(os.environ.get("VERIF_JOBS", "16"))


def sh(cmd, cwd=None, timeout=None, env=None):
    """run a command, return (rc, stdout, stderr, seconds); rc=124 on timeout"""
    t0 = time.time()
    try:
        p = subprocess.run(cmd, cwd=cwd, timeout=timeout, env=env, stdout=subprocess.PIPE, stderr=subprocess.PIPE,
                           shell=isinstance(cmd, str), text=True, errors="replace")
        return p.returncode, p.stdout, p.stderr, time.time() - t0
    except subprocess.TimeoutExpired as e:
        out = e.stdout if isinstance(e.stdout, str) else (e.stdout or b"").decode(errors="replace")
        err = e.stderr if isinstance(e.stderr, str) else (e.stderr or b"").decode(errors="replace")
        return 124, out, err + "\nTIMEOUT after %ss" % timeout, time.time() - t0


def ensure_setup(log=None):
    """build the stable Coq library + extracted models once (idempotent, locked)"""
    os.makedirs(WORK, exist_ok=True)
    with open(os.path.join(WORK, ".setup.lock"), "w") as lk:
        fcntl.flock(lk, fcntl.LOCK_EX)
        rc, out, err, dt = sh(["make", "-C", VERIF, "setup"], timeout=3000)
        if log:
            log.write("== setup rc=%d %.1fs\n%s\n%s\n" % (rc, dt, out[-3000:], err[-3000:]))
        fcntl.flock(lk, fcntl.LOCK_UN)
    return rc == 0, (out + err)[-4000:]


class Run:
    """state of one check run of one property"""

    def __init__(self, pid, tier, seed):
        self.pid, self.tier, self.seed = pid, tier, seed
        self.dir = os.path.join(WORK, pid)
        shutil.rmtree(self.dir, ignore_errors=True)
        os.makedirs(self.dir)
        os.makedirs(os.path.join(self.dir, "replays"))
        self.log = open(os.path.join(self.dir, "run.log"), "w")
        self.t0 = time.time()
        self.obligations = []      # (name, ok, detail)
        self.broken = []           # descriptions of proof obligations / correspondences that no longer check
        self.fails = []            # concrete failing inputs from oracles: dicts
        self.known = []            # KNOWN-FINDING lines to print
        self.axioms = set()
        self.trusted = []
        self.samples = []
        self.cov = {}              # extra coverage keys
        self.assumptions = []
        self.notes = []

    def say(self, *a):
        msg = " ".join(str(x) for x in a)
        print(msg, flush=True)
        self.log.write(msg + "\n"); self.log.flush()

    def logonly(self, *a):
        self.log.write(" ".join(str(x) for x in a) + "\n"); self.log.flush()

    # ------------------------------------------------------------------ T1: trace programs
    def build_trace(self, tu, module, flags=(), std="gnu++17", extra_env=None, trials=None, inc_first=()):
        """compile tools/trace/<tu>.cpp against /repo, run it -> <dir>/<module>.v ; returns stats dict"""
        exe = os.path.join(self.dir, module + ".bin")
        src = os.path.join(TRACE, tu + ".cpp")
        cmd = [CXX, "-std=" + std, "-O1", "-ffp-contract=off", "-w", "-I" + os.path.join(TRACE, "shim"), "-I" + TRACE] + ["-I" + d for d in inc_first] + ["-I" + REPO] + list(flags) + [src, "-o", exe]
        rc, out, err, dt = sh(cmd, timeout=900)
        self.logonly("== compile", " ".join(cmd), "rc=%d %.1fs" % (rc, dt))
        if rc != 0:
            self.logonly(err[-6000:])
            self.broken.append({"what": "trace program %s does not compile against /repo (API change or ill-formed overload)" % tu, "detail": err[-3000:]})
            return None
        env = dict(os.environ); env["VERIF_SEED"] = str(self.seed)
        if trials: env["VT_TRIALS"] = str(trials)
        if extra_env: env.update(extra_env)
        vfile = os.path.join(self.dir, module + ".v"); lfile = os.path.join(self.dir, module + ".tracelog")
        rc, out, err, dt = sh([exe, vfile, lfile], timeout=900, env=env)
        self.logonly("== run trace", module, "rc=%d %.1fs" % (rc, dt), err[-2000:])
        if rc != 0 or not os.path.exists(lfile):
            self.broken.append({"what": "trace program %s crashed (rc=%d)" % (tu, rc), "detail": err[-3000:]})
            return None
        txt = open(lfile).read()
        st = {}
        m = re.search(r"STATS (.*)", txt)
        if m:
            for kv in m.group(1).split():
                k, v = kv.split("="); st[k] = int(v)
        st["aborts"] = re.findall(r"^ABORT (\S+) : (.*)$", txt, re.M)
        st["mismatch_lines"] = re.findall(r"^MISMATCH .*$", txt, re.M)
        st["module"] = module
        for ml in st["mismatch_lines"][:20]:
            self.logonly(ml)
        if st["mismatch_lines"]:
            self.broken.append({"what": "translator self-validation: traced model of %s disagrees with the real scalar instantiation" % module, "detail": "\n".join(st["mismatch_lines"][:10])})
        return st

    # ------------------------------------------------------------------ Coq
    def coqc(self, vfile, timeout=900):
        cmd = ["coqc", "-q", "-Q", COQLIB, "GLMV", "-Q", os.path.join(VERIF, "coq", "models"), "GLMM", "-Q", self.dir, "W", vfile]
        rc, out, err, dt = sh(cmd, cwd=self.dir, timeout=timeout)
        self.logonly("== coqc %s rc=%d %.1fs" % (os.path.basename(vfile), rc, dt))
        if rc != 0:
            self.logonly(err[-4000:])
        return rc == 0, out, err, dt

    def stage(self, relpaths):
        """copy proof sources from /verif/coq/props into the work dir; returns destination paths"""
        dst = []
        for r in relpaths:
            s = os.path.join(VERIF, "coq", "props", r)
            d = os.path.join(self.dir, os.path.basename(r))
            shutil.copyfile(s, d); dst.append(d)
        return dst

    def coq_parallel(self, files, timeout=900):
        res = {}
        with ThreadPoolExecutor(max_workers=JOBS) as ex:
            futs = {f: ex.submit(self.coqc, f, timeout) for f in files}
            for f, fu in futs.items():
                res[f] = fu.result()
        return res

    @staticmethod
    def theorems_in(vfile):
        txt = open(vfile).read()
        txt = re.sub(r"\(\*.*?\*\)", "", txt, flags=re.S)
        return re.findall(r"^\s*(?:Theorem|Lemma|Corollary|Example)\s+([A-Za-z0-9_']+)", txt, re.M)

    @staticmethod
    def failing_lemma(vfile, err):
        """name of the Lemma/Theorem enclosing the error position reported by coqc"""
        m = re.search(r'line (\d+), characters', err)
        if not m: return None
        line = int(m.group(1)); name = None
        for i, l in enumerate(open(vfile).read().split("\n"), 1):
            mm = re.match(r"\s*(?:Theorem|Lemma|Corollary|Example|Definition|Fixpoint)\s+([A-Za-z0-9_']+)", l)
            if mm and i <= line: name = mm.group(1)
        return name

    def collect_axioms(self, out):
        # Print Assumptions output: "Closed under the global context" or "Axioms:" followed by "Qualified.name : type"
        for m in re.finditer(r"^([A-Z][A-Za-z0-9_']*(?:\.[A-Za-z0-9_']+)+)\s*(?::|$)", out, re.M):
            self.axioms.add(m.group(1))

    def prove(self, gens, libs, proofs, props, timeout=900, hook=None):
        """gens: generated .v (absolute, already in work dir); libs: staged sequentially; proofs: staged, parallel;
        props: the Properties file (only statements + exact).  Records obligations.
        hook: called after the libs are compiled; returns further proof files it generated in the work dir."""
        ok_all = True
        res = self.coq_parallel(gens, timeout)
        for f, (ok, out, err, dt) in res.items():
            if not ok:
                ok_all = False
                self.broken.append({"what": "generated model %s is not accepted by Coq" % os.path.basename(f), "detail": err[-2000:]})
        failed_lemmas = []
        for f in self.stage(libs):
            ok, out, err, dt = self.coqc(f, timeout)
            if not ok:
                ok_all = False
                nm = self.failing_lemma(f, err)
                failed_lemmas.append(nm or os.path.basename(f))
                self.broken.append({"what": "lemma %s in %s no longer checks" % (nm, os.path.basename(f)), "detail": err[-2000:]})
        pf = self.stage(proofs)
        if hook is not None: pf = pf + list(hook())
        res = self.coq_parallel(pf, timeout)
        bad_files = []
        for f in pf:
            ok, out, err, dt = res[f]
            if not ok:
                ok_all = False; bad_files.append(f)
                nm = self.failing_lemma(f, err)
                failed_lemmas.append(nm or os.path.basename(f))
                self.broken.append({"what": "proof obligation %s (%s) no longer checks against the regenerated model" % (nm, os.path.basename(f)), "detail": err[-2500:]})
        pr = self.stage([props])[0]
        thms = self.theorems_in(pr)
        ok, out, err, dt = self.coqc(pr, timeout)
        if ok:
            self.collect_axioms(out)
            for t in thms: self.obligations.append((t, True, ""))
        else:
            ok_all = False
            # a theorem is discharged only if the whole file checks; attribute failures
            bad_thms = set()
            txt = open(pr).read()
            badmods = [os.path.splitext(os.path.basename(b))[0] for b in bad_files]
            for t in thms:
                m = re.search(r"(?:Theorem|Lemma|Corollary|Example)\s+%s\b.*?Qed\." % re.escape(t), txt, re.S)
                body = m.group(0) if m else ""
                if any(fl and re.search(r"\b%s\b" % re.escape(fl), body) for fl in failed_lemmas) or any(b in body for b in badmods):
                    bad_thms.add(t)
            nm = self.failing_lemma(pr, err)
            if not bad_thms and nm: bad_thms.add(nm)
            if not bad_thms: bad_thms = set(thms)
            for t in thms: self.obligations.append((t, t not in bad_thms, "" if t not in bad_thms else "depends on a failing lemma"))
            if not (bad_files or failed_lemmas):
                self.broken.append({"what": "property theorem %s no longer checks" % nm, "detail": err[-2500:]})
        return ok_all

    # ------------------------------------------------------------------ counter-models from Coq, replayed on the implementation
    def coq_eval(self, name, text, timeout=600):
        """compile a scratch .v in the work dir and return coqc's stdout (used to print failing entries)"""
        f = os.path.join(self.dir, name + ".v")
        open(f, "w").write(text)
        ok, out, err, dt = self.coqc(f, timeout)
        return out if ok else ""

    def tag_search(self, coq_text, bins, cls="selection"):
        """coq_text must `Eval vm_compute` a list (entry name, option (list (option Z))) of entries whose theorem fails,
        with the values the SPECIFICATION prescribes on the tag inputs (component i of argument a = 10(a+1)+i+1).
        Each is replayed on the real instantiation (trace binary --replay); disagreements become failing inputs."""
        out = self.coq_eval("Fail_" + self.pid, coq_text)
        out = re.sub(r"\s+", " ", out)
        found = []
        for m in re.finditer(r'\("([A-Za-z0-9_]+)",\s*(Some \[([^\]]*)\]|None)\)', out):
            name, spec = m.group(1), m.group(3)
            exp = None
            if spec is not None:
                exp = [None if "None" in x else int(re.sub(r"[^0-9-]", "", x)) for x in spec.split(";") if x.strip()]
            found.append((name, exp))
        self.cov["model_level_failing_entries"] = [n for n, _ in found][:50]
        fails = []
        for name, exp in found[:12]:
            got = None
            for b in bins:
                rc, o, e, dt = sh([b, "--replay", name], timeout=60)
                mm = re.search(r"REPLAY \S+ outputs=\[([^\]]*)\]", o)
                if mm:
                    got = [float(x) for x in mm.group(1).split(";") if x.strip()]; break
            if got is None or exp is None or any(x is None for x in exp):
                continue
            if len(got) != len(exp) or any(abs(g - x) > 0 for g, x in zip(got, exp)):
                fails.append({"fn": name, "class": cls, "input": "tag inputs: component i of argument a = 10(a+1)+i+1", "expected": str(exp), "got": str(got),
                              "line": "model and implementation both computed; specification differs"})
        return fails

    # ------------------------------------------------------------------ oracle programs
    def build_cpp(self, src, exe, flags=(), std="gnu++17", opt="-O1"):
        cmd = [CXX, "-std=" + std, opt, "-ffp-contract=off", "-w", "-I" + REPO, "-I" + os.path.join(VERIF, "tools")] + list(flags) + [src, "-o", exe]
        rc, out, err, dt = sh(cmd, timeout=900)
        self.logonly("== compile", " ".join(cmd), "rc=%d %.1fs" % (rc, dt))
        if rc != 0:
            self.logonly(err[-6000:])
        return rc == 0, err

    def run_oracle(self, exe, args, timeout=1200):
        """oracle protocol: lines 'FAIL fn=.. class=.. input=.. expected=.. got=..' and 'STAT fn=.. cases=N [nontrivial=M]', 'SAMPLE ...'"""
        rc, out, err, dt = sh([exe] + [str(a) for a in args], timeout=timeout)
        self.logonly("== oracle", exe, args, "rc=%d %.1fs" % (rc, dt))
        fails, stats, samples = [], {}, []
        for l in out.split("\n"):
            if l.startswith("FAIL "):
                d = dict(re.findall(r'(\w+)=("[^"]*"|\S+)', l[5:]))
                d = {k: v.strip('"') for k, v in d.items()}; d["line"] = l
                fails.append(d)
            elif l.startswith("STAT "):
                d = dict(re.findall(r"(\w+)=(\S+)", l[5:]))
                stats[d.get("fn", "?")] = d
            elif l.startswith("SAMPLE "):
                samples.append(l[7:])
        if rc not in (0, 1):
            self.broken.append({"what": "oracle program %s crashed (rc=%d)" % (os.path.basename(exe), rc), "detail": (err or out)[-2000:]})
        return fails, stats, samples

    # ------------------------------------------------------------------ correspondence: extracted model vs implementation
    def run_corr(self, impl_src, args, flags=(), timeout=1800):
        """build tools/corr/<impl_src> against /repo, pipe its 'fn args = outs' lines into the extracted model driver.
        A mismatch means the hand model no longer describes the code (or the code changed): recorded as a broken
        correspondence; returns (cases, mismatch lines)"""
        exe = os.path.join(self.dir, os.path.splitext(impl_src)[0])
        ok, err = self.build_cpp(os.path.join(VERIF, "tools", "corr", impl_src), exe, flags, opt="-O1")
        if not ok:
            self.broken.append({"what": "correspondence driver %s does not compile against /repo" % impl_src, "detail": err[-2500:]})
            return 0, []
        model = os.path.join(VERIF, "coq", "extract", "corr_model")
        cmd = "%s %s | %s" % (shlex.quote(exe), " ".join(shlex.quote(str(a)) for a in args), shlex.quote(model))
        rc, out, err, dt = sh(cmd, timeout=timeout)
        self.logonly("== corr", cmd, "rc=%d %.1fs" % (rc, dt))
        cases = 0; mism = []; per = {}
        for l in out.split("\n"):
            if l.startswith("CORR "):
                d = dict(re.findall(r"(\w+)=(\S+)", l)); cases += int(d.get("cases", 0)); per[d.get("fn")] = (int(d.get("cases", 0)), int(d.get("mismatches", 0)))
            elif l.startswith("MISMATCH") or l.startswith("UNKNOWN"):
                mism.append(l)
        self.cov["correspondence_cases"] = self.cov.get("correspondence_cases", 0) + cases
        self.cov.setdefault("correspondence_per_function", {}).update({k: {"cases": v[0], "mismatches": v[1]} for k, v in per.items()})
        if rc != 0 or cases == 0:
            self.broken.append({"what": "correspondence run of %s failed (rc=%d, %d cases)" % (impl_src, rc, cases), "detail": (err or out)[-1500:]})
        bad = sorted(k for k, v in per.items() if v[1])
        if bad:
            self.broken.append({"what": "correspondence: the hand-written model disagrees with the implementation for " + ", ".join(bad), "detail": "\n".join(mism[:12])})
            self.corr_mism = getattr(self, "corr_mism", []) + mism[:40]
        return cases, mism

    # ------------------------------------------------------------------ known findings
    def load_known(self):
        kf = []
        p = os.path.join(VERIF, "known_findings.txt")
        if os.path.exists(p):
            for l in open(p):
                l = l.strip()
                if l.startswith("finding:"):
                    d = dict(re.findall(r'(\w+)=("[^"]*"|\S+)', l[len("finding:"):]))
                    d = {k: v.strip('"') for k, v in d.items()}
                    if d.get("property") == self.pid: kf.append(d)
        return kf

    def triage(self, fails):
        """split oracle failures into known findings (matched by fn + class) and new ones"""
        kf = self.load_known(); new = []; seen = {}
        for f in fails:
            hit = None
            for k in kf:
                if k.get("fn") == f.get("fn") and k.get("class") == f.get("class"):
                    hit = k; break
            if hit: seen.setdefault((hit["fn"], hit["class"]), []).append(f)
            else: new.append(f)
        for k in kf:
            obs = seen.get((k["fn"], k["class"]), [])
            self.known.append("KNOWN-FINDING: property=%s fn=%s class=\"%s\" witness=\"%s\" observed_now=%s" % (self.pid, k["fn"], k["class"], k.get("witness", ""), ("yes e.g. input=" + obs[0].get("input", "?")) if obs else "no"))
        return new

    # ------------------------------------------------------------------ finish
    def finish(self, level_note_trusted, rule, checker_cmd):
        wall = time.time() - self.t0
        nviol = 0
        for l in self.known: self.say(l)
        replay_dir = os.path.join(self.dir, "replays")
        # 1. concrete failing inputs
        byfn = {}
        for f in self.fails: byfn.setdefault((f.get("fn"), f.get("class")), []).append(f)
        for (fn, cl), fl in byfn.items():
            nviol += 1
            path = os.path.join(replay_dir, "fail_%s_%s.json" % (re.sub(r"\W", "_", str(fn)), hashlib.md5(str(cl).encode()).hexdigest()[:6]))
            json.dump({"property": self.pid, "kind": "failing-input", "fn": fn, "class": cl, "cases": fl[:5],
                       "broken_obligations": [b["what"] for b in self.broken]}, open(path, "w"), indent=1)
            self.say("VIOLATION property=%s replay=%s" % (self.pid, path))
        # 2. broken obligations without a failing input
        if self.broken and not self.fails:
            nviol += 1
            cm = getattr(self, "corr_mism", [])
            if cm:
                # the implementation differs, on these inputs, from the model for which the property theorems are proved: those inputs are the replay
                path = os.path.join(replay_dir, "correspondence_mismatch.json")
                json.dump({"property": self.pid, "kind": "failing-input (implementation against the proved model)", "cases": cm, "no_longer_checks": self.broken}, open(path, "w"), indent=1)
                self.say("VIOLATION property=%s replay=%s" % (self.pid, path))
            else:
                path = os.path.join(replay_dir, "unproved.json")
                json.dump({"property": self.pid, "kind": "no-failing-input-found", "no_longer_checks": self.broken}, open(path, "w"), indent=1)
                self.say("VIOLATION property=%s replay=%s no-failing-input-found" % (self.pid, path))
        nob = len(self.obligations); ndis = sum(1 for o in self.obligations if o[1])
        cov = {"obligations": max(nob, 1) if nob else 0, "discharged": ndis,
               "checker_cmd": checker_cmd, "trusted_base": level_note_trusted + sorted("axiom: " + a for a in self.axioms),
               "rule": rule, "samples": self.samples[:12] or ["(none)"],
               "theorems": [o[0] for o in self.obligations], "undischarged": [o[0] for o in self.obligations if not o[1]],
               "broken": [b["what"] for b in self.broken], "known_findings_reported": len(self.known)}
        cov.update(self.cov)
        if nob == 0 or ndis == 0:
            # no proof obligation was discharged on this run: fall back to the generic keys so the file stays valid
            cov.setdefault("evaluations", max(1, int(cov.get("evaluations", 1)))); cov.setdefault("distinct_nontrivial", 2)
            cov.pop("obligations", None); cov.pop("discharged", None)
        ev = {"property_id": self.pid, "tier": self.tier, "seed": int(self.seed), "level": "proof", "coverage": cov,
              "assumptions": self.assumptions, "wall_s": round(wall, 2), "violations": nviol}
        os.makedirs(os.path.join(VERIF, "evidence"), exist_ok=True)
        json.dump(ev, open(os.path.join(VERIF, "evidence", self.pid + ".json"), "w"), indent=1)
        self.say("%s %s: obligations=%d discharged=%d broken=%d failing-inputs=%d known=%d wall=%.1fs" % (self.pid, self.tier, nob, ndis, len(self.broken), len(self.fails), len(self.known), wall))
        return 1 if nviol else 0
