"""Per-property recipes for /verif/check (see DESIGN.md section 6)."""
import os, json, re, glob
from concurrent.futures import ThreadPoolExecutor
from . import core

TRUST_COMMON = [
    "Coq 8.16.1 kernel (coqc) including the vm_compute virtual machine; native_compute is not used",
    "translator T1 (/verif/tools/trace: sym.hpp + driver.hpp, ~700 lines) and g++ 12.2's front end (template instantiation, overload resolution) which runs GLM's own source on tracing scalars",
    "T1 self-validation: every traced entry is also instantiated with the real scalar types and compared bit-for-bit with the interpreted trace on generated inputs (testing of the translator, not proof)",
    "specifications in /verif/coq/lib/Spec*.v are read, not proved",
]
CHECKER = "coqc -Q /verif/coq/lib GLMV -Q /verif/_work/<id> W <generated model, proof files, Properties_<id>.v>"


def par(fs):
    with ThreadPoolExecutor(max_workers=core.JOBS) as ex:
        return [f.result() for f in [ex.submit(f) for f in fs]]


def trace_cov(run, stats):
    ent = sum(s.get("entries", 0) for s in stats if s); trials = sum(s.get("trials", 0) for s in stats if s)
    run.cov["traced_entries"] = ent
    run.cov["traced_paths"] = sum(s.get("paths", 0) for s in stats if s)
    run.cov["translator_validation_trials"] = trials
    run.cov["translator_validation_mismatches"] = sum(s.get("mismatches", 0) for s in stats if s)
    run.cov["untraceable_entries"] = [a for s in stats if s for a in s.get("aborts", [])][:40]


# the same oracle once more on GLM's SIMD kernels (aligned types by default, intrinsics at the AVX2 level): the properties are stated for every configuration
SIMD_AVX2 = ("simd_avx2", ["-mavx2", "-DGLM_FORCE_INTRINSICS", "-DGLM_FORCE_DEFAULT_ALIGNED_GENTYPES"])
SIMD_SSE2 = ("simd_sse2", ["-msse2", "-DGLM_FORCE_INTRINSICS", "-DGLM_FORCE_DEFAULT_ALIGNED_GENTYPES"])
def oracle_sweep(run, pid, variants, tier, opt="-O0"):
    """variants: list of (suffix, flags, std). builds tools/oracle/oracle_<pid>.cpp per variant and runs `sweep seed tier`."""
    src = os.path.join(core.VERIF, "tools", "oracle", "oracle_%s.cpp" % pid)
    def one(v):
        suffix, flags = v[0], v[1]; std = v[2] if len(v) > 2 else "gnu++17"
        exe = os.path.join(run.dir, "oracle_%s_%s" % (pid, suffix))
        ok, err = run.build_cpp(src, exe, flags, std=std, opt=opt)
        if not ok:
            return suffix, None, err
        return suffix, run.run_oracle(exe, ["sweep", run.seed, tier]), None
    total = 0; allf = []
    for suffix, res, err in par([lambda v=v: one(v) for v in variants]):
        if res is None:
            run.broken.append({"what": "oracle program oracle_%s (%s) does not compile against /repo" % (pid, suffix), "detail": (err or "")[-2500:]})
            continue
        fails, stats, samples = res
        for f in fails: f["variant"] = suffix
        allf += fails; total += sum(int(s.get("cases", 0)) for s in stats.values())
        run.samples += samples[:3]
    run.cov["oracle_cases"] = total
    run.cov["oracle_functions_failing"] = sorted(set(f.get("fn", "?") for f in allf))[:40]
    return allf


# ------------------------------------------------------------------------------------------ C03
C03_LEVELS = [  # (module suffix, flags of the traced build (simd_shim), flags of the real-intrinsics builds)
    ("sse2", ["-DGLM_FORCE_SSE2"], ["-msse2"]), ("sse3", ["-DGLM_FORCE_SSE3"], ["-msse3"]), ("ssse3", ["-DGLM_FORCE_SSSE3"], ["-mssse3"]),
    # -D__SSE4_1__: the macro the compiler defines from -msse4.1 on (compute_vec_mul<int> tests it directly); the traced build has no -m flag
    ("sse41", ["-DGLM_FORCE_SSE41", "-D__SSE4_1__=1"], ["-msse4.1"]), ("sse42", ["-DGLM_FORCE_SSE42", "-D__SSE4_1__=1"], ["-msse4.2"]), ("avx", ["-DGLM_FORCE_AVX", "-D__SSE4_1__=1"], ["-mavx"]), ("avx2", ["-DGLM_FORCE_AVX2", "-D__SSE4_1__=1"], ["-mavx2"]),
    ("fma", ["-DGLM_FORCE_AVX2", "-DGLM_FORCE_FMA", "-D__SSE4_1__=1"], ["-mavx2", "-mfma", "-DGLM_FORCE_FMA"]),
    ("sse2w", ["-DGLM_FORCE_SSE2", "-DGLM_FORCE_QUAT_DATA_WXYZ"], ["-msse2", "-DGLM_FORCE_QUAT_DATA_WXYZ"]), ("avx2w", ["-DGLM_FORCE_AVX2", "-DGLM_FORCE_QUAT_DATA_WXYZ", "-D__SSE4_1__=1"], ["-mavx2", "-DGLM_FORCE_QUAT_DATA_WXYZ"])]
C03_EDGES = ["sse2_pure", "sse3_sse2", "ssse3_sse3", "sse41_pure", "sse42_sse41", "avx_sse41", "avx2_avx", "fma_avx2", "pure_purew", "sse2w_sse2", "avx2w_avx2"]


def run_C03(run):
    T = core.TRACE
    # 0. GLM's integer SIMD specialisations are keyed on `int` / `unsigned int`, which no macro can rename: a copy of glm/ with the
    #    type arguments of those specialisations retargeted to the tracing integers (bodies untouched) is what the SIMD traces read
    intsrc = os.path.join(run.dir, "glm_int")
    rc, out, err, dt = core.sh(["python3", os.path.join(T, "gen_C03_intsrc.py"), core.REPO, intsrc], timeout=300)
    run.logonly("== gen_C03_intsrc rc=%d" % rc, out[-1500:], err[-1500:])
    if rc != 0: run.broken.append({"what": "the integer SIMD specialisations could not be retargeted (gen_C03_intsrc.py)", "detail": (err or out)[-1500:]})
    run.cov["retargeted_integer_specialisations"] = dict(re.findall(r"REWRITE (\S+) substitutions=(\d+)", out))
    # 1. the generic code, and GLM's intrinsic kernels at every level, as decision trees; the SIMD traces are validated against
    #    the same entries built with the compiler's own intrinsics (golden outputs on generated inputs)
    def simd(level):
        name, tfl, rfl = level
        gold = os.path.join(run.dir, "gold_%s.bin" % name); gtxt = os.path.join(run.dir, "gold_%s.txt" % name)
        cmd = [core.CXX, "-std=gnu++17", "-O1", "-ffp-contract=off", "-w", "-I" + os.path.join(T, "shim"), "-I" + T, "-I" + core.REPO, "-DVT_C03_ALIGNED", "-DGLM_FORCE_INTRINSICS"] + rfl + [os.path.join(T, "tr_C03.cpp"), "-o", gold]
        rc, out, err, dt = core.sh(cmd, timeout=900)
        if rc != 0:
            run.broken.append({"what": "the C03 catalogue does not compile with GLM_FORCE_INTRINSICS %s (real intrinsics)" % " ".join(rfl), "detail": err[-2500:]}); return None
        env = dict(os.environ, VERIF_SEED=str(run.seed), VT_GOLDEN_OUT=gtxt)
        rc, out, err, dt = core.sh([gold, os.devnull, os.path.join(run.dir, "gold_%s.log" % name)], timeout=900, env=env)
        if rc != 0 or not os.path.exists(gtxt):
            run.broken.append({"what": "the C03 catalogue built with the real intrinsics (%s) crashed" % name, "detail": err[-1500:]}); return None
        return run.build_trace("tr_C03", "Gen_C03_" + name, ["-DVT_SIMD", "-DGLM_FORCE_INTRINSICS"] + tfl, extra_env={"VT_GOLDEN_IN": gtxt}, inc_first=[intsrc])
    jobs = [lambda: run.build_trace("tr_C03", "Gen_C03_pure", ["-DGLM_FORCE_PURE"]), lambda: run.build_trace("tr_C03", "Gen_C03_purew", ["-DGLM_FORCE_PURE", "-DGLM_FORCE_QUAT_DATA_WXYZ"])] + [lambda l=l: simd(l) for l in C03_LEVELS]
    stats = par(jobs)
    trace_cov(run, stats)
    mods = ["pure", "purew"] + [l[0] for l in C03_LEVELS]
    gens = [os.path.join(run.dir, "Gen_C03_%s.v" % m) for m in mods]
    for g in gens:
        if not os.path.exists(g): open(g, "w").write("(* trace failed *)\nRequire Import List String. From GLMV Require Import Expr.\nDefinition catalogue : list (string * tree) := nil.\n")
    edges = []
    def hook():
        cmd = ["python3", os.path.join(T, "gen_C03_proofs.py"), run.dir, "coqc", "-q", "-w", "none", "-Q", core.COQLIB, "GLMV", "-Q", run.dir, "W"]
        rc, out, err, dt = core.sh(cmd, timeout=900)
        run.logonly("== gen_C03_proofs rc=%d %.1fs" % (rc, dt), out[-3000:], err[-2000:])
        if rc != 0:
            run.broken.append({"what": "the list of entries to compare by proof could not be computed (catalogues incomplete)", "detail": (err or out)[-2000:]})
        for l in out.split("\n"):
            m = re.match(r"EDGE (\w+) -> (\w+) : (\d+) entries", l)
            if m: edges.append((m.group(1), m.group(2), int(m.group(3))))
        return [os.path.join(run.dir, "P_C03_%s.v" % e) for e in C03_EDGES if os.path.exists(os.path.join(run.dir, "P_C03_%s.v" % e))]
    run.prove(gens, ["C03/A_C03_defs.v", "C03/A_C03_int.v", "C03/P_C03_tac.v", "C03/P_C03_itac.v"], [], "C03/Properties_C03.v", timeout=1500, hook=hook)
    run.cov["instruction_set_levels"] = [l[0] for l in C03_LEVELS]
    run.cov["entries_compared_by_proof_per_edge"] = dict(("%s->%s" % (a, b), n) for a, b, n in edges)
    # 2. hardware: one operation table built pure and at every level, compared with the tolerances the property states
    src = os.path.join(core.VERIF, "tools", "oracle", "oracle_C03.cpp"); S = ["-DGLM_FORCE_DEFAULT_ALIGNED_GENTYPES", "-DGLM_FORCE_INTRINSICS"]
    builds = [("pure", ["-DGLM_FORCE_PURE"]), ("purew", ["-DGLM_FORCE_PURE", "-DGLM_FORCE_QUAT_DATA_WXYZ"])] + [(n, S + rfl) for n, tfl, rfl in C03_LEVELS]
    seeds = [run.seed] if run.tier == "quick" else [run.seed, run.seed + 1, run.seed + 2]
    def tab(b):
        name, fl = b; exe = os.path.join(run.dir, "table_" + name); ok, err = run.build_cpp(src, exe, fl, opt="-O1")
        if not ok: return name, None, err
        outs = []
        for sd in seeds:
            f = os.path.join(run.dir, "table_%s_%d.txt" % (name, sd)); rc, out, e2, dt = core.sh("%s table %d %s > %s" % (exe, sd, run.tier, f), timeout=1200)
            if rc != 0: return name, None, e2
            outs.append(f)
        return name, outs, None
    res = dict((n, (o, e)) for n, o, e in par([lambda b=b: tab(b) for b in builds]))
    fails = []; lanes = 0; rows = 0; cmps = []
    for name, (outs, err) in res.items():
        if outs is None:
            run.broken.append({"what": "the operation table does not build / run under %s (an operation does not compile at this instruction-set level)" % name, "detail": (err or "")[-2000:]}); continue
        if name in ("pure", "purew"): continue
        ref = res["purew" if name.endswith("w") else "pure"][0]
        if ref is None: continue
        cmps += [(name, a, b) for a, b in zip(ref, outs)]
    def cmp1(c):
        name, a, b = c; return (name,) + tuple(core.sh(["python3", os.path.join(core.VERIF, "tools", "oracle", "cmp_C03.py"), a, b, name], timeout=1200))
    for name, rc, out, e2, dt in par([lambda c=c: cmp1(c) for c in cmps]):
        for l in out.split("\n"):
            if l.startswith("FAIL "):
                d = dict(re.findall(r'(\w+)=("[^"]*"|\S+)', l[5:])); d = {k: v.strip('"') for k, v in d.items()}; d["line"] = l; d["variant"] = name; fails.append(d)
            elif l.startswith("TOTAL "):
                m = re.search(r"rows=(\d+).*lanes=(\d+)", l)
                if m: rows = int(m.group(1)); lanes += int(m.group(2))
        if rc not in (0, 1) or "TOTAL " not in out: run.broken.append({"what": "table comparison did not complete for %s (comparator error)" % name, "detail": (e2 or out)[-1500:]})
    for name, (outs, err) in res.items():   # the tables are large: keep only the first of each build for replay
        for f in (outs or [])[1:]:
            try: os.remove(f)
            except OSError: pass
    # 3. rounding to integer on every binary32 value (the ties that the real-number theorem round4 leaves out)
    rsrc = os.path.join(core.VERIF, "tools", "oracle", "oracle_C03_round.cpp"); rcases = 0
    def rnd(isa):
        exe = os.path.join(run.dir, "round_" + isa.replace(".", "")); ok, err = run.build_cpp(rsrc, exe, S + ["-fopenmp", "-m" + isa], opt="-O2")
        if not ok: return isa, None, err
        return isa, run.run_oracle(exe, ["sweep", run.seed, "thorough"]), None
    for isa, r, err in par([lambda i=i: rnd(i) for i in ("sse2", "sse4.1", "avx2")]):
        if r is None: run.broken.append({"what": "oracle_C03_round does not build with -m" + isa, "detail": (err or "")[-1500:]}); continue
        f2, st, sm = r
        for f in f2: f["class"] = isa + ": " + f.get("class", ""); f["variant"] = isa
        fails += f2; rcases += sum(int(x.get("cases", 0)) for x in st.values()); run.samples += sm[:1]
    run.cov["oracle_cases"] = lanes + rcases; run.cov["oracle_table_lanes_compared"] = lanes; run.cov["oracle_rounding_patterns"] = rcases
    run.cov["oracle_functions_failing"] = sorted(set(f.get("fn", "?") for f in fails))[:40]
    run.fails = run.triage(fails)
    run.assumptions = ["SemR: every traced operation denotes its exact real function (rcp = 1/x, rsqrt = 1/sqrt x, fma = a*b+c, min/max = the smaller/larger real, CopySign takes the sign of a real): two kernels with the same meaning differ only by rounding; identical trees (decided by computation) execute the same IEEE operations on the same operands and are bit-identical",
                       "simd_shim.hpp models each x86 intrinsic GLM uses lane by lane (mask-and/andnot/or as a branch on the comparison; sign-bit masks as FAbs / CopySign / Neg; dp_ps and hadd_ps in the order the Intel SDM gives); validated on every run against the same entries built with the compiler's intrinsics on generated inputs (bit-exact, %d trials)" % run.cov.get("translator_validation_trials", 0),
                       "NaN operands and the sign of zero are outside the theorems (minps/maxps and std::fmin differ there) and outside the table comparison (GLSL leaves them undefined); the table treats -0 and +0 as the same value",
                       "integer entries (ivec4 / uvec4 / ivec3) are traced through a copy of glm/ in which gen_C03_intsrc.py retargets the type arguments of the integer SIMD specialisations to the tracing integers (function bodies untouched; the real build is the golden side of the validation), and compared in 32-bit wrap-around arithmetic (SemZ, strict = false); 64-bit and 8/16-bit integer vectors have no SIMD specialisation in GLM",
                       "round4 is a partial theorem (off the ties); floor4/ceil4/fract4/mod4 at the SSE2..SSSE3 levels use that binary32 values >= 2^23 are integers (hypothesis D_big) and |x/y| < 2^23 (D_mod); all 2^32 binary32 values are run through round/floor/ceil/fract on hardware in this check",
                       "the 8 * 2^-24 * scale bound on multi-term expressions and the n * 2^-11 bound on lowp approximations are checked on hardware by the table, not proved"]
    run.samples.append("operation table: %d rows x %d builds (pure, pure+WXYZ, %s), seeds %s; exact rows bit-compared (as IEEE values), multi-term rows within 8*2^-24*scale, lowp rows within n*2^-11" % (rows, len(builds), " ".join(l[0] for l in C03_LEVELS), seeds))
    return run.finish(TRUST_COMMON + ["simd_shim.hpp (~200 lines): lane-wise model of the x86 intrinsics, validated against the compiler's intrinsics on every run (testing, not proof)",
                                      "gen_C03_intsrc.py (60 lines): textual retargeting of the integer specialisation headers in a copy of glm/; a wrong rewrite fails to compile or fails the validation against the real build",
                                      "gen_C03_proofs.py: asks Coq which entries are not identical trees and writes one lemma statement per such entry with a fixed tactic (cannot make a false lemma pass)",
                                      "oracle_C03.cpp + cmp_C03.py (operation table, pure against every instruction-set level) and oracle_C03_round.cpp (all 2^32 binary32 values): violation search and the only check of the rounding bounds"],
                      "theorems: 176 traced operations (float, double, int, uint) x 10 SIMD configurations, all real inputs of each entry's domain; oracle: operation table on a generated corpus under 12 builds, rounding functions on every binary32 value",
                      CHECKER)


# ------------------------------------------------------------------------------------------ C02
def run_C02(run):
    kinds = [("f32", "tf32"), ("i32", "ti32")]
    stats = par([lambda k=k, t=t: run.build_trace("tr_C02", "Gen_C02_" + k, ["-DC02_KIND=" + t]) for k, t in kinds])
    trace_cov(run, stats)
    gens = [os.path.join(run.dir, "Gen_C02_%s.v" % k) for k, _ in kinds if os.path.exists(os.path.join(run.dir, "Gen_C02_%s.v" % k))]
    run.prove(gens, [], ["C02/P_C02_products.v", "C02/P_C02_elementwise.v"], "C02/Properties_C02.v")
    types = ["float", "int"] if run.tier == "quick" else ["float", "int", "double", "unsigned"]
    fails = oracle_sweep(run, "C02", [(t, ["-DORC_T=" + t]) for t in types] + [("simd_avx2_float", ["-DORC_T=float"] + SIMD_AVX2[1]), ("simd_sse2_float", ["-DORC_T=float"] + SIMD_SSE2[1])], run.tier)
    run.fails = run.triage(fails)
    run.assumptions = ["floating-point statements are about the real-number value of the traced expression tree plus its structure (each output is a sum of exactly K single products: one IEEE rounding per product and per sum); no numeric error bound is proved",
                       "sized 8/16/64-bit integer element types and double are covered by the oracle sweep only (thorough tier), not by theorems"]
    return run.finish(TRUST_COMMON + ["oracle_C02.cpp: exact-integer triple-loop reference on small-integer matrices (violation search / replay only)"],
                      "theorems quantify over all entry values (symbolic inputs); shapes/operators are enumerated: 27 mat*mat, 9 mat*vec, 9 vec*mat, 25 element-wise operator families x 9 shapes, 81 conversions, all row/column accessors; oracle cases are random small-integer matrices, distinct by construction of the PRNG stream",
                      CHECKER)


# ------------------------------------------------------------------------------------------ C10
def run_C10(run):
    stats = [run.build_trace("tr_C10", "Gen_C10_f32")]
    trace_cov(run, stats)
    gens = [os.path.join(run.dir, "Gen_C10_f32.v")] if stats[0] else []
    run.prove(gens, ["C10/A_C10_defs.v"], ["C10/P_C10_det.v", "C10/P_C10_inverse.v", "C10/P_C10_invtr.v", "C10/P_C10_misc.v"], "C10/Properties_C10.v", timeout=1500)
    fails = oracle_sweep(run, "C10", [("all", []), SIMD_AVX2, SIMD_SSE2], run.tier)
    run.fails = run.triage(fails)
    run.assumptions = ["statements are about the exact real-number value of the traced float expression trees under det(M) <> 0; the rounding bound 'proportional to the condition number' is NOT proved (only exercised by the oracle with tolerance 64*eps*kappa)",
                       "double precision shares the template code with float (same trace up to the kind annotation); it is exercised by the oracle only",
                       "the aligned (SIMD-qualifier) inv3x3 specialisation only exists in GLM_FORCE_INTRINSICS builds and is covered under C03"]
    return run.finish(TRUST_COMMON + ["oracle_C10.cpp: long-double Gauss-Jordan / exact integer cofactor references (violation search only)"],
                      "theorems: all matrix entries universally quantified (symbolic), sizes 2,3,4 enumerated; oracle: random general/triangular/permutation-like matrices with kappa<=1e3 (float) / 1e6 (double) and integer unimodular matrices (exact comparison)",
                      CHECKER)


# ------------------------------------------------------------------------------------------ C08
C08_CFGS = [("", []), ("_LHNO", ["-DGLM_FORCE_LEFT_HANDED"]), ("_RHZO", ["-DGLM_FORCE_DEPTH_ZERO_TO_ONE"]), ("_LHZO", ["-DGLM_FORCE_LEFT_HANDED", "-DGLM_FORCE_DEPTH_ZERO_TO_ONE"])]

def run_C08(run):
    stats = par([lambda sfx=sfx, fl=fl: run.build_trace("tr_C08", "Gen_C08" + sfx, ["-DVT_NO_ASSERT"] + fl) for sfx, fl in C08_CFGS])
    trace_cov(run, stats)
    gens = [os.path.join(run.dir, "Gen_C08%s.v" % sfx) for sfx, _ in C08_CFGS if os.path.exists(os.path.join(run.dir, "Gen_C08%s.v" % sfx))]
    run.prove(gens, ["C08/A_C08_defs.v"], ["C08/P_C08_ortho_frustum.v", "C08/P_C08_perspective.v", "C08/P_C08_dispatch.v", "C08/P_C08_project.v", "C08/P_C08_ivp.v"], "C08/Properties_C08.v")
    fails = oracle_sweep(run, "C08", [(sfx.strip("_") or "RHNO", fl) for sfx, fl in C08_CFGS], run.tier)
    run.fails = run.triage(fails)
    run.assumptions = ["statements are about the exact real-number value (evalR) of the traced float expressions; tan/sin/cos are the real functions; no rounding bound is proved",
                       "project/unProject: the viewport/depth mapping of project and the configuration dispatch of both are proved; the round trip unProject(project(p)) = p is exercised by the oracle only (partial)",
                       "double precision shares the template code (oracle only); the traces are taken with assert() disabled (the theorems' hypotheses are weaker than GLM's asserts)"]
    return run.finish(TRUST_COMMON + ["oracle_C08.cpp: long-double corner evaluation, compiled under the four clip-control configurations (violation search only)"],
                      "theorems: all parameter values universally quantified under non-degeneracy hypotheses; 45 builders x 4 configurations enumerated; oracle: random valid parameter sets, float and double, 4 configurations",
                      CHECKER)


# ------------------------------------------------------------------------------------------ C17
def gen_and_trace(run, gen_script, args, trials=4):
    """run a TU generator, compile every TU in parallel against /repo, run the trace programs; returns (stats, modules, bins)"""
    src = os.path.join(run.dir, "src")
    rc, out, err, dt = core.sh(["python3", os.path.join(core.TRACE, gen_script), src] + args, timeout=120)
    tus = [l.split(None, 2) for l in out.strip().split("\n") if l.strip()]
    def one(t):
        fn, mod = t[0], t[1]; flags = t[2].split() if len(t) > 2 else []
        exe = os.path.join(run.dir, mod + ".bin")
        cmd = [core.CXX, "-std=gnu++17", "-O0", "-ffp-contract=off", "-w", "-I" + os.path.join(core.TRACE, "shim"), "-I" + core.TRACE, "-I" + core.REPO] + flags + [fn, "-o", exe]
        rc, o, e, dt = core.sh(cmd, timeout=900)
        run.logonly("== compile", " ".join(cmd), "rc=%d %.1fs" % (rc, dt))
        if rc != 0:
            run.logonly(e[-4000:]); return mod, None, e
        env = dict(os.environ); env["VERIF_SEED"] = str(run.seed); env["VT_TRIALS"] = str(trials)
        v = os.path.join(run.dir, mod + ".v"); lg = os.path.join(run.dir, mod + ".tracelog")
        rc, o, e, dt = core.sh([exe, v, lg], timeout=600, env=env)
        if rc != 0 or not os.path.exists(lg): return mod, None, "trace program crashed rc=%d %s" % (rc, e[-500:])
        txt = open(lg).read(); st = {"module": mod}
        m = re.search(r"STATS (.*)", txt)
        if m:
            for kv in m.group(1).split():
                k, vv = kv.split("="); st[k] = int(vv)
        st["aborts"] = re.findall(r"^ABORT (\S+) : (.*)$", txt, re.M); st["mismatch_lines"] = re.findall(r"^MISMATCH .*$", txt, re.M)
        return mod, st, None
    stats, mods, bins = [], [], []
    for mod, st, err in par([lambda t=t: one(t) for t in tus]):
        if st is None:
            names = sorted(set(re.findall(r"void ent_([A-Za-z0-9_]+)", err or "")))[:8]
            run.broken.append({"what": "trace TU %s does not compile against /repo (entries involved: %s)" % (mod, ", ".join(names) or "?"), "detail": "\n".join(l for l in (err or "").split("\n") if "error" in l)[:2500]})
            continue
        if st["mismatch_lines"]:
            run.broken.append({"what": "translator self-validation mismatch in %s" % mod, "detail": "\n".join(st["mismatch_lines"][:8])})
        stats.append(st); mods.append(mod); bins.append(os.path.join(run.dir, mod + ".bin"))
    return stats, sorted(mods), bins

def write_all_module(run, prefix, mods):
    f = os.path.join(run.dir, prefix + "_all.v")
    open(f, "w").write("Require Import List String.\nFrom GLMV Require Import Expr.\n" + "".join("From W Require %s.\n" % m for m in mods)
                       + "Definition catalogue : list (string * tree) := " + (" ++ ".join(m + ".catalogue" for m in mods) or "nil") + ".\n")
    return f

def probe_compile(run, name, code, flags):
    """compile-only probe used for findings that are ill-formed instantiations; returns True when it compiles"""
    src = os.path.join(run.dir, name + ".cpp"); open(src, "w").write(code)
    rc, o, e, dt = core.sh([core.CXX, "-std=gnu++17", "-fsyntax-only", "-w", "-I" + core.REPO] + flags + [src], timeout=300)
    return rc == 0

def run_C17(run):
    stats, mods, bins = gen_and_trace(run, "gen_C17.py", [run.tier])
    trace_cov(run, stats)
    gens = [os.path.join(run.dir, m + ".v") for m in mods]
    res = run.coq_parallel(gens)
    for f, (ok, out, err, dt) in res.items():
        if not ok: run.broken.append({"what": "generated model %s is not accepted by Coq" % os.path.basename(f), "detail": err[-1500:]})
    allf = write_all_module(run, "Gen_C17", mods)
    ok = run.prove([allf], [], ["C17/P_C17.v"], "C17/Properties_C17.v")
    fails = []
    if not ok:
        fails = run.tag_search("Require Import ZArith List String Bool.\nImport ListNotations.\nFrom GLMV Require Import Expr Cat Chk SpecSwizzle.\nFrom W Require Gen_C17_all.\n"
                               + open(os.path.join(core.VERIF, "coq", "props", "C17", "P_C17.v")).read().split("Lemma every_entry_is_its_specification")[0].split("Local Open Scope Z_scope.")[1]
                               .join(["Local Open Scope string_scope.\nLocal Open Scope Z_scope.\n", ""])
                               + "Eval vm_compute in (map (fun e => (fst e, option_map (map evalTag) (expected (fst e)))) (filter (fun e => negb (entry_ok e)) cat)).\n", bins)
    # compile-time known finding: 3-letter writable swizzles of a vec4 that name w
    if not probe_compile(run, "probe_xyw", "#define GLM_FORCE_SWIZZLE\n#include <glm/glm.hpp>\nint main(){ glm::vec4 v(1,2,3,4); v.xyw = glm::vec3(7,8,9); return (int)v.w; }\n", ["-D_MSC_EXTENSIONS"]):
        fails.append({"fn": "swizzle_write_vec4_3letters_with_w", "class": "ill-formed", "input": "v.xyw = vec3(7,8,9) (operator swizzles)", "expected": "assignable: no repeated letter", "got": "does not compile"})
    # the compiled types, SIMD constructor specialisations included (the tracing scalar cannot instantiate them): every constructor shape with tagged arguments
    fails += oracle_sweep(run, "C17", [("all", ["-D_MSC_EXTENSIONS"]), SIMD_AVX2, SIMD_SSE2], run.tier)   # _MSC_EXTENSIONS: language extensions on, so that the aligned qualifiers exist in the pure build too
    run.fails = run.triage(fails)
    run.assumptions = ["identity of expression trees with symbolic inputs: holds for all component values; Cv nodes are exactly the static_casts the constructor performs",
                       "element type float (and int arguments for cross-type constructors); other element types share the templates; the SIMD constructor specialisations (aligned float/double/int vectors under SSE2 and AVX2) and the other element types are run concretely by oracle_C17.cpp with tagged arguments (violation search); SIMD shuffle specialisations are covered under C03",
                       "operator swizzles are traced with -D_MSC_EXTENSIONS (GLM_LANG_EXT), the only way to enable them on GCC without a SIMD arch"]
    return run.finish(TRUST_COMMON + ["gen_C17.py: enumerates accessor names / constructor signatures by rule (the Coq side re-generates the required name list independently and checks completeness)"],
                      "finite enumeration: all 2/3/4-letter words over xyzw/rgba/stpq for source lengths 2-4 in member-function and operator form, gtx free functions for lengths 1-4, writable operator swizzles, all vector constructor argument-shape compositions with scalar/vec1/int mixes, matrix and quaternion constructors; component values symbolic",
                      CHECKER)


# ------------------------------------------------------------------------------------------ C12
def run_C12(run):
    stats = [run.build_trace("tr_C12", "Gen_C12")]
    trace_cov(run, stats)
    gens = [os.path.join(run.dir, "Gen_C12.v")] if stats[0] else []
    run.prove(gens, [], ["C12/P_C12.v", "C12/P_C12_b.v", "C12/P_C12_c.v", "C12/P_C12_d.v", "C12/P_C12_gs.v"], "C12/Properties_C12.v")
    fails = oracle_sweep(run, "C12", [("all", []), SIMD_AVX2, SIMD_SSE2], run.tier)
    run.fails = run.triage(fails)
    run.assumptions = ["identities are over the exact real value of the traced float expressions (sqrt = real square root); 'within rounding' is exercised by the oracle only",
                       "angle / orientedAngle / l1-l2-lMax-lx norms / triangleNormal / vector and matrix orthonormalize / closestPointOnLine are theorems",
                       "double shares the template code (oracle only)"]
    return run.finish(TRUST_COMMON + ["oracle_C12.cpp: long-double references on tiny/huge/axis-aligned/integer/generic vectors (violation search only)"],
                      "theorems: all component values (symbolic), lengths 1-4 enumerated, scalar overloads included; oracle: 5 vector classes x lengths x float/double",
                      CHECKER)


# ------------------------------------------------------------------------------------------ C04
def run_C04(run):
    cfgs = [("Gen_C04", []), ("Gen_C04_WXYZ", ["-DGLM_FORCE_QUAT_DATA_WXYZ"])]
    stats = par([lambda m=m, fl=fl: run.build_trace("tr_C04", m, ["-DVT_NO_ASSERT"] + fl) for m, fl in cfgs])
    trace_cov(run, stats)
    gens = [os.path.join(run.dir, m + ".v") for m, _ in cfgs if os.path.exists(os.path.join(run.dir, m + ".v"))]
    run.prove(gens, [], ["C04/P_C04_a.v", "C04/P_C04_euler.v", "C04/P_C04_wxyz.v", "C04/P_C04_axis.v", "C04/P_C04_cast.v", "C04/P_C04_aa.v", "C04/P_C04_two.v", "C04/P_C04_derived.v"], "C04/Properties_C04.v")
    fails = oracle_sweep(run, "C04", [("xyzw", []), ("wxyz", ["-DGLM_FORCE_QUAT_DATA_WXYZ"]), SIMD_AVX2, ("simd_sse2_wxyz", SIMD_SSE2[1] + ["-DGLM_FORCE_QUAT_DATA_WXYZ"])], run.tier)
    run.fails = run.triage(fails)
    run.assumptions = ["real-number semantics of the traced expressions (sin/cos real functions); no rounding bounds",
                       "partial: quat(eulerAngles q) and the extractEulerAngleABC round trips are NOT theorems; they are exercised by oracle_C04 (long-double references, unit quaternions near axes / w~0 / w~+-1 / gimbal poles / near-ties of the largest component) in both storage orders",
                       "the WXYZ theorem is identity of the whole regenerated catalogue (81 entries, all decision trees) under -DGLM_FORCE_QUAT_DATA_WXYZ"]
    return run.finish(TRUST_COMMON + ["oracle_C04.cpp (violation search; also the only check of the partial items above)"],
                      "theorems: all quaternion/vector/angle values symbolic; 6 two-axis and 12 three-axis Euler builders enumerated; oracle: 5 classes of unit quaternions x float/double x 2 storage orders",
                      CHECKER)


# ------------------------------------------------------------------------------------------ C09
def run_C09(run):
    cfgs = [("Gen_C09", []), ("Gen_C09_LH", ["-DGLM_FORCE_LEFT_HANDED"]), ("Gen_C09_ZO", ["-DGLM_FORCE_DEPTH_ZERO_TO_ONE"]), ("Gen_C09_LHZO", ["-DGLM_FORCE_LEFT_HANDED", "-DGLM_FORCE_DEPTH_ZERO_TO_ONE"])]
    stats = par([lambda m=m, fl=fl: run.build_trace("tr_C09", m, ["-DVT_NO_ASSERT"] + fl) for m, fl in cfgs])
    trace_cov(run, stats)
    gens = [os.path.join(run.dir, m + ".v") for m, _ in cfgs if os.path.exists(os.path.join(run.dir, m + ".v"))]
    run.prove(gens, ["C09/P_C09.v"], ["C09/P_C09_lookat.v", "C09/P_C09_rigid.v", "C09/P_C09_t2.v"], "C09/Properties_C09.v")
    fails = oracle_sweep(run, "C09", [("rh", []), ("lh", ["-DGLM_FORCE_LEFT_HANDED"]), ("rh_zo", ["-DGLM_FORCE_DEPTH_ZERO_TO_ONE"]), ("lh_zo", ["-DGLM_FORCE_LEFT_HANDED", "-DGLM_FORCE_DEPTH_ZERO_TO_ONE"]), SIMD_AVX2], run.tier)
    run.fails = run.triage(fails)
    run.assumptions = ["real-number semantics of the traced float expressions",
                       "partial: decompose/recompose (with and without a perspective partition), gtx interpolate / axisAngle / axisAngleMatrix / extractMatrixRotation are exercised by oracle_C09 only (testing), not proved; lookAt's rigidity (orthonormal rows, det +1, up in the +y half-plane) is a theorem"]
    return run.finish(TRUST_COMMON + ["oracle_C09.cpp (violation search; the only check of decompose and of the lookAt orthonormality/up-direction clauses)"],
                      "theorems: all matrix/vector/angle values symbolic; oracle: random base matrices, axes scaled 1e-3..50, angles over +-2 turns, eye/center/up triples, T*R*K*S compositions with and without skew, float and double, RH and LH builds",
                      CHECKER)


# ------------------------------------------------------------------------------------------ C13
def run_C13(run):
    cfgs = [("Gen_C13", []), ("Gen_C13_WXYZ", ["-DGLM_FORCE_QUAT_DATA_WXYZ"]), ("Gen_C13_XYZW", ["-DGLM_FORCE_QUAT_DATA_XYZW"])]
    stats = par([lambda m=m, fl=fl: run.build_trace("tr_C13", m, fl) for m, fl in cfgs])
    trace_cov(run, stats)
    gens = [os.path.join(run.dir, m + ".v") for m, _ in cfgs if os.path.exists(os.path.join(run.dir, m + ".v"))]
    run.prove(gens, [], ["C13/P_C13.v", "C13/P_C13_cfg.v", "C13/P_C13_dual.v", "C13/P_C13_mix.v"], "C13/Properties_C13.v")
    fails = oracle_sweep(run, "C13", [("default", []), ("wxyz", ["-DGLM_FORCE_QUAT_DATA_WXYZ"]), ("xyzw", ["-DGLM_FORCE_QUAT_DATA_XYZW"]), SIMD_AVX2, ("simd_sse2_wxyz", SIMD_SSE2[1] + ["-DGLM_FORCE_QUAT_DATA_WXYZ"])], run.tier)
    run.fails = run.triage(fails)
    run.assumptions = ["real-number semantics: acos/sin/cos are the real functions; the 'no NaN' statement is the real-valued guard (acos argument in [0,1-eps], sin(theta) <> 0) plus the assumption that libm's acos/sin return non-NaN values on in-range arguments",
                       "float-level effects (a dot product rounding above 1) are not visible in the real model: they are exercised by oracle_C13 (identical / nearly parallel / nearly antipodal pairs) - testing",
                       "slerp(x,y,t) = +-slerp(y,x,1-t), squad and intermediate: traced, covered by the storage-macro identity theorem, semantic statements by the oracle only; shortMix, fastMix and the dual-quaternion lerp are theorems"]
    return run.finish(TRUST_COMMON + ["oracle_C13.cpp: long-double reference slerp (violation search)"],
                      "theorems: all quaternion components and t symbolic; oracle: six classes of angular separation (generic, 1e-9..1e-1 rad, identical, pi-1e-9.., around the linear-fallback threshold, orthogonal) x both hemispheres x t in [-2,3] x spins -3..3 x float/double x 3 storage configurations",
                      CHECKER)


# ------------------------------------------------------------------------------------------ C01
def run_C01(run):
    stats, mods, bins = gen_and_trace(run, "gen_C01.py", [run.tier], trials=6)
    trace_cov(run, stats)
    gens = [os.path.join(run.dir, m + ".v") for m in mods]
    res = run.coq_parallel(gens)
    for f, (ok, out, err, dt) in res.items():
        if not ok: run.broken.append({"what": "generated model %s is not accepted by Coq" % os.path.basename(f), "detail": err[-1500:]})
    allf = write_all_module(run, "Gen_C01", mods)
    ok = run.prove([allf], [], ["C01/P_C01.v"], "C01/Properties_C01.v")
    if not ok:
        src = open(os.path.join(core.VERIF, "coq", "props", "C01", "P_C01.v")).read()
        pre = src.split("Lemma every_vector_overload")[0]
        mid = src.split("(* matrix versions")[1].split("Lemma matrix_functions_act")[0]
        out = run.coq_eval("Fail_C01", pre + "Eval vm_compute in failing.\n(* matrix versions" + mid + "Eval vm_compute in failing_m.\n")
        names = re.findall(r'"(cwm?_[A-Za-z0-9_]+)"', out)
        run.cov["model_level_failing_entries"] = names[:60]
        if names:
            run.broken.append({"what": "vector overloads whose component expression is not the scalar overload's: " + ", ".join(names[:20]), "detail": "entries of the regenerated catalogue failing lift_ok / cwm_ok"})
    fails = oracle_sweep(run, "C01", [("float", ["-DORC_PART_FLOAT"]), ("double", ["-DORC_PART_DOUBLE"]), ("int", []), ("simd_avx2_float", ["-DORC_PART_FLOAT"] + SIMD_AVX2[1]), ("simd_sse2_int", SIMD_SSE2[1])], run.tier)
    run.fails = run.triage(fails)
    run.assumptions = ["float (f32) and int/uint (32-bit) element types are traced; 8/16/64-bit integers, double and the mediump/lowp qualifiers are exercised by oracle_C01 only (testing): a tracing scalar does not fit in 8/16 bits",
                       "lowp inversesqrt (a specialisation on the concrete type float) is outside the trace: its 2^-8 relative error is tested by the oracle, not proved",
                       "3-operand fmin/fmax are exempt from the tree identity (different NaN cascades in scalar and vector overloads): oracle only",
                       "functions returning concrete int vectors (bitCount, findLSB, findMSB, iround, uround), frexp/ldexp/modf and the bit casts are not traceable: covered by C05/C11/C18 hand models"]
    return run.finish(TRUST_COMMON + ["gen_C01.py: the table of component-wise functions, operators and overload shapes", "oracle_C01.cpp (violation search; sole check of the items listed under assumptions)"],
                      "finite enumeration of (function, overload shape, length 1-4, kind); component values symbolic (all values, every special value). Oracle: special-value lattice + random values, 10 element types, 3 qualifiers",
                      CHECKER)


# ------------------------------------------------------------------------------------------ C07
TRUST_H = [
    "Coq 8.16.1 kernel (coqc) including the vm_compute virtual machine; native_compute is not used",
    "hand-written Gallina model (coq/models) of the concrete bit-level code: MODELLED, not verified; tied to /repo by the correspondence check on every run (implementation driver tools/corr/impl_*.cpp vs the model extracted to OCaml)",
    "extraction: ExtrOcamlBasic only (Extract Inductive bool, option, unit, list, prod, sumbool -> OCaml's); no Extract Constant; Z stays the extracted Coq datatype; OCaml 4.13 runtime; corr_driver.ml line protocol",
    "generator coverage of the correspondence inputs bounds what a mismatch can reveal (distribution recorded below)",
]

def run_C07(run):
    run.prove([], [], ["C07/P_C07_h2f.v", "C07/P_C07_f2h.v"], "C07/Properties_C07.v")
    run.run_corr("impl_C07.cpp", [run.seed, run.tier])
    fails = oracle_sweep(run, "C07", [("f16c", ["-mf16c", "-pthread"])], "thorough", opt="-O2")   # the complete 2^32 sweep takes 5 s: always run it
    run.fails = run.triage(fails)
    run.assumptions = ["overflow()'s volatile side effect (raising a hardware floating-point overflow) is not modelled",
                       "oracle: hardware F16C conversions are taken as the IEEE-754 binary16 reference (round-to-nearest-even; one code of slack on exact ties, where the property allows either neighbour)",
                       "monotonicity over all floats is implied by the nearest-neighbour theorems and tested pairwise by the oracle; it is not a separate theorem"]
    run.samples.append("correspondence: all 65536 half patterns x {toFloat32, unpackHalf1x16, 2x16, 4x16, unpackHalf<1..4>}; float->half: 256 exponents x 2 signs x (21 boundary fractions + 48 single-bit/run fractions + 60 random) + 5 ulp around every 5th half and midpoint + 50k random x {toFloat16, packHalf1x16, 2x16, 4x16, packHalf<2..4>}")
    return run.finish(TRUST_H + ["oracle_C07.cpp: complete enumeration of the 2^32 float patterns and 2^16 half patterns against hardware F16C (violation search)"],
                      "theorems: half->float exhaustive over 2^16 patterns (vm_compute, finite domain); float->half for every biased exponent range with the 23-bit fraction symbolic (lia/nia): all 2^32 patterns. Correspondence inputs are distinct by construction.",
                      "coqc -Q /verif/coq/lib GLMV -Q /verif/coq/models GLMM -Q /verif/_work/C07 W {P_C07_h2f.v, P_C07_f2h.v, Properties_C07.v}; tools/corr/impl_C07 | coq/extract/corr_model")


# ------------------------------------------------------------------------------------------ C05
def run_C05(run):
    shards = ["C05/P_C05_w16_%d.v" % k for k in range(8)]
    run.prove([], ["C05/A_C05_defs.v", "C05/P_C05_count.v"], ["C05/P_C05_w8.v", "C05/P_C05_general.v", "C05/P_C05_reverse.v", "C05/P_C05_msb.v", "C05/P_C05_insert.v"] + shards, "C05/Properties_C05.v", timeout=1500)
    run.run_corr("impl_C05.cpp", [run.seed, run.tier])
    fails = oracle_sweep(run, "C05", [("all", []), ("simd", ["-msse2", "-DGLM_FORCE_INTRINSICS", "-DGLM_FORCE_DEFAULT_ALIGNED_GENTYPES"]), ("avx2", ["-mavx2", "-DGLM_FORCE_INTRINSICS", "-DGLM_FORCE_DEFAULT_ALIGNED_GENTYPES"])], run.tier, opt="-O1")
    run.fails = run.triage(fails)
    run.assumptions = ["bitCount, findLSB, findMSB, bitfieldReverse, bitfieldInsert and unsigned bitfieldExtract are theorems for every value of every 8/16/32/64-bit element type, about the hand model IntFn.v (the ladders with the masks and shifts of func_integer.inl); the model is tied to the compiled code by the correspondence check and the bit-by-bit oracle (testing)",
                       "the vector overloads are tied to the scalar model by the correspondence driver (one lane carries the operand) and by C01's lift theorem for bitfieldExtract/Insert/Reverse",
                       "GLM_HAS_BITSCAN_WINDOWS paths (MSVC intrinsics) are not compiled here and not modelled"]
    run.samples.append("correspondence: all 256 values of int8/uint8 exhaustively; 2500 structured values (0, ~0, single bit, single zero, run of ones, INT_MIN/MAX, 0x55.., 0xAA.., small, random) for 16/32/64-bit; random (offset,bits) fields incl. zero-width and full-width; scalar and vector overloads")
    return run.finish(TRUST_H + ["oracle_C05.cpp: loop-based one-bit-at-a-time references (violation search)"],
                      "theorems: every value of the 8/16/32/64-bit element types for bitCount/findLSB/findMSB/bitfieldReverse/bitfieldInsert/unsigned bitfieldExtract (and again exhaustively over all 8- and 16-bit values); all 32-bit operand pairs for carry/borrow/extended multiplication",
                      "coqc (lib/PopLadder, lib/OrHom, A_C05_defs, P_C05_count, P_C05_msb, P_C05_insert, P_C05_reverse, P_C05_w8, P_C05_w16_0..7, P_C05_general, Properties_C05); tools/corr/impl_C05 | coq/extract/corr_model")


# ------------------------------------------------------------------------------------------ C18
def ladder_validation(run):
    """translator self-validation: the real overloads and the translated programs (evaluated by vm_compute) on the same arguments"""
    exe = os.path.join(run.dir, "impl_C18_ladders")
    ok, err = run.build_cpp(os.path.join(core.VERIF, "tools", "corr", "impl_C18_ladders.cpp"), exe, [], opt="-O1")
    if not ok:
        run.broken.append({"what": "ladder validation driver does not compile against /repo", "detail": err[-2000:]}); return
    rc, out, err, dt = core.sh([exe, str(run.seed)], timeout=300)
    cases = []
    for l in out.split("\n"):
        t = l.split()
        if len(t) < 4 or "=" not in t: continue
        i = t.index("="); cases.append((t[0], [int(x, 16) for x in t[1:i]], [int(x, 16) for x in t[i + 1:]]))
    byname = {}
    for nm, a, r in cases: byname.setdefault(nm, []).append((a, r))
    txt = ["Require Import ZArith List Bool. Import ListNotations.", "From GLMV Require Import OrHom.", "From W Require Import A_C18_defs Gen_C18_ladders.", "Local Open Scope Z_scope.",
           "Definition zl_eqb (a b : list Z) : bool := (length a =? length b)%nat && forallb (fun p => fst p =? snd p) (combine a b)."]
    names = sorted(byname)
    for nm in names:
        rows = "; ".join("([%s], [%s])" % ("; ".join(map(str, a)), "; ".join(map(str, r))) for a, r in byname[nm])
        f = "(fun ar => zl_eqb (run_de %s (hd 0 (fst ar))) (snd ar))" % nm if nm.startswith("de_") else "(fun ar => zl_eqb [run_il %s (fst ar)] (snd ar))" % nm
        txt.append("Eval vm_compute in (map %s [%s])." % (f, rows))
    res = run.coq_eval("Val_C18_ladders", "\n".join(txt) + "\n")
    lists = re.findall(r"=\s*\[([^\]]*)\]", res.replace("\n", " "))
    bad = []
    if len(lists) != len(names):
        run.broken.append({"what": "ladder translator validation could not be evaluated", "detail": res[-1500:]}); return
    for nm, l in zip(names, lists):
        vals = [v.strip() for v in l.split(";")]
        for (a, r), v in zip(byname[nm], vals):
            if v != "true": bad.append("%s args=%s impl=%s" % (nm, [hex(x) for x in a], [hex(x) for x in r]))
    run.cov["ladder_translator_validation_cases"] = len(cases)
    if bad:
        run.broken.append({"what": "ladder translator validation: the translated program disagrees with the compiled overload for " + ", ".join(sorted(set(b.split()[0] for b in bad))), "detail": "\n".join(bad[:10])})


def run_C18(run):
    gen = os.path.join(run.dir, "Gen_C18_ladders.v")
    rc, out, err, dt = core.sh(["python3", os.path.join(core.VERIF, "tools", "trace", "gen_C18.py"), core.REPO, gen], timeout=120)
    run.logonly("== gen_C18", out.strip(), err.strip())
    gens = [gen]
    if rc != 0:
        run.broken.append({"what": "ladder translator gen_C18.py cannot read glm/gtc/bitfield.inl (statement outside the ladder grammar)", "detail": (err or out)[-1500:]})
        open(gen, "w").write("(* translator failed *)\n")
    else:
        run.cov["ladders_translated"] = out.strip()
    shards = ["C18/P_C18_w16_%d.v" % k for k in range(8)] + ["C18/P_C18_sqrt_%d.v" % k for k in range(4)]
    run.prove(gens, ["C18/A_C18_defs.v", "C05/P_C05_count.v", "C05/P_C05_msb.v"], ["C18/P_C18_ladders.v", "C18/P_C18_w8.v", "C18/P_C18_general.v", "C18/P_C18_pow2.v", "C18/P_C18_nsb.v"] + shards, "C18/Properties_C18.v", timeout=1500)
    if rc == 0: ladder_validation(run)
    run.run_corr("impl_C18.cpp", [run.seed, run.tier], flags=["-fwrapv"])
    fails = oracle_sweep(run, "C18", [("all", ["-fwrapv", "-pthread"])], run.tier, opt="-O1")
    run.fails = run.triage(fails)
    run.assumptions = ["32/64-bit element types: the rotations (refuted: known findings) and sqrt beyond 65535 are NOT theorems on those widths; isPowerOfTwo, ceil/floor/roundPowerOfTwo, highestBitValue, powerOfTwoAbove/Below/Nearest, lowestBitValue, nlz and findNSB (every count) are; they are covered by the correspondence check and the loop-based oracle on boundary, single-bit, power+-1 and random values (testing)",
                       "floating ceil/floor/roundMultiple: modelled only on a dyadic grid (Source = s/2^e, Multiple = m/2^e, |s| <= 10^6, m <= 4000, e <= 5) where every operation is exact; no theorem about rounding off the grid",
                       "the vector overloads are tied to the scalar model by the correspondence driver (one lane carries the operands) and the oracle's scalar-vs-vector comparison",
                       "signed 32/64-bit arithmetic is modelled as wrapping and the drivers are built with -fwrapv; overflowing cases are formally undefined (property C20)",
                       "the signed bitfieldInterleave overloads (union punning) are checked by the translator's pattern match and the oracle, not stated as theorems"]
    run.samples.append("correspondence: all 256 values of int8/uint8 exhaustively; 1500 structured values per wider type (0..9, ~0, 2^k, 2^k+-1, 3*2^k, -2^k, type min/max, top power + 1..5, small negatives, random) crossed with structured multiples (1, 1..17, special), every count for findNSB, random shifts and fields; floating multiples on the dyadic grid incl. exact multiples; gtx pow/sqrt/mod/factorial/nlz")
    return run.finish(TRUST_H + ["tools/trace/gen_C18.py: translator of the interleave/deinterleave ladders (statement grammar; validated on every run against the compiled overloads by vm_compute)",
                                 "oracle_C18.cpp: loop-based one-bit-at-a-time references (violation search; sole check of the 32/64-bit items listed as not theorems)"],
                      "theorems: every argument value for the translated interleave/deinterleave ladders (2^16..2^64 tuples); every width and value for ceil/floor/next/prevMultiple, isMultiple, mask, fill structure, gtx mod/pow; exhaustive over all 8- and 16-bit values (every count, shift, field) for the power-of-two family, findNSB, rotations; sqrt(int/uint) = floor sqrt for every 32-bit x (Newton loop: invariant + termination inside the model's fuel); factorial for every width and every n with n! a value of T",
                      "gen_C18.py; coqc (Gen_C18_ladders, A_C18_defs, P_C18_ladders, P_C18_w8, P_C18_w16_0..7, P_C18_sqrt_0..3, P_C18_general, P_C05_count, P_C05_msb, P_C18_pow2, P_C18_nsb, Properties_C18); tools/corr/impl_C18 | coq/extract/corr_model")


# ------------------------------------------------------------------------------------------ C14
def run_C14(run):
    stats = par([lambda: run.build_trace("tr_C14", "Gen_C14", [])])
    trace_cov(run, stats)
    gens = [os.path.join(run.dir, "Gen_C14.v")] if os.path.exists(os.path.join(run.dir, "Gen_C14.v")) else []
    run.prove(gens, [], ["C14/P_C14_general.v", "C14/P_C14_eps.v"], "C14/Properties_C14.v", timeout=900)
    run.run_corr("impl_C14.cpp", [run.seed, run.tier])
    fails = oracle_sweep(run, "C14", [("all", ["-pthread"])], run.tier, opt="-O1")
    run.fails = run.triage(fails)
    run.assumptions = ["std::nextafter is the C library's: the model's `nextafter` is the IEEE-754 function; it is compared on every run with libm (through nextFloat/prevFloat) and with the bundled Sun implementation in scalar_ulp.inl by the correspondence check, and over every float pattern by the oracle (thorough tier: all 2^32; quick: every 1021st plus all binade boundaries)",
                       "comparisons with an epsilon: the theorems are over the reals (the subtraction x - y is exact); in floating point fl(x - y) may round onto epsilon, so 'exactly when |x - y| <= epsilon' holds up to that one rounding (monotonicity of rounding gives: |x - y| <= epsilon implies true); the oracle compares with |fl(x - y)| <= epsilon",
                       "the matrix and quaternion epsilon overloads and the scalar float/double specialisations of epsilonEqual are traced or compared by the oracle only (the 2x2 matrix theorem checks in 4.5 minutes and is left out of the quick tier)",
                       "NaN and infinite arguments, nextFloat(+max), prevFloat(-max) and distances that do not fit the result type are outside the statements"]
    run.samples.append("correspondence / oracle values: +-0, smallest and largest subnormals, smallest normals, both sides of random binade boundaries, +-max and below, 1.0 + k ulp, random finite patterns, both signs; second operands 0..69 ranks away in either direction (crossing zero), x and -x, independent values; MaxULPs in -4..75 and exactly the distance; epsilon on a 1/64 grid with |x - y| == epsilon hit on purpose, negative epsilon, generic values")
    return run.finish(TRUST_H + TRUST_COMMON[2:3] + ["oracle_C14.cpp: integer arithmetic on the IEEE total order (violation search)"],
                      "theorems: every format (mb, w), instantiated for float and double, every finite pattern, every step count / MaxULPs that fits; epsilon comparisons: every real x, y, epsilon",
                      "tools/trace (tr_C14); coqc (Gen_C14, P_C14_general, P_C14_eps, Properties_C14); tools/corr/impl_C14 | coq/extract/corr_model")


# ------------------------------------------------------------------------------------------ C06
def run_C06(run):
    big = ["C06/P_C06_u16lit.v", "C06/P_C06_u16inv.v", "C06/P_C06_s16lit.v", "C06/P_C06_s16inv.v"]
    run.prove([], ["C06/A_C06_defs.v"], ["C06/P_C06_small.v"] + big, "C06/Properties_C06.v", timeout=1200)
    run.run_corr("impl_C06.cpp", [run.seed, run.tier])
    run.run_corr("impl_C07.cpp", [run.seed, run.tier])            # the half formats (packHalf*): model GLMM.Half, theorems in C07
    fails = oracle_sweep(run, "C06", [("all", ["-pthread"])], run.tier, opt="-O1")
    cov6 = dict(run.cov)
    fails += oracle_sweep(run, "C07", [("f16c", ["-mf16c", "-pthread"])], "thorough", opt="-O2")   # every float / half pattern against hardware F16C (5 s)
    run.cov["oracle_cases"] = cov6.get("oracle_cases", 0) + run.cov.get("oracle_cases", 0)
    run.fails = run.triage(fails)
    run.assumptions = ["binary32 arithmetic in the model is Coq's executable IEEE-754 specification (Floats.SpecFloat: SFmul, SFdiv, SFltb, binary_normalize, prec 24, emax 128); the compiled code's float multiply / divide / compare / int-to-float conversion are assumed IEEE (checked on every run by the correspondence: every code of every field, structured and random floats)",
                       "'packing any real x decodes within half a quantisation step', clamping of arbitrary out-of-range values and monotonicity of PACKING are NOT theorems: the oracle checks them on rounding midpoints and their float neighbours, range ends, random values, and (thorough tier) every non-NaN float pattern for the scalar pack functions",
                       "packF3x9_E1x5 / unpackF3x9_E1x5 (libm log2, pow), packRGBM, the double-precision packUnorm/packSnorm templates and the vector packHalf overloads are not modelled: oracle only (decode values against ldexp, round trips, one mantissa step)",
                       "NaN inputs of the normalised formats (float-to-integer conversion of NaN is undefined: property C20) and std::round under pre-C++11 fallbacks (property C15) are outside the statements",
                       "half-precision formats (packHalf1x16/2x16/4x16, packHalf<L>): the theorems are property C07's; this check re-runs their correspondence and the complete F16C sweep"]
    run.samples.append("correspondence: unpack on every code of every field of every format (16-bit fields of multi-field formats: every 7th code in the quick tier, all in the thorough tier) with random other fields; pack on code centres k/scale, rounding midpoints (k+0.5)/scale and both float neighbours, +-1 and neighbours, +-0, out-of-range and negative values, subnormals, +-inf, half a step, random values; integer formats on random words; every code of the 11/10-bit float fields and structured floats (normal range, negative, below 2^-14, above 65024, inf)")
    return run.finish(TRUST_H + ["Coq.Floats.SpecFloat as the meaning of binary32 arithmetic", "oracle_C06.cpp: double / integer references (violation search; sole check of the items listed under assumptions)"],
                      "theorems: every code (2^1..2^16) of every normalised field with both decode constants that occur in the source; every word of every format whose fields are canonical; every word of the integer formats; every code of the 11- and 10-bit float fields",
                      "coqc (A_C06_defs, P_C06_small, P_C06_u16lit/u16inv/s16lit/s16inv, Properties_C06); tools/corr/impl_C06 | coq/extract/corr_model")


# ------------------------------------------------------------------------------------------ C19
def run_C19(run):
    stats = par([lambda: run.build_trace("tr_C19", "Gen_C19", [])])
    trace_cov(run, stats)
    gens = [os.path.join(run.dir, "Gen_C19.v")] if os.path.exists(os.path.join(run.dir, "Gen_C19.v")) else []
    run.prove(gens, [], ["C19/P_C19_int.v", "C19/P_C19_real.v", "C19/P_C19_lowp.v"], "C19/Properties_C19.v", timeout=900)
    fails = oracle_sweep(run, "C19", [("all", ["-pthread"])], run.tier, opt="-O1")
    run.fails = run.triage(fails)
    run.assumptions = ["floating conversions: real-number semantics (pow is the real power function, every operation exact) with the binary32 values of the source constants; float rounding is outside the theorems and is exercised by the oracle (tolerance 3e-6 float / 1e-9 double against a double reference)",
                       "HSV: rgbColor switches on int(sector), a conversion of a traced float to a concrete int, which the tracer does not enumerate; rgbColor/hsvColor (range, value = max, mutual inverse on the cube and over the full hue circle incl. sector boundaries) are covered by the oracle only; hsvColor returns a NaN hue for grey colours, which the property leaves undefined",
                       "the 3- and 4-component sRGB overloads are tied to the one-component theorem by the alpha theorem (syntactic) and the oracle's per-component comparison; the lowp vec3 convertLinearToSRGB approximation (a different formula) is a hand model (P_C19_lowp.v: the refutation of range and monotonicity below the threshold) tied to the compiled function by the oracle (within 2e-6 of the modelled formula on every sampled input); its accuracy from the threshold upwards (2e-3) is checked by the oracle only",
                       "YCoCg-R on 8/16-bit element types (integer promotion) is covered by the oracle: all 2^24 8-bit triples for uint8, int16, int, uint32 (int8 strided in the quick tier) and a 16-bit lattice; the theorems are for unbounded integers and for int32 with wrap-around",
                       "the reverse composite rgb2YCoCgR(YCoCgR2rgb(x)) is proved for unbounded integers only"]
    run.samples.append("oracle: all 2^24 8-bit RGB triples x {uint8, int16, int, uint32} + int8 + 16-bit lattice; sRGB: grid i/60000 and random x in [0,1], the thresholds 0.0031308 and 0.04045 +- 1e-5, successor pairs for monotonicity, gamma random in [1,3] and exactly 2.4; HSV: random and 1/8-lattice colours incl. equal channels, hues at 60k and random over [0,360); saturation s in [0,2]")
    return run.finish(TRUST_COMMON + ["Interval tactic (interval arithmetic with 60/64-bit software floats over Bignums; brings the standard library's Uint63 primitive-integer axioms) for the numeric facts about the sRGB constants",
                                      "oracle_C19.cpp: double-precision references (violation search; sole check of HSV)"],
                      "theorems: every integer triple (unbounded, and int32 with wrap-around) for YCoCg-R; every real input for YCoCg, the sRGB curves (monotone, range, end points, inverse within 1e-5), saturation, luminosity; alpha syntactically in every leaf",
                      CHECKER)


# ------------------------------------------------------------------------------------------ C16
def run_C16(run):
    import importlib.util, shlex
    spec = importlib.util.spec_from_file_location("c16cfg", os.path.join(core.VERIF, "tools", "layout", "configs.py")); m = importlib.util.module_from_spec(spec); spec.loader.exec_module(m)
    probe = os.path.join(run.dir, "layout_probe.cpp")
    core.sh(["python3", os.path.join(core.VERIF, "tools", "layout", "gen_C16.py"), probe], timeout=60)
    lines = {}
    def one(name, flags):
        exe = os.path.join(run.dir, "probe_" + name); fl = shlex.split(flags); std = "gnu++17"
        if any(f.startswith("-std=") for f in fl): std = [f for f in fl if f.startswith("-std=")][0][5:]; fl = [f for f in fl if not f.startswith("-std=")]
        ok, err = run.build_cpp(probe, exe, fl, std=std, opt="-O0")
        if not ok: return name, None, err
        rc, out, err2, dt = core.sh([exe], timeout=120)
        if rc != 0: return name, None, "probe crashed rc=%d %s" % (rc, err2[-500:])
        txt = os.path.join(run.dir, "layout_%s.txt" % name); open(txt, "w").write(out)
        rc, o2, e2, dt = core.sh(["python3", os.path.join(core.VERIF, "tools", "layout", "to_coq.py"), txt, os.path.join(run.dir, "Gen_C16_%s.v" % name), name, flags or "(none)"], timeout=60)
        if rc != 0: return name, None, e2 or o2
        return name, [l for l in out.split("\n") if l and not l.startswith("CONFIG")], None
    gens = []; nrec = 0
    for name, recs, err in par([lambda n=n, f=f: one(n, f) for n, f in m.CONFIGS]):
        g = os.path.join(run.dir, "Gen_C16_%s.v" % name)
        if recs is None:
            run.broken.append({"what": "layout probe does not build / run under configuration %s" % name, "detail": (err or "")[-2000:]})
            open(g, "w").write("(* probe failed *)\n")
        else:
            lines[name] = recs; nrec += len(recs)
        gens.append(g)
    run.cov["configurations"] = len(m.CONFIGS); run.cov["layout_records"] = nrec
    ok = run.prove(gens, ["C16/A_C16_defs.v"], [], "C16/Properties_C16.v", timeout=900)
    # violation search: the records that do not satisfy the contract, per configuration (evaluated in Coq on the regenerated tables)
    fails = []
    good = [n for n, _ in m.CONFIGS if n in lines]
    txt = ["Require Import ZArith List Bool. Import ListNotations. From GLMV Require Import Layout.", "From W Require Import A_C16_defs " + " ".join("Gen_C16_" + n for n in good) + "."]
    for n in good: txt.append("Eval vm_compute in (violations Gen_C16_%s.cfg Gen_C16_%s.table)." % (n, n))
    res = run.coq_eval("Viol_C16", "\n".join(txt) + "\n")
    outs = re.findall(r"=\s*(\[[^\]]*\]|nil)", res.replace("\n", " "))
    if len(outs) != len(good):
        run.broken.append({"what": "the violation listing could not be evaluated", "detail": res[-1500:]})
    else:
        flagsof = dict(m.CONFIGS)
        for n, o in zip(good, outs):
            idx = [int(x) for x in re.findall(r"\d+", o)]
            for i in idx:
                rec = lines[n][i] if i < len(lines[n]) else "?"
                t = rec.split()
                cls = "%s %s" % (n, " ".join(t[:4 if t[0] != "MAT" else 5]))
                fails.append({"fn": "layout", "class": cls, "input": "configuration %s (%s): %s" % (n, flagsof[n] or "no macro", rec), "expected": "GLMV.Layout.rec_ok", "got": "violated", "line": rec})
    run.cov["oracle_functions_failing"] = sorted(set(f["class"] for f in fails))[:20]
    run.fails = run.triage(fails)
    run.assumptions = ["the layout facts are what g++ 12.2 assigns (sizeof, alignof, addresses of components of an object in a 64-byte aligned buffer); other compilers / ABIs are outside the statement",
                       "value_ptr / make_* round trips are observed by the probe at run time on one object per type (distinct component values) and enter the table as a boolean; they are not re-derived in Coq",
                       "configurations are those listed in tools/layout/configs.py (16, among them every SIMD level available in the sandbox: SSE2, SSE4.2, AVX, AVX2); NEON and the MSVC union layout are not reachable here",
                       "GLM_FORCE_DEFAULT_ALIGNED_GENTYPES without SIMD does not compile (compute_vec_mul<4,float,aligned_highp,true>::call is missing: property C15's domain) and is therefore not in the list"]
    run.samples.append("per configuration: 4 lengths x 11 element types x (4 packed/default + 3 aligned qualifiers) vectors, 9 shapes x 3 element types x qualifiers matrices, 2 x qualifiers quaternions, make_* from raw arrays for 4 element types")
    return run.finish(["Coq 8.16.1 kernel (coqc) including the vm_compute virtual machine", "the layout extractor tools/layout (gen_C16.py probe generator, to_coq.py) and g++'s sizeof/alignof/address arithmetic", "GLMV.Layout.rec_ok: the contract, read not proved"],
                      "theorems: every record of every configuration satisfies the contract (finite product, by computation) and the contract implies contiguity / column-major order / value_ptr indexing / quaternion order for every record",
                      "tools/layout/gen_C16.py; g++ <config flags>; tools/layout/to_coq.py; coqc (Gen_C16_<cfg> x16, A_C16_defs, Properties_C16)")


# ------------------------------------------------------------------------------------------ C11
def run_C11(run):
    stats = par([lambda: run.build_trace("tr_C11", "Gen_C11", ["-DVT_NO_ASSERT"])])
    trace_cov(run, stats)
    gens = [os.path.join(run.dir, "Gen_C11.v")] if os.path.exists(os.path.join(run.dir, "Gen_C11.v")) else []
    gc = os.path.join(run.dir, "Gen_C11_consts.v")
    rc, out, err, dt = core.sh(["python3", os.path.join(core.VERIF, "tools", "trace", "gen_C11_consts.py"), core.REPO, gc], timeout=60)
    if rc != 0:
        run.broken.append({"what": "constants translator gen_C11_consts.py cannot read the constant definitions", "detail": (err or out)[-1500:]}); open(gc, "w").write("(* translator failed *)\n")
    else: run.cov["constants_translated"] = out.strip()
    run.prove(gens + [gc], [], ["C11/P_C11_real.v", "C11/P_C11_nan.v", "C11/P_C11_round.v", "C11/P_C11_consts.v"], "C11/Properties_C11.v", timeout=900)
    run.run_corr("impl_C11.cpp", [run.seed, run.tier], flags=["-DNDEBUG"])
    fails = oracle_sweep(run, "C11", [("all", ["-pthread", "-DNDEBUG"])], run.tier, opt="-O1")
    # the SIMD builds always run the quick corpus: the complete 2^32 sweep three times over takes 18 minutes and belongs to the pure build
    cases_all = run.cov.get("oracle_cases", 0)
    fails += oracle_sweep(run, "C11", [("simd_avx2", ["-pthread", "-DNDEBUG"] + SIMD_AVX2[1]), ("simd_sse2", ["-pthread", "-DNDEBUG"] + SIMD_SSE2[1])], "quick", opt="-O1")
    run.cov["oracle_cases"] = cases_all + run.cov.get("oracle_cases", 0)
    run.fails = run.triage(fails)
    run.assumptions = ["traced functions: real-number semantics (exact arithmetic; floor/ceil/trunc/round are Flocq's Zfloor/Zceil/Ztrunc/ZnearestA); the rounding of each float operation (e.g. fract(-1e-8f) = 1) is outside the theorems and is covered by the oracle, which recomputes the GLSL formula in the same type",
                       "NaN semantics for fmin/fmax/fclamp: a value is a real number or NaN; infinities and signed zeros are not distinguished (oracle: the full special-value lattice incl. +-0, +-inf, NaN to the 4th power)",
                       "roundEven / iround / uround convert a float to a concrete int and cannot be traced: hand model with exact rational arithmetic (exact for |x| < 2^31), tied by the correspondence check (ties k+0.5 and their neighbours, integers, small values, both signs; float and double; scalar and vector overloads)",
                       "isnan / isinf / frexp / ldexp / modf / the bit casts are library calls or memcpy: oracle only (every float pattern in the thorough tier)",
                       "constants: the true values are Coq's PI, sqrt, exp, ln, cos; euler (Euler-Mascheroni) has no definition available and is compared with published digits by the oracle only; the double constant is the correctly rounded double of the literal and the float constant that double rounded to binary32 (what the C++ conversions do)"]
    run.samples.append("oracle: every 1531st float pattern (thorough: all 2^32) for floor, ceil, trunc, round, roundEven, fract, modf, frexp/ldexp, abs, sign, isnan, isinf, iround, uround, wrap modes, bit casts; lattice {+-0, +-denorm_min, +-min, +-0.5, +-pred(0.5), +-1, +-1.5, +-2.5, +-2^23, +-2^24, +-2^31, +-max, +-inf, NaN}^4 and ties k+0.5 with neighbours for the n-ary functions, float and double; 27 constants x 2 types")
    return run.finish(TRUST_COMMON + TRUST_H[-3:] + ["tools/trace/gen_C11_consts.py: reads the literal constants from the source text", "Interval tactic (120-bit software interval arithmetic; standard-library Uint63 axioms) for the constants", "oracle_C11.cpp: long-double / integer references (violation search)"],
                      "theorems: every real argument (traced functions), every real-or-NaN operand combination (fmin/fmax/fclamp), every rational argument (roundEven, iround), every constant x {float, double}",
                      CHECKER + "; tools/corr/impl_C11 | coq/extract/corr_model")


# ------------------------------------------------------------------------------------------ C15
def run_C15(run):
    import importlib.util, shlex
    spec = importlib.util.spec_from_file_location("c15cfg", os.path.join(core.VERIF, "tools", "trace", "configs_C15.py")); m = importlib.util.module_from_spec(spec); spec.loader.exec_module(m)
    jobs = []
    for t, tu, tfl in m.TUS:
        for c, fl in [("default", "")] + list(m.CFG):
            jobs.append((tu, "Gen_C15_%s_%s" % (t, c), shlex.split(tfl) + shlex.split(fl)))
    def one(j):
        tu, mod, fl = j; std = "gnu++17"
        if any(f.startswith("-std=") for f in fl): std = [f for f in fl if f.startswith("-std=")][0][5:]; fl = [f for f in fl if not f.startswith("-std=")]
        return run.build_trace(tu, mod, fl, std=std, trials=2)
    stats = par([lambda j=j: one(j) for j in jobs])
    trace_cov(run, stats)
    run.cov["configurations"] = len(m.CFG) + 1; run.cov["translation_units"] = len(m.TUS)
    gens = [os.path.join(run.dir, j[1] + ".v") for j in jobs]
    for g in gens:
        if not os.path.exists(g): open(g, "w").write("(* trace failed *)\n")
    run.prove(gens, ["C15/A_C15_defs.v", "C15/P_C15_fallbacks.v"], [], "C15/Properties_C15.v", timeout=1200)
    # binary comparison of one operation table across configurations and optimisation levels
    src = os.path.join(core.VERIF, "tools", "oracle", "oracle_C15.cpp")
    builds = [("default_O0", [], "-O0")] + [("default_" + o[1:], [], o) for o in ("-O1", "-O2", "-O3")] + [(c + "_O0", shlex.split(fl), "-O0") for c, fl in m.CFG] + [(c + "_O2", shlex.split(fl), "-O2") for c, fl in m.CFG if c in ("cxx11", "inline", "quat_wxyz", "aligned", "xyzw_only", "pure")]
    def tab(b):
        name, fl, opt = b; std = "gnu++17"
        if any(f.startswith("-std=") for f in fl): std = [f for f in fl if f.startswith("-std=")][0][5:]; fl = [f for f in fl if not f.startswith("-std=")]
        exe = os.path.join(run.dir, "table_" + name); ok, err = run.build_cpp(src, exe, fl, std=std, opt=opt)
        if not ok: return name, None, err
        rc, out, e2, dt = core.sh([exe, "table", str(run.seed), run.tier], timeout=600)
        return name, (out.split("\n") if rc == 0 else None), e2
    res = dict((n, (o, e)) for n, o, e in par([lambda b=b: tab(b) for b in builds]))
    base = res["default_O0"][0]; fails = []; ncmp = 0
    if base is None: run.broken.append({"what": "operation table does not build in the default configuration", "detail": (res["default_O0"][1] or "")[-1500:]})
    else:
        for name, (out, err) in res.items():
            if name == "default_O0": continue
            if out is None: run.broken.append({"what": "operation table does not build / run under %s" % name, "detail": (err or "")[-1500:]}); continue
            cfgname = name.rsplit("_", 1)[0]; seen = {}
            for a, b in zip(base, out):
                ncmp += 1
                if a != b:
                    op = a.split(" ")[0]; key = (op, cfgname)
                    if seen.get(key, 0) < 2:
                        seen[key] = seen.get(key, 0) + 1
                        fb = cfgname in ("cxx98", "cxx03") and op in ("round", "roundEven", "iround", "exp2", "log2", "asinh", "acosh", "atanh", "vec_ops", "double")
                        fails.append({"fn": op, "class": ("pre-C++11 fallback body (GLM_FORCE_CXX98 / CXX03)" if fb else "differs under " + name), "input": "build %s, line: %s" % (name, a[:120]), "expected": a[:200], "got": b[:200], "line": a})
            if len(out) != len(base): fails.append({"fn": "table", "class": "differs under " + name, "input": "number of lines", "expected": str(len(base)), "got": str(len(out)), "line": ""})
    run.cov["oracle_cases"] = ncmp; run.cov["oracle_functions_failing"] = sorted(set(f["fn"] for f in fails))[:30]
    run.fails = run.triage(fails)
    run.assumptions = ["identity of the regenerated decision trees gives bit-identical results for the traced templates (same operations, same order, same operands) under the compiler's IEEE arithmetic; the optimiser itself is outside the traces and is compared on a binary corpus (O0/O1/O2/O3, -ffp-contract=off)",
                       "non-template code (packing, half, ULP functions, integer bit tricks, colour HSV) and the functions of the operation table that are not in the seven traced catalogues (exponential, trigonometric) are compared by the oracle only",
                       "GLM_FORCE_CXX98 / CXX03 on a C++17 compiler select the pre-C++11 fallback bodies: fmin / fmax / fclamp / trunc are proved equal in meaning, the others are known findings",
                       "GLM_FORCE_DEFAULT_ALIGNED_GENTYPES without SIMD does not compile (missing compute_vec_mul<4,float,aligned_highp,true>::call) and SIMD configurations are semantic switches (property C03): not in the list"]
    run.samples.append("operation table: 45 operation groups (common, exponential, trigonometric, vector, geometric, matrix, transform, quaternion, Euler, packing, ULP, integer, colour, double, constructors) x 1500 inputs (special values 0.49999997, 8388609, 2^31, +-0, denormal, max mixed with random) x 31 builds")
    return run.finish(TRUST_COMMON + ["oracle_C15.cpp: one operation table built under every configuration / optimisation level, outputs compared line by line (violation search)"],
                      "theorems: every entry of 7 regenerated catalogues x 20 configurations, all argument values symbolic; oracle: 31 builds of the operation table on a common corpus",
                      CHECKER)


# ------------------------------------------------------------------------------------------ C20
def sanitizer_run(run, src, exe_name, flags, args, opt="-O0"):
    """build with UBSan/ASan in recover mode, run, attribute every report to the last `CALL <fn>` marker on stderr"""
    exe = os.path.join(run.dir, exe_name)
    ok, err = run.build_cpp(src, exe, ["-g", "-fsanitize=undefined,float-cast-overflow,address", "-fsanitize-recover=all", "-fno-omit-frame-pointer"] + list(flags), opt=opt)
    if not ok:
        run.broken.append({"what": "sanitizer build of %s failed" % os.path.basename(src), "detail": err[-1500:]}); return [], 0
    env = dict(os.environ, UBSAN_OPTIONS="print_stacktrace=0:halt_on_error=0", ASAN_OPTIONS="halt_on_error=0:detect_leaks=0")
    rc, out, err, dt = core.sh([exe] + [str(a) for a in args], timeout=1200, env=env)
    cur = "?"; fails = []; seen = set()
    for l in err.split("\n"):
        if l.startswith("CALL "): cur = l[5:].strip(); continue
        m = re.match(r"(\S+?):(\d+):(\d+): runtime error: (.*)", l)
        if m:
            kind = re.sub(r"-?\d[\d.e+]*", "N", m.group(4)); kind = re.sub(r"\s+", " ", kind).strip()
            key = (cur, kind)
            if key not in seen:
                seen.add(key); fails.append({"fn": cur, "class": kind, "input": "%s:%s  %s" % (os.path.basename(m.group(1)), m.group(2), m.group(4)[:160]), "expected": "no sanitizer report", "got": "runtime error", "line": l})
        elif "ERROR: AddressSanitizer" in l:
            fails.append({"fn": cur, "class": "AddressSanitizer", "input": l[:200], "expected": "no sanitizer report", "got": "memory error", "line": l})
    cases = 0
    mm = re.search(r"TOTAL cases=(\d+)", out)
    if mm: cases = int(mm.group(1))
    if rc not in (0, 1) and not fails: run.broken.append({"what": "sanitized program %s crashed (rc=%d)" % (exe_name, rc), "detail": (err or out)[-1500:]})
    return fails, cases


def run_C20(run):
    stats = par([lambda: run.build_trace("tr_C20", "Gen_C20", ["-DVT_NO_ASSERT"])])
    trace_cov(run, stats)
    gens = [os.path.join(run.dir, "Gen_C20.v")] if os.path.exists(os.path.join(run.dir, "Gen_C20.v")) else []
    run.prove(gens, ["C20/A_C20_defs.v", "C20/P_C20.v"], [], "C20/Properties_C20.v", timeout=900)
    jobs = [(os.path.join(core.VERIF, "tools", "oracle", "oracle_C20.cpp"), "san_C20_O0", [], ["sweep", run.seed, run.tier], "-O0"),
            (os.path.join(core.VERIF, "tools", "oracle", "oracle_C20.cpp"), "san_C20_O2", [], ["sweep", run.seed, run.tier], "-O2"),
            (os.path.join(core.VERIF, "tools", "oracle", "oracle_C20.cpp"), "san_C20_sse2", ["-DGLM_FORCE_INTRINSICS", "-msse2"], ["sweep", run.seed, run.tier], "-O1"),
            (os.path.join(core.VERIF, "tools", "oracle", "oracle_C20.cpp"), "san_C20_avx2", ["-DGLM_FORCE_INTRINSICS", "-mavx2"], ["sweep", run.seed, run.tier], "-O1")]
    fails = []; total = 0
    for fl, n in par([lambda j=j: sanitizer_run(run, j[0], j[1], j[2], j[3], j[4]) for j in jobs]):
        fails += fl; total += n
    # de-duplicate across builds
    uniq = {}
    for f in fails: uniq.setdefault((f["fn"], f["class"]), f)
    run.cov["oracle_cases"] = total; run.cov["sanitizer_builds"] = [j[1] for j in jobs]
    run.cov["oracle_functions_failing"] = sorted(set(k[0] for k in uniq))[:30]
    run.fails = run.triage(list(uniq.values()))
    run.assumptions = ["theorems cover the integer / bitfield templates instantiated with 32-bit int and unsigned int, as traced; 8/16/64-bit element types, functions that convert a float to int (roundEven, iround), bitCount / findLSB / findMSB (untraceable int conversions), the non-template code (packing, half, ULP) and the SIMD paths are covered by the sanitizer oracle only (testing)",
                       "strict semantics = C++14/17: signed overflow, shift count outside [0, width), left shift of a negative value or of a value whose result is not representable in the unsigned type, division by zero and INT_MIN / -1; unsigned arithmetic wraps and is never an error",
                       "sanitizer oracle: UBSan reports one diagnostic per source location, so the list of classes it prints under-approximates the kinds of UB at one location; out-of-bounds / misaligned / null accesses are observed by ASan on the same runs",
                       "abs / unary minus / isPowerOfTwo / ceilPowerOfTwo of the most negative int, and shifts or divisions outside their C++ preconditions, are outside the documented domains (stated as hypotheses)"]
    run.samples.append("sanitizer inputs: 21 boundary ints (0, +-1, powers of two +-1, INT_MAX, INT_MIN, ...) and random ints; every (offset, bits) field on a 5/3 stride (thorough: all), mask counts 0..40, rotation counts 0..32, fill fields, multiples, float boundary values (0.49999997, ties, 2^23+1, 2^31-128, denormal) for the rounding / packing / ULP functions; builds: -O0, -O2, SSE2 and AVX2 intrinsics")
    return run.finish(TRUST_COMMON + ["oracle_C20.cpp under -fsanitize=undefined,float-cast-overflow,address (violation search; sole check outside the traced integer fragment)"],
                      "theorems: 64 traced integer / bitfield entries, all 2^32 (2^64, 2^96) input combinations symbolic, 50 of them without any precondition; oracle: 4 sanitized builds",
                      CHECKER)


TABLE = {"C03": run_C03, "C20": run_C20, "C15": run_C15, "C11": run_C11, "C16": run_C16, "C19": run_C19, "C06": run_C06, "C14": run_C14, "C18": run_C18, "C05": run_C05, "C07": run_C07, "C01": run_C01, "C13": run_C13, "C09": run_C09, "C04": run_C04, "C02": run_C02, "C10": run_C10, "C08": run_C08, "C17": run_C17, "C12": run_C12}


def replay(pid, path):
    d = json.load(open(path))
    print(json.dumps(d, indent=1)[:4000])
    if d.get("kind") == "failing-input":
        print("re-run: ./check %s --quick   (the oracle sweep is deterministic for a given VERIF_SEED; the cases above are its first failures)" % pid)
    return 0
