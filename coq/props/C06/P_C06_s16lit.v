(* C06: every one of the 65536 codes of the 16-bit field  S 16 32767 k32767  *)
Require Import ZArith List Bool.
Import ListNotations.
From GLMM Require Import Half IntFn Pack.
From W Require Import A_C06_defs.
Local Open Scope Z_scope.
Lemma field16 : field_ok (S 16 32767 k32767) = true. Proof. vm_cast_no_check (eq_refl true). Qed.
