(* C06: every code of the fields of at most 10 bits, the small-float fields, both decode constants of the 8-bit fields *)
Require Import ZArith List Bool.
Import ListNotations.
From GLMM Require Import Half IntFn Pack.
From W Require Import A_C06_defs.
Local Open Scope Z_scope.
Lemma ok_U8k : field_ok (U 8 255 k255) = true. Proof. vm_cast_no_check (eq_refl true). Qed.
Lemma ok_U8i : field_ok (U 8 255 (inv 255)) = true. Proof. vm_cast_no_check (eq_refl true). Qed.
Lemma ok_S8k : field_ok (S 8 127 k127) = true. Proof. vm_cast_no_check (eq_refl true). Qed.
Lemma ok_S8i : field_ok (S 8 127 (inv 127)) = true. Proof. vm_cast_no_check (eq_refl true). Qed.
Lemma ok_S10 : field_ok (S 10 511 (inv 511)) = true. Proof. vm_cast_no_check (eq_refl true). Qed.
Lemma ok_S2 : field_ok (S 2 1 f1) = true. Proof. vm_cast_no_check (eq_refl true). Qed.
Lemma ok_U10 : field_ok (U 10 1023 (inv 1023)) = true. Proof. vm_cast_no_check (eq_refl true). Qed.
Lemma ok_U2 : field_ok (U 2 3 (inv 3)) = true. Proof. vm_cast_no_check (eq_refl true). Qed.
Lemma ok_U4 : field_ok (U 4 15 (inv 15)) = true. Proof. vm_cast_no_check (eq_refl true). Qed.
Lemma ok_U5 : field_ok (U 5 31 (inv 31)) = true. Proof. vm_cast_no_check (eq_refl true). Qed.
Lemma ok_U6 : field_ok (U 6 63 (inv 63)) = true. Proof. vm_cast_no_check (eq_refl true). Qed.
Lemma ok_U1 : field_ok (U 1 1 f1) = true. Proof. vm_cast_no_check (eq_refl true). Qed.
Lemma ok_U3 : field_ok (U 3 7 (inv 7)) = true. Proof. vm_cast_no_check (eq_refl true). Qed.
Lemma sf11 : forallb sf11_ok (zrange 2048%nat 0) && forallb sf11_mono (zrange 2048%nat 0) = true. Proof. vm_cast_no_check (eq_refl true). Qed.
Lemma sf10 : forallb sf10_ok (zrange 1024%nat 0) && forallb sf10_mono (zrange 1024%nat 0) = true. Proof. vm_cast_no_check (eq_refl true). Qed.
