(* Properties_C06.v -- C06: pack/unpack functions are mutually consistent, correctly quantised and laid out.
   Statements about the hand-written model GLMM.Pack (binary32 arithmetic = the standard library's executable IEEE
   specification SpecFloat), tied to the code on every run by the correspondence check (every code of every field
   for unpack, structured and random floats for pack, all formats, layouts included).
   Proved, for EVERY code of every normalised field (2^1 .. 2^16 codes, both decode constants that occur in the source):
   lossless re-pack of canonical codes, unpack.pack.unpack = unpack, decoding monotone in the code, end codes decode to
   exactly 0 / 1 / -1, out-of-range inputs (2, -3, +-inf) clamp to the end codes; lifted to whole words of every format
   by word_roundtrip (any word whose fields are canonical).  Integer formats: bit concatenation round trip for every word.
   Small floats (11/10 bits): every code -- finite codes re-pack losslessly, the Inf code <-> +Inf, NaN codes -> NaN.
   NOT theorems (oracle only): 'within half a quantisation step' and monotonicity of PACKING for every real input,
   packF3x9_E1x5, packRGBM, the double-precision templates.   Half formats: property C07. *)
Require Import ZArith List Bool Lia.
Import ListNotations.
From GLMM Require Import Half IntFn Pack.
From W Require A_C06_defs P_C06_small P_C06_u16lit P_C06_u16inv P_C06_s16lit P_C06_s16inv.
Import A_C06_defs.
Local Open Scope Z_scope.

(* every code of every field that occurs in a format *)
Theorem C06_field_U8k : field_ok (U 8 255 k255) = true. Proof. exact P_C06_small.ok_U8k. Qed.
Theorem C06_field_U8i : field_ok (U 8 255 (inv 255)) = true. Proof. exact P_C06_small.ok_U8i. Qed.
Theorem C06_field_S8k : field_ok (S 8 127 k127) = true. Proof. exact P_C06_small.ok_S8k. Qed.
Theorem C06_field_S8i : field_ok (S 8 127 (inv 127)) = true. Proof. exact P_C06_small.ok_S8i. Qed.
Theorem C06_field_S10 : field_ok (S 10 511 (inv 511)) = true. Proof. exact P_C06_small.ok_S10. Qed.
Theorem C06_field_S2 : field_ok (S 2 1 f1) = true. Proof. exact P_C06_small.ok_S2. Qed.
Theorem C06_field_U10 : field_ok (U 10 1023 (inv 1023)) = true. Proof. exact P_C06_small.ok_U10. Qed.
Theorem C06_field_U2 : field_ok (U 2 3 (inv 3)) = true. Proof. exact P_C06_small.ok_U2. Qed.
Theorem C06_field_U4 : field_ok (U 4 15 (inv 15)) = true. Proof. exact P_C06_small.ok_U4. Qed.
Theorem C06_field_U5 : field_ok (U 5 31 (inv 31)) = true. Proof. exact P_C06_small.ok_U5. Qed.
Theorem C06_field_U6 : field_ok (U 6 63 (inv 63)) = true. Proof. exact P_C06_small.ok_U6. Qed.
Theorem C06_field_U1 : field_ok (U 1 1 f1) = true. Proof. exact P_C06_small.ok_U1. Qed.
Theorem C06_field_U3 : field_ok (U 3 7 (inv 7)) = true. Proof. exact P_C06_small.ok_U3. Qed.
Theorem C06_field_U16k : field_ok (U 16 65535 k65535) = true. Proof. exact P_C06_u16lit.field16. Qed.
Theorem C06_field_U16i : field_ok (U 16 65535 (inv 65535)) = true. Proof. exact P_C06_u16inv.field16. Qed.
Theorem C06_field_S16k : field_ok (S 16 32767 k32767) = true. Proof. exact P_C06_s16lit.field16. Qed.
Theorem C06_field_S16i : field_ok (S 16 32767 (inv 32767)) = true. Proof. exact P_C06_s16inv.field16. Qed.
Ltac bits_pos := unfold U, S; cbn [bits]; lia.
Lemma rt_U8k : field_rt (U 8 255 k255). Proof. apply field_ok_rt; [bits_pos | exact C06_field_U8k]. Qed.
Lemma rt_U8i : field_rt (U 8 255 (inv 255)). Proof. apply field_ok_rt; [bits_pos | exact C06_field_U8i]. Qed.
Lemma rt_S8k : field_rt (S 8 127 k127). Proof. apply field_ok_rt; [bits_pos | exact C06_field_S8k]. Qed.
Lemma rt_S8i : field_rt (S 8 127 (inv 127)). Proof. apply field_ok_rt; [bits_pos | exact C06_field_S8i]. Qed.
Lemma rt_S10 : field_rt (S 10 511 (inv 511)). Proof. apply field_ok_rt; [bits_pos | exact C06_field_S10]. Qed.
Lemma rt_S2 : field_rt (S 2 1 f1). Proof. apply field_ok_rt; [bits_pos | exact C06_field_S2]. Qed.
Lemma rt_U10 : field_rt (U 10 1023 (inv 1023)). Proof. apply field_ok_rt; [bits_pos | exact C06_field_U10]. Qed.
Lemma rt_U2 : field_rt (U 2 3 (inv 3)). Proof. apply field_ok_rt; [bits_pos | exact C06_field_U2]. Qed.
Lemma rt_U4 : field_rt (U 4 15 (inv 15)). Proof. apply field_ok_rt; [bits_pos | exact C06_field_U4]. Qed.
Lemma rt_U5 : field_rt (U 5 31 (inv 31)). Proof. apply field_ok_rt; [bits_pos | exact C06_field_U5]. Qed.
Lemma rt_U6 : field_rt (U 6 63 (inv 63)). Proof. apply field_ok_rt; [bits_pos | exact C06_field_U6]. Qed.
Lemma rt_U1 : field_rt (U 1 1 f1). Proof. apply field_ok_rt; [bits_pos | exact C06_field_U1]. Qed.
Lemma rt_U3 : field_rt (U 3 7 (inv 7)). Proof. apply field_ok_rt; [bits_pos | exact C06_field_U3]. Qed.
Lemma rt_U16k : field_rt (U 16 65535 k65535). Proof. apply field_ok_rt; [bits_pos | exact C06_field_U16k]. Qed.
Lemma rt_U16i : field_rt (U 16 65535 (inv 65535)). Proof. apply field_ok_rt; [bits_pos | exact C06_field_U16i]. Qed.
Lemma rt_S16k : field_rt (S 16 32767 k32767). Proof. apply field_ok_rt; [bits_pos | exact C06_field_S16k]. Qed.
Lemma rt_S16i : field_rt (S 16 32767 (inv 32767)). Proof. apply field_ok_rt; [bits_pos | exact C06_field_S16i]. Qed.
(* re-packing an unpacked word returns the word: every word of the format whose fields are canonical codes *)
Definition lossless (fs : list field) : Prop := forall p, 0 <= p < 2 ^ total_bits fs -> canon_word fs p = true -> pack_word fs (unpack_word fs p) = p.
Theorem C06_unorm2x16_lossless : lossless fmt_unorm2x16.
Proof. unfold lossless. apply word_roundtrip. unfold fmt_unorm2x16. constructor; [exact rt_U16k|]. constructor; [exact rt_U16k|]. constructor. Qed.
Theorem C06_snorm2x16_lossless : lossless fmt_snorm2x16.
Proof. unfold lossless. apply word_roundtrip. unfold fmt_snorm2x16. constructor; [exact rt_S16k|]. constructor; [exact rt_S16k|]. constructor. Qed.
Theorem C06_unorm4x8_lossless : lossless fmt_unorm4x8.
Proof. unfold lossless. apply word_roundtrip. unfold fmt_unorm4x8. constructor; [exact rt_U8k|]. constructor; [exact rt_U8k|]. constructor; [exact rt_U8k|]. constructor; [exact rt_U8k|]. constructor. Qed.
Theorem C06_snorm4x8_lossless : lossless fmt_snorm4x8.
Proof. unfold lossless. apply word_roundtrip. unfold fmt_snorm4x8. constructor; [exact rt_S8k|]. constructor; [exact rt_S8k|]. constructor; [exact rt_S8k|]. constructor; [exact rt_S8k|]. constructor. Qed.
Theorem C06_unorm1x8_lossless : lossless fmt_unorm1x8.
Proof. unfold lossless. apply word_roundtrip. unfold fmt_unorm1x8. constructor; [exact rt_U8k|]. constructor. Qed.
Theorem C06_unorm2x8_lossless : lossless fmt_unorm2x8.
Proof. unfold lossless. apply word_roundtrip. unfold fmt_unorm2x8. constructor; [exact rt_U8k|]. constructor; [exact rt_U8k|]. constructor. Qed.
Theorem C06_snorm1x8_lossless : lossless fmt_snorm1x8.
Proof. unfold lossless. apply word_roundtrip. unfold fmt_snorm1x8. constructor; [exact rt_S8k|]. constructor. Qed.
Theorem C06_snorm2x8_lossless : lossless fmt_snorm2x8.
Proof. unfold lossless. apply word_roundtrip. unfold fmt_snorm2x8. constructor; [exact rt_S8k|]. constructor; [exact rt_S8k|]. constructor. Qed.
Theorem C06_unorm1x16_lossless : lossless fmt_unorm1x16.
Proof. unfold lossless. apply word_roundtrip. unfold fmt_unorm1x16. constructor; [exact rt_U16k|]. constructor. Qed.
Theorem C06_unorm4x16_lossless : lossless fmt_unorm4x16.
Proof. unfold lossless. apply word_roundtrip. unfold fmt_unorm4x16. constructor; [exact rt_U16k|]. constructor; [exact rt_U16k|]. constructor; [exact rt_U16k|]. constructor; [exact rt_U16k|]. constructor. Qed.
Theorem C06_snorm1x16_lossless : lossless fmt_snorm1x16.
Proof. unfold lossless. apply word_roundtrip. unfold fmt_snorm1x16. constructor; [exact rt_S16k|]. constructor. Qed.
Theorem C06_snorm4x16_lossless : lossless fmt_snorm4x16.
Proof. unfold lossless. apply word_roundtrip. unfold fmt_snorm4x16. constructor; [exact rt_S16k|]. constructor; [exact rt_S16k|]. constructor; [exact rt_S16k|]. constructor; [exact rt_S16k|]. constructor. Qed.
Theorem C06_snorm3x10_1x2_lossless : lossless fmt_snorm3x10_1x2.
Proof. unfold lossless. apply word_roundtrip. unfold fmt_snorm3x10_1x2. constructor; [exact rt_S10|]. constructor; [exact rt_S10|]. constructor; [exact rt_S10|]. constructor; [exact rt_S2|]. constructor. Qed.
Theorem C06_unorm3x10_1x2_lossless : lossless fmt_unorm3x10_1x2.
Proof. unfold lossless. apply word_roundtrip. unfold fmt_unorm3x10_1x2. constructor; [exact rt_U10|]. constructor; [exact rt_U10|]. constructor; [exact rt_U10|]. constructor; [exact rt_U2|]. constructor. Qed.
Theorem C06_unorm2x4_lossless : lossless fmt_unorm2x4.
Proof. unfold lossless. apply word_roundtrip. unfold fmt_unorm2x4. constructor; [exact rt_U4|]. constructor; [exact rt_U4|]. constructor. Qed.
Theorem C06_unorm4x4_lossless : lossless fmt_unorm4x4.
Proof. unfold lossless. apply word_roundtrip. unfold fmt_unorm4x4. constructor; [exact rt_U4|]. constructor; [exact rt_U4|]. constructor; [exact rt_U4|]. constructor; [exact rt_U4|]. constructor. Qed.
Theorem C06_unorm1x5_1x6_1x5_lossless : lossless fmt_unorm1x5_1x6_1x5.
Proof. unfold lossless. apply word_roundtrip. unfold fmt_unorm1x5_1x6_1x5. constructor; [exact rt_U5|]. constructor; [exact rt_U6|]. constructor; [exact rt_U5|]. constructor. Qed.
Theorem C06_unorm3x5_1x1_lossless : lossless fmt_unorm3x5_1x1.
Proof. unfold lossless. apply word_roundtrip. unfold fmt_unorm3x5_1x1. constructor; [exact rt_U5|]. constructor; [exact rt_U5|]. constructor; [exact rt_U5|]. constructor; [exact rt_U1|]. constructor. Qed.
Theorem C06_unorm2x3_1x2_lossless : lossless fmt_unorm2x3_1x2.
Proof. unfold lossless. apply word_roundtrip. unfold fmt_unorm2x3_1x2. constructor; [exact rt_U3|]. constructor; [exact rt_U3|]. constructor; [exact rt_U2|]. constructor. Qed.
Theorem C06_tunorm8_lossless : lossless fmt_tunorm8.
Proof. unfold lossless. apply word_roundtrip. unfold fmt_tunorm8. constructor; [exact rt_U8i|]. constructor. Qed.
Theorem C06_tunorm16_lossless : lossless fmt_tunorm16.
Proof. unfold lossless. apply word_roundtrip. unfold fmt_tunorm16. constructor; [exact rt_U16i|]. constructor. Qed.
Theorem C06_tsnorm8_lossless : lossless fmt_tsnorm8.
Proof. unfold lossless. apply word_roundtrip. unfold fmt_tsnorm8. constructor; [exact rt_S8i|]. constructor. Qed.
Theorem C06_tsnorm16_lossless : lossless fmt_tsnorm16.
Proof. unfold lossless. apply word_roundtrip. unfold fmt_tsnorm16. constructor; [exact rt_S16i|]. constructor. Qed.
(* integer formats (packInt*/packUint*/packI3x10_1x2/packU3x10_1x2/packDouble2x32): every word *)
Theorem C06_integer_formats : forall sg bs, Forall (fun b => 0 < b) bs -> forall p, 0 <= p < 2 ^ sum_bits bs -> pack_ints bs (unpack_ints sg bs p) = p.
Proof. exact ints_roundtrip. Qed.
(* small floats: every code *)
Theorem C06_float11_every_code : forallb sf11_ok (zrange 2048%nat 0) && forallb sf11_mono (zrange 2048%nat 0) = true. Proof. exact P_C06_small.sf11. Qed.
Theorem C06_float10_every_code : forallb sf10_ok (zrange 1024%nat 0) && forallb sf10_mono (zrange 1024%nat 0) = true. Proof. exact P_C06_small.sf10. Qed.
(* known findings: the small-float packing drops the sign and does not clamp (refuted statements with witnesses) *)
Theorem C06_float11_negative_input_refuted : exists f, is_nan32 f = false /\ 2147483648 <= f /\ floatTo11bit f <> 0 /\ packed11bitToFloat (Z.land (floatTo11bit f) 2047) = f - 2147483648.
Proof. exists 3221225472. vm_compute. repeat split; discriminate. Qed.     (* -2.0 packs to the code of +2.0 *)
Theorem C06_float11_below_range_refuted : exists f, f < 939524096 /\ is_zero32 f = false /\ 939524096 <= packed11bitToFloat (Z.land (floatTo11bit f) 2047).
Proof. exists 897988541. vm_compute. repeat split; discriminate. Qed.      (* 1e-6 (below the smallest normal 2^-14) packs to a code that decodes to 4352.0 *)
Theorem C06_float11_above_range_refuted : exists f, 1199570944 <= f < 2139095040 /\ is_nan32 (packed11bitToFloat (Z.land (floatTo11bit f) 2047)) = true.
Proof. exists 1203982336. vm_compute. repeat split; discriminate. Qed.     (* 100000.0 (finite, above the largest 11-bit float 65024) packs to a NaN code instead of clamping *)

(* non-vacuity *)
Example C06_examples : pack_word fmt_unorm4x8 [1065353216; 0; 1056964608; 1065353216] = 4286578943 /\ canon_word fmt_snorm4x8 2155905152 = false /\ canon_word fmt_snorm4x8 2139062143 = true.
Proof. vm_compute. repeat split. Qed.

Print Assumptions C06_unorm4x8_lossless.
Print Assumptions C06_snorm4x16_lossless.
Print Assumptions C06_unorm1x5_1x6_1x5_lossless.
Print Assumptions C06_integer_formats.
Print Assumptions C06_float11_every_code.
