(* C06 definitions: per-field exhaustive checkers and the lemmas lifting field round trips to whole words *)
Require Import ZArith List Bool Lia.
Require Import Floats.SpecFloat.
Import ListNotations.
From GLMM Require Import Half IntFn Pack.
Local Open Scope Z_scope.

Definition codes (F : field) : list Z := zrange (Z.to_nat (2 ^ bits F)) 0.
Definition most_negative (F : field) (c : Z) : bool := signed F && (c =? 2 ^ (bits F - 1)).
(* canonical code: every code of an unsigned field, all but the most negative code of a signed one *)
Definition canon (F : field) (c : Z) : bool := negb (most_negative F c).
(* through the API: the decoded float is handed over as a 32-bit pattern and read back *)
Definition repack (F : field) (c : Z) : Z := enc F (of_bits (to_bits (dec F c))).
Definition sval (F : field) (c : Z) : Z := if signed F then norm true (bits F) c else c.
Definition code_ok (F : field) (c : Z) : bool :=
  (if canon F c then repack F c =? c else true) &&                                             (* lossless re-pack *)
  (to_bits (dec F (repack F c)) =? to_bits (dec F c)) &&                                       (* unpack . pack . unpack = unpack *)
  (let n := umod (bits F) (c + 1) in                                                           (* decoding is monotone in the code's value *)
   if sval F c <? sval F n then (if most_negative F c then SFeqb (dec F c) (dec F n) else flt (dec F c) (dec F n)) else true).
Definition maxcode (F : field) : Z := if signed F then 2 ^ (bits F - 1) - 1 else 2 ^ bits F - 1.
Definition ends_ok (F : field) : bool :=
  (to_bits (dec F (maxcode F)) =? to_bits f1) && (to_bits (dec F 0) =? 0) &&
  (if signed F then to_bits (dec F (umod (bits F) (- maxcode F))) =? to_bits fm1 else true) &&
  (* clamping: 2.0, +inf -> the top code; -3.0, -inf -> 0 (unsigned) or the bottom code (signed); 1.0 and 0.0 exactly *)
  (enc F (of_bits 1073741824) =? maxcode F) && (enc F (S754_infinity false) =? maxcode F) && (enc F f1 =? maxcode F) && (enc F f0 =? 0) &&
  (enc F (of_bits 3225419776) =? (if signed F then umod (bits F) (- maxcode F) else 0)) && (enc F (S754_infinity true) =? (if signed F then umod (bits F) (- maxcode F) else 0)).
Definition field_ok (F : field) : bool := forallb (code_ok F) (codes F) && ends_ok F.

(* ---- whole words *)
Fixpoint total_bits (fs : list field) : Z := match fs with F :: r => bits F + total_bits r | [] => 0 end.
Fixpoint canon_word (fs : list field) (p : Z) : bool :=
  match fs with F :: r => canon F (p mod 2 ^ bits F) && canon_word r (p / 2 ^ bits F) | [] => true end.
Definition field_rt (F : field) : Prop := 0 < bits F /\ forall c, 0 <= c < 2 ^ bits F -> canon F c = true -> repack F c = c.

Lemma word_roundtrip fs : Forall field_rt fs -> forall p, 0 <= p < 2 ^ total_bits fs -> canon_word fs p = true ->
  pack_word fs (unpack_word fs p) = p.
Proof.
  induction fs as [|F fs IH]; intros HF p Hp Hc; cbn [pack_word unpack_word total_bits] in *.
  - change (2 ^ 0) with 1 in Hp. lia.
  - inversion HF as [|? ? [Hb Hrt] HF']; subst. cbn [canon_word] in Hc. apply andb_true_iff in Hc as [Hc1 Hc2].
    assert (P : 0 < 2 ^ bits F) by (apply Z.pow_pos_nonneg; lia).
    assert (TB : 0 <= total_bits fs) by (clear -HF'; induction fs as [|G r IHr]; cbn; [lia|]; inversion HF' as [|? ? [Hg _] Hr]; subst; specialize (IHr Hr); lia).
    pose proof (Z.mod_pos_bound p (2 ^ bits F) P) as Hm.
    fold (repack F (p mod 2 ^ bits F)). rewrite Hrt by assumption.
    rewrite IH; [pose proof (Z.div_mod p (2 ^ bits F)); lia | assumption | | assumption].
    split; [apply Z.div_pos; lia|]. apply Z.div_lt_upper_bound; [lia|]. rewrite <- Z.pow_add_r by lia. lia.
Qed.

(* the boolean check gives field_rt *)
Lemma In_zrange n : forall a c, a <= c < a + Z.of_nat n -> In c (zrange n a).
Proof.
  induction n as [|n IH]; intros a c H; [lia|]. cbn [zrange]. destruct (Z.eq_dec c a) as [->|Hne]; [now left|]. right. apply IH. lia.
Qed.
Lemma field_ok_rt F : 0 < bits F -> field_ok F = true -> field_rt F.
Proof.
  intros Hb H. split; [exact Hb|]. intros c Hc Hcan. unfold field_ok in H. apply andb_true_iff in H as [H _].
  rewrite forallb_forall in H. specialize (H c). assert (I : In c (codes F)).
  { unfold codes. apply In_zrange. rewrite Z2Nat.id by (apply Z.pow_nonneg; lia). lia. }
  specialize (H I). unfold code_ok in H. rewrite Hcan in H. apply andb_true_iff in H as [H _]. apply andb_true_iff in H as [H _]. now apply Z.eqb_eq.
Qed.

(* integer formats: bit concatenation *)
Fixpoint sum_bits (bs : list Z) : Z := match bs with b :: r => b + sum_bits r | [] => 0 end.
Lemma ints_roundtrip sg bs : Forall (fun b => 0 < b) bs -> forall p, 0 <= p < 2 ^ sum_bits bs -> pack_ints bs (unpack_ints sg bs p) = p.
Proof.
  induction bs as [|b bs IH]; intros HF p Hp; cbn [pack_ints unpack_ints sum_bits] in *.
  - change (2 ^ 0) with 1 in Hp. lia.
  - inversion HF as [|? ? Hb HF']; subst. assert (P : 0 < 2 ^ b) by (apply Z.pow_pos_nonneg; lia).
    assert (TB : 0 <= sum_bits bs) by (clear -HF'; induction bs as [|g r IHr]; cbn; [lia|]; inversion HF'; subst; specialize (IHr H2); lia).
    assert (U : umod b (norm sg b p) = p mod 2 ^ b).
    { rewrite !umod_mod, norm_mod by lia. cbv zeta. destruct (sg && (2 ^ (b - 1) <=? p mod 2 ^ b)); [|apply Z.mod_mod; lia].
      rewrite <- Zminus_mod_idemp_r, Z.mod_same by lia. rewrite Z.sub_0_r. apply Z.mod_mod; lia. }
    rewrite U. rewrite IH; [pose proof (Z.div_mod p (2 ^ b)); lia | assumption |].
    split; [apply Z.div_pos; lia|]. apply Z.div_lt_upper_bound; [lia|]. rewrite <- Z.pow_add_r by lia. lia.
Qed.

(* ---- small floats: all codes of one field *)
Definition sf11_ok (c : Z) : bool :=
  let f := packed11bitToFloat c in
  if Z.land c 1984 =? 1984 then
    (if Z.land c 63 =? 0 then (f =? 2139095040) && (Z.land (floatTo11bit f) 2047 =? c)          (* Inf code <-> +Inf *)
     else is_nan32 f && (Z.land (floatTo11bit f) 2047 =? 2047))                                  (* NaN codes -> NaN -> the all-ones code *)
  else (Z.land (floatTo11bit f) 2047 =? c) && negb (is_nan32 f) && negb (is_inf32 f).             (* finite codes re-pack losslessly *)
Definition sf10_ok (c : Z) : bool :=
  let f := packed10bitToFloat c in
  if Z.land c 992 =? 992 then
    (if Z.land c 31 =? 0 then (f =? 2139095040) && (Z.land (floatTo10bit f) 1023 =? c)
     else is_nan32 f && (Z.land (floatTo10bit f) 1023 =? 1023))
  else (Z.land (floatTo10bit f) 1023 =? c) && negb (is_nan32 f) && negb (is_inf32 f).
(* decoding is strictly increasing over the normal codes (exponent field 1..30) *)
Definition sf11_mono (c : Z) : bool := if (64 <=? c) && (c + 1 <? 1984) then packed11bitToFloat c <? packed11bitToFloat (c + 1) else true.
Definition sf10_mono (c : Z) : bool := if (32 <=? c) && (c + 1 <? 992) then packed10bitToFloat c <? packed10bitToFloat (c + 1) else true.
