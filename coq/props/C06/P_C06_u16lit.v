(* C06: every one of the 65536 codes of the 16-bit field  U 16 65535 k65535  *)
Require Import ZArith List Bool.
Import ListNotations.
From GLMM Require Import Half IntFn Pack.
From W Require Import A_C06_defs.
Local Open Scope Z_scope.
Lemma field16 : field_ok (U 16 65535 k65535) = true. Proof. vm_cast_no_check (eq_refl true). Qed.
