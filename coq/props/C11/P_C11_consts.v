(* C11: every literal constant of ext/scalar_constants and gtc/constants (Gen_C11_consts, regenerated from the source text)
   is the correctly rounded value of the quantity it names: |constant - true value| <= half a unit in the last place, for
   float and for double.  The true values are Coq's real numbers PI, sqrt, exp, ln, cos; the bounds are established by
   interval arithmetic at 120 bits (Interval tactic).  euler (the Euler-Mascheroni constant) has no definition in the
   libraries available here: it is compared with its published digits by the oracle only. *)
Require Import Reals Lra.
From Interval Require Import Tactic.
From W Require Import Gen_C11_consts.
Local Open Scope R_scope.
Ltac const_tac c h := unfold c, h; interval with (i_prec 120).

Lemma pi_f32 : Rabs (c_pi_f32 - PI) <= h_pi_f32. Proof. const_tac c_pi_f32 h_pi_f32. Qed.
Lemma pi_f64 : Rabs (c_pi_f64 - PI) <= h_pi_f64. Proof. const_tac c_pi_f64 h_pi_f64. Qed.
Lemma cos_one_over_two_f32 : Rabs (c_cos_one_over_two_f32 - cos (1 / 2)) <= h_cos_one_over_two_f32. Proof. const_tac c_cos_one_over_two_f32 h_cos_one_over_two_f32. Qed.
Lemma cos_one_over_two_f64 : Rabs (c_cos_one_over_two_f64 - cos (1 / 2)) <= h_cos_one_over_two_f64. Proof. const_tac c_cos_one_over_two_f64 h_cos_one_over_two_f64. Qed.
Lemma two_pi_f32 : Rabs (c_two_pi_f32 - 2 * PI) <= h_two_pi_f32. Proof. const_tac c_two_pi_f32 h_two_pi_f32. Qed.
Lemma two_pi_f64 : Rabs (c_two_pi_f64 - 2 * PI) <= h_two_pi_f64. Proof. const_tac c_two_pi_f64 h_two_pi_f64. Qed.
Lemma root_pi_f32 : Rabs (c_root_pi_f32 - sqrt PI) <= h_root_pi_f32. Proof. const_tac c_root_pi_f32 h_root_pi_f32. Qed.
Lemma root_pi_f64 : Rabs (c_root_pi_f64 - sqrt PI) <= h_root_pi_f64. Proof. const_tac c_root_pi_f64 h_root_pi_f64. Qed.
Lemma half_pi_f32 : Rabs (c_half_pi_f32 - PI / 2) <= h_half_pi_f32. Proof. const_tac c_half_pi_f32 h_half_pi_f32. Qed.
Lemma half_pi_f64 : Rabs (c_half_pi_f64 - PI / 2) <= h_half_pi_f64. Proof. const_tac c_half_pi_f64 h_half_pi_f64. Qed.
Lemma three_over_two_pi_f32 : Rabs (c_three_over_two_pi_f32 - 3 * PI / 2) <= h_three_over_two_pi_f32. Proof. const_tac c_three_over_two_pi_f32 h_three_over_two_pi_f32. Qed.
Lemma three_over_two_pi_f64 : Rabs (c_three_over_two_pi_f64 - 3 * PI / 2) <= h_three_over_two_pi_f64. Proof. const_tac c_three_over_two_pi_f64 h_three_over_two_pi_f64. Qed.
Lemma quarter_pi_f32 : Rabs (c_quarter_pi_f32 - PI / 4) <= h_quarter_pi_f32. Proof. const_tac c_quarter_pi_f32 h_quarter_pi_f32. Qed.
Lemma quarter_pi_f64 : Rabs (c_quarter_pi_f64 - PI / 4) <= h_quarter_pi_f64. Proof. const_tac c_quarter_pi_f64 h_quarter_pi_f64. Qed.
Lemma one_over_pi_f32 : Rabs (c_one_over_pi_f32 - 1 / PI) <= h_one_over_pi_f32. Proof. const_tac c_one_over_pi_f32 h_one_over_pi_f32. Qed.
Lemma one_over_pi_f64 : Rabs (c_one_over_pi_f64 - 1 / PI) <= h_one_over_pi_f64. Proof. const_tac c_one_over_pi_f64 h_one_over_pi_f64. Qed.
Lemma one_over_two_pi_f32 : Rabs (c_one_over_two_pi_f32 - 1 / (2 * PI)) <= h_one_over_two_pi_f32. Proof. const_tac c_one_over_two_pi_f32 h_one_over_two_pi_f32. Qed.
Lemma one_over_two_pi_f64 : Rabs (c_one_over_two_pi_f64 - 1 / (2 * PI)) <= h_one_over_two_pi_f64. Proof. const_tac c_one_over_two_pi_f64 h_one_over_two_pi_f64. Qed.
Lemma two_over_pi_f32 : Rabs (c_two_over_pi_f32 - 2 / PI) <= h_two_over_pi_f32. Proof. const_tac c_two_over_pi_f32 h_two_over_pi_f32. Qed.
Lemma two_over_pi_f64 : Rabs (c_two_over_pi_f64 - 2 / PI) <= h_two_over_pi_f64. Proof. const_tac c_two_over_pi_f64 h_two_over_pi_f64. Qed.
Lemma four_over_pi_f32 : Rabs (c_four_over_pi_f32 - 4 / PI) <= h_four_over_pi_f32. Proof. const_tac c_four_over_pi_f32 h_four_over_pi_f32. Qed.
Lemma four_over_pi_f64 : Rabs (c_four_over_pi_f64 - 4 / PI) <= h_four_over_pi_f64. Proof. const_tac c_four_over_pi_f64 h_four_over_pi_f64. Qed.
Lemma two_over_root_pi_f32 : Rabs (c_two_over_root_pi_f32 - 2 / sqrt PI) <= h_two_over_root_pi_f32. Proof. const_tac c_two_over_root_pi_f32 h_two_over_root_pi_f32. Qed.
Lemma two_over_root_pi_f64 : Rabs (c_two_over_root_pi_f64 - 2 / sqrt PI) <= h_two_over_root_pi_f64. Proof. const_tac c_two_over_root_pi_f64 h_two_over_root_pi_f64. Qed.
Lemma one_over_root_two_f32 : Rabs (c_one_over_root_two_f32 - 1 / sqrt 2) <= h_one_over_root_two_f32. Proof. const_tac c_one_over_root_two_f32 h_one_over_root_two_f32. Qed.
Lemma one_over_root_two_f64 : Rabs (c_one_over_root_two_f64 - 1 / sqrt 2) <= h_one_over_root_two_f64. Proof. const_tac c_one_over_root_two_f64 h_one_over_root_two_f64. Qed.
Lemma root_half_pi_f32 : Rabs (c_root_half_pi_f32 - sqrt (PI / 2)) <= h_root_half_pi_f32. Proof. const_tac c_root_half_pi_f32 h_root_half_pi_f32. Qed.
Lemma root_half_pi_f64 : Rabs (c_root_half_pi_f64 - sqrt (PI / 2)) <= h_root_half_pi_f64. Proof. const_tac c_root_half_pi_f64 h_root_half_pi_f64. Qed.
Lemma root_two_pi_f32 : Rabs (c_root_two_pi_f32 - sqrt (2 * PI)) <= h_root_two_pi_f32. Proof. const_tac c_root_two_pi_f32 h_root_two_pi_f32. Qed.
Lemma root_two_pi_f64 : Rabs (c_root_two_pi_f64 - sqrt (2 * PI)) <= h_root_two_pi_f64. Proof. const_tac c_root_two_pi_f64 h_root_two_pi_f64. Qed.
Lemma root_ln_four_f32 : Rabs (c_root_ln_four_f32 - sqrt (ln 4)) <= h_root_ln_four_f32. Proof. const_tac c_root_ln_four_f32 h_root_ln_four_f32. Qed.
Lemma root_ln_four_f64 : Rabs (c_root_ln_four_f64 - sqrt (ln 4)) <= h_root_ln_four_f64. Proof. const_tac c_root_ln_four_f64 h_root_ln_four_f64. Qed.
Lemma e_f32 : Rabs (c_e_f32 - exp 1) <= h_e_f32. Proof. const_tac c_e_f32 h_e_f32. Qed.
Lemma e_f64 : Rabs (c_e_f64 - exp 1) <= h_e_f64. Proof. const_tac c_e_f64 h_e_f64. Qed.
Lemma root_two_f32 : Rabs (c_root_two_f32 - sqrt 2) <= h_root_two_f32. Proof. const_tac c_root_two_f32 h_root_two_f32. Qed.
Lemma root_two_f64 : Rabs (c_root_two_f64 - sqrt 2) <= h_root_two_f64. Proof. const_tac c_root_two_f64 h_root_two_f64. Qed.
Lemma root_three_f32 : Rabs (c_root_three_f32 - sqrt 3) <= h_root_three_f32. Proof. const_tac c_root_three_f32 h_root_three_f32. Qed.
Lemma root_three_f64 : Rabs (c_root_three_f64 - sqrt 3) <= h_root_three_f64. Proof. const_tac c_root_three_f64 h_root_three_f64. Qed.
Lemma root_five_f32 : Rabs (c_root_five_f32 - sqrt 5) <= h_root_five_f32. Proof. const_tac c_root_five_f32 h_root_five_f32. Qed.
Lemma root_five_f64 : Rabs (c_root_five_f64 - sqrt 5) <= h_root_five_f64. Proof. const_tac c_root_five_f64 h_root_five_f64. Qed.
Lemma ln_two_f32 : Rabs (c_ln_two_f32 - ln 2) <= h_ln_two_f32. Proof. const_tac c_ln_two_f32 h_ln_two_f32. Qed.
Lemma ln_two_f64 : Rabs (c_ln_two_f64 - ln 2) <= h_ln_two_f64. Proof. const_tac c_ln_two_f64 h_ln_two_f64. Qed.
Lemma ln_ten_f32 : Rabs (c_ln_ten_f32 - ln 10) <= h_ln_ten_f32. Proof. const_tac c_ln_ten_f32 h_ln_ten_f32. Qed.
Lemma ln_ten_f64 : Rabs (c_ln_ten_f64 - ln 10) <= h_ln_ten_f64. Proof. const_tac c_ln_ten_f64 h_ln_ten_f64. Qed.
Lemma ln_ln_two_f32 : Rabs (c_ln_ln_two_f32 - ln (ln 2)) <= h_ln_ln_two_f32. Proof. const_tac c_ln_ln_two_f32 h_ln_ln_two_f32. Qed.
Lemma ln_ln_two_f64 : Rabs (c_ln_ln_two_f64 - ln (ln 2)) <= h_ln_ln_two_f64. Proof. const_tac c_ln_ln_two_f64 h_ln_ln_two_f64. Qed.
Lemma third_f32 : Rabs (c_third_f32 - 1 / 3) <= h_third_f32. Proof. const_tac c_third_f32 h_third_f32. Qed.
Lemma third_f64 : Rabs (c_third_f64 - 1 / 3) <= h_third_f64. Proof. const_tac c_third_f64 h_third_f64. Qed.
Lemma two_thirds_f32 : Rabs (c_two_thirds_f32 - 2 / 3) <= h_two_thirds_f32. Proof. const_tac c_two_thirds_f32 h_two_thirds_f32. Qed.
Lemma two_thirds_f64 : Rabs (c_two_thirds_f64 - 2 / 3) <= h_two_thirds_f64. Proof. const_tac c_two_thirds_f64 h_two_thirds_f64. Qed.
Lemma golden_ratio_f32 : Rabs (c_golden_ratio_f32 - (1 + sqrt 5) / 2) <= h_golden_ratio_f32. Proof. const_tac c_golden_ratio_f32 h_golden_ratio_f32. Qed.
Lemma golden_ratio_f64 : Rabs (c_golden_ratio_f64 - (1 + sqrt 5) / 2) <= h_golden_ratio_f64. Proof. const_tac c_golden_ratio_f64 h_golden_ratio_f64. Qed.
Lemma zero_one : c_zero_f32 = 0 /\ c_zero_f64 = 0 /\ c_one_f32 = 1 /\ c_one_f64 = 1. Proof. unfold c_zero_f32, c_zero_f64, c_one_f32, c_one_f64. repeat split; lra. Qed.
