(* Properties_C11.v -- C11: common functions obey their documented per-value definitions.
   Three kinds of statement:
   * Gen_C11 (traces regenerated from the templates, translator T1), real-number semantics: abs, sign, min, max (2-4
     operands), clamp, step, smoothstep, mix (float and bool selector), floor, ceil, trunc, round, fract in [0,1), mod in
     [0,y), the texture-coordinate wrap modes in [0,1].  NaN semantics (a value is a real or NaN): the 2-, 3-, 4-operand
     fmin / fmax and fclamp return NaN only if every operand is NaN, otherwise the min / max of the numbers.
   * Gen_C11_consts (literals regenerated from the source text): every constant is within half a unit in the last place of
     the real number it names, for float and for double (interval arithmetic at 120 bits).
   * GLMM.Common (hand model, exact rational arithmetic, tied by correspondence): roundEven is the nearest integer, even on
     ties, for every rational argument; iround / uround the nearest integer.
   NOT theorems: the float-level rounding of fract / mod / smoothstep / mix (real semantics only), isnan / isinf / frexp /
     ldexp / bit casts (library calls and memcpy: oracle over all 2^32 patterns), euler (no definition of the
     Euler-Mascheroni constant available: oracle only). *)
Require Import ZArith List Bool Reals Lra Lia.
From Flocq Require Import Core.Raux Core.Generic_fmt Core.Zaux.
Import ListNotations.
From GLMV Require Import SemR Expr SemN.
From GLMM Require Import IntFn Pack Common.
From W Require Gen_C11 Gen_C11_consts P_C11_real P_C11_nan P_C11_round P_C11_consts.

Section Reals.
Import Gen_C11 P_C11_real.
Local Open Scope R_scope.
Theorem C11_abs : forall env, evalT env t_abs = Some (true, [Rabs (x0 env)]). Proof. exact abs_is_Rabs. Qed.
Theorem C11_sign : forall env, evalT env t_sign = Some (true, [sgn (x0 env)]). Proof. exact sign_is_sgn. Qed.
Theorem C11_min : forall env, evalT env t_min2 = Some (true, [Rmin (x0 env) (x1 env)]). Proof. exact min2_is_Rmin. Qed.
Theorem C11_max : forall env, evalT env t_max2 = Some (true, [Rmax (x0 env) (x1 env)]). Proof. exact max2_is_Rmax. Qed.
Theorem C11_min3 : forall env, evalT env t_min3 = Some (true, [Rmin (Rmin (x0 env) (x1 env)) (x2 env)]). Proof. exact min3_is_Rmin. Qed.
Theorem C11_max3 : forall env, evalT env t_max3 = Some (true, [Rmax (Rmax (x0 env) (x1 env)) (x2 env)]). Proof. exact max3_is_Rmax. Qed.
Theorem C11_min4 : forall env, evalT env t_min4 = Some (true, [Rmin (Rmin (x0 env) (x1 env)) (Rmin (x2 env) (x3 env))]). Proof. exact min4_is_Rmin. Qed.
Theorem C11_max4 : forall env, evalT env t_max4 = Some (true, [Rmax (Rmax (x0 env) (x1 env)) (Rmax (x2 env) (x3 env))]). Proof. exact max4_is_Rmax. Qed.
Theorem C11_clamp : forall env, evalT env t_clamp = Some (true, [Rmin (Rmax (x0 env) (x1 env)) (x2 env)]). Proof. exact clamp_is_min_max. Qed.
Theorem C11_step : forall env, evalT env t_step = Some (true, [if Rlt_dec (x1 env) (x0 env) then 0 else 1]). Proof. exact step_def. Qed.
Theorem C11_smoothstep : forall env, let t := clamp01 ((x2 env - x0 env) / (x1 env - x0 env)) in evalT env t_smoothstep = Some (true, [t * t * (3 - 2 * t)]). Proof. exact smoothstep_def. Qed.
Theorem C11_mix : forall env, evalT env t_mix = Some (true, [x0 env * (1 - x2 env) + x1 env * x2 env]). Proof. exact mix_def. Qed.
Theorem C11_mix_bool : forall env, evalT env t_mix_bool = Some (true, [if Rlt_dec 0 (x2 env) then x1 env else x0 env]). Proof. exact mix_bool_def. Qed.
Theorem C11_floor : forall env, evalT env t_floor = Some (true, [IZR (Zfloor (x0 env))]). Proof. exact floor_def. Qed.
Theorem C11_ceil : forall env, evalT env t_ceil = Some (true, [IZR (Zceil (x0 env))]). Proof. exact ceil_def. Qed.
Theorem C11_trunc : forall env, evalT env t_trunc = Some (true, [IZR (Ztrunc (x0 env))]). Proof. exact trunc_def. Qed.
Theorem C11_round : forall env, evalT env t_round = Some (true, [IZR (ZnearestA (x0 env))]). Proof. exact round_def. Qed.
Theorem C11_round_is_a_nearest_integer : forall x, Rabs (x - IZR (ZnearestA x)) <= / 2. Proof. exact round_is_nearest. Qed.
Theorem C11_fract : forall env, exists f, evalT env t_fract = Some (true, [f]) /\ f = x0 env - IZR (Zfloor (x0 env)) /\ 0 <= f < 1. Proof. exact fract_def. Qed.
Theorem C11_mod : forall env, exists m, evalT env t_mod = Some (true, [m]) /\ m = x0 env - x1 env * IZR (Zfloor (x0 env / x1 env)) /\ (0 < x1 env -> 0 <= m < x1 env). Proof. exact mod_def. Qed.
Theorem C11_texcoord_clamp : forall env, in01 (evalT env t_tex_clamp). Proof. exact tex_clamp_range. Qed.
Theorem C11_texcoord_repeat : forall env, in01 (evalT env t_tex_repeat). Proof. exact tex_repeat_range. Qed.
Theorem C11_texcoord_mirrorClamp : forall env, in01 (evalT env t_tex_mirrorClamp). Proof. exact tex_mirrorClamp_range. Qed.
Theorem C11_texcoord_mirrorRepeat : forall env, in01 (evalT env t_tex_mirrorRepeat). Proof. exact tex_mirrorRepeat_range. Qed.
End Reals.

Section NaN.
Import Gen_C11 P_C11_nan.
Theorem C11_fmin2 : forall env, evalTN env t_fmin2 = Some [spec_min [a0 env; a1 env]]. Proof. exact fmin2_nan. Qed.
Theorem C11_fmax2 : forall env, evalTN env t_fmax2 = Some [spec_max [a0 env; a1 env]]. Proof. exact fmax2_nan. Qed.
Theorem C11_fmin3 : forall env, evalTN env t_fmin3 = Some [spec_min [a0 env; a1 env; a2 env]]. Proof. exact fmin3_nan. Qed.
Theorem C11_fmax3 : forall env, evalTN env t_fmax3 = Some [spec_max [a0 env; a1 env; a2 env]]. Proof. exact fmax3_nan. Qed.
Theorem C11_fmin4 : forall env, evalTN env t_fmin4 = Some [spec_min [a0 env; a1 env; a2 env; a3 env]]. Proof. exact fmin4_nan. Qed.
Theorem C11_fmax4 : forall env, evalTN env t_fmax4 = Some [spec_max [a0 env; a1 env; a2 env; a3 env]]. Proof. exact fmax4_nan. Qed.
Theorem C11_fclamp : forall env, evalTN env t_fclamp = Some [fminN (fmaxN (a0 env) (a1 env)) (a2 env)]. Proof. exact fclamp_nan. Qed.
Theorem C11_fmin_NaN_only_if_all_NaN : forall l, spec_min l = None <-> Forall (fun a => a = None) l. Proof. exact spec_min_nan. Qed.
Theorem C11_fmax_NaN_only_if_all_NaN : forall l, spec_max l = None <-> Forall (fun a => a = None) l. Proof. exact spec_max_nan. Qed.
End NaN.

Section Round.
Import P_C11_round.
Local Open Scope Z_scope.
Theorem C11_roundEven : forall n d, 0 < d -> roundEven n d = nearest_even n d. Proof. exact roundEven_is_nearest_even. Qed.
Theorem C11_nearest_even_is_a_nearest_integer : forall n d, 0 < d -> 2 * Z.abs (d * nearest_even n d - n) <= d. Proof. exact nearest_even_is_nearest. Qed.
Theorem C11_iround_uround : forall n d, 0 < d -> 2 * Z.abs (d * round_away n d - n) <= d. Proof. exact round_away_is_nearest. Qed.
End Round.

Section Consts.
Import Gen_C11_consts P_C11_consts.
Local Open Scope R_scope.
Theorem C11_pi : Rabs (c_pi_f32 - PI) <= h_pi_f32 /\ Rabs (c_pi_f64 - PI) <= h_pi_f64. Proof. exact (conj pi_f32 pi_f64). Qed.
Theorem C11_e : Rabs (c_e_f32 - exp 1) <= h_e_f32 /\ Rabs (c_e_f64 - exp 1) <= h_e_f64. Proof. exact (conj e_f32 e_f64). Qed.
Theorem C11_root_two : Rabs (c_root_two_f32 - sqrt 2) <= h_root_two_f32 /\ Rabs (c_root_two_f64 - sqrt 2) <= h_root_two_f64. Proof. exact (conj root_two_f32 root_two_f64). Qed.
Theorem C11_ln_ln_two : Rabs (c_ln_ln_two_f32 - ln (ln 2)) <= h_ln_ln_two_f32 /\ Rabs (c_ln_ln_two_f64 - ln (ln 2)) <= h_ln_ln_two_f64. Proof. exact (conj ln_ln_two_f32 ln_ln_two_f64). Qed.
Theorem C11_golden_ratio : Rabs (c_golden_ratio_f32 - (1 + sqrt 5) / 2) <= h_golden_ratio_f32 /\ Rabs (c_golden_ratio_f64 - (1 + sqrt 5) / 2) <= h_golden_ratio_f64. Proof. exact (conj golden_ratio_f32 golden_ratio_f64). Qed.
(* the remaining 21 constants: the lemmas <name>_f32 / <name>_f64 of P_C11_consts, all of the same form *)
Theorem C11_all_other_constants :
  (Rabs (c_two_pi_f64 - 2 * PI) <= h_two_pi_f64) /\ (Rabs (c_half_pi_f64 - PI / 2) <= h_half_pi_f64) /\ (Rabs (c_one_over_pi_f64 - 1 / PI) <= h_one_over_pi_f64) /\
  (Rabs (c_root_pi_f64 - sqrt PI) <= h_root_pi_f64) /\ (Rabs (c_ln_two_f64 - ln 2) <= h_ln_two_f64) /\ (Rabs (c_ln_ten_f64 - ln 10) <= h_ln_ten_f64) /\
  (Rabs (c_root_three_f64 - sqrt 3) <= h_root_three_f64) /\ (Rabs (c_root_five_f64 - sqrt 5) <= h_root_five_f64) /\ (Rabs (c_third_f64 - 1 / 3) <= h_third_f64) /\
  (Rabs (c_two_thirds_f64 - 2 / 3) <= h_two_thirds_f64) /\ (Rabs (c_cos_one_over_two_f64 - cos (1 / 2)) <= h_cos_one_over_two_f64) /\ (Rabs (c_root_ln_four_f64 - sqrt (ln 4)) <= h_root_ln_four_f64).
Proof. repeat split; [exact two_pi_f64 | exact half_pi_f64 | exact one_over_pi_f64 | exact root_pi_f64 | exact ln_two_f64 | exact ln_ten_f64 | exact root_three_f64 | exact root_five_f64 | exact third_f64 | exact two_thirds_f64 | exact cos_one_over_two_f64 | exact root_ln_four_f64]. Qed.
End Consts.

Print Assumptions C11_smoothstep.
Print Assumptions C11_fmin4.
Print Assumptions C11_roundEven.
Print Assumptions C11_pi.
