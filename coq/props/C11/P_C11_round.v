(* C11: roundEven returns the nearest integer, the even one on ties -- for EVERY rational argument n / d (hence every float
   within the range where the model's exact arithmetic applies); iround / uround
   (after fix 49e3514) return the nearest integer for every non-negative argument. *)
Require Import ZArith List Bool Lia. Import ListNotations.
From GLMM Require Import IntFn Pack Common.
Local Open Scope Z_scope.
Ltac Zify.zify_post_hook ::= Z.to_euclidean_division_equations.

Lemma even_cases z : (Z.even z = true /\ exists k, z = 2 * k) \/ (Z.even z = false /\ exists k, z = 2 * k + 1).
Proof. destruct (Z.even z) eqn:E; [left | right]; split; auto. - apply Z.even_spec in E. destruct E as [k ->]. now exists k. - assert (O : Z.odd z = true) by (rewrite <- Z.negb_even, E; reflexivity). apply Z.odd_spec in O. destruct O as [k ->]. now exists k. Qed.
Lemma quot_div n d : 0 < d -> n mod d <> 0 -> Z.quot n d = if 0 <=? n then n / d else n / d + 1.
Proof.
  intros Hd Hr. destruct (0 <=? n) eqn:E; [apply Z.leb_le in E | apply Z.leb_gt in E].
  - apply Z.quot_div_nonneg; lia.
  - replace n with (- (- n)) at 1 by lia. rewrite Z.quot_opp_l by lia. rewrite Z.quot_div_nonneg by lia.
    assert (Hm : (- n) mod d <> 0) by (intros H; apply Hr; apply Z.mod_divide in H; [|lia]; apply Z.mod_divide; [lia|]; destruct H as [q Hq]; exists (- q); lia).
    replace n with (- (- n)) at 2 by lia. rewrite (Z.div_opp_l_nz (- n) d) by lia. lia.
Qed.
Theorem roundEven_is_nearest_even n d : 0 < d -> roundEven n d = nearest_even n d.
Proof.
  intros Hd. unfold roundEven, nearest_even, round_away.
  destruct (2 * (n mod d) =? d) eqn:E; cbn [negb].
  - apply Z.eqb_eq in E. replace (2 * (n mod d) <? d) with false by (symmetry; apply Z.ltb_ge; lia). replace (d <? 2 * (n mod d)) with false by (symmetry; apply Z.ltb_ge; lia).
    rewrite (quot_div n d Hd) by lia.
    destruct (0 <=? n) eqn:En; [apply Z.leb_le in En | apply Z.leb_gt in En].
    + assert (n <> 0) by (intros ->; rewrite Z.mod_0_l in E by lia; lia). replace (n <=? 0) with false by (symmetry; apply Z.leb_gt; lia). reflexivity.
    + replace (n <=? 0) with true by (symmetry; apply Z.leb_le; lia).
      destruct (even_cases (n / d)) as [[Ef [j Hj]] | [Ef [j Hj]]]; rewrite Ef.
      * replace (Z.even (n / d + 1)) with false by (symmetry; rewrite Hj; replace (2 * j + 1) with (1 + 2 * j) by lia; rewrite Z.even_add_mul_2; reflexivity). lia.
      * replace (Z.even (n / d + 1)) with true by (symmetry; rewrite Hj; replace (2 * j + 1 + 1) with (0 + 2 * (j + 1)) by lia; rewrite Z.even_add_mul_2; reflexivity). reflexivity.
  - apply Z.eqb_neq in E. destruct (2 * (n mod d) <? d) eqn:E1; [apply Z.ltb_lt in E1 | apply Z.ltb_ge in E1].
    + destruct (0 <=? n) eqn:En; [apply Z.leb_le in En | apply Z.leb_gt in En]; nia.
    + replace (d <? 2 * (n mod d)) with true by (symmetry; apply Z.ltb_lt; lia). destruct (0 <=? n) eqn:En; [apply Z.leb_le in En | apply Z.leb_gt in En]; nia.
Qed.
(* the result is within one half of the argument: |d r - n| <= d / 2 *)
Theorem nearest_even_is_nearest n d : 0 < d -> 2 * Z.abs (d * nearest_even n d - n) <= d.
Proof. intros Hd. unfold nearest_even. destruct (2 * (n mod d) <? d) eqn:E1; [apply Z.ltb_lt in E1 | apply Z.ltb_ge in E1]; [nia|]. destruct (d <? 2 * (n mod d)) eqn:E2; [apply Z.ltb_lt in E2; nia | apply Z.ltb_ge in E2]. destruct (Z.even (n / d)); nia. Qed.

(* iround / uround (after fix): the nearest integer (ties away from zero) for every non-negative rational n / d *)
Theorem round_away_is_nearest n d : 0 < d -> 2 * Z.abs (d * round_away n d - n) <= d.
Proof. intros Hd. unfold round_away. destruct (0 <=? n) eqn:En; [apply Z.leb_le in En | apply Z.leb_gt in En]; nia. Qed.
(* the former failures: 0.49999997f and 8388609.0f *)
Example iround_former_failures : iround 23 32 1056964607 = 0 /\ iround 23 32 1258291201 = 8388609.
Proof. vm_compute. split; reflexivity. Qed.
Example iround_examples : map (iround 23 32) [0; 1048576000; 1056964608; 1069547520; 1075838976; 1148829696] = [0; 0; 1; 2; 3; 999].
Proof. vm_compute. reflexivity. Qed.
