(* C11: fmin / fmax / fclamp with NaN operands.  Semantics: a value is a real number or NaN (None); arithmetic propagates
   NaN, every ordered comparison with a NaN is false, isnan is true exactly on NaN, and the two-operand fmin / fmax
   (std::fmin / std::fmax) return the other operand when one is NaN.  Infinities are not distinguished from large reals.
   Theorems: the 3- and 4-operand cascades and fclamp return NaN only if EVERY operand is NaN, and otherwise the
   minimum / maximum of the operands that are numbers. *)
Require Import ZArith List Bool Reals Lra.
Import ListNotations.
From GLMV Require Import SemR Expr SemN.
From W Require Import Gen_C11.
Local Open Scope R_scope.

Theorem fmin2_nan : forall env, evalTN env t_fmin2 = Some [spec_min [a0 env; a1 env]]. Proof. nan_tac t_fmin2. Qed.
Theorem fmax2_nan : forall env, evalTN env t_fmax2 = Some [spec_max [a0 env; a1 env]]. Proof. nan_tac t_fmax2. Qed.
Theorem fmin3_nan : forall env, evalTN env t_fmin3 = Some [spec_min [a0 env; a1 env; a2 env]]. Proof. nan_tac t_fmin3. Qed.
Theorem fmax3_nan : forall env, evalTN env t_fmax3 = Some [spec_max [a0 env; a1 env; a2 env]]. Proof. nan_tac t_fmax3. Qed.
Theorem fmin4_nan : forall env, evalTN env t_fmin4 = Some [spec_min [a0 env; a1 env; a2 env; a3 env]]. Proof. nan_tac t_fmin4. Qed.
Theorem fmax4_nan : forall env, evalTN env t_fmax4 = Some [spec_max [a0 env; a1 env; a2 env; a3 env]]. Proof. nan_tac t_fmax4. Qed.
(* fclamp(x, lo, hi) = fmin(fmax(x, lo), hi) *)
Theorem fclamp_nan : forall env, evalTN env t_fclamp = Some [fminN (fmaxN (a0 env) (a1 env)) (a2 env)]. Proof. intros env. reflexivity. Qed.
