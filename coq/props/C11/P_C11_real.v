(* C11, common functions on the regenerated traces (Gen_C11), real-number semantics: each function returns the value its
   GLSL definition prescribes.  floor/ceil/trunc/round are Flocq's Zfloor/Zceil/Ztrunc/ZnearestA. *)
Require Import ZArith List Bool Reals Lra.
From Flocq Require Import Core.Raux Core.Generic_fmt Core.Zaux.
Import ListNotations.
From GLMV Require Import SemR Cat Expr.
From W Require Import Gen_C11.
Local Open Scope R_scope.

Definition x0 (env : renv) := env F32 0%Z 0%Z.
Definition x1 (env : renv) := env F32 1%Z 0%Z.
Definition x2 (env : renv) := env F32 2%Z 0%Z.
Definition x3 (env : renv) := env F32 3%Z 0%Z.
Ltac ev11 := cbv [map evalT evalR evalRB binR unR cmpR cstR forallb Z.leb Z.compare Z.mul Z.pow Z.pow_pos Pos.iter Pos.mul Z.opp].
Ltac floor_facts := repeat match goal with |- context [Zfloor ?a] => let f := fresh "f" in let H1 := fresh in let H2 := fresh in
  pose proof (Zfloor_lb a) as H1; pose proof (Zfloor_ub a) as H2; set (f := IZR (Zfloor a)) in * end.
Ltac no_dec t := lazymatch t with context [Rle_dec _ _] => fail | context [Rlt_dec _ _] => fail | context [Rcase_abs _] => fail | _ => idtac end.
Ltac split_dec := repeat (match goal with
  | |- context [Rcase_abs ?a] => no_dec a; destruct (Rcase_abs a)
  | |- context [Rle_dec ?a ?b] => no_dec a; no_dec b; destruct (Rle_dec a b)
  | |- context [Rlt_dec ?a ?b] => no_dec a; no_dec b; destruct (Rlt_dec a b)
  end; ev11).
Ltac tree11 := intros; match goal with |- evalT _ ?t = _ => unfold t end; unfold x0, x1, x2, x3; ev11; unfold Rmin, Rmax, Rabs; split_dec; try reflexivity; try (exfalso; lra);
  match goal with |- Some (true, [?a]) = Some (true, [?b]) => replace a with b by lra; reflexivity end.

(* ---- values *)
Theorem abs_is_Rabs env : evalT env t_abs = Some (true, [Rabs (x0 env)]). Proof. tree11. Qed.
Definition sgn (x : R) : R := if Rlt_dec x 0 then -1 else if Rlt_dec 0 x then 1 else 0.
Theorem sign_is_sgn env : evalT env t_sign = Some (true, [sgn (x0 env)]). Proof. unfold sgn. tree11. Qed.
Theorem min2_is_Rmin env : evalT env t_min2 = Some (true, [Rmin (x0 env) (x1 env)]). Proof. tree11. Qed.
Theorem max2_is_Rmax env : evalT env t_max2 = Some (true, [Rmax (x0 env) (x1 env)]). Proof. tree11. Qed.
Theorem min3_is_Rmin env : evalT env t_min3 = Some (true, [Rmin (Rmin (x0 env) (x1 env)) (x2 env)]). Proof. tree11. Qed.
Theorem max3_is_Rmax env : evalT env t_max3 = Some (true, [Rmax (Rmax (x0 env) (x1 env)) (x2 env)]). Proof. tree11. Qed.
Theorem min4_is_Rmin env : evalT env t_min4 = Some (true, [Rmin (Rmin (x0 env) (x1 env)) (Rmin (x2 env) (x3 env))]). Proof. tree11. Qed.
Theorem max4_is_Rmax env : evalT env t_max4 = Some (true, [Rmax (Rmax (x0 env) (x1 env)) (Rmax (x2 env) (x3 env))]). Proof. tree11. Qed.
Theorem clamp_is_min_max env : evalT env t_clamp = Some (true, [Rmin (Rmax (x0 env) (x1 env)) (x2 env)]). Proof. tree11. Qed.
(* step(edge, x) = 0 if x < edge, else 1 *)
Theorem step_def env : evalT env t_step = Some (true, [if Rlt_dec (x1 env) (x0 env) then 0 else 1]). Proof. tree11. Qed.
(* smoothstep(e0, e1, x): t = clamp((x - e0) / (e1 - e0), 0, 1);  t t (3 - 2 t) *)
Definition clamp01 (t : R) : R := if Rlt_dec t 0 then 0 else if Rlt_dec 1 t then 1 else t.
Theorem smoothstep_def env : let t := clamp01 ((x2 env - x0 env) / (x1 env - x0 env)) in evalT env t_smoothstep = Some (true, [t * t * (3 - 2 * t)]).
Proof. cbv zeta. unfold clamp01. tree11. Qed.
Theorem mix_def env : evalT env t_mix = Some (true, [x0 env * (1 - x2 env) + x1 env * x2 env]). Proof. tree11. Qed.
Theorem mix_bool_def env : evalT env t_mix_bool = Some (true, [if Rlt_dec 0 (x2 env) then x1 env else x0 env]). Proof. tree11. Qed.
Theorem floor_def env : evalT env t_floor = Some (true, [IZR (Zfloor (x0 env))]). Proof. tree11. Qed.
Theorem ceil_def env : evalT env t_ceil = Some (true, [IZR (Zceil (x0 env))]). Proof. tree11. Qed.
Theorem trunc_def env : evalT env t_trunc = Some (true, [IZR (Ztrunc (x0 env))]). Proof. tree11. Qed.
(* round: to nearest, ties away from zero *)
Theorem round_def env : evalT env t_round = Some (true, [IZR (ZnearestA (x0 env))]). Proof. tree11. Qed.
Theorem round_is_nearest x : Rabs (x - IZR (ZnearestA x)) <= / 2.
Proof. apply Znearest_half. Qed.
(* fract(x) = x - floor(x), in [0, 1) *)
Theorem fract_def env : exists f, evalT env t_fract = Some (true, [f]) /\ f = x0 env - IZR (Zfloor (x0 env)) /\ 0 <= f < 1.
Proof. eexists. split; [unfold t_fract, x0; ev11; reflexivity|]. split; [reflexivity|]. pose proof (Zfloor_lb (x0 env)). pose proof (Zfloor_ub (x0 env)). unfold x0 in *. lra. Qed.
(* mod(x, y) = x - y floor(x / y), in [0, y) for y > 0 *)
Theorem mod_def env : exists m, evalT env t_mod = Some (true, [m]) /\ m = x0 env - x1 env * IZR (Zfloor (x0 env / x1 env)) /\ (0 < x1 env -> 0 <= m < x1 env).
Proof.
  eexists. split; [unfold t_mod, x0, x1; ev11; reflexivity|]. split; [reflexivity|]. intros Hy. unfold x0, x1 in *.
  pose proof (Zfloor_lb (env F32 0%Z 0%Z / env F32 1%Z 0%Z)) as L. pose proof (Zfloor_ub (env F32 0%Z 0%Z / env F32 1%Z 0%Z)) as U.
  set (q := IZR (Zfloor (env F32 0%Z 0%Z / env F32 1%Z 0%Z))) in *. set (x := env F32 0%Z 0%Z) in *. set (y := env F32 1%Z 0%Z) in *.
  assert (E : x = x / y * y) by (field; lra). split.
  - assert (y * q <= x / y * y) by nra. lra.
  - assert (x / y * y < (q + 1) * y) by nra. lra.
Qed.
(* texture-coordinate wrap modes return coordinates in [0, 1] *)
Definition in01 (o : option (bool * list R)) : Prop := exists r, o = Some (true, [r]) /\ 0 <= r <= 1.
Ltac wrap11 t := intros; unfold in01, t, x0; ev11; unfold Rabs; floor_facts; split_dec; (eexists; split; [reflexivity|]); lra.
Theorem tex_clamp_range env : in01 (evalT env t_tex_clamp). Proof. wrap11 t_tex_clamp. Qed.
Theorem tex_repeat_range env : in01 (evalT env t_tex_repeat). Proof. wrap11 t_tex_repeat. Qed.
Theorem tex_mirrorClamp_range env : in01 (evalT env t_tex_mirrorClamp). Proof. wrap11 t_tex_mirrorClamp. Qed.
Theorem tex_mirrorRepeat_range env : in01 (evalT env t_tex_mirrorRepeat). Proof. wrap11 t_tex_mirrorRepeat. Qed.
