(* C02: matrix*matrix, matrix*vector, vector*matrix compute the column-major sum-of-products
   definition (R3 on the regenerated traces; integer matrices on wrap-around arithmetic). *)
Require Import ZArith List String Bool Reals Lia.
Import ListNotations.
From GLMV Require Import Expr SemR SemZ Cat SpecLinAlg.
From W Require Gen_C02_f32 Gen_C02_i32.
Local Open Scope string_scope.
Local Open Scope Z_scope.

(* real-number idealisation: every output is a sum of exactly K products of two inputs (nothing else is
   computed), and its value is the textbook definition *)
Definition prod_okR cat (nm : string) k (K : Z) (spec : list expr) : Prop :=
  exists outs, outs_of cat nm = Some outs /\ forallb (is_sop k K) outs = true /\
    forall env, map (evalR env) outs = map (evalR env) spec.
(* integer element types: the machine result (two's complement wrap-around) is the wrapped exact definition *)
Definition prod_okZ cat (nm : string) k (spec : list expr) : Prop :=
  exists outs, outs_of cat nm = Some outs /\
    forall env, omap (evalZ false env) outs = Some (map (fun e => wrap k (evalZi env e)) spec).

Definition mm_okR cat ty k (s : Z * Z * Z) := let '(K, Rn, C) := s in prod_okR cat (name "mul_mm" [K; Rn; C] ty) k K (mm_spec k K Rn C).
Definition mv_okR cat ty k (s : Z * Z) := let '(C, Rn) := s in prod_okR cat (name "mul_mv" [C; Rn] ty) k C (mv_spec k C Rn).
Definition vm_okR cat ty k (s : Z * Z) := let '(C, Rn) := s in prod_okR cat (name "mul_vm" [C; Rn] ty) k Rn (vm_spec k C Rn).
Definition sq_okR cat ty k (N : Z) := prod_okR cat (name "muleq_mm" [N] ty) k N (mm_spec k N N N).
Definition mm_okZ cat ty k (s : Z * Z * Z) := let '(K, Rn, C) := s in prod_okZ cat (name "mul_mm" [K; Rn; C] ty) k (mm_spec k K Rn C).
Definition mv_okZ cat ty k (s : Z * Z) := let '(C, Rn) := s in prod_okZ cat (name "mul_mv" [C; Rn] ty) k (mv_spec k C Rn).
Definition vm_okZ cat ty k (s : Z * Z) := let '(C, Rn) := s in prod_okZ cat (name "mul_vm" [C; Rn] ty) k (vm_spec k C Rn).
Definition sq_okZ cat ty k (N : Z) := prod_okZ cat (name "muleq_mm" [N] ty) k (mm_spec k N N N).

Ltac okR := unfold prod_okR; eexists; split; [vm_compute; reflexivity | split; [vm_compute; reflexivity |
  intros env; match goal with |- _ = map _ ?s => eval_spec s end; evR; list_ring]].
Ltac okZ k := unfold prod_okZ; eexists; split; [vm_compute; reflexivity |
  intros env; rewrite (omap_ring k env eq_refl) by (vm_compute; reflexivity); apply f_equal;
  match goal with |- _ = map _ ?s => eval_spec s end; evZ;
  repeat (match goal with |- cons _ _ = cons _ _ => apply f_equal2; [ apply f_equal; ring | ] | |- nil = nil => reflexivity end)].
Ltac all_of tac := repeat (first [apply Forall_nil | apply Forall_cons; [tac | ]]).

Lemma products_mm_real : Forall (mm_okR Gen_C02_f32.catalogue "f32" F32) shapes27.
Proof. unfold shapes27, shapes9; cbn [flat_map map app]. Time all_of ltac:(unfold mm_okR; okR). Qed.
Lemma products_mv_real : Forall (mv_okR Gen_C02_f32.catalogue "f32" F32) shapes9.
Proof. unfold shapes9. Time all_of ltac:(unfold mv_okR; okR). Qed.
Lemma products_vm_real : Forall (vm_okR Gen_C02_f32.catalogue "f32" F32) shapes9.
Proof. unfold shapes9. all_of ltac:(unfold vm_okR; okR). Qed.
Lemma products_sq_real : Forall (sq_okR Gen_C02_f32.catalogue "f32" F32) [2; 3; 4].
Proof. all_of ltac:(unfold sq_okR; okR). Qed.

Lemma products_mm_int : Forall (mm_okZ Gen_C02_i32.catalogue "i32" I32) shapes27.
Proof. unfold shapes27, shapes9; cbn [flat_map map app]. Time all_of ltac:(unfold mm_okZ; okZ I32). Qed.
Lemma products_mv_int : Forall (mv_okZ Gen_C02_i32.catalogue "i32" I32) shapes9.
Proof. unfold shapes9. all_of ltac:(unfold mv_okZ; okZ I32). Qed.
Lemma products_vm_int : Forall (vm_okZ Gen_C02_i32.catalogue "i32" I32) shapes9.
Proof. unfold shapes9. all_of ltac:(unfold vm_okZ; okZ I32). Qed.
Lemma products_sq_int : Forall (sq_okZ Gen_C02_i32.catalogue "i32" I32) [2; 3; 4].
Proof. all_of ltac:(unfold sq_okZ; okZ I32). Qed.
