(* Properties_C02.v -- C02: matrix operators/functions implement column-major linear algebra for all
   nine shapes.  Statements only; every proof is `exact <lemma>` from P_C02_*.v, which are checked
   against the model regenerated from /repo on this run (W.Gen_C02_f32, W.Gen_C02_i32).
   Predicates: P_C02_products (prod_okR: sum of exactly K products of two inputs, equal to the
   definition under evalR; prod_okZ: machine result = wrap of the exact definition),
   P_C02_elementwise (table_ok/conv_ok/access_ok: expression-tree identity with the index-wise
   specification of SpecLinAlg.v; eq_okR/ne_okR: decision-tree semantics). *)
Require Import ZArith List String Bool Reals.
Import ListNotations.
From GLMV Require Import Expr SemR SemZ Cat Comm Chk SpecLinAlg.
From W Require Gen_C02_f32 Gen_C02_i32 P_C02_products P_C02_elementwise.
Import P_C02_products P_C02_elementwise.
Local Open Scope string_scope.
Local Open Scope Z_scope.

(* (A*B)[c][r] = sum_k A[k][r]*B[c][k] for all 27 shape pairs, all entry values *)
Theorem C02_mat_mat_real : Forall (mm_okR Gen_C02_f32.catalogue "f32" F32) shapes27.
Proof. exact products_mm_real. Qed.
Theorem C02_mat_vec_real : Forall (mv_okR Gen_C02_f32.catalogue "f32" F32) shapes9.
Proof. exact products_mv_real. Qed.
Theorem C02_vec_mat_real : Forall (vm_okR Gen_C02_f32.catalogue "f32" F32) shapes9.
Proof. exact products_vm_real. Qed.
Theorem C02_mat_muleq_real : Forall (sq_okR Gen_C02_f32.catalogue "f32" F32) [2; 3; 4].
Proof. exact products_sq_real. Qed.
(* integer matrices: exact (modulo 2^32 wrap-around) *)
Theorem C02_mat_mat_int : Forall (mm_okZ Gen_C02_i32.catalogue "i32" I32) shapes27.
Proof. exact products_mm_int. Qed.
Theorem C02_mat_vec_int : Forall (mv_okZ Gen_C02_i32.catalogue "i32" I32) shapes9.
Proof. exact products_mv_int. Qed.
Theorem C02_vec_mat_int : Forall (vm_okZ Gen_C02_i32.catalogue "i32" I32) shapes9.
Proof. exact products_vm_int. Qed.
Theorem C02_mat_muleq_int : Forall (sq_okZ Gen_C02_i32.catalogue "i32" I32) [2; 3; 4].
Proof. exact products_sq_int. Qed.
(* transpose, outerProduct, matrixCompMult, + - scalar and compound operators, ++/--, diagonal ctor *)
Theorem C02_elementwise_f32 : table_ok Gen_C02_f32.catalogue "f32" F32 = true.
Proof. exact elementwise_f32. Qed.
Theorem C02_elementwise_i32 : table_ok Gen_C02_i32.catalogue "i32" I32 = true.
Proof. exact elementwise_i32. Qed.
Theorem C02_unary_minus_f32 : Forall (neg_okR Gen_C02_f32.catalogue "f32" F32) shapes9.
Proof. exact neg_f32. Qed.
(* the 81 shape conversions copy the overlapping block and pad with the identity *)
Theorem C02_conversions_f32 : conv_ok Gen_C02_f32.catalogue "f32" F32 = true.
Proof. exact conversions_f32. Qed.
Theorem C02_conversions_i32 : conv_ok Gen_C02_i32.catalogue "i32" I32 = true.
Proof. exact conversions_i32. Qed.
(* row()/column() get and set, every valid index *)
(* gtx helpers named in the anchors: diagonalCxR, rowMajorN / colMajorN from vectors and from a matrix *)
Theorem C02_gtx_diagonal_and_major_storage_f32 : gtx_ok Gen_C02_f32.catalogue "f32" F32 = true.
Proof. exact gtx_f32. Qed.
Theorem C02_gtx_diagonal_and_major_storage_i32 : gtx_ok Gen_C02_i32.catalogue "i32" I32 = true.
Proof. exact gtx_i32. Qed.
Theorem C02_access_f32 : access_ok Gen_C02_f32.catalogue "f32" F32 = true.
Proof. exact access_f32. Qed.
Theorem C02_access_i32 : access_ok Gen_C02_i32.catalogue "i32" I32 = true.
Proof. exact access_i32. Qed.
(* operator== / operator!= *)
Theorem C02_operator_eq : Forall (eq_okR Gen_C02_f32.catalogue "f32" F32) shapes9.
Proof. exact eq_f32. Qed.
Theorem C02_operator_ne : Forall (ne_okR Gen_C02_f32.catalogue "f32" F32) shapes9.
Proof. exact ne_f32. Qed.

(* meaning of the reflexive checks (generic lemmas of Chk.v, restated so that they are in the audit trail) *)
Theorem C02_chk_meaning_R : forall cat nm spec, chk cat nm spec = true ->
  exists outs, outs_of cat nm = Some outs /\ forall env, map (evalR env) outs = map (evalR env) spec.
Proof. exact chk_sound_R. Qed.
Theorem C02_chk_meaning_Z : forall cat nm spec, chk cat nm spec = true ->
  exists outs, outs_of cat nm = Some outs /\ forall s env, omap (evalZ s env) outs = omap (evalZ s env) spec.
Proof. exact chk_sound_Z. Qed.
Theorem C02_chk_syn_meaning : forall cat nm spec, chk_syn cat nm spec = true -> outs_of cat nm = Some spec.
Proof. exact chk_syn_sound. Qed.

(* non-vacuity: the regenerated catalogue is populated and a sample entry is the expected term *)
Example C02_catalogue_populated : (400 <=? Z.of_nat (List.length Gen_C02_f32.catalogue)) = true /\
  option_map (fun l => nth_e l 0) (outs_of Gen_C02_f32.catalogue "mul_mv_2_2_f32") =
    Some (B Add F32 (B Mul F32 (V F32 0 0) (V F32 1 0)) (B Mul F32 (V F32 0 2) (V F32 1 1))).
Proof. split; vm_compute; reflexivity. Qed.

Print Assumptions C02_mat_mat_real.
Print Assumptions C02_mat_mat_int.
Print Assumptions C02_elementwise_f32.
Print Assumptions C02_conversions_f32.
Print Assumptions C02_access_f32.
Print Assumptions C02_operator_eq.
Print Assumptions C02_unary_minus_f32.
Print Assumptions C02_chk_meaning_R.
Print Assumptions C02_chk_meaning_Z.
