(* C02: transpose, outerProduct, matrixCompMult, the element-wise and scalar operators, compound
   assignment, increment/decrement, row/column access, diagonal and shape-converting constructors
   are exactly the index-wise definitions (R1/R2: identity of expression trees up to the operand order
   of commutative operators), for all nine shapes, float and int element types. *)
Require Import ZArith List String Bool Reals Lia.
Import ListNotations.
From GLMV Require Import Expr SemR SemZ Cat Comm Chk SpecLinAlg.
From W Require Gen_C02_f32 Gen_C02_i32.
Local Open Scope string_scope.
Local Open Scope Z_scope.

Definition square (s : Z * Z) := let '(C, Rn) := s in C =? Rn.
Definition vars (k : kind) (a n : Z) : list expr := map (fun i => V k a i) (zseq n).

(* one row per operator: entry name and specification as a function of the shape *)
Definition table (k : kind) : list (string * bool * (Z -> Z -> list expr)) := [
  ("transpose", false, transpose_spec k);
  ("outer", false, outer_spec k);
  ("compmult", false, fun C Rn => elementwise2 Mul k (C * Rn));
  ("add_mm", false, fun C Rn => elementwise2 Add k (C * Rn));
  ("addeq_mm", false, fun C Rn => elementwise2 Add k (C * Rn));
  ("sub_mm", false, fun C Rn => elementwise2 Sub k (C * Rn));
  ("subeq_mm", false, fun C Rn => elementwise2 Sub k (C * Rn));
  ("add_ms", false, fun C Rn => elementwise_ms Add k (C * Rn));
  ("addeq_ms", false, fun C Rn => elementwise_ms Add k (C * Rn));
  ("sub_ms", false, fun C Rn => elementwise_ms Sub k (C * Rn));
  ("subeq_ms", false, fun C Rn => elementwise_ms Sub k (C * Rn));
  ("mul_ms", false, fun C Rn => elementwise_ms Mul k (C * Rn));
  ("muleq_ms", false, fun C Rn => elementwise_ms Mul k (C * Rn));
  ("div_ms", false, fun C Rn => elementwise_ms Div k (C * Rn));
  ("diveq_ms", false, fun C Rn => elementwise_ms Div k (C * Rn));
  ("add_sm", true, fun C Rn => elementwise_sm Add k (C * Rn));
  ("sub_sm", true, fun C Rn => elementwise_sm Sub k (C * Rn));
  ("mul_sm", false, fun C Rn => elementwise_sm Mul k (C * Rn));
  ("div_sm", false, fun C Rn => elementwise_sm Div k (C * Rn));
  ("pos_m", false, fun C Rn => vars k 0 (C * Rn));
  ("preinc_m", false, fun C Rn => map (fun i => B Add k (V k 0 i) (one_of k)) (zseq (C * Rn)));
  ("predec_m", false, fun C Rn => map (fun i => B Sub k (V k 0 i) (one_of k)) (zseq (C * Rn)));
  ("postinc_m", false, fun C Rn => map (fun i => B Add k (V k 0 i) (one_of k)) (zseq (C * Rn)) ++ vars k 0 (C * Rn))%list;
  ("postdec_m", false, fun C Rn => map (fun i => B Sub k (V k 0 i) (one_of k)) (zseq (C * Rn)) ++ vars k 0 (C * Rn))%list;
  ("diag", false, diag_spec k)
].

Definition table_ok cat ty k : bool :=
  forallb (fun row => let '(f, sq, spec) := row in
    forallb (fun s => let '(C, Rn) := s in if sq && negb (C =? Rn) then true else chk cat (name f [C; Rn] ty) (spec C Rn)) shapes9) (table k).

Lemma elementwise_f32 : table_ok Gen_C02_f32.catalogue "f32" F32 = true.
Proof. vm_compute. reflexivity. Qed.
Lemma elementwise_i32 : table_ok Gen_C02_i32.catalogue "i32" I32 = true.
Proof. vm_compute. reflexivity. Qed.

(* the 81 shape conversions: overlapping block copied, remainder taken from the identity *)
Definition conv_ok cat ty k : bool :=
  forallb (fun d => let '(C, Rn) := d in forallb (fun s => let '(C2, R2) := s in
    chk_syn cat (name "conv" [C; Rn; C2; R2] ty) (convert_spec k C Rn C2 R2)) shapes9) shapes9.
Lemma conversions_f32 : conv_ok Gen_C02_f32.catalogue "f32" F32 = true.
Proof. vm_compute. reflexivity. Qed.
Lemma conversions_i32 : conv_ok Gen_C02_i32.catalogue "i32" I32 = true.
Proof. vm_compute. reflexivity. Qed.

(* gtx/matrix_operation diagonalCxR(v): v on the diagonal, zero elsewhere; gtx/matrix_major_storage: rowMajorN places its arguments as rows
   (rowMajorN(m) is the transpose), colMajorN as columns (colMajorN(m) is a copy) *)
Definition grid (C Rn : Z) (f : Z -> Z -> expr) : list expr := flat_map (fun c => map (fun r => f c r) (zseq Rn)) (zseq C).
Definition gtx_ok cat ty k : bool :=
  forallb (fun s => let '(C, Rn) := s in chk_syn cat (name "gdiag" [C; Rn] ty) (grid C Rn (fun c r => if c =? r then V k 0 c else zero_of k))) shapes9 &&
  forallb (fun N => chk_syn cat (name "rowmajorv" [N] ty) (grid N N (fun c r => V k r c)) && chk_syn cat (name "colmajorv" [N] ty) (grid N N (fun c r => V k c r)) &&
                    chk_syn cat (name "rowmajorm" [N] ty) (grid N N (fun c r => V k 0 (r * N + c))) && chk_syn cat (name "colmajorm" [N] ty) (grid N N (fun c r => V k 0 (c * N + r)))) [2; 3; 4].
Lemma gtx_f32 : gtx_ok Gen_C02_f32.catalogue "f32" F32 = true.
Proof. vm_compute. reflexivity. Qed.
Lemma gtx_i32 : gtx_ok Gen_C02_i32.catalogue "i32" I32 = true.
Proof. vm_compute. reflexivity. Qed.

(* row / column accessors for every valid index *)
Definition access_ok cat ty k : bool :=
  forallb (fun s => let '(C, Rn) := s in
    forallb (fun i => chk_syn cat (name "colget" [C; Rn; i] ty) (column_get_spec k C Rn i) && chk_syn cat (name "colset" [C; Rn; i] ty) (column_set_spec k C Rn i)) (zseq C) &&
    forallb (fun i => chk_syn cat (name "rowget" [C; Rn; i] ty) (row_get_spec k C Rn i) && chk_syn cat (name "rowset" [C; Rn; i] ty) (row_set_spec k C Rn i)) (zseq Rn)) shapes9.
Lemma access_f32 : access_ok Gen_C02_f32.catalogue "f32" F32 = true.
Proof. vm_compute. reflexivity. Qed.
Lemma access_i32 : access_ok Gen_C02_i32.catalogue "i32" I32 = true.
Proof. vm_compute. reflexivity. Qed.

(* unary minus: GLM computes 0 - x per element; equal to -x in real and in wrap-around arithmetic *)
Definition neg_okR cat ty k (s : Z * Z) : Prop := let '(C, Rn) := s in
  exists outs, outs_of cat (name "neg_m" [C; Rn] ty) = Some outs /\ forall env, map (evalR env) outs = map (evalR env) (elementwise1 Neg k (C * Rn)).
Lemma neg_f32 : Forall (neg_okR Gen_C02_f32.catalogue "f32" F32) shapes9.
Proof.
  unfold shapes9. repeat (first [apply Forall_nil | apply Forall_cons; [unfold neg_okR; eexists; split; [vm_compute; reflexivity| intros env; match goal with |- _ = map _ ?s => eval_spec s end; evR; list_ring] | ]]).
Qed.

(* operator== / operator!=: true exactly when all (resp. not all) corresponding elements compare equal *)
Definition all_eqR (k : kind) (n : Z) (env : renv) : bool := forallb (fun i => cmpR CEq (env k 0 i) (env k 1 i)) (zseq n).
Definition eq_okR cat ty k (s : Z * Z) : Prop := let '(C, Rn) := s in
  exists t, lookup (name "eq_mm" [C; Rn] ty) cat = Some t /\ forall env, tree_boolR env t = Some (all_eqR k (C * Rn) env).
Definition ne_okR cat ty k (s : Z * Z) : Prop := let '(C, Rn) := s in
  exists t, lookup (name "ne_mm" [C; Rn] ty) cat = Some t /\ forall env, tree_boolR env t = Some (negb (all_eqR k (C * Rn) env)).
Ltac bool_tree := intros env; cbv [tree_boolR all_eqR evalRB evalR forallb map zseq seq Z.to_nat Pos.to_nat Pos.iter_op Nat.add Z.of_nat Pos.of_succ_nat Pos.succ Z.mul Pos.mul Pos.add Pos.add_carry Z.eqb negb];
  repeat match goal with |- context [cmpR CEq ?a ?b] => destruct (cmpR CEq a b); cbn [andb negb] end; reflexivity.
Lemma eq_f32 : Forall (eq_okR Gen_C02_f32.catalogue "f32" F32) shapes9.
Proof. unfold shapes9. repeat (first [apply Forall_nil | apply Forall_cons; [unfold eq_okR; eexists; split; [vm_compute; reflexivity| bool_tree] | ]]). Qed.
Lemma ne_f32 : Forall (ne_okR Gen_C02_f32.catalogue "f32" F32) shapes9.
Proof. unfold shapes9. repeat (first [apply Forall_nil | apply Forall_cons; [unfold ne_okR; eexists; split; [vm_compute; reflexivity| bool_tree] | ]]). Qed.
