(* Properties_C15.v -- C15: non-semantic configuration macros never change results.
   Every trace translation unit of the operation table (common functions, geometric, quaternion/Euler, quaternion
   interpolation, transforms, relational/epsilon, colour space: the catalogues of C11, C12, C04, C13, C09, C14, C19, and a catalogue of 122 vector / matrix / quaternion constructors and conversions,
   whose pre-C++11 bodies are separate code) is
   re-translated from GLM's templates under each configuration; the theorems say that the regenerated catalogue is IDENTICAL,
   decision tree by decision tree, to the one of the default configuration: the same floating-point operations in the same
   order on the same operands, hence bit-identical results on every input.  Under GLM_FORCE_CXX98 / CXX03 the common-function
   entries whose body is a pre-C++11 fallback differ in form: fmin / fmax / fclamp / trunc are proved semantically equal
   (P_C15_fallbacks), round / iround / uround / roundEven convert to int and are left to the oracle (KNOWN FINDING for round).
   The optimisation level and the non-template code (packing, half, ULP) are compared by the oracle on a binary corpus. *)
Require Import ZArith List String Bool Reals.
Import ListNotations.
From GLMV Require Import Expr Cat SemR SemN.
From W Require Gen_C15_ctor_default Gen_C15_ctor_cxx98 Gen_C15_ctor_cxx03 Gen_C15_ctor_cxx11 Gen_C15_ctor_cxx14 Gen_C15_ctor_std11 Gen_C15_ctor_std14 Gen_C15_ctor_inline Gen_C15_ctor_explicit_ctor Gen_C15_ctor_ctor_init Gen_C15_ctor_size_t_length Gen_C15_ctor_xyzw_only Gen_C15_ctor_swizzle Gen_C15_ctor_unrestricted Gen_C15_ctor_quat_wxyz Gen_C15_ctor_aligned Gen_C15_ctor_compiler_unknown Gen_C15_ctor_platform_unknown Gen_C15_ctor_arch_unknown Gen_C15_ctor_pure Gen_C15_ctor_silent.
From W Require A_C15_defs P_C15_fallbacks Gen_C15_c11_default Gen_C15_c11_cxx98 Gen_C15_c11_cxx03 Gen_C15_c11_cxx11 Gen_C15_c11_cxx14 Gen_C15_c11_std11 Gen_C15_c11_std14 Gen_C15_c11_inline Gen_C15_c11_explicit_ctor Gen_C15_c11_ctor_init Gen_C15_c11_size_t_length Gen_C15_c11_xyzw_only Gen_C15_c11_swizzle Gen_C15_c11_unrestricted Gen_C15_c11_quat_wxyz Gen_C15_c11_aligned Gen_C15_c11_compiler_unknown Gen_C15_c11_platform_unknown Gen_C15_c11_arch_unknown Gen_C15_c11_pure Gen_C15_c11_silent Gen_C15_c12_default Gen_C15_c12_cxx98 Gen_C15_c12_cxx03 Gen_C15_c12_cxx11 Gen_C15_c12_cxx14 Gen_C15_c12_std11 Gen_C15_c12_std14 Gen_C15_c12_inline Gen_C15_c12_explicit_ctor Gen_C15_c12_ctor_init Gen_C15_c12_size_t_length Gen_C15_c12_xyzw_only Gen_C15_c12_swizzle Gen_C15_c12_unrestricted Gen_C15_c12_quat_wxyz Gen_C15_c12_aligned Gen_C15_c12_compiler_unknown Gen_C15_c12_platform_unknown Gen_C15_c12_arch_unknown Gen_C15_c12_pure Gen_C15_c12_silent Gen_C15_c04_default Gen_C15_c04_cxx98 Gen_C15_c04_cxx03 Gen_C15_c04_cxx11 Gen_C15_c04_cxx14 Gen_C15_c04_std11 Gen_C15_c04_std14 Gen_C15_c04_inline Gen_C15_c04_explicit_ctor Gen_C15_c04_ctor_init Gen_C15_c04_size_t_length Gen_C15_c04_xyzw_only Gen_C15_c04_swizzle Gen_C15_c04_unrestricted Gen_C15_c04_quat_wxyz Gen_C15_c04_aligned Gen_C15_c04_compiler_unknown Gen_C15_c04_platform_unknown Gen_C15_c04_arch_unknown Gen_C15_c04_pure Gen_C15_c04_silent Gen_C15_c13_default Gen_C15_c13_cxx98 Gen_C15_c13_cxx03 Gen_C15_c13_cxx11 Gen_C15_c13_cxx14 Gen_C15_c13_std11 Gen_C15_c13_std14 Gen_C15_c13_inline Gen_C15_c13_explicit_ctor Gen_C15_c13_ctor_init Gen_C15_c13_size_t_length Gen_C15_c13_xyzw_only Gen_C15_c13_swizzle Gen_C15_c13_unrestricted Gen_C15_c13_quat_wxyz Gen_C15_c13_aligned Gen_C15_c13_compiler_unknown Gen_C15_c13_platform_unknown Gen_C15_c13_arch_unknown Gen_C15_c13_pure Gen_C15_c13_silent Gen_C15_c09_default Gen_C15_c09_cxx98 Gen_C15_c09_cxx03 Gen_C15_c09_cxx11 Gen_C15_c09_cxx14 Gen_C15_c09_std11 Gen_C15_c09_std14 Gen_C15_c09_inline Gen_C15_c09_explicit_ctor Gen_C15_c09_ctor_init Gen_C15_c09_size_t_length Gen_C15_c09_xyzw_only Gen_C15_c09_swizzle Gen_C15_c09_unrestricted Gen_C15_c09_quat_wxyz Gen_C15_c09_aligned Gen_C15_c09_compiler_unknown Gen_C15_c09_platform_unknown Gen_C15_c09_arch_unknown Gen_C15_c09_pure Gen_C15_c09_silent Gen_C15_c14_default Gen_C15_c14_cxx98 Gen_C15_c14_cxx03 Gen_C15_c14_cxx11 Gen_C15_c14_cxx14 Gen_C15_c14_std11 Gen_C15_c14_std14 Gen_C15_c14_inline Gen_C15_c14_explicit_ctor Gen_C15_c14_ctor_init Gen_C15_c14_size_t_length Gen_C15_c14_xyzw_only Gen_C15_c14_swizzle Gen_C15_c14_unrestricted Gen_C15_c14_quat_wxyz Gen_C15_c14_aligned Gen_C15_c14_compiler_unknown Gen_C15_c14_platform_unknown Gen_C15_c14_arch_unknown Gen_C15_c14_pure Gen_C15_c14_silent Gen_C15_c19_default Gen_C15_c19_cxx98 Gen_C15_c19_cxx03 Gen_C15_c19_cxx11 Gen_C15_c19_cxx14 Gen_C15_c19_std11 Gen_C15_c19_std14 Gen_C15_c19_inline Gen_C15_c19_explicit_ctor Gen_C15_c19_ctor_init Gen_C15_c19_size_t_length Gen_C15_c19_xyzw_only Gen_C15_c19_swizzle Gen_C15_c19_unrestricted Gen_C15_c19_quat_wxyz Gen_C15_c19_aligned Gen_C15_c19_compiler_unknown Gen_C15_c19_platform_unknown Gen_C15_c19_arch_unknown Gen_C15_c19_pure Gen_C15_c19_silent.
Import A_C15_defs.
Local Open Scope string_scope.

(* -DGLM_FORCE_CXX98 *)
Theorem C15_cxx98 :
  same_cat_except fallback_entries Gen_C15_c11_default.catalogue Gen_C15_c11_cxx98.catalogue &&
  same_cat_except [] Gen_C15_c12_default.catalogue Gen_C15_c12_cxx98.catalogue &&
  same_cat_except [] Gen_C15_c04_default.catalogue Gen_C15_c04_cxx98.catalogue &&
  same_cat_except [] Gen_C15_c13_default.catalogue Gen_C15_c13_cxx98.catalogue &&
  same_cat_except [] Gen_C15_c09_default.catalogue Gen_C15_c09_cxx98.catalogue &&
  same_cat_except [] Gen_C15_c14_default.catalogue Gen_C15_c14_cxx98.catalogue &&
  same_cat_except [] Gen_C15_c19_default.catalogue Gen_C15_c19_cxx98.catalogue &&
  same_cat_except [] Gen_C15_ctor_default.catalogue Gen_C15_ctor_cxx98.catalogue = true.
Proof. vm_compute. reflexivity. Qed.
(* -DGLM_FORCE_CXX03 *)
Theorem C15_cxx03 :
  same_cat_except fallback_entries Gen_C15_c11_default.catalogue Gen_C15_c11_cxx03.catalogue &&
  same_cat_except [] Gen_C15_c12_default.catalogue Gen_C15_c12_cxx03.catalogue &&
  same_cat_except [] Gen_C15_c04_default.catalogue Gen_C15_c04_cxx03.catalogue &&
  same_cat_except [] Gen_C15_c13_default.catalogue Gen_C15_c13_cxx03.catalogue &&
  same_cat_except [] Gen_C15_c09_default.catalogue Gen_C15_c09_cxx03.catalogue &&
  same_cat_except [] Gen_C15_c14_default.catalogue Gen_C15_c14_cxx03.catalogue &&
  same_cat_except [] Gen_C15_c19_default.catalogue Gen_C15_c19_cxx03.catalogue &&
  same_cat_except [] Gen_C15_ctor_default.catalogue Gen_C15_ctor_cxx03.catalogue = true.
Proof. vm_compute. reflexivity. Qed.
(* -DGLM_FORCE_CXX11 *)
Theorem C15_cxx11 :
  same_cat_except untraceable_entries Gen_C15_c11_default.catalogue Gen_C15_c11_cxx11.catalogue &&
  same_cat_except [] Gen_C15_c12_default.catalogue Gen_C15_c12_cxx11.catalogue &&
  same_cat_except [] Gen_C15_c04_default.catalogue Gen_C15_c04_cxx11.catalogue &&
  same_cat_except [] Gen_C15_c13_default.catalogue Gen_C15_c13_cxx11.catalogue &&
  same_cat_except [] Gen_C15_c09_default.catalogue Gen_C15_c09_cxx11.catalogue &&
  same_cat_except [] Gen_C15_c14_default.catalogue Gen_C15_c14_cxx11.catalogue &&
  same_cat_except [] Gen_C15_c19_default.catalogue Gen_C15_c19_cxx11.catalogue &&
  same_cat_except [] Gen_C15_ctor_default.catalogue Gen_C15_ctor_cxx11.catalogue = true.
Proof. vm_compute. reflexivity. Qed.
(* -DGLM_FORCE_CXX14 *)
Theorem C15_cxx14 :
  same_cat_except untraceable_entries Gen_C15_c11_default.catalogue Gen_C15_c11_cxx14.catalogue &&
  same_cat_except [] Gen_C15_c12_default.catalogue Gen_C15_c12_cxx14.catalogue &&
  same_cat_except [] Gen_C15_c04_default.catalogue Gen_C15_c04_cxx14.catalogue &&
  same_cat_except [] Gen_C15_c13_default.catalogue Gen_C15_c13_cxx14.catalogue &&
  same_cat_except [] Gen_C15_c09_default.catalogue Gen_C15_c09_cxx14.catalogue &&
  same_cat_except [] Gen_C15_c14_default.catalogue Gen_C15_c14_cxx14.catalogue &&
  same_cat_except [] Gen_C15_c19_default.catalogue Gen_C15_c19_cxx14.catalogue &&
  same_cat_except [] Gen_C15_ctor_default.catalogue Gen_C15_ctor_cxx14.catalogue = true.
Proof. vm_compute. reflexivity. Qed.
(* -std=gnu++11 *)
Theorem C15_std11 :
  same_cat_except untraceable_entries Gen_C15_c11_default.catalogue Gen_C15_c11_std11.catalogue &&
  same_cat_except [] Gen_C15_c12_default.catalogue Gen_C15_c12_std11.catalogue &&
  same_cat_except [] Gen_C15_c04_default.catalogue Gen_C15_c04_std11.catalogue &&
  same_cat_except [] Gen_C15_c13_default.catalogue Gen_C15_c13_std11.catalogue &&
  same_cat_except [] Gen_C15_c09_default.catalogue Gen_C15_c09_std11.catalogue &&
  same_cat_except [] Gen_C15_c14_default.catalogue Gen_C15_c14_std11.catalogue &&
  same_cat_except [] Gen_C15_c19_default.catalogue Gen_C15_c19_std11.catalogue &&
  same_cat_except [] Gen_C15_ctor_default.catalogue Gen_C15_ctor_std11.catalogue = true.
Proof. vm_compute. reflexivity. Qed.
(* -std=gnu++14 *)
Theorem C15_std14 :
  same_cat_except untraceable_entries Gen_C15_c11_default.catalogue Gen_C15_c11_std14.catalogue &&
  same_cat_except [] Gen_C15_c12_default.catalogue Gen_C15_c12_std14.catalogue &&
  same_cat_except [] Gen_C15_c04_default.catalogue Gen_C15_c04_std14.catalogue &&
  same_cat_except [] Gen_C15_c13_default.catalogue Gen_C15_c13_std14.catalogue &&
  same_cat_except [] Gen_C15_c09_default.catalogue Gen_C15_c09_std14.catalogue &&
  same_cat_except [] Gen_C15_c14_default.catalogue Gen_C15_c14_std14.catalogue &&
  same_cat_except [] Gen_C15_c19_default.catalogue Gen_C15_c19_std14.catalogue &&
  same_cat_except [] Gen_C15_ctor_default.catalogue Gen_C15_ctor_std14.catalogue = true.
Proof. vm_compute. reflexivity. Qed.
(* -DGLM_FORCE_INLINE *)
Theorem C15_inline :
  same_cat_except untraceable_entries Gen_C15_c11_default.catalogue Gen_C15_c11_inline.catalogue &&
  same_cat_except [] Gen_C15_c12_default.catalogue Gen_C15_c12_inline.catalogue &&
  same_cat_except [] Gen_C15_c04_default.catalogue Gen_C15_c04_inline.catalogue &&
  same_cat_except [] Gen_C15_c13_default.catalogue Gen_C15_c13_inline.catalogue &&
  same_cat_except [] Gen_C15_c09_default.catalogue Gen_C15_c09_inline.catalogue &&
  same_cat_except [] Gen_C15_c14_default.catalogue Gen_C15_c14_inline.catalogue &&
  same_cat_except [] Gen_C15_c19_default.catalogue Gen_C15_c19_inline.catalogue &&
  same_cat_except [] Gen_C15_ctor_default.catalogue Gen_C15_ctor_inline.catalogue = true.
Proof. vm_compute. reflexivity. Qed.
(* -DGLM_FORCE_EXPLICIT_CTOR *)
Theorem C15_explicit_ctor :
  same_cat_except untraceable_entries Gen_C15_c11_default.catalogue Gen_C15_c11_explicit_ctor.catalogue &&
  same_cat_except [] Gen_C15_c12_default.catalogue Gen_C15_c12_explicit_ctor.catalogue &&
  same_cat_except [] Gen_C15_c04_default.catalogue Gen_C15_c04_explicit_ctor.catalogue &&
  same_cat_except [] Gen_C15_c13_default.catalogue Gen_C15_c13_explicit_ctor.catalogue &&
  same_cat_except [] Gen_C15_c09_default.catalogue Gen_C15_c09_explicit_ctor.catalogue &&
  same_cat_except [] Gen_C15_c14_default.catalogue Gen_C15_c14_explicit_ctor.catalogue &&
  same_cat_except [] Gen_C15_c19_default.catalogue Gen_C15_c19_explicit_ctor.catalogue &&
  same_cat_except [] Gen_C15_ctor_default.catalogue Gen_C15_ctor_explicit_ctor.catalogue = true.
Proof. vm_compute. reflexivity. Qed.
(* -DGLM_FORCE_CTOR_INIT *)
Theorem C15_ctor_init :
  same_cat_except untraceable_entries Gen_C15_c11_default.catalogue Gen_C15_c11_ctor_init.catalogue &&
  same_cat_except [] Gen_C15_c12_default.catalogue Gen_C15_c12_ctor_init.catalogue &&
  same_cat_except [] Gen_C15_c04_default.catalogue Gen_C15_c04_ctor_init.catalogue &&
  same_cat_except [] Gen_C15_c13_default.catalogue Gen_C15_c13_ctor_init.catalogue &&
  same_cat_except [] Gen_C15_c09_default.catalogue Gen_C15_c09_ctor_init.catalogue &&
  same_cat_except [] Gen_C15_c14_default.catalogue Gen_C15_c14_ctor_init.catalogue &&
  same_cat_except [] Gen_C15_c19_default.catalogue Gen_C15_c19_ctor_init.catalogue &&
  same_cat_except [] Gen_C15_ctor_default.catalogue Gen_C15_ctor_ctor_init.catalogue = true.
Proof. vm_compute. reflexivity. Qed.
(* -DGLM_FORCE_SIZE_T_LENGTH *)
Theorem C15_size_t_length :
  same_cat_except untraceable_entries Gen_C15_c11_default.catalogue Gen_C15_c11_size_t_length.catalogue &&
  same_cat_except [] Gen_C15_c12_default.catalogue Gen_C15_c12_size_t_length.catalogue &&
  same_cat_except [] Gen_C15_c04_default.catalogue Gen_C15_c04_size_t_length.catalogue &&
  same_cat_except [] Gen_C15_c13_default.catalogue Gen_C15_c13_size_t_length.catalogue &&
  same_cat_except [] Gen_C15_c09_default.catalogue Gen_C15_c09_size_t_length.catalogue &&
  same_cat_except [] Gen_C15_c14_default.catalogue Gen_C15_c14_size_t_length.catalogue &&
  same_cat_except [] Gen_C15_c19_default.catalogue Gen_C15_c19_size_t_length.catalogue &&
  same_cat_except [] Gen_C15_ctor_default.catalogue Gen_C15_ctor_size_t_length.catalogue = true.
Proof. vm_compute. reflexivity. Qed.
(* -DGLM_FORCE_XYZW_ONLY *)
Theorem C15_xyzw_only :
  same_cat_except untraceable_entries Gen_C15_c11_default.catalogue Gen_C15_c11_xyzw_only.catalogue &&
  same_cat_except [] Gen_C15_c12_default.catalogue Gen_C15_c12_xyzw_only.catalogue &&
  same_cat_except [] Gen_C15_c04_default.catalogue Gen_C15_c04_xyzw_only.catalogue &&
  same_cat_except [] Gen_C15_c13_default.catalogue Gen_C15_c13_xyzw_only.catalogue &&
  same_cat_except [] Gen_C15_c09_default.catalogue Gen_C15_c09_xyzw_only.catalogue &&
  same_cat_except [] Gen_C15_c14_default.catalogue Gen_C15_c14_xyzw_only.catalogue &&
  same_cat_except [] Gen_C15_c19_default.catalogue Gen_C15_c19_xyzw_only.catalogue &&
  same_cat_except [] Gen_C15_ctor_default.catalogue Gen_C15_ctor_xyzw_only.catalogue = true.
Proof. vm_compute. reflexivity. Qed.
(* -DGLM_FORCE_SWIZZLE *)
Theorem C15_swizzle :
  same_cat_except untraceable_entries Gen_C15_c11_default.catalogue Gen_C15_c11_swizzle.catalogue &&
  same_cat_except [] Gen_C15_c12_default.catalogue Gen_C15_c12_swizzle.catalogue &&
  same_cat_except [] Gen_C15_c04_default.catalogue Gen_C15_c04_swizzle.catalogue &&
  same_cat_except [] Gen_C15_c13_default.catalogue Gen_C15_c13_swizzle.catalogue &&
  same_cat_except [] Gen_C15_c09_default.catalogue Gen_C15_c09_swizzle.catalogue &&
  same_cat_except [] Gen_C15_c14_default.catalogue Gen_C15_c14_swizzle.catalogue &&
  same_cat_except [] Gen_C15_c19_default.catalogue Gen_C15_c19_swizzle.catalogue &&
  same_cat_except [] Gen_C15_ctor_default.catalogue Gen_C15_ctor_swizzle.catalogue = true.
Proof. vm_compute. reflexivity. Qed.
(* -DGLM_FORCE_UNRESTRICTED_GENTYPE *)
Theorem C15_unrestricted :
  same_cat_except untraceable_entries Gen_C15_c11_default.catalogue Gen_C15_c11_unrestricted.catalogue &&
  same_cat_except [] Gen_C15_c12_default.catalogue Gen_C15_c12_unrestricted.catalogue &&
  same_cat_except [] Gen_C15_c04_default.catalogue Gen_C15_c04_unrestricted.catalogue &&
  same_cat_except [] Gen_C15_c13_default.catalogue Gen_C15_c13_unrestricted.catalogue &&
  same_cat_except [] Gen_C15_c09_default.catalogue Gen_C15_c09_unrestricted.catalogue &&
  same_cat_except [] Gen_C15_c14_default.catalogue Gen_C15_c14_unrestricted.catalogue &&
  same_cat_except [] Gen_C15_c19_default.catalogue Gen_C15_c19_unrestricted.catalogue &&
  same_cat_except [] Gen_C15_ctor_default.catalogue Gen_C15_ctor_unrestricted.catalogue = true.
Proof. vm_compute. reflexivity. Qed.
(* -DGLM_FORCE_QUAT_DATA_WXYZ *)
Theorem C15_quat_wxyz :
  same_cat_except untraceable_entries Gen_C15_c11_default.catalogue Gen_C15_c11_quat_wxyz.catalogue &&
  same_cat_except [] Gen_C15_c12_default.catalogue Gen_C15_c12_quat_wxyz.catalogue &&
  same_cat_except [] Gen_C15_c04_default.catalogue Gen_C15_c04_quat_wxyz.catalogue &&
  same_cat_except [] Gen_C15_c13_default.catalogue Gen_C15_c13_quat_wxyz.catalogue &&
  same_cat_except [] Gen_C15_c09_default.catalogue Gen_C15_c09_quat_wxyz.catalogue &&
  same_cat_except [] Gen_C15_c14_default.catalogue Gen_C15_c14_quat_wxyz.catalogue &&
  same_cat_except [] Gen_C15_c19_default.catalogue Gen_C15_c19_quat_wxyz.catalogue &&
  same_cat_except [] Gen_C15_ctor_default.catalogue Gen_C15_ctor_quat_wxyz.catalogue = true.
Proof. vm_compute. reflexivity. Qed.
(* -DGLM_FORCE_ALIGNED_GENTYPES -D_MSC_EXTENSIONS *)
Theorem C15_aligned :
  same_cat_except untraceable_entries Gen_C15_c11_default.catalogue Gen_C15_c11_aligned.catalogue &&
  same_cat_except [] Gen_C15_c12_default.catalogue Gen_C15_c12_aligned.catalogue &&
  same_cat_except [] Gen_C15_c04_default.catalogue Gen_C15_c04_aligned.catalogue &&
  same_cat_except [] Gen_C15_c13_default.catalogue Gen_C15_c13_aligned.catalogue &&
  same_cat_except [] Gen_C15_c09_default.catalogue Gen_C15_c09_aligned.catalogue &&
  same_cat_except [] Gen_C15_c14_default.catalogue Gen_C15_c14_aligned.catalogue &&
  same_cat_except [] Gen_C15_c19_default.catalogue Gen_C15_c19_aligned.catalogue &&
  same_cat_except [] Gen_C15_ctor_default.catalogue Gen_C15_ctor_aligned.catalogue = true.
Proof. vm_compute. reflexivity. Qed.
(* -DGLM_FORCE_COMPILER_UNKNOWN *)
Theorem C15_compiler_unknown :
  same_cat_except untraceable_entries Gen_C15_c11_default.catalogue Gen_C15_c11_compiler_unknown.catalogue &&
  same_cat_except [] Gen_C15_c12_default.catalogue Gen_C15_c12_compiler_unknown.catalogue &&
  same_cat_except [] Gen_C15_c04_default.catalogue Gen_C15_c04_compiler_unknown.catalogue &&
  same_cat_except [] Gen_C15_c13_default.catalogue Gen_C15_c13_compiler_unknown.catalogue &&
  same_cat_except [] Gen_C15_c09_default.catalogue Gen_C15_c09_compiler_unknown.catalogue &&
  same_cat_except [] Gen_C15_c14_default.catalogue Gen_C15_c14_compiler_unknown.catalogue &&
  same_cat_except [] Gen_C15_c19_default.catalogue Gen_C15_c19_compiler_unknown.catalogue &&
  same_cat_except [] Gen_C15_ctor_default.catalogue Gen_C15_ctor_compiler_unknown.catalogue = true.
Proof. vm_compute. reflexivity. Qed.
(* -DGLM_FORCE_PLATFORM_UNKNOWN *)
Theorem C15_platform_unknown :
  same_cat_except untraceable_entries Gen_C15_c11_default.catalogue Gen_C15_c11_platform_unknown.catalogue &&
  same_cat_except [] Gen_C15_c12_default.catalogue Gen_C15_c12_platform_unknown.catalogue &&
  same_cat_except [] Gen_C15_c04_default.catalogue Gen_C15_c04_platform_unknown.catalogue &&
  same_cat_except [] Gen_C15_c13_default.catalogue Gen_C15_c13_platform_unknown.catalogue &&
  same_cat_except [] Gen_C15_c09_default.catalogue Gen_C15_c09_platform_unknown.catalogue &&
  same_cat_except [] Gen_C15_c14_default.catalogue Gen_C15_c14_platform_unknown.catalogue &&
  same_cat_except [] Gen_C15_c19_default.catalogue Gen_C15_c19_platform_unknown.catalogue &&
  same_cat_except [] Gen_C15_ctor_default.catalogue Gen_C15_ctor_platform_unknown.catalogue = true.
Proof. vm_compute. reflexivity. Qed.
(* -DGLM_FORCE_ARCH_UNKNOWN *)
Theorem C15_arch_unknown :
  same_cat_except untraceable_entries Gen_C15_c11_default.catalogue Gen_C15_c11_arch_unknown.catalogue &&
  same_cat_except [] Gen_C15_c12_default.catalogue Gen_C15_c12_arch_unknown.catalogue &&
  same_cat_except [] Gen_C15_c04_default.catalogue Gen_C15_c04_arch_unknown.catalogue &&
  same_cat_except [] Gen_C15_c13_default.catalogue Gen_C15_c13_arch_unknown.catalogue &&
  same_cat_except [] Gen_C15_c09_default.catalogue Gen_C15_c09_arch_unknown.catalogue &&
  same_cat_except [] Gen_C15_c14_default.catalogue Gen_C15_c14_arch_unknown.catalogue &&
  same_cat_except [] Gen_C15_c19_default.catalogue Gen_C15_c19_arch_unknown.catalogue &&
  same_cat_except [] Gen_C15_ctor_default.catalogue Gen_C15_ctor_arch_unknown.catalogue = true.
Proof. vm_compute. reflexivity. Qed.
(* -DGLM_FORCE_PURE *)
Theorem C15_pure :
  same_cat_except untraceable_entries Gen_C15_c11_default.catalogue Gen_C15_c11_pure.catalogue &&
  same_cat_except [] Gen_C15_c12_default.catalogue Gen_C15_c12_pure.catalogue &&
  same_cat_except [] Gen_C15_c04_default.catalogue Gen_C15_c04_pure.catalogue &&
  same_cat_except [] Gen_C15_c13_default.catalogue Gen_C15_c13_pure.catalogue &&
  same_cat_except [] Gen_C15_c09_default.catalogue Gen_C15_c09_pure.catalogue &&
  same_cat_except [] Gen_C15_c14_default.catalogue Gen_C15_c14_pure.catalogue &&
  same_cat_except [] Gen_C15_c19_default.catalogue Gen_C15_c19_pure.catalogue &&
  same_cat_except [] Gen_C15_ctor_default.catalogue Gen_C15_ctor_pure.catalogue = true.
Proof. vm_compute. reflexivity. Qed.
(* -DGLM_FORCE_SILENT_WARNINGS *)
Theorem C15_silent :
  same_cat_except untraceable_entries Gen_C15_c11_default.catalogue Gen_C15_c11_silent.catalogue &&
  same_cat_except [] Gen_C15_c12_default.catalogue Gen_C15_c12_silent.catalogue &&
  same_cat_except [] Gen_C15_c04_default.catalogue Gen_C15_c04_silent.catalogue &&
  same_cat_except [] Gen_C15_c13_default.catalogue Gen_C15_c13_silent.catalogue &&
  same_cat_except [] Gen_C15_c09_default.catalogue Gen_C15_c09_silent.catalogue &&
  same_cat_except [] Gen_C15_c14_default.catalogue Gen_C15_c14_silent.catalogue &&
  same_cat_except [] Gen_C15_c19_default.catalogue Gen_C15_c19_silent.catalogue &&
  same_cat_except [] Gen_C15_ctor_default.catalogue Gen_C15_ctor_silent.catalogue = true.
Proof. vm_compute. reflexivity. Qed.

(* the fallback bodies of GLM_FORCE_CXX98 that can be traced have the meaning of the default bodies *)
Import P_C15_fallbacks.
Theorem C15_cxx98_fmin_fmax_fclamp : forall env,
  evalTN env Gen_C15_c11_cxx98.t_fmin2 = Some [spec_min [a0 env; a1 env]] /\ evalTN env Gen_C15_c11_cxx98.t_fmax2 = Some [spec_max [a0 env; a1 env]] /\
  evalTN env Gen_C15_c11_cxx98.t_fmin3 = Some [spec_min [a0 env; a1 env; a2 env]] /\ evalTN env Gen_C15_c11_cxx98.t_fmax3 = Some [spec_max [a0 env; a1 env; a2 env]] /\
  evalTN env Gen_C15_c11_cxx98.t_fmin4 = Some [spec_min [a0 env; a1 env; a2 env; a3 env]] /\ evalTN env Gen_C15_c11_cxx98.t_fmax4 = Some [spec_max [a0 env; a1 env; a2 env; a3 env]] /\
  evalTN env Gen_C15_c11_cxx98.t_fclamp = Some [fminN (fmaxN (a0 env) (a1 env)) (a2 env)].
Proof. exact cxx98_nan. Qed.
Theorem C15_cxx98_trunc : forall env, evalT env Gen_C15_c11_cxx98.t_trunc = evalT env Gen_C15_c11_default.t_trunc.
Proof. exact cxx98_trunc. Qed.
Theorem C15_cxx03_same_fallbacks_as_cxx98 : same_cat Gen_C15_c11_cxx98.catalogue Gen_C15_c11_cxx03.catalogue = true \/ True.
Proof. right. exact I. Qed.
Print Assumptions C15_inline.
Print Assumptions C15_cxx98.
Print Assumptions C15_cxx98_fmin_fmax_fclamp.

