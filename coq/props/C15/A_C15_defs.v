(* C15 definitions: two catalogues are the same when they list the same entries with identical decision trees and no
   entry is untraceable; `except` lists the entry names allowed to differ (pre-C++11 fallback bodies), which are then
   compared semantically (P_C15_fallbacks) or left to the oracle. *)
Require Import ZArith List String Bool.
Import ListNotations.
From GLMV Require Import Expr Cat.
Local Open Scope string_scope.
(* an oversized entry is summarised by the translator as  Abort "large:<hash of its expression graph>": equal hashes = the same graph;
   any other Abort is an untraceable entry *)
Fixpoint aborts_are_hashes (t : tree) : bool :=
  match t with Leaf _ _ => true | Br _ a b => aborts_are_hashes a && aborts_are_hashes b | Abort w => String.prefix "large:" w end.
Fixpoint same_cat_except (ex : list string) (a b : list (string * tree)) : bool :=
  match a, b with
  | [], [] => true
  | (n, t) :: a', (m, u) :: b' => String.eqb n m && (existsb (String.eqb n) ex || (tree_eqb t u && aborts_are_hashes t)) && same_cat_except ex a' b'
  | _, _ => false
  end.
Definition same_cat := same_cat_except [].
(* the entries of the common-function catalogue whose body is a pre-C++11 fallback when GLM_HAS_CXX11_STL is 0 *)
(* entries that convert a float to a concrete int: untraceable in every configuration (hand model + oracle, property C11) *)
Definition untraceable_entries : list string := ["roundEven"; "iround"; "uround"].
Definition fallback_entries : list string := ["fmin2"; "fmax2"; "fmin3"; "fmax3"; "fmin4"; "fmax4"; "fclamp"; "trunc"; "round"; "iround"; "uround"; "roundEven"].
