(* C15: the pre-C++11 fallback bodies (GLM_FORCE_CXX98) of fmin, fmax, fclamp and trunc mean what the default bodies mean *)
Require Import ZArith List Bool Reals Lra.
From Flocq Require Import Core.Raux Core.Generic_fmt Core.Zaux.
Import ListNotations.
From GLMV Require Import SemR Cat Expr SemN.
From W Require Gen_C15_c11_default Gen_C15_c11_cxx98.
Local Open Scope R_scope.
Section X.
Import Gen_C15_c11_cxx98.
Lemma f2 : forall env, evalTN env t_fmin2 = Some [spec_min [a0 env; a1 env]]. Proof. nan_tac t_fmin2. Qed.
Lemma g2 : forall env, evalTN env t_fmax2 = Some [spec_max [a0 env; a1 env]]. Proof. nan_tac t_fmax2. Qed.
Lemma f3 : forall env, evalTN env t_fmin3 = Some [spec_min [a0 env; a1 env; a2 env]]. Proof. nan_tac t_fmin3. Qed.
Lemma g3 : forall env, evalTN env t_fmax3 = Some [spec_max [a0 env; a1 env; a2 env]]. Proof. nan_tac t_fmax3. Qed.
Lemma f4 : forall env, evalTN env t_fmin4 = Some [spec_min [a0 env; a1 env; a2 env; a3 env]]. Proof. nan_tac t_fmin4. Qed.
Lemma g4 : forall env, evalTN env t_fmax4 = Some [spec_max [a0 env; a1 env; a2 env; a3 env]]. Proof. nan_tac t_fmax4. Qed.
Lemma fc : forall env, evalTN env t_fclamp = Some [fminN (fmaxN (a0 env) (a1 env)) (a2 env)]. Proof. nan_tac t_fclamp. Qed.
End X.
Theorem cxx98_nan : forall env,
  evalTN env Gen_C15_c11_cxx98.t_fmin2 = Some [spec_min [a0 env; a1 env]] /\ evalTN env Gen_C15_c11_cxx98.t_fmax2 = Some [spec_max [a0 env; a1 env]] /\
  evalTN env Gen_C15_c11_cxx98.t_fmin3 = Some [spec_min [a0 env; a1 env; a2 env]] /\ evalTN env Gen_C15_c11_cxx98.t_fmax3 = Some [spec_max [a0 env; a1 env; a2 env]] /\
  evalTN env Gen_C15_c11_cxx98.t_fmin4 = Some [spec_min [a0 env; a1 env; a2 env; a3 env]] /\ evalTN env Gen_C15_c11_cxx98.t_fmax4 = Some [spec_max [a0 env; a1 env; a2 env; a3 env]] /\
  evalTN env Gen_C15_c11_cxx98.t_fclamp = Some [fminN (fmaxN (a0 env) (a1 env)) (a2 env)].
Proof. intros env. repeat split; [apply f2 | apply g2 | apply f3 | apply g3 | apply f4 | apply g4 | apply fc]. Qed.
(* trunc fallback:  x < 0 ? -floor(-x) : floor(x)  =  trunc(x) *)
Theorem cxx98_trunc : forall env, evalT env Gen_C15_c11_cxx98.t_trunc = evalT env Gen_C15_c11_default.t_trunc.
Proof.
  intros env. unfold Gen_C15_c11_cxx98.t_trunc, Gen_C15_c11_default.t_trunc.
  cbv [map evalT evalR evalRB binR unR cmpR cstR forallb Z.leb Z.compare Z.mul Z.pow Z.pow_pos Pos.iter Pos.mul Z.opp].
  set (x := env F32 0%Z 0%Z). replace (IZR 0 / IZR 1) with 0 by lra. unfold Ztrunc.
  destruct (Rlt_dec x 0) as [H|H].
  - rewrite Rlt_bool_true by lra. unfold Zceil. rewrite opp_IZR. reflexivity.
  - rewrite Rlt_bool_false by lra. reflexivity.
Qed.
