(* Properties_C01.v -- C01: vector functions/operators equal the scalar overload applied per component.
   Statements only; proofs are `exact <lemma>` from P_C01.v, checked against the catalogue regenerated from /repo on
   this run (about 1200 entries: every function and operator of the table in tools/trace/gen_C01.py, lengths 1-4,
   every scalar / vec1 / vector overload shape, float and int element types).  The comparison is identity of decision
   trees over expression trees up to the operand order of + * & | ^ (Lift.v, Comm.v), so it holds for every component
   value including +-0, subnormals, inf, NaN and integer extremes.  Exceptions, stated in P_C01.v: fma is compared
   after expansion to a*b+c (composite class of the property); 3-operand fmin/fmax are exempt (oracle only). *)
Require Import ZArith List String Bool.
Import ListNotations.
From GLMV Require Import Expr SemR Cat Comm Lift.
From W Require Gen_C01_all P_C01.
Local Open Scope string_scope.
Local Open Scope Z_scope.
Theorem C01_every_vector_overload_is_the_scalar_overload_per_component :
  forallb (fun e => P_C01.lift_ok (fst e) (snd e)) P_C01.cat = true.
Proof. exact P_C01.every_vector_overload_is_the_scalar_overload_per_component. Qed.
Theorem C01_matrix_functions_act_per_element : forallb (fun e => P_C01.cwm_ok (fst e) (snd e)) P_C01.cat = true.
Proof. exact P_C01.matrix_functions_act_per_element. Qed.
Theorem C01_catalogue_sizes : (1100 <=? P_C01.count_prefix "cw_") && (20 <=? P_C01.count_prefix "cwm_") = true.
Proof. exact P_C01.catalogue_sizes. Qed.
(* meaning of the comparison (generic lemmas, restated for the audit trail) *)
Theorem C01_simp_preserves_value : forall env t, evalT1 env (simp t) = evalT1 env t.
Proof. exact simp_sound. Qed.
Theorem C01_eqc_preserves_value : forall env a b, tree_eqc a b = true -> evalT env a = evalT env b.
Proof. exact tree_eqc_sound_R. Qed.
Print Assumptions C01_every_vector_overload_is_the_scalar_overload_per_component.
Print Assumptions C01_matrix_functions_act_per_element.
Print Assumptions C01_simp_preserves_value.
