(* C01: component i of every component-wise vector function/operator is the scalar overload applied to component i
   of the arguments (scalar and vec1 arguments broadcast).  For each vector entry cw_<fn>_<shape>_<L>_<kind> and each
   i < L:  simp (proj i T_vec)  =  simp (T_scalar with argument a replaced by (a,i) when shape[a] = v)
   as decision trees over identical expression trees (R1) -- hence for all component values, NaN/inf/zeros included. *)
Require Import ZArith List String Ascii Bool.
Import ListNotations.
From GLMV Require Import Expr SemR Cat Comm SpecSwizzle Lift.
From W Require Gen_C01_all.
Local Open Scope string_scope.
Local Open Scope Z_scope.
Definition cat := Gen_C01_all.catalogue.

Definition shape_of (s : string) : list ascii := list_ascii_of_string s.
Definition sigma (shape : list ascii) (i : Z) (k : kind) (a j : Z) : expr :=
  match nth_error shape (Z.to_nat a) with
  | Some c => if Ascii.eqb c "v"%char then V k a i else V k a j
  | None => V k a j
  end.
(* composite class (property text): fma is compared after expansion into a*b+c -- equal real value, one rounding apart *)
Definition norm_for (fn : string) (t : tree) : tree := if String.eqb fn "fma" then fma_expand_tree t else t.
(* fmin/fmax with three operands: the scalar overload and the vector overload are different NaN cascades; their
   agreement is a statement about IEEE values, not about expression trees -- checked by the oracle only (DESIGN.md C01) *)
Definition exempt (fn : string) : bool := String.eqb fn "fmin3" || String.eqb fn "fmax3".
Definition lift_ok (nm : string) (t : tree) : bool :=
  match fields nm with
  | ["cw"; fn; shape; l; kd] =>
      if String.eqb shape "S" then negb (has_abort t) else
      match digit_of l, lookup ("cw_" ++ fn ++ "_S_0_" ++ kd) cat with
      | Some L, Some ts =>
          negb (has_abort t) && negb (has_abort ts) &&
          (exempt fn || forallb (fun i => tree_eqc (simp (proj i (norm_for fn t))) (simp (subst_tree (sigma (shape_of shape) i) (norm_for fn ts)))) (zseq L))
      | _, _ => false
      end
  | _ => true
  end.
Definition failing : list string := map fst (filter (fun e => negb (lift_ok (fst e) (snd e))) cat).
Lemma every_vector_overload_is_the_scalar_overload_per_component : forallb (fun e => lift_ok (fst e) (snd e)) cat = true.
Proof. vm_compute. reflexivity. Qed.

(* matrix versions act per element: abs, mix (scalar and matrix interpolant), equal per column *)
Definition cwm_ok (nm : string) (t : tree) : bool :=
  match fields nm with
  | ["cwm"; fn; c; r; kd] =>
      match digit_of c, digit_of r with
      | Some C, Some Rn =>
          if String.eqb fn "abs" then
            match lookup "cw_abs_S_0_f32" cat with Some ts => forallb (fun i => tree_eqc (simp (proj i t)) (simp (subst_tree (fun k a j => V k a i) ts))) (zseq (C * Rn)) | None => false end
          else if String.eqb fn "mix" then
            match lookup "cw_mix_S_0_f32" cat with Some ts => forallb (fun i => tree_eqc (simp (proj i t)) (simp (subst_tree (fun k a j => if a =? 2 then V k a 0 else V k a i) ts))) (zseq (C * Rn)) | None => false end
          else if String.eqb fn "mixm" then
            match lookup "cw_mix_S_0_f32" cat with Some ts => forallb (fun i => tree_eqc (simp (proj i t)) (simp (subst_tree (fun k a j => V k a i) ts))) (zseq (C * Rn)) | None => false end
          else negb (has_abort t)
      | _, _ => false
      end
  | _ => true
  end.
Definition failing_m : list string := map fst (filter (fun e => negb (cwm_ok (fst e) (snd e))) cat).
Lemma matrix_functions_act_per_element : forallb (fun e => cwm_ok (fst e) (snd e)) cat = true.
Proof. vm_compute. reflexivity. Qed.
Definition count_prefix (p : string) : Z := Z.of_nat (List.length (filter (fun e => String.prefix p (fst e)) cat)).
Lemma catalogue_sizes : (1100 <=? count_prefix "cw_") && (20 <=? count_prefix "cwm_") = true.
Proof. vm_compute. reflexivity. Qed.
