(* C16 definitions: violation listing and coverage of the instantiation product *)
Require Import ZArith List Bool String.
Import ListNotations.
From GLMV Require Import Layout.
Local Open Scope Z_scope.
Definition ok (cfg : config) (r : rec) : bool := rec_ok cfg r.
(* indices of the records that violate the contract (for the replay) *)
Definition violations (cfg : config) (t : list rec) : list nat := map fst (filter (fun ir => negb (rec_ok cfg (snd ir))) (combine (seq 0 (List.length t)) t)).
(* a table must cover the whole product: every vec length x 11 element types x 4 packed qualifiers at least *)
Definition covers (t : list rec) : bool := (176 <=? Z.of_nat (List.length (filter (fun r => match r with Vec _ _ _ _ _ _ _ _ _ _ _ _ _ => true | _ => false end) t))) &&
  (108 <=? Z.of_nat (List.length (filter (fun r => match r with Mat _ _ _ _ _ _ _ _ _ _ _ _ _ _ _ => true | _ => false end) t))) &&
  (8 <=? Z.of_nat (List.length (filter (fun r => match r with Qua _ _ _ _ _ _ _ _ _ _ _ _ _ _ _ => true | _ => false end) t))) &&
  (4 <=? Z.of_nat (List.length (filter (fun r => match r with Make _ _ => true | _ => false end) t))).
