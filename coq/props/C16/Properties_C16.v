(* Properties_C16.v -- C16: vector, matrix and quaternion storage layout matches the documented contract.
   For each configuration the table Gen_C16_<cfg>.table is regenerated on every run: the layout probe (tools/layout) is
   compiled against /repo under that configuration and prints what the C++ compiler assigns to every instantiation of the
   product  {1..4} x {bool, 8-64 bit ints, float, double} x {packed, aligned} x {highp, mediump, lowp, defaultp}  (vec),
   {2..4}x{2..4} x {float, double, int} (mat), {float, double} (qua): sizeof, alignof, the address of every component
   reached through operator[], .x and value_ptr, length(), and the outcome of writing through operator[] and reading
   through value_ptr / make_*.  GLMV.Layout.rec_ok is the documented contract; the theorems say that EVERY record of
   EVERY configuration satisfies it (finite product: checked by computation), and Layout.vec_contiguous /
   mat_column_major / qua_order give the consequences for any record that satisfies it.
   *)
Require Import ZArith List Bool String Lia.
Import ListNotations.
From GLMV Require Import Layout.
From W Require A_C16_defs Gen_C16_default Gen_C16_swizzle_fn Gen_C16_swizzle_op Gen_C16_xyzw_only Gen_C16_aligned_gentypes Gen_C16_intrinsics_sse2 Gen_C16_intrinsics_sse42 Gen_C16_intrinsics_avx Gen_C16_intrinsics_avx2 Gen_C16_default_aligned_sse2 Gen_C16_default_aligned_avx2 Gen_C16_size_t_length Gen_C16_quat_wxyz Gen_C16_ctor_init Gen_C16_pure_avx2 Gen_C16_cxx11 Gen_C16_xyzw_only_intrinsics_sse2 Gen_C16_swizzle_default_aligned_avx Gen_C16_swizzle_intrinsics_avx2 Gen_C16_swizzle_intrinsics_sse2.
Import A_C16_defs.
Local Open Scope Z_scope.

(* default: no configuration macro *)
Theorem C16_default : forallb (ok Gen_C16_default.cfg) Gen_C16_default.table && covers Gen_C16_default.table = true.
Proof. vm_compute. reflexivity. Qed.
(* swizzle_fn: -DGLM_FORCE_SWIZZLE *)
Theorem C16_swizzle_fn : forallb (ok Gen_C16_swizzle_fn.cfg) Gen_C16_swizzle_fn.table && covers Gen_C16_swizzle_fn.table = true.
Proof. vm_compute. reflexivity. Qed.
(* swizzle_op: -DGLM_FORCE_SWIZZLE -D_MSC_EXTENSIONS *)
Theorem C16_swizzle_op : forallb (ok Gen_C16_swizzle_op.cfg) Gen_C16_swizzle_op.table && covers Gen_C16_swizzle_op.table = true.
Proof. vm_compute. reflexivity. Qed.
(* xyzw_only: -DGLM_FORCE_XYZW_ONLY *)
Theorem C16_xyzw_only : forallb (ok Gen_C16_xyzw_only.cfg) Gen_C16_xyzw_only.table && covers Gen_C16_xyzw_only.table = true.
Proof. vm_compute. reflexivity. Qed.
(* aligned_gentypes: -DGLM_FORCE_ALIGNED_GENTYPES -D_MSC_EXTENSIONS *)
Theorem C16_aligned_gentypes : forallb (ok Gen_C16_aligned_gentypes.cfg) Gen_C16_aligned_gentypes.table && covers Gen_C16_aligned_gentypes.table = true.
Proof. vm_compute. reflexivity. Qed.
(* intrinsics_sse2: -DGLM_FORCE_INTRINSICS -msse2 *)
Theorem C16_intrinsics_sse2 : forallb (ok Gen_C16_intrinsics_sse2.cfg) Gen_C16_intrinsics_sse2.table && covers Gen_C16_intrinsics_sse2.table = true.
Proof. vm_compute. reflexivity. Qed.
(* intrinsics_sse42: -DGLM_FORCE_INTRINSICS -msse4.2 *)
Theorem C16_intrinsics_sse42 : forallb (ok Gen_C16_intrinsics_sse42.cfg) Gen_C16_intrinsics_sse42.table && covers Gen_C16_intrinsics_sse42.table = true.
Proof. vm_compute. reflexivity. Qed.
(* intrinsics_avx: -DGLM_FORCE_INTRINSICS -mavx *)
Theorem C16_intrinsics_avx : forallb (ok Gen_C16_intrinsics_avx.cfg) Gen_C16_intrinsics_avx.table && covers Gen_C16_intrinsics_avx.table = true.
Proof. vm_compute. reflexivity. Qed.
(* intrinsics_avx2: -DGLM_FORCE_INTRINSICS -mavx2 *)
Theorem C16_intrinsics_avx2 : forallb (ok Gen_C16_intrinsics_avx2.cfg) Gen_C16_intrinsics_avx2.table && covers Gen_C16_intrinsics_avx2.table = true.
Proof. vm_compute. reflexivity. Qed.
(* default_aligned_sse2: -DGLM_FORCE_DEFAULT_ALIGNED_GENTYPES -DGLM_FORCE_INTRINSICS -msse2 *)
Theorem C16_default_aligned_sse2 : forallb (ok Gen_C16_default_aligned_sse2.cfg) Gen_C16_default_aligned_sse2.table && covers Gen_C16_default_aligned_sse2.table = true.
Proof. vm_compute. reflexivity. Qed.
(* default_aligned_avx2: -DGLM_FORCE_DEFAULT_ALIGNED_GENTYPES -DGLM_FORCE_INTRINSICS -mavx2 *)
Theorem C16_default_aligned_avx2 : forallb (ok Gen_C16_default_aligned_avx2.cfg) Gen_C16_default_aligned_avx2.table && covers Gen_C16_default_aligned_avx2.table = true.
Proof. vm_compute. reflexivity. Qed.
(* size_t_length: -DGLM_FORCE_SIZE_T_LENGTH *)
Theorem C16_size_t_length : forallb (ok Gen_C16_size_t_length.cfg) Gen_C16_size_t_length.table && covers Gen_C16_size_t_length.table = true.
Proof. vm_compute. reflexivity. Qed.
(* quat_wxyz: -DGLM_FORCE_QUAT_DATA_WXYZ *)
Theorem C16_quat_wxyz : forallb (ok Gen_C16_quat_wxyz.cfg) Gen_C16_quat_wxyz.table && covers Gen_C16_quat_wxyz.table = true.
Proof. vm_compute. reflexivity. Qed.
(* ctor_init: -DGLM_FORCE_CTOR_INIT *)
Theorem C16_ctor_init : forallb (ok Gen_C16_ctor_init.cfg) Gen_C16_ctor_init.table && covers Gen_C16_ctor_init.table = true.
Proof. vm_compute. reflexivity. Qed.
(* pure_avx2: -DGLM_FORCE_PURE -mavx2 *)
Theorem C16_pure_avx2 : forallb (ok Gen_C16_pure_avx2.cfg) Gen_C16_pure_avx2.table && covers Gen_C16_pure_avx2.table = true.
Proof. vm_compute. reflexivity. Qed.
(* cxx11: -std=c++11 *)
Theorem C16_cxx11 : forallb (ok Gen_C16_cxx11.cfg) Gen_C16_cxx11.table && covers Gen_C16_cxx11.table = true.
Proof. vm_compute. reflexivity. Qed.

(* swizzle_intrinsics_sse2: -DGLM_FORCE_SWIZZLE -DGLM_FORCE_INTRINSICS -msse2 *)
Theorem C16_swizzle_intrinsics_sse2 : forallb (ok Gen_C16_swizzle_intrinsics_sse2.cfg) Gen_C16_swizzle_intrinsics_sse2.table && covers Gen_C16_swizzle_intrinsics_sse2.table = true.
Proof. vm_compute. reflexivity. Qed.

(* swizzle_intrinsics_avx2: -DGLM_FORCE_SWIZZLE -DGLM_FORCE_INTRINSICS -mavx2 *)
Theorem C16_swizzle_intrinsics_avx2 : forallb (ok Gen_C16_swizzle_intrinsics_avx2.cfg) Gen_C16_swizzle_intrinsics_avx2.table && covers Gen_C16_swizzle_intrinsics_avx2.table = true.
Proof. vm_compute. reflexivity. Qed.

(* swizzle_default_aligned_avx: -DGLM_FORCE_SWIZZLE -DGLM_FORCE_DEFAULT_ALIGNED_GENTYPES -DGLM_FORCE_INTRINSICS -mavx *)
Theorem C16_swizzle_default_aligned_avx : forallb (ok Gen_C16_swizzle_default_aligned_avx.cfg) Gen_C16_swizzle_default_aligned_avx.table && covers Gen_C16_swizzle_default_aligned_avx.table = true.
Proof. vm_compute. reflexivity. Qed.

(* xyzw_only_intrinsics_sse2: -DGLM_FORCE_XYZW_ONLY -DGLM_FORCE_INTRINSICS -msse2 *)
Theorem C16_xyzw_only_intrinsics_sse2 : forallb (ok Gen_C16_xyzw_only_intrinsics_sse2.cfg) Gen_C16_xyzw_only_intrinsics_sse2.table && covers Gen_C16_xyzw_only_intrinsics_sse2.table = true.
Proof. vm_compute. reflexivity. Qed.

(* the consequences, for any record satisfying the contract (proved once in GLMV.Layout) *)
Theorem C16_vec_contiguous : forall cfg L ty q al es size align offs offx vp len lensize rt,
  rec_ok cfg (Vec L ty q al es size align offs offx vp len lensize rt) = true ->
  (forall i, (i < L)%nat -> nth i offs 0 = Z.of_nat i * es) /\ offx = 0 /\ vp = 0 /\ len = Z.of_nat L /\ (is_aligned cfg q al = false -> size = Z.of_nat L * es).
Proof. exact vec_contiguous. Qed.
Theorem C16_mat_column_major : forall cfg C R ty q al es size align colsize colalign offs vp len lensize rt,
  rec_ok cfg (Mat C R ty q al es size align colsize colalign offs vp len lensize rt) = true ->
  (forall c r, (c < C)%nat -> (r < R)%nat -> nth (c * R + r) offs 0 = Z.of_nat c * colsize + Z.of_nat r * es) /\ vp = 0 /\ size = Z.of_nat C * colsize /\
  (is_aligned cfg q al = false -> forall c r, (c < C)%nat -> (r < R)%nat -> nth (c * R + r) offs 0 = Z.of_nat (c * R + r) * es).
Proof. exact mat_column_major. Qed.
Theorem C16_qua_order : forall cfg ty q al es size align ox oy oz ow offs vp len lensize rt,
  rec_ok cfg (Qua ty q al es size align ox oy oz ow offs vp len lensize rt) = true ->
  (if quat_wxyz cfg then ow = 0 /\ ox = es /\ oy = 2 * es /\ oz = 3 * es else ox = 0 /\ oy = es /\ oz = 2 * es /\ ow = 3 * es) /\ size = 4 * es /\ vp = 0.
Proof. exact qua_order. Qed.
(* the documented sizes of the aligned float types, read off the contract *)
Example C16_aligned_float_sizes : vec_size 3 true 4 = 16 /\ vec_size 4 true 4 = 16 /\ vec_size 2 true 4 = 8 /\ vec_size 3 false 4 = 12 /\
  (forall cfg al, vec_align_ok cfg "f32" 3 true 4 al = true -> al = 16) /\ (forall cfg al, vec_align_ok cfg "f32" 2 true 4 al = true -> al = 8) /\
  (forall cfg al, vec_align_ok cfg "i64" 4 true 8 al = true -> al = 32).
Proof.
  repeat split; try reflexivity; intros cfg al H; unfold vec_align_ok, sse_pair in H; cbn in H; rewrite ?andb_false_r, ?orb_false_r in H; apply Z.eqb_eq in H; exact H.
Qed.
Print Assumptions C16_default.
Print Assumptions C16_intrinsics_avx2.
Print Assumptions C16_mat_column_major.
