(* Properties_C10.v -- C10: inverse, determinant and their gtc variants satisfy the defining identities.
   Statements only; proofs are `exact <lemma>` from P_C10_*.v, checked against the model regenerated
   from /repo on this run (W.Gen_C10_f32).  All statements are over the real-number value (evalR) of
   the traced expression trees, for every matrix entry (symbolic inputs); sizes 2,3,4 are enumerated.
   NOT proved: the floating-point rounding bound proportional to the condition number (DESIGN.md C10). *)
Require Import ZArith List String Bool Reals.
Import ListNotations.
From GLMV Require Import Expr SemR SemZ Cat Comm Chk SpecLinAlg.
From W Require Gen_C10_f32 A_C10_defs P_C10_det P_C10_inverse P_C10_invtr P_C10_misc.
Local Open Scope string_scope.
Local Open Scope Z_scope.

Theorem C10_det_is_leibniz : Forall P_C10_det.det_leibniz_ok [2; 3; 4].
Proof. exact P_C10_det.det_leibniz. Qed.
Theorem C10_det_multiplicative : Forall P_C10_det.det_mul_ok [2; 3; 4].
Proof. exact P_C10_det.det_mul. Qed.
Theorem C10_det_transpose : Forall P_C10_det.det_tr_ok [2; 3; 4].
Proof. exact P_C10_det.det_tr. Qed.
Theorem C10_inverse_left_right : Forall A_C10_defs.inv_ok [2; 3; 4].
Proof. exact P_C10_inverse.inverse_identity. Qed.
Theorem C10_inverseTranspose : Forall A_C10_defs.invtr_ok [2; 3; 4].
Proof. exact P_C10_invtr.inverse_transpose. Qed.
Theorem C10_affineInverse : Forall A_C10_defs.affinv_ok [3; 4].
Proof. exact P_C10_invtr.affine_inverse. Qed.
Theorem C10_adjugate : Forall A_C10_defs.adj_ok [2; 3; 4].
Proof. exact P_C10_misc.adjugate_identity. Qed.
Theorem C10_division_is_inverse : P_C10_misc.div_ok = true.
Proof. exact P_C10_misc.division_is_inverse. Qed.

(* non-vacuity: the hypothesis det <> 0 is satisfiable (identity matrix) and the 2x2 inverse is the expected term *)
Example C10_hyp_satisfiable : evalR (fun _ _ i => if (i mod 5 =? 0)%Z then 1%R else 0%R) (leibniz F32 4) <> 0%R.
Proof. vm_compute leibniz. cbv [evalR binR cstR Z.leb Z.compare Z.mul Z.pow Z.pow_pos Pos.iter Pos.mul Z.modulo Z.div_eucl Z.pos_div_eucl Z.eqb Z.ltb Z.sub Z.add Z.opp Z.pos_sub Z.succ_double Z.double Z.pred_double Pos.pred_double Pos.add Pos.succ Pos.compare Pos.compare_cont Pos.eqb Z.leb]. 
  match goal with |- ?x <> _ => replace x with 1%R by ring end. exact R1_neq_R0. Qed.

Print Assumptions C10_det_is_leibniz.
Print Assumptions C10_inverse_left_right.
Print Assumptions C10_inverseTranspose.
Print Assumptions C10_affineInverse.
Print Assumptions C10_adjugate.
Print Assumptions C10_division_is_inverse.
