(* C10: inverseTranspose = transpose(inverse); affineInverse = inverse on affine matrices *)
Require Import ZArith List String Bool Reals Lra.
Import ListNotations.
From GLMV Require Import Expr SemR SemZ Cat Comm Chk SpecLinAlg.
From W Require Gen_C10_f32.
From W Require Import A_C10_defs.
Local Open Scope string_scope.
Local Open Scope Z_scope.

Lemma inverse_transpose : Forall invtr_ok [2; 3; 4].
Proof.
  repeat (first [apply Forall_nil | apply Forall_cons; [unfold invtr_ok; eexists; eexists; split; [vm_compute; reflexivity | split; [vm_compute; reflexivity |
    intros env Hdet; norm_hyp Hdet; norm_goal env; evR; list_field_side]] |]]).
Qed.
Lemma affine_inverse : Forall affinv_ok [3; 4].
Proof.
  repeat (first [apply Forall_nil | apply Forall_cons; [unfold affinv_ok; eexists; eexists; split; [vm_compute; reflexivity | split; [vm_compute; reflexivity |
    intros env Hdet; norm_hyp Hdet; norm_goal env; evR; list_field_side]] |]]).
Qed.
