(* C10: inverse(M)*M = M*inverse(M) = I when det M <> 0 (field on the regenerated traces) *)
Require Import ZArith List String Bool Reals Lra.
Import ListNotations.
From GLMV Require Import Expr SemR SemZ Cat Comm Chk SpecLinAlg.
From W Require Gen_C10_f32.
From W Require Import A_C10_defs.
Local Open Scope string_scope.
Local Open Scope Z_scope.

Lemma inverse_identity : Forall inv_ok [2; 3; 4].
Proof.
  repeat (first [apply Forall_nil | apply Forall_cons; [unfold inv_ok; eexists; split; [vm_compute; reflexivity | split; [vm_compute; reflexivity |
    intros env Hdet; norm_hyp Hdet; split; norm_goal env; evR; list_field_side]] |]]).
Qed.
