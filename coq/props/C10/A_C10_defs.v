(* C10 definitions and tactics: inverse(M)*M = M*inverse(M) = I whenever det M <> 0; inverseTranspose, affineInverse, adjugate (R3, field). *)
Require Import ZArith List String Bool Reals Lra.
Import ListNotations.
From GLMV Require Import Expr SemR SemZ Cat Comm Chk SpecLinAlg.
From W Require Gen_C10_f32.
Local Open Scope string_scope.
Local Open Scope Z_scope.

Definition cat := Gen_C10_f32.catalogue.
Definition M := V F32 0.
(* inverse(M) * M = I  and  M * inverse(M) = I, for every M with non-zero (Leibniz) determinant *)
Definition inv_ok (N : Z) : Prop :=
  exists inv, outs_of cat (name "inv" [N] "f32") = Some inv /\ forallb realok inv = true /\
   forall env, evalR env (leibniz F32 N) <> 0%R ->
     map (evalR env) (matmul_e F32 N (nth_e inv) M) = map (evalR env) (ident_e F32 N) /\
     map (evalR env) (matmul_e F32 N M (nth_e inv)) = map (evalR env) (ident_e F32 N).
(* inverseTranspose(M) = transpose(inverse(M)) *)
Definition invtr_ok (N : Z) : Prop :=
  exists inv it, outs_of cat (name "inv" [N] "f32") = Some inv /\ outs_of cat (name "invtr" [N] "f32") = Some it /\
   forall env, evalR env (leibniz F32 N) <> 0%R -> map (evalR env) it = map (evalR env) (transpose_of N inv).
(* affineInverse(M) = inverse(M) when the last row of M is (0,..,0,1) *)
Definition affinv_ok (N : Z) : Prop :=
  exists inv ai, outs_of cat (name "inv" [N] "f32") = Some inv /\ outs_of cat (name "affinv" [N] "f32") = Some ai /\
   forall env, evalR env (subst (affine_subst N) (leibniz F32 N)) <> 0%R ->
     map (evalR env) (map (subst (affine_subst N)) ai) = map (evalR env) (map (subst (affine_subst N)) inv).
(* adjugate(M) * M = det(M) * I  (no hypothesis) *)
Definition adj_ok (N : Z) : Prop :=
  exists adj, outs_of cat (name "adj" [N] "f32") = Some adj /\
   forall env, map (evalR env) (matmul_e F32 N (nth_e adj) M) = map (evalR env) (scaled_ident_e F32 N (leibniz F32 N)).

Ltac side := let H := fresh in intro H; match type of H with ?x = _ => match goal with Hd : ?d <> 0%R |- _ => apply Hd; transitivity x; [ring | exact H] end end.
Ltac norm_goal env := repeat match goal with |- context [map (evalR env) ?a] => progress (let a' := eval vm_compute in a in change (map (evalR env) a) with (map (evalR env) a')) end.
Ltac norm_hyp Hdet := match type of Hdet with evalR ?env ?s <> _ => let s' := eval vm_compute in s in change (evalR env s' <> 0%R) in Hdet end;
  cbv [evalR binR unR cstR Z.leb Z.compare Z.mul Z.pow Z.pow_pos Pos.iter Pos.mul Z.opp] in Hdet.
Ltac list_field_side := repeat (match goal with |- cons _ _ = cons _ _ => apply f_equal2; [ field; side | ] | |- nil = nil => reflexivity end).

