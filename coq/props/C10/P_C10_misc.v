(* C10: adjugate identity; operator/ multiplies by the inverse *)
Require Import ZArith List String Bool Reals Lra.
Import ListNotations.
From GLMV Require Import Expr SemR SemZ Cat Comm Chk SpecLinAlg.
From W Require Gen_C10_f32.
From W Require Import A_C10_defs.
Local Open Scope string_scope.
Local Open Scope Z_scope.

Lemma adjugate_identity : Forall adj_ok [2; 3; 4].
Proof.
  repeat (first [apply Forall_nil | apply Forall_cons; [unfold adj_ok; eexists; split; [vm_compute; reflexivity |
    intros env; norm_goal env; evR; list_ring] |]]).
Qed.

(* operator/ multiplies by the inverse: identical expression trees *)
Definition div_ok : bool :=
  forallb (fun N =>
    match outs_of cat (name "div_mm" [N] "f32"), outs_of cat (name "mulinv_mm" [N] "f32"), outs_of cat (name "diveq_mm" [N] "f32"),
          outs_of cat (name "div_mv" [N] "f32"), outs_of cat (name "invmul_mv" [N] "f32"), outs_of cat (name "div_vm" [N] "f32"), outs_of cat (name "mulinv_vm" [N] "f32") with
    | Some a, Some b, Some c, Some d, Some e, Some f, Some g => list_eqb a b && list_eqb c b && list_eqb d e && list_eqb f g
    | _, _, _, _, _, _, _ => false
    end) [2; 3; 4].
Lemma division_is_inverse : div_ok = true.
Proof. vm_compute. reflexivity. Qed.
