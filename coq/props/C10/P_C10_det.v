(* C10: determinant is the Leibniz expansion, multiplicative, and invariant under transpose (R3, ring). *)
Require Import ZArith List String Bool Reals Lra.
Import ListNotations.
From GLMV Require Import Expr SemR SemZ Cat Comm Chk SpecLinAlg.
From W Require Gen_C10_f32.
Local Open Scope string_scope.
Local Open Scope Z_scope.

Definition cat := Gen_C10_f32.catalogue.
Definition det_leibniz_ok (N : Z) : Prop :=
  exists d, outs_of cat (name "det" [N] "f32") = Some [d] /\ realok d = true /\ forall env, evalR env d = evalR env (leibniz F32 N).
(* determinant(A*B) = determinant(A) * determinant(B), A = argument 0, B = argument 1 *)
Definition det_mul_ok (N : Z) : Prop :=
  exists d, outs_of cat (name "det_mul" [N] "f32") = Some [d] /\
    forall env, evalR env d = (evalR env (leibniz_of F32 N (V F32 0)) * evalR env (leibniz_of F32 N (V F32 1)))%R.
Definition det_tr_ok (N : Z) : Prop :=
  exists d, outs_of cat (name "det_tr" [N] "f32") = Some [d] /\ forall env, evalR env d = evalR env (leibniz F32 N).

Ltac ev_specs := repeat match goal with |- context [evalR ?env (leibniz_of ?k ?n ?m)] => let s := eval vm_compute in (leibniz_of k n m) in change (leibniz_of k n m) with s
                                        | |- context [evalR ?env (leibniz ?k ?n)] => let s := eval vm_compute in (leibniz k n) in change (leibniz k n) with s end.
Ltac det_tac := eexists; split; [vm_compute; reflexivity | try (split; [vm_compute; reflexivity|]); intros env; ev_specs; evR; ring].
Lemma det_leibniz : Forall det_leibniz_ok [2; 3; 4].
Proof. repeat (first [apply Forall_nil | apply Forall_cons; [unfold det_leibniz_ok; det_tac|]]). Qed.
Lemma det_mul : Forall det_mul_ok [2; 3; 4].
Proof. repeat (first [apply Forall_nil | apply Forall_cons; [unfold det_mul_ok; det_tac|]]). Qed.
Lemma det_tr : Forall det_tr_ok [2; 3; 4].
Proof. repeat (first [apply Forall_nil | apply Forall_cons; [unfold det_tr_ok; det_tac|]]). Qed.
