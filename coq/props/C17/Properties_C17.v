(* Properties_C17.v -- C17: swizzles and constructors select and place exactly the named components.
   Statements only; proofs are `exact <lemma>` from P_C17.v, checked against the catalogue regenerated from /repo
   on this run (member-function, operator and gtx free-function swizzles, vector/matrix/quaternion constructors).
   Inputs are symbolic, so each identity holds for all component values; Cv nodes are the static_casts. *)
Require Import ZArith List String Bool.
Import ListNotations.
From GLMV Require Import Expr Cat SpecSwizzle.
From W Require Gen_C17_all P_C17.
Local Open Scope string_scope.
Local Open Scope Z_scope.

Theorem C17_every_entry_is_its_specification : forallb P_C17.entry_ok P_C17.cat = true.
Proof. exact P_C17.every_entry_is_its_specification. Qed.
Theorem C17_swizzle_catalogue_complete : forallb P_C17.has P_C17.required_swizzles = true.
Proof. exact P_C17.swizzle_catalogue_complete. Qed.
Theorem C17_matrix_constructor_catalogue_complete : forallb P_C17.has P_C17.required_matrix = true /\ List.length P_C17.required_matrix = 126%nat.
Proof. exact P_C17.matrix_catalogue_complete. Qed.
Theorem C17_catalogue_sizes : (3300 <=? P_C17.count_prefix "swz_") && (100 <=? P_C17.count_prefix "ctor_") && (160 <=? P_C17.count_prefix "swzw_") && (50 <=? P_C17.count_prefix "swzs_") && (200 <=? P_C17.count_prefix "swzc") = true.
Proof. exact P_C17.catalogue_sizes. Qed.
(* what the specification functions say, on examples (non-vacuity / readability) *)
Example C17_spec_examples :
  swizzle_read_spec F32 "wxzy" = Some [V F32 0 3; V F32 0 0; V F32 0 2; V F32 0 1] /\
  swizzle_write_spec F32 4 "zx" = Some [V F32 1 1; V F32 0 1; V F32 1 0; V F32 0 3] /\
  ctor_spec F32 4 "sv2v1" "fif" = Some [V F32 0 0; Cv F32 I32 (V I32 1 0); Cv F32 I32 (V I32 1 1); V F32 2 0].
Proof. repeat split; vm_compute; reflexivity. Qed.
Print Assumptions C17_every_entry_is_its_specification.
Print Assumptions C17_swizzle_catalogue_complete.
