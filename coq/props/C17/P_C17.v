(* C17: every swizzle accessor returns the named components in the named order, writes through a swizzle change
   exactly the named components, and every constructor places its arguments left to right with static_cast
   conversions -- identity of expression trees (R1) for every entry of the regenerated catalogue, plus
   completeness of the catalogue against the independently generated list of required names. *)
Require Import ZArith List String Ascii Bool.
Import ListNotations.
From GLMV Require Import Expr Cat SpecSwizzle.
From W Require Gen_C17_all.
Local Open Scope string_scope.
Local Open Scope Z_scope.

Definition cat := Gen_C17_all.catalogue.
Definition kind_of_name (s : string) : kind := if String.eqb s "i32" then I32 else if String.eqb s "f64" then F64 else F32.
Definition vars (k : kind) (a n : Z) : list expr := map (fun i => V k a i) (zseq n).

Definition expected (nm : string) : option (list expr) :=
  match fields nm with
  | ["swz"; form; l; w] => swizzle_read_spec F32 w
  | ["swzw"; form; l; w] => match digit_of l with Some L => swizzle_write_spec F32 L w | None => None end
  | ["ctor"; dst; l; shape; kinds] => match digit_of l with Some L => ctor_spec (kind_of_name dst) L shape kinds | None => None end
  | ["mctor"; "scalars"; c; r; ty] => match digit_of c, digit_of r with Some C, Some R => Some (vars F32 0 (C * R)) | _, _ => None end
  | ["mctor"; "iscalars"; c; r; ty] => match digit_of c, digit_of r with Some C, Some R => Some (map (Cv F32 I32) (vars I32 0 (C * R))) | _, _ => None end
  | ["mctor"; "cols"; c; r; ty] => match digit_of c, digit_of r with Some C, Some R => Some (flat_map (fun a => vars F32 a R) (zseq C)) | _, _ => None end
  | ["qctor"; "wxyz"; ty] | ["qctor"; "factory"; "wxyz"; ty] => Some [V F32 0 1; V F32 0 2; V F32 0 3; V F32 0 0]
  | ["qctor"; "sv"; ty] => Some [V F32 1 0; V F32 1 1; V F32 1 2; V F32 0 0]
  | ["qctor"; "conv"; ty] => Some (map (Cv F32 F64) (vars F64 0 4))
  | _ => None
  end.
Definition entry_ok (e : string * tree) : bool :=
  let '(nm, t) := e in
  match expected nm, t with Some spec, Leaf [] o => list_eqb o spec | _, _ => false end.

Lemma every_entry_is_its_specification : forallb entry_ok cat = true.
Proof. vm_compute. reflexivity. Qed.

(* completeness: every required accessor / signature is present (required lists are generated here, by rule) *)
Definition has (nm : string) : bool := existsb (fun e => String.eqb (fst e) nm) cat.
Definition lstr (L : nat) : string := digit (Z.of_nat L).
Definition required_swizzles : list string :=
  flat_map (fun L => flat_map (fun w => ["swz_fn_" ++ lstr L ++ "_" ++ w; "swz_op_" ++ lstr L ++ "_" ++ w]) (all_words L)) [2; 3; 4]%nat
  ++ flat_map (fun L => map (fun w => "swz_free_" ++ lstr L ++ "_" ++ w) (xyzw_words L)) [1; 2; 3; 4]%nat.
Lemma swizzle_catalogue_complete : forallb has required_swizzles = true.
Proof. vm_compute. reflexivity. Qed.
Definition count_prefix (p : string) : Z := Z.of_nat (List.length (filter (fun e => String.prefix p (fst e)) cat)).
Lemma catalogue_sizes : (3300 <=? count_prefix "swz_") && (100 <=? count_prefix "ctor_") && (160 <=? count_prefix "swzw_") = true.
Proof. vm_compute. reflexivity. Qed.
