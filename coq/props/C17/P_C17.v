(* C17: every swizzle accessor returns the named components in the named order, writes through a swizzle change
   exactly the named components, and every constructor places its arguments left to right with static_cast
   conversions -- identity of expression trees (R1) for every entry of the regenerated catalogue, plus
   completeness of the catalogue against the independently generated list of required names. *)
Require Import ZArith List String Ascii Bool.
Import ListNotations.
From GLMV Require Import Expr Cat SpecSwizzle.
From W Require Gen_C17_all.
Local Open Scope string_scope.
Local Open Scope Z_scope.

Definition cat := Gen_C17_all.catalogue.
Definition kind_of_name (s : string) : kind := if String.eqb s "i32" then I32 else if String.eqb s "f64" then F64 else F32.
Definition vars (k : kind) (a n : Z) : list expr := map (fun i => V k a i) (zseq n).

Definition expected (nm : string) : option (list expr) :=
  match fields nm with
  | ["swz"; form; l; w] => swizzle_read_spec F32 w
  | ["swzw"; form; l; w] => match digit_of l with Some L => swizzle_write_spec F32 L w | None => None end
  | ["swzs"; form; l; w] => match digit_of l with Some L => swizzle_scalar_spec F32 L w | None => None end
  | ["swzcadd"; form; l; w] => match digit_of l with Some L => swizzle_compound_spec Add F32 L w | None => None end
  | ["swzcsub"; form; l; w] => match digit_of l with Some L => swizzle_compound_spec Sub F32 L w | None => None end
  | ["swzcmul"; form; l; w] => match digit_of l with Some L => swizzle_compound_spec Mul F32 L w | None => None end
  | ["swzcdiv"; form; l; w] => match digit_of l with Some L => swizzle_compound_spec Div F32 L w | None => None end
  | ["ctor"; dst; l; shape; kinds] => match digit_of l with Some L => ctor_spec (kind_of_name dst) L shape kinds | None => None end
  | ["mctor"; "scalars"; c; r; ty] => match digit_of c, digit_of r with Some C, Some R => Some (vars F32 0 (C * R)) | _, _ => None end
  | ["mctor"; "iscalars"; c; r; ty] => match digit_of c, digit_of r with Some C, Some R => Some (map (Cv F32 I32) (vars I32 0 (C * R))) | _, _ => None end
  | ["mctor"; "cols"; c; r; ty] => match digit_of c, digit_of r with Some C, Some R => Some (flat_map (fun a => vars F32 a R) (zseq C)) | _, _ => None end
  (* shape conversion: the common block is copied, the rest is the identity matrix;  element (column ci, row ri) of the source has index ci * R2 + ri *)
  | ["mconv"; c; r; c2; r2; ty] => match digit_of c, digit_of r, digit_of c2, digit_of r2 with
      | Some C, Some R, Some C2, Some R2 => Some (flat_map (fun ci => map (fun ri => if (ci <? C2) && (ri <? R2) then V F32 0 (ci * R2 + ri) else if ci =? ri then Cf F32 false 1 0 else Cf F32 false 0 0) (zseq R)) (zseq C))
      | _, _, _, _ => None end
  | ["mdiag"; c; r; ty] => match digit_of c, digit_of r with Some C, Some R => Some (flat_map (fun ci => map (fun ri => if ci =? ri then V F32 0 0 else Cf F32 false 0 0) (zseq R)) (zseq C)) | _, _ => None end
  | ["mconvk"; c; r; k] => match digit_of c, digit_of r with Some C, Some R => Some (map (Cv F32 (kind_of_name k)) (vars (kind_of_name k) 0 (C * R))) | _, _ => None end
  | ["qctor"; "wxyz"; ty] | ["qctor"; "factory"; "wxyz"; ty] => Some [V F32 0 1; V F32 0 2; V F32 0 3; V F32 0 0]
  | ["qctor"; "xyzwargs"; ty] => Some [V F32 0 0; V F32 0 1; V F32 0 2; V F32 0 3]
  | ["qctor"; "sv"; ty] => Some [V F32 1 0; V F32 1 1; V F32 1 2; V F32 0 0]
  | ["qctor"; "conv"; ty] => Some (map (Cv F32 F64) (vars F64 0 4))
  | _ => None
  end.
Definition entry_ok (e : string * tree) : bool :=
  let '(nm, t) := e in
  match expected nm, t with Some spec, Leaf [] o => list_eqb o spec | _, _ => false end.

Lemma every_entry_is_its_specification : forallb entry_ok cat = true.
Proof. vm_compute. reflexivity. Qed.

(* completeness: every required accessor / signature is present (required lists are generated here, by rule) *)
Definition has (nm : string) : bool := existsb (fun e => String.eqb (fst e) nm) cat.
Definition lstr (L : nat) : string := digit (Z.of_nat L).
Definition required_swizzles : list string :=
  flat_map (fun L => flat_map (fun w => ["swz_fn_" ++ lstr L ++ "_" ++ w; "swz_op_" ++ lstr L ++ "_" ++ w]) (all_words L)) [2; 3; 4]%nat
  ++ flat_map (fun L => map (fun w => "swz_free_" ++ lstr L ++ "_" ++ w) (xyzw_words L)) [1; 2; 3; 4]%nat.
Lemma swizzle_catalogue_complete : forallb has required_swizzles = true.
Proof. vm_compute. reflexivity. Qed.
(* the 81 matrix shape conversions, 9 diagonal constructors, 18 element-type conversions *)
Definition shapes : list (nat * nat) := flat_map (fun c => map (fun r => (c, r)) [2; 3; 4]%nat) [2; 3; 4]%nat.
Definition required_matrix : list string :=
  flat_map (fun d => List.app (flat_map (fun s => ["mconv_" ++ lstr (fst d) ++ "_" ++ lstr (snd d) ++ "_" ++ lstr (fst s) ++ "_" ++ lstr (snd s) ++ "_f32"]) shapes)
                     ["mdiag_" ++ lstr (fst d) ++ "_" ++ lstr (snd d) ++ "_f32"; "mconvk_" ++ lstr (fst d) ++ "_" ++ lstr (snd d) ++ "_f64"; "mconvk_" ++ lstr (fst d) ++ "_" ++ lstr (snd d) ++ "_i32";
                         "mctor_scalars_" ++ lstr (fst d) ++ "_" ++ lstr (snd d) ++ "_f32"; "mctor_cols_" ++ lstr (fst d) ++ "_" ++ lstr (snd d) ++ "_f32"]) shapes.
Lemma matrix_catalogue_complete : forallb has required_matrix = true /\ List.length required_matrix = 126%nat.
Proof. vm_compute. split; reflexivity. Qed.
Definition count_prefix (p : string) : Z := Z.of_nat (List.length (filter (fun e => String.prefix p (fst e)) cat)).
Lemma catalogue_sizes : (3300 <=? count_prefix "swz_") && (100 <=? count_prefix "ctor_") && (160 <=? count_prefix "swzw_") && (50 <=? count_prefix "swzs_") && (200 <=? count_prefix "swzc") = true.
Proof. vm_compute. reflexivity. Qed.
