(* C20: the traced integer / bitfield entries (Gen_C20, regenerated from the templates) execute no undefined behaviour on
   their documented domains; refuted statements (with witnesses) for the inputs inside the documented domain where they do. *)
Require Import ZArith List Bool Lia.
Import ListNotations.
From GLMV Require Import SemZ Expr.
From W Require Import A_C20_defs Gen_C20.
Local Open Scope Z_scope.

Ltac ev20 := cbn [evalTZ omap evalZB evalZ obind is_int unZ binZ cmpZ kind_eqb is_signed width forallb andb orb negb].
(* turn a boolean comparison hypothesis into an inequality *)
Ltac zb H := first [apply Z.ltb_lt in H | apply Z.ltb_ge in H | apply Z.leb_le in H | apply Z.leb_gt in H | apply Z.eqb_eq in H | apply Z.eqb_neq in H | idtac].
Ltac bfalse := lazymatch goal with
  | |- (_ || _) = false => apply orb_false_intro; bfalse
  | |- (_ && _) = false => apply andb_false_iff; first [left; bfalse | right; bfalse]
  | |- (_ <? _) = false => apply Z.ltb_ge; wrap_facts; lia
  | |- (_ <=? _) = false => apply Z.leb_gt; change (2 ^ 32) with 4294967296; wrap_facts; nia
  | |- (_ =? _) = false => apply Z.eqb_neq; wrap_facts; lia
  | |- false = false => reflexivity
  end.
Ltac inputs env := repeat match goal with
  | |- context [wrap ?k (env ?k ?a ?i)] => rewrite (wrap_in_range k (env k a i)) by (match goal with T : typed env |- _ => apply T end)
  end.
(* wraps of literal constants are computed; powers of two of a bounded variable get their bounds *)
Ltac wrap_consts := repeat match goal with |- context [wrap ?k ?z] =>
  lazymatch z with Z0 => idtac | Zpos _ => idtac | Zneg _ => idtac end;
  let v := eval vm_compute in (wrap k z) in change (wrap k z) with v end.
Ltac pow_facts := repeat match goal with |- context [2 ^ ?v] => is_var v;
  first [ lazymatch goal with H : 0 < 2 ^ v |- _ => fail | _ => idtac end; assert (0 < 2 ^ v) by (apply Z.pow_pos_nonneg; lia)
        | lazymatch goal with H : 2 ^ v <= 1073741824 |- _ => fail | _ => idtac end; assert (2 ^ v <= 1073741824) by (change 1073741824 with (2 ^ 30); apply Z.pow_le_mono_r; lia)
        | lazymatch goal with H : 2 ^ v <= 2147483648 |- _ => fail | _ => idtac end; assert (2 ^ v <= 2147483648) by (change 2147483648 with (2 ^ 31); apply Z.pow_le_mono_r; lia) ] end.
Lemma rem_sign a b : b <> 0 -> (0 <= a -> 0 <= Z.rem a b) /\ (a <= 0 -> Z.rem a b <= 0).
Proof. intros Hb. split; intros Ha; [apply Z.rem_nonneg | apply Z.rem_nonpos]; lia. Qed.
Ltac rem_facts := repeat match goal with |- context [Z.rem ?a ?b] =>
  lazymatch goal with H : Z.abs (Z.rem a b) < Z.abs b |- _ => fail | _ => idtac end;
  assert (Z.abs (Z.rem a b) < Z.abs b) by (apply Z.rem_bound_abs; lia); pose proof (rem_sign a b ltac:(lia)) end.
Ltac step20 :=
  match goal with
  | |- context [wrap I32 ?z] => lazymatch z with context [wrap _ _] => fail | _ => idtac end; rewrite (wrap_id_I32 z) by (rem_facts; lia)
  | |- context [wrap U32 ?z] => lazymatch z with context [wrap _ _] => fail | _ => idtac end; rewrite (wrap_id_U32 z) by (rem_facts; lia)
  | |- context [arith true ?k ?r] => lazymatch r with context [arith _ _ _] => fail | _ => idtac end;
      rewrite (arith_ok k r) by (first [left; reflexivity | right; first [apply in_range_I32 | apply in_range_U32]; wrap_facts; rem_facts; lia])
  | |- context [if ?c then None else _] => lazymatch c with context [arith _ _ _] => fail | _ => idtac end;
      let E := fresh "E" in assert (E : c = false) by bfalse; rewrite E; clear E
  | |- context [if ?c then _ else _] => lazymatch c with context [arith _ _ _] => fail | context [if _ then _ else _] => fail | _ => idtac end;
      let E := fresh "E" in destruct c eqn:E; zb E
  end; ev20; wrap_consts; pow_facts.
Ltac range_hyps env := repeat match goal with T : typed env |- context [env ?k ?a ?i] =>
    let H := fresh "R" in pose proof (T k a i) as H; first [apply in_range_I32 in H | apply in_range_U32 in H];
    let v := fresh "v" in set (v := env k a i) in *; clearbody v end.
Ltac ub_tac t := intros env T; intros; unfold defined, t, x0, x1, x2, INT_MIN, INT_MAX in *; change (2 ^ 30) with 1073741824 in *; change (2 ^ 31) with 2147483648 in *; ev20; inputs env; range_hyps env; ev20; wrap_consts;
  repeat match goal with H : _ \/ _ |- _ => destruct H end; pow_facts; repeat step20; eexists; reflexivity.


(* ---- defined on every input of the element type *)
Theorem min_i_ok : forall env, typed env -> defined (evalTZ true env t_min_i). Proof. ub_tac t_min_i. Qed.
Theorem max_i_ok : forall env, typed env -> defined (evalTZ true env t_max_i). Proof. ub_tac t_max_i. Qed.
Theorem clamp_i_ok : forall env, typed env -> defined (evalTZ true env t_clamp_i). Proof. ub_tac t_clamp_i. Qed.
Theorem mix_i_bool_ok : forall env, typed env -> defined (evalTZ true env t_mix_i_bool). Proof. ub_tac t_mix_i_bool. Qed.
Theorem bitfieldReverse_i_ok : forall env, typed env -> defined (evalTZ true env t_bitfieldReverse_i). Proof. ub_tac t_bitfieldReverse_i. Qed.
Theorem bitfieldReverse_u_ok : forall env, typed env -> defined (evalTZ true env t_bitfieldReverse_u). Proof. ub_tac t_bitfieldReverse_u. Qed.
Theorem mask_u_ok : forall env, typed env -> defined (evalTZ true env t_mask_u). Proof. ub_tac t_mask_u. Qed.
Theorem isPowerOfTwo_u_ok : forall env, typed env -> defined (evalTZ true env t_isPowerOfTwo_u). Proof. ub_tac t_isPowerOfTwo_u. Qed.
Theorem ceilPowerOfTwo_u_ok : forall env, typed env -> defined (evalTZ true env t_ceilPowerOfTwo_u). Proof. ub_tac t_ceilPowerOfTwo_u. Qed.
Theorem rotR_u_1_ok : forall env, typed env -> defined (evalTZ true env t_rotR_u_1). Proof. ub_tac t_rotR_u_1. Qed.
Theorem rotL_u_1_ok : forall env, typed env -> defined (evalTZ true env t_rotL_u_1). Proof. ub_tac t_rotL_u_1. Qed.
Theorem rotR_u_16_ok : forall env, typed env -> defined (evalTZ true env t_rotR_u_16). Proof. ub_tac t_rotR_u_16. Qed.
Theorem rotL_u_16_ok : forall env, typed env -> defined (evalTZ true env t_rotL_u_16). Proof. ub_tac t_rotL_u_16. Qed.
Theorem rotR_u_31_ok : forall env, typed env -> defined (evalTZ true env t_rotR_u_31). Proof. ub_tac t_rotR_u_31. Qed.
Theorem rotL_u_31_ok : forall env, typed env -> defined (evalTZ true env t_rotL_u_31). Proof. ub_tac t_rotL_u_31. Qed.
Theorem bitfieldExtract_i_0_0_ok : forall env, typed env -> defined (evalTZ true env t_bitfieldExtract_i_0_0). Proof. ub_tac t_bitfieldExtract_i_0_0. Qed.
Theorem bitfieldExtract_u_0_0_ok : forall env, typed env -> defined (evalTZ true env t_bitfieldExtract_u_0_0). Proof. ub_tac t_bitfieldExtract_u_0_0. Qed.
Theorem bitfieldInsert_u_0_0_ok : forall env, typed env -> defined (evalTZ true env t_bitfieldInsert_u_0_0). Proof. ub_tac t_bitfieldInsert_u_0_0. Qed.
Theorem bitfieldInsert_i_0_0_ok : forall env, typed env -> defined (evalTZ true env t_bitfieldInsert_i_0_0). Proof. ub_tac t_bitfieldInsert_i_0_0. Qed.
Theorem bitfieldExtract_i_0_1_ok : forall env, typed env -> defined (evalTZ true env t_bitfieldExtract_i_0_1). Proof. ub_tac t_bitfieldExtract_i_0_1. Qed.
Theorem bitfieldExtract_u_0_1_ok : forall env, typed env -> defined (evalTZ true env t_bitfieldExtract_u_0_1). Proof. ub_tac t_bitfieldExtract_u_0_1. Qed.
Theorem bitfieldInsert_u_0_1_ok : forall env, typed env -> defined (evalTZ true env t_bitfieldInsert_u_0_1). Proof. ub_tac t_bitfieldInsert_u_0_1. Qed.
Theorem bitfieldInsert_i_0_1_ok : forall env, typed env -> defined (evalTZ true env t_bitfieldInsert_i_0_1). Proof. ub_tac t_bitfieldInsert_i_0_1. Qed.
Theorem bitfieldExtract_i_0_31_ok : forall env, typed env -> defined (evalTZ true env t_bitfieldExtract_i_0_31). Proof. ub_tac t_bitfieldExtract_i_0_31. Qed.
Theorem bitfieldExtract_u_0_31_ok : forall env, typed env -> defined (evalTZ true env t_bitfieldExtract_u_0_31). Proof. ub_tac t_bitfieldExtract_u_0_31. Qed.
Theorem bitfieldInsert_u_0_31_ok : forall env, typed env -> defined (evalTZ true env t_bitfieldInsert_u_0_31). Proof. ub_tac t_bitfieldInsert_u_0_31. Qed.
Theorem bitfieldInsert_i_0_31_ok : forall env, typed env -> defined (evalTZ true env t_bitfieldInsert_i_0_31). Proof. ub_tac t_bitfieldInsert_i_0_31. Qed.
Theorem bitfieldExtract_i_0_32_ok : forall env, typed env -> defined (evalTZ true env t_bitfieldExtract_i_0_32). Proof. ub_tac t_bitfieldExtract_i_0_32. Qed.
Theorem bitfieldExtract_u_0_32_ok : forall env, typed env -> defined (evalTZ true env t_bitfieldExtract_u_0_32). Proof. ub_tac t_bitfieldExtract_u_0_32. Qed.
Theorem bitfieldInsert_u_0_32_ok : forall env, typed env -> defined (evalTZ true env t_bitfieldInsert_u_0_32). Proof. ub_tac t_bitfieldInsert_u_0_32. Qed.
Theorem bitfieldInsert_i_0_32_ok : forall env, typed env -> defined (evalTZ true env t_bitfieldInsert_i_0_32). Proof. ub_tac t_bitfieldInsert_i_0_32. Qed.
Theorem bitfieldExtract_i_5_7_ok : forall env, typed env -> defined (evalTZ true env t_bitfieldExtract_i_5_7). Proof. ub_tac t_bitfieldExtract_i_5_7. Qed.
Theorem bitfieldExtract_u_5_7_ok : forall env, typed env -> defined (evalTZ true env t_bitfieldExtract_u_5_7). Proof. ub_tac t_bitfieldExtract_u_5_7. Qed.
Theorem bitfieldInsert_u_5_7_ok : forall env, typed env -> defined (evalTZ true env t_bitfieldInsert_u_5_7). Proof. ub_tac t_bitfieldInsert_u_5_7. Qed.
Theorem bitfieldInsert_i_5_7_ok : forall env, typed env -> defined (evalTZ true env t_bitfieldInsert_i_5_7). Proof. ub_tac t_bitfieldInsert_i_5_7. Qed.
Theorem bitfieldExtract_i_31_1_ok : forall env, typed env -> defined (evalTZ true env t_bitfieldExtract_i_31_1). Proof. ub_tac t_bitfieldExtract_i_31_1. Qed.
Theorem bitfieldExtract_u_31_1_ok : forall env, typed env -> defined (evalTZ true env t_bitfieldExtract_u_31_1). Proof. ub_tac t_bitfieldExtract_u_31_1. Qed.
Theorem bitfieldInsert_u_31_1_ok : forall env, typed env -> defined (evalTZ true env t_bitfieldInsert_u_31_1). Proof. ub_tac t_bitfieldInsert_u_31_1. Qed.
Theorem bitfieldInsert_i_31_1_ok : forall env, typed env -> defined (evalTZ true env t_bitfieldInsert_i_31_1). Proof. ub_tac t_bitfieldInsert_i_31_1. Qed.
Theorem bitfieldExtract_i_16_16_ok : forall env, typed env -> defined (evalTZ true env t_bitfieldExtract_i_16_16). Proof. ub_tac t_bitfieldExtract_i_16_16. Qed.
Theorem bitfieldExtract_u_16_16_ok : forall env, typed env -> defined (evalTZ true env t_bitfieldExtract_u_16_16). Proof. ub_tac t_bitfieldExtract_u_16_16. Qed.
Theorem bitfieldInsert_u_16_16_ok : forall env, typed env -> defined (evalTZ true env t_bitfieldInsert_u_16_16). Proof. ub_tac t_bitfieldInsert_u_16_16. Qed.
Theorem bitfieldInsert_i_16_16_ok : forall env, typed env -> defined (evalTZ true env t_bitfieldInsert_i_16_16). Proof. ub_tac t_bitfieldInsert_i_16_16. Qed.
Theorem bitfieldExtract_i_1_31_ok : forall env, typed env -> defined (evalTZ true env t_bitfieldExtract_i_1_31). Proof. ub_tac t_bitfieldExtract_i_1_31. Qed.
Theorem bitfieldExtract_u_1_31_ok : forall env, typed env -> defined (evalTZ true env t_bitfieldExtract_u_1_31). Proof. ub_tac t_bitfieldExtract_u_1_31. Qed.
Theorem bitfieldInsert_u_1_31_ok : forall env, typed env -> defined (evalTZ true env t_bitfieldInsert_u_1_31). Proof. ub_tac t_bitfieldInsert_u_1_31. Qed.
Theorem bitfieldInsert_i_1_31_ok : forall env, typed env -> defined (evalTZ true env t_bitfieldInsert_i_1_31). Proof. ub_tac t_bitfieldInsert_i_1_31. Qed.
Theorem bitfieldExtract_i_31_0_ok : forall env, typed env -> defined (evalTZ true env t_bitfieldExtract_i_31_0). Proof. ub_tac t_bitfieldExtract_i_31_0. Qed.
Theorem bitfieldExtract_u_31_0_ok : forall env, typed env -> defined (evalTZ true env t_bitfieldExtract_u_31_0). Proof. ub_tac t_bitfieldExtract_u_31_0. Qed.
Theorem bitfieldInsert_u_31_0_ok : forall env, typed env -> defined (evalTZ true env t_bitfieldInsert_u_31_0). Proof. ub_tac t_bitfieldInsert_u_31_0. Qed.
Theorem bitfieldInsert_i_31_0_ok : forall env, typed env -> defined (evalTZ true env t_bitfieldInsert_i_31_0). Proof. ub_tac t_bitfieldInsert_i_31_0. Qed.
Theorem fillOne_u_0_0_ok : forall env, typed env -> defined (evalTZ true env t_fillOne_u_0_0). Proof. ub_tac t_fillOne_u_0_0. Qed.
Theorem fillZero_i_0_0_ok : forall env, typed env -> defined (evalTZ true env t_fillZero_i_0_0). Proof. ub_tac t_fillZero_i_0_0. Qed.
Theorem fillOne_u_0_31_ok : forall env, typed env -> defined (evalTZ true env t_fillOne_u_0_31). Proof. ub_tac t_fillOne_u_0_31. Qed.
Theorem fillZero_i_0_31_ok : forall env, typed env -> defined (evalTZ true env t_fillZero_i_0_31). Proof. ub_tac t_fillZero_i_0_31. Qed.
Theorem fillOne_u_0_32_ok : forall env, typed env -> defined (evalTZ true env t_fillOne_u_0_32). Proof. ub_tac t_fillOne_u_0_32. Qed.
Theorem fillZero_i_0_32_ok : forall env, typed env -> defined (evalTZ true env t_fillZero_i_0_32). Proof. ub_tac t_fillZero_i_0_32. Qed.
Theorem fillOne_u_1_31_ok : forall env, typed env -> defined (evalTZ true env t_fillOne_u_1_31). Proof. ub_tac t_fillOne_u_1_31. Qed.
Theorem fillZero_i_1_31_ok : forall env, typed env -> defined (evalTZ true env t_fillZero_i_1_31). Proof. ub_tac t_fillZero_i_1_31. Qed.
Theorem fillOne_u_31_1_ok : forall env, typed env -> defined (evalTZ true env t_fillOne_u_31_1). Proof. ub_tac t_fillOne_u_31_1. Qed.
Theorem fillZero_i_31_1_ok : forall env, typed env -> defined (evalTZ true env t_fillZero_i_31_1). Proof. ub_tac t_fillZero_i_31_1. Qed.
Theorem fillOne_u_8_8_ok : forall env, typed env -> defined (evalTZ true env t_fillOne_u_8_8). Proof. ub_tac t_fillOne_u_8_8. Qed.
Theorem fillZero_i_8_8_ok : forall env, typed env -> defined (evalTZ true env t_fillZero_i_8_8). Proof. ub_tac t_fillZero_i_8_8. Qed.
Theorem sign_i_ok : forall env, typed env -> defined (evalTZ true env t_sign_i). Proof. ub_tac t_sign_i. Qed.
Theorem mask_i_ok : forall env, typed env -> 0 <= x0 env I32 -> defined (evalTZ true env t_mask_i). Proof. ub_tac t_mask_i. Qed.
(* ---- defined on the documented domain *)
Theorem abs_i_ok : forall env, typed env -> x0 env I32 <> INT_MIN -> defined (evalTZ true env t_abs_i). Proof. ub_tac t_abs_i. Qed.
Theorem neg_i_ok : forall env, typed env -> x0 env I32 <> INT_MIN -> defined (evalTZ true env t_neg_i). Proof. ub_tac t_neg_i. Qed.
Theorem isPowerOfTwo_i_ok : forall env, typed env -> x0 env I32 <> INT_MIN -> defined (evalTZ true env t_isPowerOfTwo_i). Proof. ub_tac t_isPowerOfTwo_i. Qed.
Theorem rem_i_ok : forall env, typed env -> x1 env I32 <> 0 -> (x0 env I32 <> INT_MIN \/ x1 env I32 <> -1) -> defined (evalTZ true env t_rem_i). Proof. ub_tac t_rem_i. Qed.
Theorem div_i_ok : forall env, typed env -> x1 env I32 <> 0 -> (x0 env I32 <> INT_MIN \/ x1 env I32 <> -1) -> defined (evalTZ true env t_div_i). Proof. ub_tac t_div_i. Qed.
Theorem isMultiple_i_ok : forall env, typed env -> x1 env I32 <> 0 -> (x0 env I32 <> INT_MIN \/ x1 env I32 <> -1) -> defined (evalTZ true env t_isMultiple_i). Proof. ub_tac t_isMultiple_i. Qed.
Theorem shr_i_ok : forall env, typed env -> 0 <= x1 env I32 < 32 -> defined (evalTZ true env t_shr_i). Proof. ub_tac t_shr_i. Qed.
Theorem shl_i_ok : forall env, typed env -> 0 <= x1 env I32 <= 30 -> 0 <= x0 env I32 <= 1 -> defined (evalTZ true env t_shl_i). Proof. ub_tac t_shl_i. Qed.
Theorem ceilMultiple_u_ok : forall env, typed env -> x1 env U32 <> 0 -> defined (evalTZ true env t_ceilMultiple_u). Proof. ub_tac t_ceilMultiple_u. Qed.
Theorem floorMultiple_u_ok : forall env, typed env -> x1 env U32 <> 0 -> defined (evalTZ true env t_floorMultiple_u). Proof. ub_tac t_floorMultiple_u. Qed.
Theorem ceilMultiple_i_ok : forall env, typed env -> 0 < x1 env I32 < 2 ^ 30 -> - 2 ^ 30 < x0 env I32 < 2 ^ 30 -> defined (evalTZ true env t_ceilMultiple_i). Proof. ub_tac t_ceilMultiple_i. Qed.
Theorem floorMultiple_i_ok : forall env, typed env -> 0 < x1 env I32 < 2 ^ 30 -> - 2 ^ 30 < x0 env I32 < 2 ^ 30 -> defined (evalTZ true env t_floorMultiple_i). Proof. ub_tac t_floorMultiple_i. Qed.
Theorem rotR_i_1_ok : forall env, typed env -> 0 <= x0 env I32 < 2 ^ 30 -> defined (evalTZ true env t_rotR_i_1). Proof. ub_tac t_rotR_i_1. Qed.
Theorem rotR_i_16_ok : forall env, typed env -> 0 <= x0 env I32 < 65536 -> defined (evalTZ true env t_rotR_i_16). Proof. ub_tac t_rotR_i_16. Qed.
(* ---- undefined behaviour inside the documented domain (KNOWN FINDINGS): a rotation by 0 or by the width shifts by the width;
   a rotation of a negative signed value shifts a negative value to the left *)
Definition envc (a b : Z) : zenv := fun _ arg _ => if arg =? 0 then a else b.
Theorem rotate_by_zero_refuted : evalTZ true (envc 5 0) t_rotR_u_0 = None /\ evalTZ true (envc 5 0) t_rotL_u_0 = None /\ evalTZ true (envc 5 0) t_rotR_u_32 = None /\ evalTZ true (envc 5 0) t_rotL_u_32 = None.
Proof. vm_compute. repeat split. Qed.
Theorem rotate_negative_signed_refuted : evalTZ true (envc (-5) 0) t_rotR_i_1 = None.
Proof. vm_compute. reflexivity. Qed.
(* ... and outside it, for the record: abs / unary minus of INT_MIN *)
Theorem abs_INT_MIN_undefined : evalTZ true (envc INT_MIN 0) t_abs_i = None /\ evalTZ true (envc INT_MIN 0) t_neg_i = None.
Proof. vm_compute. split; reflexivity. Qed.
