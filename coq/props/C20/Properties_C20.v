(* Properties_C20.v -- C20: no undefined behaviour is executed for arguments inside the documented domains.
   Gen_C20 is regenerated on every run from GLM's integer / bitfield templates instantiated with 32-bit ints (translator T1).
   `defined (evalTZ true env t)` says that the strict evaluation of the entry -- in which signed overflow, a shift count
   outside [0, 32), a left shift of a negative value or past the unsigned range, division by zero and INT_MIN / -1 are
   errors -- yields a value.  66 entries are proved defined for EVERY input of the element type, 14 on their documented
   domain (stated as hypotheses); the refuted statements are the known findings.  The proofs discharge one range side
   condition per operation, innermost first (tactic ub_tac), from the bounds of the inputs.
   Outside this fragment (float-to-int conversions, non-template code, 8/16/64-bit types, SIMD paths): the sanitizer oracle. *)
Require Import ZArith List Bool Lia.
Import ListNotations.
From GLMV Require Import SemZ Expr.
From W Require A_C20_defs Gen_C20 P_C20.
Import A_C20_defs Gen_C20.
Local Open Scope Z_scope.
Theorem C20_min_i : forall env, typed env -> defined (evalTZ true env t_min_i). Proof. exact P_C20.min_i_ok. Qed.
Theorem C20_max_i : forall env, typed env -> defined (evalTZ true env t_max_i). Proof. exact P_C20.max_i_ok. Qed.
Theorem C20_clamp_i : forall env, typed env -> defined (evalTZ true env t_clamp_i). Proof. exact P_C20.clamp_i_ok. Qed.
Theorem C20_mix_i_bool : forall env, typed env -> defined (evalTZ true env t_mix_i_bool). Proof. exact P_C20.mix_i_bool_ok. Qed.
Theorem C20_bitfieldReverse_i : forall env, typed env -> defined (evalTZ true env t_bitfieldReverse_i). Proof. exact P_C20.bitfieldReverse_i_ok. Qed.
Theorem C20_bitfieldReverse_u : forall env, typed env -> defined (evalTZ true env t_bitfieldReverse_u). Proof. exact P_C20.bitfieldReverse_u_ok. Qed.
Theorem C20_mask_u : forall env, typed env -> defined (evalTZ true env t_mask_u). Proof. exact P_C20.mask_u_ok. Qed.
Theorem C20_isPowerOfTwo_u : forall env, typed env -> defined (evalTZ true env t_isPowerOfTwo_u). Proof. exact P_C20.isPowerOfTwo_u_ok. Qed.
Theorem C20_ceilPowerOfTwo_u : forall env, typed env -> defined (evalTZ true env t_ceilPowerOfTwo_u). Proof. exact P_C20.ceilPowerOfTwo_u_ok. Qed.
Theorem C20_rotR_u_1 : forall env, typed env -> defined (evalTZ true env t_rotR_u_1). Proof. exact P_C20.rotR_u_1_ok. Qed.
Theorem C20_rotL_u_1 : forall env, typed env -> defined (evalTZ true env t_rotL_u_1). Proof. exact P_C20.rotL_u_1_ok. Qed.
Theorem C20_rotR_u_16 : forall env, typed env -> defined (evalTZ true env t_rotR_u_16). Proof. exact P_C20.rotR_u_16_ok. Qed.
Theorem C20_rotL_u_16 : forall env, typed env -> defined (evalTZ true env t_rotL_u_16). Proof. exact P_C20.rotL_u_16_ok. Qed.
Theorem C20_rotR_u_31 : forall env, typed env -> defined (evalTZ true env t_rotR_u_31). Proof. exact P_C20.rotR_u_31_ok. Qed.
Theorem C20_rotL_u_31 : forall env, typed env -> defined (evalTZ true env t_rotL_u_31). Proof. exact P_C20.rotL_u_31_ok. Qed.
Theorem C20_bitfieldExtract_i_0_0 : forall env, typed env -> defined (evalTZ true env t_bitfieldExtract_i_0_0). Proof. exact P_C20.bitfieldExtract_i_0_0_ok. Qed.
Theorem C20_bitfieldExtract_u_0_0 : forall env, typed env -> defined (evalTZ true env t_bitfieldExtract_u_0_0). Proof. exact P_C20.bitfieldExtract_u_0_0_ok. Qed.
Theorem C20_bitfieldInsert_u_0_0 : forall env, typed env -> defined (evalTZ true env t_bitfieldInsert_u_0_0). Proof. exact P_C20.bitfieldInsert_u_0_0_ok. Qed.
Theorem C20_bitfieldInsert_i_0_0 : forall env, typed env -> defined (evalTZ true env t_bitfieldInsert_i_0_0). Proof. exact P_C20.bitfieldInsert_i_0_0_ok. Qed.
Theorem C20_bitfieldExtract_i_0_1 : forall env, typed env -> defined (evalTZ true env t_bitfieldExtract_i_0_1). Proof. exact P_C20.bitfieldExtract_i_0_1_ok. Qed.
Theorem C20_bitfieldExtract_u_0_1 : forall env, typed env -> defined (evalTZ true env t_bitfieldExtract_u_0_1). Proof. exact P_C20.bitfieldExtract_u_0_1_ok. Qed.
Theorem C20_bitfieldInsert_u_0_1 : forall env, typed env -> defined (evalTZ true env t_bitfieldInsert_u_0_1). Proof. exact P_C20.bitfieldInsert_u_0_1_ok. Qed.
Theorem C20_bitfieldInsert_i_0_1 : forall env, typed env -> defined (evalTZ true env t_bitfieldInsert_i_0_1). Proof. exact P_C20.bitfieldInsert_i_0_1_ok. Qed.
Theorem C20_bitfieldExtract_i_0_31 : forall env, typed env -> defined (evalTZ true env t_bitfieldExtract_i_0_31). Proof. exact P_C20.bitfieldExtract_i_0_31_ok. Qed.
Theorem C20_bitfieldExtract_u_0_31 : forall env, typed env -> defined (evalTZ true env t_bitfieldExtract_u_0_31). Proof. exact P_C20.bitfieldExtract_u_0_31_ok. Qed.
Theorem C20_bitfieldInsert_u_0_31 : forall env, typed env -> defined (evalTZ true env t_bitfieldInsert_u_0_31). Proof. exact P_C20.bitfieldInsert_u_0_31_ok. Qed.
Theorem C20_bitfieldInsert_i_0_31 : forall env, typed env -> defined (evalTZ true env t_bitfieldInsert_i_0_31). Proof. exact P_C20.bitfieldInsert_i_0_31_ok. Qed.
Theorem C20_bitfieldExtract_i_0_32 : forall env, typed env -> defined (evalTZ true env t_bitfieldExtract_i_0_32). Proof. exact P_C20.bitfieldExtract_i_0_32_ok. Qed.
Theorem C20_bitfieldExtract_u_0_32 : forall env, typed env -> defined (evalTZ true env t_bitfieldExtract_u_0_32). Proof. exact P_C20.bitfieldExtract_u_0_32_ok. Qed.
Theorem C20_bitfieldInsert_u_0_32 : forall env, typed env -> defined (evalTZ true env t_bitfieldInsert_u_0_32). Proof. exact P_C20.bitfieldInsert_u_0_32_ok. Qed.
Theorem C20_bitfieldInsert_i_0_32 : forall env, typed env -> defined (evalTZ true env t_bitfieldInsert_i_0_32). Proof. exact P_C20.bitfieldInsert_i_0_32_ok. Qed.
Theorem C20_bitfieldExtract_i_5_7 : forall env, typed env -> defined (evalTZ true env t_bitfieldExtract_i_5_7). Proof. exact P_C20.bitfieldExtract_i_5_7_ok. Qed.
Theorem C20_bitfieldExtract_u_5_7 : forall env, typed env -> defined (evalTZ true env t_bitfieldExtract_u_5_7). Proof. exact P_C20.bitfieldExtract_u_5_7_ok. Qed.
Theorem C20_bitfieldInsert_u_5_7 : forall env, typed env -> defined (evalTZ true env t_bitfieldInsert_u_5_7). Proof. exact P_C20.bitfieldInsert_u_5_7_ok. Qed.
Theorem C20_bitfieldInsert_i_5_7 : forall env, typed env -> defined (evalTZ true env t_bitfieldInsert_i_5_7). Proof. exact P_C20.bitfieldInsert_i_5_7_ok. Qed.
Theorem C20_bitfieldExtract_i_31_1 : forall env, typed env -> defined (evalTZ true env t_bitfieldExtract_i_31_1). Proof. exact P_C20.bitfieldExtract_i_31_1_ok. Qed.
Theorem C20_bitfieldExtract_u_31_1 : forall env, typed env -> defined (evalTZ true env t_bitfieldExtract_u_31_1). Proof. exact P_C20.bitfieldExtract_u_31_1_ok. Qed.
Theorem C20_bitfieldInsert_u_31_1 : forall env, typed env -> defined (evalTZ true env t_bitfieldInsert_u_31_1). Proof. exact P_C20.bitfieldInsert_u_31_1_ok. Qed.
Theorem C20_bitfieldInsert_i_31_1 : forall env, typed env -> defined (evalTZ true env t_bitfieldInsert_i_31_1). Proof. exact P_C20.bitfieldInsert_i_31_1_ok. Qed.
Theorem C20_bitfieldExtract_i_16_16 : forall env, typed env -> defined (evalTZ true env t_bitfieldExtract_i_16_16). Proof. exact P_C20.bitfieldExtract_i_16_16_ok. Qed.
Theorem C20_bitfieldExtract_u_16_16 : forall env, typed env -> defined (evalTZ true env t_bitfieldExtract_u_16_16). Proof. exact P_C20.bitfieldExtract_u_16_16_ok. Qed.
Theorem C20_bitfieldInsert_u_16_16 : forall env, typed env -> defined (evalTZ true env t_bitfieldInsert_u_16_16). Proof. exact P_C20.bitfieldInsert_u_16_16_ok. Qed.
Theorem C20_bitfieldInsert_i_16_16 : forall env, typed env -> defined (evalTZ true env t_bitfieldInsert_i_16_16). Proof. exact P_C20.bitfieldInsert_i_16_16_ok. Qed.
Theorem C20_bitfieldExtract_i_1_31 : forall env, typed env -> defined (evalTZ true env t_bitfieldExtract_i_1_31). Proof. exact P_C20.bitfieldExtract_i_1_31_ok. Qed.
Theorem C20_bitfieldExtract_u_1_31 : forall env, typed env -> defined (evalTZ true env t_bitfieldExtract_u_1_31). Proof. exact P_C20.bitfieldExtract_u_1_31_ok. Qed.
Theorem C20_bitfieldInsert_u_1_31 : forall env, typed env -> defined (evalTZ true env t_bitfieldInsert_u_1_31). Proof. exact P_C20.bitfieldInsert_u_1_31_ok. Qed.
Theorem C20_bitfieldInsert_i_1_31 : forall env, typed env -> defined (evalTZ true env t_bitfieldInsert_i_1_31). Proof. exact P_C20.bitfieldInsert_i_1_31_ok. Qed.
Theorem C20_bitfieldExtract_i_31_0 : forall env, typed env -> defined (evalTZ true env t_bitfieldExtract_i_31_0). Proof. exact P_C20.bitfieldExtract_i_31_0_ok. Qed.
Theorem C20_bitfieldExtract_u_31_0 : forall env, typed env -> defined (evalTZ true env t_bitfieldExtract_u_31_0). Proof. exact P_C20.bitfieldExtract_u_31_0_ok. Qed.
Theorem C20_bitfieldInsert_u_31_0 : forall env, typed env -> defined (evalTZ true env t_bitfieldInsert_u_31_0). Proof. exact P_C20.bitfieldInsert_u_31_0_ok. Qed.
Theorem C20_bitfieldInsert_i_31_0 : forall env, typed env -> defined (evalTZ true env t_bitfieldInsert_i_31_0). Proof. exact P_C20.bitfieldInsert_i_31_0_ok. Qed.
Theorem C20_fillOne_u_0_0 : forall env, typed env -> defined (evalTZ true env t_fillOne_u_0_0). Proof. exact P_C20.fillOne_u_0_0_ok. Qed.
Theorem C20_fillZero_i_0_0 : forall env, typed env -> defined (evalTZ true env t_fillZero_i_0_0). Proof. exact P_C20.fillZero_i_0_0_ok. Qed.
Theorem C20_fillOne_u_0_31 : forall env, typed env -> defined (evalTZ true env t_fillOne_u_0_31). Proof. exact P_C20.fillOne_u_0_31_ok. Qed.
Theorem C20_fillZero_i_0_31 : forall env, typed env -> defined (evalTZ true env t_fillZero_i_0_31). Proof. exact P_C20.fillZero_i_0_31_ok. Qed.
Theorem C20_fillOne_u_0_32 : forall env, typed env -> defined (evalTZ true env t_fillOne_u_0_32). Proof. exact P_C20.fillOne_u_0_32_ok. Qed.
Theorem C20_fillZero_i_0_32 : forall env, typed env -> defined (evalTZ true env t_fillZero_i_0_32). Proof. exact P_C20.fillZero_i_0_32_ok. Qed.
Theorem C20_fillOne_u_1_31 : forall env, typed env -> defined (evalTZ true env t_fillOne_u_1_31). Proof. exact P_C20.fillOne_u_1_31_ok. Qed.
Theorem C20_fillZero_i_1_31 : forall env, typed env -> defined (evalTZ true env t_fillZero_i_1_31). Proof. exact P_C20.fillZero_i_1_31_ok. Qed.
Theorem C20_fillOne_u_31_1 : forall env, typed env -> defined (evalTZ true env t_fillOne_u_31_1). Proof. exact P_C20.fillOne_u_31_1_ok. Qed.
Theorem C20_fillZero_i_31_1 : forall env, typed env -> defined (evalTZ true env t_fillZero_i_31_1). Proof. exact P_C20.fillZero_i_31_1_ok. Qed.
Theorem C20_fillOne_u_8_8 : forall env, typed env -> defined (evalTZ true env t_fillOne_u_8_8). Proof. exact P_C20.fillOne_u_8_8_ok. Qed.
Theorem C20_fillZero_i_8_8 : forall env, typed env -> defined (evalTZ true env t_fillZero_i_8_8). Proof. exact P_C20.fillZero_i_8_8_ok. Qed.
Theorem C20_sign_i : forall env, typed env -> defined (evalTZ true env t_sign_i). Proof. exact P_C20.sign_i_ok. Qed.
Theorem C20_mask_i : forall env, typed env -> 0 <= x0 env I32 -> defined (evalTZ true env t_mask_i). Proof. exact P_C20.mask_i_ok. Qed.
Theorem C20_abs_i : forall env, typed env -> x0 env I32 <> INT_MIN -> defined (evalTZ true env t_abs_i). Proof. exact P_C20.abs_i_ok. Qed.
Theorem C20_neg_i : forall env, typed env -> x0 env I32 <> INT_MIN -> defined (evalTZ true env t_neg_i). Proof. exact P_C20.neg_i_ok. Qed.
Theorem C20_isPowerOfTwo_i : forall env, typed env -> x0 env I32 <> INT_MIN -> defined (evalTZ true env t_isPowerOfTwo_i). Proof. exact P_C20.isPowerOfTwo_i_ok. Qed.
Theorem C20_rem_i : forall env, typed env -> x1 env I32 <> 0 -> (x0 env I32 <> INT_MIN \/ x1 env I32 <> -1) -> defined (evalTZ true env t_rem_i). Proof. exact P_C20.rem_i_ok. Qed.
Theorem C20_div_i : forall env, typed env -> x1 env I32 <> 0 -> (x0 env I32 <> INT_MIN \/ x1 env I32 <> -1) -> defined (evalTZ true env t_div_i). Proof. exact P_C20.div_i_ok. Qed.
Theorem C20_isMultiple_i : forall env, typed env -> x1 env I32 <> 0 -> (x0 env I32 <> INT_MIN \/ x1 env I32 <> -1) -> defined (evalTZ true env t_isMultiple_i). Proof. exact P_C20.isMultiple_i_ok. Qed.
Theorem C20_shr_i : forall env, typed env -> 0 <= x1 env I32 < 32 -> defined (evalTZ true env t_shr_i). Proof. exact P_C20.shr_i_ok. Qed.
Theorem C20_shl_i : forall env, typed env -> 0 <= x1 env I32 <= 30 -> 0 <= x0 env I32 <= 1 -> defined (evalTZ true env t_shl_i). Proof. exact P_C20.shl_i_ok. Qed.
Theorem C20_ceilMultiple_u : forall env, typed env -> x1 env U32 <> 0 -> defined (evalTZ true env t_ceilMultiple_u). Proof. exact P_C20.ceilMultiple_u_ok. Qed.
Theorem C20_floorMultiple_u : forall env, typed env -> x1 env U32 <> 0 -> defined (evalTZ true env t_floorMultiple_u). Proof. exact P_C20.floorMultiple_u_ok. Qed.
Theorem C20_ceilMultiple_i : forall env, typed env -> 0 < x1 env I32 < 2 ^ 30 -> - 2 ^ 30 < x0 env I32 < 2 ^ 30 -> defined (evalTZ true env t_ceilMultiple_i). Proof. exact P_C20.ceilMultiple_i_ok. Qed.
Theorem C20_floorMultiple_i : forall env, typed env -> 0 < x1 env I32 < 2 ^ 30 -> - 2 ^ 30 < x0 env I32 < 2 ^ 30 -> defined (evalTZ true env t_floorMultiple_i). Proof. exact P_C20.floorMultiple_i_ok. Qed.
Theorem C20_rotR_i_1 : forall env, typed env -> 0 <= x0 env I32 < 2 ^ 30 -> defined (evalTZ true env t_rotR_i_1). Proof. exact P_C20.rotR_i_1_ok. Qed.
Theorem C20_rotR_i_16 : forall env, typed env -> 0 <= x0 env I32 < 65536 -> defined (evalTZ true env t_rotR_i_16). Proof. exact P_C20.rotR_i_16_ok. Qed.
Theorem C20_rotate_by_zero_or_width_refuted : evalTZ true (P_C20.envc 5 0) t_rotR_u_0 = None /\ evalTZ true (P_C20.envc 5 0) t_rotL_u_0 = None /\ evalTZ true (P_C20.envc 5 0) t_rotR_u_32 = None /\ evalTZ true (P_C20.envc 5 0) t_rotL_u_32 = None.
Proof. exact P_C20.rotate_by_zero_refuted. Qed.
Theorem C20_rotate_negative_signed_refuted : evalTZ true (P_C20.envc (-5) 0) t_rotR_i_1 = None. Proof. exact P_C20.rotate_negative_signed_refuted. Qed.
(* non-vacuity: the typed environments exist and the domain hypotheses are satisfiable *)
Example C20_typed_example : typed (fun k _ _ => 0) /\ x0 (fun _ _ _ => 7) I32 <> INT_MIN.
Proof. split; [intros k a i; destruct k; reflexivity | unfold x0, INT_MIN; lia]. Qed.
Print Assumptions C20_sign_i.
Print Assumptions C20_bitfieldInsert_i_0_32.
Print Assumptions C20_ceilMultiple_i.
