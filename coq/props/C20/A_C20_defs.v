(* C20 definitions: "no undefined behaviour" for a traced integer entry = its strict evaluation (SemZ.evalTZ true: signed
   overflow, shift counts outside [0, width), shifts of negative values or past the unsigned range, division by zero and
   INT_MIN / -1 are errors) yields a value, for every input in the stated domain.  Tactics that discharge the range side
   conditions operation by operation, innermost first. *)
Require Import ZArith List Bool Lia.
Import ListNotations.
From GLMV Require Import SemZ Expr.
Local Open Scope Z_scope.

Definition defined (o : option (bool * list Z)) : Prop := exists r, o = Some r.
Definition x0 (env : zenv) (k : kind) := env k 0 0.
Definition x1 (env : zenv) (k : kind) := env k 1 0.
Definition x2 (env : zenv) (k : kind) := env k 2 0.
Definition INT_MIN : Z := - 2147483648.
Definition INT_MAX : Z := 2147483647.
(* the environment holds values of the element type *)
Definition typed (env : zenv) : Prop := forall k a i, in_range k (env k a i) = true.

Lemma in_range_I32 z : in_range I32 z = true <-> -2147483648 <= z <= 2147483647.
Proof. unfold in_range. cbn. rewrite andb_true_iff, Z.leb_le, Z.ltb_lt. lia. Qed.
Lemma in_range_U32 z : in_range U32 z = true <-> 0 <= z <= 4294967295.
Proof. unfold in_range. cbn. rewrite andb_true_iff, Z.leb_le, Z.ltb_lt. lia. Qed.
Lemma wrap_I32_bounds z : -2147483648 <= wrap I32 z <= 2147483647.
Proof. unfold wrap. cbn [width is_signed]. change (2 ^ 32) with 4294967296. change (2 ^ (32 - 1)) with 2147483648. pose proof (Z.mod_pos_bound z 4294967296 ltac:(lia)). destruct (z mod 4294967296 <? 2147483648) eqn:E; [apply Z.ltb_lt in E | apply Z.ltb_ge in E]; lia. Qed.
Lemma wrap_U32_bounds z : 0 <= wrap U32 z <= 4294967295.
Proof. unfold wrap. cbn [width is_signed]. change (2 ^ 32) with 4294967296. pose proof (Z.mod_pos_bound z 4294967296 ltac:(lia)). lia. Qed.
Lemma wrap_id_I32 z : -2147483648 <= z <= 2147483647 -> wrap I32 z = z.
Proof. intros H. apply wrap_in_range. now apply in_range_I32. Qed.
Lemma wrap_id_U32 z : 0 <= z <= 4294967295 -> wrap U32 z = z.
Proof. intros H. apply wrap_in_range. now apply in_range_U32. Qed.
Lemma arith_ok k r : is_signed k = false \/ in_range k r = true -> arith true k r = Some (wrap k r).
Proof. unfold arith. intros [H | H]; rewrite H; cbn [andb negb]; [|rewrite andb_false_r]; reflexivity. Qed.

(* expose the bounds of every wrapped term and of the typed inputs to lia *)
Ltac wrap_facts := repeat match goal with
  | |- context [wrap I32 ?z] => lazymatch goal with H : -2147483648 <= wrap I32 z <= 2147483647 |- _ => fail | _ => pose proof (wrap_I32_bounds z) end
  | |- context [wrap U32 ?z] => lazymatch goal with H : 0 <= wrap U32 z <= 4294967295 |- _ => fail | _ => pose proof (wrap_U32_bounds z) end
  end.
