(* Properties_C12.v -- C12: geometric functions satisfy Euclidean identities on vec1..4 and the scalar overloads.
   Statements only; proofs are `exact <lemma>` from P_C12.v / P_C12_b.v, checked against the model regenerated
   from /repo on this run (W.Gen_C12).  Values are real numbers (evalR of the traced float expressions). *)
Require Import ZArith List String Bool Reals.
Import ListNotations.
From GLMV Require Import Expr SemR Cat Comm Chk SpecLinAlg SpecProj SpecGeom.
From W Require Gen_C12 P_C12 P_C12_b P_C12_c P_C12_d P_C12_gs.
Local Open Scope string_scope.
Local Open Scope Z_scope.

Theorem C12_dot_is_sum_of_products : Forall P_C12.dot_ok [1; 2; 3; 4]. Proof. exact P_C12.dot_def. Qed.
Theorem C12_length_is_sqrt_dot : Forall P_C12.length_ok [1; 2; 3; 4]. Proof. exact P_C12.length_def. Qed.
Theorem C12_distance_is_length_of_difference : Forall P_C12.distance_ok [1; 2; 3; 4]. Proof. exact P_C12.distance_def. Qed.
Theorem C12_cross_determinant_orthogonal_anticommutative : P_C12.cross_ok. Proof. exact P_C12.cross_def. Qed.
Theorem C12_normalize_1 : P_C12.normalize_ok 1. Proof. exact P_C12.normalize_1. Qed.
Theorem C12_normalize_2 : P_C12.normalize_ok 2. Proof. exact P_C12.normalize_2. Qed.
Theorem C12_normalize_3 : P_C12.normalize_ok 3. Proof. exact P_C12.normalize_3. Qed.
Theorem C12_normalize_4 : P_C12.normalize_ok 4. Proof. exact P_C12.normalize_4. Qed.
Theorem C12_reflect_formula_isometry_involution : Forall P_C12_b.reflect_ok [1; 2; 3; 4]. Proof. exact P_C12_b.reflect_def. Qed.
Theorem C12_reflect_scalar : P_C12_b.s_reflect_ok. Proof. exact P_C12_b.s_reflect_def. Qed.
(* refract: exact zero vector on total internal reflection, GLSL formula otherwise, Snell's law for unit I, N *)
Theorem C12_refract_1 : P_C12_b.refract_ok "refract_1_f32" 1. Proof. exact P_C12_b.refract_1. Qed.
Theorem C12_refract_2 : P_C12_b.refract_ok "refract_2_f32" 2. Proof. exact P_C12_b.refract_2. Qed.
Theorem C12_refract_3 : P_C12_b.refract_ok "refract_3_f32" 3. Proof. exact P_C12_b.refract_3. Qed.
Theorem C12_refract_4 : P_C12_b.refract_ok "refract_4_f32" 4. Proof. exact P_C12_b.refract_4. Qed.
Theorem C12_refract_scalar_tir : P_C12_b.refract_ok "s_refract" 1. Proof. exact P_C12_b.refract_s. Qed.
Theorem C12_faceforward_1 : P_C12_b.faceforward_ok "faceforward_1_f32" 1. Proof. exact P_C12_b.faceforward_1. Qed.
Theorem C12_faceforward_2 : P_C12_b.faceforward_ok "faceforward_2_f32" 2. Proof. exact P_C12_b.faceforward_2. Qed.
Theorem C12_faceforward_3 : P_C12_b.faceforward_ok "faceforward_3_f32" 3. Proof. exact P_C12_b.faceforward_3. Qed.
Theorem C12_faceforward_4 : P_C12_b.faceforward_ok "faceforward_4_f32" 4. Proof. exact P_C12_b.faceforward_4. Qed.
Theorem C12_faceforward_scalar : P_C12_b.faceforward_ok "s_faceforward" 1. Proof. exact P_C12_b.faceforward_s. Qed.
Theorem C12_gtx_length2_distance2 : Forall P_C12_b.len2_ok [1; 2; 3; 4]. Proof. exact P_C12_b.length2_def. Qed.
Theorem C12_gtx_proj_perp : Forall P_C12_b.proj_ok [2; 3; 4]. Proof. exact P_C12_b.proj_def. Qed.
Theorem C12_gtx_mixedProduct : P_C12_b.mixed_ok. Proof. exact P_C12_b.mixed_def. Qed.
(* gtx/vector_angle: angle = acos(clamp(dot, -1, 1)) for vec2/3/4 and the scalar overload; orientedAngle carries the sign of the 2D cross product / of dot(ref, cross(x, y)) *)
Theorem C12_gtx_angle_2 : P_C12_c.angle_ok 2. Proof. exact P_C12_c.angle_2. Qed.
Theorem C12_gtx_angle_3 : P_C12_c.angle_ok 3. Proof. exact P_C12_c.angle_3. Qed.
Theorem C12_gtx_angle_4 : P_C12_c.angle_ok 4. Proof. exact P_C12_c.angle_4. Qed.
Theorem C12_gtx_angle_scalar : P_C12_c.s_angle_ok. Proof. exact P_C12_c.s_angle_def. Qed.
Theorem C12_gtx_orientedAngle_2 : P_C12_c.oriented2_ok. Proof. exact P_C12_c.oriented2_def. Qed.
Theorem C12_gtx_orientedAngle_3 : P_C12_c.oriented3_ok. Proof. exact P_C12_c.oriented3_def. Qed.
(* gtx norms, triangleNormal, orthonormalize, closestPointOnLine *)
Theorem C12_gtx_l1Norm : P_C12_d.l1Norm_ok. Proof. exact P_C12_d.l1Norm_def. Qed.
Theorem C12_gtx_l1Norm_of_difference : P_C12_d.l1Norm2_ok. Proof. exact P_C12_d.l1Norm2_def. Qed.
Theorem C12_gtx_l2Norm : P_C12_d.l2Norm_ok. Proof. exact P_C12_d.l2Norm_def. Qed.
Theorem C12_gtx_l2Norm_of_difference : P_C12_d.l2Norm2_ok. Proof. exact P_C12_d.l2Norm2_def. Qed.
(* gtx orthonormalize(mat3): the tree IS the Gram-Schmidt process on the columns, and that process yields orthonormal columns whenever its three radicands are positive *)
Theorem C12_gtx_orthonormalize_mat3_is_gram_schmidt : forall env, evalT env Gen_C12.t_orthonormalize_m3_f32 = Some (true, P_C12_gs.flat (P_C12_gs.gs env)).
Proof. exact P_C12_gs.gs_tree. Qed.
Theorem C12_gtx_gram_schmidt_is_orthonormal : forall env, (0 < P_C12_gs.rad1 env)%R -> (0 < P_C12_gs.rad2 env)%R -> (0 < P_C12_gs.rad3 env)%R -> P_C12_gs.orthonormal9 (P_C12_gs.flat (P_C12_gs.gs env)).
Proof. exact P_C12_gs.gs_orthonormal. Qed.
Theorem C12_gtx_lMaxNorm : P_C12_d.lMaxNorm_ok. Proof. exact P_C12_d.lMaxNorm_def. Qed.
Theorem C12_gtx_lMaxNorm_of_difference : P_C12_d.lMaxNorm2_ok. Proof. exact P_C12_d.lMaxNorm2_def. Qed.
Theorem C12_gtx_lxNorm : P_C12_d.lxNorm_ok. Proof. exact P_C12_d.lxNorm_def. Qed.
Theorem C12_gtx_lxNorm_of_difference : P_C12_d.lxNorm2_ok. Proof. exact P_C12_d.lxNorm2_def. Qed.
Theorem C12_gtx_triangleNormal_is_normalized_cross : P_C12_d.triangleNormal_ok. Proof. exact P_C12_d.triangleNormal_def. Qed.
Theorem C12_gtx_orthonormalize_formula_and_orthogonality : P_C12_d.orthonormalize_ok. Proof. exact P_C12_d.orthonormalize_def. Qed.
Theorem C12_gtx_closestPointOnLine_3 : P_C12_d.closest3_ok. Proof. exact P_C12_d.closest3_def. Qed.
Theorem C12_gtx_closestPointOnLine_2 : P_C12_d.closest2_ok. Proof. exact P_C12_d.closest2_def. Qed.
Print Assumptions C12_dot_is_sum_of_products.
Print Assumptions C12_normalize_3.
Print Assumptions C12_reflect_formula_isometry_involution.
Print Assumptions C12_refract_3.
Print Assumptions C12_faceforward_4.
Print Assumptions C12_gtx_orientedAngle_3.
Print Assumptions C12_gtx_orthonormalize_formula_and_orthogonality.
