(* C12 (continued): gtx orthonormalize(mat3) is the Gram-Schmidt process on the columns, and its result has orthonormal columns whenever no
   normalisation divides by zero (the three radicands are positive: independent columns). *)
Require Import ZArith List String Bool Reals Lra.
Import ListNotations.
From GLMV Require Import Expr SemR Cat.
From W Require Gen_C12.
Local Open Scope R_scope.
Ltac ev := cbv [map evalT evalR evalRB binR unR cmpR cstR forallb Z.leb Z.ltb Z.compare Z.mul Z.pow Z.pow_pos Pos.iter Pos.mul Z.opp Z.abs].
Definition M (env : renv) (c r : Z) : R := env F32 0%Z (3 * c + r)%Z.
Definition dot3 (a b : R * R * R) : R := let '(a0, a1, a2) := a in let '(b0, b1, b2) := b in a0 * b0 + a1 * b1 + a2 * b2.
Definition scal (k : R) (a : R * R * R) : R * R * R := let '(a0, a1, a2) := a in (a0 * k, a1 * k, a2 * k).
Definition sub3 (a b : R * R * R) : R * R * R := let '(a0, a1, a2) := a in let '(b0, b1, b2) := b in (a0 - b0, a1 - b1, a2 - b2).
Definition add3 (a b : R * R * R) : R * R * R := let '(a0, a1, a2) := a in let '(b0, b1, b2) := b in (a0 + b0, a1 + b1, a2 + b2).
Definition col (env : renv) (c : Z) : R * R * R := (M env c 0, M env c 1, M env c 2).
Definition nrm (a : R * R * R) : R * R * R := scal (1 / sqrt (dot3 a a)) a.
(* the Gram-Schmidt process as the code performs it *)
Definition gs (env : renv) : (R * R * R) * (R * R * R) * (R * R * R) :=
  let r0 := nrm (col env 0) in
  let u1 := sub3 (col env 1) (scal (dot3 r0 (col env 1)) r0) in let r1 := nrm u1 in
  let u2 := sub3 (col env 2) (add3 (scal (dot3 r0 (col env 2)) r0) (scal (dot3 r1 (col env 2)) r1)) in let r2 := nrm u2 in
  (r0, r1, r2).
Definition flat (t : (R * R * R) * (R * R * R) * (R * R * R)) : list R := let '((a0, a1, a2), (b0, b1, b2), (c0, c1, c2)) := t in [a0; a1; a2; b0; b1; b2; c0; c1; c2].
Lemma gs_tree : forall env, evalT env Gen_C12.t_orthonormalize_m3_f32 = Some (true, flat (gs env)).
Proof.
  intros env. unfold Gen_C12.t_orthonormalize_m3_f32, gs, nrm, col, M, flat, scal, sub3, add3, dot3. ev. cbv [Z.mul Z.add Pos.mul Pos.add Pos.succ]. 
  reflexivity.
Qed.
Require Import Nsatz.
Local Open Scope R_scope.
Lemma gs_step2 p0 p1 p2 b0 b1 b2 : p0 * p0 + p1 * p1 + p2 * p2 = 1 ->
  let d := p0 * b0 + p1 * b1 + p2 * b2 in p0 * (b0 - p0 * d) + p1 * (b1 - p1 * d) + p2 * (b2 - p2 * d) = 0.
Proof. intros H. cbv zeta. nsatz. Qed.
Lemma gs_unit u0 u1 u2 k : k * k * (u0 * u0 + u1 * u1 + u2 * u2) = 1 -> (u0 * k) * (u0 * k) + (u1 * k) * (u1 * k) + (u2 * k) * (u2 * k) = 1.
Proof. intros H. nsatz. Qed.
Lemma gs_orth p0 p1 p2 u0 u1 u2 k : p0 * u0 + p1 * u1 + p2 * u2 = 0 -> p0 * (u0 * k) + p1 * (u1 * k) + p2 * (u2 * k) = 0.
Proof. intros H. nsatz. Qed.
Lemma gs_step4 p0 p1 p2 q0 q1 q2 c0 c1 c2 : p0 * p0 + p1 * p1 + p2 * p2 = 1 -> q0 * q0 + q1 * q1 + q2 * q2 = 1 -> p0 * q0 + p1 * q1 + p2 * q2 = 0 ->
  let d0 := p0 * c0 + p1 * c1 + p2 * c2 in let d1 := q0 * c0 + q1 * c1 + q2 * c2 in
  p0 * (c0 - (p0 * d0 + q0 * d1)) + p1 * (c1 - (p1 * d0 + q1 * d1)) + p2 * (c2 - (p2 * d0 + q2 * d1)) = 0 /\
  q0 * (c0 - (p0 * d0 + q0 * d1)) + q1 * (c1 - (p1 * d0 + q1 * d1)) + q2 * (c2 - (p2 * d0 + q2 * d1)) = 0.
Proof. intros H1 H2 H3. cbv zeta. split; nsatz. Qed.
Lemma inv_sqrt_sq A : 0 < A -> (1 / sqrt A) * (1 / sqrt A) * A = 1.
Proof. intros H. pose proof (sqrt_lt_R0 A H). pose proof (sqrt_sqrt A (Rlt_le _ _ H)) as S. transitivity ((sqrt A * sqrt A) * / (sqrt A * sqrt A)); [rewrite S at 1; field; lra | field; lra]. Qed.
(* the three radicands *)
Definition rad1 env := dot3 (col env 0) (col env 0).
Definition u1_ env := let r0 := nrm (col env 0) in sub3 (col env 1) (scal (dot3 r0 (col env 1)) r0).
Definition rad2 env := dot3 (u1_ env) (u1_ env).
Definition u2_ env := let r0 := nrm (col env 0) in let r1 := nrm (u1_ env) in sub3 (col env 2) (add3 (scal (dot3 r0 (col env 2)) r0) (scal (dot3 r1 (col env 2)) r1)).
Definition rad3 env := dot3 (u2_ env) (u2_ env).
Definition orthonormal9 (l : list R) : Prop := match l with
  | [a0; a1; a2; b0; b1; b2; c0; c1; c2] => a0 * a0 + a1 * a1 + a2 * a2 = 1 /\ b0 * b0 + b1 * b1 + b2 * b2 = 1 /\ c0 * c0 + c1 * c1 + c2 * c2 = 1 /\
      a0 * b0 + a1 * b1 + a2 * b2 = 0 /\ a0 * c0 + a1 * c1 + a2 * c2 = 0 /\ b0 * c0 + b1 * c1 + b2 * c2 = 0
  | _ => False end.
Theorem gs_orthonormal env : 0 < rad1 env -> 0 < rad2 env -> 0 < rad3 env -> orthonormal9 (flat (gs env)).
Proof.
  unfold rad1, rad2, rad3, u2_, u1_, gs, nrm, col, M, flat, scal, sub3, add3, dot3, orthonormal9. cbv [Z.mul Z.add Pos.mul Pos.add Pos.succ]. unfold Rdiv. intros H1 H2 H3.
  set (a0 := env F32 0%Z 0%Z) in *. set (a1 := env F32 0%Z 1%Z) in *. set (a2 := env F32 0%Z 2%Z) in *. set (b0 := env F32 0%Z 3%Z) in *. set (b1 := env F32 0%Z 4%Z) in *. set (b2 := env F32 0%Z 5%Z) in *.
  set (c0 := env F32 0%Z 6%Z) in *. set (c1 := env F32 0%Z 7%Z) in *. set (c2 := env F32 0%Z 8%Z) in *.
  set (A1 := a0 * a0 + a1 * a1 + a2 * a2) in *. pose proof (sqrt_lt_R0 A1 H1) as S1p. pose proof (sqrt_sqrt A1 (Rlt_le _ _ H1)) as S1. set (s1 := sqrt A1) in *. set (i1 := / s1) in *. assert (I1 : i1 * s1 = 1) by (unfold i1; apply Rinv_l; lra).
  match type of H2 with 0 < ?A => set (A2 := A) in * end. pose proof (sqrt_lt_R0 A2 H2) as S2p. pose proof (sqrt_sqrt A2 (Rlt_le _ _ H2)) as S2. set (s2 := sqrt A2) in *. set (i2 := / s2) in *. assert (I2 : i2 * s2 = 1) by (unfold i2; apply Rinv_l; lra).
  match type of H3 with 0 < ?A => set (A3 := A) in * end. pose proof (sqrt_lt_R0 A3 H3) as S3p. pose proof (sqrt_sqrt A3 (Rlt_le _ _ H3)) as S3. set (s3 := sqrt A3) in *. set (i3 := / s3) in *. assert (I3 : i3 * s3 = 1) by (unfold i3; apply Rinv_l; lra).
  unfold A3 in S3. unfold A2 in S2, S3. unfold A1 in S1. clearbody i1 i2 i3 s1 s2 s3 a0 a1 a2 b0 b1 b2 c0 c1 c2. clear - S1 I1 S2 I2 S3 I3.
  repeat split; nsatz.
Qed.
