(* C12: geometric functions satisfy the Euclidean identities (R1/R3 on the regenerated traces). *)
Require Import ZArith List String Bool Reals Lra.
Import ListNotations.
From GLMV Require Import Expr SemR Cat Comm Chk SpecLinAlg SpecProj SpecGeom.
From W Require Gen_C12.
Local Open Scope string_scope.
Local Open Scope Z_scope.
Definition cat := Gen_C12.catalogue.
Definition lens := [1; 2; 3; 4].
Ltac evR' := cbv [eqR map evalR evalRB binR unR cmpR cstR Z.leb Z.ltb Z.compare Z.mul Z.pow Z.pow_pos Pos.iter Pos.mul Z.opp Z.abs fst snd].
Ltac norm2 env := repeat match goal with |- context [map (evalR env) ?a] => progress (let a' := eval vm_compute in a in change (map (evalR env) a) with (map (evalR env) a')) end.
Ltac normE env := repeat match goal with |- context [evalR env ?a] => progress (let a' := eval vm_compute in a in change (evalR env a) with (evalR env a')) end.
Ltac forall_lens tac := unfold lens; repeat (first [apply Forall_nil | apply Forall_cons; [tac | ]]).

(* dot = sum of component products (and nothing else is computed) *)
Definition dot_ok (L : Z) : Prop := exists d, outs_of cat (name "dot" [L] "f32") = Some [d] /\ is_sop F32 L d = true /\
  forall env, evalR env d = evalR env (dot_e (vecv 0 L) (vecv 1 L)).
Lemma dot_def : Forall dot_ok lens.
Proof. forall_lens ltac:(unfold dot_ok; eexists; split; [vm_compute; reflexivity | split; [vm_compute; reflexivity | intros env; normE env; evR'; ring]]). Qed.

(* length = sqrt(dot(v,v)) : the result IS a square-root node applied to the sum of squares *)
Definition length_ok (L : Z) : Prop := exists d, outs_of cat (name "length" [L] "f32") = Some [U Sqrt F32 d] /\
  forall env, evalR env d = evalR env (dot_e (vecv 0 L) (vecv 0 L)).
Lemma length_def : Forall length_ok lens.
Proof. forall_lens ltac:(unfold length_ok; eexists; split; [vm_compute; reflexivity | intros env; normE env; evR'; ring]). Qed.
(* distance(a,b) = length(a-b) *)
Definition distance_ok (L : Z) : Prop := exists d, outs_of cat (name "distance" [L] "f32") = Some [U Sqrt F32 d] /\
  forall env, evalR env d = evalR env (dot_e (sub_v (vecv 0 L) (vecv 1 L)) (sub_v (vecv 0 L) (vecv 1 L))).
Lemma distance_def : Forall distance_ok lens.
Proof. forall_lens ltac:(unfold distance_ok; eexists; split; [vm_compute; reflexivity | intros env; normE env; evR'; ring]). Qed.

(* cross: determinant formula, orthogonal to both arguments, anti-commutative *)
Definition swap01 (k : kind) (a i : Z) : expr := V k (if a =? 0 then 1 else if a =? 1 then 0 else a) i.
Definition cross_ok : Prop := exists o, outs_of cat "cross_3_f32" = Some o /\ forall env,
  eqR env o (cross_e (vecv 0 3) (vecv 1 3)) /\ evalR env (dot_e o (vecv 0 3)) = 0%R /\ evalR env (dot_e o (vecv 1 3)) = 0%R /\
  eqR env (map (subst swap01) o) (map eneg o).
Lemma cross_def : cross_ok.
Proof. unfold cross_ok. eexists; split; [vm_compute; reflexivity|]. intros env. repeat split; try (normE env; evR'; ring); unfold eqR; norm2 env; evR'; list_ring. Qed.

(* normalize: the result is v_i * (1 / sqrt d) where d is (real-)equal to v.v; for v <> 0 the factor is
   positive and the result has unit length *)
Definition norm_arg (o : list expr) : option expr :=
  match o with B Mul _ _ (B Div _ _ (U Sqrt _ d)) :: _ => Some d | _ => None end.
Definition normalize_ok (L : Z) : Prop := exists o d, outs_of cat (name "normalize" [L] "f32") = Some o /\ norm_arg o = Some d /\
  list_eqc o (map (fun x => emul x (ediv (ec 1) (U Sqrt F32 d))) (vecv 0 L)) = true /\
  forall env, evalR env d = evalR env (dot_e (vecv 0 L) (vecv 0 L)) /\
    (evalR env d <> 0%R -> (0 < evalR env (ediv (ec 1) (U Sqrt F32 d)))%R /\ evalR env (dot_e o o) = 1%R).
Lemma sumsq_pos1 a : (0 <= a * a)%R. Proof. nra. Qed.
Ltac nonneg := repeat (apply Rplus_le_le_0_compat); apply sumsq_pos1.
Ltac normalize_tac := unfold normalize_ok; eexists; eexists; split; [vm_compute; reflexivity|]; split; [vm_compute; reflexivity|]; split; [vm_compute; reflexivity|];
  intros env; split; [normE env; evR'; ring|]; intros Hd; normE env; evR'; cbv [evalR binR cstR] in Hd;
  match type of Hd with ?d <> _ =>
    assert (Hge : (0 <= d)%R) by nonneg;
    assert (Hpos : (0 < d)%R) by (destruct Hge as [Hlt|Heq]; [exact Hlt | exfalso; apply Hd; symmetry; exact Heq]);
    assert (Hs : (sqrt d * sqrt d = d)%R) by (apply sqrt_sqrt; exact Hge);
    assert (Hsp : (0 < sqrt d)%R) by (apply sqrt_lt_R0; exact Hpos);
    set (s := sqrt d) in *; assert (Hsn : s <> 0%R) by (apply Rgt_not_eq; exact Hsp) end;
  split; [unfold Rdiv; rewrite Rmult_1_l; apply Rinv_0_lt_compat; assumption | ].
Ltac unit_len := match goal with Hs : (?s * ?s)%R = _, Hsn : ?s <> 0%R |- _ = 1%R => transitivity ((s * s) * (/ s * / s))%R; [rewrite Hs; field; exact Hsn | field; exact Hsn] end.
Lemma normalize_1 : normalize_ok 1. Proof. normalize_tac. unit_len. Qed.
Lemma normalize_2 : normalize_ok 2. Proof. normalize_tac. unit_len. Qed.
Lemma normalize_3 : normalize_ok 3. Proof. normalize_tac. unit_len. Qed.
Lemma normalize_4 : normalize_ok 4. Proof. normalize_tac. unit_len. Qed.
