(* C12 (continued): reflect, refract, faceforward, gtx helpers. *)
Require Import ZArith List String Bool Reals Lra.
Import ListNotations.
From GLMV Require Import Expr SemR Cat Comm Chk SpecLinAlg SpecProj SpecGeom.
From W Require Gen_C12.
Require Import Nsatz.
Local Open Scope string_scope.
Local Open Scope Z_scope.
Definition cat := Gen_C12.catalogue.
Definition lens := 1 :: 2 :: 3 :: 4 :: nil.
Ltac evR' := cbv [eqR map evalR evalRB binR unR cmpR cstR Z.leb Z.ltb Z.compare Z.mul Z.pow Z.pow_pos Pos.iter Pos.mul Z.opp Z.abs fst snd].
Ltac norm2 env := repeat match goal with |- context [map (evalR env) ?a] => progress (let a' := eval vm_compute in a in change (map (evalR env) a) with (map (evalR env) a')) end.
Ltac normE env := repeat match goal with |- context [evalR env ?a] => progress (let a' := eval vm_compute in a in change (evalR env a) with (evalR env a')) end.
Ltac normH env H := repeat match type of H with context [evalR env ?a] => progress (let a' := eval vm_compute in a in change (evalR env a) with (evalR env a') in H) end;
  cbv [evalR binR unR cstR Z.leb Z.ltb Z.compare Z.mul Z.pow Z.pow_pos Pos.iter Pos.mul Z.opp Z.abs] in H.
Ltac forall_lens tac := unfold lens; repeat (first [apply Forall_nil | apply Forall_cons; [tac | ]]).
Ltac list_nsatz := repeat (match goal with |- cons _ _ = cons _ _ => apply f_equal2; [ nsatz | ] | |- nil = nil => reflexivity end).

Definition put0 (o : list expr) (k : kind) (a i : Z) : expr := if a =? 0 then nth_e o i else V k a i.
(* reflect(I,N) = I - 2 dot(N,I) N;  for unit N it preserves length and is an involution *)
Definition reflect_ok (L : Z) : Prop := exists o, outs_of cat (name "reflect" (L :: nil) "f32") = Some o /\ forall env,
  eqR env o (reflect_e (vecv 0 L) (vecv 1 L)) /\
  (evalR env (dot_e (vecv 1 L) (vecv 1 L)) = 1%R ->
     evalR env (dot_e o o) = evalR env (dot_e (vecv 0 L) (vecv 0 L)) /\ eqR env (map (subst (put0 o)) o) (vecv 0 L)).
Lemma reflect_def : Forall reflect_ok lens.
Proof. forall_lens ltac:(unfold reflect_ok; eexists; split; [vm_compute; reflexivity|]; intros env; split;
  [unfold eqR; norm2 env; evR'; list_ring | intros Hn; normH env Hn; split; [normE env; evR'; nsatz | unfold eqR; norm2 env; evR'; list_nsatz]]). Qed.
Definition s_reflect_ok : Prop := exists o, outs_of cat "s_reflect" = Some o /\ forall env, eqR env o (reflect_e (vecv 0 1) (vecv 1 1)).
Lemma s_reflect_def : s_reflect_ok.
Proof. unfold s_reflect_ok. eexists; split; [vm_compute; reflexivity|]. intros env. unfold eqR; norm2 env; evR'; list_ring. Qed.

(* refract: the tree is  k >= 0 ? formula : exact zero vector,  k = 1 - eta^2 (1 - dot(N,I)^2),
   formula = eta I - (eta dot(N,I) + sqrt k) N; for unit I, N and k >= 0 it obeys Snell's law:
   |R| = 1,  N.R = -sqrt k,  R - (N.R) N = eta (I - (N.I) N) *)
Definition eta := V F32 2 0.
Definition refract_ok (nm : string) (L : Z) : Prop := exists k o z, lookup nm cat = Some (Br (Cmp CGe F32 k (Cf F32 false 0 0)) (Leaf nil o) (Leaf nil z)) /\
  all_zero z = true /\ Z.of_nat (List.length z) = L /\
  forall env, evalR env k = evalR env (refract_k (vecv 0 L) (vecv 1 L) eta) /\
    eqR env o (refract_e (vecv 0 L) (vecv 1 L) eta (U Sqrt F32 k)) /\
    (evalR env (dot_e (vecv 0 L) (vecv 0 L)) = 1%R -> evalR env (dot_e (vecv 1 L) (vecv 1 L)) = 1%R -> (0 <= evalR env k)%R ->
       evalR env (dot_e o o) = 1%R /\ evalR env (dot_e (vecv 1 L) o) = (- sqrt (evalR env k))%R /\
       eqR env (sub_v o (scale_v (dot_e (vecv 1 L) o) (vecv 1 L))) (scale_v eta (sub_v (vecv 0 L) (scale_v (dot_e (vecv 1 L) (vecv 0 L)) (vecv 1 L))))).
Ltac with_s := match goal with Hk : (0 <= ?kk)%R |- _ => let Hs := fresh "Hs" in pose proof (sqrt_sqrt kk Hk) as Hs; let s := fresh "s" in set (s := sqrt kk) in *; clearbody s; clear Hk end.
Ltac refract_tac := unfold refract_ok; eexists; eexists; eexists; split; [vm_compute; reflexivity|]; split; [vm_compute; reflexivity|]; split; [vm_compute; reflexivity|];
  intros env; split; [normE env; evR'; ring|]; split; [unfold eqR; norm2 env; evR'; list_ring|];
  intros Hi Hn Hk; normH env Hi; normH env Hn; normE env; cbv [evalR binR unR cstR Z.leb Z.ltb Z.compare Z.mul Z.pow Z.pow_pos Pos.iter Pos.mul Z.opp Z.abs] in Hk;
  split; [evR'; with_s; nsatz | split; [evR'; with_s; nsatz | unfold eqR; norm2 env; evR'; with_s; list_nsatz]].
Lemma refract_1 : refract_ok "refract_1_f32" 1. Proof. refract_tac. Qed.
Lemma refract_2 : refract_ok "refract_2_f32" 2. Proof. refract_tac. Qed.
Lemma refract_3 : refract_ok "refract_3_f32" 3. Proof. Time refract_tac. Qed.
Lemma refract_4 : refract_ok "refract_4_f32" 4. Proof. Time refract_tac. Qed.
Lemma refract_s : refract_ok "s_refract" 1. Proof. refract_tac. Qed.

(* faceforward(N, I, Nref) = dot(Nref, I) < 0 ? N : -N  (so -N when the dot product is exactly 0) *)
Definition faceforward_ok (nm : string) (L : Z) : Prop := exists d o1 o2, lookup nm cat = Some (Br (Cmp CLt F32 d (Cf F32 false 0 0)) (Leaf nil o1) (Leaf nil o2)) /\
  list_eqb o1 (vecv 0 L) = true /\ forall env, evalR env d = evalR env (dot_e (vecv 2 L) (vecv 1 L)) /\ eqR env o2 (map eneg (vecv 0 L)).
Ltac ff_tac := unfold faceforward_ok; eexists; eexists; eexists; split; [vm_compute; reflexivity|]; split; [vm_compute; reflexivity|]; intros env; split; [normE env; evR'; ring | unfold eqR; norm2 env; evR'; list_ring].
Lemma faceforward_1 : faceforward_ok "faceforward_1_f32" 1. Proof. ff_tac. Qed.
Lemma faceforward_2 : faceforward_ok "faceforward_2_f32" 2. Proof. ff_tac. Qed.
Lemma faceforward_3 : faceforward_ok "faceforward_3_f32" 3. Proof. ff_tac. Qed.
Lemma faceforward_4 : faceforward_ok "faceforward_4_f32" 4. Proof. ff_tac. Qed.
Lemma faceforward_s : faceforward_ok "s_faceforward" 1. Proof. ff_tac. Qed.

(* gtx: length2 = v.v, distance2 = (a-b).(a-b), proj(x,n) = (x.n / n.n) n, perp = x - proj, mixedProduct = cross(a,b).c *)
Definition len2_ok (L : Z) : Prop := exists d e, outs_of cat (name "length2" (L :: nil) "f32") = Some (d :: nil) /\ outs_of cat (name "distance2" (L :: nil) "f32") = Some (e :: nil) /\
  forall env, evalR env d = evalR env (dot_e (vecv 0 L) (vecv 0 L)) /\ evalR env e = evalR env (dot_e (sub_v (vecv 0 L) (vecv 1 L)) (sub_v (vecv 0 L) (vecv 1 L))).
Lemma length2_def : Forall len2_ok lens.
Proof. forall_lens ltac:(unfold len2_ok; eexists; eexists; split; [vm_compute; reflexivity|]; split; [vm_compute; reflexivity|]; intros env; split; normE env; evR'; ring). Qed.
Definition proj_ok (L : Z) : Prop := exists pj pp, outs_of cat (name "proj" (L :: nil) "f32") = Some pj /\ outs_of cat (name "perp" (L :: nil) "f32") = Some pp /\
  forall env, evalR env (dot_e (vecv 1 L) (vecv 1 L)) <> 0%R ->
    eqR env pj (scale_v (ediv (dot_e (vecv 0 L) (vecv 1 L)) (dot_e (vecv 1 L) (vecv 1 L))) (vecv 1 L)) /\ eqR env pp (sub_v (vecv 0 L) pj) /\
    evalR env (dot_e pp (vecv 1 L)) = 0%R.
Ltac side_h := let H := fresh in intro H; match goal with Hd : ?d <> 0%R |- _ => apply Hd; rewrite <- H; ring end.
Lemma proj_def : Forall proj_ok (2 :: 3 :: 4 :: nil).
Proof. repeat (first [apply Forall_nil | apply Forall_cons; [unfold proj_ok; eexists; eexists; split; [vm_compute; reflexivity|]; split; [vm_compute; reflexivity|]; intros env Hd; normH env Hd;
  split; [unfold eqR; norm2 env; evR'; repeat (match goal with |- cons _ _ = cons _ _ => apply f_equal2; [ field; side_h | ] | |- nil = nil => reflexivity end) |
  split; [unfold eqR; norm2 env; evR'; list_ring | normE env; evR'; field; side_h]] | ]]). Qed.
Definition mixed_ok : Prop := exists m, outs_of cat "mixedProduct_f32" = Some (m :: nil) /\ forall env, evalR env m = evalR env (dot_e (cross_e (vecv 0 3) (vecv 1 3)) (vecv 2 3)).
Lemma mixed_def : mixed_ok. Proof. unfold mixed_ok. eexists; split; [vm_compute; reflexivity|]. intros env. normE env; evR'; ring. Qed.
