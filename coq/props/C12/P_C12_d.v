(* C12 (continued): the remaining gtx helpers.  l1Norm / l2Norm, triangleNormal, orthonormalize, closestPointOnLine. *)
Require Import ZArith List String Bool Reals Lra.
Import ListNotations.
From GLMV Require Import Expr SemR Cat Comm Chk SpecLinAlg SpecProj SpecGeom.
From W Require Gen_C12.
Local Open Scope string_scope.
Local Open Scope Z_scope.
Definition cat := Gen_C12.catalogue.
Definition A (env : renv) (i : Z) : R := env F32 0 i.
Definition Bv (env : renv) (i : Z) : R := env F32 1 i.
Definition Cv' (env : renv) (i : Z) : R := env F32 2 i.
Local Open Scope R_scope.
Ltac ev := cbv [map evalT evalR evalRB binR unR cmpR cstR forallb Z.leb Z.ltb Z.compare Z.mul Z.pow Z.pow_pos Pos.iter Pos.mul Z.opp Z.abs].
Ltac no_dec t := lazymatch t with context [Rle_dec _ _] => fail | context [Rlt_dec _ _] => fail | context [Rcase_abs _] => fail | _ => idtac end.
Ltac split_dec := repeat (match goal with
  | |- context [Rcase_abs ?a] => no_dec a; destruct (Rcase_abs a)
  | |- context [Rle_dec ?a ?b] => no_dec a; no_dec b; destruct (Rle_dec a b)
  | |- context [Rlt_dec ?a ?b] => no_dec a; no_dec b; destruct (Rlt_dec a b)
  end; ev).
Ltac start := eexists; split; [vm_compute; reflexivity|]; intros env; unfold A, Bv, Cv'; ev.
Ltac lists tac := match goal with |- Some (true, ?l) = Some (true, ?r) => apply (f_equal (fun z : list R => Some (true, z))) end; repeat match goal with |- cons _ _ = cons _ _ => apply (f_equal2 (@cons R)); [tac|] | |- nil = nil => reflexivity end.
(* norms *)
Definition l1Norm_ok : Prop := exists t, lookup "l1Norm_3_f32" cat = Some t /\ forall env, evalT env t = Some (true, [Rabs (A env 0) + Rabs (A env 1) + Rabs (A env 2)]).
Lemma l1Norm_def : l1Norm_ok. Proof. unfold l1Norm_ok. start. unfold Rabs. split_dec; try (exfalso; lra); lists lra. Qed.
Definition l1Norm2_ok : Prop := exists t, lookup "l1Norm2_3_f32" cat = Some t /\ forall env, evalT env t = Some (true, [Rabs (Bv env 0 - A env 0) + Rabs (Bv env 1 - A env 1) + Rabs (Bv env 2 - A env 2)]).
Lemma l1Norm2_def : l1Norm2_ok. Proof. unfold l1Norm2_ok. start. unfold Rabs. split_dec; try (exfalso; lra); lists lra. Qed.
Definition l2Norm_ok : Prop := exists t, lookup "l2Norm_3_f32" cat = Some t /\ forall env, evalT env t = Some (true, [sqrt (A env 0 * A env 0 + A env 1 * A env 1 + A env 2 * A env 2)]).
Lemma l2Norm_def : l2Norm_ok. Proof. unfold l2Norm_ok. start. reflexivity. Qed.
Definition l2Norm2_ok : Prop := exists t, lookup "l2Norm2_3_f32" cat = Some t /\ forall env,
  evalT env t = Some (true, [sqrt ((Bv env 0 - A env 0) * (Bv env 0 - A env 0) + (Bv env 1 - A env 1) * (Bv env 1 - A env 1) + (Bv env 2 - A env 2) * (Bv env 2 - A env 2))]).
Lemma l2Norm2_def : l2Norm2_ok. Proof. unfold l2Norm2_ok. start. reflexivity. Qed.
(* v * (1 / sqrt d): numerators and radicands compared as polynomials *)
Ltac nshape := first [ reflexivity | match goal with |- ?a * (1 / sqrt ?b) = ?a' * (1 / sqrt ?b') => (tryif constr_eq b b' then idtac else replace b with b' by ring); (tryif constr_eq a a' then idtac else replace a with a' by ring); reflexivity end ].
(* triangleNormal(p1, p2, p3) = normalize(cross(p1 - p2, p1 - p3)) *)
Definition triangleNormal_ok : Prop := exists t, lookup "triangleNormal_f32" cat = Some t /\ forall env,
  let ux := A env 0 - Bv env 0 in let uy := A env 1 - Bv env 1 in let uz := A env 2 - Bv env 2 in
  let vx := A env 0 - Cv' env 0 in let vy := A env 1 - Cv' env 1 in let vz := A env 2 - Cv' env 2 in
  let cx := uy * vz - vy * uz in let cy := uz * vx - vz * ux in let cz := ux * vy - vx * uy in let d := cx * cx + cy * cy + cz * cz in
  evalT env t = Some (true, [cx * (1 / sqrt d); cy * (1 / sqrt d); cz * (1 / sqrt d)]).
Lemma triangleNormal_def : triangleNormal_ok. Proof. unfold triangleNormal_ok. eexists; split; [vm_compute; reflexivity|]. intros env. cbv zeta. unfold A, Bv, Cv'. ev. lists nshape. Qed.
(* orthonormalize(x, y) = normalize(x - y dot(y, x)); for a unit y the result is orthogonal to y *)
Definition orthonormalize_ok : Prop := exists t, lookup "orthonormalize_f32" cat = Some t /\ forall env,
  let k := Bv env 0 * A env 0 + Bv env 1 * A env 1 + Bv env 2 * A env 2 in
  let nx := A env 0 - Bv env 0 * k in let ny := A env 1 - Bv env 1 * k in let nz := A env 2 - Bv env 2 * k in let d := nx * nx + ny * ny + nz * nz in
  evalT env t = Some (true, [nx * (1 / sqrt d); ny * (1 / sqrt d); nz * (1 / sqrt d)]) /\
  (Bv env 0 * Bv env 0 + Bv env 1 * Bv env 1 + Bv env 2 * Bv env 2 = 1 -> (nx * (1 / sqrt d)) * Bv env 0 + (ny * (1 / sqrt d)) * Bv env 1 + (nz * (1 / sqrt d)) * Bv env 2 = 0).
Lemma orthonormalize_def : orthonormalize_ok.
Proof.
  unfold orthonormalize_ok. eexists; split; [vm_compute; reflexivity|]. intros env. cbv zeta. unfold A, Bv, Cv'. split; [ev; lists nshape|]. intros U.
  set (s := 1 / sqrt _). set (k := env F32 1%Z 0%Z * env F32 0%Z 0%Z + env F32 1%Z 1%Z * env F32 0%Z 1%Z + env F32 1%Z 2%Z * env F32 0%Z 2%Z).
  transitivity (s * (k - (env F32 1%Z 0%Z * env F32 1%Z 0%Z + env F32 1%Z 1%Z * env F32 1%Z 1%Z + env F32 1%Z 2%Z * env F32 1%Z 2%Z) * k)); [unfold k; ring|]. rewrite U. ring.
Qed.
(* closestPointOnLine(p, a, b): with d = |b - a|, dir = (b - a) / d, t = dot(p - a, dir): a when t <= 0, b when t >= d, a + dir t between *)
Definition closest3_ok : Prop := exists t, lookup "closestPointOnLine_3_f32" cat = Some t /\ forall env,
  let d := sqrt ((Cv' env 0 - Bv env 0) * (Cv' env 0 - Bv env 0) + (Cv' env 1 - Bv env 1) * (Cv' env 1 - Bv env 1) + (Cv' env 2 - Bv env 2) * (Cv' env 2 - Bv env 2)) in
  let dx := (Cv' env 0 - Bv env 0) / d in let dy := (Cv' env 1 - Bv env 1) / d in let dz := (Cv' env 2 - Bv env 2) / d in
  let tt := (A env 0 - Bv env 0) * dx + (A env 1 - Bv env 1) * dy + (A env 2 - Bv env 2) * dz in
  evalT env t = Some (true, if Rle_dec tt 0 then [Bv env 0; Bv env 1; Bv env 2] else if Rle_dec d tt then [Cv' env 0; Cv' env 1; Cv' env 2]
                            else [Bv env 0 + dx * tt; Bv env 1 + dy * tt; Bv env 2 + dz * tt]).
Lemma closest3_def : closest3_ok.
Proof. unfold closest3_ok. eexists; split; [vm_compute; reflexivity|]. intros env. cbv zeta. unfold A, Bv, Cv'. ev. split_dec; try reflexivity; try (exfalso; lra). Qed.
Definition closest2_ok : Prop := exists t, lookup "closestPointOnLine_2_f32" cat = Some t /\ forall env,
  let d := sqrt ((Cv' env 0 - Bv env 0) * (Cv' env 0 - Bv env 0) + (Cv' env 1 - Bv env 1) * (Cv' env 1 - Bv env 1)) in
  let dx := (Cv' env 0 - Bv env 0) / d in let dy := (Cv' env 1 - Bv env 1) / d in
  let tt := (A env 0 - Bv env 0) * dx + (A env 1 - Bv env 1) * dy in
  evalT env t = Some (true, if Rle_dec tt 0 then [Bv env 0; Bv env 1] else if Rle_dec d tt then [Cv' env 0; Cv' env 1] else [Bv env 0 + dx * tt; Bv env 1 + dy * tt]).
Lemma closest2_def : closest2_ok.
Proof. unfold closest2_ok. eexists; split; [vm_compute; reflexivity|]. intros env. cbv zeta. unfold A, Bv, Cv'. ev. split_dec; try reflexivity; try (exfalso; lra). Qed.
(* lMaxNorm = the largest absolute component (difference); lxNorm(v, 3) = (|x|^3 + |y|^3 + |z|^3)^(1/3) *)
Definition lMaxNorm_ok : Prop := exists t, lookup "lMaxNorm_3_f32" cat = Some t /\ forall env, evalT env t = Some (true, [Rmax (Rmax (Rabs (A env 0)) (Rabs (A env 1))) (Rabs (A env 2))]).
Lemma lMaxNorm_def : lMaxNorm_ok. Proof. unfold lMaxNorm_ok. start. unfold Rmax, Rabs. split_dec; try (exfalso; lra); lists lra. Qed.
Definition lMaxNorm2_ok : Prop := exists t, lookup "lMaxNorm2_3_f32" cat = Some t /\ forall env,
  evalT env t = Some (true, [Rmax (Rmax (Rabs (Bv env 0 - A env 0)) (Rabs (Bv env 1 - A env 1))) (Rabs (Bv env 2 - A env 2))]).
Lemma lMaxNorm2_def : lMaxNorm2_ok. Proof. unfold lMaxNorm2_ok. start. unfold Rmax, Rabs. split_dec; try (exfalso; lra); lists lra. Qed.
Definition lxNorm_ok : Prop := exists t, lookup "lxNorm_3_f32" cat = Some t /\ forall env,
  evalT env t = Some (true, [Rpower (Rpower (Rabs (A env 0)) 3 + Rpower (Rabs (A env 1)) 3 + Rpower (Rabs (A env 2)) 3) (1 / 3)]).
Lemma lxNorm_def : lxNorm_ok. Proof. unfold lxNorm_ok. start. unfold Rabs. split_dec; try (exfalso; lra); lists ltac:(first [reflexivity | (repeat f_equal; lra)]). Qed.
Definition lxNorm2_ok : Prop := exists t, lookup "lxNorm2_3_f32" cat = Some t /\ forall env,
  evalT env t = Some (true, [Rpower (Rpower (Rabs (Bv env 0 - A env 0)) 3 + Rpower (Rabs (Bv env 1 - A env 1)) 3 + Rpower (Rabs (Bv env 2 - A env 2)) 3) (1 / 3)]).
Lemma lxNorm2_def : lxNorm2_ok. Proof. unfold lxNorm2_ok. start. unfold Rabs. split_dec; try (exfalso; lra); lists ltac:(first [reflexivity | (repeat f_equal; lra)]). Qed.
