(* C12 (continued): gtx/vector_angle.  angle(x, y) = acos(clamp(dot(x, y), -1, 1)): the clamp is part of the definition (the dot
   product of two unit vectors can exceed 1 by a rounding error, and acos is then undefined); orientedAngle gives it the sign
   of the 2D cross product / of dot(ref, cross(x, y)). *)
Require Import ZArith List String Bool Reals Lra.
Import ListNotations.
From GLMV Require Import Expr SemR Cat Comm Chk SpecLinAlg SpecProj SpecGeom.
From W Require Gen_C12.
Local Open Scope string_scope.
Local Open Scope Z_scope.
Definition cat := Gen_C12.catalogue.
Definition clamp11 (d : R) : R := Rmin (Rmax d (-1)) 1.
Ltac ev := cbv [map evalT evalR evalRB binR unR cmpR cstR forallb Z.leb Z.ltb Z.compare Z.mul Z.pow Z.pow_pos Pos.iter Pos.mul Z.opp Z.abs].
Ltac no_dec t := lazymatch t with context [Rle_dec _ _] => fail | context [Rlt_dec _ _] => fail | _ => idtac end.
Ltac split_dec := repeat (match goal with
  | |- context [Rle_dec ?a ?b] => no_dec a; no_dec b; destruct (Rle_dec a b)
  | |- context [Rlt_dec ?a ?b] => no_dec a; no_dec b; destruct (Rlt_dec a b)
  end; ev).
Ltac angle_tac := intros env; ev; unfold clamp11, Rmin, Rmax; split_dec; try reflexivity; try (exfalso; lra);
  repeat match goal with |- Some (true, [?f ?a]) = Some (true, [?f ?b]) => replace a with b by lra; reflexivity | |- Some (true, [- ?f ?a]) = Some (true, [- ?f ?b]) => replace a with b by lra; reflexivity end.
Definition dotR (env : renv) (L : Z) : R := evalR env (dot_e (vecv 0 L) (vecv 1 L)).
Definition angle_ok (L : Z) : Prop := exists t, lookup (name "angle" [L] "f32") cat = Some t /\
  forall env, evalT env t = Some (true, [acos (clamp11 (dotR env L))]).
Lemma angle_2 : angle_ok 2. Proof. unfold angle_ok. eexists; split; [vm_compute; reflexivity|]. unfold dotR. intros env. let d := eval vm_compute in (dot_e (vecv 0 2) (vecv 1 2)) in change (dot_e (vecv 0 2) (vecv 1 2)) with d. revert env. angle_tac. Qed.
Lemma angle_3 : angle_ok 3. Proof. unfold angle_ok. eexists; split; [vm_compute; reflexivity|]. unfold dotR. intros env. let d := eval vm_compute in (dot_e (vecv 0 3) (vecv 1 3)) in change (dot_e (vecv 0 3) (vecv 1 3)) with d. revert env. angle_tac. Qed.
Lemma angle_4 : angle_ok 4. Proof. unfold angle_ok. eexists; split; [vm_compute; reflexivity|]. unfold dotR. intros env. let d := eval vm_compute in (dot_e (vecv 0 4) (vecv 1 4)) in change (dot_e (vecv 0 4) (vecv 1 4)) with d. revert env. angle_tac. Qed.
Definition X (env : renv) (i : Z) : R := env F32 0 i.
Definition Y (env : renv) (i : Z) : R := env F32 1 i.
Definition Rf (env : renv) (i : Z) : R := env F32 2 i.
Local Open Scope R_scope.
Ltac angle_tac' := intros env; unfold X, Y, Rf; ev; unfold clamp11, Rmin, Rmax; split_dec; try reflexivity; try (exfalso; lra);
  repeat match goal with |- Some (true, [?f ?a]) = Some (true, [?f ?b]) => replace a with b by lra; reflexivity | |- Some (true, [- ?f ?a]) = Some (true, [- ?f ?b]) => replace a with b by lra; reflexivity end.
Definition s_angle_ok : Prop := exists t, lookup "s_angle" cat = Some t /\ forall env, evalT env t = Some (true, [acos (clamp11 (X env 0 * Y env 0))]).
Lemma s_angle_def : s_angle_ok. Proof. unfold s_angle_ok. eexists; split; [vm_compute; reflexivity|]. angle_tac'. Qed.
(* orientedAngle(x, y) in 2D: +angle when x.x y.y - y.x x.y > 0, else -angle *)
Definition oriented2_ok : Prop := exists t, lookup "orientedAngle_2_f32" cat = Some t /\ forall env,
  let a := acos (clamp11 (X env 0 * Y env 0 + X env 1 * Y env 1)) in
  evalT env t = Some (true, [if Rlt_dec 0 (X env 0 * Y env 1 - Y env 0 * X env 1) then a else - a]).
Lemma oriented2_def : oriented2_ok. Proof. unfold oriented2_ok. eexists; split; [vm_compute; reflexivity|]. cbv zeta. angle_tac'. Qed.
(* orientedAngle(x, y, ref) in 3D: -angle when dot(ref, cross(x, y)) < 0, else +angle *)
Definition oriented3_ok : Prop := exists t, lookup "orientedAngle_3_f32" cat = Some t /\ forall env,
  let a := acos (clamp11 (X env 0 * Y env 0 + X env 1 * Y env 1 + X env 2 * Y env 2)) in
  let m := Rf env 0 * (X env 1 * Y env 2 - Y env 1 * X env 2) + Rf env 1 * (X env 2 * Y env 0 - Y env 2 * X env 0) + Rf env 2 * (X env 0 * Y env 1 - Y env 0 * X env 1) in
  evalT env t = Some (true, [if Rlt_dec m 0 then - a else a]).
Lemma oriented3_def : oriented3_ok.
Proof. unfold oriented3_ok. eexists; split; [vm_compute; reflexivity|]. cbv zeta. angle_tac'. Qed.
