(* C03 proof tactics: component-wise comparison of two decision trees in the real semantics, and the facts about the
   SSE2 rounding kernel  r = copysign(trunc(|x| + (1/2 - 2^-25)), x). *)
Require Import ZArith List String Bool Reals Lra Lia.
From Flocq Require Import Core.Raux Core.Generic_fmt.
Import ListNotations.
From GLMV Require Import Expr SemR Cat Comm Lift.
From W Require Import A_C03_defs.
Local Open Scope R_scope.

Lemma in_zseq n i : (0 <= i < Z.of_nat n)%Z -> In i (zseq (Z.of_nat n)).
Proof. intros H. unfold zseq. apply in_map_iff. exists (Z.to_nat i). split; [lia|]. apply in_seq. lia. Qed.
Lemma lanes_forall (P : Z -> Prop) n : Forall P (zseq (Z.of_nat n)) -> forall i, (0 <= i < Z.of_nat n)%Z -> P i.
Proof. intros H i Hi. rewrite Forall_forall in H. apply H, in_zseq, Hi. Qed.
Ltac ev := cbv [evalT1 leafR evalR evalRB binR unR cmpR cstR Z.leb Z.compare Z.mul Z.pow Z.pow_pos Pos.iter Pos.mul Pos.add Pos.succ Z.opp Z.eqb Pos.eqb kind_eqb is_float Expr.is_int andb negb orb].
Ltac no_dec t := lazymatch t with context [Rle_dec _ _] => fail | context [Rlt_dec _ _] => fail | context [Rcase_abs _] => fail | context [Req_EM_T _ _] => fail | _ => idtac end.
Ltac split_dec := repeat (match goal with
  | |- context [Rcase_abs ?a] => no_dec a; destruct (Rcase_abs a)
  | |- context [Rle_dec ?a ?b] => no_dec a; no_dec b; destruct (Rle_dec a b)
  | |- context [Rlt_dec ?a ?b] => no_dec a; no_dec b; destruct (Rlt_dec a b)
  | |- context [Req_EM_T ?a ?b] => no_dec a; no_dec b; destruct (Req_EM_T a b)
  end; ev).
(* one component of each tree, branches that do not influence it merged *)
Ltac lane_trees env := unfold comp_val;
  match goal with |- evalT1 env ?a = evalT1 env ?b => rewrite <- (simp_sound env a), <- (simp_sound env b);
    let a' := eval vm_compute in (simp a) in let b' := eval vm_compute in (simp b) in
    replace (simp a) with a' by (vm_compute; reflexivity); replace (simp b) with b' by (vm_compute; reflexivity) end.
(* arguments of sqrt and of 1/x that are equal as polynomials are made syntactically equal *)
Ltac unify_atoms := repeat match goal with
  | |- ?L = ?R => match L with context [sqrt ?a] => match R with context [sqrt ?b] => tryif constr_eq a b then fail else (replace a with b by ring) end end
  | |- ?L = ?R => match L with context [/ ?a] => match R with context [/ ?b] => tryif constr_eq a b then fail else (replace a with b by ring) end end
  end.
Ltac norm_hyps := repeat match goal with H : ?T |- _ => match T with _ < _ => idtac | _ <= _ => idtac | ~ _ => idtac end; progress ring_simplify in H end.
Ltac quot_atoms := repeat match goal with |- context [?a * / ?b] => let q := fresh "q" in set (q := a * / b) in * end.
Ltac fin := try reflexivity; try (exfalso; lra); try (f_equal; lra); try (f_equal; ring); try (f_equal; nra); try (unify_atoms; f_equal; ring); try (exfalso; norm_hyps; lra); try (quot_atoms; f_equal; nra).
Ltac lanes env := apply lanes_forall; cbv [zseq Z.of_nat Z.to_nat Pos.to_nat Pos.iter_op Nat.add seq map Pos.of_succ_nat Pos.succ]; repeat constructor; lane_trees env; ev.
Ltac comp_tac := split; [vm_compute; reflexivity|]; split; [vm_compute; reflexivity|]; intros env _; lanes env; unfold Rmin, Rmax, Rabs, Rdiv; unify_atoms; split_dec; fin.
(* a catalogue entry from a comparison lemma *)
Ltac entry H := eexists _, _; split; [vm_compute; reflexivity|]; split; [vm_compute; reflexivity|]; split; [vm_compute; lia|]; exact H.

(* ---- the rounding kernel *)
Definition cc : R := cstR false 16777215 (-25).
Lemma cc_val : cc = 16777215 / 33554432. Proof. reflexivity. Qed.
Lemma cc_bounds : 0 < cc < 1. Proof. rewrite cc_val. split; lra. Qed.
Lemma trunc_facts a : 0 <= a -> IZR (Ztrunc (a + cc)) <= a + cc < IZR (Ztrunc (a + cc)) + 1 /\ 0 <= IZR (Ztrunc (a + cc)).
Proof.
  intros Ha. pose proof cc_bounds as Hc. assert (H0 : 0 <= a + cc) by lra. rewrite (Ztrunc_floor _ H0).
  pose proof (Zfloor_lb (a + cc)). pose proof (Zfloor_ub (a + cc)). repeat split; try lra.
  apply IZR_le. apply Zfloor_lub. simpl. lra.
Qed.
Ltac push_IZR := repeat (rewrite ?minus_IZR, ?plus_IZR, ?opp_IZR).
Ltac floor_close T := first
  [ rewrite (Zfloor_imp (T - 1)); [push_IZR; lra|push_IZR; lra] | rewrite (Zfloor_imp T); [push_IZR; lra|push_IZR; lra]
  | rewrite (Zfloor_imp (- T - 1)); [push_IZR; lra|push_IZR; lra] | rewrite (Zfloor_imp (- T)); [push_IZR; lra|push_IZR; lra] ].
Ltac ceil_close T := first
  [ rewrite (Zceil_imp (T + 1)); [push_IZR; lra|push_IZR; lra] | rewrite (Zceil_imp T); [push_IZR; lra|push_IZR; lra]
  | rewrite (Zceil_imp (- T + 1)); [push_IZR; lra|push_IZR; lra] | rewrite (Zceil_imp (- T)); [push_IZR; lra|push_IZR; lra] ].
Ltac kernel_facts := match goal with |- context [Ztrunc (Rabs ?x + ?c)] =>
    change c with cc; let T := fresh "T" in let HT := fresh "HT" in let HT0 := fresh "HT0" in
    pose proof (trunc_facts (Rabs x) (Rabs_pos x)) as HT; set (T := Ztrunc (Rabs x + cc)) in *; destruct HT as [HT HT0];
    rewrite ?(Rabs_pos_eq (IZR T) HT0); pose proof cc_bounds end.
Ltac abs_cases x := rewrite ?(Rabs_Rabsolu x) in *; let Hx := fresh "Hx" in destruct (Rle_dec 0 x) as [Hx|Hx]; [rewrite ?(Rabs_pos_eq x Hx) in * | rewrite ?(Rabs_left x) in * by lra].
Ltac big_case HI := let z := fresh "z" in let Hz := fresh "Hz" in destruct HI as [z Hz]; [change (cstR false 1 23) with 8388608; lra|]; rewrite Hz in *; rewrite ?Zfloor_IZR, ?Zceil_IZR; f_equal; lra.
(* round half away from zero, off the ties *)
Lemma ZnearestA_imp x n : Rabs (x - IZR n) < / 2 -> ZnearestA x = n.
Proof. apply Znearest_imp. Qed.

(* ---- entry-specific tactics (SSE2 rounding kernels, lowp approximations) *)
Ltac start D := split; [vm_compute; reflexivity|]; split; [vm_compute; reflexivity|]; let env := fresh "env" in let HD := fresh "HD" in intros env HD; unfold D in HD; lanes env.
Ltac lane_x := match goal with HD : forall i : Z, _ |- context [?e F32 0%Z ?i] => let HI := fresh "HI" in pose proof (HD i) as HI; let x := fresh "x" in set (x := e F32 0%Z i) in * end.
Ltac the_T tac := match goal with T := _ : Z |- _ => tac T end.
Ltac the_x tac := match goal with x := _ : R |- _ => tac x end.
Ltac close_floor := match goal with
  | |- Some ?a = Some (IZR (Zfloor ?x)) => f_equal; symmetry; the_T floor_close
  | |- Some ?a = Some (?x - IZR (Zfloor ?x)) => f_equal; the_T ltac:(fun T => first
      [ rewrite (Zfloor_imp (T - 1) x); [push_IZR; lra|push_IZR; lra] | rewrite (Zfloor_imp T x); [push_IZR; lra|push_IZR; lra]
      | rewrite (Zfloor_imp (- T - 1) x); [push_IZR; lra|push_IZR; lra] | rewrite (Zfloor_imp (- T) x); [push_IZR; lra|push_IZR; lra] ])
  | |- Some ?a = Some (IZR (Zceil ?x)) => f_equal; symmetry; the_T ceil_close
  end.
Ltac floor_tac := start D_big; lane_x; unfold big_int in *; kernel_facts; the_x abs_cases; split_dec; try (exfalso; lra);
  try close_floor; try (match goal with HI : _ -> integral _ |- _ => big_case HI end).
Ltac lane_q := match goal with HD : forall i : Z, _ |- context [Rabs (?a / ?b)] => match a with ?e F32 0%Z ?i => let HI := fresh "HI" in pose proof (HD i) as HI; let q := fresh "q" in set (q := a / b) in * end end.
Ltac close_mod := match goal with |- Some (?a - ?b * ?r) = Some (?a - ?b * IZR (Zfloor ?q)) => f_equal; f_equal; f_equal; symmetry; the_T floor_close end.
Ltac mod_tac D := start D; lane_q; change (cstR false 1 23) with 8388608 in *; kernel_facts; the_x abs_cases; split_dec; try (exfalso; lra); close_mod.
Ltac near T x := let HOT := fresh "HOT" in match goal with HO : off_tie x |- _ => pose proof (HO T) as HOT; clear HO end.
Ltac close_round := match goal with
  | HI : ?A -> integral ?x |- Some ?r = Some (IZR (Znearest ?c ?x)) => let z := fresh "z" in let Hz := fresh "Hz" in let HA := fresh "HA" in assert (HA : A) by lra; destruct (HI HA) as [z Hz]; rewrite Hz in *; rewrite (Znearest_imp c (IZR z) z) by (replace (IZR z - IZR z) with 0 by ring; rewrite Rabs_R0; lra); f_equal; lra
  | |- Some ?r = Some (IZR (Znearest ?c ?x)) => f_equal; symmetry;
      the_T ltac:(fun T => first [ apply f_equal; apply (Znearest_imp c x T) | replace (- IZR T) with (IZR (- T)) by (rewrite opp_IZR; reflexivity); apply f_equal; apply (Znearest_imp c x (- T)); rewrite opp_IZR ]);
      apply Rabs_def1; lra
  end.
Ltac tie_bound := match goal with HOT : ~ (?a <= ?x < ?b) |- _ => assert (x < a) by (destruct (Rlt_dec x a); [assumption|exfalso; apply HOT; lra]) end.
Ltac round_tac := start D_round; lane_x; unfold big_int in *; match goal with HI : _ /\ _ |- _ => destruct HI as [HI HO] end; kernel_facts; the_x ltac:(fun x => the_T ltac:(fun T => near T x)); pose proof cc_val;
  change (cstR false 1 23) with 8388608 in *; the_x abs_cases; tie_bound; split_dec; try (exfalso; lra); close_round.
Lemma rsqrt_mul x : 0 <= x -> / sqrt x * x = sqrt x.
Proof.
  intros [Hx|Hx].
  - pose proof (sqrt_lt_R0 x Hx) as Hs. rewrite <- (sqrt_sqrt x) at 2 by lra. field. lra.
  - subst x. rewrite sqrt_0. ring.
Qed.
Ltac lowp_tac := start D_nonneg; lane_x; unfold Rdiv; match goal with HI : 0 <= ?x |- _ => rewrite ?(rsqrt_mul x HI) end; reflexivity.
