(* C03, integer entries (aligned ivec4 / uvec4 / ivec3): the same component-wise comparison as A_C03_defs, in the wrap-around
   two's-complement semantics SemZ (strict = false: what the instructions and the generic code compute on the hardware).
   None = an operation that has no value (division by zero, shift count outside the width): both sides must then agree on that
   too.  `simp` (Lift.v) merges branches that do not influence a component; it preserves the meaning when every branch
   condition is total (no division / variable shift inside a condition), which `condsok` checks. *)
Require Import ZArith List String Bool Lia.
Import ListNotations.
From GLMV Require Import Expr SemZ Cat Comm Lift.
From W Require Import A_C03_defs.
Local Open Scope Z_scope.

Definition leafZ (env : zenv) (e : expr) : option Z :=
  if is_boolexpr e then obind (evalZB false env e) (fun b : bool => Some (if b then 1 else 0)) else evalZ false env e.
Fixpoint evalT1Z (env : zenv) (t : tree) : option Z :=
  match t with
  | Leaf _ [e] => leafZ env e
  | Br c a b => obind (evalZB false env c) (fun v : bool => if v then evalT1Z env a else evalT1Z env b)
  | _ => None
  end.
Definition comp_valZ (env : zenv) (t : tree) (i : Z) : option Z := evalT1Z env (proj i t).
Definition comp_eqZ (n : nat) (s p : tree) : Prop :=
  wf n s = true /\ wf n p = true /\ forall env i, 0 <= i < Z.of_nat n -> comp_valZ env s i = comp_valZ env p i.
Lemma comp_eqZ_trans n a b c : comp_eqZ n a b -> comp_eqZ n b c -> comp_eqZ n a c.
Proof. intros (Wa & Wb & H1) (_ & Wc & H2). split; [exact Wa|]. split; [exact Wc|]. intros env i Hi. rewrite (H1 env i Hi). apply H2, Hi. Qed.

(* ---- identical trees (up to the operand order of + * & | ^) *)
Lemma expr_eqc_leafZ env a b : expr_eqc a b = true -> leafZ env a = leafZ env b.
Proof.
  intros H. pose proof (eqc_sound_Z false env a b H) as [HZ HB]. unfold leafZ.
  assert (E : is_boolexpr a = is_boolexpr b).
  { destruct a, b; cbn [expr_eqc] in H; try discriminate; try reflexivity.
    apply andb_prop in H as [Hk _]. apply kind_eqb_eq in Hk. subst. reflexivity. }
  rewrite E, HZ, HB. reflexivity.
Qed.
Lemma tree_eqc_compZ env i : forall a b, tree_eqc a b = true -> comp_valZ env a i = comp_valZ env b i.
Proof.
  unfold comp_valZ. induction a as [p o|c a IHa a' IHa'|w]; destruct b as [p' o'|c' b b'|w']; cbn [tree_eqc proj evalT1Z]; intros H; try discriminate.
  - apply andb_prop in H as [_ H]. apply expr_eqc_leafZ. unfold nth_e. apply list_eqc_nth, H.
  - apply andb_prop in H as [H H3]. apply andb_prop in H as [H1 H2]. rewrite (proj2 (eqc_sound_Z false env _ _ H1)), (IHa _ H2), (IHa' _ H3). reflexivity.
Qed.
Definition auto_eqZ (n : nat) (s p : tree) : bool := wf n s && wf n p && tree_eqc s p.
Lemma auto_eqZ_sound n s p : auto_eqZ n s p = true -> comp_eqZ n s p.
Proof.
  unfold auto_eqZ. intros H. apply andb_prop in H as [H H3]. apply andb_prop in H as [H1 H2]. split; [exact H1|]. split; [exact H2|].
  intros env i _. apply tree_eqc_compZ, H3.
Qed.

(* ---- total conditions, and soundness of simp for them *)
Definition tot_un (o : unop) := match o with Neg | BNot | FAbs => true | _ => false end.
Definition tot_bin (o : binop) := match o with Add | Sub | Mul | BAnd | BOr | BXor => true | _ => false end.
Fixpoint totalE (e : expr) : bool :=
  match e with
  | V k _ _ => is_int k
  | Cz _ _ => true
  | U o k x => is_int k && tot_un o && totalE x
  | B o k x y => is_int k && tot_bin o && totalE x && totalE y
  | Cv d s x => is_int d && negb (kind_eqb s KB) && is_int s && totalE x
  | _ => false
  end.
Fixpoint totalB (e : expr) : bool :=
  match e with
  | Cmp _ k x y => is_int k && totalE x && totalE y
  | LNot x => totalB x
  | LAnd x y | LOr x y => totalB x && totalB y
  | Cz KB _ => true
  | _ => false
  end.
Lemma totalE_some env : forall e, totalE e = true -> exists z, evalZ false env e = Some z.
Proof.
  induction e; cbn [totalE evalZ]; intros H; try discriminate.
  - rewrite H. eexists; reflexivity.
  - eexists; reflexivity.
  - apply andb_prop in H as [H Hx]. apply andb_prop in H as [Hk Ho]. rewrite Hk. destruct (IHe Hx) as [z ->]. cbn [obind].
    destruct o; try discriminate; cbn [unZ arith andb]; eexists; reflexivity.
  - apply andb_prop in H as [H Hy]. apply andb_prop in H as [H Hx]. apply andb_prop in H as [Hk Ho]. rewrite Hk.
    destruct (IHe1 Hx) as [a ->]. destruct (IHe2 Hy) as [b ->]. cbn [obind].
    destruct o; try discriminate; cbn [binZ arith andb]; eexists; reflexivity.
  - apply andb_prop in H as [H Hx]. apply andb_prop in H as [H Hs]. apply andb_prop in H as [Hd Hnb]. rewrite Hd.
    apply negb_true_iff in Hnb. rewrite Hnb, Hs. destruct (IHe Hx) as [a ->]. eexists; reflexivity.
Qed.
Lemma totalB_some env : forall e, totalB e = true -> exists b, evalZB false env e = Some b.
Proof.
  induction e; cbn [totalB evalZB]; intros H; try discriminate.
  - destruct k; try discriminate. eexists; reflexivity.
  - apply andb_prop in H as [H Hy]. apply andb_prop in H as [Hk Hx]. rewrite Hk.
    destruct (totalE_some env _ Hx) as [a ->]. destruct (totalE_some env _ Hy) as [b ->]. eexists; reflexivity.
  - destruct (IHe H) as [b ->]. eexists; reflexivity.
  - apply andb_prop in H as [H1 H2]. destruct (IHe1 H1) as [a ->]. destruct (IHe2 H2) as [b ->]. eexists; reflexivity.
  - apply andb_prop in H as [H1 H2]. destruct (IHe1 H1) as [a ->]. destruct (IHe2 H2) as [b ->]. eexists; reflexivity.
Qed.
Fixpoint condsok (t : tree) : bool := match t with Br c a b => totalB c && condsok a && condsok b | _ => true end.
Lemma leafZ_boolexpr env c : is_boolexpr c = true -> leafZ env c = obind (evalZB false env c) (fun b : bool => Some (if b then 1 else 0)).
Proof. unfold leafZ. intros ->. reflexivity. Qed.
Lemma mkbr_soundZ env c a b : totalB c = true ->
  evalT1Z env (mkbr c a b) = obind (evalZB false env c) (fun v : bool => if v then evalT1Z env a else evalT1Z env b).
Proof.
  intros Hc. destruct (totalB_some env c Hc) as [v Hv]. rewrite Hv. cbn [obind]. unfold mkbr. destruct (tree_eqb a b) eqn:E.
  - apply tree_eqb_eq in E. subst. destruct v; reflexivity.
  - destruct a as [pa oa| |]; try (cbn [evalT1Z]; rewrite Hv; reflexivity). destruct pa; [|destruct b; cbn [evalT1Z]; rewrite Hv; reflexivity].
    destruct b as [pb ob| |]; try (cbn [evalT1Z]; rewrite Hv; reflexivity). destruct pb; try (cbn [evalT1Z]; rewrite Hv; reflexivity).
    destruct (is_boolexpr c && is_true oa && is_false ob) eqn:T1.
    + apply andb_prop in T1. destruct T1 as [T1 T2]. apply andb_prop in T1. destruct T1 as [T0 T1]. apply is_true_inv in T1. apply is_false_inv in T2. subst.
      cbn [evalT1Z]. rewrite (leafZ_boolexpr env c T0), Hv. destruct v; reflexivity.
    + destruct (is_false oa && is_true ob) eqn:T2; [|cbn [evalT1Z]; rewrite Hv; reflexivity].
      apply andb_prop in T2. destruct T2 as [T2 T3]. apply is_false_inv in T2. apply is_true_inv in T3. subst.
      cbn [evalT1Z]. unfold leafZ. cbn [is_boolexpr evalZB]. rewrite Hv. destruct v; reflexivity.
Qed.
Lemma simp_soundZ env : forall t, condsok t = true -> evalT1Z env (simp t) = evalT1Z env t.
Proof.
  induction t as [p o | c a IHa b IHb | w]; try reflexivity. cbn [condsok simp evalT1Z]. intros H.
  apply andb_prop in H as [H Hb]. apply andb_prop in H as [Hc Ha]. rewrite (mkbr_soundZ env c _ _ Hc), (IHa Ha), (IHb Hb). reflexivity.
Qed.
Lemma condsok_proj i : forall t, condsok (proj i t) = condsok t.
Proof. induction t as [p o|c a IHa b IHb|w]; cbn; try reflexivity. rewrite IHa, IHb. reflexivity. Qed.

(* ---- catalogue entries *)
Definition entry_autoZ (cs cp : cat) (nm : string) : bool :=
  match lookup nm cs, lookup nm cp with Some s, Some p => auto_eqZ (nouts p) s p && Nat.ltb 0 (nouts p) | _, _ => false end.
Definition entry_okZ (cs cp : cat) (nm : string) : Prop :=
  exists s p, lookup nm cs = Some s /\ lookup nm cp = Some p /\ (0 < nouts p)%nat /\ comp_eqZ (nouts p) s p.
Lemma entry_okZ_auto cs cp nm : entry_autoZ cs cp nm = true -> entry_okZ cs cp nm.
Proof.
  unfold entry_autoZ. destruct (lookup nm cs) as [s|] eqn:Hs; [|discriminate]. destruct (lookup nm cp) as [p|] eqn:Hp; [|discriminate]. intros H.
  apply andb_prop in H as [H Hn]. exists s, p. split; [exact Hs|]. split; [exact Hp|]. split; [apply Nat.ltb_lt, Hn|]. apply auto_eqZ_sound, H.
Qed.
Lemma entry_okZ_trans a b c nm : entry_okZ a b nm -> entry_okZ b c nm -> entry_okZ a c nm.
Proof.
  intros (s & p & Hs & Hp & Hn & He) (s' & q & Hs' & Hq & Hn' & He'). rewrite Hp in Hs'. injection Hs' as <-.
  exists s, q. split; [exact Hs|]. split; [exact Hq|]. split; [exact Hn'|].
  assert (E : nouts p = nouts q). { destruct He' as (W & _ & _). apply wf_nouts, W. }
  rewrite <- E. eapply comp_eqZ_trans; [exact He|]. rewrite E. exact He'.
Qed.
(* the relation of A_C03_defs for the float / double entries, this one for the integer entries *)
Definition RelZ (names : list string) (a b : cat) : Prop := forall nm, In nm names -> is_int_name nm = true -> entry_okZ a b nm.
Lemma RelZ_trans names a b c : RelZ names a b -> RelZ names b c -> RelZ names a c.
Proof. intros H1 H2 nm Hin Hi. eapply entry_okZ_trans; [apply H1|apply H2]; assumption. Qed.
Definition autosZ (a b : cat) (names : list string) : bool := forallb (entry_autoZ a b) names.
Lemma RelZ_split names manual a b : (forall nm, In nm manual -> entry_okZ a b nm) ->
  autosZ a b (filter (fun nm => is_int_name nm && negb (existsb (String.eqb nm) manual)) names) = true -> RelZ names a b.
Proof.
  intros HM HA nm Hin Hi. destruct (existsb (String.eqb nm) manual) eqn:E.
  - apply HM. apply existsb_exists in E as (m & Hm & Em). apply String.eqb_eq in Em. subst. exact Hm.
  - apply entry_okZ_auto. unfold autosZ in HA. rewrite forallb_forall in HA. apply HA. apply filter_In. split; [exact Hin|]. rewrite Hi, E. reflexivity.
Qed.
Definition rest_namesZ (cs cp : cat) : list string := filter (fun nm => is_int_name nm && negb (entry_autoZ cs cp nm)) (map fst cp).
