(* C03 integer entries: lemmas about 32-bit wrap-around and the tactic that compares two decision trees component by
   component in SemZ. *)
Require Import ZArith List String Bool Lia.
Import ListNotations.
From GLMV Require Import Expr SemZ Cat Comm Lift.
From W Require Import A_C03_defs A_C03_int.
Local Open Scope Z_scope.

Lemma in_zseqZ n i : 0 <= i < Z.of_nat n -> In i (zseq (Z.of_nat n)).
Proof. intros H. unfold zseq. apply in_map_iff. exists (Z.to_nat i). split; [lia|]. apply in_seq. lia. Qed.
Lemma lanes_forallZ (P : Z -> Prop) n : Forall P (zseq (Z.of_nat n)) -> forall i, 0 <= i < Z.of_nat n -> P i.
Proof. intros H i Hi. rewrite Forall_forall in H. apply H, in_zseqZ, Hi. Qed.
Lemma wrap_range_I32 z : -2147483648 <= wrap I32 z < 2147483648.
Proof. unfold wrap. cbn [width is_signed]. change (2 ^ 32) with 4294967296. change (2 ^ (32 - 1)) with 2147483648. pose proof (Z.mod_pos_bound z 4294967296 ltac:(lia)). destruct (Z.ltb_spec (z mod 4294967296) 2147483648); lia. Qed.
Lemma wrap_range_U32 z : 0 <= wrap U32 z < 4294967296.
Proof. unfold wrap. cbn [width is_signed]. change (2 ^ 32) with 4294967296. apply Z.mod_pos_bound. lia. Qed.
Lemma wrap_id_I32 z : -2147483648 <= z < 2147483648 -> wrap I32 z = z.
Proof. intros H. apply wrap_in_range. unfold in_range. cbn [is_signed width]. change (2 ^ (32 - 1)) with 2147483648. apply andb_true_intro. split; [apply Z.leb_le|apply Z.ltb_lt]; lia. Qed.
Lemma wrap_id_U32 z : 0 <= z < 4294967296 -> wrap U32 z = z.
Proof. intros H. apply wrap_in_range. unfold in_range. cbn [is_signed width]. change (2 ^ 32) with 4294967296. apply andb_true_intro. split; [apply Z.leb_le|apply Z.ltb_lt]; lia. Qed.
(* x ^ y is zero (in 32 bits) exactly when x = y *)
Lemma lxor_mod x y : (Z.lxor x y) mod 4294967296 = Z.lxor (x mod 4294967296) (y mod 4294967296).
Proof. change 4294967296 with (2 ^ 32). rewrite <- !Z.land_ones by lia. apply Z.bits_inj'. intros n Hn. rewrite !Z.land_spec, !Z.lxor_spec, !Z.land_spec. destruct (Z.testbit (Z.ones 32) n); rewrite ?andb_true_r, ?andb_false_r; reflexivity. Qed.
Lemma wrap_lxor_zero k x y : (k = I32 /\ -2147483648 <= x < 2147483648 /\ -2147483648 <= y < 2147483648) \/ (k = U32 /\ 0 <= x < 4294967296 /\ 0 <= y < 4294967296) ->
  (wrap k (Z.lxor x y) =? 0) = (x =? y).
Proof.
  intros H. destruct (Z.eqb_spec x y) as [->|Hne].
  - rewrite Z.lxor_nilpotent. destruct H as [(-> & _)|(-> & _)]; reflexivity.
  - apply Z.eqb_neq. intros E. apply Hne.
    assert (M : (Z.lxor x y) mod 4294967296 = 0). { assert (W : width k = 32) by (destruct H as [(-> & _)|(-> & _)]; reflexivity). pose proof (wrap_mod k (Z.lxor x y)) as W2. rewrite W, E in W2. change (2 ^ 32) with 4294967296 in W2. rewrite <- W2. reflexivity. }
    rewrite lxor_mod in M. apply Z.lxor_eq in M. destruct H as [(_ & Hx & Hy)|(_ & Hx & Hy)]; revert M; generalize (Z.div_mod x 4294967296 ltac:(lia)) (Z.div_mod y 4294967296 ltac:(lia)) (Z.mod_pos_bound x 4294967296 ltac:(lia)) (Z.mod_pos_bound y 4294967296 ltac:(lia)); intros; lia.
Qed.
(* the SSE2 absolute value: (x ^ (x >> 31)) - (x >> 31) *)
Lemma abs_trick x : -2147483648 <= x < 2147483648 ->
  wrap I32 (wrap I32 (Z.lxor x (wrap I32 (x / 2 ^ 31))) - wrap I32 (x / 2 ^ 31)) = if 0 <=? x then x else wrap I32 (- x).
Proof.
  intros H. change (2 ^ 31) with 2147483648. destruct (Z.leb_spec 0 x) as [Hp|Hn].
  - replace (x / 2147483648) with 0 by (symmetry; apply Z.div_small; lia). change (wrap I32 0) with 0. rewrite Z.lxor_0_r, Z.sub_0_r, wrap_wrap. apply wrap_id_I32, H.
  - replace (x / 2147483648) with (-1) by (generalize (Z.div_mod x 2147483648 ltac:(lia)) (Z.mod_pos_bound x 2147483648 ltac:(lia)); intros; nia).
    change (wrap I32 (-1)) with (-1). rewrite Z.lxor_m1_r. unfold Z.lnot. rewrite (wrap_id_I32 (Z.pred (- x))) by lia. f_equal. lia.
Qed.
Ltac evZ := cbv [evalT1Z leafZ is_boolexpr evalZ evalZB obind is_int kind_eqb unZ binZ arith cmpZ is_signed width andb orb negb Z.ltb Z.leb Z.compare Pos.compare Pos.compare_cont].
Ltac lane_treesZ env := unfold comp_valZ;
  match goal with |- evalT1Z env ?a = evalT1Z env ?b => rewrite <- (simp_soundZ env a), <- (simp_soundZ env b) by (vm_compute; reflexivity);
    let a' := eval vm_compute in (simp a) in let b' := eval vm_compute in (simp b) in
    replace (simp a) with a' by (vm_compute; reflexivity); replace (simp b) with b' by (vm_compute; reflexivity) end.
Ltac inputsZ := repeat match goal with
  | |- context [wrap I32 (?env I32 ?a ?i)] => let x := fresh "x" in pose proof (wrap_range_I32 (env I32 a i)); set (x := wrap I32 (env I32 a i)) in *
  | |- context [wrap U32 (?env U32 ?a ?i)] => let x := fresh "x" in pose proof (wrap_range_U32 (env U32 a i)); set (x := wrap U32 (env U32 a i)) in *
  end.
Ltac cmp_cases := repeat match goal with
  | |- context [?a <? ?b] => destruct (Z.ltb_spec a b)
  | |- context [?a <=? ?b] => destruct (Z.leb_spec a b)
  | |- context [?a =? ?b] => destruct (Z.eqb_spec a b)
  end.
Ltac is_num z := lazymatch z with Z0 => idtac | Zpos _ => idtac | Zneg _ => idtac end.
Ltac const_cmp := repeat match goal with
  | |- context [?a <? ?b] => is_num a; is_num b; let v := eval vm_compute in (a <? b) in change (a <? b) with v
  | |- context [?a <=? ?b] => is_num a; is_num b; let v := eval vm_compute in (a <=? b) in change (a <=? b) with v
  end.
Ltac cbnZ := cbn [evalT1Z leafZ is_boolexpr evalZ evalZB obind is_int kind_eqb unZ binZ arith cmpZ is_signed width andb orb negb].
Ltac finZ := cbn [negb andb orb]; try reflexivity; try (exfalso; lia); try (f_equal; lia); try (repeat f_equal; lia).
Ltac lanesZ env := apply lanes_forallZ; cbv [zseq Z.of_nat Z.to_nat Pos.to_nat Pos.iter_op Nat.add seq map Pos.of_succ_nat Pos.succ]; repeat constructor; lane_treesZ env.
Ltac compZ_tac := split; [vm_compute; reflexivity|]; split; [vm_compute; reflexivity|]; let env := fresh "env" in intros env; lanesZ env; cbnZ; const_cmp; cbnZ; inputsZ;
  repeat match goal with |- context [wrap ?k (Z.lxor ?x ?y) =? 0] => rewrite (wrap_lxor_zero k x y) by (first [left; repeat split; try reflexivity; lia | right; repeat split; try reflexivity; lia]) end;
  repeat match goal with x := _ : Z |- context [wrap I32 (wrap I32 (Z.lxor ?x (wrap I32 (?x / 2 ^ 31))) - wrap I32 (?x / 2 ^ 31))] => rewrite (abs_trick x) by lia end;
  cmp_cases; finZ.
Ltac entryZ H := eexists _, _; split; [vm_compute; reflexivity|]; split; [vm_compute; reflexivity|]; split; [vm_compute; lia|]; exact H.
