(* Property C03 -- SIMD-intrinsic builds return the same results as the pure C++ path.
   For every instruction-set level L in {SSE2, SSE3, SSSE3, SSE4.1, SSE4.2, AVX, AVX2, AVX2+FMA} and for GLM_FORCE_QUAT_DATA_WXYZ,
   every entry of the catalogue tools/trace/tr_C03.cpp (171 operations on aligned vec4 / vec3 / mat4 / mat3 / quat, dvec4 / dvec3 / dquat and ivec4 / uvec4 / ivec3: operators,
   comparisons, common, exponential, geometric, matrix and quaternion functions, lowp variants) traced through GLM's intrinsic
   kernels (simd_shim.hpp) means, component by component and for all real inputs of its domain, what the same entry traced through
   the generic code means.  Identical trees (up to the operand order of + and *, and fma = a*b+c) are decided by computation:
   there the two builds execute the same IEEE operations on the same operands, so the results are bit-identical.  The others
   (different association of sums, branch-free selection, rsqrt/rcp, sign-bit tricks, horizontal adds) are equal as real
   functions, so the builds differ only by the rounding of intermediate terms, which oracle_C03 bounds on hardware.
   Domains (A_C03_defs.dom): floor4/ceil4/fract4 need |x| >= 2^23 -> x integral (true of every binary32); mod4 needs |x/y| < 2^23;
   sqrt/inversesqrt lowp need x >= 0; round4 is PARTIAL: off the ties k + 1/2 (at a tie the rounding of |x| + (1/2 - 2^-25)
   decides, which the real semantics does not model; the check runs round/floor/ceil on all 2^32 binary32 values instead). *)
Require Import ZArith List String Reals Lra Lia.
Import ListNotations.
From GLMV Require Import Expr SemR Cat.
From W Require Import A_C03_defs A_C03_int Gen_C03_pure Gen_C03_purew Gen_C03_sse2 Gen_C03_sse3 Gen_C03_ssse3 Gen_C03_sse41 Gen_C03_sse42 Gen_C03_avx Gen_C03_avx2 Gen_C03_fma Gen_C03_sse2w Gen_C03_avx2w.
From W Require P_C03_sse2_pure P_C03_sse3_sse2 P_C03_ssse3_sse3 P_C03_sse41_pure P_C03_sse42_sse41 P_C03_avx_sse41 P_C03_avx2_avx P_C03_fma_avx2 P_C03_pure_purew P_C03_sse2w_sse2 P_C03_avx2w_avx2.

Definition names : list string := map fst Gen_C03_pure.catalogue.
(* float and double entries in the real semantics (A_C03_defs), integer entries in 32-bit wrap-around arithmetic (A_C03_int) *)
Definition simd_means_pure (simd pure : cat) : Prop := Rel names simd pure /\ RelZ names simd pure.
Lemma both_trans a b c : simd_means_pure a b -> simd_means_pure b c -> simd_means_pure a c.
Proof. intros [H1 H2] [H3 H4]. split; [exact (Rel_trans _ _ _ _ H1 H3)|exact (RelZ_trans _ _ _ _ H2 H4)]. Qed.

Theorem C03_sse2 : simd_means_pure Gen_C03_sse2.catalogue Gen_C03_pure.catalogue. Proof. exact (conj P_C03_sse2_pure.edge P_C03_sse2_pure.edgeZ). Qed.
Theorem C03_sse3 : simd_means_pure Gen_C03_sse3.catalogue Gen_C03_pure.catalogue. Proof. exact (both_trans _ _ _ (conj P_C03_sse3_sse2.edge P_C03_sse3_sse2.edgeZ) C03_sse2). Qed.
Theorem C03_ssse3 : simd_means_pure Gen_C03_ssse3.catalogue Gen_C03_pure.catalogue. Proof. exact (both_trans _ _ _ (conj P_C03_ssse3_sse3.edge P_C03_ssse3_sse3.edgeZ) C03_sse3). Qed.
Theorem C03_sse41 : simd_means_pure Gen_C03_sse41.catalogue Gen_C03_pure.catalogue. Proof. exact (conj P_C03_sse41_pure.edge P_C03_sse41_pure.edgeZ). Qed.
Theorem C03_sse42 : simd_means_pure Gen_C03_sse42.catalogue Gen_C03_pure.catalogue. Proof. exact (both_trans _ _ _ (conj P_C03_sse42_sse41.edge P_C03_sse42_sse41.edgeZ) C03_sse41). Qed.
Theorem C03_avx : simd_means_pure Gen_C03_avx.catalogue Gen_C03_pure.catalogue. Proof. exact (both_trans _ _ _ (conj P_C03_avx_sse41.edge P_C03_avx_sse41.edgeZ) C03_sse41). Qed.
Theorem C03_avx2 : simd_means_pure Gen_C03_avx2.catalogue Gen_C03_pure.catalogue. Proof. exact (both_trans _ _ _ (conj P_C03_avx2_avx.edge P_C03_avx2_avx.edgeZ) C03_avx). Qed.
Theorem C03_fma : simd_means_pure Gen_C03_fma.catalogue Gen_C03_pure.catalogue. Proof. exact (both_trans _ _ _ (conj P_C03_fma_avx2.edge P_C03_fma_avx2.edgeZ) C03_avx2). Qed.
(* GLM_FORCE_QUAT_DATA_WXYZ: SIMD against generic, both with the w-first storage order *)
Theorem C03_sse2_wxyz : simd_means_pure Gen_C03_sse2w.catalogue Gen_C03_purew.catalogue.
Proof. exact (both_trans _ _ _ (conj P_C03_sse2w_sse2.edge P_C03_sse2w_sse2.edgeZ) (both_trans _ _ _ C03_sse2 (conj P_C03_pure_purew.edge P_C03_pure_purew.edgeZ))). Qed.
Theorem C03_avx2_wxyz : simd_means_pure Gen_C03_avx2w.catalogue Gen_C03_purew.catalogue.
Proof. exact (both_trans _ _ _ (conj P_C03_avx2w_avx2.edge P_C03_avx2w_avx2.edgeZ) (both_trans _ _ _ C03_avx2 (conj P_C03_pure_purew.edge P_C03_pure_purew.edgeZ))). Qed.
(* only the lowp entries contain a hardware reciprocal / reciprocal square root, at every level *)
Theorem C03_only_lowp_approximates :
  forallb only_lowp_approximates [Gen_C03_sse2.catalogue; Gen_C03_sse3.catalogue; Gen_C03_ssse3.catalogue; Gen_C03_sse41.catalogue; Gen_C03_sse42.catalogue; Gen_C03_avx.catalogue;
                                  Gen_C03_avx2.catalogue; Gen_C03_fma.catalogue; Gen_C03_sse2w.catalogue; Gen_C03_avx2w.catalogue] = true.
Proof. vm_compute. reflexivity. Qed.
(* and the lowp entries do: the statement above is not vacuous *)
Example C03_lowp_entries_do_approximate : existsb (fun e => andb (is_lowp_name (fst e)) (negb (approx_free_tree (snd e)))) Gen_C03_sse2.catalogue = true.
Proof. vm_compute. reflexivity. Qed.
(* the statement is about all 176 entries (35 of them integer), none untraceable *)
Theorem C03_catalogue_size : List.length names = 176%nat. Proof. reflexivity. Qed.
(* non-vacuity: the premises of the domain-restricted entries are satisfiable, and a compared value is defined *)
Example C03_domain_inhabited : D_big (fun _ _ _ => 1%R) /\ D_round (fun _ _ _ => 1%R) /\ D_mod (fun _ _ _ => 1%R) /\ D_nonneg (fun _ _ _ => 1%R).
Proof.
  assert (A : Rabs 1 = 1%R) by (apply Rabs_pos_eq; lra).
  repeat split; try (intros i).
  - intros _. exists 1%Z. reflexivity.
  - intros _. exists 1%Z. reflexivity.
  - intros k [H1 H2]. rewrite A in *. assert (Ha : (IZR k < 1)%R) by lra. assert (Hb : (0 < IZR k)%R) by lra. apply (lt_IZR k 1) in Ha. apply (lt_IZR 0 k) in Hb. lia.
  - unfold Rdiv. rewrite Rinv_1, Rmult_1_r, A. change (cstR false 1 23) with 8388608%R. lra.
  - lra.
Qed.
Print Assumptions C03_sse2.
Print Assumptions C03_sse3.
Print Assumptions C03_ssse3.
Print Assumptions C03_sse41.
Print Assumptions C03_sse42.
Print Assumptions C03_avx.
Print Assumptions C03_avx2.
Print Assumptions C03_fma.
Print Assumptions C03_sse2_wxyz.
Print Assumptions C03_avx2_wxyz.
