(* C03 definitions.  Two decision trees have the same meaning when, for every assignment of real numbers to the inputs,
   every output component has the same value (SemR: each operation is the exact real function; rcp / rsqrt are 1/x and
   1/sqrt x; fma is a*b+c; min/max are the smaller / larger real; CopySign takes the sign of a real).  For a SIMD kernel
   and the generic code this says: the same function lane by lane, so that the two builds can differ only in the rounding of
   intermediate terms (bounded on hardware by oracle_C03) -- a changed shuffle mask, operand, comparison, selection or
   constant changes the function and breaks the theorem.  Components are compared one at a time (Lift.proj / Lift.simp), so
   that a kernel that selects per lane (2^4 .. 4^4 leaves) is compared lane by lane. *)
Require Import ZArith List String Bool Reals Lia.
Import ListNotations.
From GLMV Require Import Expr SemR Cat Comm Lift.
Local Open Scope Z_scope.

(* every leaf carries exactly n outputs and no path is untraceable *)
Fixpoint wf (n : nat) (t : tree) : bool :=
  match t with Leaf _ o => Nat.eqb (List.length o) n | Br _ a b => wf n a && wf n b | Abort _ => false end.
Definition comp_val (env : renv) (t : tree) (i : Z) : option R := evalT1 env (proj i t).
(* same meaning on the inputs satisfying D *)
Definition comp_eq_on (D : renv -> Prop) (n : nat) (s p : tree) : Prop :=
  wf n s = true /\ wf n p = true /\ forall env, D env -> forall i, 0 <= i < Z.of_nat n -> comp_val env s i = comp_val env p i.
Definition comp_eq := comp_eq_on (fun _ => True).

Lemma wf_defined n t env i : wf n t = true -> 0 <= i < Z.of_nat n -> comp_val env t i <> None.
Proof.
  unfold comp_val. induction t as [p o|c a IHa b IHb|w]; cbn [wf proj evalT1]; intros H Hi.
  - discriminate.
  - apply andb_prop in H as [Ha Hb]. destruct (evalRB env c); [apply IHa|apply IHb]; assumption.
  - discriminate.
Qed.
Lemma comp_eq_on_trans D n a b c : comp_eq_on D n a b -> comp_eq_on D n b c -> comp_eq_on D n a c.
Proof. intros (Wa & Wb & H1) (_ & Wc & H2). split; [exact Wa|]. split; [exact Wc|]. intros env He i Hi. rewrite (H1 env He i Hi). apply H2; assumption. Qed.
Lemma comp_eq_on_weaken (D D' : renv -> Prop) n a b : (forall env, D' env -> D env) -> comp_eq_on D n a b -> comp_eq_on D' n a b.
Proof. intros HD (Wa & Wb & H). split; [exact Wa|]. split; [exact Wb|]. intros env He. apply H, HD, He. Qed.

(* ---- decided by computation: identical trees up to the operand order of + and * and the expansion of fma *)
Lemma expr_eqc_leafR env a b : expr_eqc a b = true -> leafR env a = leafR env b.
Proof.
  intros H. pose proof (eqc_sound_R env a b H) as [HR HB].
  destruct a, b; cbn [expr_eqc] in H; try discriminate; cbn [leafR]; try exact HR; try (rewrite HB; reflexivity).
  all: try (apply andb_prop in H as [Hk _]; apply kind_eqb_eq in Hk; subst; match goal with k : kind |- _ => destruct k end; cbn [leafR]; try exact HR; rewrite HB; reflexivity).
Qed.
Lemma list_eqc_nth : forall l1 l2 i, list_eqc l1 l2 = true -> expr_eqc (nth i l1 (Cnan KB)) (nth i l2 (Cnan KB)) = true.
Proof.
  induction l1 as [|x l1 IH]; destruct l2 as [|y l2]; cbn [list_eqc]; intros i H; try discriminate.
  - destruct i; reflexivity.
  - apply andb_prop in H as [H1 H2]. destruct i; cbn [nth]; [exact H1|apply IH, H2].
Qed.
Lemma tree_eqc_comp env i : forall a b, tree_eqc a b = true -> comp_val env a i = comp_val env b i.
Proof.
  unfold comp_val. induction a as [p o|c a IHa a' IHa'|w]; destruct b as [p' o'|c' b b'|w']; cbn [tree_eqc proj evalT1]; intros H; try discriminate.
  - apply andb_prop in H as [_ H]. f_equal. apply expr_eqc_leafR. unfold nth_e. apply list_eqc_nth, H.
  - apply andb_prop in H as [H H3]. apply andb_prop in H as [H1 H2]. rewrite (proj2 (eqc_sound_R env _ _ H1)), (IHa _ H2), (IHa' _ H3). reflexivity.
Qed.
Lemma fma_expand_leafR env e : leafR env (fma_expand e) = leafR env e.
Proof. pose proof (fma_expand_sound env e) as [HR HB]. destruct e; cbn [fma_expand leafR] in *; try reflexivity; try exact HR; try (rewrite HB; reflexivity). Qed.
Lemma fma_expand_nth : forall l i, nth i (map fma_expand l) (Cnan KB) = fma_expand (nth i l (Cnan KB)).
Proof. induction l as [|x l IH]; intros [|i]; cbn; try reflexivity. apply IH. Qed.
Lemma fma_expand_comp env i : forall t, comp_val env (fma_expand_tree t) i = comp_val env t i.
Proof.
  unfold comp_val. induction t as [p o|c a IHa b IHb|w]; cbn [fma_expand_tree proj evalT1].
  - unfold nth_e. rewrite fma_expand_nth, fma_expand_leafR. reflexivity.
  - rewrite (proj2 (fma_expand_sound env c)), IHa, IHb. reflexivity.
  - reflexivity.
Qed.
Definition auto_eq (n : nat) (s p : tree) : bool := wf n s && wf n p && tree_eqc (fma_expand_tree s) (fma_expand_tree p).
Lemma auto_eq_sound n s p : auto_eq n s p = true -> comp_eq n s p.
Proof.
  unfold auto_eq. intros H. apply andb_prop in H as [H H3]. apply andb_prop in H as [H1 H2]. split; [exact H1|]. split; [exact H2|].
  intros env _ i _. rewrite <- (fma_expand_comp env i s), <- (fma_expand_comp env i p). apply tree_eqc_comp, H3.
Qed.

(* ---- catalogues *)
Definition cat := list (string * tree).
Definition nouts (t : tree) : nat := (fix go (t : tree) : nat := match t with Leaf _ o => List.length o | Br _ a _ => go a | Abort _ => O end) t.
Definition entry_auto (cs cp : cat) (nm : string) : bool :=
  match lookup nm cs, lookup nm cp with Some s, Some p => auto_eq (nouts p) s p | _, _ => false end.
Definition rest_names (cs cp : cat) : list string := filter (fun nm => negb (entry_auto cs cp nm)) (map fst cp).   (* restricted to the float / double entries by the generator *)
(* the entry nm of the SIMD catalogue means, on D, what the entry nm of the generic catalogue means *)
Definition entry_ok_on (D : renv -> Prop) (cs cp : cat) (nm : string) : Prop :=
  exists s p, lookup nm cs = Some s /\ lookup nm cp = Some p /\ (0 < nouts p)%nat /\ comp_eq_on D (nouts p) s p.
Definition entry_ok := entry_ok_on (fun _ => True).
Lemma entry_ok_auto cs cp nm : entry_auto cs cp nm = true -> (match lookup nm cp with Some p => Nat.ltb 0 (nouts p) | None => false end) = true -> entry_ok cs cp nm.
Proof.
  unfold entry_auto. destruct (lookup nm cs) as [s|] eqn:Hs; [|discriminate]. destruct (lookup nm cp) as [p|] eqn:Hp; [|discriminate]. intros H Hn.
  exists s, p. split; [exact Hs|]. split; [exact Hp|]. split; [apply Nat.ltb_lt, Hn|]. apply auto_eq_sound, H.
Qed.
(* an entry whose SIMD tree is (up to commutativity / fma) the SIMD tree of another instruction-set level inherits that level's proof *)
Lemma entry_ok_via D cs cs' cp nm : entry_ok_on D cs' cp nm ->
  (match lookup nm cs, lookup nm cs', lookup nm cp with Some s, Some s', Some p => auto_eq (nouts p) s s' | _, _, _ => false end) = true -> entry_ok_on D cs cp nm.
Proof.
  intros (s' & p & Hs' & Hp & Hn & He). destruct (lookup nm cs) as [s|] eqn:Hs; [|discriminate]. rewrite Hs', Hp. intros H.
  exists s, p. split; [exact Hs|]. split; [exact Hp|]. split; [exact Hn|]. eapply comp_eq_on_trans; [|exact He].
  apply (comp_eq_on_weaken (fun _ => True)); [trivial|]. apply auto_eq_sound, H.
Qed.
Lemma entry_ok_weaken (D D' : renv -> Prop) cs cp nm : (forall env, D' env -> D env) -> entry_ok_on D cs cp nm -> entry_ok_on D' cs cp nm.
Proof. intros HD (s & p & Hs & Hp & Hn & He). exists s, p. repeat (split; [assumption|]). eapply comp_eq_on_weaken; eassumption. Qed.
(* all entries of a list *)
Definition all_ok_on (D : renv -> Prop) (cs cp : cat) (names : list string) : Prop := forall nm, In nm names -> entry_ok_on D cs cp nm.
Definition autos (cs cp : cat) (names : list string) : bool :=
  forallb (fun nm => entry_auto cs cp nm && match lookup nm cp with Some p => Nat.ltb 0 (nouts p) | None => false end) names.
Lemma autos_sound cs cp names : autos cs cp names = true -> all_ok_on (fun _ => True) cs cp names.
Proof. unfold autos. rewrite forallb_forall. intros H nm Hin. specialize (H nm Hin). apply andb_prop in H as [H1 H2]. apply entry_ok_auto; assumption. Qed.
Definition vias (cs cs' cp : cat) (names : list string) : bool :=
  forallb (fun nm => match lookup nm cs, lookup nm cs', lookup nm cp with Some s, Some s', Some p => auto_eq (nouts p) s s' | _, _, _ => false end) names.
Lemma vias_sound D cs cs' cp names : vias cs cs' cp names = true -> all_ok_on D cs' cp names -> all_ok_on D cs cp names.
Proof. unfold vias. rewrite forallb_forall. intros H H' nm Hin. eapply entry_ok_via; [apply H', Hin|apply H, Hin]. Qed.
(* names is exactly the list of entries of the catalogue (coverage) *)
Definition covers (names : list string) (cp : cat) : bool := forallb (fun nm => existsb (String.eqb nm) names) (map fst cp).

(* ---- domains.  The real semantics has no rounding and no notion of a representable value; the facts about binary32 that
   the SSE2 rounding kernels rely on are therefore hypotheses on the inputs, named per entry by `dom`. *)
Local Open Scope R_scope.
Definition integral (x : R) : Prop := exists z : Z, x = IZR z.
(* every binary32 value of magnitude at least 2^23 is an integer *)
Definition big_int (x : R) : Prop := cstR false 1 23 <= Rabs x -> integral x.
(* |x| is neither a tie k + 1/2 nor less than 2^-25 above one (no binary32 value is strictly inside such an interval; at the
   ties themselves the rounding of the addition |x| + (1/2 - 2^-25) decides, which the real semantics does not model:
   round4 is therefore a partial theorem, completed by the exhaustive run over all 2^32 binary32 values in the check) *)
Definition off_tie (x : R) : Prop := forall k : Z, ~ (IZR k + / 2 <= Rabs x < IZR k + / 2 + / 33554432).
Definition D_big (env : renv) : Prop := forall i, big_int (env F32 0%Z i).
Definition D_round (env : renv) : Prop := forall i, big_int (env F32 0%Z i) /\ off_tie (env F32 0%Z i).
(* mod(x, y) = x - y * floor(x / y): the quotient below 2^23 in magnitude (above, the generic code has lost all precision too) *)
Definition D_mod (env : renv) : Prop := forall i, Rabs (env F32 0%Z i / env F32 1%Z i) < cstR false 1 23.
Definition D_mod_s (env : renv) : Prop := forall i, Rabs (env F32 0%Z i / env F32 1%Z 0%Z) < cstR false 1 23.
(* sqrt and inversesqrt: documented domain x >= 0 *)
Definition D_nonneg (env : renv) : Prop := forall i, 0 <= env F32 0%Z i.
Definition dom (nm : string) : renv -> Prop :=
  if existsb (String.eqb nm) ["floor4"; "ceil4"; "fract4"]%string then D_big
  else if String.eqb nm "round4" then D_round
  else if String.eqb nm "mod4" then D_mod else if String.eqb nm "mod4_s" then D_mod_s
  else if existsb (String.eqb nm) ["sqrt4_lowp"; "inversesqrt4_lowp"]%string then D_nonneg
  else fun _ => True.

(* ---- chains of catalogues: Rel names a b = every listed float / double entry of a means (on its domain) what the entry of b
   means; the integer entries (names i4_, i3_, u4_) are compared in the integer semantics (A_C03_int.RelZ) *)
Definition is_int_name (nm : string) : bool := String.prefix "i4_" nm || String.prefix "i3_" nm || String.prefix "u4_" nm.
Definition Rel (names : list string) (a b : cat) : Prop := forall nm, In nm names -> is_int_name nm = false -> entry_ok_on (dom nm) a b nm.
Lemma wf_nouts n : forall t, wf n t = true -> nouts t = n.
Proof. induction t as [p o|c a IHa b IHb|w]; cbn; intros H; [apply Nat.eqb_eq, H| |discriminate]. apply andb_prop in H as [Ha _]. apply IHa, Ha. Qed.
Lemma entry_ok_trans D a b c nm : entry_ok_on D a b nm -> entry_ok_on D b c nm -> entry_ok_on D a c nm.
Proof.
  intros (s & p & Hs & Hp & Hn & He) (s' & q & Hs' & Hq & Hn' & He'). rewrite Hp in Hs'. injection Hs' as <-.
  exists s, q. split; [exact Hs|]. split; [exact Hq|]. split; [exact Hn'|].
  assert (E : nouts p = nouts q). { destruct He' as (W & _ & _). apply wf_nouts, W. }
  rewrite <- E. eapply comp_eq_on_trans; [exact He|]. rewrite E. exact He'.
Qed.
Lemma Rel_trans names a b c : Rel names a b -> Rel names b c -> Rel names a c.
Proof. intros H1 H2 nm Hin Hi. eapply entry_ok_trans; [apply H1|apply H2]; assumption. Qed.
(* an edge: the entries of `manual` by their own lemmas, all the others decided by computation *)
Lemma Rel_split names manual a b : (forall nm, In nm manual -> entry_ok_on (dom nm) a b nm) ->
  autos a b (filter (fun nm => negb (is_int_name nm) && negb (existsb (String.eqb nm) manual)) names) = true -> Rel names a b.
Proof.
  intros HM HA nm Hin Hi. destruct (existsb (String.eqb nm) manual) eqn:E.
  - apply HM. apply existsb_exists in E as (m & Hm & Em). apply String.eqb_eq in Em. subst. exact Hm.
  - apply (entry_ok_weaken (fun _ => True)); [trivial|]. apply (autos_sound a b _ HA). apply filter_In. split; [exact Hin|]. rewrite Hi, E. reflexivity.
Qed.

(* ---- only lowp may approximate: outside the entries named *_lowp no traced kernel contains a reciprocal or reciprocal-square-root
   instruction (in the real semantics Rcp / Rsqrt are exact, so the comparison theorems cannot see an approximation; this
   syntactic statement does) *)
Fixpoint approx_free (e : expr) : bool :=
  match e with
  | U Rcp _ _ | U Rsqrt _ _ => false
  | U _ _ x | Tst _ _ x | LNot x | Cv _ _ x => approx_free x
  | B _ _ x y | Cmp _ _ x y | LAnd x y | LOr x y => approx_free x && approx_free y
  | Fma _ x y z => approx_free x && approx_free y && approx_free z
  | _ => true
  end.
Fixpoint approx_free_tree (t : tree) : bool :=
  match t with Leaf p o => forallb approx_free p && forallb approx_free o | Br c a b => approx_free c && approx_free_tree a && approx_free_tree b | Abort _ => true end.
Definition is_lowp_name (nm : string) : bool := existsb (String.eqb nm) ["sqrt4_lowp"; "inversesqrt4_lowp"; "div4_lowp"]%string.
Definition only_lowp_approximates (c : cat) : bool := forallb (fun e => is_lowp_name (fst e) || approx_free_tree (snd e)) c.
