(* C18, 8-bit element types (every value, every count / shift), the fill constants for every field, small finite facts *)
Require Import ZArith List Bool Lia.
Import ListNotations.
From GLMM Require Import Half IntFn BitUtil.
From W Require Import A_C18_defs.
Local Open Scope Z_scope.
Lemma pow2_u8 : forallb (pow2_ok false 8) (vals false 8) = true. Proof. vm_cast_no_check (eq_refl true). Qed.
Lemma pow2_i8 : forallb (pow2_ok true 8) (vals true 8) = true. Proof. vm_cast_no_check (eq_refl true). Qed.
Lemma nsb_u8 : forallb (nsb_ok false 8) (vals false 8) = true. Proof. vm_cast_no_check (eq_refl true). Qed.
Lemma nsb_i8 : forallb (nsb_ok true 8) (vals true 8) = true. Proof. vm_cast_no_check (eq_refl true). Qed.
Lemma rot_u8 : forallb (rot_swapped_ok 8) (vals false 8) = true. Proof. vm_cast_no_check (eq_refl true). Qed.
(* fill constants: every field inside the value for 8/16/32-bit types (signed and unsigned); 64-bit: fields inside bits 0..30 *)
Lemma fill_consts : forallb (fun swl => let '(sg, w, lim) := swl in fill_const_ok sg w lim)
  [(false, 8, 8); (true, 8, 8); (false, 16, 16); (true, 16, 16); (false, 32, 32); (true, 32, 32); (false, 64, 31); (true, 64, 31)] = true.
Proof. vm_cast_no_check (eq_refl true). Qed.
(* factorial: exact up to 12! in int / uint and 20! in the 64-bit types *)
Lemma factorial_32 : forallb (fun n => (factorial true 32 (Z.of_nat n) =? fact n) && (factorial false 32 (Z.of_nat n) =? fact n)) (seq 0 13) = true.
Proof. vm_cast_no_check (eq_refl true). Qed.
Lemma factorial_64 : forallb (fun n => (factorial true 64 (Z.of_nat n) =? fact n) && (factorial false 64 (Z.of_nat n) =? fact n)) (seq 0 21) = true.
Proof. vm_cast_no_check (eq_refl true). Qed.
