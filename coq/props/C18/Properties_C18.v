(* Properties_C18.v -- C18: power-of-two, multiple and bitfield utilities return the documented integer.
   Two kinds of model:
   * Gen_C18_ladders is TRANSLATED on every run from glm/gtc/bitfield.inl (tools/trace/gen_C18.py): the interleave /
     deinterleave "magic mask" ladders.  Theorems: for EVERY argument value (all 2^16 / 2^32 / 2^64 pairs, triples,
     quadruples) bit j of bitfieldInterleave is bit j/n of argument j mod n, and bitfieldDeinterleave inverts it.
     (finite single-bit check lifted by the OR-homomorphism lemma OrHom.hom_orbits).
   * GLMM.BitUtil is a hand-written model of the other functions, tied to the code by the correspondence check.
     Theorems: every integer type and value for ceil/floor/next/prevMultiple, isMultiple, mask, gtx mod, pow;
     every 8- and 16-bit value (and every count / shift) for the power-of-two family, findNSB, the rotations, gtx/bit;
     every field for bitfieldFillOne/Zero (8/16/32-bit types); sqrt for every x < 65536; factorial for every n whose n! is a value of T (any width; induction over the loop).
     every positive value of EVERY width (8/16/32/64, signed and unsigned) for isPowerOfTwo, ceil/floor/roundPowerOfTwo (results that are
     representable), every non-zero value for gtx lowestBitValue, every 32-bit value for nlz -- through C05's ladder theorems
     (P_C05_msb.smear_all: the smear ladder yields the run of ones up to the top bit; findMSB = log2; findLSB = trailing zeros).
     gtx highestBitValue (the loop that clears the lowest set bit), powerOfTwoAbove / Below / Nearest for every positive value, and findNSB for every
     value and count (binary search over bit counts: window invariant) -- P_C18_pow2, P_C18_nsb.
   sqrt(int) for every non-negative int and sqrt(uint) for every uint: floor(sqrt x) (C18_sqrt_int/uint_every_value: Newton invariant, no overflow, exit condition, and the distance to the root halves so the model's 64-iteration fuel suffices).
   NOT theorems (correspondence + oracle only): floating ceil/floor/roundMultiple beyond the dyadic grid model.
   Refuted statements = known findings (known_findings.txt): the rotations' direction, roundMultiple,
   floor/roundPowerOfTwo of negative values, roundPowerOfTwo on 8/16-bit types above the top power, pow(x<0, 0),
   bitfieldFillOne/Zero on 64-bit values. *)
Require Import ZArith List Bool.
Import ListNotations.
From GLMV Require Import OrHom.
From GLMM Require Import Half IntFn BitUtil.
From W Require A_C18_defs Gen_C18_ladders P_C18_ladders P_C18_w8 P_C18_w16_0 P_C18_w16_1 P_C18_w16_2 P_C18_w16_3 P_C18_w16_4 P_C18_w16_5 P_C18_w16_6 P_C18_w16_7
  P_C18_sqrt_0 P_C18_sqrt_1 P_C18_sqrt_2 P_C18_sqrt_3 P_C18_general P_C05_count P_C18_pow2 P_C18_nsb.
Import A_C18_defs Gen_C18_ladders.
Local Open Scope Z_scope.

(* ---- translated ladders: every argument value *)
Definition interleave_statement (prog : Z * list reg) (n b : nat) : Prop :=
  forall args, (forall k, (k < n)%nat -> 0 <= nth k args 0 < 2 ^ Z.of_nat b) -> forall j, 0 <= j ->
  Z.testbit (run_il prog args) j = if j / Z.of_nat n <? Z.of_nat b then Z.testbit (nth (Z.to_nat (j mod Z.of_nat n)) args 0) (j / Z.of_nat n) else false.
Theorem C18_interleave_u8x2 : interleave_statement pub_u8_2 2 8. Proof. exact (interleave_bits _ _ _ P_C18_ladders.il_u8_2 ltac:(auto)). Qed.
Theorem C18_interleave_u16x2 : interleave_statement pub_u16_2 2 16. Proof. exact (interleave_bits _ _ _ P_C18_ladders.il_u16_2 ltac:(auto)). Qed.
Theorem C18_interleave_u32x2 : interleave_statement pub_u32_2 2 32. Proof. exact (interleave_bits _ _ _ P_C18_ladders.il_u32_2 ltac:(auto)). Qed.
Theorem C18_interleave_u8x3 : interleave_statement pub_u8_3 3 8. Proof. exact (interleave_bits _ _ _ P_C18_ladders.il_u8_3 ltac:(auto)). Qed.
Theorem C18_interleave_u16x3 : interleave_statement pub_u16_3 3 16. Proof. exact (interleave_bits _ _ _ P_C18_ladders.il_u16_3 ltac:(auto)). Qed.
(* three 32-bit arguments do not fit in 64 bits: the low 21 bits of each *)
Theorem C18_interleave_u32x3_low21 : interleave_statement pub_u32_3 3 21. Proof. exact (interleave_bits _ _ _ P_C18_ladders.il_u32_3 ltac:(auto)). Qed.
Theorem C18_interleave_u8x4 : interleave_statement pub_u8_4 4 8. Proof. exact (interleave_bits _ _ _ P_C18_ladders.il_u8_4 ltac:(auto)). Qed.
Theorem C18_interleave_u16x4 : interleave_statement pub_u16_4 4 16. Proof. exact (interleave_bits _ _ _ P_C18_ladders.il_u16_4 ltac:(auto)). Qed.
Theorem C18_interleave_vector_overloads :
  (il_check pubv_u8_2 2 8 && il_check pubv_u16_2 2 16 && il_check pubv_u32_2 2 32 && il_check pubv_u8_3 3 8 && il_check pubv_u16_3 3 16 &&
   il_check pubv_u32_3 3 21 && il_check pubv_u8_4 4 8 && il_check pubv_u16_4 4 16) = true.
Proof. exact P_C18_ladders.ilv. Qed.
Theorem C18_deinterleave_u16 : forall x y, 0 <= x < 2 ^ 8 -> 0 <= y < 2 ^ 8 -> run_de de_u16 (run_il pub_u8_2 [x; y]) = [x; y].
Proof. exact (deinterleave_inverts _ _ 8%nat P_C18_ladders.de_16). Qed.
Theorem C18_deinterleave_u32 : forall x y, 0 <= x < 2 ^ 16 -> 0 <= y < 2 ^ 16 -> run_de de_u32 (run_il pub_u16_2 [x; y]) = [x; y].
Proof. exact (deinterleave_inverts _ _ 16%nat P_C18_ladders.de_32). Qed.
Theorem C18_deinterleave_u64 : forall x y, 0 <= x < 2 ^ 32 -> 0 <= y < 2 ^ 32 -> run_de de_u64 (run_il pub_u32_2 [x; y]) = [x; y].
Proof. exact (deinterleave_inverts _ _ 32%nat P_C18_ladders.de_64). Qed.

(* ---- multiples, every integer type and value *)
Theorem C18_ceil_mult_is_the_next_multiple : forall s m, 0 < m -> (m | ceil_mult s m) /\ s <= ceil_mult s m < s + m.
Proof. exact P_C18_general.ceil_mult_spec. Qed.
Theorem C18_floor_mult_is_the_previous_multiple : forall s m, 0 < m -> (m | floor_mult s m) /\ s - m < floor_mult s m <= s.
Proof. exact P_C18_general.floor_mult_spec. Qed.
Theorem C18_ceilMultiple : forall sg w s m, P_C18_general.width w -> in_T sg w s = true -> in_T sg w m = true -> 0 < m ->
  (sg = true -> - 2 ^ (w - 1) < s) -> in_T sg w (ceil_mult s m) = true -> ceilMultiple sg w s m = ceil_mult s m.
Proof. exact P_C18_general.ceilMultiple_correct. Qed.
Theorem C18_floorMultiple : forall sg w s m, P_C18_general.width w -> in_T sg w s = true -> in_T sg w m = true -> 0 < m ->
  in_T sg w (floor_mult s m) = true -> floorMultiple sg w s m = floor_mult s m.
Proof. exact P_C18_general.floorMultiple_correct. Qed.
Theorem C18_isMultiple : forall sg w x m, P_C18_general.width w -> in_T sg w x = true -> in_T sg w m = true -> m <> 0 ->
  (sg = true -> - 2 ^ (w - 1) < x) -> isMultiple sg w x m = true <-> (m | x).
Proof. exact P_C18_general.isMultiple_correct. Qed.
Theorem C18_roundMultiple_refuted : exists s m, in_T true 32 s = true /\ 0 < m /\ in_T true 32 m = true /\ Z.abs (roundMultiple true 32 s m - s) > Z.abs (ceil_mult s m - s).
Proof. exact P_C18_general.roundMultiple_refuted. Qed.
Theorem C18_roundMultiple_is_floorMultiple : forall sg w s m, roundMultiple sg w s m = floorMultiple sg w s m.
Proof. exact P_C18_general.roundMultiple_is_floor. Qed.

(* ---- mask / fill *)
Theorem C18_mask : forall sg w bits, P_C18_general.width w -> 0 <= bits -> umod w (mask sg w bits) = 2 ^ (Z.min bits w) - 1.
Proof. exact P_C18_general.mask_correct. Qed.
Theorem C18_fillOne_every_value : forall sg w v f c, 0 < w -> umod w (bitfieldFillOne sg w v f c) = Z.lor (umod w v) (umod w (int_mask_shl f c)).
Proof. exact P_C18_general.fillOne_structure. Qed.
Theorem C18_fillZero_every_value : forall sg w v f c, 0 < w -> umod w (bitfieldFillZero sg w v f c) = Z.land (umod w v) (umod w (Z.lnot (int_mask_shl f c))).
Proof. exact P_C18_general.fillZero_structure. Qed.
Theorem C18_fill_constants_every_field :
  forallb (fun swl => let '(sg, w, lim) := swl in fill_const_ok sg w lim)
    [(false, 8, 8); (true, 8, 8); (false, 16, 16); (true, 16, 16); (false, 32, 32); (true, 32, 32); (false, 64, 31); (true, 64, 31)] = true.
Proof. exact P_C18_w8.fill_consts. Qed.
Theorem C18_bitfieldFillOne_64bit_refuted : exists v f c, 0 <= f /\ 0 <= c /\ f + c <= 64 /\ umod 64 (bitfieldFillOne false 64 v f c) <> Z.lor v (field f c).
Proof. exact P_C18_general.bitfieldFillOne_64bit_refuted. Qed.

(* ---- 8- and 16-bit types, every value: power-of-two family, gtx/bit, findNSB (every count), rotations (every shift) *)
Theorem C18_uint8_pow2 : forallb (pow2_ok false 8) (vals false 8) = true. Proof. exact P_C18_w8.pow2_u8. Qed.
Theorem C18_int8_pow2 : forallb (pow2_ok true 8) (vals true 8) = true. Proof. exact P_C18_w8.pow2_i8. Qed.
Theorem C18_uint8_findNSB : forallb (nsb_ok false 8) (vals false 8) = true. Proof. exact P_C18_w8.nsb_u8. Qed.
Theorem C18_int8_findNSB : forallb (nsb_ok true 8) (vals true 8) = true. Proof. exact P_C18_w8.nsb_i8. Qed.
Theorem C18_uint8_rotations_are_swapped : forallb (rot_swapped_ok 8) (vals false 8) = true. Proof. exact P_C18_w8.rot_u8. Qed.
Theorem C18_16bit_all_values :
  forallb (fun k => forallb (pow2_ok false 16) (shard16 false k) && forallb (pow2_ok true 16) (shard16 true k) &&
                    forallb (nsb_ok false 16) (shard16 false k) && forallb (nsb_ok true 16) (shard16 true k) &&
                    forallb (rot_swapped_ok 16) (shard16 false k)) [0; 1; 2; 3; 4; 5; 6; 7] = true.
Proof. cbn [forallb].
  rewrite P_C18_w16_0.pow2_u16, P_C18_w16_0.pow2_i16, P_C18_w16_0.nsb_u16, P_C18_w16_0.nsb_i16, P_C18_w16_0.rot_u16,
          P_C18_w16_1.pow2_u16, P_C18_w16_1.pow2_i16, P_C18_w16_1.nsb_u16, P_C18_w16_1.nsb_i16, P_C18_w16_1.rot_u16,
          P_C18_w16_2.pow2_u16, P_C18_w16_2.pow2_i16, P_C18_w16_2.nsb_u16, P_C18_w16_2.nsb_i16, P_C18_w16_2.rot_u16,
          P_C18_w16_3.pow2_u16, P_C18_w16_3.pow2_i16, P_C18_w16_3.nsb_u16, P_C18_w16_3.nsb_i16, P_C18_w16_3.rot_u16,
          P_C18_w16_4.pow2_u16, P_C18_w16_4.pow2_i16, P_C18_w16_4.nsb_u16, P_C18_w16_4.nsb_i16, P_C18_w16_4.rot_u16,
          P_C18_w16_5.pow2_u16, P_C18_w16_5.pow2_i16, P_C18_w16_5.nsb_u16, P_C18_w16_5.nsb_i16, P_C18_w16_5.rot_u16,
          P_C18_w16_6.pow2_u16, P_C18_w16_6.pow2_i16, P_C18_w16_6.nsb_u16, P_C18_w16_6.nsb_i16, P_C18_w16_6.rot_u16,
          P_C18_w16_7.pow2_u16, P_C18_w16_7.pow2_i16, P_C18_w16_7.nsb_u16, P_C18_w16_7.nsb_i16, P_C18_w16_7.rot_u16. reflexivity. Qed.
Theorem C18_bitfieldRotateRight_refuted : exists x s, 0 <= x < 2 ^ 32 /\ 0 < s < 32 /\ umod 32 (bitfieldRotateRight false 32 x s) <> rotr_spec 32 x s.
Proof. exact P_C18_general.bitfieldRotateRight_refuted. Qed.
Theorem C18_bitfieldRotateLeft_refuted : exists x s, 0 <= x < 2 ^ 32 /\ 0 < s < 32 /\ umod 32 (bitfieldRotateLeft false 32 x s) <> rotl_spec 32 x s.
Proof. exact P_C18_general.bitfieldRotateLeft_refuted. Qed.
Theorem C18_floorPowerOfTwo_negative_refuted : exists x, in_T true 32 x = true /\ x < 0 /\ floorPowerOfTwo true 32 x <> - floor_pow2 (- x) /\ 0 < floorPowerOfTwo true 32 x.
Proof. exact P_C18_general.floorPowerOfTwo_negative_refuted. Qed.
Theorem C18_roundPowerOfTwo_narrow_refuted : exists x, in_T false 8 x = true /\ nearest_pow2 x (floor_pow2 x) = true /\ in_T false 8 (floor_pow2 x) = true /\ roundPowerOfTwo false 8 x <> floor_pow2 x.
Proof. exact P_C18_general.roundPowerOfTwo_narrow_refuted. Qed.

(* ---- the power-of-two family on every width: every positive value x of T (x <= maxT) *)
Theorem C18_isPowerOfTwo_every_positive_value : forall sg w x, P_C05_count.width w -> 0 < x <= maxT sg w -> isPowerOfTwo sg w x = is_pow2 x /\ isPowerOfTwoV sg w x = is_pow2 x.
Proof. exact P_C18_pow2.isPowerOfTwo_pos. Qed.
Theorem C18_ceilPowerOfTwo_every_positive_value : forall sg w x, P_C05_count.width w -> 0 < x <= maxT sg w -> ceil_pow2 x <= maxT sg w -> ceilPowerOfTwo sg w x = ceil_pow2 x.
Proof. exact P_C18_pow2.ceilPowerOfTwo_pos. Qed.
Theorem C18_floorPowerOfTwo_every_positive_value : forall sg w x, P_C05_count.width w -> 0 < x <= maxT sg w -> floorPowerOfTwo sg w x = floor_pow2 x.
Proof. exact P_C18_pow2.floorPowerOfTwo_pos. Qed.
Theorem C18_roundPowerOfTwo_every_positive_value : forall sg w x, P_C05_count.width w -> 0 < x <= maxT sg w -> ceil_pow2 x <= maxT sg w -> nearest_pow2 x (roundPowerOfTwo sg w x) = true.
Proof. exact P_C18_pow2.roundPowerOfTwo_pos. Qed.
Theorem C18_lowestBitValue_every_nonzero_value : forall sg w x, P_C05_count.width w -> in_T sg w x = true -> x <> 0 -> umod w (lowestBitValue sg w x) = 2 ^ findLSB sg w x.
Proof. exact P_C18_pow2.lowestBitValue_all. Qed.
Theorem C18_highestBitValue_every_positive_value : forall sg w x, P_C05_count.width w -> 0 < x <= maxT sg w -> highestBitValue sg w x = floor_pow2 x.
Proof. exact P_C18_pow2.highestBitValue_pos. Qed.
Theorem C18_powerOfTwoBelow_every_positive_value : forall sg w x, P_C05_count.width w -> 0 < x <= maxT sg w -> powerOfTwoBelow sg w x = floor_pow2 x.
Proof. exact P_C18_pow2.powerOfTwoBelow_pos. Qed.
Theorem C18_powerOfTwoAbove_every_positive_value : forall sg w x, P_C05_count.width w -> 0 < x <= maxT sg w -> ceil_pow2 x <= maxT sg w -> powerOfTwoAbove sg w x = ceil_pow2 x.
Proof. exact P_C18_pow2.powerOfTwoAbove_pos. Qed.
Theorem C18_powerOfTwoNearest_every_positive_value : forall sg w x, P_C05_count.width w -> 0 < x <= maxT sg w -> ceil_pow2 x <= maxT sg w -> nearest_pow2 x (powerOfTwoNearest sg w x) = true.
Proof. exact P_C18_pow2.powerOfTwoNearest_pos. Qed.
(* findNSB(x, n), n >= 1: -1 when x has fewer than n set bits, otherwise the position r of a set bit with exactly n - 1 set bits below it *)
Theorem C18_findNSB_every_value_and_count : forall sg w x n, P_C05_count.width w -> 1 <= n ->
  let u := umod w x in
  (bitCount sg w x < n -> findNSB sg w x n = -1) /\
  (n <= bitCount sg w x -> let r := findNSB sg w x n in 0 <= r < w /\ Z.testbit u r = true /\ GLMV.PopLadder.pc (Z.to_nat r) u = n - 1).
Proof. exact P_C18_nsb.findNSB_all. Qed.
Theorem C18_nlz_every_value : forall x, 0 <= x < 2 ^ 32 -> nlz x = if x =? 0 then 32 else 31 - Z.log2 x.
Proof. exact P_C18_pow2.nlz_all. Qed.
Example C18_pow2_example : ceilPowerOfTwo false 64 9223372036854775807 = 9223372036854775808 /\ floorPowerOfTwo true 32 2147483647 = 1073741824 /\ isPowerOfTwo false 32 2147483648 = true.
Proof. vm_compute. repeat split; reflexivity. Qed.

(* ---- gtx/integer *)
Theorem C18_sqrt_below_65536 :
  forallb (fun k => forallb sqrt_ok (zrange (Z.to_nat 16384) (16384 * k))) [0; 1; 2; 3] = true.
Proof. cbn [forallb]. rewrite P_C18_sqrt_0.sqrt_shard, P_C18_sqrt_1.sqrt_shard, P_C18_sqrt_2.sqrt_shard, P_C18_sqrt_3.sqrt_shard. reflexivity. Qed.
Theorem C18_factorial_32 : forallb (fun n => (factorial true 32 (Z.of_nat n) =? fact n) && (factorial false 32 (Z.of_nat n) =? fact n)) (seq 0 13) = true.
Proof. exact P_C18_w8.factorial_32. Qed.
Theorem C18_factorial_64 : forallb (fun n => (factorial true 64 (Z.of_nat n) =? fact n) && (factorial false 64 (Z.of_nat n) =? fact n)) (seq 0 21) = true.
Proof. exact P_C18_w8.factorial_64. Qed.
(* every 32-bit value: if the Newton loop leaves within the model's fuel (result <> -2) the result is floor(sqrt x); see P_C18_general *)
Theorem C18_sqrt_int_partial : forall x, in_T true 32 x = true -> 0 <= x -> sqrt_int x = -2 \/ sqrt_int x = Z.sqrt x.
Proof. exact P_C18_general.sqrt_int_partial. Qed.
Theorem C18_sqrt_uint_partial : forall x, in_T false 32 x = true -> sqrt_uint x = -2 \/ sqrt_uint x = Z.sqrt x.
Proof. exact P_C18_general.sqrt_uint_partial. Qed.
(* every 32-bit value, full statement (partial correctness + the 64-iteration fuel of the model suffices) *)
Theorem C18_sqrt_int_every_value : forall x, in_T true 32 x = true -> 0 <= x -> sqrt_int x = Z.sqrt x.
Proof. exact P_C18_general.sqrt_int_correct. Qed.
Theorem C18_sqrt_uint_every_value : forall x, in_T false 32 x = true -> sqrt_uint x = Z.sqrt x.
Proof. exact P_C18_general.sqrt_uint_correct. Qed.
(* every width, every n whose factorial is a value of T (unbounded statement; the two sweeps above are its instances) *)
Theorem C18_factorial_all : forall sg w n, 0 < w -> (n <= 199)%nat -> in_T sg w (fact n) = true -> factorial sg w (Z.of_nat n) = fact n.
Proof. exact P_C18_general.factorial_correct. Qed.
Theorem C18_mod_int : forall x y, in_T true 32 x = true -> 0 < y < 2 ^ 30 -> mod_int x y = x mod y. Proof. exact P_C18_general.mod_int_correct. Qed.
Theorem C18_mod_uint : forall x y, 0 <= x < 2 ^ 32 -> 0 < y < 2 ^ 32 -> mod_uint x y = x mod y. Proof. exact P_C18_general.mod_uint_correct. Qed.
Theorem C18_pow_int : forall x y, 0 < y -> in_T true 32 (x ^ y) = true -> pow_int x y = x ^ y. Proof. exact P_C18_general.pow_int_correct. Qed.
Theorem C18_pow_uint : forall x y, 0 <= y -> in_T false 32 (x ^ y) = true -> pow_uint x y = x ^ y. Proof. exact P_C18_general.pow_uint_correct. Qed.
Theorem C18_pow_int_zero_exponent_refuted : exists x, in_T true 32 x = true /\ pow_int x 0 <> x ^ 0. Proof. exact P_C18_general.pow_int_zero_exponent_refuted. Qed.

(* non-vacuity: the hypotheses of the general theorems are met by concrete values *)
Example C18_ceilMultiple_example : ceilMultiple true 16 (-7) 4 = -4 /\ ceilMultiple false 8 0 3 = 0 /\ floorMultiple true 8 (-7) 4 = -8.
Proof. vm_compute. repeat split. Qed.
Example C18_interleave_example : run_il pub_u8_2 [255; 0] = 21845 /\ run_de de_u16 43690 = [0; 255].
Proof. vm_compute. split; reflexivity. Qed.

Print Assumptions C18_interleave_u32x2.
Print Assumptions C18_deinterleave_u64.
Print Assumptions C18_ceilMultiple.
Print Assumptions C18_isMultiple.
Print Assumptions C18_mask.
Print Assumptions C18_16bit_all_values.
Print Assumptions C18_fillOne_every_value.
Print Assumptions C18_mod_int.
Print Assumptions C18_factorial_all.
Print Assumptions C18_sqrt_int_partial.
Print Assumptions C18_sqrt_uint_partial.
Print Assumptions C18_sqrt_int_every_value.
Print Assumptions C18_sqrt_uint_every_value.
Print Assumptions C18_ceilPowerOfTwo_every_positive_value.
Print Assumptions C18_roundPowerOfTwo_every_positive_value.
Print Assumptions C18_lowestBitValue_every_nonzero_value.
Print Assumptions C18_highestBitValue_every_positive_value.
Print Assumptions C18_findNSB_every_value_and_count.
