(* C18 definitions: boolean checkers for the exhaustive 8/16-bit theorems and the generic statements about translated ladders.
   Specifications: is_pow2 / ceil_pow2 / floor_pow2 / ceil_mult / floor_mult / findNSB_spec / rotl_spec / rotr_spec / field of
   GLMM.BitUtil, spread / spec_or of GLMV.OrHom. *)
Require Import ZArith List Bool Lia.
Import ListNotations.
From GLMV Require Import OrHom.
From GLMM Require Import Half IntFn BitUtil.
Local Open Scope Z_scope.

Definition maxT (sg : bool) (w : Z) : Z := if sg then 2 ^ (w - 1) - 1 else 2 ^ w - 1.
Definition vals (sg : bool) (w : Z) : list Z := map (norm sg w) (zrange (Z.to_nat (2 ^ w)) 0).
Definition shard16 (sg : bool) (k : Z) : list Z := map (norm sg 16) (zrange (Z.to_nat 8192) (8192 * k)).

(* nearest power of two: r is the floor or the ceiling power, whichever is at most as far as the other *)
Definition nearest_pow2 (x r : Z) : bool :=
  let f := floor_pow2 x in let c := ceil_pow2 x in
  ((r =? f) && (x - f <=? c - x)) || ((r =? c) && (c - x <=? x - f)).

(* power-of-two family at one value x of T = (sg, w).  x = 0 and the most negative value (whose magnitude is not a T) are
   conventions; a result is required only when it is representable.  For negative x the magnitude is rounded and the
   sign kept (compute_ceilPowerOfTwo's explicit Sign factor). *)
Definition pow2_ok (sg : bool) (w x : Z) : bool :=
  if (x =? 0) || (sg && (x =? - 2 ^ (w - 1))) then true else
  let a := Z.abs x in let sgn := if x <? 0 then -1 else 1 in
  Bool.eqb (isPowerOfTwo sg w x) (is_pow2 a) && Bool.eqb (isPowerOfTwoV sg w x) (is_pow2 a) &&
  (if ceil_pow2 a <=? maxT sg w then ceilPowerOfTwo sg w x =? sgn * ceil_pow2 a else true) &&
  (if 0 <? x then
     (floorPowerOfTwo sg w x =? floor_pow2 x) && (highestBitValue sg w x =? floor_pow2 x) && (powerOfTwoBelow sg w x =? floor_pow2 x) &&
     (if ceil_pow2 x <=? maxT sg w then (powerOfTwoAbove sg w x =? ceil_pow2 x) && nearest_pow2 x (roundPowerOfTwo sg w x) && nearest_pow2 x (powerOfTwoNearest sg w x) else true)
   else true) &&
  (umod w (lowestBitValue sg w x) =? 2 ^ lowest_set w x).

(* findNSB at one value: every count 1 .. w+1 *)
Definition nsb_ok (sg : bool) (w x : Z) : bool :=
  forallb (fun n => findNSB sg w x n =? findNSB_spec w x n) (zrange (Z.to_nat (w + 1)) 1).

(* the rotations as written: for unsigned T, "Right" is the left rotation and "Left" the right rotation (0 < shift < w) *)
Definition rot_swapped_ok (w x : Z) : bool :=
  forallb (fun s => (bitfieldRotateRight false w x s =? rotl_spec w x s) && (bitfieldRotateLeft false w x s =? rotr_spec w x s)) (zrange (Z.to_nat (w - 1)) 1).

(* all (first, count) with first + count <= lim *)
Definition fields (lim : Z) : list (Z * Z) := flat_map (fun o => map (fun b => (o, b)) (zrange (Z.to_nat (lim - o + 1)) 0)) (zrange (Z.to_nat lim) 0).
Definition fill_const_ok (sg : bool) (w lim : Z) : bool :=
  forallb (fun fc => let '(f, c) := fc in (umod w (int_mask_shl f c) =? field f c) && (umod w (Z.lnot (int_mask_shl f c)) =? 2 ^ w - 1 - field f c)) (fields lim).

(* gtx/integer *)
Definition sqrt_ok (x : Z) : bool := (sqrt_int x =? Z.sqrt x) && (sqrt_uint x =? Z.sqrt x).
Fixpoint fact (n : nat) : Z := match n with O => 1 | S k => Z.of_nat n * fact k end.

(* ---- translated ladders *)
Definition il_check (prog : Z * list reg) (n b : nat) : bool := ladder_check (fst prog) n b (snd prog).
Definition de_check_prog (il : Z * list reg) (de : Z * Z * list reg) (b : nat) : bool :=
  match snd il, de with
  | [f0; f1], (rwd, ow, [d0; d1]) => de_check (fst il) f0 f1 rwd ow d0 d1 b
  | _, _ => false
  end.
Definition run_il (prog : Z * list reg) (args : list Z) : Z := run_or (fst prog) (snd prog) args.
Definition run_de (de : Z * Z * list reg) (x : Z) : list Z := let '(rwd, ow, regs) := de in map (trunc ow) (run_vec rwd regs [x]).

Theorem interleave_bits prog n b : il_check prog n b = true -> (0 < n)%nat ->
  forall args, (forall k, (k < n)%nat -> 0 <= nth k args 0 < 2 ^ Z.of_nat b) -> forall j, 0 <= j ->
  Z.testbit (run_il prog args) j =
  if j / Z.of_nat n <? Z.of_nat b then Z.testbit (nth (Z.to_nat (j mod Z.of_nat n)) args 0) (j / Z.of_nat n) else false.
Proof. intros Hc Hn args Ha j Hj. unfold run_il. rewrite (run_or_ok _ n b _ Hc args Ha). now apply spec_or_testbit. Qed.

Theorem deinterleave_inverts il de b : de_check_prog il de b = true ->
  forall x y, 0 <= x < 2 ^ Z.of_nat b -> 0 <= y < 2 ^ Z.of_nat b -> run_de de (run_il il [x; y]) = [x; y].
Proof.
  unfold de_check_prog, run_de, run_il. destruct il as [rwi regs]. cbn [fst snd].
  destruct regs as [|f0 [|f1 [|? ?]]]; try discriminate. destruct de as [[rwd ow] dregs].
  destruct dregs as [|d0 [|d1 [|? ?]]]; try discriminate. intros Hc x y Hx Hy. now apply deinterleave_ok with (b := b).
Qed.
