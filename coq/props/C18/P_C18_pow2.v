(* C18, the power-of-two family for EVERY positive value of every 8/16/32/64-bit element type (signed and unsigned), from the ladder theorems of
   C05 (P_C05_msb.smear_all: the smear ladder turns v into the run of ones up to its top bit; findMSB_all: findMSB = log2):
   isPowerOfTwo, ceilPowerOfTwo (when the result is representable), floorPowerOfTwo, roundPowerOfTwo (when the next power is representable), nlz. *)
Require Import ZArith List Bool Lia.
Import ListNotations.
From GLMV Require Import OrHom PopLadder.
From GLMM Require Import IntFn BitUtil.
From W Require Import P_C05_count P_C05_msb A_C18_defs.
Local Open Scope Z_scope.

Lemma pos_in_T sg w x : 0 < w -> 0 <= x <= maxT sg w -> in_T sg w x = true.
Proof.
  intros Hw Hx. unfold maxT in Hx. unfold in_T. pose proof (Z.pow_pos_nonneg 2 (w - 1) ltac:(lia) ltac:(lia)).
  destruct sg; apply andb_true_iff; split; try apply Z.leb_le; try apply Z.ltb_lt; lia.
Qed.
(* x & (x - 1) = 0 exactly for the powers of two *)
Lemma land_pred_pow2 x : 0 < x -> (Z.land x (x - 1) =? 0) = (2 ^ Z.log2 x =? x).
Proof.
  intros Hx. pose proof (Z.log2_spec x Hx) as [L1 L2]. pose proof (Z.log2_nonneg x) as Ln. set (k := Z.log2 x) in *.
  destruct (Z.eqb_spec (2 ^ k) x) as [E|E].
  - apply Z.eqb_eq. rewrite <- E. replace (2 ^ k - 1) with (Z.ones k) by (rewrite Z.ones_equiv; lia). rewrite Z.land_ones by lia. apply Z.mod_same. lia.
  - apply Z.eqb_neq. intros H0. assert (T1 : Z.testbit x k = true) by (apply Z.bit_log2; lia).
    assert (T2 : Z.testbit (x - 1) k = true).
    { replace k with (Z.log2 (x - 1)); [apply Z.bit_log2; lia|]. apply Z.log2_unique; [lia|]. rewrite Z.pow_succ_r in L2 by lia. rewrite Z.pow_succ_r by lia. lia. }
    assert (T3 : Z.testbit (Z.land x (x - 1)) k = true) by (rewrite Z.land_spec, T1, T2; reflexivity). rewrite H0, Z.bits_0 in T3. discriminate.
Qed.
Lemma land_lt_pow2 a b k : 0 <= k -> 0 <= a < 2 ^ k -> 0 <= b -> 0 <= Z.land a b < 2 ^ k.
Proof.
  intros Hk Ha Hb. split; [apply Z.land_nonneg; lia|]. destruct (Z.eq_dec (Z.land a b) 0) as [->|Hz]; [lia|].
  assert (a <> 0) by (intros ->; apply Hz, Z.land_0_l).
  apply Z.log2_lt_pow2; [pose proof (Z.land_nonneg a b); lia|]. apply Z.le_lt_trans with (Z.min (Z.log2 a) (Z.log2 b)); [apply Z.log2_land; lia|].
  apply Z.le_lt_trans with (Z.log2 a); [apply Z.le_min_l | apply Z.log2_lt_pow2; lia].
Qed.
Lemma maxT_pow sg w : 0 < w -> exists k, 0 <= k /\ maxT sg w = 2 ^ k - 1.
Proof. intros Hw. unfold maxT. destruct sg; [exists (w - 1) | exists w]; split; lia. Qed.
Lemma cT_id sg w x : width w -> 0 <= x <= maxT sg w -> cT sg w x = x.
Proof. intros Hw H. pose proof (width_pos w Hw). apply norm_id; [lia | apply pos_in_T; [lia | exact H]]. Qed.
Lemma ar_id sg w x : width w -> 0 <= x <= maxT sg w -> ar sg w x = x.
Proof. intros Hw H. unfold ar. destruct (w <? 32); [reflexivity | apply cT_id; assumption]. Qed.
Lemma absT_pos sg w x : width w -> 0 <= x <= maxT sg w -> absT sg w x = x.
Proof. intros Hw H. unfold absT. pose proof (cT_id sg w x Hw H) as E. destruct sg; [|reflexivity]. replace (0 <=? x) with true by (symmetry; apply Z.leb_le; lia). exact E. Qed.
Theorem isPowerOfTwo_pos sg w x : width w -> 0 < x <= maxT sg w -> isPowerOfTwo sg w x = is_pow2 x /\ isPowerOfTwoV sg w x = is_pow2 x.
Proof.
  intros Hw Hx. pose proof (width_pos w Hw) as Wp. unfold isPowerOfTwo, isPowerOfTwoV, is_pow2. cbv zeta. rewrite absT_pos, ar_id by (try assumption; lia). rewrite (cT_id sg w (x - 1)) by (try assumption; lia).
  replace (0 <? x) with true by (symmetry; apply Z.ltb_lt; lia). cbn [andb]. rewrite <- land_pred_pow2 by lia. split; [reflexivity|].
  rewrite cT_id; [reflexivity|exact Hw|]. destruct (maxT_pow sg w Wp) as (k & Hk & E). rewrite E in *.
  pose proof (land_lt_pow2 x (x - 1) k Hk ltac:(lia) ltac:(lia)). lia.
Qed.
Lemma smear_is_msb_step sg w v s m : smear sg w v s m = msb_step sg w v (s, m). Proof. reflexivity. Qed.
Lemma ladder_run sg w v : width w -> 0 <= v <= maxT sg w ->
  fold_left (msb_step sg w) msteps v = if v =? 0 then 0 else Z.ones (Z.log2 v + 1).
Proof.
  intros Hw Hv. pose proof (width_pos w Hw) as Wp.
  assert (P : 2 ^ w = 2 * 2 ^ (w - 1)) by (replace w with (Z.succ (w - 1)) at 1 by lia; apply Z.pow_succ_r; lia).
  assert (Q : 0 < 2 ^ (w - 1)) by (apply Z.pow_pos_nonneg; lia).
  assert (E : fold_left (msb_step sg w) msteps v = smear_u w v).
  { destruct sg; [|reflexivity]. apply msb_ladder_small; [exact Wp | reflexivity | unfold maxT in Hv; lia]. }
  rewrite E. pose proof (smear_all (Z.to_nat w) v (smear_ok_width w Hw)) as S. rewrite Z2Nat.id in S by lia. apply S. unfold maxT in Hv. destruct sg; lia.
Qed.
Theorem ceilPowerOfTwo_pos sg w x : width w -> 0 < x <= maxT sg w -> ceil_pow2 x <= maxT sg w -> ceilPowerOfTwo sg w x = ceil_pow2 x.
Proof.
  intros Hw Hx Hc. pose proof (width_pos w Hw) as Wp.
  assert (L : ceil_ladder sg w x = ceil_pow2 x).
  { unfold ceil_ladder. cbv zeta. rewrite !smear_is_msb_step. rewrite (cT_id sg w (x - 1)) by (try assumption; lia).
    change (msb_step sg w (msb_step sg w (msb_step sg w (msb_step sg w (msb_step sg w (msb_step sg w (x - 1) (1, 8)) (2, 8)) (4, 8)) (8, 16)) (16, 32)) (32, 64))
      with (fold_left (msb_step sg w) msteps (x - 1)).
    rewrite ladder_run by (try assumption; lia). unfold ceil_pow2 in *.
    destruct (Z.eqb_spec (x - 1) 0) as [E|E].
    - replace x with 1 by lia. cbn. apply cT_id; [exact Hw|]. lia.
    - assert (LU : Z.log2_up x = Z.succ (Z.log2 (x - 1))) by (rewrite Z.log2_up_eqn by lia; reflexivity). rewrite LU in *.
      rewrite Z.ones_equiv. replace (Z.log2 (x - 1) + 1) with (Z.succ (Z.log2 (x - 1))) by lia.
      replace (Z.pred (2 ^ Z.succ (Z.log2 (x - 1))) + 1) with (2 ^ Z.succ (Z.log2 (x - 1))) by lia. apply cT_id; [exact Hw|].
      pose proof (Z.pow_pos_nonneg 2 (Z.succ (Z.log2 (x - 1))) ltac:(lia) ltac:(pose proof (Z.log2_nonneg (x - 1)); lia)). lia. }
  unfold ceilPowerOfTwo. destruct sg; [|exact L]. rewrite absT_pos by (try assumption; lia). rewrite L. unfold signT.
  replace (x <? 0) with false by (symmetry; apply Z.ltb_ge; lia). replace (x =? 0) with false by (symmetry; apply Z.eqb_neq; lia). rewrite Z.mul_1_r.
  apply cT_id; [exact Hw|]. unfold ceil_pow2 in *. pose proof (Z.pow_pos_nonneg 2 (Z.log2_up x) ltac:(lia) (Z.log2_up_nonneg x)). lia.
Qed.
Theorem floorPowerOfTwo_pos sg w x : width w -> 0 < x <= maxT sg w -> floorPowerOfTwo sg w x = floor_pow2 x.
Proof.
  intros Hw Hx. pose proof (width_pos w Hw) as Wp. unfold floorPowerOfTwo, floor_pow2. destruct (isPowerOfTwo_pos sg w x Hw Hx) as [E _]. rewrite E. unfold is_pow2.
  replace (0 <? x) with true by (symmetry; apply Z.ltb_lt; lia). cbn [andb]. destruct (Z.eqb_spec (2 ^ Z.log2 x) x) as [H|H]; [symmetry; exact H|].
  destruct (findMSB_all sg w x Hw (pos_in_T sg w x Wp ltac:(lia))) as [_ F]. replace (sg && (x <? 0)) with false in F by (replace (x <? 0) with false by (symmetry; apply Z.ltb_ge; lia); now rewrite andb_false_r).
  replace (x =? 0) with false in F by (symmetry; apply Z.eqb_neq; lia). rewrite F. apply cT_id; [exact Hw|]. pose proof (Z.log2_spec x ltac:(lia)). pose proof (Z.pow_pos_nonneg 2 (Z.log2 x) ltac:(lia) (Z.log2_nonneg x)). lia.
Qed.
Theorem nlz_all x : 0 <= x < 2 ^ 32 -> nlz x = if x =? 0 then 32 else 31 - Z.log2 x.
Proof.
  intros Hx. unfold nlz. assert (Hw : width 32) by (right; right; left; reflexivity).
  destruct (findMSB_all false 32 x Hw) as [_ F]; [unfold in_T; apply andb_true_iff; split; [apply Z.leb_le | apply Z.ltb_lt]; lia|]. cbn [andb] in F. rewrite F.
  destruct (Z.eqb_spec x 0) as [E|E]; [reflexivity|]. assert (0 <= Z.log2 x < 32) by (split; [apply Z.log2_nonneg | apply Z.log2_lt_pow2; lia]).
  apply norm_id; [lia|]. unfold in_T. apply andb_true_iff; split; [apply Z.leb_le | apply Z.ltb_lt]; lia.
Qed.
Theorem roundPowerOfTwo_pos sg w x : width w -> 0 < x <= maxT sg w -> ceil_pow2 x <= maxT sg w -> nearest_pow2 x (roundPowerOfTwo sg w x) = true.
Proof.
  intros Hw Hx Hc. pose proof (width_pos w Hw) as Wp. unfold roundPowerOfTwo, nearest_pow2. cbv zeta. destruct (isPowerOfTwo_pos sg w x Hw Hx) as [E _]. rewrite E. unfold is_pow2.
  replace (0 <? x) with true by (symmetry; apply Z.ltb_lt; lia). cbn [andb]. unfold floor_pow2, ceil_pow2 in *.
  pose proof (Z.log2_spec x ltac:(lia)) as [L1 L2]. pose proof (Z.log2_nonneg x) as Ln. set (k := Z.log2 x) in *.
  destruct (Z.eqb_spec (2 ^ k) x) as [H|H].
  - apply orb_true_iff. left. apply andb_true_iff. split; [apply Z.eqb_eq; lia|]. apply Z.leb_le.
    assert (LU : Z.log2_up x = k) by (rewrite <- H; apply Z.log2_up_pow2; lia). rewrite LU. lia.
  - assert (LU : Z.log2_up x = Z.succ k) by (apply Z.log2_up_unique; [lia|]; rewrite Z.pred_succ; lia). rewrite LU in *. rewrite Z.pow_succ_r in * by lia.
    destruct (findMSB_all sg w x Hw (pos_in_T sg w x Wp ltac:(lia))) as [_ F]. replace (sg && (x <? 0)) with false in F by (replace (x <? 0) with false by (symmetry; apply Z.ltb_ge; lia); now rewrite andb_false_r).
    replace (x =? 0) with false in F by (symmetry; apply Z.eqb_neq; lia). rewrite F. fold k.
    rewrite (cT_id sg w (2 ^ k)) by (try assumption; lia). rewrite (Z.mul_comm (2 ^ k) 2). rewrite (cT_id sg w (2 * 2 ^ k)) by (try assumption; lia).
    rewrite !ar_id by (try assumption; lia).
    destruct (Z.ltb_spec (2 * 2 ^ k - x) (x - 2 ^ k)) as [C|C]; apply orb_true_iff; [right | left]; rewrite Z.eqb_refl; cbn [andb]; apply Z.leb_le; lia.
Qed.
(* gtx lowestBitValue: x & (~x + 1) is the lowest one bit of the pattern, 2^findLSB(x), for every non-zero value (negative ones included) *)
Lemma umod_ar sg w z : width w -> umod w (ar sg w z) = umod w z.
Proof. intros Hw. unfold ar. destruct (w <? 32); [reflexivity | apply umod_norm, width_pos, Hw]. Qed.
Lemma umod_add_l w a b : 0 < w -> umod w (a + b) = umod w (umod w a + b).
Proof. intros Hw. rewrite !umod_mod by lia. rewrite Z.add_mod_idemp_l by (apply Z.pow_nonzero; lia). reflexivity. Qed.
Theorem lowestBitValue_all sg w x : width w -> in_T sg w x = true -> x <> 0 -> umod w (lowestBitValue sg w x) = 2 ^ findLSB sg w x.
Proof.
  intros Hw HT Hx. pose proof (width_pos w Hw) as Wp. unfold lowestBitValue. unfold cT. rewrite umod_norm, umod_land, umod_ar by assumption.
  rewrite umod_add_l, umod_ar, <- umod_add_l by assumption. rewrite <- umod_land. replace (Z.lnot x + 1) with (- x) by (unfold Z.lnot; lia).
  rewrite umod_mod by lia. pose proof (land_neg_low (Z.to_nat w) x) as L. rewrite Z2Nat.id in L by lia. rewrite L.
  rewrite findLSB_ctz by assumption. destruct (findLSB_all sg w x Hw HT) as [_ F]. specialize (F Hx). cbv zeta in F. rewrite findLSB_ctz in F by assumption.
  replace (ctz (Z.to_nat w) x <? w) with true by (symmetry; apply Z.ltb_lt; lia). reflexivity.
Qed.
(* gtx highestBitValue: the loop clears the lowest set bit until nothing is left and returns the last bit cleared = 2^log2 x, for every positive value *)
Lemma cT_of_umod sg w z v : width w -> umod w z = v -> 0 <= v <= maxT sg w -> cT sg w z = v.
Proof.
  intros Hw E Hv. pose proof (width_pos w Hw) as Wp. unfold cT, norm. rewrite E. cbv zeta.
  assert (P : 2 ^ w = 2 * 2 ^ (w - 1)) by (replace w with (Z.succ (w - 1)) at 1 by lia; apply Z.pow_succ_r; lia).
  destruct sg; cbn [andb]; [|reflexivity]. unfold maxT in Hv. replace (2 ^ (w - 1) <=? v) with false by (symmetry; apply Z.leb_gt; lia). reflexivity.
Qed.
Lemma umod_small w v : 0 < w -> 0 <= v < 2 ^ w -> umod w v = v.
Proof. intros Hw Hv. rewrite umod_mod by lia. apply Z.mod_small, Hv. Qed.
Lemma maxT_lt sg w : 0 < w -> maxT sg w < 2 ^ w.
Proof. intros Hw. unfold maxT. assert (P : 2 ^ w = 2 * 2 ^ (w - 1)) by (replace w with (Z.succ (w - 1)) at 1 by lia; apply Z.pow_succ_r; lia). pose proof (Z.pow_pos_nonneg 2 (w - 1) ltac:(lia) ltac:(lia)). destruct sg; lia. Qed.
Lemma hbv_step sg w tmp : width w -> 0 < tmp <= maxT sg w ->
  let t := ctz (Z.to_nat w) tmp in
  0 <= t < w /\ Z.testbit tmp t = true /\ cT sg w (Z.land tmp (ar sg w (ar sg w (Z.lnot tmp) + 1))) = 2 ^ t /\ cT sg w (Z.land tmp (ar sg w (Z.lnot (2 ^ t)))) = tmp - 2 ^ t.
Proof.
  intros Hw Ht. pose proof (width_pos w Hw) as Wp. pose proof (maxT_lt sg w Wp) as Mx. cbv zeta.
  destruct (lowbit_value (Z.to_nat w) tmp) as (Lv & Lt & Tb); [rewrite Z2Nat.id by lia; lia|]. rewrite Z2Nat.id in Lt by lia. set (t := ctz (Z.to_nat w) tmp) in *.
  pose proof (tb_ge_pow2 tmp t ltac:(lia) ltac:(lia) Tb) as Ge. pose proof (Z.pow_pos_nonneg 2 t ltac:(lia) ltac:(lia)) as Pp.
  split; [exact Lt|]. split; [exact Tb|]. split.
  - apply cT_of_umod; [exact Hw | | lia]. rewrite umod_land, umod_ar by assumption. rewrite umod_add_l, umod_ar, <- umod_add_l by assumption. rewrite <- umod_land.
    replace (Z.lnot tmp + 1) with (- tmp) by (unfold Z.lnot; lia). rewrite Lv. apply umod_small; lia.
  - apply cT_of_umod; [exact Hw | | lia]. rewrite umod_land, umod_ar by assumption. rewrite <- umod_land. rewrite clear_bit by (try exact Tb; lia). apply umod_small; lia.
Qed.
Lemma log2_clear tmp t : 0 < tmp -> 0 <= t -> Z.testbit tmp t = true -> tmp <> 2 ^ t -> (forall i, 0 <= i < t -> Z.testbit tmp i = false) -> Z.log2 (tmp - 2 ^ t) = Z.log2 tmp.
Proof.
  intros Hp Ht Tb Hne Low. pose proof (Z.log2_spec tmp Hp) as [L1 L2]. set (L := Z.log2 tmp) in *. pose proof (Z.log2_nonneg tmp) as Ln. fold L in Ln.
  pose proof (tb_ge_pow2 tmp t ltac:(lia) Ht Tb) as Ge.
  assert (TL : Z.testbit tmp L = true) by (apply Z.bit_log2; exact Hp).
  assert (HtL : t < L).
  { destruct (Z_lt_le_dec t L) as [|Hge]; [assumption|]. exfalso. assert (t = L) by (apply Z.le_antisymm; [|exact Hge]; apply Z.log2_le_pow2 in Ge; [exact Ge | lia]). subst t.
    (* tmp has only bit L below 2^(L+1) and nothing below L: tmp = 2^L *) apply Hne. apply Z.bits_inj'. intros i Hi. rewrite Z.pow2_bits_eqb by lia.
    destruct (Z.eqb_spec L i) as [<-|Hn]; [exact TL|]. destruct (Z_lt_le_dec i L); [apply Low; lia|]. apply Z.bits_above_log2; [lia | fold L; lia]. }
  (* tmp - 2^L still has bit t, so it is >= 2^t *)
  assert (G2 : 2 ^ t <= tmp - 2 ^ L).
  { rewrite <- (clear_bit tmp L Ln TL). apply tb_ge_pow2; [apply Z.land_nonneg; lia | exact Ht |]. rewrite Z.land_spec, Tb, Z.lnot_spec by lia. rewrite Z.pow2_bits_false by lia. reflexivity. }
  apply Z.log2_unique; [exact Ln|]. fold L. rewrite Z.pow_succ_r in * by lia. lia.
Qed.
Theorem hbv_loop_ok sg w : width w -> forall fuel tmp res, 0 < tmp <= maxT sg w -> pc (Z.to_nat w) tmp < Z.of_nat fuel -> hbv_loop sg w fuel tmp res = 2 ^ Z.log2 tmp.
Proof.
  intros Hw. pose proof (width_pos w Hw) as Wp. pose proof (maxT_lt sg w Wp) as Mx. induction fuel as [|k IH]; intros tmp res Ht Hp.
  - exfalso. pose proof (pc_pos (Z.to_nat w) tmp) as P1. rewrite Z2Nat.id in P1 by lia. specialize (P1 ltac:(lia)). cbn in Hp. lia.
  - cbn [hbv_loop]. replace (tmp =? 0) with false by (symmetry; apply Z.eqb_neq; lia). cbv zeta.
    destruct (hbv_step sg w tmp Hw Ht) as (Tr & Tb & R & N). cbv zeta in *. set (t := ctz (Z.to_nat w) tmp) in *. rewrite R, N.
    pose proof (tb_ge_pow2 tmp t ltac:(lia) ltac:(lia) Tb) as Ge. pose proof (Z.pow_pos_nonneg 2 t ltac:(lia) ltac:(lia)) as Pp.
    assert (PC : pc (Z.to_nat w) (tmp - 2 ^ t) = pc (Z.to_nat w) tmp - 1) by (apply pc_clear; [rewrite Z2Nat.id by lia; lia | exact Tb]).
    destruct (Z.eq_dec tmp (2 ^ t)) as [E|E].
    + replace (tmp - 2 ^ t) with 0 by lia. destruct k as [|j]; [exfalso; pose proof (pc_pos (Z.to_nat w) tmp) as P1; rewrite Z2Nat.id in P1 by lia; specialize (P1 ltac:(lia)); lia|].
      assert (LL : Z.log2 tmp = t) by (rewrite E; apply Z.log2_pow2; lia). rewrite LL. cbn [hbv_loop]. rewrite Z.eqb_refl. reflexivity.
    + rewrite IH; [| lia | lia]. f_equal. apply log2_clear; try lia; try exact Tb. intros i Hi. destruct (ctz_spec (Z.to_nat w) tmp) as (_ & Lo & _). apply Lo. exact Hi.
Qed.
Theorem highestBitValue_pos sg w x : width w -> 0 < x <= maxT sg w -> highestBitValue sg w x = floor_pow2 x.
Proof.
  intros Hw Hx. pose proof (width_pos w Hw) as Wp. unfold highestBitValue, floor_pow2. apply hbv_loop_ok; [exact Hw | exact Hx |].
  pose proof (pc_bound (Z.to_nat w) x) as B. rewrite Z2Nat.id in B by lia. assert (W64 : w <= 64) by (destruct Hw as [-> | [-> | [-> | ->]]]; lia). change (Z.of_nat 65) with 65. lia.
Qed.
Lemma pow2_cases x : 0 < x -> let k := Z.log2 x in (2 ^ k = x /\ Z.log2_up x = k) \/ (2 ^ k < x < 2 * 2 ^ k /\ Z.log2_up x = Z.succ k).
Proof.
  intros Hx. cbv zeta. pose proof (Z.log2_spec x Hx) as [L1 L2]. pose proof (Z.log2_nonneg x) as Ln. rewrite Z.pow_succ_r in L2 by lia.
  destruct (Z.eq_dec (2 ^ Z.log2 x) x) as [E|E]; [left; split; [exact E|]; rewrite <- E at 1; apply Z.log2_up_pow2; lia|].
  right. split; [lia|]. apply Z.log2_up_unique; [lia|]. rewrite Z.pred_succ, Z.pow_succ_r by lia. lia.
Qed.
Theorem powerOfTwoBelow_pos sg w x : width w -> 0 < x <= maxT sg w -> powerOfTwoBelow sg w x = floor_pow2 x.
Proof.
  intros Hw Hx. unfold powerOfTwoBelow. destruct (isPowerOfTwo_pos sg w x Hw Hx) as [E _]. rewrite E. unfold is_pow2, floor_pow2. replace (0 <? x) with true by (symmetry; apply Z.ltb_lt; lia). cbn [andb].
  destruct (Z.eqb_spec (2 ^ Z.log2 x) x) as [H|H]; [symmetry; exact H | apply highestBitValue_pos; assumption].
Qed.
Theorem powerOfTwoAbove_pos sg w x : width w -> 0 < x <= maxT sg w -> ceil_pow2 x <= maxT sg w -> powerOfTwoAbove sg w x = ceil_pow2 x.
Proof.
  intros Hw Hx Hc. unfold powerOfTwoAbove. destruct (isPowerOfTwo_pos sg w x Hw Hx) as [E _]. rewrite E. unfold is_pow2, ceil_pow2 in *. replace (0 <? x) with true by (symmetry; apply Z.ltb_lt; lia). cbn [andb].
  destruct (pow2_cases x ltac:(lia)) as [[P LU] | [P LU]]; cbv zeta in *; rewrite LU in *.
  - rewrite P, Z.eqb_refl. reflexivity.
  - replace (2 ^ Z.log2 x =? x) with false by (symmetry; apply Z.eqb_neq; lia). rewrite highestBitValue_pos by assumption. unfold floor_pow2. rewrite Z.pow_succ_r in * by apply Z.log2_nonneg.
    rewrite (Z.mul_comm (2 ^ Z.log2 x) 2). apply cT_id; [exact Hw|]. pose proof (Z.pow_pos_nonneg 2 (Z.log2 x) ltac:(lia) (Z.log2_nonneg x)). lia.
Qed.
Theorem powerOfTwoNearest_pos sg w x : width w -> 0 < x <= maxT sg w -> ceil_pow2 x <= maxT sg w -> nearest_pow2 x (powerOfTwoNearest sg w x) = true.
Proof.
  intros Hw Hx Hc. unfold powerOfTwoNearest, nearest_pow2. cbv zeta. destruct (isPowerOfTwo_pos sg w x Hw Hx) as [E _]. rewrite E. unfold is_pow2, floor_pow2, ceil_pow2 in *.
  replace (0 <? x) with true by (symmetry; apply Z.ltb_lt; lia). cbn [andb]. pose proof (Z.pow_pos_nonneg 2 (Z.log2 x) ltac:(lia) (Z.log2_nonneg x)) as Pp.
  destruct (pow2_cases x ltac:(lia)) as [[P LU] | [P LU]]; cbv zeta in *; rewrite LU in *.
  - rewrite P, Z.eqb_refl. apply orb_true_iff. left. apply andb_true_iff. split; [apply Z.eqb_eq; reflexivity | apply Z.leb_le; lia].
  - replace (2 ^ Z.log2 x =? x) with false by (symmetry; apply Z.eqb_neq; lia). rewrite highestBitValue_pos by assumption. unfold floor_pow2. rewrite Z.pow_succ_r in * by apply Z.log2_nonneg.
    rewrite (Z.mul_comm (2 ^ Z.log2 x) 2). rewrite (cT_id sg w (2 * 2 ^ Z.log2 x)) by (try assumption; lia). rewrite !ar_id by (try assumption; lia).
    destruct (Z.ltb_spec (2 * 2 ^ Z.log2 x - x) (x - 2 ^ Z.log2 x)) as [C|C]; apply orb_true_iff; [right | left]; rewrite Z.eqb_refl; cbn [andb]; apply Z.leb_le; lia.
Qed.
