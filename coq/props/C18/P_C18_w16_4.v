(* C18, 16-bit element types, patterns 32768..40959: power-of-two family, findNSB for every count, rotations for every shift *)
Require Import ZArith List Bool Lia.
Import ListNotations.
From GLMM Require Import Half IntFn BitUtil.
From W Require Import A_C18_defs.
Local Open Scope Z_scope.
Lemma pow2_u16 : forallb (pow2_ok false 16) (shard16 false 4) = true. Proof. vm_cast_no_check (eq_refl true). Qed.
Lemma pow2_i16 : forallb (pow2_ok true 16) (shard16 true 4) = true. Proof. vm_cast_no_check (eq_refl true). Qed.
Lemma nsb_u16 : forallb (nsb_ok false 16) (shard16 false 4) = true. Proof. vm_cast_no_check (eq_refl true). Qed.
Lemma nsb_i16 : forallb (nsb_ok true 16) (shard16 true 4) = true. Proof. vm_cast_no_check (eq_refl true). Qed.
Lemma rot_u16 : forallb (rot_swapped_ok 16) (shard16 false 4) = true. Proof. vm_cast_no_check (eq_refl true). Qed.
