(* C18, translated interleave / deinterleave ladders (Gen_C18_ladders, regenerated from glm/gtc/bitfield.inl on every run):
   the single-bit checks that OrHom.run_or_ok / deinterleave_ok lift to every argument value *)
Require Import ZArith List Bool Lia.
Import ListNotations.
From GLMV Require Import OrHom.
From W Require Import A_C18_defs Gen_C18_ladders.
Local Open Scope Z_scope.
Lemma il_u8_2 : il_check pub_u8_2 2 8 = true. Proof. vm_compute. reflexivity. Qed.
Lemma il_u16_2 : il_check pub_u16_2 2 16 = true. Proof. vm_compute. reflexivity. Qed.
Lemma il_u32_2 : il_check pub_u32_2 2 32 = true. Proof. vm_compute. reflexivity. Qed.
Lemma il_u8_3 : il_check pub_u8_3 3 8 = true. Proof. vm_compute. reflexivity. Qed.
Lemma il_u16_3 : il_check pub_u16_3 3 16 = true. Proof. vm_compute. reflexivity. Qed.
Lemma il_u32_3 : il_check pub_u32_3 3 21 = true. Proof. vm_compute. reflexivity. Qed.
Lemma il_u8_4 : il_check pub_u8_4 4 8 = true. Proof. vm_compute. reflexivity. Qed.
Lemma il_u16_4 : il_check pub_u16_4 4 16 = true. Proof. vm_compute. reflexivity. Qed.
(* the vector overloads dispatch to the same ladders *)
Lemma ilv : (il_check pubv_u8_2 2 8 && il_check pubv_u16_2 2 16 && il_check pubv_u32_2 2 32 && il_check pubv_u8_3 3 8 && il_check pubv_u16_3 3 16 &&
             il_check pubv_u32_3 3 21 && il_check pubv_u8_4 4 8 && il_check pubv_u16_4 4 16) = true. Proof. vm_compute. reflexivity. Qed.
Lemma de_16 : de_check_prog pub_u8_2 de_u16 8 = true. Proof. vm_compute. reflexivity. Qed.
Lemma de_32 : de_check_prog pub_u16_2 de_u32 16 = true. Proof. vm_compute. reflexivity. Qed.
Lemma de_64 : de_check_prog pub_u32_2 de_u64 32 = true. Proof. vm_compute. reflexivity. Qed.
