(* C18, findNSB for EVERY value and count of every 8/16/32/64-bit element type: the binary search over bit counts returns the position r of the
   n-th set bit (bit r is set and exactly n - 1 set bits lie below it), and -1 when there are fewer than n set bits.  The invariant: the key is
   the window (u / 2^pos) mod 2^W of the pattern u, and n has been reduced by the number of set bits below pos. *)
Require Import ZArith List Bool Lia.
Import ListNotations.
From GLMV Require Import PopLadder.
From GLMM Require Import IntFn BitUtil.
From W Require Import P_C05_count.
Local Open Scope Z_scope.

Fixpoint chain (W : Z) (l : list Z) : bool := (W =? 1) || match l with st :: r => (W =? 2 * st) && (0 <? st) && chain st r | [] => false end.
Lemma pc_small a n y : (a <= n)%nat -> 0 <= y < 2 ^ Z.of_nat a -> pc n y = pc a y.
Proof. intros Ha Hy. replace n with (a + (n - a))%nat by lia. rewrite pc_split. rewrite Z.mod_small, Z.div_small by exact Hy. rewrite pc_zero. lia. Qed.
Lemma pc_window u p s : pc (p + s) u = pc p u + pc s (u / 2 ^ Z.of_nat p).
Proof. rewrite pc_split, pc_mod. reflexivity. Qed.
Section Loop.
Variables (w : Z) (u : Z).
Hypothesis Hw : width w.
Hypothesis Hu : 0 <= u < 2 ^ w.
Let cnt (p : Z) : Z := pc (Z.to_nat p) u.
Lemma loop_ok : forall l W key n pos, chain W l = true -> 0 <= pos -> 0 < W -> pos + W <= w -> key = (u / 2 ^ pos) mod 2 ^ W -> 1 <= n <= pc (Z.to_nat W) key ->
  let r := nsb_loop w l key n pos in pos <= r < pos + W /\ Z.testbit u r = true /\ cnt r = cnt pos + n - 1.
Proof.
  pose proof (width_pos w Hw) as Wp.
  induction l as [|st l IH]; intros W key n pos Hc Hpos HW Hfit Hkey Hn; cbn [nsb_loop chain] in *.
  - rewrite orb_false_r in Hc. apply Z.eqb_eq in Hc. subst W. change (Z.to_nat 1) with 1%nat in Hn. cbn [pc] in Hn.
    assert (K : key = 1) by (pose proof (Z.mod_pos_bound key 2 ltac:(lia)); assert (0 <= key < 2) by (rewrite Hkey; apply Z.mod_pos_bound; lia); lia).
    rewrite K. cbn. split; [lia|]. split; [|lia]. apply Z.testbit_true; [lia|]. change (2 ^ 1) with 2 in Hkey. rewrite <- Hkey. exact K.
  - assert (Kb : 0 <= key < 2 ^ W) by (rewrite Hkey; apply Z.mod_pos_bound, Z.pow_pos_nonneg; lia).
    destruct (Z.leb_spec key 1) as [K1|K1].
    + (* the window holds a single 1: it must be at pos *)
      assert (P1 : 1 <= pc (Z.to_nat W) key) by lia. assert (K : key = 1) by (destruct (Z.eq_dec key 0) as [->|]; [rewrite pc_zero in P1; lia | lia]).
      assert (Pk : pc (Z.to_nat W) 1 = 1) by (rewrite (pc_small 1 (Z.to_nat W) 1) by (try lia; cbn; lia); reflexivity). rewrite K, Pk in Hn.
      split; [lia|]. split; [|lia]. apply Z.testbit_true; [lia|]. assert (E : (u / 2 ^ pos) mod 2 = key mod 2).
      { rewrite Hkey. replace W with (1 + (W - 1)) by lia. rewrite Z.pow_add_r by lia. change (2 ^ 1) with 2. rewrite Z.rem_mul_r by (try apply Z.pow_pos_nonneg; lia). rewrite (Z.mul_comm 2), Z.mod_add by lia. symmetry. apply Z.mod_mod. lia. }
      rewrite E, K. reflexivity.
    + destruct (Z.eqb_spec W 1) as [W1|W1]; [exfalso; subst W; change (2 ^ 1) with 2 in Kb; lia|]. cbn [orb] in Hc.
      apply andb_true_iff in Hc as [Hc Hch]. apply andb_true_iff in Hc as [HW2 Hst]. apply Z.eqb_eq in HW2. apply Z.ltb_lt in Hst.
      assert (Pst : 0 < 2 ^ st) by (apply Z.pow_pos_nonneg; lia).
      replace (2 ^ st - 1) with (Z.ones st) by (rewrite Z.ones_equiv; lia). rewrite Z.land_ones by lia. rewrite Z.shiftr_div_pow2 by lia.
      set (cur := key mod 2 ^ st). assert (Cb : 0 <= cur < 2 ^ st) by (apply Z.mod_pos_bound; exact Pst).
      assert (BC : bitCount false w cur = pc (Z.to_nat st) cur).
      { assert (Cw : 0 <= cur < 2 ^ w) by (split; [lia|]; apply Z.lt_le_trans with (2 ^ st); [lia | apply Z.pow_le_mono_r; lia]).
        rewrite bitCount_all by exact Hw. unfold popcount. rewrite fold_pc. rewrite umod_mod by lia. rewrite Z.mod_small by exact Cw.
        apply pc_small; [lia | rewrite Z2Nat.id by lia; exact Cb]. }
      rewrite BC. set (c := pc (Z.to_nat st) cur).
      assert (SP : pc (Z.to_nat W) key = c + pc (Z.to_nat st) (key / 2 ^ st)).
      { replace (Z.to_nat W) with (Z.to_nat st + Z.to_nat st)%nat by lia. rewrite pc_split. rewrite Z2Nat.id by lia. reflexivity. }
      destruct (Z.ltb_spec c n) as [Lt|Ge].
      * (* the n-th bit is in the upper half *)
        assert (KH : key / 2 ^ st = (u / 2 ^ (pos + st)) mod 2 ^ st).
        { rewrite Hkey, HW2. replace (2 * st) with (st + st) by lia. rewrite mod_div_pow2 by lia. rewrite div_div_pow2 by lia. reflexivity. }
        destruct (IH st (key / 2 ^ st) (n - c) (pos + st) Hch ltac:(lia) Hst ltac:(lia) KH ltac:(lia)) as (R1 & R2 & R3). cbv zeta in *.
        split; [lia|]. split; [exact R2|]. rewrite R3. unfold cnt. replace (Z.to_nat (pos + st)) with (Z.to_nat pos + Z.to_nat st)%nat by lia. rewrite pc_window. rewrite Z2Nat.id by lia.
        assert (CE : pc (Z.to_nat st) (u / 2 ^ pos) = c).
        { unfold c, cur. rewrite Hkey, HW2. rewrite mod_mod_pow2 by lia. pose proof (pc_mod (Z.to_nat st) (u / 2 ^ pos)) as PM. rewrite Z2Nat.id in PM by lia. symmetry. exact PM. }
        rewrite CE. lia.
      * (* the n-th bit is in the lower half *)
        assert (KL : cur = (u / 2 ^ pos) mod 2 ^ st) by (unfold cur; rewrite Hkey, HW2; apply mod_mod_pow2; lia).
        destruct (IH st cur n pos Hch Hpos Hst ltac:(lia) KL ltac:(fold c; lia)) as (R1 & R2 & R3). cbv zeta in *. split; [lia|]. split; [exact R2 | exact R3].
Qed.
End Loop.
Lemma chain_steps w : width w -> chain w (nsb_steps w) = true.
Proof. intros [-> | [-> | [-> | ->]]]; vm_compute; reflexivity. Qed.
Theorem findNSB_all sg w x n : width w -> 1 <= n ->
  let u := umod w x in
  (bitCount sg w x < n -> findNSB sg w x n = -1) /\
  (n <= bitCount sg w x -> let r := findNSB sg w x n in 0 <= r < w /\ Z.testbit u r = true /\ pc (Z.to_nat r) u = n - 1).
Proof.
  intros Hw Hn. pose proof (width_pos w Hw) as Wp. cbv zeta. unfold findNSB. split.
  - intros H. replace (bitCount sg w x <? n) with true by (symmetry; apply Z.ltb_lt; exact H). reflexivity.
  - intros H. replace (bitCount sg w x <? n) with false by (symmetry; apply Z.ltb_ge; exact H).
    assert (Hu : 0 <= umod w x < 2 ^ w) by (rewrite umod_mod by lia; apply Z.mod_pos_bound, Z.pow_pos_nonneg; lia).
    assert (BC : bitCount sg w x = pc (Z.to_nat w) (umod w x)) by (rewrite bitCount_all by exact Hw; unfold popcount; apply fold_pc).
    destruct (loop_ok w (umod w x) Hw (nsb_steps w) w (umod w x) n 0 (chain_steps w Hw) ltac:(lia) Wp ltac:(lia)) as (R1 & R2 & R3).
    + change (2 ^ 0) with 1. rewrite Z.div_1_r. symmetry. apply Z.mod_small. exact Hu.
    + rewrite <- BC. lia.
    + cbv zeta in *. split; [lia|]. split; [exact R2|]. change (Z.to_nat 0) with 0%nat in R3. cbn [pc] in R3. lia.
Qed.
