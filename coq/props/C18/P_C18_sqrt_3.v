(* C18, gtx sqrt(int) / sqrt(uint): floor square root for every x in [49152, 65535] *)
Require Import ZArith List Bool Lia.
Import ListNotations.
From GLMM Require Import Half IntFn BitUtil.
From W Require Import A_C18_defs.
Local Open Scope Z_scope.
Lemma sqrt_shard : forallb sqrt_ok (zrange (Z.to_nat 16384) (16384 * 3)) = true. Proof. vm_cast_no_check (eq_refl true). Qed.
