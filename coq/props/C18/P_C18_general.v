(* C18 general theorems (every width, every value): multiples, isMultiple, mask, fill, gtx mod/pow; refuted statements (known findings) *)
Require Import ZArith List Bool Lia.
Import ListNotations.
From GLMM Require Import Half IntFn BitUtil.
From W Require Import A_C18_defs.
Local Open Scope Z_scope.
Ltac Zify.zify_post_hook ::= Z.div_mod_to_equations.
(* the specification functions are what their names say *)
Lemma ceil_mult_spec s m : 0 < m -> (m | ceil_mult s m) /\ s <= ceil_mult s m < s + m.
Proof.
  intros Hm. unfold ceil_mult. split.
  - exists (- ((- s) / m)). pose proof (Z.div_mod (- s) m). lia.
  - pose proof (Z.mod_pos_bound (- s) m Hm). lia.
Qed.
Lemma floor_mult_spec s m : 0 < m -> (m | floor_mult s m) /\ s - m < floor_mult s m <= s.
Proof.
  intros Hm. unfold floor_mult. split.
  - exists (s / m). pose proof (Z.div_mod s m). lia.
  - pose proof (Z.mod_pos_bound s m Hm). lia.
Qed.

Lemma ceil_unsigned s m : 0 <= s -> 0 < m ->
  (let r := Z.rem s m in if r =? 0 then s else s + (m - r)) = ceil_mult s m.
Proof.
  intros Hs Hm. cbv zeta. unfold ceil_mult. rewrite Z.rem_mod_nonneg by lia.
  destruct (s mod m =? 0) eqn:E; [apply Z.eqb_eq in E | apply Z.eqb_neq in E].
  - rewrite Z.mod_opp_l_z by lia. lia.
  - rewrite Z.mod_opp_l_nz by lia. lia.
Qed.
Lemma ceil_signed_pos s m : 0 < s -> 0 < m -> (s - 1) + (m - Z.rem (s - 1) m) = ceil_mult s m.
Proof.
  intros Hs Hm. unfold ceil_mult. rewrite Z.rem_mod_nonneg by lia.
  pose proof (Z.mod_pos_bound (s - 1) m Hm). pose proof (Z.mod_pos_bound (- s) m Hm).
  pose proof (Z.div_mod (s - 1) m). pose proof (Z.div_mod (- s) m).
  assert ((s - 1) / m + (- s) / m = -1) by nia. nia.
Qed.
Lemma ceil_signed_neg s m : s <= 0 -> 0 < m -> s + Z.rem (- s) m = ceil_mult s m.
Proof. intros Hs Hm. unfold ceil_mult. rewrite Z.rem_mod_nonneg by lia. reflexivity. Qed.
Lemma floor_nonneg s m : 0 <= s -> 0 < m -> s - Z.rem s m = floor_mult s m.
Proof. intros Hs Hm. unfold floor_mult. rewrite Z.rem_mod_nonneg by lia. reflexivity. Qed.
Lemma floor_neg s m : s < 0 -> 0 < m -> (s + 1) - Z.rem (s + 1) m - m = floor_mult s m.
Proof.
  intros Hs Hm. unfold floor_mult.
  replace (Z.rem (s + 1) m) with (- ((- (s + 1)) mod m)) by (rewrite <- (Z.opp_involutive (s + 1)) at 2; rewrite Z.rem_opp_l by lia; rewrite Z.rem_mod_nonneg by lia; reflexivity).
  pose proof (Z.mod_pos_bound (- (s + 1)) m Hm). pose proof (Z.mod_pos_bound s m Hm).
  pose proof (Z.div_mod (- (s + 1)) m). pose proof (Z.div_mod s m).
  assert ((- (s + 1)) / m + s / m = -1) by nia. nia.
Qed.

Definition width (w : Z) : Prop := w = 8 \/ w = 16 \/ w = 32 \/ w = 64.
Definition rangeT (sg : bool) (w z : Z) : Prop := if sg then - 2 ^ (w - 1) <= z < 2 ^ (w - 1) else 0 <= z < 2 ^ w.
Lemma in_T_bounds sg w z : in_T sg w z = true -> rangeT sg w z.
Proof. unfold in_T, rangeT. destruct sg; intros H; apply andb_true_iff in H as [H1 H2]; apply Z.leb_le in H1; apply Z.ltb_lt in H2; lia. Qed.
Lemma in_T_of sg w z : rangeT sg w z -> in_T sg w z = true.
Proof. unfold in_T, rangeT. destruct sg; intros H; apply andb_true_iff; split; (apply Z.leb_le || apply Z.ltb_lt); lia. Qed.
Lemma ar_id sg w z : 0 < w -> in_T sg w z = true -> ar sg w z = z.
Proof. intros Hw H. unfold ar. destruct (w <? 32); [reflexivity | now apply norm_id]. Qed.

(* ceilMultiple / nextMultiple, every integer type: the smallest multiple of m that is >= s (when it is a value of T) *)
Theorem ceilMultiple_correct sg w s m : width w -> in_T sg w s = true -> in_T sg w m = true -> 0 < m ->
  (sg = true -> - 2 ^ (w - 1) < s) -> in_T sg w (ceil_mult s m) = true -> ceilMultiple sg w s m = ceil_mult s m.
Proof.
  intros Hw Hs Hm Hm0 Hmin Hr. assert (W0 : 0 < w) by (destruct Hw as [->|[->|[->| ->]]]; lia).
  assert (P : 0 < 2 ^ (w - 1)) by (apply Z.pow_pos_nonneg; lia).
  unfold ceilMultiple. destruct sg.
  - apply in_T_bounds in Hs as Bs; unfold rangeT in Bs. apply in_T_bounds in Hm as Bm; unfold rangeT in Bm. specialize (Hmin eq_refl).
    destruct (0 <? s) eqn:E; [apply Z.ltb_lt in E | apply Z.ltb_ge in E].
    + unfold cT. rewrite (norm_id true w (s - 1)) by (try (apply in_T_of; unfold rangeT); lia).
      rewrite ceil_signed_pos by lia. now apply norm_id.
    + rewrite ar_id by (try (apply in_T_of; unfold rangeT); lia). rewrite ceil_signed_neg by lia. unfold cT. now apply norm_id.
  - apply in_T_bounds in Hs as Bs; unfold rangeT in Bs. pose proof (ceil_unsigned s m ltac:(lia) Hm0) as E. cbv zeta in E.
    destruct (Z.rem s m =? 0); [exact E|]. rewrite E. unfold cT. now apply norm_id.
Qed.
(* floorMultiple / prevMultiple: the largest multiple of m that is <= s *)
Theorem floorMultiple_correct sg w s m : width w -> in_T sg w s = true -> in_T sg w m = true -> 0 < m ->
  in_T sg w (floor_mult s m) = true -> floorMultiple sg w s m = floor_mult s m.
Proof.
  intros Hw Hs Hm Hm0 Hr. assert (W0 : 0 < w) by (destruct Hw as [->|[->|[->| ->]]]; lia).
  assert (P : 0 < 2 ^ (w - 1)) by (apply Z.pow_pos_nonneg; lia).
  unfold floorMultiple. destruct (0 <=? s) eqn:E; [apply Z.leb_le in E | apply Z.leb_gt in E].
  - rewrite floor_nonneg by lia. unfold cT. now apply norm_id.
  - assert (sg = true) as -> by (destruct sg; [reflexivity | apply in_T_bounds in Hs; unfold rangeT in Hs; lia]).
    apply in_T_bounds in Hs as Bs; unfold rangeT in Bs. unfold cT. rewrite (norm_id true w (s + 1)) by (try (apply in_T_of; unfold rangeT); lia).
    rewrite floor_neg by lia. now apply norm_id.
Qed.
(* roundMultiple has the text of floorMultiple: it is NOT the nearest multiple *)
Theorem roundMultiple_is_floor sg w s m : roundMultiple sg w s m = floorMultiple sg w s m.
Proof. reflexivity. Qed.
Theorem roundMultiple_refuted : exists s m, in_T true 32 s = true /\ 0 < m /\ in_T true 32 m = true /\
  Z.abs (roundMultiple true 32 s m - s) > Z.abs (ceil_mult s m - s).
Proof. exists 7, 4. vm_compute. repeat split; discriminate. Qed.

(* isMultiple is divisibility *)
Theorem isMultiple_correct sg w x m : width w -> in_T sg w x = true -> in_T sg w m = true -> m <> 0 ->
  (sg = true -> - 2 ^ (w - 1) < x) -> isMultiple sg w x m = true <-> (m | x).
Proof.
  intros Hw Hx Hm Hm0 Hmin. assert (W0 : 0 < w) by (destruct Hw as [->|[->|[->| ->]]]; lia).
  assert (P : 0 < 2 ^ (w - 1)) by (apply Z.pow_pos_nonneg; lia).
  assert (P2 : 2 ^ w = 2 * 2 ^ (w - 1)) by (replace w with (Z.succ (w - 1)) at 1 by lia; apply Z.pow_succ_r; lia).
  unfold isMultiple, cT. pose proof (Z.rem_bound_abs x m Hm0) as B. pose proof (Z.rem_sign_nz x m Hm0) as Sg.
  assert (R : in_T sg w (Z.rem x m) = true).
  { apply in_T_bounds in Hx. apply in_T_bounds in Hm. unfold rangeT in Hx, Hm. apply in_T_of. unfold rangeT. destruct sg.
    - lia.
    - pose proof (Z.rem_nonneg x m Hm0 ltac:(lia)). lia. }
  rewrite norm_id by assumption. rewrite Z.eqb_eq. now rewrite Z.rem_divide.
Qed.

(* mask(Bits): the Bits low bits set, all of them when Bits >= w *)
Theorem mask_correct sg w bits : width w -> 0 <= bits -> umod w (mask sg w bits) = 2 ^ (Z.min bits w) - 1.
Proof.
  intros Hw Hb. assert (W0 : 0 < w) by (destruct Hw as [->|[->|[->| ->]]]; lia).
  unfold mask, mask_T. rewrite !umod_mod by lia. assert (U : forall z, norm sg w z mod 2 ^ w = z mod 2 ^ w).
  { intros z. rewrite norm_mod by lia. cbv zeta. destruct (sg && (2 ^ (w - 1) <=? z mod 2 ^ w)); [|apply Z.mod_mod; apply Z.pow_nonzero; lia].
    rewrite <- Zminus_mod_idemp_r, Z.mod_same by (apply Z.pow_nonzero; lia). rewrite Z.sub_0_r. apply Z.mod_mod, Z.pow_nonzero; lia. }
  assert (Pw : 0 < 2 ^ w) by (apply Z.pow_pos_nonneg; lia).
  destruct (w <=? bits) eqn:E; [apply Z.leb_le in E | apply Z.leb_gt in E]; rewrite U.
  - rewrite Z.min_r by lia. symmetry. apply Z.mod_unique with (-1); lia.
  - rewrite Z.min_l by lia. apply Z.mod_small. assert (2 ^ bits < 2 ^ w) by (apply Z.pow_lt_mono_r; lia). pose proof (Z.pow_pos_nonneg 2 bits). lia.
Qed.

(* gtx mod: the mathematical (floor) modulus for a positive divisor, when x % y + y does not overflow *)
Theorem mod_int_correct x y : in_T true 32 x = true -> 0 < y < 2 ^ 30 -> mod_int x y = x mod y.
Proof.
  intros Hx Hy. unfold mod_int. pose proof (Z.rem_bound_abs x y ltac:(lia)).
  rewrite norm_id by (try (apply in_T_of; unfold rangeT); lia).
  rewrite Z.rem_mod_nonneg by lia. pose proof (Z.quot_rem' x y) as Q.
  replace (Z.rem x y + y) with (x + (1 - Z.quot x y) * y) by lia. apply Z.mod_add. lia.
Qed.
Theorem mod_uint_correct x y : 0 <= x < 2 ^ 32 -> 0 < y < 2 ^ 32 -> mod_uint x y = x mod y.
Proof.
  intros Hx Hy. unfold mod_uint. pose proof (Z.mod_pos_bound x y ltac:(lia)). pose proof (Z.div_mod x y ltac:(lia)).
  replace (x - y * (x / y)) with (x mod y) by lia. apply norm_id; [lia|]. apply in_T_of. unfold rangeT. lia.
Qed.
(* gtx pow: x^y when that is an int; pow(x, 0) is -1 for negative x (KNOWN FINDING: the test-suite pins this value) *)
Theorem pow_int_correct x y : 0 < y -> in_T true 32 (x ^ y) = true -> pow_int x y = x ^ y.
Proof. intros Hy H. unfold pow_int. replace (y =? 0) with false by (symmetry; apply Z.eqb_neq; lia). now apply norm_id. Qed.
Theorem pow_uint_correct x y : 0 <= y -> in_T false 32 (x ^ y) = true -> pow_uint x y = x ^ y.
Proof.
  intros Hy H. unfold pow_uint. destruct (y =? 0) eqn:E; [apply Z.eqb_eq in E; subst; reflexivity | now apply norm_id].
Qed.
Theorem pow_int_zero_exponent_refuted : exists x, in_T true 32 x = true /\ pow_int x 0 <> x ^ 0.
Proof. exists (-3). vm_compute. split; [reflexivity | discriminate]. Qed.

(* ---- refuted statements: the documented behaviour fails on these inputs (known findings) *)
(* bitfieldRotateRight rotates LEFT (and vice versa) *)
Theorem bitfieldRotateRight_refuted : exists x s, 0 <= x < 2 ^ 32 /\ 0 < s < 32 /\ umod 32 (bitfieldRotateRight false 32 x s) <> rotr_spec 32 x s.
Proof. exists 1, 1. vm_compute. repeat split; discriminate. Qed.
Theorem bitfieldRotateLeft_refuted : exists x s, 0 <= x < 2 ^ 32 /\ 0 < s < 32 /\ umod 32 (bitfieldRotateLeft false 32 x s) <> rotl_spec 32 x s.
Proof. exists 1, 1. vm_compute. repeat split; discriminate. Qed.
(* floor/prev/roundPowerOfTwo of a negative value return a POSITIVE power of two *)
Theorem floorPowerOfTwo_negative_refuted : exists x, in_T true 32 x = true /\ x < 0 /\ floorPowerOfTwo true 32 x <> - floor_pow2 (- x) /\ 0 < floorPowerOfTwo true 32 x.
Proof. exists (-5). vm_compute. repeat split; discriminate. Qed.
(* roundPowerOfTwo on 8/16-bit types: above the top power of two the 'next' candidate wraps and wins the comparison made in int *)
Theorem roundPowerOfTwo_narrow_refuted : exists x, in_T false 8 x = true /\ nearest_pow2 x (floor_pow2 x) = true /\ in_T false 8 (floor_pow2 x) = true /\ roundPowerOfTwo false 8 x <> floor_pow2 x.
Proof. exists 130. vm_compute. repeat split; discriminate. Qed.
(* bitfieldFillOne/Zero on a 64-bit value: the mask is built in int; a field reaching bit 31 is sign-extended over bits 32..63 *)
Theorem bitfieldFillOne_64bit_refuted : exists v f c, 0 <= f /\ 0 <= c /\ f + c <= 64 /\ umod 64 (bitfieldFillOne false 64 v f c) <> Z.lor v (field f c).
Proof. exists 0, 1, 31. vm_compute. repeat split; discriminate. Qed.

(* ---- bitfieldFillOne / bitfieldFillZero: structure for every value; the constant part is a finite sweep (P_C18_w8) *)
Lemma umod_norm sg w z : 0 < w -> umod w (norm sg w z) = umod w z.
Proof.
  intros Hw. rewrite !umod_mod, norm_mod by lia. cbv zeta. destruct (sg && (2 ^ (w - 1) <=? z mod 2 ^ w)); [|apply Z.mod_mod; apply Z.pow_nonzero; lia].
  rewrite <- Zminus_mod_idemp_r, Z.mod_same by (apply Z.pow_nonzero; lia). rewrite Z.sub_0_r. apply Z.mod_mod, Z.pow_nonzero; lia.
Qed.
Lemma umod_lor w a b : 0 <= w -> umod w (Z.lor a b) = Z.lor (umod w a) (umod w b).
Proof. intros Hw. unfold umod. apply Z.land_lor_distr_l. Qed.
Lemma umod_land w a b : 0 <= w -> umod w (Z.land a b) = Z.land (umod w a) (umod w b).
Proof.
  intros Hw. unfold umod.
  rewrite <- !Z.land_assoc. f_equal. rewrite (Z.land_comm (Z.ones w)), <- Z.land_assoc, Z.land_diag. reflexivity.
Qed.
Theorem fillOne_structure sg w v f c : 0 < w ->
  umod w (bitfieldFillOne sg w v f c) = Z.lor (umod w v) (umod w (int_mask_shl f c)).
Proof. intros Hw. unfold bitfieldFillOne, cT. rewrite umod_norm, umod_lor, umod_norm by lia. reflexivity. Qed.
Theorem fillZero_structure sg w v f c : 0 < w ->
  umod w (bitfieldFillZero sg w v f c) = Z.land (umod w v) (umod w (Z.lnot (int_mask_shl f c))).
Proof. intros Hw. unfold bitfieldFillZero, cT. rewrite umod_norm, umod_land, umod_norm by lia. reflexivity. Qed.

(* gtx factorial (the loop `for(Result = 1; Temp > 1; --Temp) Result *= Temp`), EVERY width and sign: exact whenever n! is a value of T.
   n <= 199 is the model's loop fuel (fact_loop 200); n! is a value of no 64-bit type beyond n = 20, so the bound excludes nothing for glm's types. *)
Lemma fact_pos n : 0 < fact n.
Proof. induction n as [|k IH]; [reflexivity|]. change (fact (S k)) with (Z.of_nat (S k) * fact k). nia. Qed.
Lemma fact_loop_inv sg w F : 0 < w -> rangeT sg w F -> forall fuel t r, (t <= fuel)%nat -> 0 < r -> r * fact t = F ->
  fact_loop (S fuel) sg w (Z.of_nat t) r = F.
Proof.
  intros Hw HF fuel. induction fuel as [|f IH]; intros t r Ht Hr E.
  - assert (t = O) by lia. subst t. cbn [fact_loop]. change (1 <? Z.of_nat 0) with false. cbn iota. change (fact 0) with 1 in E. lia.
  - change (fact_loop (S (S f)) sg w (Z.of_nat t) r) with (if 1 <? Z.of_nat t then fact_loop (S f) sg w (Z.of_nat t - 1) (norm sg w (r * Z.of_nat t)) else r).
    destruct (Z.ltb_spec 1 (Z.of_nat t)) as [L|L].
    + destruct t as [|t']; [lia|]. pose proof (fact_pos t') as P. change (fact (S t')) with (Z.of_nat (S t') * fact t') in E.
      assert (R : norm sg w (r * Z.of_nat (S t')) = r * Z.of_nat (S t')).
      { apply norm_id; [exact Hw|]. apply in_T_of. unfold rangeT in *. destruct sg; nia. }
      rewrite R. replace (Z.of_nat (S t') - 1) with (Z.of_nat t') by lia. apply IH; [lia|nia|nia].
    + destruct t as [|[|t']]; [change (fact 0) with 1 in E; lia | change (fact 1) with 1 in E; lia | lia].
Qed.
Theorem factorial_correct sg w n : 0 < w -> (n <= 199)%nat -> in_T sg w (fact n) = true -> factorial sg w (Z.of_nat n) = fact n.
Proof.
  intros Hw Hn HT. unfold factorial. change 200%nat with (S 199). apply fact_loop_inv; [exact Hw | apply in_T_bounds; exact HT | exact Hn | lia | lia].
Qed.
Example factorial_correct_nonvacuous : in_T true 32 (fact 12) = true /\ in_T false 64 (fact 20) = true /\ in_T true 32 (fact 13) = false.
Proof. vm_compute. auto. Qed.

(* gtx sqrt(int) / sqrt(uint) (Newton iteration of Graphics Gems p. 387), EVERY 32-bit value, partial correctness: the invariant is
   floor(sqrt x) <= CurrentAnswer <= x / 2; NextTrial + x / NextTrial never leaves the type; when the loop leaves, CurrentAnswer = floor(sqrt x).
   `_partial`: that the model's fuel (64 iterations) is never exhausted is NOT proved here (the real loop has no fuel and its variable strictly
   decreases above floor(sqrt x) >= 1, so it leaves); the sweep below 65536 and the correspondence check cover the fuel. *)
Lemma newton_ge x c : 0 <= x -> 0 < c -> Z.sqrt x <= (c + x / c) / 2.
Proof.
  intros Hx Hc. pose proof (Z.sqrt_spec x Hx) as [S1 S2]. pose proof (Z.sqrt_nonneg x) as S0. set (s := Z.sqrt x) in *.
  pose proof (Z.div_mod x c ltac:(lia)) as D. pose proof (Z.mod_pos_bound x c Hc) as M. set (q := x / c) in *. set (r := x mod c) in *.
  assert (Hq : 0 <= q) by (subst q; apply Z.div_pos; lia).
  assert (A1 : 4 * (c * (q + 1)) <= (c + q + 1) * (c + q + 1)) by (pose proof (Z.square_nonneg (c - q - 1)); nia).
  assert (H4 : 2 * s <= c + q).
  { destruct (Z_lt_le_dec (c + q) (2 * s)) as [Lt|Ge]; [exfalso | exact Ge].
    assert (A2 : (c + q + 1) * (c + q + 1) <= (2 * s) * (2 * s)) by (apply Z.mul_le_mono_nonneg; lia). nia. }
  apply Z.div_le_lower_bound; lia.
Qed.
Lemma newton_exit x c : 0 <= x -> 0 < c -> c <= (c + x / c) / 2 -> c <= Z.sqrt x.
Proof.
  intros Hx Hc H. pose proof (Z.div_mod x c ltac:(lia)) as D. pose proof (Z.mod_pos_bound x c Hc) as M. set (q := x / c) in *. set (r := x mod c) in *.
  assert (c <= q) by (pose proof (Z.div_mod (c + q) 2 ltac:(lia)); pose proof (Z.mod_pos_bound (c + q) 2 ltac:(lia)); lia).
  apply Z.sqrt_le_square; [lia | lia | nia].
Qed.
Lemma quot_le_sqrt2 x c : 2 <= x -> Z.sqrt x <= c -> x / c <= Z.sqrt x + 2.
Proof.
  intros Hx Hc. pose proof (Z.sqrt_spec x ltac:(lia)) as [S1 S2]. assert (S0 : 1 <= Z.sqrt x) by (apply Z.sqrt_le_square; lia). set (s := Z.sqrt x) in *.
  apply Z.div_le_upper_bound; [lia|]. nia.
Qed.
Theorem sqrt_loop_partial sg x : 2 <= x -> in_T sg 32 x = true -> forall fuel c, Z.sqrt x <= c <= x / 2 ->
  sqrt_loop fuel sg x c = -2 \/ sqrt_loop fuel sg x c = Z.sqrt x.
Proof.
  intros Hx HT fuel. assert (S0 : 1 <= Z.sqrt x) by (apply Z.sqrt_le_square; lia).
  assert (SB : Z.sqrt x < 65536). { apply in_T_bounds in HT. apply Z.sqrt_lt_square; [lia | lia |]. unfold rangeT in HT. destruct sg; change (2 ^ (32 - 1)) with 2147483648 in HT; change (2 ^ 32) with 4294967296 in HT; lia. }
  induction fuel as [|k IH]; intros c Hc; [left; reflexivity|].
  change (sqrt_loop (S k) sg x c) with (let next := Z.shiftr (norm sg 32 (c + Z.quot x c)) 1 in if next <? c then sqrt_loop k sg x next else c). cbv zeta.
  rewrite Z.quot_div_nonneg by lia. pose proof (quot_le_sqrt2 x c Hx ltac:(lia)) as Q.
  assert (Q0 : 0 <= x / c) by (apply Z.div_pos; lia).
  assert (R : norm sg 32 (c + x / c) = c + x / c).
  { apply norm_id; [lia|]. apply in_T_of. apply in_T_bounds in HT. unfold rangeT in *.
    pose proof (Z.div_mod x 2 ltac:(lia)). pose proof (Z.mod_pos_bound x 2 ltac:(lia)).
    destruct sg; change (2 ^ (32 - 1)) with 2147483648 in *; change (2 ^ 32) with 4294967296 in *; lia. }
  rewrite R, Z.shiftr_div_pow2 by lia. change (2 ^ 1) with 2.
  pose proof (newton_ge x c ltac:(lia) ltac:(lia)) as G.
  destruct (Z.ltb_spec ((c + x / c) / 2) c) as [L|L].
  - apply IH. lia.
  - right. pose proof (newton_exit x c ltac:(lia) ltac:(lia) L). lia.
Qed.
Lemma half_ge_sqrt x : 2 <= x -> Z.sqrt x <= x / 2.
Proof. intros Hx. pose proof (Z.sqrt_spec x ltac:(lia)) as [S1 S2]. assert (S0 : 1 <= Z.sqrt x) by (apply Z.sqrt_le_square; lia). apply Z.div_le_lower_bound; [lia|]. destruct (Z.eq_dec (Z.sqrt x) 1); nia. Qed.
(* gtx sqrt(int) / sqrt(uint), EVERY 32-bit value: whenever the Newton loop leaves (the model's fuel 64 is not exhausted: result <> -2) the result is the floor square root *)
Theorem sqrt_int_partial x : in_T true 32 x = true -> 0 <= x -> sqrt_int x = -2 \/ sqrt_int x = Z.sqrt x.
Proof.
  intros HT Hx. unfold sqrt_int. destruct (Z.leb_spec x 1) as [L|L].
  - right. assert (x = 0 \/ x = 1) as [-> | ->] by lia; reflexivity.
  - apply sqrt_loop_partial; [lia | exact HT |]. rewrite Z.shiftr_div_pow2 by lia. change (2 ^ 1) with 2. split; [apply half_ge_sqrt; lia | lia].
Qed.
Theorem sqrt_uint_partial x : in_T false 32 x = true -> sqrt_uint x = -2 \/ sqrt_uint x = Z.sqrt x.
Proof.
  intros HT. assert (Hx : 0 <= x) by (apply in_T_bounds in HT; unfold rangeT in HT; lia). unfold sqrt_uint. destruct (Z.leb_spec x 1) as [L|L].
  - right. assert (x = 0 \/ x = 1) as [-> | ->] by lia; reflexivity.
  - apply sqrt_loop_partial; [lia | exact HT |]. rewrite Z.shiftr_div_pow2 by lia. change (2 ^ 1) with 2. split; [apply half_ge_sqrt; lia | lia].
Qed.
Example sqrt_partial_nonvacuous : sqrt_int 2147483647 = 46340 /\ sqrt_uint 4294967295 = 65535.
Proof. vm_compute. split; reflexivity. Qed.

(* ... and the iteration leaves within the model's 64 iterations: x / c <= sqrt x + 2 makes the distance to the root at least halve (+1) per round,
   and a strictly decreasing answer finishes the last three steps.  Hence the full statement for every 32-bit value. *)
Lemma sqrt_loop_step sg x k c : 2 <= x -> in_T sg 32 x = true -> Z.sqrt x <= c <= x / 2 ->
  sqrt_loop (S k) sg x c = if (c + x / c) / 2 <? c then sqrt_loop k sg x ((c + x / c) / 2) else c.
Proof.
  intros Hx HT Hc. assert (S0 : 1 <= Z.sqrt x) by (apply Z.sqrt_le_square; lia).
  assert (SB : Z.sqrt x < 65536). { apply in_T_bounds in HT. apply Z.sqrt_lt_square; [lia | lia |]. unfold rangeT in HT. destruct sg; change (2 ^ (32 - 1)) with 2147483648 in HT; change (2 ^ 32) with 4294967296 in HT; lia. }
  change (sqrt_loop (S k) sg x c) with (let next := Z.shiftr (norm sg 32 (c + Z.quot x c)) 1 in if next <? c then sqrt_loop k sg x next else c). cbv zeta.
  rewrite Z.quot_div_nonneg by lia. pose proof (quot_le_sqrt2 x c Hx ltac:(lia)) as Q.
  assert (Q0 : 0 <= x / c) by (apply Z.div_pos; lia).
  assert (R : norm sg 32 (c + x / c) = c + x / c).
  { apply norm_id; [lia|]. apply in_T_of. apply in_T_bounds in HT. unfold rangeT in *.
    pose proof (Z.div_mod x 2 ltac:(lia)). pose proof (Z.mod_pos_bound x 2 ltac:(lia)).
    destruct sg; change (2 ^ (32 - 1)) with 2147483648 in *; change (2 ^ 32) with 4294967296 in *; lia. }
  rewrite R, Z.shiftr_div_pow2 by lia. reflexivity.
Qed.
(* the iteration leaves: close to the root the answer strictly decreases ... *)
Lemma sqrt_loop_small sg x : 2 <= x -> in_T sg 32 x = true -> forall m c, Z.sqrt x <= c <= x / 2 -> c - Z.sqrt x <= Z.of_nat m ->
  sqrt_loop (S m) sg x c <> -2.
Proof.
  intros Hx HT m. assert (S0 : 1 <= Z.sqrt x) by (apply Z.sqrt_le_square; lia).
  induction m as [|m IH]; intros c Hc He; rewrite sqrt_loop_step by assumption;
    pose proof (newton_ge x c ltac:(lia) ltac:(lia)) as G; destruct (Z.ltb_spec ((c + x / c) / 2) c) as [L|L]; try lia.
  apply IH; lia.
Qed.
(* ... and far from it the distance to the root at least halves (x / c <= sqrt x + 2) *)
Lemma sqrt_loop_big sg x : 2 <= x -> in_T sg 32 x = true -> forall k c, Z.sqrt x <= c <= x / 2 -> c - Z.sqrt x <= 2 ^ Z.of_nat k + 2 ->
  sqrt_loop (k + 4) sg x c <> -2.
Proof.
  intros Hx HT k. assert (S0 : 1 <= Z.sqrt x) by (apply Z.sqrt_le_square; lia).
  induction k as [|k IH]; intros c Hc He.
  - change (0 + 4)%nat with (S 3). apply sqrt_loop_small; try assumption; change (2 ^ Z.of_nat 0) with 1 in He; lia.
  - change (S k + 4)%nat with (S (k + 4)). rewrite sqrt_loop_step by assumption.
    pose proof (newton_ge x c ltac:(lia) ltac:(lia)) as G. pose proof (quot_le_sqrt2 x c Hx ltac:(lia)) as Q.
    destruct (Z.ltb_spec ((c + x / c) / 2) c) as [L|L]; [|lia].
    apply IH; [lia|]. rewrite Nat2Z.inj_succ, Z.pow_succ_r in He by lia.
    pose proof (Z.div_mod (c + x / c) 2 ltac:(lia)). pose proof (Z.mod_pos_bound (c + x / c) 2 ltac:(lia)). lia.
Qed.
Lemma sqrt_loop_total sg x c : 2 <= x -> in_T sg 32 x = true -> Z.sqrt x <= c <= x / 2 -> sqrt_loop 64 sg x c = Z.sqrt x.
Proof.
  intros Hx HT Hc. destruct (sqrt_loop_partial sg x Hx HT 64%nat c Hc) as [F|E]; [exfalso | exact E].
  revert F. change 64%nat with (60 + 4)%nat. apply sqrt_loop_big; try assumption.
  apply in_T_bounds in HT. unfold rangeT in HT. pose proof (Z.div_mod x 2 ltac:(lia)). pose proof (Z.mod_pos_bound x 2 ltac:(lia)).
  change (2 ^ Z.of_nat 60) with 1152921504606846976. assert (1 <= Z.sqrt x) by (apply Z.sqrt_le_square; lia).
  destruct sg; change (2 ^ (32 - 1)) with 2147483648 in *; change (2 ^ 32) with 4294967296 in *; lia.
Qed.
(* gtx sqrt(int), every non-negative int; sqrt(uint), every uint: the floor square root *)
Theorem sqrt_int_correct x : in_T true 32 x = true -> 0 <= x -> sqrt_int x = Z.sqrt x.
Proof.
  intros HT Hx. unfold sqrt_int. destruct (Z.leb_spec x 1) as [L|L].
  - assert (x = 0 \/ x = 1) as [-> | ->] by lia; reflexivity.
  - apply sqrt_loop_total; [lia | exact HT |]. rewrite Z.shiftr_div_pow2 by lia. change (2 ^ 1) with 2. split; [apply half_ge_sqrt; lia | lia].
Qed.
Theorem sqrt_uint_correct x : in_T false 32 x = true -> sqrt_uint x = Z.sqrt x.
Proof.
  intros HT. assert (Hx : 0 <= x) by (apply in_T_bounds in HT; unfold rangeT in HT; lia). unfold sqrt_uint. destruct (Z.leb_spec x 1) as [L|L].
  - assert (x = 0 \/ x = 1) as [-> | ->] by lia; reflexivity.
  - apply sqrt_loop_total; [lia | exact HT |]. rewrite Z.shiftr_div_pow2 by lia. change (2 ^ 1) with 2. split; [apply half_ge_sqrt; lia | lia].
Qed.
