(* C14 general theorems, for every format (mb mantissa bits, w total bits; float = (23,32), double = (52,64)) and every
   finite pattern: the value order is the order of `ord`; nextFloat / prevFloat are the neighbours in value; n steps move
   n ranks; floatDistance is the rank difference; the vector ULP comparison is rank distance <= MaxULPs. *)
Require Import ZArith List Bool Lia.
Import ListNotations.
From GLMM Require Import IntFn Ulp.
Local Open Scope Z_scope.

Definition fmt (mb w : Z) : Prop := 0 < mb /\ mb + 1 < w.

Section G.
Variables (mb w : Z).
Hypothesis F : fmt mb w.
Let P := 2 ^ mb.
Lemma Ppos : 0 < P. Proof. unfold P. apply Z.pow_pos_nonneg; destruct F; lia. Qed.

(* ---- the scaled value is strictly increasing in the magnitude *)
Lemma Vmag_step m : 0 <= m -> Vmag mb m < Vmag mb (m + 1).
Proof.
  intros Hm. pose proof Ppos as HP. unfold Vmag. fold P.
  set (e := m / P). set (f := m mod P).
  assert (Hdm : m = P * e + f) by (apply Z.div_mod; lia).
  assert (Hf : 0 <= f < P) by (apply Z.mod_pos_bound; lia).
  assert (He : 0 <= e) by (apply Z.div_pos; lia).
  destruct (Z_lt_le_dec (f + 1) P) as [Hlt|Hge].
  - assert (E1 : (m + 1) / P = e) by (symmetry; apply Z.div_unique with (f + 1); lia).
    assert (E2 : (m + 1) mod P = f + 1) by (symmetry; apply Z.mod_unique with e; lia).
    rewrite E1, E2. destruct (e =? 0) eqn:Ee; [lia|].
    apply Z.eqb_neq in Ee. assert (0 < 2 ^ (e - 1)) by (apply Z.pow_pos_nonneg; lia). nia.
  - assert (Hfe : f = P - 1) by lia.
    assert (E1 : (m + 1) / P = e + 1) by (symmetry; apply Z.div_unique with 0; lia).
    assert (E2 : (m + 1) mod P = 0) by (symmetry; apply Z.mod_unique with (e + 1); lia).
    rewrite E1, E2. replace (e + 1 =? 0) with false by (symmetry; apply Z.eqb_neq; lia).
    replace (e + 1 - 1) with e by lia.
    destruct (e =? 0) eqn:Ee.
    + apply Z.eqb_eq in Ee. rewrite Ee. cbn. lia.
    + apply Z.eqb_neq in Ee. assert (H2 : 2 ^ e = 2 * 2 ^ (e - 1)) by (replace e with (Z.succ (e - 1)) at 1 by lia; apply Z.pow_succ_r; lia).
      assert (0 < 2 ^ (e - 1)) by (apply Z.pow_pos_nonneg; lia). nia.
Qed.
Lemma Vmag_mono a b : 0 <= a < b -> Vmag mb a < Vmag mb b.
Proof.
  intros [Ha Hab]. replace b with (a + 1 + (b - a - 1)) by lia.
  assert (Hk : 0 <= b - a - 1) by lia. revert Hk. generalize (b - a - 1). intros k Hk. pattern k. apply natlike_ind; [| |exact Hk].
  - rewrite Z.add_0_r. now apply Vmag_step.
  - intros x Hx IH. replace (a + 1 + Z.succ x) with ((a + 1 + x) + 1) by lia. apply Z.lt_trans with (Vmag mb (a + 1 + x)); [exact IH|]. apply Vmag_step. lia.
Qed.
Lemma Vmag_0 : Vmag mb 0 = 0.
Proof. unfold Vmag. fold P. pose proof Ppos. rewrite Z.div_0_l, Z.mod_0_l by lia. reflexivity. Qed.
Lemma Vmag_mono_le a b : 0 <= a <= b -> Vmag mb a <= Vmag mb b.
Proof. intros [Ha Hab]. destruct (Z.eq_dec a b) as [->|]; [lia|]. apply Z.lt_le_incl, Vmag_mono. lia. Qed.

(* ---- patterns *)
Let S := sbit w.
Lemma Spos : 0 < S. Proof. unfold S, sbit. apply Z.pow_pos_nonneg; destruct F; lia. Qed.
Lemma S2 : 2 ^ w = 2 * S.
Proof. unfold S, sbit. destruct F. replace w with (Z.succ (w - 1)) at 1 by lia. apply Z.pow_succ_r. lia. Qed.
Definition pat (p : Z) : Prop := 0 <= p < 2 ^ w.
Lemma mag_bounds p : 0 <= mag w p < S. Proof. unfold mag. fold S. apply Z.mod_pos_bound, Spos. Qed.
Lemma pat_split p : pat p -> p = (if neg w p then S else 0) + mag w p.
Proof.
  intros Hp. unfold pat in Hp. rewrite S2 in Hp. pose proof Spos. unfold neg, mag. fold S.
  destruct (S <=? p) eqn:E; [apply Z.leb_le in E | apply Z.leb_gt in E].
  - replace (p mod S) with (p - S) by (apply Z.mod_unique with 1; lia). lia.
  - rewrite Z.mod_small by lia. lia.
Qed.
Lemma inf_mag_bounds : 2 <= inf_mag mb w /\ inf_mag mb w < S.
Proof.
  unfold inf_mag, S, sbit. destruct F as [F1 F2]. fold P. pose proof Ppos.
  assert (H2 : 2 <= 2 ^ (w - 1 - mb)) by (change 2 with (2 ^ 1) at 1; apply Z.pow_le_mono_r; lia).
  assert (H3 : 2 ^ (w - 1) = 2 ^ (w - 1 - mb) * P) by (unfold P; rewrite <- Z.pow_add_r by lia; f_equal; lia).
  assert (2 <= P) by (unfold P; change 2 with (2 ^ 1) at 1; apply Z.pow_le_mono_r; lia).
  rewrite H3. nia.
Qed.

(* value order = rank order, for non-NaN patterns *)
Lemma V_ord p : V mb w p = (if neg w p then - Vmag mb (mag w p) else Vmag mb (mag w p)). Proof. reflexivity. Qed.
Theorem ord_lt_V p q : ord w p < ord w q <-> V mb w p < V mb w q.
Proof.
  unfold ord, V. pose proof (mag_bounds p) as Bp. pose proof (mag_bounds q) as Bq.
  assert (M : forall a b, 0 <= a -> 0 <= b -> (a < b <-> Vmag mb a < Vmag mb b)).
  { intros a b Ha Hb. split; intros H.
    - apply Vmag_mono. lia.
    - destruct (Z_lt_le_dec a b) as [|Hge]; [assumption|]. pose proof (Vmag_mono_le b a ltac:(lia)). lia. }
  assert (N : forall a, 0 <= a -> 0 <= Vmag mb a) by (intros a Ha; rewrite <- Vmag_0; apply Vmag_mono_le; lia).
  assert (Z0 : forall a, 0 <= a -> (Vmag mb a = 0 <-> a = 0)).
  { intros a Ha. split; [|intros ->; apply Vmag_0]. intros H. destruct (Z.eq_dec a 0) as [|Hne]; [assumption|].
    pose proof (Vmag_mono 0 a ltac:(lia)). rewrite Vmag_0 in *. lia. }
  destruct (neg w p), (neg w q).
  - specialize (M (mag w q) (mag w p) ltac:(lia) ltac:(lia)). lia.
  - pose proof (N (mag w p) ltac:(lia)). pose proof (N (mag w q) ltac:(lia)).
    pose proof (Z0 (mag w p) ltac:(lia)). pose proof (Z0 (mag w q) ltac:(lia)). lia.
  - pose proof (N (mag w p) ltac:(lia)). pose proof (N (mag w q) ltac:(lia)). lia.
  - apply M; lia.
Qed.
Corollary ord_le_V p q : ord w p <= ord w q <-> V mb w p <= V mb w q.
Proof. pose proof (ord_lt_V q p). lia. Qed.

(* ---- decomposition of a pattern *)
Lemma neg_mag_of c m : (c = 0 \/ c = 1) -> 0 <= m < S -> neg w (c * S + m) = (c =? 1) /\ mag w (c * S + m) = m.
Proof.
  intros Hc Hm. pose proof Spos. unfold neg, mag. fold S. split.
  - destruct Hc as [-> | ->]; cbn [Z.eqb Pos.eqb]; [apply Z.leb_gt | apply Z.leb_le]; lia.
  - symmetry. apply Z.mod_unique with c; lia.
Qed.
Definition good (p : Z) : Prop := pat p /\ mag w p <= max_finite mb w.          (* a finite value *)
Lemma good_split p : good p -> exists c m, (c = 0 \/ c = 1) /\ 0 <= m <= max_finite mb w /\ p = c * S + m /\ neg w p = (c =? 1) /\ mag w p = m.
Proof.
  intros [Hp Hm]. pose proof (pat_split p Hp) as E. pose proof (mag_bounds p) as B.
  exists (if neg w p then 1 else 0), (mag w p). destruct (neg w p); cbn [Z.eqb Pos.eqb]; repeat split; try lia; auto.
Qed.
Lemma max_lt_S : 1 <= max_finite mb w /\ max_finite mb w + 1 < S.
Proof. pose proof inf_mag_bounds. unfold max_finite. lia. Qed.
Lemma nan_of_good p : good p -> is_nan mb w p = false.
Proof. intros [_ H]. unfold is_nan, max_finite in *. apply Z.ltb_ge. lia. Qed.
Lemma good_of c m : (c = 0 \/ c = 1) -> 0 <= m <= max_finite mb w -> good (c * S + m) /\ ord w (c * S + m) = (if c =? 1 then - m else m).
Proof.
  intros Hc Hm. pose proof max_lt_S. pose proof Spos. destruct (neg_mag_of c m Hc ltac:(lia)) as [N M].
  split; [split|].
  - unfold pat. rewrite S2. destruct Hc as [-> | ->]; lia.
  - rewrite M. lia.
  - unfold ord. rewrite N, M. reflexivity.
Qed.

(* ---- one step up / down moves one rank *)
Theorem nextFloat_rank x : good x -> ord w x < max_finite mb w -> good (nextFloat mb w x) /\ ord w (nextFloat mb w x) = ord w x + 1.
Proof.
  intros Hx Hlt. pose proof max_lt_S as ML. pose proof Spos as SP.
  destruct (good_split x Hx) as (c & m & Hc & Hm & -> & N & M).
  destruct (good_of 0 (max_finite mb w) ltac:(lia) ltac:(lia)) as [Gy Oy]. cbn [Z.eqb Pos.eqb] in Oy. rewrite Z.mul_0_l, Z.add_0_l in Gy, Oy.
  destruct (neg_mag_of 0 (max_finite mb w) ltac:(lia) ltac:(lia)) as [Ny My]. rewrite Z.mul_0_l, Z.add_0_l in Ny, My. cbn [Z.eqb Pos.eqb] in Ny.
  assert (Ox : ord w (c * S + m) = (if c =? 1 then - m else m)) by (apply good_of; lia).
  unfold nextFloat, nextafter. rewrite (nan_of_good _ Hx), (nan_of_good _ Gy). cbn [orb]. rewrite Oy, Ox in *. rewrite M, N.
  replace ((if c =? 1 then - m else m) =? max_finite mb w) with false by (symmetry; apply Z.eqb_neq; lia).
  destruct (m =? 0) eqn:Em.
  - apply Z.eqb_eq in Em. subst m. rewrite Ny.
    destruct (good_of 0 1 ltac:(lia) ltac:(lia)) as [G1 O1]. cbn [Z.eqb Pos.eqb] in O1. rewrite Z.mul_0_l, Z.add_0_l in G1, O1.
    split; [exact G1|]. rewrite O1. destruct (c =? 1); lia.
  - apply Z.eqb_neq in Em. replace ((if c =? 1 then - m else m) <? max_finite mb w) with true by (symmetry; apply Z.ltb_lt; lia).
    destruct Hc as [-> | ->]; cbn [Z.eqb Pos.eqb] in *.
    + destruct (good_of 0 (m + 1) ltac:(lia) ltac:(lia)) as [G O]. cbn [Z.eqb Pos.eqb] in O. replace (0 * S + m + 1) with (0 * S + (m + 1)) by lia. split; [exact G | rewrite O; lia].
    + destruct (good_of 1 (m - 1) ltac:(lia) ltac:(lia)) as [G O]. cbn [Z.eqb Pos.eqb] in O. replace (1 * S + m - 1) with (1 * S + (m - 1)) by lia. split; [exact G | rewrite O; lia].
Qed.
Theorem prevFloat_rank x : good x -> - max_finite mb w < ord w x -> good (prevFloat mb w x) /\ ord w (prevFloat mb w x) = ord w x - 1.
Proof.
  intros Hx Hlt. pose proof max_lt_S as ML. pose proof Spos as SP.
  destruct (good_split x Hx) as (c & m & Hc & Hm & -> & N & M).
  destruct (good_of 1 (max_finite mb w) ltac:(lia) ltac:(lia)) as [Gy Oy]. cbn [Z.eqb Pos.eqb] in Oy. rewrite Z.mul_1_l in Gy, Oy.
  destruct (neg_mag_of 1 (max_finite mb w) ltac:(lia) ltac:(lia)) as [Ny My]. rewrite Z.mul_1_l in Ny, My. cbn [Z.eqb Pos.eqb] in Ny.
  assert (Ox : ord w (c * S + m) = (if c =? 1 then - m else m)) by (apply good_of; lia).
  unfold prevFloat, nextafter. fold S. rewrite (nan_of_good _ Hx), (nan_of_good _ Gy). cbn [orb]. rewrite Oy, Ox in *. rewrite M, N.
  replace ((if c =? 1 then - m else m) =? - max_finite mb w) with false by (symmetry; apply Z.eqb_neq; lia).
  destruct (m =? 0) eqn:Em.
  - apply Z.eqb_eq in Em. subst m. rewrite Ny.
    destruct (good_of 1 1 ltac:(lia) ltac:(lia)) as [G1 O1]. cbn [Z.eqb Pos.eqb] in O1. rewrite Z.mul_1_l in G1, O1. unfold sbit. fold (sbit w). fold S.
    split; [exact G1|]. rewrite O1. destruct (c =? 1); lia.
  - apply Z.eqb_neq in Em. replace ((if c =? 1 then - m else m) <? - max_finite mb w) with false by (symmetry; apply Z.ltb_ge; lia).
    destruct Hc as [-> | ->]; cbn [Z.eqb Pos.eqb] in *.
    + destruct (good_of 0 (m - 1) ltac:(lia) ltac:(lia)) as [G O]. cbn [Z.eqb Pos.eqb] in O. replace (0 * S + m - 1) with (0 * S + (m - 1)) by lia. split; [exact G | rewrite O; lia].
    + destruct (good_of 1 (m + 1) ltac:(lia) ltac:(lia)) as [G O]. cbn [Z.eqb Pos.eqb] in O. replace (1 * S + m + 1) with (1 * S + (m + 1)) by lia. split; [exact G | rewrite O; lia].
Qed.

(* nextFloat(x) is the smallest value greater than x; prevFloat(x) the largest value smaller than x *)
Theorem nextFloat_is_successor x : good x -> ord w x < max_finite mb w ->
  V mb w x < V mb w (nextFloat mb w x) /\ forall q, V mb w x < V mb w q -> V mb w (nextFloat mb w x) <= V mb w q.
Proof.
  intros Hx Hlt. destruct (nextFloat_rank x Hx Hlt) as [_ O]. split.
  - apply ord_lt_V. lia.
  - intros q Hq. apply ord_le_V. apply ord_lt_V in Hq. lia.
Qed.
Theorem prevFloat_is_predecessor x : good x -> - max_finite mb w < ord w x ->
  V mb w (prevFloat mb w x) < V mb w x /\ forall q, V mb w q < V mb w x -> V mb w q <= V mb w (prevFloat mb w x).
Proof.
  intros Hx Hlt. destruct (prevFloat_rank x Hx Hlt) as [_ O]. split.
  - apply ord_lt_V. lia.
  - intros q Hq. apply ord_le_V. apply ord_lt_V in Hq. lia.
Qed.

(* n steps = n ranks *)
Theorem nextFloatN_rank n : forall x, good x -> ord w x + Z.of_nat n <= max_finite mb w ->
  good (iter n (nextFloat mb w) x) /\ ord w (iter n (nextFloat mb w) x) = ord w x + Z.of_nat n.
Proof.
  induction n as [|n IH]; intros x Hx Hn; cbn [iter].
  - split; [exact Hx | lia].
  - destruct (nextFloat_rank x Hx ltac:(lia)) as [G O]. destruct (IH _ G ltac:(lia)) as [G' O']. split; [exact G' | lia].
Qed.
Theorem prevFloatN_rank n : forall x, good x -> - max_finite mb w <= ord w x - Z.of_nat n ->
  good (iter n (prevFloat mb w) x) /\ ord w (iter n (prevFloat mb w) x) = ord w x - Z.of_nat n.
Proof.
  induction n as [|n IH]; intros x Hx Hn; cbn [iter].
  - split; [exact Hx | lia].
  - destruct (prevFloat_rank x Hx ltac:(lia)) as [G O]. destruct (IH _ G ltac:(lia)) as [G' O']. split; [exact G' | lia].
Qed.

(* ---- float_t::i, the ordered line, floatDistance *)
Lemma Wpos : 0 < w. Proof. destruct F; lia. Qed.
Lemma fi_of c m : (c = 0 \/ c = 1) -> 0 <= m < S -> fi w (c * S + m) = (if c =? 1 then m - S else m).
Proof.
  intros Hc Hm. pose proof Spos. pose proof Wpos. unfold fi.
  destruct Hc as [-> | ->]; cbn [Z.eqb Pos.eqb].
  - apply norm_id; [lia|]. unfold in_T. fold (sbit w). fold S. apply andb_true_iff. split; [apply Z.leb_le | apply Z.ltb_lt]; lia.
  - replace (1 * S + m) with ((m - S) + 1 * 2 ^ w) by (rewrite S2; lia).
    rewrite norm_mod by lia. cbv zeta. rewrite Z.mod_add by (apply Z.pow_nonzero; lia). rewrite <- norm_mod by lia.
    apply norm_id; [lia|]. unfold in_T. fold (sbit w). fold S. apply andb_true_iff. split; [apply Z.leb_le | apply Z.ltb_lt]; lia.
Qed.
Lemma line_is_ord p : good p -> lineT w (fi w p) = ord w p.
Proof.
  intros Hp. pose proof max_lt_S. pose proof Spos. pose proof Wpos.
  destruct (good_split p Hp) as (c & m & Hc & Hm & -> & N & M).
  rewrite (fi_of c m Hc ltac:(lia)). unfold lineT, ord. rewrite N, M. fold (sbit w). fold S.
  destruct Hc as [-> | ->]; cbn [Z.eqb Pos.eqb].
  - replace (m <? 0) with false by (symmetry; apply Z.ltb_ge; lia). reflexivity.
  - replace (m - S <? 0) with true by (symmetry; apply Z.ltb_lt; lia). replace (- S - (m - S)) with (- m) by lia.
    apply norm_id; [lia|]. unfold in_T. fold (sbit w). fold S. apply andb_true_iff. split; [apply Z.leb_le | apply Z.ltb_lt]; lia.
Qed.
Theorem floatDistance_rank x y : good x -> good y -> Z.abs (ord w x - ord w y) < S -> floatDistance w x y = Z.abs (ord w x - ord w y).
Proof.
  intros Hx Hy Hd. pose proof Spos. pose proof Wpos. unfold floatDistance. rewrite !line_is_ord by assumption.
  assert (I : forall z, Z.abs z < S -> norm true w z = z).
  { intros z Hz. apply norm_id; [lia|]. unfold in_T. fold (sbit w). fold S. apply andb_true_iff. split; [apply Z.leb_le | apply Z.ltb_lt]; lia. }
  rewrite (I (ord w x - ord w y)) by lia. apply I. lia.
Qed.
Theorem floatDistance_of_steps x n : good x -> ord w x + Z.of_nat n <= max_finite mb w -> Z.of_nat n < S ->
  floatDistance w x (iter n (nextFloat mb w) x) = Z.of_nat n.
Proof.
  intros Hx Hn HS. destruct (nextFloatN_rank n x Hx Hn) as [G O]. pose proof max_lt_S.
  assert (Bx : - max_finite mb w <= ord w x).
  { destruct (good_split x Hx) as (c & m & Hc & Hm & -> & N & M). unfold ord. rewrite N, M. destruct (c =? 1); lia. }
  rewrite floatDistance_rank; try assumption; rewrite O; lia.
Qed.

(* ---- ULP comparison (vector / matrix overloads): rank distance <= MaxULPs *)
Theorem equalULP_vec_correct x y n : good x -> good y -> - S <= n < S ->
  equalULP_vec w x y n = (Z.abs (ord w x - ord w y) <=? n).
Proof.
  intros Hx Hy Hn. pose proof max_lt_S as ML. pose proof Spos as SP. pose proof Wpos as WP.
  destruct (good_split x Hx) as (c & m & Hc & Hm & -> & N & M). destruct (good_split y Hy) as (c' & m' & Hc' & Hm' & -> & N' & M').
  unfold equalULP_vec, same_sign_ulps, ord. rewrite N, M, N', M'. rewrite (fi_of c m Hc ltac:(lia)), (fi_of c' m' Hc' ltac:(lia)).
  assert (I : forall z, Z.abs z < S -> norm true w z = z).
  { intros z Hz. apply norm_id; [lia|]. unfold in_T. fold (sbit w). fold S. apply andb_true_iff. split; [apply Z.leb_le | apply Z.ltb_lt]; lia. }
  destruct Hc as [-> | ->], Hc' as [-> | ->]; cbn [Z.eqb Pos.eqb Bool.eqb negb].
  - rewrite (I (m - m')) by lia. rewrite I by lia. reflexivity.
  - rewrite umod_mod by lia. rewrite S2. rewrite Z.mod_small by lia. replace (Z.abs (m - - m')) with (m + m') by lia.
    destruct (0 <=? n) eqn:E; cbn [andb]; [reflexivity|]. apply Z.leb_gt in E. symmetry. apply Z.leb_gt. lia.
  - rewrite umod_mod by lia. rewrite S2. rewrite Z.mod_small by lia. replace (Z.abs (- m - m')) with (m + m') by lia.
    destruct (0 <=? n) eqn:E; cbn [andb]; [reflexivity|]. apply Z.leb_gt in E. symmetry. apply Z.leb_gt. lia.
  - replace (m - S - (m' - S)) with (m - m') by lia. rewrite (I (m - m')) by lia. rewrite I by lia. f_equal. lia.
Qed.
(* the scalar overload: correct for arguments of the same sign, false otherwise *)
Theorem equalULP_scalar_partial x y n : good x -> good y -> - S <= n < S -> neg w x = neg w y ->
  equalULP_scalar w x y n = (Z.abs (ord w x - ord w y) <=? n).
Proof.
  intros Hx Hy Hn Hs. rewrite <- equalULP_vec_correct by assumption. unfold equalULP_scalar, equalULP_vec. rewrite Hs.
  destruct (neg w y); reflexivity.
Qed.
End G.
