(* Properties_C14.v -- C14: ULP stepping and epsilon/ULP comparisons are exact on every float and double.
   * GLMM.Ulp: hand-written model on IEEE bit patterns, tied to the code by the correspondence check (nextFloat, prevFloat,
     n-step overloads, floatDistance, scalar / vector / matrix equal with MaxULPs, and the bundled nextafter).
     Theorems hold for EVERY format (mb, w) and every finite pattern; they are instantiated for float (23, 32) and
     double (52, 64).  `V` is the exact value of a pattern scaled to an integer; `ord` its rank on the ordered line.
   * Gen_C14: traces regenerated from the templates (translator T1) for the comparisons with an epsilon; real semantics:
     the one subtraction is exact (no rounding) -- see DESIGN.md for the rounding caveat.
   Refuted statements = known findings: scalar equal(x, y, ULPs) for arguments of opposite sign (+0 / -0), gtc
   epsilonEqual at |x - y| = epsilon. *)
Require Import ZArith List Bool Reals Lia.
Import ListNotations.
From GLMV Require Import SemR Expr.
From GLMM Require Import IntFn Ulp.
From W Require Gen_C14 P_C14_general P_C14_eps.
Import P_C14_general.
Local Open Scope Z_scope.

Lemma fmt_float : fmt 23 32. Proof. unfold fmt. lia. Qed.
Lemma fmt_double : fmt 52 64. Proof. unfold fmt. lia. Qed.

(* the value order of patterns is the order of their ranks (every format) *)
Theorem C14_value_order_is_rank_order : forall mb w, fmt mb w -> forall p q, ord w p < ord w q <-> V mb w p < V mb w q.
Proof. exact ord_lt_V. Qed.
(* nextFloat(x): the smallest value greater than x;  prevFloat(x): the largest value smaller than x -- negative, zero, subnormal x included *)
Theorem C14_nextFloat_float : forall x, good 23 32 x -> ord 32 x < max_finite 23 32 ->
  V 23 32 x < V 23 32 (nextFloat 23 32 x) /\ forall q, V 23 32 x < V 23 32 q -> V 23 32 (nextFloat 23 32 x) <= V 23 32 q.
Proof. exact (nextFloat_is_successor 23 32 fmt_float). Qed.
Theorem C14_prevFloat_float : forall x, good 23 32 x -> - max_finite 23 32 < ord 32 x ->
  V 23 32 (prevFloat 23 32 x) < V 23 32 x /\ forall q, V 23 32 q < V 23 32 x -> V 23 32 q <= V 23 32 (prevFloat 23 32 x).
Proof. exact (prevFloat_is_predecessor 23 32 fmt_float). Qed.
Theorem C14_nextFloat_double : forall x, good 52 64 x -> ord 64 x < max_finite 52 64 ->
  V 52 64 x < V 52 64 (nextFloat 52 64 x) /\ forall q, V 52 64 x < V 52 64 q -> V 52 64 (nextFloat 52 64 x) <= V 52 64 q.
Proof. exact (nextFloat_is_successor 52 64 fmt_double). Qed.
Theorem C14_prevFloat_double : forall x, good 52 64 x -> - max_finite 52 64 < ord 64 x ->
  V 52 64 (prevFloat 52 64 x) < V 52 64 x /\ forall q, V 52 64 q < V 52 64 x -> V 52 64 q <= V 52 64 (prevFloat 52 64 x).
Proof. exact (prevFloat_is_predecessor 52 64 fmt_double). Qed.
(* n-step overloads: n single steps move n ranks (any format) *)
Theorem C14_nextFloat_n_steps : forall mb w, fmt mb w -> forall n x, good mb w x -> ord w x + Z.of_nat n <= max_finite mb w ->
  good mb w (iter n (nextFloat mb w) x) /\ ord w (iter n (nextFloat mb w) x) = ord w x + Z.of_nat n.
Proof. exact nextFloatN_rank. Qed.
Theorem C14_prevFloat_n_steps : forall mb w, fmt mb w -> forall n x, good mb w x -> - max_finite mb w <= ord w x - Z.of_nat n ->
  good mb w (iter n (prevFloat mb w) x) /\ ord w (iter n (prevFloat mb w) x) = ord w x - Z.of_nat n.
Proof. exact prevFloatN_rank. Qed.
(* floatDistance = rank distance;  floatDistance(x, nextFloat(x, n)) = n *)
Theorem C14_floatDistance : forall mb w, fmt mb w -> forall x y, good mb w x -> good mb w y -> Z.abs (ord w x - ord w y) < sbit w ->
  floatDistance w x y = Z.abs (ord w x - ord w y).
Proof. exact floatDistance_rank. Qed.
Theorem C14_floatDistance_of_n_steps : forall mb w, fmt mb w -> forall x n, good mb w x -> ord w x + Z.of_nat n <= max_finite mb w -> Z.of_nat n < sbit w ->
  floatDistance w x (iter n (nextFloat mb w) x) = Z.of_nat n.
Proof. exact floatDistance_of_steps. Qed.
(* equal(x, y, MaxULPs), vector and matrix overloads: true exactly when the values are at most MaxULPs ranks apart (+0 = -0) *)
Theorem C14_equal_ulps_vector : forall mb w, fmt mb w -> forall x y n, good mb w x -> good mb w y -> - sbit w <= n < sbit w ->
  equalULP_vec w x y n = (Z.abs (ord w x - ord w y) <=? n).
Proof. exact equalULP_vec_correct. Qed.
(* scalar overload: only for arguments of the same sign *)
Theorem C14_equal_ulps_scalar_partial : forall mb w, fmt mb w -> forall x y n, good mb w x -> good mb w y -> - sbit w <= n < sbit w -> neg w x = neg w y ->
  equalULP_scalar w x y n = (Z.abs (ord w x - ord w y) <=? n).
Proof. exact equalULP_scalar_partial. Qed.
Theorem C14_equal_ulps_scalar_zero_refuted : exists x y, good 23 32 x /\ good 23 32 y /\ ord 32 x = ord 32 y /\ equalULP_scalar 32 x y 0 = false.
Proof. exists 0, 2147483648. vm_compute. repeat split; discriminate. Qed.

(* comparisons with an epsilon (traces of the templates; reals) *)
Import Gen_C14 P_C14_eps.
Local Open Scope R_scope.
Theorem C14_equal_epsilon_float : forall env, evalT env t_equal_eps_f32 = Some (true, [b2R (le_b (dist env F32 0) (env F32 2%Z 0%Z))]). Proof. exact equal_eps_f32. Qed.
Theorem C14_equal_epsilon_double : forall env, evalT env t_equal_eps_f64 = Some (true, [b2R (le_b (dist env F64 0) (env F64 2%Z 0%Z))]). Proof. exact equal_eps_f64. Qed.
Theorem C14_notEqual_epsilon_float : forall env, evalT env t_notEqual_eps_f32 = Some (true, [b2R (negb (le_b (dist env F32 0) (env F32 2%Z 0%Z)))]). Proof. exact notEqual_eps_f32. Qed.
Theorem C14_notEqual_epsilon_double : forall env, evalT env t_notEqual_eps_f64 = Some (true, [b2R (negb (le_b (dist env F64 0) (env F64 2%Z 0%Z)))]). Proof. exact notEqual_eps_f64. Qed.
Theorem C14_equal_epsilon_per_component : forall env, evalT env t_equal_eps_v2v = Some (true, [b2R (le_b (dist env F32 0) (env F32 2%Z 0%Z)); b2R (le_b (dist env F32 1) (env F32 2%Z 1%Z))]). Proof. exact equal_eps_v2v. Qed.
Theorem C14_notEqual_epsilon_per_component : forall env, evalT env t_notEqual_eps_v2v = Some (true, [b2R (negb (le_b (dist env F32 0) (env F32 2%Z 0%Z))); b2R (negb (le_b (dist env F32 1) (env F32 2%Z 1%Z)))]). Proof. exact notEqual_eps_v2v. Qed.
(* gtc epsilonEqual / epsilonNotEqual are STRICT: |x - y| < epsilon / >= epsilon *)
Theorem C14_epsilonEqual_is_strict_float : forall env, evalT env t_epsilonEqual_f32 = Some (true, [b2R (lt_b (dist env F32 0) (env F32 2%Z 0%Z))]). Proof. exact epsilonEqual_f32. Qed.
Theorem C14_epsilonEqual_is_strict_double : forall env, evalT env t_epsilonEqual_f64 = Some (true, [b2R (lt_b (dist env F64 0) (env F64 2%Z 0%Z))]). Proof. exact epsilonEqual_f64. Qed.
Theorem C14_epsilonNotEqual_float : forall env, evalT env t_epsilonNotEqual_f32 = Some (true, [b2R (negb (lt_b (dist env F32 0) (env F32 2%Z 0%Z)))]). Proof. exact epsilonNotEqual_f32. Qed.
Theorem C14_epsilonNotEqual_double : forall env, evalT env t_epsilonNotEqual_f64 = Some (true, [b2R (negb (lt_b (dist env F64 0) (env F64 2%Z 0%Z)))]). Proof. exact epsilonNotEqual_f64. Qed.
Theorem C14_epsilonEqual_per_component : forall env, evalT env t_epsilonEqual_v2v = Some (true, [b2R (lt_b (dist env F32 0) (env F32 2%Z 0%Z)); b2R (lt_b (dist env F32 1) (env F32 2%Z 1%Z))]). Proof. exact epsilonEqual_v2v. Qed.
Theorem C14_epsilonNotEqual_per_component : forall env, evalT env t_epsilonNotEqual_v2v = Some (true, [b2R (negb (lt_b (dist env F32 0) (env F32 2%Z 0%Z))); b2R (negb (lt_b (dist env F32 1) (env F32 2%Z 1%Z)))]). Proof. exact epsilonNotEqual_v2v. Qed.
Theorem C14_epsilonEqual_boundary_refuted : exists env, evalT env t_epsilonEqual_f32 <> Some (true, [b2R (le_b (dist env F32 0) (env F32 2%Z 0%Z))]).
Proof. exact epsilonEqual_boundary_refuted. Qed.
Local Close Scope R_scope.

(* non-vacuity: 1.0f, -0.0f, the smallest subnormal and -max are finite patterns; concrete steps *)
Example C14_examples :
  good 23 32 1065353216 /\ good 23 32 2147483648 /\ good 23 32 1 /\ good 23 32 4286578687 /\
  nextFloat 23 32 2147483648 = 1 /\ prevFloat 23 32 0 = 2147483649 /\ prevFloat 23 32 3212836864 = 3212836865 /\
  floatDistance 32 2147483649 1 = 2 /\ equalULP_vec 32 0 2147483648 0 = true /\ equalULP_vec 32 1065353216 3212836864 4 = false.
Proof. unfold good, pat. vm_compute. repeat split; try discriminate; reflexivity. Qed.

Print Assumptions C14_nextFloat_float.
Print Assumptions C14_prevFloat_double.
Print Assumptions C14_floatDistance_of_n_steps.
Print Assumptions C14_equal_ulps_vector.
Print Assumptions C14_equal_epsilon_float.
