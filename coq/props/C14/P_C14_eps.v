(* C14: comparisons with an epsilon, on the traces regenerated from the templates (Gen_C14): for every real x, y, epsilon
   the decision tree of equal / notEqual returns |x - y| <= epsilon / > epsilon per component; gtc epsilonEqual /
   epsilonNotEqual return |x - y| < epsilon / >= epsilon (strict: the documented behaviour; see the refuted statement). *)
Require Import ZArith List Bool Reals Lra.
Import ListNotations.
From GLMV Require Import SemR Expr.
From W Require Import Gen_C14.
Local Open Scope R_scope.

Definition b2R (b : bool) : R := if b then 1 else 0.
Definition le_b (a b : R) : bool := if Rle_dec a b then true else false.
Definition lt_b (a b : R) : bool := if Rlt_dec a b then true else false.
(* |x_i - y_i| for arguments 0 and 1 of kind k *)
Definition dist (env : renv) (k : kind) (i : Z) : R := Rabs (env k 0%Z i - env k 1%Z i).

Ltac tree_tac :=
  intros; match goal with |- evalT _ ?t = _ => unfold t end; cbn [evalT evalRB evalR binR unR map forallb]; rewrite ?cstR_int; unfold cmpR, dist, le_b, lt_b, b2R, Rabs;
  repeat (match goal with
          | |- context [Rcase_abs ?a] => destruct (Rcase_abs a)
          | |- context [Rle_dec ?a ?b] => destruct (Rle_dec a b)
          | |- context [Rlt_dec ?a ?b] => destruct (Rlt_dec a b)
          end; cbn [evalT evalRB evalR binR unR map forallb negb Z.eqb]);
  try reflexivity; exfalso; simpl in *; lra.

Lemma equal_eps_f32 env : evalT env t_equal_eps_f32 = Some (true, [b2R (le_b (dist env F32 0) (env F32 2%Z 0%Z))]). Proof. tree_tac. Qed.
Lemma equal_eps_f64 env : evalT env t_equal_eps_f64 = Some (true, [b2R (le_b (dist env F64 0) (env F64 2%Z 0%Z))]). Proof. tree_tac. Qed.
Lemma notEqual_eps_f32 env : evalT env t_notEqual_eps_f32 = Some (true, [b2R (negb (le_b (dist env F32 0) (env F32 2%Z 0%Z)))]). Proof. tree_tac. Qed.
Lemma notEqual_eps_f64 env : evalT env t_notEqual_eps_f64 = Some (true, [b2R (negb (le_b (dist env F64 0) (env F64 2%Z 0%Z)))]). Proof. tree_tac. Qed.
Lemma epsilonEqual_f32 env : evalT env t_epsilonEqual_f32 = Some (true, [b2R (lt_b (dist env F32 0) (env F32 2%Z 0%Z))]). Proof. tree_tac. Qed.
Lemma epsilonEqual_f64 env : evalT env t_epsilonEqual_f64 = Some (true, [b2R (lt_b (dist env F64 0) (env F64 2%Z 0%Z))]). Proof. tree_tac. Qed.
Lemma epsilonNotEqual_f32 env : evalT env t_epsilonNotEqual_f32 = Some (true, [b2R (negb (lt_b (dist env F32 0) (env F32 2%Z 0%Z)))]). Proof. tree_tac. Qed.
Lemma epsilonNotEqual_f64 env : evalT env t_epsilonNotEqual_f64 = Some (true, [b2R (negb (lt_b (dist env F64 0) (env F64 2%Z 0%Z)))]). Proof. tree_tac. Qed.
(* per-component epsilon *)
Lemma equal_eps_v2v env : evalT env t_equal_eps_v2v = Some (true, [b2R (le_b (dist env F32 0) (env F32 2%Z 0%Z)); b2R (le_b (dist env F32 1) (env F32 2%Z 1%Z))]). Proof. tree_tac. Qed.
Lemma notEqual_eps_v2v env : evalT env t_notEqual_eps_v2v = Some (true, [b2R (negb (le_b (dist env F32 0) (env F32 2%Z 0%Z))); b2R (negb (le_b (dist env F32 1) (env F32 2%Z 1%Z)))]). Proof. tree_tac. Qed.
Lemma epsilonEqual_v2v env : evalT env t_epsilonEqual_v2v = Some (true, [b2R (lt_b (dist env F32 0) (env F32 2%Z 0%Z)); b2R (lt_b (dist env F32 1) (env F32 2%Z 1%Z))]). Proof. tree_tac. Qed.
Lemma epsilonNotEqual_v2v env : evalT env t_epsilonNotEqual_v2v = Some (true, [b2R (negb (lt_b (dist env F32 0) (env F32 2%Z 0%Z))); b2R (negb (lt_b (dist env F32 1) (env F32 2%Z 1%Z)))]). Proof. tree_tac. Qed.
(* the property asks for |x - y| <= epsilon also for gtc epsilonEqual: false at |x - y| = epsilon (KNOWN FINDING: documented as strict) *)
Lemma epsilonEqual_boundary_refuted : exists env, evalT env t_epsilonEqual_f32 <> Some (true, [b2R (le_b (dist env F32 0) (env F32 2%Z 0%Z))]).
Proof.
  exists (fun _ a _ => match a with 1%Z => 0 | _ => 1 end).
  rewrite epsilonEqual_f32. unfold dist, le_b, lt_b, b2R. cbv beta iota. replace (Rabs (1 - 0)) with 1 by (replace (1 - 0) with 1 by lra; symmetry; apply Rabs_R1).
  destruct (Rlt_dec 1 1); [lra|]. destruct (Rle_dec 1 1); [|lra]. intros H. assert (E : (1 : R) = 0) by (injection H; auto). lra.
Qed.
