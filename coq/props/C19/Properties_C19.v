(* Properties_C19.v -- C19: colour-space conversions are mutually inverse and range-preserving.
   All statements are about Gen_C19, the traces regenerated on every run from GLM's templates (translator T1).
   Integer YCoCg-R: exactly lossless for EVERY triple of unbounded integers and EVERY triple of 32-bit ints under
   wrap-around arithmetic.  Floating conversions: real semantics with the binary32 values of the source constants:
   YCoCg is a linear bijection; the sRGB curves have the documented piecewise form, are monotone, fix 0 (1 up to 1e-7),
   map [0,1] into [0,1] (decode: 1 + 1e-6), keep alpha and invert each other within 1e-5 on [0,1]; saturation keeps grey
   up to the rounding of the weights; luminosity uses the documented weights.
   Refuted = known findings: explicit gamma other than 2.4, luminosity of grey, the lowp vec3 approximation below the threshold (hand model).  HSV (rgbColor has a switch on a converted
   float, outside the tracer's fragment) is covered by the oracle only. *)
Require Import ZArith List Bool Reals Lra.
Import ListNotations.
From GLMV Require Import SemR SemZ Expr.
From W Require Gen_C19 P_C19_int P_C19_real P_C19_lowp.
Import Gen_C19.

Section Int.
Import P_C19_int.
Local Open Scope Z_scope.
Theorem C19_YCoCgR_lossless_every_integer_triple : forall env, map (evalI env) (outs t_ycocgr_i_roundtrip) = [env I32 0 0; env I32 0 1; env I32 0 2].
Proof. exact ycocgr_lossless_ideal. Qed.
Theorem C19_YCoCgR_reverse_lossless_every_integer_triple : forall env, map (evalI env) (outs t_ycocgr_i_roundtrip_rev) = [env I32 0 0; env I32 0 1; env I32 0 2].
Proof. exact ycocgr_lossless_ideal_rev. Qed.
Theorem C19_YCoCgR_lossless_every_int32_triple_with_wraparound : forall env,
  evalTZ false env t_ycocgr_i_roundtrip = Some (true, [wrap I32 (env I32 0 0); wrap I32 (env I32 0 1); wrap I32 (env I32 0 2)]).
Proof. exact ycocgr_lossless_int32. Qed.
End Int.

Import P_C19_real.
Local Open Scope R_scope.
Theorem C19_YCoCg_inverse : forall env, map (evalR env) (outs t_ycocg_roundtrip) = [env F32 0%Z 0%Z; env F32 0%Z 1%Z; env F32 0%Z 2%Z]. Proof. exact ycocg_inverse. Qed.
Theorem C19_YCoCg_inverse_rev : forall env, map (evalR env) (outs t_ycocg_roundtrip_rev) = [env F32 0%Z 0%Z; env F32 0%Z 1%Z; env F32 0%Z 2%Z]. Proof. exact ycocg_inverse_rev. Qed.
Theorem C19_YCoCgR_float_inverse : forall env, map (evalR env) (outs t_ycocgr_f_roundtrip) = [env F32 0%Z 0%Z; env F32 0%Z 1%Z; env F32 0%Z 2%Z]. Proof. exact ycocgr_float_inverse. Qed.
Theorem C19_YCoCg_matrix : forall env, let r := env F32 0%Z 0%Z in let g := env F32 0%Z 1%Z in let b := env F32 0%Z 2%Z in
  map (evalR env) (outs t_rgb2ycocg) = [r / 4 + g / 2 + b / 4; r / 2 - b / 2; - r / 4 + g / 2 - b / 4]. Proof. exact ycocg_matrix. Qed.
(* the traced conversions ARE the piecewise curves L2S / S2L (and enc_g / dec_g for an explicit gamma) *)
Theorem C19_linearToSRGB_is_L2S : forall env, evalT env t_l2s_1 = Some (true, [L2S (env F32 0%Z 0%Z)]). Proof. exact l2s_tree. Qed.
Theorem C19_SRGBToLinear_is_S2L : forall env, evalT env t_s2l_1 = Some (true, [S2L (env F32 0%Z 0%Z)]). Proof. exact s2l_tree. Qed.
Theorem C19_linearToSRGB_gamma : forall env, evalT env t_l2s_1g = Some (true, [enc_g (1 / env F32 1%Z 0%Z) (env F32 0%Z 0%Z)]). Proof. exact l2s_gamma_tree. Qed.
Theorem C19_SRGBToLinear_gamma : forall env, evalT env t_s2l_1g = Some (true, [dec_g (env F32 1%Z 0%Z) (env F32 0%Z 0%Z)]). Proof. exact s2l_gamma_tree. Qed.
Theorem C19_L2S_monotone : forall x y, x <= y -> L2S x <= L2S y. Proof. exact L2S_monotone. Qed.
Theorem C19_S2L_monotone : forall x y, 0 <= x <= y -> S2L x <= S2L y. Proof. exact S2L_monotone. Qed.
Theorem C19_L2S_range : forall x, 0 <= L2S x <= 1. Proof. exact L2S_range. Qed.
Theorem C19_S2L_range : forall x, 0 <= x <= 1 -> 0 <= S2L x <= 1 + 1 / 1000000. Proof. exact S2L_range. Qed.
Theorem C19_L2S_fixes_0 : L2S 0 = 0. Proof. exact L2S_0. Qed.
Theorem C19_S2L_fixes_0 : S2L 0 = 0. Proof. exact S2L_0. Qed.
Theorem C19_L2S_fixes_1_approximately : Rabs (L2S 1 - 1) <= 1 / 10000000. Proof. exact L2S_1. Qed.
Theorem C19_S2L_fixes_1_approximately : Rabs (S2L 1 - 1) <= 1 / 1000000. Proof. exact S2L_1. Qed.
Theorem C19_S2L_inverts_L2S : forall x, 0 <= x <= 1 -> Rabs (S2L (L2S x) - x) <= 1 / 100000. Proof. exact S2L_L2S_inverse. Qed.
Theorem C19_alpha_untouched : alpha_kept t_l2s_4 && alpha_kept t_s2l_4 && alpha_kept t_l2s_4g && alpha_kept t_s2l_4g = true. Proof. exact srgb_alpha_untouched. Qed.
Theorem C19_general_gamma_refuted : exists g x, 1 <= g <= 3 /\ 0 <= x <= 1 /\ enc_g (1 / g) x < 0. Proof. exact general_gamma_refuted. Qed.
Theorem C19_saturation_formula : forall env, let s := env F32 1%Z 0%Z in let r := env F32 0%Z 0%Z in let g := env F32 0%Z 1%Z in let b := env F32 0%Z 2%Z in
  let l := (1 - s) * (w_r * r + w_g * g + w_b * b) in map (evalR env) (outs t_saturation_3) = [l + s * r; l + s * g; l + s * b]. Proof. exact saturation_formula. Qed.
Theorem C19_saturation_keeps_grey : forall env c, env F32 0%Z 0%Z = c -> env F32 0%Z 1%Z = c -> env F32 0%Z 2%Z = c ->
  let s := env F32 1%Z 0%Z in let d := c * (1 - s) * (w_r + w_g + w_b - 1) in map (evalR env) (outs t_saturation_3) = [c + d; c + d; c + d]. Proof. exact saturation_keeps_grey. Qed.
Theorem C19_luminance_weights_sum_to_1 : Rabs (w_r + w_g + w_b - 1) <= 1 / 10000000. Proof. exact weights_sum. Qed.
Theorem C19_saturation4_alpha : forall env, nth 3 (map (evalR env) (outs t_saturation_4)) 0 = env F32 0%Z 3%Z. Proof. exact saturation4_alpha. Qed.
Theorem C19_luminosity_formula : forall env, map (evalR env) (outs t_luminosity_3) = [env F32 0%Z 0%Z * (11072963 / 33554432) + env F32 0%Z 1%Z * (9898557 / 16777216) + env F32 0%Z 2%Z * (7381975 / 67108864)]. Proof. exact luminosity_formula. Qed.
Theorem C19_luminosity_grey_refuted : exists env, env F32 0%Z 0%Z = 1 /\ env F32 0%Z 1%Z = 1 /\ env F32 0%Z 2%Z = 1 /\ nth 0 (map (evalR env) (outs t_luminosity_3)) 0 > 1 + 1 / 40. Proof. exact luminosity_grey_refuted. Qed.

(* the lowp vec3 specialisation of convertLinearToSRGB (hand model P_C19_lowp.lowp_l2s, tied to the compiled function by the oracle): outside [0,1] and not monotone
   below the threshold -- a recorded finding *)
Theorem C19_lowp_range_refuted : exists x, (0 <= x <= 1 /\ P_C19_lowp.lowp_l2s x < 0)%R. Proof. exact P_C19_lowp.lowp_range_refuted. Qed.
Theorem C19_lowp_monotone_refuted : exists x y, (0 <= x < y /\ y <= 1 /\ P_C19_lowp.lowp_l2s y < P_C19_lowp.lowp_l2s x)%R. Proof. exact P_C19_lowp.lowp_monotone_refuted. Qed.
Print Assumptions C19_YCoCgR_lossless_every_int32_triple_with_wraparound.
Print Assumptions C19_lowp_range_refuted.
Print Assumptions C19_lowp_monotone_refuted.
Print Assumptions C19_YCoCgR_lossless_every_integer_triple.
Print Assumptions C19_S2L_inverts_L2S.
Print Assumptions C19_L2S_monotone.
Print Assumptions C19_alpha_untouched.
