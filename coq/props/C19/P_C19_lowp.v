(* P_C19_lowp.v -- the lowp vec3 specialisation of convertLinearToSRGB (glm/gtc/color_space.inl: a sum of three nested square roots, keyed on the
   built-in float type, so the tracing scalar cannot instantiate it).  Hand model over the reals with the decimal constants of the source; the oracle
   (oracle_C19, class "differs from the modelled formula") compares the compiled function with this formula on every sampled input.
   The statement of C19 (range [0,1], monotone) is refuted for the model below the threshold of the piecewise curve. *)
Require Import Reals Lra.
Local Open Scope R_scope.

Definition lowp_l2s (x : R) : R :=
  0.662002687 * sqrt x + 0.684122060 * sqrt (sqrt x) - 0.323583601 * sqrt (sqrt (sqrt x)) - 0.0225411470 * x.

Lemma sqrt_is (x y : R) : 0 <= y -> y * y = x -> sqrt x = y.
Proof. intros Hy H. apply sqrt_lem_1; [rewrite <- H; nra | exact Hy | exact H]. Qed.

Lemma lowp_at_2pm16 : lowp_l2s (/ 65536) < - 0.035.
Proof.
  unfold lowp_l2s.
  rewrite (sqrt_is (/ 65536) (/ 256)) by lra.
  rewrite (sqrt_is (/ 256) (/ 16)) by lra.
  rewrite (sqrt_is (/ 16) (/ 4)) by lra.
  lra.
Qed.

Lemma lowp_at_0 : lowp_l2s 0 = 0.
Proof. unfold lowp_l2s. rewrite !sqrt_0. lra. Qed.

(* outside [0,1] *)
Theorem lowp_range_refuted : exists x, 0 <= x <= 1 /\ lowp_l2s x < 0.
Proof. exists (/ 65536). split; [lra | pose proof lowp_at_2pm16; lra]. Qed.

(* not monotone: 0 < 2^-16 but the value decreases *)
Theorem lowp_monotone_refuted : exists x y, 0 <= x < y /\ y <= 1 /\ lowp_l2s y < lowp_l2s x.
Proof. exists 0, (/ 65536). rewrite lowp_at_0. pose proof lowp_at_2pm16. repeat split; lra. Qed.
