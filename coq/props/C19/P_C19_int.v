(* C19: the integer YCoCg-R lifting transform is exactly lossless -- for every triple of unbounded integers (ideal
   semantics: >> 1 is the floor of half) and for every triple of 32-bit ints with wrap-around arithmetic. *)
Require Import ZArith List Bool Lia.
Import ListNotations.
From GLMV Require Import SemZ Expr.
From W Require Import Gen_C19.
Local Open Scope Z_scope.
Ltac Zify.zify_post_hook ::= Z.div_mod_to_equations.

(* ideal integers: + - * and x >> n = floor (x / 2^n) *)
Fixpoint evalI (env : zenv) (e : expr) : Z :=
  match e with
  | V k a i => env k a i
  | Cz _ z => z
  | U Neg _ x => - evalI env x
  | B Add _ x y => evalI env x + evalI env y
  | B Sub _ x y => evalI env x - evalI env y
  | B Mul _ x y => evalI env x * evalI env y
  | B Shr _ x y => evalI env x / 2 ^ evalI env y
  | _ => 0
  end.
Definition outs (t : tree) : list expr := match t with Leaf _ o => o | _ => [] end.

Theorem ycocgr_lossless_ideal env : map (evalI env) (outs t_ycocgr_i_roundtrip) = [env I32 0 0; env I32 0 1; env I32 0 2].
Proof. unfold t_ycocgr_i_roundtrip. cbn [outs map evalI]. change (2 ^ 1) with 2. repeat f_equal; lia. Qed.
Theorem ycocgr_lossless_ideal_rev env : map (evalI env) (outs t_ycocgr_i_roundtrip_rev) = [env I32 0 0; env I32 0 1; env I32 0 2].
Proof. unfold t_ycocgr_i_roundtrip_rev. cbn [outs map evalI]. change (2 ^ 1) with 2. repeat f_equal; lia. Qed.

(* wrap-around 32-bit arithmetic: push the wraps outwards; the halved terms are atoms that cancel *)
Lemma wrap_add_l k a b : wrap k (wrap k a + b) = wrap k (a + b).
Proof. apply wrap_congr. rewrite Zplus_mod, wrap_mod, <- Zplus_mod. reflexivity. Qed.
Lemma wrap_add_r k a b : wrap k (a + wrap k b) = wrap k (a + b).
Proof. rewrite Z.add_comm, wrap_add_l. f_equal. lia. Qed.
Lemma wrap_sub_l k a b : wrap k (wrap k a - b) = wrap k (a - b).
Proof. apply wrap_congr. rewrite Zminus_mod, wrap_mod, <- Zminus_mod. reflexivity. Qed.
Lemma wrap_sub_r k a b : wrap k (a - wrap k b) = wrap k (a - b).
Proof. apply wrap_congr. rewrite Zminus_mod, wrap_mod, <- Zminus_mod. reflexivity. Qed.

(* wrap k X differs from X by a multiple of 2^width *)
Lemma wrap_diff k X : exists c, wrap k X = X + 2 ^ width k * c.
Proof.
  unfold wrap. pose proof (Z.div_mod X (2 ^ width k) ltac:(apply Z.pow_nonzero; [lia | pose proof (width_pos k); lia])) as D.
  destruct (is_signed k); [destruct (X mod 2 ^ width k <? 2 ^ (width k - 1))|].
  - exists (- (X / 2 ^ width k)). lia.
  - exists (- (X / 2 ^ width k) - 1). lia.
  - exists (- (X / 2 ^ width k)). lia.
Qed.
Lemma eqm_divide M P Q : M <> 0 -> (M | P - Q) -> P mod M = Q mod M.
Proof. intros HM [d Hd]. replace P with (Q + d * M) by lia. apply Z.mod_add. exact HM. Qed.

(* wrapped arithmetic: every wrap is replaced by  X + 2^32 c, the halved terms become atoms, and what is left of
   out - in is a combination of the multiples of 2^32 *)
Ltac abstract_wraps :=
  repeat match goal with
  | |- context [wrap I32 ?X] =>
      lazymatch X with
      | context [wrap I32 _] => fail
      | _ => let w := fresh "w" in let c := fresh "c" in let Hc := fresh "Hc" in
             destruct (wrap_diff I32 X) as [c Hc]; set (w := wrap I32 X) in *; clearbody w
      end
  end.
Ltac abstract_halves := repeat match goal with
  | |- context [?a / 2] => let q := fresh "q" in set (q := a / 2) in *; clearbody q
  | H : context [?a / 2] |- _ => let q := fresh "q" in set (q := a / 2) in *; clearbody q
  end.
Ltac divide_sum :=
  match goal with
  | |- (_ | _ + _) => apply Z.divide_add_r; divide_sum
  | |- (_ | _ - _) => apply Z.divide_sub_r; divide_sum
  | |- (_ | - _) => apply Z.divide_opp_r; divide_sum
  | |- (_ | ?k * _) => apply Z.divide_mul_l; exists (k / 4294967296); reflexivity
  | |- (_ | 0) => apply Z.divide_0_r
  end.
Ltac modular := apply wrap_congr; change (2 ^ width I32) with 4294967296; abstract_wraps; change (2 ^ width I32) with 4294967296 in *; abstract_halves;
  apply eqm_divide; [discriminate|]; subst;
  match goal with |- (_ | ?e) => ring_simplify e end; divide_sum.

Theorem ycocgr_lossless_int32 env : evalTZ false env t_ycocgr_i_roundtrip = Some (true, [wrap I32 (env I32 0 0); wrap I32 (env I32 0 1); wrap I32 (env I32 0 2)]).
Proof.
  unfold t_ycocgr_i_roundtrip. cbn [evalTZ omap evalZB evalZ obind is_int binZ arith andb is_signed negb forallb width Z.ltb Z.leb Z.compare orb Pos.compare Pos.compare_cont].
  change (2 ^ 1) with 2.
  match goal with |- Some (true, [?a; ?b; ?c]) = Some (true, [?x; ?y; ?z]) =>
    assert (Ea : a = x) by modular; assert (Eb : b = y) by modular; assert (Ec : c = z) by modular; rewrite Ea, Eb, Ec; reflexivity end.
Qed.
(* the reverse composite rgb2YCoCgR(YCoCgR2rgb(x)) = x over wrapped ints needs a staged argument (Co' = Co before the halves cancel); only the ideal-integer form above is proved *)
